-- root of the library: everything that `lake build SkinnyVerif` must check
import SkinnyVerif.Basic.Tactics
import SkinnyVerif.Basic.Lanes
import SkinnyVerif.Basic.Finite
import SkinnyVerif.Basic.Bytes
import SkinnyVerif.Spec.Skinny
import SkinnyVerif.Spec.Mantis
import SkinnyVerif.Spec.Modes
import SkinnyVerif.Spec.Vectors
import SkinnyVerif.Gen.Facts
import SkinnyVerif.Gen.Skinny128LeafLanes
import SkinnyVerif.Gen.Skinny64LeafLanes
import SkinnyVerif.Gen.MantisLeafLanes
import SkinnyVerif.Impl.Skinny
import SkinnyVerif.Impl.Mantis
import SkinnyVerif.Impl.Modes
import SkinnyVerif.Api.World
import SkinnyVerif.Lemmas.Tables
