/-
Hand model of the glue in `src/mantis-cipher.c`: validation, mode dispatch, the two round
loops with the round-constant pointer walking up and back down.  Bit-level steps are the
generated pieces (`MantisOps`).
-/
import SkinnyVerif.Basic.Bytes
import SkinnyVerif.Impl.Ops
import SkinnyVerif.Impl.Skinny

namespace SkinnyVerif.Impl

/-- `MantisKey_t` -/
structure MantisKey where
  k0 : BitVec 64
  k0prime : BitVec 64
  k1 : BitVec 64
  tweak : BitVec 64
  rounds : Nat
deriving Repr, DecidableEq, Inhabited

/-- 36-byte memory image of a `MantisKey_t` (field order of the C struct) -/
def MantisKey.image (k : MantisKey) : BitVec 288 :=
  k.k0.setWidth 288 ||| (k.k0prime.setWidth 288 <<< 64) ||| (k.k1.setWidth 288 <<< 128) |||
  (k.tweak.setWidth 288 <<< 192) ||| ((BitVec.ofNat 32 k.rounds).setWidth 288 <<< 256)

def MantisKey.ofImage (x : BitVec 288) : MantisKey :=
  { k0 := x.extractLsb' 0 64, k0prime := x.extractLsb' 64 64, k1 := x.extractLsb' 128 64,
    tweak := x.extractLsb' 192 64, rounds := (x.extractLsb' 256 32).toNat }

def mantisMinRounds := 5
def mantisMaxRounds := 8

/-- `mantis_set_key` on a non-null schedule -/
def mantisSetKey (o : MantisOps) (ks : MantisKey) (key : Option Bytes) (size rounds : Nat) (mode : Int) :
    Nat × MantisKey :=
  if mantisSetKeyGuard false key.isNone size rounds mode then (0, ks)
  else match key with
    | none => (0, ks)
    | some k =>
      let img := if mode = 1 then (o.setKeyEnc (image 128 k)).2 else (o.setKeyDec (image 128 k)).2
      (1, { MantisKey.ofImage img with rounds := rounds })

/-- `mantis_set_tweak` -/
def mantisSetTweak (o : MantisOps) (ks : MantisKey) (tweak : Option Bytes) (size : Nat) : Nat × MantisKey :=
  if mantisSetTweakGuard false tweak.isNone size then (0, ks)
  else match tweak with
    | some t => (1, { ks with tweak := o.unpack0 (image 128 (t.take 8)) })
    | none => (1, { ks with tweak := 0 })

/-- `mantis_swap_modes` -/
def mantisSwapModes (o : MantisOps) (ks : MantisKey) : MantisKey :=
  { MantisKey.ofImage (o.swapModes ks.image) with rounds := ks.rounds }

/-- `mantis_ecb_crypt` -/
def mantisCrypt (o : MantisOps) (ks : MantisKey) (input : Bytes) : Bytes :=
  let (st, tw, k1) := o.pre (image 64 input) ks.image
  let r := (List.range ks.rounds).foldl
    (fun (acc : BitVec 64 × BitVec 64) i => o.fwd acc.1 acc.2 k1 (o.rc.getD i 0)) (st, tw)
  let (st, k1) := o.mid r.1 k1
  let r := (List.range ks.rounds).foldl
    (fun (acc : BitVec 64 × BitVec 64) i => o.bwd acc.1 acc.2 k1 (o.rc.getD (ks.rounds - 1 - i) 0)) (st, r.2)
  bytesOf 8 (o.post r.1 r.2 k1 ks.image)

/-- `mantis_ecb_crypt_tweaked` (separate C code: the tweak comes from the caller) -/
def mantisCryptTweaked (o : MantisOps) (ks : MantisKey) (tweak input : Bytes) : Bytes :=
  let (st, tw, k1) := o.preT (image 64 input) ks.image (image 64 tweak)
  let r := (List.range ks.rounds).foldl
    (fun (acc : BitVec 64 × BitVec 64) i => o.fwdT acc.1 acc.2 k1 (o.rc.getD i 0)) (st, tw)
  let (st, k1) := o.midT r.1 k1
  let r := (List.range ks.rounds).foldl
    (fun (acc : BitVec 64 × BitVec 64) i => o.bwdT acc.1 acc.2 k1 (o.rc.getD (ks.rounds - 1 - i) 0)) (st, r.2)
  bytesOf 8 (o.postT r.1 r.2 k1 ks.image)

end SkinnyVerif.Impl
