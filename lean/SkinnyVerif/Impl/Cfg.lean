/-
Build configuration of the C library: the five `#if` switches of `src/skinny-internal.h`.
The scalar cipher code depends only on `w64` and `le`; the generated layer has one set of
definitions for each of the four combinations (`Tag`).
-/
namespace SkinnyVerif.Impl

structure Cfg where
  w64 : Bool := true
  le : Bool := true
  unaligned : Bool := true
  vec128 : Bool := true
  vec256 : Bool := true
deriving Repr, DecidableEq, Inhabited

inductive Tag | c64le | c32le | c64be | c32be
deriving Repr, DecidableEq, Inhabited

def Cfg.tag (c : Cfg) : Tag :=
  match c.w64, c.le with
  | true, true => .c64le
  | false, true => .c32le
  | true, false => .c64be
  | false, false => .c32be

def Tag.all : List Tag := [.c64le, .c32le, .c64be, .c32be]

end SkinnyVerif.Impl
