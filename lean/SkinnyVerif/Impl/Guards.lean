/-
The argument-validation conditions at the head of the public key/tweak setters, as the
translator reads them off the C source (`Gen/Guards.lean`, regenerated on every run).
-/
import SkinnyVerif.Gen.Guards

namespace SkinnyVerif.Impl
open SkinnyVerif.Gen

/-- `guard ksNull argNull size = true` means the call is rejected (returns 0) -/
structure SkinnyGuards where
  setKey : Bool → Bool → BitVec 32 → Bool
  setTweakedKey : Bool → Bool → BitVec 32 → Bool
  setTweak : Bool → Bool → BitVec 32 → Bool

def guards128 : SkinnyGuards := ⟨skinny128_set_key_guard, skinny128_set_tweaked_key_guard, skinny128_set_tweak_guard⟩
def guards64 : SkinnyGuards := ⟨skinny64_set_key_guard, skinny64_set_tweaked_key_guard, skinny64_set_tweak_guard⟩

/-- `mantis_set_key(ks, key, size, rounds, mode)` and `mantis_set_tweak(ks, tweak, size)` -/
def mantisSetKeyGuard (ksNull keyNull : Bool) (size rounds : Nat) (mode : Int) : Bool :=
  mantis_set_key_guard ksNull keyNull (BitVec.ofNat 32 size) (BitVec.ofNat 32 rounds) (BitVec.ofInt 32 mode)
def mantisSetTweakGuard (ksNull tweakNull : Bool) (size : Nat) : Bool :=
  mantis_set_tweak_guard ksNull tweakNull (BitVec.ofNat 32 size)

end SkinnyVerif.Impl
