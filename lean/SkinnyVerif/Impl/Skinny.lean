/-
Hand model of the glue in `src/skinny128-cipher.c` and `src/skinny64-cipher.c`: argument
validation, key-length dispatch, the loops over the rounds.  Every bit-level step is a call
into the generated layer (`SkinnyOps`); this file only mirrors the control structure of the
C functions, one Lean function per C function, same order of steps.
-/
import SkinnyVerif.Basic.Bytes
import SkinnyVerif.Impl.Ops
import SkinnyVerif.Impl.Guards

namespace SkinnyVerif.Impl

/-- undefined behaviour the model makes explicit -/
inductive Fault | nullDeref | useAfterFree | wildFree | uninit
deriving Repr, DecidableEq

structure SkinnyParams where
  bs : Nat          -- block size in bytes
  r1 : Nat          -- rounds with one tweakey word
  r2 : Nat
  r3 : Nat
  maxRounds : Nat
deriving Repr

def p128 : SkinnyParams := ⟨16, 40, 48, 56, 56⟩
def p64 : SkinnyParams := ⟨8, 32, 36, 40, 40⟩

/-- `Skinny128Key_t` / `Skinny64Key_t`: the schedule array always has `maxRounds` entries -/
structure KeySched (h : Nat) where
  rounds : Nat
  sched : List (BitVec h)
deriving Repr, DecidableEq

/-- `Skinny128TweakedKey_t` / `Skinny64TweakedKey_t` -/
structure TweakedKey (h : Nat) where
  ks : KeySched h
  tweak : Bytes
deriving Repr, DecidableEq

variable {b h : Nat}

/-- the schedule loop shared by `set_tk1`, `xor_tk1`, `set_tk2`, `set_tk3`:
`for (index = 0; index < rounds; ++index)` updating `schedule[index]` and the running state -/
def schedFold {α σ : Type} (step : α → σ → α × σ) (d : α) (r : Nat) (sched : List α) (s : σ) : List α × σ :=
  (List.range r).foldl (fun acc i => let p := step (acc.1.getD i d) acc.2; (acc.1.set i p.1, p.2)) (sched, s)

/-- `skinnyN_set_tk1`: the key is a full block here (`set_key_inner` never passes less) -/
def setTk1 (o : SkinnyOps b h) (ks : KeySched h) (key : Bytes) (tweaked : Bool) : KeySched h :=
  let ld := o.tk1Load (image b key)
  let step := if tweaked then o.tk1Step1 else o.tk1Step0
  let r := schedFold (fun (_ : BitVec h) (s : BitVec b × BitVec 8) => let p := step s.1 s.2; (p.1, (p.2.1, p.2.2))) 0
    ks.rounds ks.sched (ld.1, ld.2)
  { ks with sched := r.1 }

/-- `skinnyN_xor_tk1` -/
def xorTk1 (o : SkinnyOps b h) (ks : KeySched h) (key : Bytes) : KeySched h :=
  let tk := o.xorTk1Load (image b key)
  let r := schedFold o.xorTk1Step 0 ks.rounds ks.sched tk
  { ks with sched := r.1 }

/-- `skinnyN_set_tk2` / `_tk3` (`which = false` / `true`); `junk` is the prior content of the
local `tk` (read only if the generated loader says so) -/
def setTkN (o : SkinnyOps b h) (which : Bool) (ks : KeySched h) (key : Bytes) (keySize : Nat)
    (junk : BitVec b) : KeySched h :=
  let tk := (if which then o.tk3Load else o.tk2Load) keySize junk (image b (key.take keySize))
  let step := if which then o.tk3Step else o.tk2Step
  let r := schedFold step 0 ks.rounds ks.sched tk
  { ks with sched := r.1 }

/-- `skinnyN_set_key_inner` -/
def setKeyInner (o : SkinnyOps b h) (p : SkinnyParams) (ks : KeySched h) (key : Bytes) (keySize : Nat)
    (tweak : Option Bytes) (junk2 junk3 : BitVec b) : KeySched h :=
  match tweak with
  | none =>
    if keySize = p.bs then
      setTk1 o { ks with rounds := p.r1 } key false
    else if keySize ≤ 2 * p.bs then
      let ks := setTk1 o { ks with rounds := p.r2 } key false
      setTkN o false ks (key.drop p.bs) (keySize - p.bs) junk2
    else
      let ks := setTk1 o { ks with rounds := p.r3 } key false
      let ks := setTkN o false ks (key.drop p.bs) p.bs junk2
      setTkN o true ks (key.drop (2 * p.bs)) (keySize - 2 * p.bs) junk3
  | some tw =>
    if keySize = p.bs then
      let ks := setTk1 o { ks with rounds := p.r2 } tw true
      setTkN o false ks key keySize junk2
    else
      let ks := setTk1 o { ks with rounds := p.r3 } tw true
      let ks := setTkN o false ks key p.bs junk2
      setTkN o true ks (key.drop p.bs) (keySize - p.bs) junk3

/-- `skinnyN_set_key` on a non-null schedule; `key = none` models a null key pointer.  The
validation is the guard read off the C source; `size` is the C `unsigned` (taken mod 2^32). -/
def setKey (o : SkinnyOps b h) (g : SkinnyGuards) (p : SkinnyParams) (ks : KeySched h) (key : Option Bytes) (size : Nat)
    (junk2 junk3 : BitVec b) : Nat × KeySched h :=
  if g.setKey false key.isNone (BitVec.ofNat 32 size) then (0, ks)
  else match key with
    | none => (0, ks)
    | some k => (1, setKeyInner o p ks k size none junk2 junk3)

/-- `skinnyN_set_tweaked_key` -/
def setTweakedKey (o : SkinnyOps b h) (g : SkinnyGuards) (p : SkinnyParams) (tk : TweakedKey h) (key : Option Bytes) (size : Nat)
    (junk2 junk3 : BitVec b) : Nat × TweakedKey h :=
  if g.setTweakedKey false key.isNone (BitVec.ofNat 32 size) then (0, tk)
  else match key with
    | none => (0, tk)
    | some k =>
      let tw := zeros p.bs
      (1, { ks := setKeyInner o p tk.ks k size (some tw) junk2 junk3, tweak := tw })

/-- the tweak bytes a `set_tweak` call stores: `tweak_size` bytes then zeros; all zeros for NULL -/
def tweakBytes (bs : Nat) (tweak : Option Bytes) (size : Nat) : Bytes :=
  match tweak with
  | none => zeros bs
  | some t => padRight bs (t.take size)

/-- `skinnyN_set_tweak`; `tweak = none` models a null pointer (documented: the all-zero tweak).
The C code copies `tweak_size` bytes and zero-fills the rest, or zero-fills everything for NULL. -/
def setTweak (o : SkinnyOps b h) (g : SkinnyGuards) (p : SkinnyParams) (tk : TweakedKey h) (tweak : Option Bytes)
    (size : Nat) : Nat × TweakedKey h :=
  if g.setTweak false tweak.isNone (BitVec.ofNat 32 size) then (0, tk)
  else
    let new := tweakBytes p.bs tweak size
    let ks := xorTk1 o tk.ks tk.tweak
    (1, { ks := xorTk1 o ks new, tweak := new })

/-- `skinnyN_ecb_encrypt` -/
def ecbEncrypt (o : SkinnyOps b h) (p : SkinnyParams) (ks : KeySched h) (input : Bytes) : Bytes :=
  let st := o.encLoad (image b input)
  let st := (List.range ks.rounds).foldl (fun st i => o.encRound st (ks.sched.getD i 0)) st
  bytesOf p.bs (o.encStore st)

/-- `skinnyN_ecb_decrypt` (schedule walked backwards from `rounds - 1`) -/
def ecbDecrypt (o : SkinnyOps b h) (p : SkinnyParams) (ks : KeySched h) (input : Bytes) : Bytes :=
  let st := o.decLoad (image b input)
  let st := (List.range ks.rounds).foldl (fun st i => o.decRound st (ks.sched.getD (ks.rounds - 1 - i) 0)) st
  bytesOf p.bs (o.decStore st)

end SkinnyVerif.Impl
