/-
Tables of the generated (translated-from-C) pieces per build configuration.  The hand model
in `Impl/*.lean` is written once against these records; `Gen` supplies one instance per
configuration tag.  (Mechanical file: one line per generated definition.)
-/
import SkinnyVerif.Impl.Cfg
import SkinnyVerif.Gen.Skinny128Pieces
import SkinnyVerif.Gen.Skinny64Pieces
import SkinnyVerif.Gen.MantisPieces
import SkinnyVerif.Gen.CounterLeaf

namespace SkinnyVerif.Impl
open SkinnyVerif.Gen

/-- generated pieces of `skinny128-cipher.c` / `skinny64-cipher.c`; `b` = block bits, `h` = half-block bits -/
structure SkinnyOps (b h : Nat) where
  encLoad : BitVec b → BitVec b
  encRound : BitVec b → BitVec h → BitVec b
  encStore : BitVec b → BitVec b
  decLoad : BitVec b → BitVec b
  decRound : BitVec b → BitVec h → BitVec b
  decStore : BitVec b → BitVec b
  tk1Load : BitVec b → BitVec b × BitVec 8
  tk1Step0 : BitVec b → BitVec 8 → BitVec h × BitVec b × BitVec 8
  tk1Step1 : BitVec b → BitVec 8 → BitVec h × BitVec b × BitVec 8
  xorTk1Load : BitVec b → BitVec b
  xorTk1Step : BitVec h → BitVec b → BitVec h × BitVec b
  tk2Load : Nat → BitVec b → BitVec b → BitVec b
  tk2Step : BitVec h → BitVec b → BitVec h × BitVec b
  tk3Load : Nat → BitVec b → BitVec b → BitVec b
  tk3Step : BitVec h → BitVec b → BitVec h × BitVec b
  loadUsesJunk : Bool

def ops128 : Tag → SkinnyOps 128 64
  | .c64le => { encLoad := skinny128_ecb_encrypt_load_64le, encRound := skinny128_ecb_encrypt_round_64le, encStore := skinny128_ecb_encrypt_store_64le, decLoad := skinny128_ecb_decrypt_load_64le, decRound := skinny128_ecb_decrypt_round_64le, decStore := skinny128_ecb_decrypt_store_64le, tk1Load := skinny128_set_tk1_load_64le, tk1Step0 := skinny128_set_tk1_step_t0_64le, tk1Step1 := skinny128_set_tk1_step_t1_64le, xorTk1Load := skinny128_xor_tk1_load_64le, xorTk1Step := skinny128_xor_tk1_step_64le, tk2Load := skinny128_set_tk2_load_64le, tk2Step := skinny128_set_tk2_step_64le, tk3Load := skinny128_set_tk3_load_64le, tk3Step := skinny128_set_tk3_step_64le, loadUsesJunk := skinny128_set_tk2_load_64le.usesJunk || skinny128_set_tk3_load_64le.usesJunk }
  | .c32le => { encLoad := skinny128_ecb_encrypt_load_32le, encRound := skinny128_ecb_encrypt_round_32le, encStore := skinny128_ecb_encrypt_store_32le, decLoad := skinny128_ecb_decrypt_load_32le, decRound := skinny128_ecb_decrypt_round_32le, decStore := skinny128_ecb_decrypt_store_32le, tk1Load := skinny128_set_tk1_load_32le, tk1Step0 := skinny128_set_tk1_step_t0_32le, tk1Step1 := skinny128_set_tk1_step_t1_32le, xorTk1Load := skinny128_xor_tk1_load_32le, xorTk1Step := skinny128_xor_tk1_step_32le, tk2Load := skinny128_set_tk2_load_32le, tk2Step := skinny128_set_tk2_step_32le, tk3Load := skinny128_set_tk3_load_32le, tk3Step := skinny128_set_tk3_step_32le, loadUsesJunk := skinny128_set_tk2_load_32le.usesJunk || skinny128_set_tk3_load_32le.usesJunk }
  | .c64be => { encLoad := skinny128_ecb_encrypt_load_64be, encRound := skinny128_ecb_encrypt_round_64be, encStore := skinny128_ecb_encrypt_store_64be, decLoad := skinny128_ecb_decrypt_load_64be, decRound := skinny128_ecb_decrypt_round_64be, decStore := skinny128_ecb_decrypt_store_64be, tk1Load := skinny128_set_tk1_load_64be, tk1Step0 := skinny128_set_tk1_step_t0_64be, tk1Step1 := skinny128_set_tk1_step_t1_64be, xorTk1Load := skinny128_xor_tk1_load_64be, xorTk1Step := skinny128_xor_tk1_step_64be, tk2Load := skinny128_set_tk2_load_64be, tk2Step := skinny128_set_tk2_step_64be, tk3Load := skinny128_set_tk3_load_64be, tk3Step := skinny128_set_tk3_step_64be, loadUsesJunk := skinny128_set_tk2_load_64be.usesJunk || skinny128_set_tk3_load_64be.usesJunk }
  | .c32be => { encLoad := skinny128_ecb_encrypt_load_32be, encRound := skinny128_ecb_encrypt_round_32be, encStore := skinny128_ecb_encrypt_store_32be, decLoad := skinny128_ecb_decrypt_load_32be, decRound := skinny128_ecb_decrypt_round_32be, decStore := skinny128_ecb_decrypt_store_32be, tk1Load := skinny128_set_tk1_load_32be, tk1Step0 := skinny128_set_tk1_step_t0_32be, tk1Step1 := skinny128_set_tk1_step_t1_32be, xorTk1Load := skinny128_xor_tk1_load_32be, xorTk1Step := skinny128_xor_tk1_step_32be, tk2Load := skinny128_set_tk2_load_32be, tk2Step := skinny128_set_tk2_step_32be, tk3Load := skinny128_set_tk3_load_32be, tk3Step := skinny128_set_tk3_step_32be, loadUsesJunk := skinny128_set_tk2_load_32be.usesJunk || skinny128_set_tk3_load_32be.usesJunk }

def ops64 : Tag → SkinnyOps 64 32
  | .c64le => { encLoad := skinny64_ecb_encrypt_load_64le, encRound := skinny64_ecb_encrypt_round_64le, encStore := skinny64_ecb_encrypt_store_64le, decLoad := skinny64_ecb_decrypt_load_64le, decRound := skinny64_ecb_decrypt_round_64le, decStore := skinny64_ecb_decrypt_store_64le, tk1Load := skinny64_set_tk1_load_64le, tk1Step0 := skinny64_set_tk1_step_t0_64le, tk1Step1 := skinny64_set_tk1_step_t1_64le, xorTk1Load := skinny64_xor_tk1_load_64le, xorTk1Step := skinny64_xor_tk1_step_64le, tk2Load := skinny64_set_tk2_load_64le, tk2Step := skinny64_set_tk2_step_64le, tk3Load := skinny64_set_tk3_load_64le, tk3Step := skinny64_set_tk3_step_64le, loadUsesJunk := skinny64_set_tk2_load_64le.usesJunk || skinny64_set_tk3_load_64le.usesJunk }
  | .c32le => { encLoad := skinny64_ecb_encrypt_load_32le, encRound := skinny64_ecb_encrypt_round_32le, encStore := skinny64_ecb_encrypt_store_32le, decLoad := skinny64_ecb_decrypt_load_32le, decRound := skinny64_ecb_decrypt_round_32le, decStore := skinny64_ecb_decrypt_store_32le, tk1Load := skinny64_set_tk1_load_32le, tk1Step0 := skinny64_set_tk1_step_t0_32le, tk1Step1 := skinny64_set_tk1_step_t1_32le, xorTk1Load := skinny64_xor_tk1_load_32le, xorTk1Step := skinny64_xor_tk1_step_32le, tk2Load := skinny64_set_tk2_load_32le, tk2Step := skinny64_set_tk2_step_32le, tk3Load := skinny64_set_tk3_load_32le, tk3Step := skinny64_set_tk3_step_32le, loadUsesJunk := skinny64_set_tk2_load_32le.usesJunk || skinny64_set_tk3_load_32le.usesJunk }
  | .c64be => { encLoad := skinny64_ecb_encrypt_load_64be, encRound := skinny64_ecb_encrypt_round_64be, encStore := skinny64_ecb_encrypt_store_64be, decLoad := skinny64_ecb_decrypt_load_64be, decRound := skinny64_ecb_decrypt_round_64be, decStore := skinny64_ecb_decrypt_store_64be, tk1Load := skinny64_set_tk1_load_64be, tk1Step0 := skinny64_set_tk1_step_t0_64be, tk1Step1 := skinny64_set_tk1_step_t1_64be, xorTk1Load := skinny64_xor_tk1_load_64be, xorTk1Step := skinny64_xor_tk1_step_64be, tk2Load := skinny64_set_tk2_load_64be, tk2Step := skinny64_set_tk2_step_64be, tk3Load := skinny64_set_tk3_load_64be, tk3Step := skinny64_set_tk3_step_64be, loadUsesJunk := skinny64_set_tk2_load_64be.usesJunk || skinny64_set_tk3_load_64be.usesJunk }
  | .c32be => { encLoad := skinny64_ecb_encrypt_load_32be, encRound := skinny64_ecb_encrypt_round_32be, encStore := skinny64_ecb_encrypt_store_32be, decLoad := skinny64_ecb_decrypt_load_32be, decRound := skinny64_ecb_decrypt_round_32be, decStore := skinny64_ecb_decrypt_store_32be, tk1Load := skinny64_set_tk1_load_32be, tk1Step0 := skinny64_set_tk1_step_t0_32be, tk1Step1 := skinny64_set_tk1_step_t1_32be, xorTk1Load := skinny64_xor_tk1_load_32be, xorTk1Step := skinny64_xor_tk1_step_32be, tk2Load := skinny64_set_tk2_load_32be, tk2Step := skinny64_set_tk2_step_32be, tk3Load := skinny64_set_tk3_load_32be, tk3Step := skinny64_set_tk3_step_32be, loadUsesJunk := skinny64_set_tk2_load_32be.usesJunk || skinny64_set_tk3_load_32be.usesJunk }

/-- generated pieces of `mantis-cipher.c` (all objects are 64-bit images; `ks` is the 36-byte
image of `MantisKey_t`: k0, k0prime, k1, tweak, rounds) -/
structure MantisOps where
  pre : BitVec 64 → BitVec 288 → BitVec 64 × BitVec 64 × BitVec 64
  fwd : BitVec 64 → BitVec 64 → BitVec 64 → BitVec 64 → BitVec 64 × BitVec 64
  mid : BitVec 64 → BitVec 64 → BitVec 64 × BitVec 64
  bwd : BitVec 64 → BitVec 64 → BitVec 64 → BitVec 64 → BitVec 64 × BitVec 64
  post : BitVec 64 → BitVec 64 → BitVec 64 → BitVec 288 → BitVec 64
  preT : BitVec 64 → BitVec 288 → BitVec 64 → BitVec 64 × BitVec 64 × BitVec 64
  fwdT : BitVec 64 → BitVec 64 → BitVec 64 → BitVec 64 → BitVec 64 × BitVec 64
  midT : BitVec 64 → BitVec 64 → BitVec 64 × BitVec 64
  bwdT : BitVec 64 → BitVec 64 → BitVec 64 → BitVec 64 → BitVec 64 × BitVec 64
  postT : BitVec 64 → BitVec 64 → BitVec 64 → BitVec 288 → BitVec 64
  rc : List (BitVec 64)
  swapModes : BitVec 288 → BitVec 288
  unpack0 : BitVec 128 → BitVec 64
  unpack8 : BitVec 128 → BitVec 64
  unpackRot : BitVec 64 → BitVec 64
  setKeyEnc : BitVec 128 → BitVec 32 × BitVec 288
  setKeyDec : BitVec 128 → BitVec 32 × BitVec 288

def opsMantis : Tag → MantisOps
  | .c64le => { pre := mantis_ecb_crypt_pre_64le, fwd := mantis_ecb_crypt_fwd_64le, mid := mantis_ecb_crypt_mid_64le, bwd := mantis_ecb_crypt_bwd_64le, post := mantis_ecb_crypt_post_64le, preT := mantis_ecb_crypt_tweaked_pre_64le, fwdT := mantis_ecb_crypt_tweaked_fwd_64le, midT := mantis_ecb_crypt_tweaked_mid_64le, bwdT := mantis_ecb_crypt_tweaked_bwd_64le, postT := mantis_ecb_crypt_tweaked_post_64le, rc := mantis_rc_64le, swapModes := mantis_swap_modes_64le, unpack0 := mantis_unpack_block_le_0, unpack8 := mantis_unpack_block_le_8, unpackRot := mantis_unpack_rotated_block_le, setKeyEnc := mantis_set_key_enc_64le, setKeyDec := mantis_set_key_dec_64le }
  | .c32le => { pre := mantis_ecb_crypt_pre_32le, fwd := mantis_ecb_crypt_fwd_32le, mid := mantis_ecb_crypt_mid_32le, bwd := mantis_ecb_crypt_bwd_32le, post := mantis_ecb_crypt_post_32le, preT := mantis_ecb_crypt_tweaked_pre_32le, fwdT := mantis_ecb_crypt_tweaked_fwd_32le, midT := mantis_ecb_crypt_tweaked_mid_32le, bwdT := mantis_ecb_crypt_tweaked_bwd_32le, postT := mantis_ecb_crypt_tweaked_post_32le, rc := mantis_rc_32le, swapModes := mantis_swap_modes_32le, unpack0 := mantis_unpack_block_le_0, unpack8 := mantis_unpack_block_le_8, unpackRot := mantis_unpack_rotated_block_le, setKeyEnc := mantis_set_key_enc_32le, setKeyDec := mantis_set_key_dec_32le }
  | .c64be => { pre := mantis_ecb_crypt_pre_64be, fwd := mantis_ecb_crypt_fwd_64be, mid := mantis_ecb_crypt_mid_64be, bwd := mantis_ecb_crypt_bwd_64be, post := mantis_ecb_crypt_post_64be, preT := mantis_ecb_crypt_tweaked_pre_64be, fwdT := mantis_ecb_crypt_tweaked_fwd_64be, midT := mantis_ecb_crypt_tweaked_mid_64be, bwdT := mantis_ecb_crypt_tweaked_bwd_64be, postT := mantis_ecb_crypt_tweaked_post_64be, rc := mantis_rc_64be, swapModes := mantis_swap_modes_64be, unpack0 := mantis_unpack_block_be_0, unpack8 := mantis_unpack_block_be_8, unpackRot := mantis_unpack_rotated_block_be, setKeyEnc := mantis_set_key_enc_64be, setKeyDec := mantis_set_key_dec_64be }
  | .c32be => { pre := mantis_ecb_crypt_pre_32be, fwd := mantis_ecb_crypt_fwd_32be, mid := mantis_ecb_crypt_mid_32be, bwd := mantis_ecb_crypt_bwd_32be, post := mantis_ecb_crypt_post_32be, preT := mantis_ecb_crypt_tweaked_pre_32be, fwdT := mantis_ecb_crypt_tweaked_fwd_32be, midT := mantis_ecb_crypt_tweaked_mid_32be, bwdT := mantis_ecb_crypt_tweaked_bwd_32be, postT := mantis_ecb_crypt_tweaked_post_32be, rc := mantis_rc_32be, swapModes := mantis_swap_modes_32be, unpack0 := mantis_unpack_block_be_0, unpack8 := mantis_unpack_block_be_8, unpackRot := mantis_unpack_rotated_block_be, setKeyEnc := mantis_set_key_enc_32be, setKeyDec := mantis_set_key_dec_32be }

end SkinnyVerif.Impl
