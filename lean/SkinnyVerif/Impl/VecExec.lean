/-
Executable form of the vector back ends of parallel ECB, for the model driver.

The batch functions `_skinny128_parallel_encrypt/decrypt_vec128`, `…_vec256` and
`_skinny64_parallel_encrypt/decrypt_vec128` are assembled here from the pieces the translator
regenerates from the vector files (`Gen/Vec*Pieces.lean`: row-sliced load, lane-generic round
body, store) - the same assembly the theorems of `Properties/C07V.lean` are about
(`Properties/C07X.lean` proves the two assemblies equal, by unfolding) - and wrapped in the two
loops of `skinnyN_parallel_ecb_encrypt/decrypt` (whole batches through the batch function, the
rest block by block).  The model driver runs this whenever a parallel-ECB object is served by a
vector back end, so the correspondence check executes the *translated vector code* against the
compiled vector code (a validation of the translator on the vector files that the block-by-block
model did not give), and `C07X_exec_is_ecb` says that what the driver prints is block-by-block ECB.

No lemma library is imported: the driver must stay small.
-/
import SkinnyVerif.Basic.Lanes
import SkinnyVerif.Impl.Modes
import SkinnyVerif.Gen.Vec128Pieces
import SkinnyVerif.Gen.Vec256Pieces
import SkinnyVerif.Gen.Vec64Pieces
import SkinnyVerif.Gen.VecU0Pieces

namespace SkinnyVerif.Impl.VecExec
open SkinnyVerif SkinnyVerif.Gen SkinnyVerif.Impl

abbrev R32 := BitVec 32 × BitVec 32 × BitVec 32 × BitVec 32
abbrev R16 := BitVec 16 × BitVec 16 × BitVec 16 × BitVec 16
abbrev R128 := BitVec 128 × BitVec 128 × BitVec 128 × BitVec 128
abbrev R256 := BitVec 256 × BitVec 256 × BitVec 256 × BitVec 256

def laneRows4 (rows : R128) (j : Nat) : R32 := (lane 32 j rows.1, lane 32 j rows.2.1, lane 32 j rows.2.2.1, lane 32 j rows.2.2.2)
def laneRows8 (rows : R256) (j : Nat) : R32 := (lane 32 j rows.1, lane 32 j rows.2.1, lane 32 j rows.2.2.1, lane 32 j rows.2.2.2)
def laneRowsH (rows : R128) (j : Nat) : R16 := (lane 16 j rows.1, lane 16 j rows.2.1, lane 16 j rows.2.2.1, lane 16 j rows.2.2.2)

/-- element-wise semantics of the vector operators: a lane-generic function acts on every lane -/
def mapRows4 (f : R32 → R32) (rows : R128) : R128 :=
  (packLanes 32 128 (fun j => (f (laneRows4 rows j)).1) 4, packLanes 32 128 (fun j => (f (laneRows4 rows j)).2.1) 4,
   packLanes 32 128 (fun j => (f (laneRows4 rows j)).2.2.1) 4, packLanes 32 128 (fun j => (f (laneRows4 rows j)).2.2.2) 4)
def mapRows8 (f : R32 → R32) (rows : R256) : R256 :=
  (packLanes 32 256 (fun j => (f (laneRows8 rows j)).1) 8, packLanes 32 256 (fun j => (f (laneRows8 rows j)).2.1) 8,
   packLanes 32 256 (fun j => (f (laneRows8 rows j)).2.2.1) 8, packLanes 32 256 (fun j => (f (laneRows8 rows j)).2.2.2) 8)
def mapRowsH (f : R16 → R16) (rows : R128) : R128 :=
  (packLanes 16 128 (fun j => (f (laneRowsH rows j)).1) 8, packLanes 16 128 (fun j => (f (laneRowsH rows j)).2.1) 8,
   packLanes 16 128 (fun j => (f (laneRowsH rows j)).2.2.1) 8, packLanes 16 128 (fun j => (f (laneRowsH rows j)).2.2.2) 8)

/-! ## one batch (`u = true`: the word-wise load / store of `SKINNY_UNALIGNED`; `false`: the byte-wise paths) -/

def enc4 (u : Bool) (sched : List (BitVec 64)) (input : BitVec 512) : BitVec 512 :=
  let rows := sched.foldl (fun rws sk => mapRows4 (fun t => v128p_enc_round t.1 t.2.1 t.2.2.1 t.2.2.2 sk) rws)
    (if u then v128p_enc_load input else v128p_enc_load_u0 input)
  if u then v128p_enc_store rows.1 rows.2.1 rows.2.2.1 rows.2.2.2 else v128p_enc_store_u0 rows.1 rows.2.1 rows.2.2.1 rows.2.2.2

def dec4 (u : Bool) (sched : List (BitVec 64)) (input : BitVec 512) : BitVec 512 :=
  let rows := sched.foldl (fun rws sk => mapRows4 (fun t => v128p_dec_round t.1 t.2.1 t.2.2.1 t.2.2.2 sk) rws)
    (if u then v128p_dec_load input else v128p_dec_load_u0 input)
  if u then v128p_dec_store rows.1 rows.2.1 rows.2.2.1 rows.2.2.2 else v128p_dec_store_u0 rows.1 rows.2.1 rows.2.2.1 rows.2.2.2

def enc8 (u : Bool) (sched : List (BitVec 64)) (input : BitVec 1024) : BitVec 1024 :=
  let rows := sched.foldl (fun rws sk => mapRows8 (fun t => v256p_enc_round t.1 t.2.1 t.2.2.1 t.2.2.2 sk) rws)
    (if u then v256p_enc_load input else v256p_enc_load_u0 input)
  if u then v256p_enc_store rows.1 rows.2.1 rows.2.2.1 rows.2.2.2 else v256p_enc_store_u0 rows.1 rows.2.1 rows.2.2.1 rows.2.2.2

def dec8 (u : Bool) (sched : List (BitVec 64)) (input : BitVec 1024) : BitVec 1024 :=
  let rows := sched.foldl (fun rws sk => mapRows8 (fun t => v256p_dec_round t.1 t.2.1 t.2.2.1 t.2.2.2 sk) rws)
    (if u then v256p_dec_load input else v256p_dec_load_u0 input)
  if u then v256p_dec_store rows.1 rows.2.1 rows.2.2.1 rows.2.2.2 else v256p_dec_store_u0 rows.1 rows.2.1 rows.2.2.1 rows.2.2.2

def enc8h (u : Bool) (sched : List (BitVec 32)) (input : BitVec 512) : BitVec 512 :=
  let rows := sched.foldl (fun rws sk => mapRowsH (fun t => v64p_enc_round t.1 t.2.1 t.2.2.1 t.2.2.2 sk) rws)
    (if u then v64p_enc_load input else v64p_enc_load_u0 input)
  if u then v64p_enc_store rows.1 rows.2.1 rows.2.2.1 rows.2.2.2 else v64p_enc_store_u0 rows.1 rows.2.1 rows.2.2.1 rows.2.2.2

def dec8h (u : Bool) (sched : List (BitVec 32)) (input : BitVec 512) : BitVec 512 :=
  let rows := sched.foldl (fun rws sk => mapRowsH (fun t => v64p_dec_round t.1 t.2.1 t.2.2.1 t.2.2.2 sk) rws)
    (if u then v64p_dec_load input else v64p_dec_load_u0 input)
  if u then v64p_dec_store rows.1 rows.2.1 rows.2.2.1 rows.2.2.2 else v64p_dec_store_u0 rows.1 rows.2.1 rows.2.2.1 rows.2.2.2

/-- the schedule entries in the order the encryption / decryption loop walks them -/
def up {h : Nat} (ks : KeySched h) : List (BitVec h) := (List.range ks.rounds).map (fun i => ks.sched.getD i 0)
def down {h : Nat} (ks : KeySched h) : List (BitVec h) := (List.range ks.rounds).map (fun i => ks.sched.getD (ks.rounds - 1 - i) 0)

/-- the two loops of `skinnyN_parallel_ecb_encrypt / _decrypt`: `while (size >= psize) batch; while (size >= bs) block` -/
def batched (G : Bytes → Bytes) (psize : Nat) (F : Bytes → Bytes) (bs : Nat) : Nat → Bytes → Bytes
  | 0, _ => []
  | fuel + 1, input =>
    if psize ≤ input.length then G (input.take psize) ++ batched G psize F bs fuel (input.drop psize)
    else parallelBlocks F bs (input.length + 1) input

/-- Skinny-128 parallel ECB on a vector back end (`F` = the scalar block function for the left-over blocks) -/
def par128 (be : Backend) (u enc : Bool) (ks : KeySched 64) (F : Bytes → Bytes) (input : Bytes) : Bytes :=
  match be with
  | .vec256 =>
    batched (fun c => bytesOf 128 (if enc then enc8 u (up ks) (image 1024 c) else dec8 u (down ks) (image 1024 c))) 128 F 16 (input.length + 1) input
  | .vec128 =>
    batched (fun c => bytesOf 64 (if enc then enc4 u (up ks) (image 512 c) else dec4 u (down ks) (image 512 c))) 64 F 16 (input.length + 1) input
  | .generic => parallelBlocks F 16 (input.length + 1) input

/-- Skinny-64 parallel ECB on the 128-bit vector back end -/
def par64 (be : Backend) (u enc : Bool) (ks : KeySched 32) (F : Bytes → Bytes) (input : Bytes) : Bytes :=
  match be with
  | .generic => parallelBlocks F 8 (input.length + 1) input
  | _ =>
    batched (fun c => bytesOf 64 (if enc then enc8h u (up ks) (image 512 c) else dec8h u (down ks) (image 512 c))) 64 F 8 (input.length + 1) input

end SkinnyVerif.Impl.VecExec
