/-
Hand model of the CTR keystream-buffer state machine (`src/*-ctr*.c`) and of the batch /
remainder loops of parallel ECB (`src/*-parallel*.c`), generic in the block cipher and in
the number `B` of blocks a back end processes per batch (generic: 1; 128-bit vectors: 4 for
Skinny-128, 8 for Skinny-64 and Mantis; 256-bit vectors: 8 for Skinny-128).
-/
import SkinnyVerif.Basic.Bytes
import SkinnyVerif.Impl.Ops
import SkinnyVerif.Impl.Skinny

namespace SkinnyVerif.Impl
open SkinnyVerif.Gen

inductive Backend | generic | vec128 | vec256
deriving Repr, DecidableEq, Inhabited

/-- big-endian increment of a counter block through the generated `skinnyN_inc_counter` -/
def incCounter (bs : Nat) (k : Nat) (c : Bytes) : Bytes :=
  if bs = 16 then bytesOf 16 (skinny128_inc_counter (image 128 c) (BitVec.ofNat 16 k))
  else bytesOf 8 (skinny64_inc_counter (image 64 c) (BitVec.ofNat 16 k))

/-- what a CTR context holds besides the key schedule -/
structure CtrState where
  lanes : List Bytes     -- `B` counter blocks (the vector back ends keep them row-sliced)
  ecounter : Bytes       -- `B * bs` bytes of keystream
  offset : Nat
  pending : Nat := 0     -- vector back ends: blocks to advance the lanes by before the next batch
deriving Repr, DecidableEq, Inhabited

/-- state right after `calloc` + `init`: everything zero, `offset = B*bs` -/
def CtrState.init (bs B : Nat) : CtrState :=
  { lanes := List.replicate B (zeros bs), ecounter := zeros (B * bs), offset := B * bs }

/-- the counter block a `set_counter` call denotes: short counters are left-padded, NULL is zero -/
def counterBlock (bs : Nat) (counter : Option Bytes) (size : Nat) : Bytes :=
  match counter with
  | some c => padLeft bs (c.take size)
  | none => zeros bs

/-- `*_set_counter` after validation: left-pad, stagger lane `j` to `c + j`, reset the keystream -/
def CtrState.setCounter (bs B : Nat) (st : CtrState) (counter : Option Bytes) (size : Nat) : CtrState :=
  let block := counterBlock bs counter size
  { st with lanes := (List.range B).map (fun j => if j = 0 then block else incCounter bs j block), offset := B * bs, pending := 0 }

/-- the `while (size > 0)` loop of `*_ctr_*_encrypt`; `fuel` bounds the iterations (each one
consumes at least one byte, so `input.length` suffices).  `lazy = false` is the generic back end
(counter incremented right after a keystream block is generated), `lazy = true` the vector back
ends (lane counters advanced by `pending` right before the next batch is generated). -/
def ctrLoop (inc : Nat → Bytes → Bytes) (E : Bytes → Bytes) (bs B : Nat) (lazy : Bool) : Nat → CtrState → Bytes → Bytes → CtrState × Bytes
  | 0, st, _, out => (st, out)
  | fuel + 1, st, input, out =>
    if input.isEmpty then (st, out)
    else if st.offset ≥ B * bs then
      let lanes0 := if lazy then st.lanes.map (inc st.pending) else st.lanes
      let ec := lanes0.flatMap E
      let lanes := if lazy then lanes0 else lanes0.map (inc B)
      let pending := if lazy then B else st.pending
      if input.length ≥ B * bs then
        ctrLoop inc E bs B lazy fuel { st with lanes := lanes, ecounter := ec, pending := pending } (input.drop (B * bs))
          (out ++ xorBytes (input.take (B * bs)) ec)
      else
        ({ lanes := lanes, ecounter := ec, offset := input.length, pending := pending }, out ++ xorBytes input ec)
    else
      let temp := min (B * bs - st.offset) input.length
      ctrLoop inc E bs B lazy fuel { st with offset := st.offset + temp } (input.drop temp)
        (out ++ xorBytes (input.take temp) (st.ecounter.drop st.offset))

def ctrEncrypt (E : Bytes → Bytes) (bs B : Nat) (lazy : Bool) (st : CtrState) (input : Bytes) : CtrState × Bytes :=
  ctrLoop (incCounter bs) E bs B lazy (input.length + 1) st input []

/-- keystream reset after a key or tweak change: the generic back end sets `offset := bs`; the
vector back ends (`*_reset`) remember how many blocks of the current batch were used -/
def CtrState.reset (bs B : Nat) (lazy : Bool) (st : CtrState) : CtrState :=
  if lazy then
    if st.offset < B * bs then { st with pending := (st.offset + bs - 1) / bs, offset := B * bs } else st
  else { st with offset := B * bs }

/-- parallel ECB: batches of `B` blocks through the vector back end (which computes the same
function block by block), the rest through the scalar function -/
def parallelBlocks (F : Bytes → Bytes) (bs : Nat) : Nat → Bytes → Bytes
  | 0, _ => []
  | fuel + 1, input =>
    if input.length < bs then [] else F (input.take bs) ++ parallelBlocks F bs fuel (input.drop bs)

end SkinnyVerif.Impl
