/- MANTIS, configuration 32be, piece `mid`: the generated piece equals its reference form
   (one file per piece so that the pieces are checked in parallel) -/
import SkinnyVerif.Lemmas.MantisRef

namespace SkinnyVerif.Lemmas
open SkinnyVerif SkinnyVerif.Gen SkinnyVerif.Impl

set_option maxRecDepth 8000
set_option maxHeartbeats 8000000

theorem mantisPiece_32be_mid : ∀ st k1, (opsMantis .c32be).mid st k1 = refMid st k1 := by
  intro st k1
  refine Prod.ext ?_ ?_ <;> simp only [opsMantis]
  · mantis_bits_sbox2
  · mantis_bits

end SkinnyVerif.Lemmas
