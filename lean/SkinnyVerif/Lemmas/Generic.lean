/-
One statement of "the generated pieces of a configuration are correct" for both block sizes,
so that the schedule and encryption refinement proofs are written once.
-/
import SkinnyVerif.Lemmas.OpsCorrect
import SkinnyVerif.Lemmas.Fold

namespace SkinnyVerif.Lemmas
open SkinnyVerif SkinnyVerif.Gen SkinnyVerif.Spec.Skinny SkinnyVerif.Impl

/-- how images of one block size are read as cells -/
structure Abs (b h s : Nat) where
  cells : BitVec b → Cells s
  top : BitVec h → Cells s
  co : CellOps s

def abs128 : Abs 128 64 8 := ⟨cells8, top8, ops8⟩
def abs64 : Abs 64 32 4 := ⟨cells4, top4, ops4⟩

/-- round key on cells for a schedule entry -/
def Abs.rk {b h s : Nat} (A : Abs b h s) (sk : BitVec h) : Cells s := xorCells (A.top sk) (c2cells s)

structure OpsCorrectG {b h s : Nat} (A : Abs b h s) (o : SkinnyOps b h) : Prop where
  encLoad : ∀ x, o.encLoad x = x
  encStore : ∀ x, o.encStore x = x
  decLoad : ∀ x, o.decLoad x = x
  decStore : ∀ x, o.decStore x = x
  encRound : ∀ st sk, A.cells (o.encRound st sk) = round A.co (A.rk sk) (A.cells st)
  decRound : ∀ st sk, A.cells (o.decRound st sk) = roundInv A.co (A.rk sk) (A.cells st)
  tk1Load : ∀ k, o.tk1Load k = (k, 0)
  tk1Step0_e : ∀ tk rc, A.top (o.tk1Step0 tk rc).1 = xorCells (topRows (A.cells tk)) (constTop s (rcStep8 rc) 0)
  tk1Step0_tk : ∀ tk rc, A.cells (o.tk1Step0 tk rc).2.1 = permute PT (A.cells tk)
  tk1Step0_rc : ∀ tk rc, (o.tk1Step0 tk rc).2.2 = rcStep8 rc
  tk1Step1_e : ∀ tk rc, A.top (o.tk1Step1 tk rc).1 = xorCells (topRows (A.cells tk)) (constTop s (rcStep8 rc) 2)
  tk1Step1_tk : ∀ tk rc, A.cells (o.tk1Step1 tk rc).2.1 = permute PT (A.cells tk)
  tk1Step1_rc : ∀ tk rc, (o.tk1Step1 tk rc).2.2 = rcStep8 rc
  xorTk1Load : ∀ k, o.xorTk1Load k = k
  xorTk1Step_e : ∀ e tk, A.top (o.xorTk1Step e tk).1 = xorCells (A.top e) (topRows (A.cells tk))
  xorTk1Step_tk : ∀ e tk, A.cells (o.xorTk1Step e tk).2 = permute PT (A.cells tk)
  tk2Step_e : ∀ e tk, A.top (o.tk2Step e tk).1 = xorCells (A.top e) (topRows (A.cells tk))
  tk2Step_tk : ∀ e tk, A.cells (o.tk2Step e tk).2 = mapTop A.co.lfsr2 (permute PT (A.cells tk))
  tk3Step_e : ∀ e tk, A.top (o.tk3Step e tk).1 = xorCells (A.top e) (topRows (A.cells tk))
  tk3Step_tk : ∀ e tk, A.cells (o.tk3Step e tk).2 = mapTop A.co.lfsr3 (permute PT (A.cells tk))
  tk2Load : ∀ k junk key, 1 ≤ k → 8 * k ≤ b → o.tk2Load k junk key = key &&& BitVec.ofNat b (2 ^ (8 * k) - 1)
  tk3Load : ∀ k junk key, 1 ≤ k → 8 * k ≤ b → o.tk3Load k junk key = key &&& BitVec.ofNat b (2 ^ (8 * k) - 1)

theorem OpsCorrectG.of128 {o : SkinnyOps 128 64} (h : Ops128Correct o) : OpsCorrectG abs128 o :=
  { encLoad := h.encLoad, encStore := h.encStore, decLoad := h.decLoad, decStore := h.decStore,
    encRound := h.encRound, decRound := h.decRound, tk1Load := h.tk1Load,
    tk1Step0_e := h.tk1Step0_e, tk1Step0_tk := h.tk1Step0_tk, tk1Step0_rc := h.tk1Step0_rc,
    tk1Step1_e := h.tk1Step1_e, tk1Step1_tk := h.tk1Step1_tk, tk1Step1_rc := h.tk1Step1_rc,
    xorTk1Load := h.xorTk1Load, xorTk1Step_e := h.xorTk1Step_e, xorTk1Step_tk := h.xorTk1Step_tk,
    tk2Step_e := h.tk2Step_e, tk2Step_tk := h.tk2Step_tk, tk3Step_e := h.tk3Step_e, tk3Step_tk := h.tk3Step_tk,
    tk2Load := fun k j key h1 h2 => h.tk2Load k j key h1 (by omega),
    tk3Load := fun k j key h1 h2 => h.tk3Load k j key h1 (by omega) }

theorem OpsCorrectG.of64 {o : SkinnyOps 64 32} (h : Ops64Correct o) : OpsCorrectG abs64 o :=
  { encLoad := h.encLoad, encStore := h.encStore, decLoad := h.decLoad, decStore := h.decStore,
    encRound := h.encRound, decRound := h.decRound, tk1Load := h.tk1Load,
    tk1Step0_e := h.tk1Step0_e, tk1Step0_tk := h.tk1Step0_tk, tk1Step0_rc := h.tk1Step0_rc,
    tk1Step1_e := h.tk1Step1_e, tk1Step1_tk := h.tk1Step1_tk, tk1Step1_rc := h.tk1Step1_rc,
    xorTk1Load := h.xorTk1Load, xorTk1Step_e := h.xorTk1Step_e, xorTk1Step_tk := h.xorTk1Step_tk,
    tk2Step_e := h.tk2Step_e, tk2Step_tk := h.tk2Step_tk, tk3Step_e := h.tk3Step_e, tk3Step_tk := h.tk3Step_tk,
    tk2Load := fun k j key h1 h2 => h.tk2Load k j key h1 (by omega),
    tk3Load := fun k j key h1 h2 => h.tk3Load k j key h1 (by omega) }

end SkinnyVerif.Lemmas
