/- MANTIS, configuration 64be: the generated pieces equal the reference forms
   (each piece is proved in its own module `MantisPieces_64be_<piece>`) -/
import SkinnyVerif.Lemmas.MantisPieces_64be_pre
import SkinnyVerif.Lemmas.MantisPieces_64be_fwd
import SkinnyVerif.Lemmas.MantisPieces_64be_mid
import SkinnyVerif.Lemmas.MantisPieces_64be_bwd
import SkinnyVerif.Lemmas.MantisPieces_64be_post
import SkinnyVerif.Lemmas.MantisPieces_64be_preT
import SkinnyVerif.Lemmas.MantisPieces_64be_fwdT
import SkinnyVerif.Lemmas.MantisPieces_64be_midT
import SkinnyVerif.Lemmas.MantisPieces_64be_bwdT
import SkinnyVerif.Lemmas.MantisPieces_64be_postT

namespace SkinnyVerif.Lemmas
open SkinnyVerif SkinnyVerif.Gen SkinnyVerif.Impl

theorem mantisPieces_64be : MantisPiecesOK (opsMantis .c64be) where
  pre := mantisPiece_64be_pre
  fwd := mantisPiece_64be_fwd
  mid := mantisPiece_64be_mid
  bwd := mantisPiece_64be_bwd
  post := mantisPiece_64be_post
  preT := mantisPiece_64be_preT
  fwdT := mantisPiece_64be_fwdT
  midT := mantisPiece_64be_midT
  bwdT := mantisPiece_64be_bwdT
  postT := mantisPiece_64be_postT

end SkinnyVerif.Lemmas
