/- MANTIS, configuration 64le, piece `post`: the generated piece equals its reference form
   (one file per piece so that the pieces are checked in parallel) -/
import SkinnyVerif.Lemmas.MantisRef

namespace SkinnyVerif.Lemmas
open SkinnyVerif SkinnyVerif.Gen SkinnyVerif.Impl

set_option maxRecDepth 8000
set_option maxHeartbeats 8000000

theorem mantisPiece_64le_post : ∀ st tw k1 ks, (opsMantis .c64le).post st tw k1 ks = refPost st tw k1 ks := by
  intro st tw k1 ks
  simp only [opsMantis]; mantis_bits

end SkinnyVerif.Lemmas
