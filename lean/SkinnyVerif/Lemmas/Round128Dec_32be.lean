/- SKINNY-128, configuration 32be: the generated decrypt round body computes the specification's roundInv on cells -/
import SkinnyVerif.Lemmas.RoundTac

namespace SkinnyVerif.Lemmas
open SkinnyVerif SkinnyVerif.Gen SkinnyVerif.Spec.Skinny

set_option maxRecDepth 8000 in
set_option maxHeartbeats 8000000 in
theorem decRound128_32be (st : BitVec 128) (sk : BitVec 64) :
    cells8 (skinny128_ecb_decrypt_round_32be st sk) = roundInv ops8 (rk8 sk) (cells8 st) := by round128_inv_tac

end SkinnyVerif.Lemmas
