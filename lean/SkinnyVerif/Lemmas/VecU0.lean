/- the vector parallel-ECB files under `SKINNY_UNALIGNED = 0`: all lemmas -/
import SkinnyVerif.Lemmas.VecU0_128
import SkinnyVerif.Lemmas.VecU0_256
import SkinnyVerif.Lemmas.VecU0_64
