/-
The specification's byte interface agrees with reading cells off little-endian memory images.
-/
import SkinnyVerif.Lemmas.Abs
import SkinnyVerif.Basic.BytesLemmas

namespace SkinnyVerif.Lemmas
open SkinnyVerif SkinnyVerif.Spec.Skinny

theorem cellsOfBytes8_eq (l : Bytes) : cellsOfBytes8 l = cells8 (image 128 l) := by
  apply Vector.ext; intro i hi
  simp only [cellsOfBytes8, cells8, Vector.getElem_ofFn]
  rw [lane8_image 128 l i (by omega)]

theorem list_ofFn_eq_range_map {α : Type} (n : Nat) (f : Fin n → α) (g : Nat → α) (h : ∀ i : Fin n, f i = g i.val) :
    List.ofFn f = (List.range n).map g := by
  apply List.ext_getElem
  · simp
  · intro i h1 h2
    simp [h ⟨i, by simpa using h1⟩]

theorem bytesOfCells8_cells8 (x : BitVec 128) : bytesOfCells8 (cells8 x) = bytesOf 16 x := by
  rw [bytesOf_lanes]
  simp only [bytesOfCells8, cells8, Vector.toList_ofFn, List.map_ofFn]
  apply list_ofFn_eq_range_map
  intro i; rfl

/-- nibble lane `j` of an image: the low (even `j`) or high (odd `j`) nibble of byte `j / 2` -/
theorem lane4_image (w : Nat) (l : Bytes) (j : Nat) (h : 4 * (j + 1) ≤ w) :
    lane 4 j (image w l) = BitVec.ofNat 4 (if j % 2 = 0 then (l.getD (j / 2) 0).toNat % 16 else (l.getD (j / 2) 0).toNat / 16) := by
  have hb := leNat_byte l (j / 2)
  apply BitVec.eq_of_toNat_eq
  simp only [lane, image, BitVec.toNat_ofNat, BitVec.extractLsb'_toNat]
  have hbyte : (l.getD (j / 2) 0).toNat < 256 := (l.getD (j / 2) 0).toNat_lt
  have key : (leNat l % 2 ^ w) >>> (4 * j) % 2 ^ 4 = ((leNat l >>> (8 * (j / 2))) % 256) >>> (4 * (j % 2)) % 16 := by
    apply Nat.eq_of_testBit_eq
    intro k
    have h256 : (256 : Nat) = 2 ^ 8 := by decide
    have h16 : (16 : Nat) = 2 ^ 4 := by decide
    rw [h256, h16]
    simp only [Nat.testBit_mod_two_pow, Nat.testBit_shiftRight]
    by_cases hk : k < 4
    · have h1 : 4 * j + k < w := by omega
      have h2 : 4 * (j % 2) + k < 8 := by omega
      have h3 : 8 * (j / 2) + (4 * (j % 2) + k) = 4 * j + k := by omega
      simp [hk, h1, h2, h3]
    · simp [hk]
  rw [key, hb]
  by_cases hj : j % 2 = 0
  · simp only [hj, Nat.mul_zero, Nat.shiftRight_zero, if_true]; omega
  · have hj1 : j % 2 = 1 := by omega
    simp only [hj1, Nat.mul_one, Nat.shiftRight_eq_div_pow, if_false, Nat.one_ne_zero]
    try omega

theorem cellsOfBytes4_eq (l : Bytes) : cellsOfBytes4 l = cells4 (image 64 l) := by
  apply cells_ext <;>
    (simp only [cellsOfBytes4, cells4, Vector.getElem_ofFn]
     rw [lane4_image 64 l _ (by decide)]
     simp)

/-- a byte lane is its two nibble lanes -/
theorem lane8_nibbles {w : Nat} (x : BitVec w) (i : Nat) :
    (lane 8 i x).toNat = (lane 4 (2 * i + 1) x).toNat * 16 + (lane 4 (2 * i) x).toNat := by
  simp only [lane, BitVec.extractLsb'_toNat]
  have h1 : 4 * (2 * i + 1) = 8 * i + 4 := by omega
  have h2 : 4 * (2 * i) = 8 * i := by omega
  rw [h1, h2, Nat.shiftRight_add]
  generalize x.toNat >>> (8 * i) = y
  simp only [Nat.shiftRight_eq_div_pow]
  omega

theorem bytesOfCells4_cells4 (x : BitVec 64) : bytesOfCells4 (cells4 x) = bytesOf 8 x := by
  rw [bytesOf_lanes]
  simp only [bytesOfCells4]
  apply List.map_congr_left
  intro i hi
  have hi8 : i < 8 := List.mem_range.mp hi
  rw [lane8_nibbles]
  have e1 : (cells4 x).toList.getD (2 * i) 0 = lane 4 (2 * i + 1) x := by
    have h : 2 * i < 16 := by omega
    rw [List.getD_eq_getElem?_getD, List.getElem?_eq_getElem (by simpa using h)]
    simp only [Vector.getElem_toList, cells4_get, Option.getD_some]
    congr 1
    nat_cases i 8 <;> decide
  have e2 : (cells4 x).toList.getD (2 * i + 1) 0 = lane 4 (2 * i) x := by
    have h : 2 * i + 1 < 16 := by omega
    rw [List.getD_eq_getElem?_getD, List.getElem?_eq_getElem (by simpa using h)]
    simp only [Vector.getElem_toList, cells4_get, Option.getD_some]
    congr 1
    nat_cases i 8 <;> decide
  rw [e1, e2]

end SkinnyVerif.Lemmas
