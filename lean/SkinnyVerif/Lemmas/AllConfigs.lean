/- The generated pieces are correct in every build configuration. -/
import SkinnyVerif.Lemmas.Ops128_64le
import SkinnyVerif.Lemmas.Ops128_32le
import SkinnyVerif.Lemmas.Ops128_64be
import SkinnyVerif.Lemmas.Ops128_32be
import SkinnyVerif.Lemmas.Ops64_64le
import SkinnyVerif.Lemmas.Ops64_32le
import SkinnyVerif.Lemmas.Ops64_64be
import SkinnyVerif.Lemmas.Ops64_32be
import SkinnyVerif.Lemmas.KeySetup

namespace SkinnyVerif.Lemmas
open SkinnyVerif.Impl

theorem ops128Correct (t : Tag) : Ops128Correct (ops128 t) := by
  cases t
  · exact ops128Correct_64le
  · exact ops128Correct_32le
  · exact ops128Correct_64be
  · exact ops128Correct_32be

theorem ops64Correct (t : Tag) : Ops64Correct (ops64 t) := by
  cases t
  · exact ops64Correct_64le
  · exact ops64Correct_32le
  · exact ops64Correct_64be
  · exact ops64Correct_32be

theorem opsG128 (t : Tag) : OpsCorrectG abs128 (ops128 t) := OpsCorrectG.of128 (ops128Correct t)
theorem opsG64 (t : Tag) : OpsCorrectG abs64 (ops64 t) := OpsCorrectG.of64 (ops64Correct t)

end SkinnyVerif.Lemmas
