/- Tactics for the SKINNY-128 tweakey-schedule step lemmas (same method as the round lemmas). -/
import SkinnyVerif.Lemmas.OpsCorrect
import SkinnyVerif.Lemmas.Leaf128
import SkinnyVerif.Gen.Skinny128LeafOuts

namespace SkinnyVerif.Lemmas
open SkinnyVerif SkinnyVerif.Gen SkinnyVerif.Spec.Skinny

syntax "step128_simp" : tactic
macro_rules
  | `(tactic| step128_simp) => `(tactic|
      simp [gen_unfold, lane, extractLsb'_extractLsb'_le, rcStep8, PT,
               permute_tk_64le_getElem, permute_tk_32_getElem,
               skinny128_LFSR2_64_getElem, skinny128_LFSR2_32_getElem, skinny128_LFSR3_64_getElem, skinny128_LFSR3_32_getElem,
               lfsr2_128_64_lane, lfsr2_128_32_lane, lfsr3_128_64_lane, lfsr3_128_32_lane])

syntax "step128_tac" : tactic
macro_rules
  | `(tactic| step128_tac) => `(tactic|
    (apply cells_ext <;>
      ((simp [permute_PT, xorCells_get, topRows_get, mapTop_get, constTop_get, cells8_get, top8_get]) <;>
       (bv_bits 8 <;>
        (step128_simp <;>
         (first
          | ac_rfl
          | (apply getElem_congr_fun; bv_bits 8 <;> (step128_simp <;> (try ac_rfl)))))))))

/-- image-level equalities: all bits -/
syntax "img_tac " num : tactic
macro_rules
  | `(tactic| img_tac $n) => `(tactic| (bv_bits $n <;> simp [gen_unfold, rcStep8]))

end SkinnyVerif.Lemmas
