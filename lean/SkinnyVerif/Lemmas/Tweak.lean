/-
Tweakable SKINNY (generic): after `set_tweaked_key` and any number of `set_tweak` calls the
schedule holds the round keys for TK1 = the latest tweak, TK2/TK3 = the key, with the
tweak-domain bit set -- the TK1 contribution is xor-linear, so xoring the old tweak out and the
new one in is exact, by induction over the history.
-/
import SkinnyVerif.Lemmas.KeySetup

namespace SkinnyVerif.Lemmas
open SkinnyVerif SkinnyVerif.Gen SkinnyVerif.Spec.Skinny SkinnyVerif.Impl

section
variable {b h s : Nat} (A : Abs b h s) (o : SkinnyOps b h) (hc : OpsCorrectG A o) (ha : AbsOK A)

/-- closed form of the schedule entries (the hypothesis of `keyed_of_tops`) -/
def TopsFor (A : Abs b h s) (ks : KeySched h) (t : Tweakey s) (dom : BitVec s) : Prop :=
  ∀ i, i < ks.rounds → A.top (ks.sched.getD i 0) =
    xorCells (xorCells (xorCells (topRows (iter (permute PT) i t.tk1)) (constTop s (iter rcStep8 (i + 1) 0) dom))
      (topRows (iter (fun c => mapTop A.co.lfsr2 (permute PT c)) i t.tk2)))
      (topRows (iter (fun c => mapTop A.co.lfsr3 (permute PT c)) i t.tk3))

include hc ha

theorem TopsFor.keyed {ks : KeySched h} {t : Tweakey s} {dom : BitVec s} (hh : TopsFor A ks t dom) : KeyedFor A ks t dom :=
  keyed_of_tops A o hc ha ks t dom hh

/-- `set_key_inner` with a tweak -/
theorem setKeyInner_tweaked (p : SkinnyParams) (hb : b = 8 * p.bs) (ks : KeySched h) (key tw : Bytes) (size : Nat)
    (j2 j3 : BitVec b) (h1 : p.bs ≤ size) (h2 : size ≤ 2 * p.bs) (hbs : 0 < p.bs)
    (hl2 : p.r2 ≤ ks.sched.length) (hl3 : p.r3 ≤ ks.sched.length) :
    TopsFor A (setKeyInner o p ks key size (some tw) j2 j3)
      ⟨A.cells (image b tw), A.cells (image b (key.take size)), A.cells (image b ((key.take size).drop p.bs))⟩ 2 ∧
    (setKeyInner o p ks key size (some tw) j2 j3).rounds = (if size = p.bs then p.r2 else p.r3) ∧
    (setKeyInner o p ks key size (some tw) j2 j3).sched.length = ks.sched.length := by
  have himg1 : image b (key.take size) = image b key := image_take b key size (by omega)
  have hz3 := iter_zero_lfsr (s := s) A.co.lfsr3 ha.lfsr3_zero
  by_cases hs1 : size = p.bs
  · subst hs1
    have hsp1 := setTk1_spec A o hc { ks with rounds := p.r2 } tw true (by simpa using hl2)
    obtain ⟨hr1, hlen1, htop1, _⟩ := hsp1
    have hsp2 := setTkN_spec A o hc false (setTk1 o { ks with rounds := p.r2 } tw true) key p.bs j2
      (by rw [hr1, hlen1]; simpa using hl2)
    obtain ⟨hr2, hlen2, htop2, _⟩ := hsp2
    simp only [setKeyInner, if_true]
    refine ⟨?_, by rw [hr2, hr1], by rw [hlen2, hlen1]⟩
    intro i hi
    have hi2 : i < (setTk1 o { ks with rounds := p.r2 } tw true).rounds := by rw [hr2] at hi; exact hi
    have hi1 : i < p.r2 := by rw [hr1] at hi2; exact hi2
    rw [htop2 i hi2, htop1 i hi1]
    have hd : (key.take p.bs).drop p.bs = [] := by simp
    have himg0 : image b ([] : Bytes) = 0 := by simp [image, leNat]
    have hload : o.tk2Load p.bs j2 (image b (key.take p.bs)) = image b (key.take p.bs) := by
      rw [hc.tk2Load _ _ _ (by omega) (by omega)]
      exact image_and_mask b _ p.bs (by simp; omega)
    simp only [hd, himg0, ha.cells_zero, hz3, topRows_zero, xorCells_zero, Bool.false_eq_true, if_false, if_true, hload]
  · have hsp1 := setTk1_spec A o hc { ks with rounds := p.r3 } tw true (by simpa using hl3)
    obtain ⟨hr1, hlen1, htop1, _⟩ := hsp1
    have hsp2 := setTkN_spec A o hc false (setTk1 o { ks with rounds := p.r3 } tw true) key p.bs j2
      (by rw [hr1, hlen1]; simpa using hl3)
    obtain ⟨hr2, hlen2, htop2, _⟩ := hsp2
    have hsp3 := setTkN_spec A o hc true (setTkN o false (setTk1 o { ks with rounds := p.r3 } tw true) key p.bs j2)
      (key.drop p.bs) (size - p.bs) j3 (by rw [hr2, hr1, hlen2, hlen1]; simpa using hl3)
    obtain ⟨hr3, hlen3, htop3, _⟩ := hsp3
    simp only [setKeyInner, hs1, if_false]
    refine ⟨?_, by rw [hr3, hr2, hr1], by rw [hlen3, hlen2, hlen1]⟩
    intro i hi
    have hi3 : i < (setTkN o false (setTk1 o { ks with rounds := p.r3 } tw true) key p.bs j2).rounds := by rw [hr3] at hi; exact hi
    have hi2 : i < (setTk1 o { ks with rounds := p.r3 } tw true).rounds := by rw [hr2] at hi3; exact hi3
    have hi1 : i < p.r3 := by rw [hr1] at hi2; exact hi2
    rw [htop3 i hi3, htop2 i hi2, htop1 i hi1]
    have hload2 : o.tk2Load p.bs j2 (image b (key.take p.bs)) = image b (key.take size) := by
      rw [hc.tk2Load _ _ _ (by omega) (by omega), image_and_mask b _ p.bs (by simp; omega)]
      rw [image_take b key p.bs (by omega), himg1]
    have hk3 : (key.drop p.bs).take (size - p.bs) = (key.take size).drop p.bs := by rw [List.drop_take]
    have hload3 : o.tk3Load (size - p.bs) j3 (image b ((key.drop p.bs).take (size - p.bs))) = image b ((key.take size).drop p.bs) := by
      rw [hc.tk3Load _ _ _ (by omega) (by omega), hk3]
      apply image_and_mask
      simp; omega
    simp only [Bool.false_eq_true, if_false, if_true, hload2, hload3]

omit ha in
/-- `set_tweak` (the two `xor_tk1` passes): the old TK1 contribution is xored out, the new one in -/
theorem xorTk1_twice (ks : KeySched h) (old new : Bytes) (c2 c3 : Cells s) (dom : BitVec s)
    (hlen : ks.rounds ≤ ks.sched.length)
    (hh : TopsFor A ks ⟨A.cells (image b old), c2, c3⟩ dom) :
    TopsFor A (xorTk1 o (xorTk1 o ks old) new) ⟨A.cells (image b new), c2, c3⟩ dom ∧
    (xorTk1 o (xorTk1 o ks old) new).rounds = ks.rounds ∧
    (xorTk1 o (xorTk1 o ks old) new).sched.length = ks.sched.length := by
  obtain ⟨hr1, hl1, ht1, _⟩ := xorTk1_spec A o hc ks old hlen
  obtain ⟨hr2, hl2, ht2, _⟩ := xorTk1_spec A o hc (xorTk1 o ks old) new (by rw [hr1, hl1]; exact hlen)
  refine ⟨?_, by rw [hr2, hr1], by rw [hl2, hl1]⟩
  intro i hi
  have hi1 : i < (xorTk1 o ks old).rounds := by rw [hr2] at hi; exact hi
  have hi0 : i < ks.rounds := by rw [hr1] at hi1; exact hi1
  rw [ht2 i hi1, ht1 i hi0, hh i hi0]
  apply Vector.ext; intro j hj
  simp only [xorCells_get]
  generalize (topRows (iter (permute PT) i (A.cells (image b old))))[j] = x
  generalize (topRows (iter (permute PT) i (A.cells (image b new))))[j] = y
  simp only [BitVec.xor_assoc, BitVec.xor_comm, bv_xor_left_comm, BitVec.xor_self, BitVec.xor_zero]
  rw [← BitVec.xor_assoc x x, BitVec.xor_self, BitVec.zero_xor]

end
end SkinnyVerif.Lemmas
