/- Tactics for the SKINNY-64 tweakey-schedule step lemmas (same method as the round lemmas). -/
import SkinnyVerif.Lemmas.OpsCorrect
import SkinnyVerif.Lemmas.Leaf64
import SkinnyVerif.Gen.Skinny64LeafOuts

namespace SkinnyVerif.Lemmas
open SkinnyVerif SkinnyVerif.Gen SkinnyVerif.Spec.Skinny

syntax "step64_simp" : tactic
macro_rules
  | `(tactic| step64_simp) => `(tactic|
      simp [gen_unfold, lane, extractLsb'_extractLsb'_le, rcStep8, PT,
               permute_tk64_le_getElem, permute_tk64_be_getElem,
               skinny64_LFSR2_getElem, skinny64_LFSR3_getElem, lfsr2_64_lane, lfsr3_64_lane])

syntax "step64_tac" : tactic
macro_rules
  | `(tactic| step64_tac) => `(tactic|
    (apply cells_ext <;>
      ((simp [permute_PT, xorCells_get, topRows_get, mapTop_get, constTop_get, cells4_get, top4_get]) <;>
       (bv_bits 4 <;>
        (step64_simp <;>
         (first
          | ac_rfl
          | (apply getElem_congr_fun; bv_bits 4 <;> (step64_simp <;> (try ac_rfl)))))))))

/-- image-level equalities: all bits -/
syntax "img64_tac " num : tactic
macro_rules
  | `(tactic| img64_tac $n) => `(tactic| (bv_bits $n <;> simp [gen_unfold, rcStep8]))

end SkinnyVerif.Lemmas
