/- Skinny-128 vec128 parallel ECB: load / store is the transposition between four blocks and four row vectors -/
import SkinnyVerif.Lemmas.Vec128Base

namespace SkinnyVerif.Lemmas
open SkinnyVerif SkinnyVerif.Gen SkinnyVerif.Impl SkinnyVerif.Spec.Skinny

set_option maxRecDepth 8000
set_option maxHeartbeats 8000000

theorem v128p_enc_load_lane (input : BitVec 512) (j : Nat) (hj : j < 4) :
    packT (laneRows (v128p_enc_load input) j) = input.extractLsb' (128 * j) 128 := by
  nat_cases j 4 <;> vec_ls

theorem v128p_dec_load_lane (input : BitVec 512) (j : Nat) (hj : j < 4) :
    packT (laneRows (v128p_dec_load input) j) = input.extractLsb' (128 * j) 128 := by
  nat_cases j 4 <;> vec_ls

theorem v128p_enc_store_lane (rows : BitVec 128 × BitVec 128 × BitVec 128 × BitVec 128) (j : Nat) (hj : j < 4) :
    (v128p_enc_store rows.1 rows.2.1 rows.2.2.1 rows.2.2.2).extractLsb' (128 * j) 128 = packT (laneRows rows j) := by
  nat_cases j 4 <;> vec_ls

theorem v128p_dec_store_lane (rows : BitVec 128 × BitVec 128 × BitVec 128 × BitVec 128) (j : Nat) (hj : j < 4) :
    (v128p_dec_store rows.1 rows.2.1 rows.2.2.1 rows.2.2.2).extractLsb' (128 * j) 128 = packT (laneRows rows j) := by
  nat_cases j 4 <;> vec_ls

end SkinnyVerif.Lemmas
