/- Mantis vec128 CTR batch function: the lane-generic piece is the reference piece (stored, scalar tweak) -/
import SkinnyVerif.Lemmas.VecMantisCtrBase

namespace SkinnyVerif.Lemmas
open SkinnyVerif SkinnyVerif.Gen SkinnyVerif.Impl

set_option maxRecDepth 8000
set_option maxHeartbeats 8000000

theorem vmc_mid_ref (st k1 : BitVec 64) : vmc_mid st k1 = refMid st k1 := by
  refine Prod.ext ?_ ?_
  · vmcantis_bits_sbox
  · vmcantis_bits

end SkinnyVerif.Lemmas
