/-
Abstraction from memory images to the specification's cells, and the lemmas that let `simp`
see through calls to the lane-structured leaf functions (S-boxes, LFSRs) one bit at a time.
-/
import SkinnyVerif.Basic.Lanes
import SkinnyVerif.Spec.Skinny
import SkinnyVerif.Spec.Mantis
import SkinnyVerif.Gen.Skinny128LeafLanes
import SkinnyVerif.Gen.Skinny64LeafLanes
import SkinnyVerif.Gen.MantisLeafLanes
import SkinnyVerif.Lemmas.Tables
import SkinnyVerif.Lemmas.SpecForms

namespace SkinnyVerif.Lemmas
open SkinnyVerif SkinnyVerif.Gen SkinnyVerif.Spec.Skinny

instance : Std.Commutative (fun (a b : Bool) => a != b) := ⟨fun a b => by cases a <;> cases b <;> rfl⟩

/-- SKINNY-128: cell `i` of a 16-byte image is byte `i` -/
def cells8 (x : BitVec 128) : Cells 8 := Vector.ofFn fun i => lane 8 i.val x
/-- SKINNY-64 / MANTIS: byte `i` of the 8-byte image holds cell `2i` in its high nibble, i.e.
cell `i` is nibble `i xor 1` -/
def cells4 (x : BitVec 64) : Cells 4 := Vector.ofFn fun i => lane 4 (i.val ^^^ 1) x

/-- the half-block schedule entry as a state-shaped mask (upper two rows) -/
def top8 (sk : BitVec 64) : Cells 8 := Vector.ofFn fun i => if i.val < 8 then lane 8 i.val sk else 0
def top4 (sk : BitVec 32) : Cells 4 := Vector.ofFn fun i => if i.val < 8 then lane 4 (i.val ^^^ 1) sk else 0

/-- the constant `c2 = 2` in cell 8, which the C code xors in the round function -/
def c2cells (s : Nat) : Cells s := Vector.ofFn fun i => if i.val = 8 then 2 else 0

theorem cells8_get (x : BitVec 128) (i : Nat) (hi : i < 16) : (cells8 x)[i] = lane 8 i x := by simp [cells8]
theorem cells4_get (x : BitVec 64) (i : Nat) (hi : i < 16) : (cells4 x)[i] = lane 4 (i ^^^ 1) x := by simp [cells4]
theorem top8_get (x : BitVec 64) (i : Nat) (hi : i < 16) : (top8 x)[i] = if i < 8 then lane 8 i x else 0 := by simp [top8]
theorem top4_get (x : BitVec 32) (i : Nat) (hi : i < 16) : (top4 x)[i] = if i < 8 then lane 4 (i ^^^ 1) x else 0 := by simp [top4]
theorem c2cells_get (s i : Nat) (hi : i < 16) : (c2cells s)[i] = if i = 8 then 2 else 0 := by simp [c2cells]

theorem cells8_injective (a b : BitVec 128) (h : cells8 a = cells8 b) : a = b := by
  apply eq_of_lanes 8 16 (by decide) (by decide)
  intro i hi
  have := congrArg (fun v => v[i]'hi) h
  simpa [cells8] using this

/-! the lane versions of the generated leaf functions are the specification's cell functions
(as function equalities, so that `simp` rewrites them wherever they occur) -/
theorem sbox128_64_lane : skinny128_sbox_64_lane = S8 := funext skinny128_sbox_64_lane_eq
theorem sbox128_32_lane : skinny128_sbox_32_lane = S8 := funext skinny128_sbox_32_lane_eq
theorem inv_sbox128_64_lane : skinny128_inv_sbox_64_lane = S8inv := funext skinny128_inv_sbox_64_lane_eq
theorem inv_sbox128_32_lane : skinny128_inv_sbox_32_lane = S8inv := funext skinny128_inv_sbox_32_lane_eq
theorem lfsr2_128_64_lane : skinny128_LFSR2_64_lane = lfsr2_8 := funext skinny128_LFSR2_64_lane_eq
theorem lfsr2_128_32_lane : skinny128_LFSR2_32_lane = lfsr2_8 := funext skinny128_LFSR2_32_lane_eq
theorem lfsr3_128_64_lane : skinny128_LFSR3_64_lane = lfsr3_8 := funext skinny128_LFSR3_64_lane_eq
theorem lfsr3_128_32_lane : skinny128_LFSR3_32_lane = lfsr3_8 := funext skinny128_LFSR3_32_lane_eq
theorem sbox64_64_lane : skinny64_sbox_64_lane = S4 := funext skinny64_sbox_64_lane_eq
theorem sbox64_32_lane : skinny64_sbox_32_lane = S4 := funext skinny64_sbox_32_lane_eq
theorem inv_sbox64_64_lane : skinny64_inv_sbox_64_lane = S4inv := funext skinny64_inv_sbox_64_lane_eq
theorem inv_sbox64_32_lane : skinny64_inv_sbox_32_lane = S4inv := funext skinny64_inv_sbox_32_lane_eq
theorem lfsr2_64_lane : skinny64_LFSR2_lane = lfsr2_4 := funext skinny64_LFSR2_lane_eq
theorem lfsr3_64_lane : skinny64_LFSR3_lane = lfsr3_4 := funext skinny64_LFSR3_lane_eq

/-- simp set: see through calls to lane-structured leaves, bit by bit -/
macro "leaf_simps" : term => `(term| True)

end SkinnyVerif.Lemmas
