/- SKINNY-64, configuration 32be: the generated encrypt round body computes the specification's round on cells -/
import SkinnyVerif.Lemmas.RoundTac

namespace SkinnyVerif.Lemmas
open SkinnyVerif SkinnyVerif.Gen SkinnyVerif.Spec.Skinny

set_option maxRecDepth 8000 in
set_option maxHeartbeats 8000000 in
theorem encRound64_32be (st : BitVec 64) (sk : BitVec 32) :
    cells4 (skinny64_ecb_encrypt_round_32be st sk) = round ops4 (rk4 sk) (cells4 st) := by round64_tac

end SkinnyVerif.Lemmas
