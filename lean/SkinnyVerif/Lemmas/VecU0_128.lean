/-
The vector parallel-ECB files under `SKINNY_UNALIGNED = 0` (the byte-wise `READ_WORD` / `WRITE_WORD` load and
store paths that targets without unaligned access compile): the same transposition lemmas as for the
default configuration, for the pieces translated under that preprocessor configuration.
-/
import SkinnyVerif.Lemmas.Vec128Base
import SkinnyVerif.Gen.VecU0Pieces

namespace SkinnyVerif.Lemmas
open SkinnyVerif SkinnyVerif.Gen SkinnyVerif.Impl SkinnyVerif.Spec.Skinny

set_option maxRecDepth 8000
set_option maxHeartbeats 8000000

theorem v128p_enc_load_u0_lane (input : BitVec 512) (j : Nat) (hj : j < 4) :
    packT (laneRows (v128p_enc_load_u0 input) j) = input.extractLsb' (128 * j) 128 := by
  nat_cases j 4 <;> vec_ls

theorem v128p_enc_store_u0_lane (rows : BitVec 128 × BitVec 128 × BitVec 128 × BitVec 128) (j : Nat) (hj : j < 4) :
    (v128p_enc_store_u0 rows.1 rows.2.1 rows.2.2.1 rows.2.2.2).extractLsb' (128 * j) 128 = packT (laneRows rows j) := by
  nat_cases j 4 <;> vec_ls

theorem v128p_dec_load_u0_lane (input : BitVec 512) (j : Nat) (hj : j < 4) :
    packT (laneRows (v128p_dec_load_u0 input) j) = input.extractLsb' (128 * j) 128 := by
  nat_cases j 4 <;> vec_ls

theorem v128p_dec_store_u0_lane (rows : BitVec 128 × BitVec 128 × BitVec 128 × BitVec 128) (j : Nat) (hj : j < 4) :
    (v128p_dec_store_u0 rows.1 rows.2.1 rows.2.2.1 rows.2.2.2).extractLsb' (128 * j) 128 = packT (laneRows rows j) := by
  nat_cases j 4 <;> vec_ls

end SkinnyVerif.Lemmas
