/- Skinny-64 vec128 parallel ECB: load / store is the transposition between eight blocks and four row vectors -/
import SkinnyVerif.Lemmas.Vec64Base

namespace SkinnyVerif.Lemmas
open SkinnyVerif SkinnyVerif.Gen SkinnyVerif.Impl SkinnyVerif.Spec.Skinny

set_option maxRecDepth 8000
set_option maxHeartbeats 8000000

theorem v64p_enc_load_lane (input : BitVec 512) (j : Nat) (hj : j < 8) :
    packTh (laneRowsH (v64p_enc_load input) j) = input.extractLsb' (64 * j) 64 := by
  nat_cases j 8 <;> vec64_ls

theorem v64p_dec_load_lane (input : BitVec 512) (j : Nat) (hj : j < 8) :
    packTh (laneRowsH (v64p_dec_load input) j) = input.extractLsb' (64 * j) 64 := by
  nat_cases j 8 <;> vec64_ls

theorem v64p_enc_store_lane (rows : BitVec 128 × BitVec 128 × BitVec 128 × BitVec 128) (j : Nat) (hj : j < 8) :
    (v64p_enc_store rows.1 rows.2.1 rows.2.2.1 rows.2.2.2).extractLsb' (64 * j) 64 = packTh (laneRowsH rows j) := by
  nat_cases j 8 <;> vec64_ls

theorem v64p_dec_store_lane (rows : BitVec 128 × BitVec 128 × BitVec 128 × BitVec 128) (j : Nat) (hj : j < 8) :
    (v64p_dec_store rows.1 rows.2.1 rows.2.2.1 rows.2.2.2).extractLsb' (64 * j) 64 = packTh (laneRowsH rows j) := by
  nat_cases j 8 <;> vec64_ls

end SkinnyVerif.Lemmas
