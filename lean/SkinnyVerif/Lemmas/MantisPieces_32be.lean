/- MANTIS, configuration 32be: the generated pieces equal the reference forms -/
import SkinnyVerif.Lemmas.MantisRef

namespace SkinnyVerif.Lemmas
open SkinnyVerif SkinnyVerif.Gen SkinnyVerif.Impl

set_option maxRecDepth 8000
set_option maxHeartbeats 8000000

/-- S-box layer applied to an image that itself contains per-half S-box results -/
local syntax "mantis_bits_sbox2" : tactic
macro_rules
  | `(tactic| mantis_bits_sbox2) => `(tactic|
    (bv_bits 64 <;>
      (simp [gen_unfold, refPre, refFwd, refMid, refBwd, refPost, alphaImg, lane, extractLsb'_extractLsb'_le,
             mantis_mix_columns, mantis_shift_rows, mantis_shift_rows_inverse, mantis_update_tweak, mantis_update_tweak_inverse,
             mantis_sbox_64_getElem, mantis_sbox_32_getElem, msbox_64_lane, msbox_32_lane]
       try (apply getElem_congr_fun
            bv_bits 4 <;>
              (simp [lane, extractLsb'_extractLsb'_le, mantis_sbox_64_getElem, mantis_sbox_32_getElem, msbox_64_lane, msbox_32_lane]
               try ac_rfl)))))

theorem mantisPieces_32be : MantisPiecesOK (opsMantis .c32be) where
  pre := by
    intro input ks
    refine Prod.ext ?_ (Prod.ext ?_ ?_) <;> simp only [opsMantis] <;> mantis_bits
  fwd := by
    intro st tw k1 r
    refine Prod.ext ?_ ?_ <;> simp only [opsMantis] <;> mantis_bits
  mid := by
    intro st k1
    refine Prod.ext ?_ ?_ <;> simp only [opsMantis]
    · mantis_bits_sbox2
    · mantis_bits
  bwd := by
    intro st tw k1 r
    refine Prod.ext ?_ ?_ <;> simp only [opsMantis]
    · mantis_bits_sbox
    · mantis_bits
  post := by
    intro st tw k1 ks
    simp only [opsMantis]; mantis_bits
  preT := by
    intro input ks tw
    refine Prod.ext ?_ (Prod.ext ?_ ?_) <;> simp only [opsMantis] <;> mantis_bits
  fwdT := by
    intro st tw k1 r
    refine Prod.ext ?_ ?_ <;> simp only [opsMantis] <;> mantis_bits
  midT := by
    intro st k1
    refine Prod.ext ?_ ?_ <;> simp only [opsMantis]
    · mantis_bits_sbox2
    · mantis_bits
  bwdT := by
    intro st tw k1 r
    refine Prod.ext ?_ ?_ <;> simp only [opsMantis]
    · mantis_bits_sbox
    · mantis_bits
  postT := by
    intro st tw k1 ks
    simp only [opsMantis]; mantis_bits

end SkinnyVerif.Lemmas
