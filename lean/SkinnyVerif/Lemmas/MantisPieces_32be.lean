/- MANTIS, configuration 32be: the generated pieces equal the reference forms
   (each piece is proved in its own module `MantisPieces_32be_<piece>`) -/
import SkinnyVerif.Lemmas.MantisPieces_32be_pre
import SkinnyVerif.Lemmas.MantisPieces_32be_fwd
import SkinnyVerif.Lemmas.MantisPieces_32be_mid
import SkinnyVerif.Lemmas.MantisPieces_32be_bwd
import SkinnyVerif.Lemmas.MantisPieces_32be_post
import SkinnyVerif.Lemmas.MantisPieces_32be_preT
import SkinnyVerif.Lemmas.MantisPieces_32be_fwdT
import SkinnyVerif.Lemmas.MantisPieces_32be_midT
import SkinnyVerif.Lemmas.MantisPieces_32be_bwdT
import SkinnyVerif.Lemmas.MantisPieces_32be_postT

namespace SkinnyVerif.Lemmas
open SkinnyVerif SkinnyVerif.Gen SkinnyVerif.Impl

theorem mantisPieces_32be : MantisPiecesOK (opsMantis .c32be) where
  pre := mantisPiece_32be_pre
  fwd := mantisPiece_32be_fwd
  mid := mantisPiece_32be_mid
  bwd := mantisPiece_32be_bwd
  post := mantisPiece_32be_post
  preT := mantisPiece_32be_preT
  fwdT := mantisPiece_32be_fwdT
  midT := mantisPiece_32be_midT
  bwdT := mantisPiece_32be_bwdT
  postT := mantisPiece_32be_postT

end SkinnyVerif.Lemmas
