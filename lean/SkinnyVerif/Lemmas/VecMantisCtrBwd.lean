/- Mantis vec128 CTR batch function: the lane-generic piece is the reference piece (stored, scalar tweak) -/
import SkinnyVerif.Lemmas.VecMantisCtrBase

namespace SkinnyVerif.Lemmas
open SkinnyVerif SkinnyVerif.Gen SkinnyVerif.Impl

set_option maxRecDepth 8000
set_option maxHeartbeats 8000000

theorem vmc_bwd_ref (st tk k1 r : BitVec 64) : vmc_bwd st tk k1 r = refBwd st tk k1 r := by
  refine Prod.ext ?_ ?_
  · vmcantis_bits_sbox
  · vmcantis_bits

end SkinnyVerif.Lemmas
