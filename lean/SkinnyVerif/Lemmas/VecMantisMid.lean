/- Mantis vec128 parallel ECB: the lane-generic middle section (S, M, S; k1 := k1 xor alpha) is the reference one -/
import SkinnyVerif.Lemmas.VecMantisBase

namespace SkinnyVerif.Lemmas
open SkinnyVerif SkinnyVerif.Gen SkinnyVerif.Impl

set_option maxRecDepth 8000
set_option maxHeartbeats 8000000

theorem vmp_mid_ref (st k1 : BitVec 64) : vmp_mid st k1 = refMid st k1 := by
  refine Prod.ext ?_ ?_
  · vmantis_bits_sbox
  · vmantis_bits

end SkinnyVerif.Lemmas
