/- MANTIS, configuration 32le, piece `bwd`: the generated piece equals its reference form
   (one file per piece so that the pieces are checked in parallel) -/
import SkinnyVerif.Lemmas.MantisRef

namespace SkinnyVerif.Lemmas
open SkinnyVerif SkinnyVerif.Gen SkinnyVerif.Impl

set_option maxRecDepth 8000
set_option maxHeartbeats 8000000

theorem mantisPiece_32le_bwd : ∀ st tw k1 r, (opsMantis .c32le).bwd st tw k1 r = refBwd st tw k1 r := by
  intro st tw k1 r
  refine Prod.ext ?_ ?_ <;> simp only [opsMantis]
  · mantis_bits_sbox
  · mantis_bits

end SkinnyVerif.Lemmas
