/- SKINNY-128, configuration 32be: all generated pieces satisfy `Ops128Correct` -/
import SkinnyVerif.Lemmas.Step128Tac
import SkinnyVerif.Gen.Skinny128PiecesOuts
import SkinnyVerif.Lemmas.Round128Enc_32be
import SkinnyVerif.Lemmas.Round128Dec_32be
import SkinnyVerif.Lemmas.Ops128Load2_32be
import SkinnyVerif.Lemmas.Ops128Load3_32be

namespace SkinnyVerif.Lemmas
open SkinnyVerif SkinnyVerif.Gen SkinnyVerif.Spec.Skinny SkinnyVerif.Impl

set_option maxRecDepth 8000
set_option maxHeartbeats 8000000

theorem o_encLoad_128_32be : ∀ x, (ops128 .c32be).encLoad x = x := by
  intro x; simp only [ops128]; img_tac 128

theorem o_encStore_128_32be : ∀ x, (ops128 .c32be).encStore x = x := by
  intro x; simp only [ops128]; img_tac 128

theorem o_decLoad_128_32be : ∀ x, (ops128 .c32be).decLoad x = x := by
  intro x; simp only [ops128]; img_tac 128

theorem o_decStore_128_32be : ∀ x, (ops128 .c32be).decStore x = x := by
  intro x; simp only [ops128]; img_tac 128

theorem o_xorTk1Load_128_32be : ∀ x, (ops128 .c32be).xorTk1Load x = x := by
  intro x; simp only [ops128]; img_tac 128

theorem o_tk1Load_128_32be : ∀ k, (ops128 .c32be).tk1Load k = (k, 0) := by
  intro k; simp only [ops128]; apply Prod.ext
  · simp only [skinny128_set_tk1_load_32be_out0]; img_tac 128
  · rfl

theorem o_tk1Step0_e_128_32be : ∀ tk rc, top8 ((ops128 .c32be).tk1Step0 tk rc).1 = xorCells (topRows (cells8 tk)) (constTop 8 (rcStep8 rc) 0) := by
  intro tk rc; simp only [ops128, skinny128_set_tk1_step_t0_32be_out0]; step128_tac

theorem o_tk1Step0_tk_128_32be : ∀ tk rc, cells8 ((ops128 .c32be).tk1Step0 tk rc).2.1 = permute PT (cells8 tk) := by
  intro tk rc; simp only [ops128, skinny128_set_tk1_step_t0_32be_out1]; step128_tac

theorem o_tk1Step0_rc_128_32be : ∀ tk rc, ((ops128 .c32be).tk1Step0 tk rc).2.2 = rcStep8 rc := by
  intro tk rc; simp only [ops128, skinny128_set_tk1_step_t0_32be_out2]; img_tac 8

theorem o_tk1Step1_e_128_32be : ∀ tk rc, top8 ((ops128 .c32be).tk1Step1 tk rc).1 = xorCells (topRows (cells8 tk)) (constTop 8 (rcStep8 rc) 2) := by
  intro tk rc; simp only [ops128, skinny128_set_tk1_step_t1_32be_out0]; step128_tac

theorem o_tk1Step1_tk_128_32be : ∀ tk rc, cells8 ((ops128 .c32be).tk1Step1 tk rc).2.1 = permute PT (cells8 tk) := by
  intro tk rc; simp only [ops128, skinny128_set_tk1_step_t1_32be_out1]; step128_tac

theorem o_tk1Step1_rc_128_32be : ∀ tk rc, ((ops128 .c32be).tk1Step1 tk rc).2.2 = rcStep8 rc := by
  intro tk rc; simp only [ops128, skinny128_set_tk1_step_t1_32be_out2]; img_tac 8

theorem o_xorTk1Step_e_128_32be : ∀ e tk, top8 ((ops128 .c32be).xorTk1Step e tk).1 = xorCells (top8 e) (topRows (cells8 tk)) := by
  intro e tk; simp only [ops128, skinny128_xor_tk1_step_32be_out0]; step128_tac

theorem o_xorTk1Step_tk_128_32be : ∀ e tk, cells8 ((ops128 .c32be).xorTk1Step e tk).2 = permute PT (cells8 tk) := by
  intro e tk; simp only [ops128, skinny128_xor_tk1_step_32be_out1]; step128_tac

theorem o_tk2Step_e_128_32be : ∀ e tk, top8 ((ops128 .c32be).tk2Step e tk).1 = xorCells (top8 e) (topRows (cells8 tk)) := by
  intro e tk; simp only [ops128, skinny128_set_tk2_step_32be_out0]; step128_tac

theorem o_tk2Step_tk_128_32be : ∀ e tk, cells8 ((ops128 .c32be).tk2Step e tk).2 = mapTop lfsr2_8 (permute PT (cells8 tk)) := by
  intro e tk; simp only [ops128, skinny128_set_tk2_step_32be_out1]; step128_tac

theorem o_tk3Step_e_128_32be : ∀ e tk, top8 ((ops128 .c32be).tk3Step e tk).1 = xorCells (top8 e) (topRows (cells8 tk)) := by
  intro e tk; simp only [ops128, skinny128_set_tk3_step_32be_out0]; step128_tac

theorem o_tk3Step_tk_128_32be : ∀ e tk, cells8 ((ops128 .c32be).tk3Step e tk).2 = mapTop lfsr3_8 (permute PT (cells8 tk)) := by
  intro e tk; simp only [ops128, skinny128_set_tk3_step_32be_out1]; step128_tac

theorem ops128Correct_32be : Ops128Correct (ops128 .c32be) :=
  { encLoad := o_encLoad_128_32be, encStore := o_encStore_128_32be, decLoad := o_decLoad_128_32be, decStore := o_decStore_128_32be,
    encRound := by intro st sk; simp only [ops128]; exact encRound128_32be st sk
    decRound := by intro st sk; simp only [ops128]; exact decRound128_32be st sk
    tk1Load := o_tk1Load_128_32be,
    tk1Step0_e := o_tk1Step0_e_128_32be,
    tk1Step0_tk := o_tk1Step0_tk_128_32be,
    tk1Step0_rc := o_tk1Step0_rc_128_32be,
    tk1Step1_e := o_tk1Step1_e_128_32be,
    tk1Step1_tk := o_tk1Step1_tk_128_32be,
    tk1Step1_rc := o_tk1Step1_rc_128_32be,
    xorTk1Load := o_xorTk1Load_128_32be,
    xorTk1Step_e := o_xorTk1Step_e_128_32be,
    xorTk1Step_tk := o_xorTk1Step_tk_128_32be,
    tk2Step_e := o_tk2Step_e_128_32be,
    tk2Step_tk := o_tk2Step_tk_128_32be,
    tk3Step_e := o_tk3Step_e_128_32be,
    tk3Step_tk := o_tk3Step_tk_128_32be,
    tk2Load := tk2Load128_32be, tk3Load := tk3Load128_32be }

end SkinnyVerif.Lemmas
