/-
The 128-bit vector back end of Skinny-128 parallel ECB (`src/skinny128-parallel-vec128.c`): common definitions
(`Vec128Round`, `Vec128Load*`, `Vec128Store*` hold the theorems, one module each so that they are checked in parallel).

The round bodies are translated lane-generically (a vector is the 32-bit element of one lane: GCC's
element-wise semantics of vector operators is part of the translator's trusted base); the load and
store segments are translated with explicit lanes.  Shown here: the vector round on the rows of one
lane is the C library's scalar 32-bit round on the block made of those rows, and load / store are
the transposition between four consecutive blocks and four row vectors.
-/
import SkinnyVerif.Lemmas.AllConfigs
import SkinnyVerif.Gen.Vec128LeafLanes
import SkinnyVerif.Gen.Vec128Pieces
import SkinnyVerif.Basic.Segments

namespace SkinnyVerif.Lemmas
open SkinnyVerif SkinnyVerif.Gen SkinnyVerif.Impl SkinnyVerif.Spec.Skinny

theorem v128p_sbox_lane_eq : ∀ v, v128p_sbox_lane v = S8 v := forall_bv_eq _ _ (by decide +kernel)
theorem v128p_inv_sbox_lane_eq : ∀ v, v128p_inv_sbox_lane v = S8inv v := forall_bv_eq _ _ (by decide +kernel)
theorem v128p_sbox_lane' : v128p_sbox_lane = S8 := funext v128p_sbox_lane_eq
theorem v128p_inv_sbox_lane' : v128p_inv_sbox_lane = S8inv := funext v128p_inv_sbox_lane_eq

/-- a block from its four 32-bit rows -/
def pack4 (r0 r1 r2 r3 : BitVec 32) : BitVec 128 :=
  r0.setWidth 128 ||| (r1.setWidth 128 <<< 32) ||| (r2.setWidth 128 <<< 64) ||| (r3.setWidth 128 <<< 96)


/-! ## reading rows, bytes and bits out of a packed block -/

theorem pack4_getElem (a b c d : BitVec 32) (j : Nat) (hj : j < 128) :
    (pack4 a b c d)[j] = if h0 : j < 32 then a[j] else if h1 : j < 64 then b[j - 32]'(by omega) else if h2 : j < 96 then c[j - 64]'(by omega) else d[j - 96]'(by omega) := by
  simp only [pack4, BitVec.getElem_or, BitVec.getElem_setWidth, BitVec.getElem_shiftLeft]
  by_cases h0 : j < 32
  · have e1 : ¬ (32 ≤ j) := by omega
    simp [h0, BitVec.getLsbD_eq_getElem, show j < 64 by omega, show j < 96 by omega]
  · by_cases h1 : j < 64
    · simp [h0, h1, show j < 96 by omega, BitVec.getLsbD_eq_getElem, show j - 32 < 32 by omega, BitVec.getLsbD_of_ge a j (by omega)]
    · by_cases h2 : j < 96
      · simp [h0, h1, h2, BitVec.getLsbD_eq_getElem, show j - 64 < 32 by omega, BitVec.getLsbD_of_ge a j (by omega), BitVec.getLsbD_of_ge b (j - 32) (by omega)]
      · simp [h0, h1, h2, BitVec.getLsbD_eq_getElem, show j - 96 < 32 by omega, BitVec.getLsbD_of_ge a j (by omega), BitVec.getLsbD_of_ge b (j - 32) (by omega), BitVec.getLsbD_of_ge c (j - 64) (by omega)]

set_option maxRecDepth 8000 in
theorem pack4_row0 (a b c d : BitVec 32) : BitVec.extractLsb' 0 32 (pack4 a b c d) = a := by
  bv_bits 32 <;> simp [pack4]

set_option maxRecDepth 8000 in
theorem pack4_row1 (a b c d : BitVec 32) : BitVec.extractLsb' 32 32 (pack4 a b c d) = b := by
  bv_bits 32 <;> simp [pack4]

set_option maxRecDepth 8000 in
theorem pack4_row2 (a b c d : BitVec 32) : BitVec.extractLsb' 64 32 (pack4 a b c d) = c := by
  bv_bits 32 <;> simp [pack4]

set_option maxRecDepth 8000 in
theorem pack4_row3 (a b c d : BitVec 32) : BitVec.extractLsb' 96 32 (pack4 a b c d) = d := by
  bv_bits 32 <;> simp [pack4]

set_option maxRecDepth 8000 in
theorem pack4_byte0 (a b c d : BitVec 32) : BitVec.extractLsb' 0 8 (pack4 a b c d) = BitVec.extractLsb' 0 8 a := by
  bv_bits 8 <;> simp [pack4]

set_option maxRecDepth 8000 in
theorem pack4_byte1 (a b c d : BitVec 32) : BitVec.extractLsb' 8 8 (pack4 a b c d) = BitVec.extractLsb' 8 8 a := by
  bv_bits 8 <;> simp [pack4]

set_option maxRecDepth 8000 in
theorem pack4_byte2 (a b c d : BitVec 32) : BitVec.extractLsb' 16 8 (pack4 a b c d) = BitVec.extractLsb' 16 8 a := by
  bv_bits 8 <;> simp [pack4]

set_option maxRecDepth 8000 in
theorem pack4_byte3 (a b c d : BitVec 32) : BitVec.extractLsb' 24 8 (pack4 a b c d) = BitVec.extractLsb' 24 8 a := by
  bv_bits 8 <;> simp [pack4]

set_option maxRecDepth 8000 in
theorem pack4_byte4 (a b c d : BitVec 32) : BitVec.extractLsb' 32 8 (pack4 a b c d) = BitVec.extractLsb' 0 8 b := by
  bv_bits 8 <;> simp [pack4]

set_option maxRecDepth 8000 in
theorem pack4_byte5 (a b c d : BitVec 32) : BitVec.extractLsb' 40 8 (pack4 a b c d) = BitVec.extractLsb' 8 8 b := by
  bv_bits 8 <;> simp [pack4]

set_option maxRecDepth 8000 in
theorem pack4_byte6 (a b c d : BitVec 32) : BitVec.extractLsb' 48 8 (pack4 a b c d) = BitVec.extractLsb' 16 8 b := by
  bv_bits 8 <;> simp [pack4]

set_option maxRecDepth 8000 in
theorem pack4_byte7 (a b c d : BitVec 32) : BitVec.extractLsb' 56 8 (pack4 a b c d) = BitVec.extractLsb' 24 8 b := by
  bv_bits 8 <;> simp [pack4]

set_option maxRecDepth 8000 in
theorem pack4_byte8 (a b c d : BitVec 32) : BitVec.extractLsb' 64 8 (pack4 a b c d) = BitVec.extractLsb' 0 8 c := by
  bv_bits 8 <;> simp [pack4]

set_option maxRecDepth 8000 in
theorem pack4_byte9 (a b c d : BitVec 32) : BitVec.extractLsb' 72 8 (pack4 a b c d) = BitVec.extractLsb' 8 8 c := by
  bv_bits 8 <;> simp [pack4]

set_option maxRecDepth 8000 in
theorem pack4_byte10 (a b c d : BitVec 32) : BitVec.extractLsb' 80 8 (pack4 a b c d) = BitVec.extractLsb' 16 8 c := by
  bv_bits 8 <;> simp [pack4]

set_option maxRecDepth 8000 in
theorem pack4_byte11 (a b c d : BitVec 32) : BitVec.extractLsb' 88 8 (pack4 a b c d) = BitVec.extractLsb' 24 8 c := by
  bv_bits 8 <;> simp [pack4]

set_option maxRecDepth 8000 in
theorem pack4_byte12 (a b c d : BitVec 32) : BitVec.extractLsb' 96 8 (pack4 a b c d) = BitVec.extractLsb' 0 8 d := by
  bv_bits 8 <;> simp [pack4]

set_option maxRecDepth 8000 in
theorem pack4_byte13 (a b c d : BitVec 32) : BitVec.extractLsb' 104 8 (pack4 a b c d) = BitVec.extractLsb' 8 8 d := by
  bv_bits 8 <;> simp [pack4]

set_option maxRecDepth 8000 in
theorem pack4_byte14 (a b c d : BitVec 32) : BitVec.extractLsb' 112 8 (pack4 a b c d) = BitVec.extractLsb' 16 8 d := by
  bv_bits 8 <;> simp [pack4]

set_option maxRecDepth 8000 in
theorem pack4_byte15 (a b c d : BitVec 32) : BitVec.extractLsb' 120 8 (pack4 a b c d) = BitVec.extractLsb' 24 8 d := by
  bv_bits 8 <;> simp [pack4]

def rotl32 (x : BitVec 32) (c : Nat) : BitVec 32 := (x <<< c) ||| (x >>> (32 - c))

/-- rows of one lane as a block -/
def packT (t : BitVec 32 × BitVec 32 × BitVec 32 × BitVec 32) : BitVec 128 := pack4 t.1 t.2.1 t.2.2.1 t.2.2.2

/-- the rows of lane `j` of four row vectors -/
def laneRows (rows : BitVec 128 × BitVec 128 × BitVec 128 × BitVec 128) (j : Nat) : BitVec 32 × BitVec 32 × BitVec 32 × BitVec 32 :=
  (lane 32 j rows.1, lane 32 j rows.2.1, lane 32 j rows.2.2.1, lane 32 j rows.2.2.2)

/-- load / store lemmas: both sides are or-of-shifted-segment images; compare them byte lane by byte lane,
computing each lane in one pass over the segments (`Basic/Segments.lean`) -/
syntax "vec_ls" : tactic
macro_rules
  | `(tactic| vec_ls) => `(tactic|
    (simp only [gen_unfold, packT, laneRows, pack4, lane, Nat.reduceMul]
     apply eq_of_lanes 8 16 (by decide) (by decide)
     intro i hi
     nat_cases i 16 <;> (simp only [lane, Nat.reduceMul, extractLsb'_extractLsb'_le, Nat.reduceAdd]; seg_windows; try (bv_bits 8 <;> simp))))

end SkinnyVerif.Lemmas
