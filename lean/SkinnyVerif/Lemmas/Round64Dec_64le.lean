/- SKINNY-64, configuration 64le: the generated decrypt round body computes the specification's roundInv on cells -/
import SkinnyVerif.Lemmas.RoundTac

namespace SkinnyVerif.Lemmas
open SkinnyVerif SkinnyVerif.Gen SkinnyVerif.Spec.Skinny

set_option maxRecDepth 8000 in
set_option maxHeartbeats 8000000 in
theorem decRound64_64le (st : BitVec 64) (sk : BitVec 32) :
    cells4 (skinny64_ecb_decrypt_round_64le st sk) = roundInv ops4 (rk4 sk) (cells4 st) := by round64_inv_tac

end SkinnyVerif.Lemmas
