/-
`IncSpec`: the counter increment the CTR code uses (`Impl.incCounter`, i.e. the generated
`skinnyN_inc_counter` on byte strings) is big-endian addition modulo 2^(8·bs) -- for every
counter value, so with carries through every byte and wrap-around.
-/
import SkinnyVerif.Lemmas.Counter
import SkinnyVerif.Properties.C05

namespace SkinnyVerif.Lemmas
open SkinnyVerif SkinnyVerif.Gen SkinnyVerif.Impl SkinnyVerif.Properties

theorem natBE_getD (n v i : Nat) (hi : i < n) : ((natBE n v).getD i 0).toNat = (v >>> (8 * (n - 1 - i))) % 256 := by
  simp only [natBE]
  rw [List.getD_eq_getElem?_getD, List.getElem?_map, List.getElem?_range hi]
  simp only [Option.map_some, Option.getD_some]
  have : (v >>> (8 * (n - 1 - i))) % 256 < 256 := Nat.mod_lt _ (by decide)
  simp [UInt8.toNat_ofNat, Nat.mod_eq_of_lt this]

theorem incSpec16 : IncSpec 16 := by
  intro k hk v
  simp only [incCounter, if_true]
  generalize hx : image 128 (natBE 16 v) = x
  rw [bytesOf_lanes]
  simp only [natBE]
  apply List.map_congr_left
  intro p hp
  have hp16 : p < 16 := List.mem_range.mp hp
  congr 1
  have hk16 : (BitVec.ofNat 16 k).toNat = k := by simp [BitVec.toNat_ofNat]; omega
  rw [inc128_eq, lane_asm16 _ p hp16, stage_byte_toNat, vBV128_toNat x _ (by rw [hk16]; omega) (15 - p) (by omega), hk16]
  rw [← addChain_getD (fun j => (lane 8 (15 - j) x).toNat) k 16 (15 - p) (by omega)]
  have hL : (List.range 16).map (fun j => (lane 8 (15 - j) x).toNat) = (List.range 16).map (fun j => (v >>> (8 * j)) % 256) := by
    apply List.map_congr_left
    intro j hj
    have hj16 : j < 16 := List.mem_range.mp hj
    rw [← hx, lane8_image 128 _ (15 - j) (by omega)]
    have h1 := natBE_getD 16 v (15 - j) (by omega)
    have h2 : 16 - 1 - (15 - j) = j := by omega
    rw [h2] at h1
    have : ((natBE 16 v).getD (15 - j) 0).toNat < 256 := ((natBE 16 v).getD (15 - j) 0).toNat_lt
    rw [BitVec.toNat_ofNat, Nat.mod_eq_of_lt this, h1]
  rw [hL, valLE_digit _ (addChain_lt _ _) (15 - p) (by simp [addChain_length]; omega), addChain_val, valLE_digits]
  simp only [List.length_map, List.length_range]
  have h256 : (256 : Nat) ^ 16 = 2 ^ (8 * 16) := by decide
  rw [h256, Nat.add_mod, Nat.mod_mod, ← Nat.add_mod]

theorem incSpec8 : IncSpec 8 := by
  intro k hk v
  have h8 : ¬ (8 = 16) := by decide
  simp only [incCounter, h8, if_false]
  generalize hx : image 64 (natBE 8 v) = x
  rw [bytesOf_lanes]
  simp only [natBE]
  apply List.map_congr_left
  intro p hp
  have hp8 : p < 8 := List.mem_range.mp hp
  congr 1
  have hk16 : (BitVec.ofNat 16 k).toNat = k := by simp [BitVec.toNat_ofNat]; omega
  rw [inc64_eq, lane_asm8 _ p hp8, stage_byte_toNat, vBV64_toNat x _ (by rw [hk16]; omega) (7 - p) (by omega), hk16]
  rw [← addChain_getD (fun j => (lane 8 (7 - j) x).toNat) k 8 (7 - p) (by omega)]
  have hL : (List.range 8).map (fun j => (lane 8 (7 - j) x).toNat) = (List.range 8).map (fun j => (v >>> (8 * j)) % 256) := by
    apply List.map_congr_left
    intro j hj
    have hj8 : j < 8 := List.mem_range.mp hj
    rw [← hx, lane8_image 64 _ (7 - j) (by omega)]
    have h1 := natBE_getD 8 v (7 - j) (by omega)
    have h2 : 8 - 1 - (7 - j) = j := by omega
    rw [h2] at h1
    have : ((natBE 8 v).getD (7 - j) 0).toNat < 256 := ((natBE 8 v).getD (7 - j) 0).toNat_lt
    rw [BitVec.toNat_ofNat, Nat.mod_eq_of_lt this, h1]
  rw [hL, valLE_digit _ (addChain_lt _ _) (7 - p) (by simp [addChain_length]; omega), addChain_val, valLE_digits]
  simp only [List.length_map, List.length_range]
  have h256 : (256 : Nat) ^ 8 = 2 ^ (8 * 8) := by decide
  rw [h256, Nat.add_mod, Nat.mod_mod, ← Nat.add_mod]

end SkinnyVerif.Lemmas
