/- MANTIS, configuration 64le, piece `pre`: the generated piece equals its reference form
   (one file per piece so that the pieces are checked in parallel) -/
import SkinnyVerif.Lemmas.MantisRef

namespace SkinnyVerif.Lemmas
open SkinnyVerif SkinnyVerif.Gen SkinnyVerif.Impl

set_option maxRecDepth 8000
set_option maxHeartbeats 8000000

theorem mantisPiece_64le_pre : ∀ input ks, (opsMantis .c64le).pre input ks = refPre input ks (ks.extractLsb' 192 64) := by
  intro input ks
  refine Prod.ext ?_ (Prod.ext ?_ ?_) <;> simp only [opsMantis] <;> mantis_bits

end SkinnyVerif.Lemmas
