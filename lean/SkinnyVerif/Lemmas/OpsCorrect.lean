/-
What the generic (configuration-independent) refinement proofs need to know about the
generated pieces of one build configuration, stated on cells.  `Ops128Correct (ops128 t)` and
`Ops64Correct (ops64 t)` are proved for each of the four configurations `t` in
`Lemmas/Ops128_*.lean` / `Lemmas/Ops64_*.lean` by unfolding the generated definitions.
-/
import SkinnyVerif.Lemmas.RoundTac
import SkinnyVerif.Impl.Ops

namespace SkinnyVerif.Lemmas
open SkinnyVerif SkinnyVerif.Gen SkinnyVerif.Spec.Skinny SkinnyVerif.Impl

/-- the C expression that steps the 6-bit round-constant LFSR, on the `uint8_t` it is kept in -/
def rcStep8 (rc : BitVec 8) : BitVec 8 :=
  (((rc <<< 1) ^^^ ((rc >>> 5) &&& 1)) ^^^ ((rc >>> 4) &&& 1) ^^^ 1) &&& 0x3f

theorem rcStep8_spec : ∀ rc : BitVec 8, rc < 64 →
    (rcStep8 rc).setWidth 6 = rcNext (rc.setWidth 6) ∧ rcStep8 rc < 64 := by
  have h := forall_bv_of_all (w := 8)
    (fun rc => decide (rc < 64 → (rcStep8 rc).setWidth 6 = rcNext (rc.setWidth 6) ∧ rcStep8 rc < 64)) (by decide +kernel)
  intro rc hrc
  have := h rc
  simp only [decide_eq_true_eq] at this
  exact this hrc

/-- constants `c0`, `c1` of AddConstants and the tweak-domain bit as a state-shaped mask
(`c2` is added by the round function, see `c2cells`) -/
def constTop (s : Nat) (rc : BitVec 8) (dom : BitVec s) : Cells s :=
  Vector.ofFn fun i =>
    if i.val = 0 then (rc &&& 0xf).setWidth s
    else if i.val = 4 then (rc >>> 4).setWidth s
    else if i.val = 2 then dom
    else 0

theorem constTop_get (s : Nat) (rc : BitVec 8) (dom : BitVec s) (i : Nat) (hi : i < 16) :
    (constTop s rc dom)[i] = if i = 0 then (rc &&& 0xf).setWidth s else if i = 4 then (rc >>> 4).setWidth s else if i = 2 then dom else 0 := by
  simp [constTop]

theorem topRows_get {s : Nat} (tk : Cells s) (i : Nat) (hi : i < 16) : (topRows tk)[i] = if i < 8 then tk[i] else 0 := by
  simp [topRows]
theorem mapTop_get {s : Nat} (f : BitVec s → BitVec s) (tk : Cells s) (i : Nat) (hi : i < 16) :
    (mapTop f tk)[i] = if i < 8 then f tk[i] else tk[i] := by
  simp [mapTop]

/-- correctness of the generated pieces of `skinny128-cipher.c` in one configuration -/
structure Ops128Correct (o : SkinnyOps 128 64) : Prop where
  encLoad : ∀ x, o.encLoad x = x
  encStore : ∀ x, o.encStore x = x
  decLoad : ∀ x, o.decLoad x = x
  decStore : ∀ x, o.decStore x = x
  encRound : ∀ st sk, cells8 (o.encRound st sk) = round ops8 (rk8 sk) (cells8 st)
  decRound : ∀ st sk, cells8 (o.decRound st sk) = roundInv ops8 (rk8 sk) (cells8 st)
  tk1Load : ∀ k, o.tk1Load k = (k, 0)
  tk1Step0_e : ∀ tk rc, top8 (o.tk1Step0 tk rc).1 = xorCells (topRows (cells8 tk)) (constTop 8 (rcStep8 rc) 0)
  tk1Step0_tk : ∀ tk rc, cells8 (o.tk1Step0 tk rc).2.1 = permute PT (cells8 tk)
  tk1Step0_rc : ∀ tk rc, (o.tk1Step0 tk rc).2.2 = rcStep8 rc
  tk1Step1_e : ∀ tk rc, top8 (o.tk1Step1 tk rc).1 = xorCells (topRows (cells8 tk)) (constTop 8 (rcStep8 rc) 2)
  tk1Step1_tk : ∀ tk rc, cells8 (o.tk1Step1 tk rc).2.1 = permute PT (cells8 tk)
  tk1Step1_rc : ∀ tk rc, (o.tk1Step1 tk rc).2.2 = rcStep8 rc
  xorTk1Load : ∀ k, o.xorTk1Load k = k
  xorTk1Step_e : ∀ e tk, top8 (o.xorTk1Step e tk).1 = xorCells (top8 e) (topRows (cells8 tk))
  xorTk1Step_tk : ∀ e tk, cells8 (o.xorTk1Step e tk).2 = permute PT (cells8 tk)
  tk2Step_e : ∀ e tk, top8 (o.tk2Step e tk).1 = xorCells (top8 e) (topRows (cells8 tk))
  tk2Step_tk : ∀ e tk, cells8 (o.tk2Step e tk).2 = mapTop lfsr2_8 (permute PT (cells8 tk))
  tk3Step_e : ∀ e tk, top8 (o.tk3Step e tk).1 = xorCells (top8 e) (topRows (cells8 tk))
  tk3Step_tk : ∀ e tk, cells8 (o.tk3Step e tk).2 = mapTop lfsr3_8 (permute PT (cells8 tk))
  tk2Load : ∀ k junk key, 1 ≤ k → k ≤ 16 → o.tk2Load k junk key = key &&& BitVec.ofNat 128 (2 ^ (8 * k) - 1)
  tk3Load : ∀ k junk key, 1 ≤ k → k ≤ 16 → o.tk3Load k junk key = key &&& BitVec.ofNat 128 (2 ^ (8 * k) - 1)

/-- correctness of the generated pieces of `skinny64-cipher.c` in one configuration -/
structure Ops64Correct (o : SkinnyOps 64 32) : Prop where
  encLoad : ∀ x, o.encLoad x = x
  encStore : ∀ x, o.encStore x = x
  decLoad : ∀ x, o.decLoad x = x
  decStore : ∀ x, o.decStore x = x
  encRound : ∀ st sk, cells4 (o.encRound st sk) = round ops4 (rk4 sk) (cells4 st)
  decRound : ∀ st sk, cells4 (o.decRound st sk) = roundInv ops4 (rk4 sk) (cells4 st)
  tk1Load : ∀ k, o.tk1Load k = (k, 0)
  tk1Step0_e : ∀ tk rc, top4 (o.tk1Step0 tk rc).1 = xorCells (topRows (cells4 tk)) (constTop 4 (rcStep8 rc) 0)
  tk1Step0_tk : ∀ tk rc, cells4 (o.tk1Step0 tk rc).2.1 = permute PT (cells4 tk)
  tk1Step0_rc : ∀ tk rc, (o.tk1Step0 tk rc).2.2 = rcStep8 rc
  tk1Step1_e : ∀ tk rc, top4 (o.tk1Step1 tk rc).1 = xorCells (topRows (cells4 tk)) (constTop 4 (rcStep8 rc) 2)
  tk1Step1_tk : ∀ tk rc, cells4 (o.tk1Step1 tk rc).2.1 = permute PT (cells4 tk)
  tk1Step1_rc : ∀ tk rc, (o.tk1Step1 tk rc).2.2 = rcStep8 rc
  xorTk1Load : ∀ k, o.xorTk1Load k = k
  xorTk1Step_e : ∀ e tk, top4 (o.xorTk1Step e tk).1 = xorCells (top4 e) (topRows (cells4 tk))
  xorTk1Step_tk : ∀ e tk, cells4 (o.xorTk1Step e tk).2 = permute PT (cells4 tk)
  tk2Step_e : ∀ e tk, top4 (o.tk2Step e tk).1 = xorCells (top4 e) (topRows (cells4 tk))
  tk2Step_tk : ∀ e tk, cells4 (o.tk2Step e tk).2 = mapTop lfsr2_4 (permute PT (cells4 tk))
  tk3Step_e : ∀ e tk, top4 (o.tk3Step e tk).1 = xorCells (top4 e) (topRows (cells4 tk))
  tk3Step_tk : ∀ e tk, cells4 (o.tk3Step e tk).2 = mapTop lfsr3_4 (permute PT (cells4 tk))
  tk2Load : ∀ k junk key, 1 ≤ k → k ≤ 8 → o.tk2Load k junk key = key &&& BitVec.ofNat 64 (2 ^ (8 * k) - 1)
  tk3Load : ∀ k junk key, 1 ≤ k → k ≤ 8 → o.tk3Load k junk key = key &&& BitVec.ofNat 64 (2 ^ (8 * k) - 1)

end SkinnyVerif.Lemmas
