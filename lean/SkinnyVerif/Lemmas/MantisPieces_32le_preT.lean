/- MANTIS, configuration 32le, piece `preT`: the generated piece equals its reference form
   (one file per piece so that the pieces are checked in parallel) -/
import SkinnyVerif.Lemmas.MantisRef

namespace SkinnyVerif.Lemmas
open SkinnyVerif SkinnyVerif.Gen SkinnyVerif.Impl

set_option maxRecDepth 8000
set_option maxHeartbeats 8000000

theorem mantisPiece_32le_preT : ∀ input ks tw, (opsMantis .c32le).preT input ks tw = refPre input ks tw := by
  intro input ks tw
  refine Prod.ext ?_ (Prod.ext ?_ ?_) <;> simp only [opsMantis] <;> mantis_bits

end SkinnyVerif.Lemmas
