/-
The lane versions of the generated S-boxes and LFSRs are the specification's cell functions.
Each statement quantifies over a complete finite domain (16 or 256 values) and is decided by
kernel evaluation.
-/
import SkinnyVerif.Basic.Finite
import SkinnyVerif.Spec.Skinny
import SkinnyVerif.Gen.Skinny128Leaf
import SkinnyVerif.Gen.Skinny64Leaf

namespace SkinnyVerif.Lemmas
open SkinnyVerif SkinnyVerif.Gen SkinnyVerif.Spec.Skinny

theorem S8inv_S8 : ∀ v : BitVec 8, S8inv (S8 v) = v := forall_bv_eq _ _ (by decide +kernel)
theorem S8_S8inv : ∀ v : BitVec 8, S8 (S8inv v) = v := forall_bv_eq _ _ (by decide +kernel)

theorem skinny128_sbox_64_lane_eq : ∀ v, skinny128_sbox_64_lane v = S8 v := forall_bv_eq _ _ (by decide +kernel)
theorem skinny128_sbox_32_lane_eq : ∀ v, skinny128_sbox_32_lane v = S8 v := forall_bv_eq _ _ (by decide +kernel)
theorem skinny128_inv_sbox_64_lane_eq : ∀ v, skinny128_inv_sbox_64_lane v = S8inv v := forall_bv_eq _ _ (by decide +kernel)
theorem skinny128_inv_sbox_32_lane_eq : ∀ v, skinny128_inv_sbox_32_lane v = S8inv v := forall_bv_eq _ _ (by decide +kernel)
theorem skinny128_LFSR2_64_lane_eq : ∀ v, skinny128_LFSR2_64_lane v = lfsr2_8 v := forall_bv_eq _ _ (by decide +kernel)
theorem skinny128_LFSR2_32_lane_eq : ∀ v, skinny128_LFSR2_32_lane v = lfsr2_8 v := forall_bv_eq _ _ (by decide +kernel)
theorem skinny128_LFSR3_64_lane_eq : ∀ v, skinny128_LFSR3_64_lane v = lfsr3_8 v := forall_bv_eq _ _ (by decide +kernel)
theorem skinny128_LFSR3_32_lane_eq : ∀ v, skinny128_LFSR3_32_lane v = lfsr3_8 v := forall_bv_eq _ _ (by decide +kernel)

theorem skinny64_sbox_64_lane_eq : ∀ v, skinny64_sbox_64_lane v = S4 v := forall_bv_eq _ _ (by decide +kernel)
theorem skinny64_sbox_32_lane_eq : ∀ v, skinny64_sbox_32_lane v = S4 v := forall_bv_eq _ _ (by decide +kernel)
theorem skinny64_inv_sbox_64_lane_eq : ∀ v, skinny64_inv_sbox_64_lane v = S4inv v := forall_bv_eq _ _ (by decide +kernel)
theorem skinny64_inv_sbox_32_lane_eq : ∀ v, skinny64_inv_sbox_32_lane v = S4inv v := forall_bv_eq _ _ (by decide +kernel)
theorem skinny64_LFSR2_lane_eq : ∀ v, skinny64_LFSR2_lane v = lfsr2_4 v := forall_bv_eq _ _ (by decide +kernel)
theorem skinny64_LFSR3_lane_eq : ∀ v, skinny64_LFSR3_lane v = lfsr3_4 v := forall_bv_eq _ _ (by decide +kernel)

end SkinnyVerif.Lemmas
