/- Skinny-64 vec128 parallel ECB: load / store is the transposition between eight blocks and four row vectors -/
import SkinnyVerif.Lemmas.Vec64Base

namespace SkinnyVerif.Lemmas
open SkinnyVerif SkinnyVerif.Gen SkinnyVerif.Impl SkinnyVerif.Spec.Skinny

set_option maxRecDepth 8000
set_option maxHeartbeats 8000000

theorem v64p_enc_load_lane (input : BitVec 512) (j : Nat) (hj : j < 8) :
    packTh (laneRowsH (v64p_enc_load input) j) = input.extractLsb' (64 * j) 64 := by
  nat_cases j 8 <;> vec64_ls

end SkinnyVerif.Lemmas
