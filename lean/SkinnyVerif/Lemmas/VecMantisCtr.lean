/-
Mantis vec128 CTR batch function: assembly of the translated pieces of `mantis_ecb_encrypt_eight` and its
per-lane view.  State: four row vectors (eight lanes); tweak and k1: scalar `MantisCells_t` images.
-/
import SkinnyVerif.Lemmas.VecMantis
import SkinnyVerif.Lemmas.VecMantisCtrFwd
import SkinnyVerif.Lemmas.VecMantisCtrMid
import SkinnyVerif.Lemmas.VecMantisCtrBwd
import SkinnyVerif.Lemmas.VecMantisCtrPrePost

namespace SkinnyVerif.Lemmas
open SkinnyVerif SkinnyVerif.Gen SkinnyVerif.Impl

/-- a lane function on images applied to every lane of the state rows -/
def mapSt (g : BitVec 64 → BitVec 64) (s : Rows128) : Rows128 := zipRowsH (fun a _ => unpackTh (g (packTh a))) s s

theorem laneOf_mapSt (g : BitVec 64 → BitVec 64) (s : Rows128) (j : Nat) (hj : j < 8) : laneOf (mapSt g s) j = g (laneOf s j) := by
  simp only [laneOf, mapSt, laneRowsH_zipRowsH _ _ _ j hj, packTh_unpackTh]

/-- one step on (state rows, scalar tweak): the tweak update does not look at the state -/
def stepCtr (g : BitVec 64 → BitVec 64 → BitVec 64 × BitVec 64) (p : Rows128 × BitVec 64) : Rows128 × BitVec 64 :=
  (mapSt (fun s => (g s p.2).1) p.1, (g 0 p.2).2)

theorem laneOf_foldCtr {α : Type} (g : α → BitVec 64 → BitVec 64 → BitVec 64 × BitVec 64)
    (hind : ∀ a s s' t, (g a s t).2 = (g a s' t).2) (l : List α) (p : Rows128 × BitVec 64) (j : Nat) (hj : j < 8) :
    (laneOf (l.foldl (fun acc a => stepCtr (g a) acc) p).1 j, (l.foldl (fun acc a => stepCtr (g a) acc) p).2) =
      l.foldl (fun (acc : BitVec 64 × BitVec 64) a => g a acc.1 acc.2) (laneOf p.1 j, p.2) := by
  induction l generalizing p with
  | nil => rfl
  | cons a rest ih =>
    simp only [List.foldl_cons]
    rw [ih (stepCtr (g a) p)]
    congr 1
    simp only [stepCtr, laneOf_mapSt _ _ j hj]
    exact Prod.ext rfl (hind a 0 (laneOf p.1 j) p.2)

def vcK1 (ks : BitVec 288) (img : BitVec 512) : BitVec 64 := (vmc_pre img ks).2.2
def vcA (ks : BitVec 288) (rounds : Nat) (img : BitVec 512) : Rows128 × BitVec 64 :=
  (List.range rounds).foldl (fun acc i => stepCtr (fun s t => vmc_fwd s t (vcK1 ks img) (vmc_rc.getD i 0)) acc)
    (rowsOf (vmc_pre img ks).1, (vmc_pre img ks).2.1)
def vcK1' (ks : BitVec 288) (img : BitVec 512) : BitVec 64 := (vmc_mid 0 (vcK1 ks img)).2
def vcB (ks : BitVec 288) (rounds : Nat) (img : BitVec 512) : Rows128 × BitVec 64 :=
  (List.range rounds).foldl (fun acc i => stepCtr (fun s t => vmc_bwd s t (vcK1' ks img) (vmc_rc.getD (rounds - 1 - i) 0)) acc)
    (mapSt (fun s => (vmc_mid s (vcK1 ks img)).1) (vcA ks rounds img).1, (vcA ks rounds img).2)

/-- `mantis_ecb_encrypt_eight` on the strided image of eight lane counters -/
def vecMantisCtr8 (ks : BitVec 288) (rounds : Nat) (img : BitVec 512) : BitVec 512 :=
  vmc_post (imageOf (vcB ks rounds img).1) (vcB ks rounds img).2 (vcK1' ks img) ks

/-- the same pipeline on one block, with the reference pieces -/
def laneMantisCtr (ks : BitVec 288) (rounds : Nat) (inp : BitVec 64) : BitVec 64 :=
  let k1 := ks.extractLsb' 128 64
  let a := (List.range rounds).foldl (fun (acc : BitVec 64 × BitVec 64) i => refFwd acc.1 acc.2 k1 (mantis_rc_64le.getD i 0))
    ((refPre inp ks (ks.extractLsb' 192 64)).1, ks.extractLsb' 192 64)
  let k1' := (refMid 0 k1).2
  let b := (List.range rounds).foldl (fun (acc : BitVec 64 × BitVec 64) i => refBwd acc.1 acc.2 k1' (mantis_rc_64le.getD (rounds - 1 - i) 0)) ((refMid a.1 k1).1, a.2)
  refPost b.1 b.2 k1' ks

theorem vcK1_eq (ks : BitVec 288) (img : BitVec 512) : vcK1 ks img = ks.extractLsb' 128 64 := vmc_pre_k1 img ks

theorem vcA_lane (ks : BitVec 288) (rounds : Nat) (img : BitVec 512) (j : Nat) (hj : j < 8) :
    (laneOf (vcA ks rounds img).1 j, (vcA ks rounds img).2) =
      (List.range rounds).foldl (fun (acc : BitVec 64 × BitVec 64) i => refFwd acc.1 acc.2 (ks.extractLsb' 128 64) (mantis_rc_64le.getD i 0))
        ((refPre (laneSt img j) ks (ks.extractLsb' 192 64)).1, ks.extractLsb' 192 64) := by
  have h := laneOf_foldCtr (fun (i : Nat) s t => vmc_fwd s t (vcK1 ks img) (vmc_rc.getD i 0))
    (by intro a s s' t; simp only [vmc_fwd_ref, refFwd]) (List.range rounds) (rowsOf (vmc_pre img ks).1, (vmc_pre img ks).2.1) j hj
  simp only [vcA]
  rw [h, ← laneSt_eq _ j hj, vmc_pre_state _ _ j hj, vmc_pre_tweak, vcK1_eq]
  simp only [vmc_fwd_ref, vmc_rc_eq]

theorem vcB_lane (ks : BitVec 288) (rounds : Nat) (img : BitVec 512) (j : Nat) (hj : j < 8) :
    (laneOf (vcB ks rounds img).1 j, (vcB ks rounds img).2) =
      (List.range rounds).foldl (fun (acc : BitVec 64 × BitVec 64) i => refBwd acc.1 acc.2 (refMid 0 (ks.extractLsb' 128 64)).2 (mantis_rc_64le.getD (rounds - 1 - i) 0))
        ((refMid (laneOf (vcA ks rounds img).1 j) (ks.extractLsb' 128 64)).1, (vcA ks rounds img).2) := by
  have h := laneOf_foldCtr (fun (i : Nat) s t => vmc_bwd s t (vcK1' ks img) (vmc_rc.getD (rounds - 1 - i) 0))
    (by intro a s s' t; simp only [vmc_bwd_ref, refBwd]) (List.range rounds)
    (mapSt (fun s => (vmc_mid s (vcK1 ks img)).1) (vcA ks rounds img).1, (vcA ks rounds img).2) j hj
  simp only [vcB]
  rw [h, laneOf_mapSt _ _ j hj]
  simp only [vcK1', vcK1_eq, vmc_bwd_ref, vmc_mid_ref, vmc_rc_eq]

/-- **lane `j` of the keystream batch is the one-block pipeline on the counter block of column `j`** -/
theorem vecMantisCtr8_lane (ks : BitVec 288) (rounds : Nat) (img : BitVec 512) (j : Nat) (hj : j < 8) :
    (vecMantisCtr8 ks rounds img).extractLsb' (64 * j) 64 = laneMantisCtr ks rounds (laneSt img j) := by
  simp only [vecMantisCtr8]
  rw [vmc_post_lane _ _ _ _ j hj, laneSt_eq _ j hj, rowsOf_imageOf]
  have hB := vcB_lane ks rounds img j hj
  have hA := vcA_lane ks rounds img j hj
  have hB1 := congrArg Prod.fst hB
  have hB2 := congrArg Prod.snd hB
  have hA1 := congrArg Prod.fst hA
  have hA2 := congrArg Prod.snd hA
  simp only at hB1 hB2 hA1 hA2
  rw [hB1, hB2, hA1, hA2]
  simp only [laneMantisCtr, vcK1', vcK1_eq, vmc_mid_ref]

set_option maxRecDepth 20000 in
set_option maxHeartbeats 4000000 in
/-- the big-endian value of the counter block in column `j` is the column value of the lane increments (`C05_vmc_increment`) -/
theorem vmc_column_value (img : BitVec 512) (j : Nat) (hj : j < 8) :
    colVal (pos64m j) img = valLE ((List.range 8).map (fun t => (lane 8 (7 - t) (laneSt img j)).toNat)) := by
  simp only [colVal, pos64m, List.map_map, Function.comp_def]
  congr 1
  apply List.map_congr_left
  intro t ht
  have ht8 : t < 8 := List.mem_range.mp ht
  congr 1
  simp only [laneSt, pack4h, lane]
  nat_cases j 8 <;> nat_cases t 8 <;> (simp only [Nat.reduceMul, Nat.reduceAdd, Nat.reduceSub, Nat.reduceDiv, Nat.reduceMod, extractLsb'_extractLsb'_le]; seg_windows)

end SkinnyVerif.Lemmas
