/-
The specification's decryption inverts its encryption (and vice versa), for every tweakey,
every domain constant and every number of rounds: each layer has an inverse
(`S⁻¹∘S = id` on the complete table, `M⁻¹·M = I`, `P⁻¹∘P = id`, the round key cancels) and the
round keys are the same in both directions.
-/
import SkinnyVerif.Lemmas.SpecForms

namespace SkinnyVerif.Lemmas
open SkinnyVerif SkinnyVerif.Spec.Skinny

theorem bvx_left_comm {w : Nat} (a b c : BitVec w) : a ^^^ (b ^^^ c) = b ^^^ (a ^^^ c) := by
  rw [← BitVec.xor_assoc, BitVec.xor_comm a b, BitVec.xor_assoc]
theorem bvx_cancel_left {w : Nat} (a b : BitVec w) : a ^^^ (a ^^^ b) = b := by
  rw [← BitVec.xor_assoc, BitVec.xor_self, BitVec.zero_xor]

section
variable {s : Nat}

set_option maxHeartbeats 2000000 in
theorem mulColumns_Minv_M (st : Cells s) : mulColumns Minv (mulColumns M st) = st := by
  rw [mulColumns_M, mulColumns_Minv]
  apply cells_ext <;>
    simp [BitVec.xor_assoc, BitVec.xor_comm, bvx_left_comm, bvx_cancel_left]

set_option maxHeartbeats 2000000 in
theorem mulColumns_M_Minv (st : Cells s) : mulColumns M (mulColumns Minv st) = st := by
  rw [mulColumns_Minv, mulColumns_M]
  apply cells_ext <;>
    simp [BitVec.xor_assoc, BitVec.xor_comm, bvx_left_comm, bvx_cancel_left]

set_option maxHeartbeats 2000000 in
theorem permute_Pinv_P (st : Cells s) : permute Pinv (permute P st) = st := by
  rw [permute_P, permute_Pinv]
  apply cells_ext <;> simp

set_option maxHeartbeats 2000000 in
theorem permute_P_Pinv (st : Cells s) : permute P (permute Pinv st) = st := by
  rw [permute_Pinv, permute_P]
  apply cells_ext <;> simp

theorem xorCells_cancel (a k : Cells s) : xorCells (xorCells a k) k = a := by
  apply Vector.ext; intro i hi
  simp only [xorCells_get]
  rw [BitVec.xor_assoc, BitVec.xor_self, BitVec.xor_zero]

theorem subCells_comp (f g : BitVec s → BitVec s) (h : ∀ x, g (f x) = x) (st : Cells s) : subCells g (subCells f st) = st := by
  apply Vector.ext; intro i hi
  simp [subCells, h]

/-- the cell S-box and its inverse are mutually inverse -/
structure CellOpsOK (o : CellOps s) : Prop where
  inv_S : ∀ x, o.Sinv (o.S x) = x
  S_inv : ∀ x, o.S (o.Sinv x) = x

theorem roundInv_round (o : CellOps s) (ho : CellOpsOK o) (rk st : Cells s) : roundInv o rk (round o rk st) = st := by
  simp only [round, roundInv, mulColumns_Minv_M, permute_Pinv_P, xorCells_cancel, subCells_comp _ _ ho.inv_S]

theorem round_roundInv (o : CellOps s) (ho : CellOpsOK o) (rk st : Cells s) : round o rk (roundInv o rk st) = st := by
  simp only [round, roundInv, subCells_comp _ _ ho.S_inv, xorCells_cancel, permute_P_Pinv, mulColumns_M_Minv]

theorem decrypt_encrypt (o : CellOps s) (ho : CellOpsOK o) (r : Nat) (t : Tweakey s) (dom : BitVec s) (m : Cells s) :
    decrypt o r t dom (encrypt o r t dom m) = m := by
  induction r generalizing m with
  | zero => simp [encrypt, decrypt]
  | succ r ih =>
    simp only [encrypt, decrypt, List.range_succ, List.foldl_append, List.reverse_append, List.foldl_cons,
      List.foldl_nil, List.reverse_cons, List.reverse_nil, List.nil_append, List.cons_append]
    rw [roundInv_round o ho]
    exact ih m

theorem encrypt_decrypt (o : CellOps s) (ho : CellOpsOK o) (r : Nat) (t : Tweakey s) (dom : BitVec s) (c : Cells s) :
    encrypt o r t dom (decrypt o r t dom c) = c := by
  induction r generalizing c with
  | zero => simp [encrypt, decrypt]
  | succ r ih =>
    simp only [encrypt, decrypt, List.range_succ, List.foldl_append, List.reverse_append, List.foldl_cons,
      List.foldl_nil, List.reverse_cons, List.reverse_nil, List.nil_append, List.cons_append]
    have := ih (roundInv o (roundKey o t dom r) c)
    simp only [encrypt, decrypt] at this
    rw [this, round_roundInv o ho]

theorem ops4OK : CellOpsOK ops4 := ⟨S4inv_S4, S4_S4inv⟩

end
end SkinnyVerif.Lemmas
