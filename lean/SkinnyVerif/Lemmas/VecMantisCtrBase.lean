/-
The batch block function of the Mantis vector CTR back end (`mantis_ecb_encrypt_eight` in
`src/mantis-ctr-vec128.c`: eight strided counter blocks under the schedule's stored tweak).  The translator turns the three lane-generic pieces (forward round, middle, backward round)
into functions on one lane - a 64-bit image with the same layout as the scalar `MantisCells_t` - and
the first / last segment (load + whitening, whitening + store) into explicit-lane functions.
Common definitions for `VecMantisFwd/Mid/Bwd/PrePost`.
-/
import SkinnyVerif.Lemmas.MantisRef
import SkinnyVerif.Lemmas.VecMantisPrePost
import SkinnyVerif.Lemmas.VecCounterM
import SkinnyVerif.Gen.VecMantisCtrLeafLanes
import SkinnyVerif.Gen.VecMantisCtrPieces

namespace SkinnyVerif.Lemmas
open SkinnyVerif SkinnyVerif.Gen SkinnyVerif.Impl

theorem vmc_sbox_lane_eq : ∀ v, vmc_sbox_lane v = Spec.Mantis.Sb0 v := by decide
theorem vmc_sbox_lane' : vmc_sbox_lane = Spec.Mantis.Sb0 := funext vmc_sbox_lane_eq

/-- the vector file's round-constant table has the same memory image as the scalar one -/
theorem vmc_rc_eq : vmc_rc = mantis_rc_64le := by decide

/-- bit-by-bit comparison of a lane-generic vector piece with the reference form -/
syntax "vmcantis_bits" : tactic
macro_rules
  | `(tactic| vmcantis_bits) => `(tactic|
    (bv_bits 64 <;>
      (simp [gen_unfold, refPre, refFwd, refMid, refBwd, refPost, alphaImg, lane, extractLsb'_extractLsb'_le,
             mantis_mix_columns, mantis_shift_rows, mantis_shift_rows_inverse, mantis_update_tweak, mantis_update_tweak_inverse,
             mantis_sbox_64_getElem, vmc_sbox_getElem, msbox_64_lane, vmc_sbox_lane']
       try (first
            | ac_rfl
            | (apply getElem_congr_fun
               bv_bits 4 <;>
                 (simp [lane, extractLsb'_extractLsb'_le, mantis_sbox_64_getElem, vmc_sbox_getElem, msbox_64_lane, vmc_sbox_lane']
                  try ac_rfl))))))

/-- variant for images that end with the S-box layer: compare the S-box arguments nibble by nibble -/
syntax "vmcantis_bits_sbox" : tactic
macro_rules
  | `(tactic| vmcantis_bits_sbox) => `(tactic|
    (bv_bits 64 <;>
      (simp [gen_unfold, refPre, refFwd, refMid, refBwd, refPost, alphaImg, lane, extractLsb'_extractLsb'_le,
             mantis_mix_columns, mantis_shift_rows, mantis_shift_rows_inverse, mantis_update_tweak, mantis_update_tweak_inverse,
             mantis_sbox_64_getElem, vmc_sbox_getElem, msbox_64_lane, vmc_sbox_lane']
       try (apply getElem_congr_fun
            bv_bits 4 <;>
              (simp [lane, extractLsb'_extractLsb'_le, mantis_sbox_64_getElem, vmc_sbox_getElem, msbox_64_lane, vmc_sbox_lane']
               try ac_rfl)))))

end SkinnyVerif.Lemmas
