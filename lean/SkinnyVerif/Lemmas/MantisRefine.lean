/-
MANTIS refinement: for pieces equal to the reference forms, `mantisCrypt` / `mantisCryptTweaked`
compute the specification's `crypt` on the cells of the key schedule's fields.
-/
import SkinnyVerif.Lemmas.MantisRef
import SkinnyVerif.Lemmas.ByteCells

namespace SkinnyVerif.Lemmas
open SkinnyVerif SkinnyVerif.Gen SkinnyVerif.Impl SkinnyVerif.Spec.Skinny SkinnyVerif.Spec.Mantis

/-! ## fields of the schedule image -/

set_option maxRecDepth 8000 in
theorem image_k0 (k : MantisKey) : k.image.extractLsb' 0 64 = k.k0 := by
  bv_bits 64 <;> simp [MantisKey.image]
set_option maxRecDepth 8000 in
theorem image_k0prime (k : MantisKey) : k.image.extractLsb' 64 64 = k.k0prime := by
  bv_bits 64 <;> simp [MantisKey.image]
set_option maxRecDepth 8000 in
theorem image_k1 (k : MantisKey) : k.image.extractLsb' 128 64 = k.k1 := by
  bv_bits 64 <;> simp [MantisKey.image]
set_option maxRecDepth 8000 in
theorem image_tweak (k : MantisKey) : k.image.extractLsb' 192 64 = k.tweak := by
  bv_bits 64 <;> simp [MantisKey.image]

/-! ## the references on cells -/

theorem refFwd_cells (st tw k1 r : BitVec 64) (i : Nat) (hr : cells4 r = rcCells i) :
    (cells4 (refFwd st tw k1 r).1, cells4 (refFwd st tw k1 r).2) = fwdRound (cells4 k1) i (cells4 st) (cells4 tw) := by
  simp only [refFwd, fwdRound, mix_columns_cells, shift_rows_cells, cells4_xor, sbox_64_cells, update_tweak_cells, hr]

theorem refBwd_cells (st tw k1 r : BitVec 64) (i : Nat) (hr : cells4 r = rcCells i) :
    (cells4 (refBwd st tw k1 r).1, cells4 (refBwd st tw k1 r).2) = bwdRound (cells4 k1) i (cells4 st) (cells4 tw) := by
  simp only [refBwd, bwdRound, mix_columns_cells, shift_rows_inverse_cells, cells4_xor, sbox_64_cells, update_tweak_inverse_cells, hr]

theorem alphaImg_cells : cells4 alphaImg = cellsOfWord alpha := by decide +kernel

theorem refMid_cells (st k1 : BitVec 64) :
    cells4 (refMid st k1).1 = subCells Sb0 (mulColumns MM (subCells Sb0 (cells4 st))) ∧
    cells4 (refMid st k1).2 = xorCells (cells4 k1) (cellsOfWord alpha) := by
  simp only [refMid, mix_columns_cells, cells4_xor, sbox_64_cells, alphaImg_cells, and_self]

/-! ## the two round loops -/

/-- the abstraction of a loop state -/
def absPair (a : BitVec 64 × BitVec 64) : Cells 4 × Cells 4 := (cells4 a.1, cells4 a.2)

theorem fwd_fold (rc : List (BitVec 64)) (hrc : ∀ i, i < 8 → cells4 (rc.getD i 0) = rcCells i) (k1 : BitVec 64)
    (l : List Nat) (hl : ∀ i ∈ l, i < 8) (a : BitVec 64 × BitVec 64) :
    absPair (l.foldl (fun acc i => refFwd acc.1 acc.2 k1 (rc.getD i 0)) a) =
      l.foldl (fun (c : Cells 4 × Cells 4) i => fwdRound (cells4 k1) i c.1 c.2) (absPair a) := by
  induction l generalizing a with
  | nil => rfl
  | cons i rest ih =>
    simp only [List.foldl_cons]
    rw [ih (fun j hj => hl j (by simp [hj]))]
    congr 1
    exact refFwd_cells a.1 a.2 k1 _ i (hrc i (hl i (by simp)))

theorem bwd_fold (rc : List (BitVec 64)) (hrc : ∀ i, i < 8 → cells4 (rc.getD i 0) = rcCells i) (k1 : BitVec 64)
    (l : List Nat) (hl : ∀ i ∈ l, i < 8) (a : BitVec 64 × BitVec 64) :
    absPair (l.foldl (fun acc i => refBwd acc.1 acc.2 k1 (rc.getD i 0)) a) =
      l.foldl (fun (c : Cells 4 × Cells 4) i => bwdRound (cells4 k1) i c.1 c.2) (absPair a) := by
  induction l generalizing a with
  | nil => rfl
  | cons i rest ih =>
    simp only [List.foldl_cons]
    rw [ih (fun j hj => hl j (by simp [hj]))]
    congr 1
    exact refBwd_cells a.1 a.2 k1 _ i (hrc i (hl i (by simp)))

theorem range_reverse (r : Nat) : (List.range r).reverse = (List.range r).map (fun i => r - 1 - i) := by
  apply List.ext_getElem
  · simp
  · intro i h1 h2
    have hi : i < r := by simpa using h1
    simp only [List.getElem_reverse, List.getElem_range, List.getElem_map, List.length_range]

/-- the counted-down round-constant index of the C loop is the reversed range of the specification -/
theorem foldl_countdown {β : Type} (f : β → Nat → β) (r : Nat) (b : β) :
    (List.range r).foldl (fun acc i => f acc (r - 1 - i)) b = (List.range r).reverse.foldl f b := by
  rw [range_reverse, List.foldl_map]

/-! ## the whole cipher -/

/-- the key material of a schedule, as the specification sees it -/
def keysOf (ks : MantisKey) : Keys := { k0 := cells4 ks.k0, k0' := cells4 ks.k0prime, k1 := cells4 ks.k1 }

/-- the specification with the loop states projected explicitly -/
theorem crypt_proj (r : Nat) (k : Keys) (tweak m : Cells 4) :
    crypt r k tweak m =
      xorCells ((List.range r).reverse.foldl (fun (a : Cells 4 × Cells 4) i => bwdRound (xorCells k.k1 (cellsOfWord alpha)) i a.1 a.2)
          (subCells Sb0 (mulColumns MM (subCells Sb0
            ((List.range r).foldl (fun (a : Cells 4 × Cells 4) i => fwdRound k.k1 i a.1 a.2) (xorCells m (xorCells k.k0 (xorCells k.k1 tweak)), tweak)).1)),
           ((List.range r).foldl (fun (a : Cells 4 × Cells 4) i => fwdRound k.k1 i a.1 a.2) (xorCells m (xorCells k.k0 (xorCells k.k1 tweak)), tweak)).2)).1
        (xorCells k.k0' (xorCells (xorCells k.k1 (cellsOfWord alpha))
          ((List.range r).reverse.foldl (fun (a : Cells 4 × Cells 4) i => bwdRound (xorCells k.k1 (cellsOfWord alpha)) i a.1 a.2)
          (subCells Sb0 (mulColumns MM (subCells Sb0
            ((List.range r).foldl (fun (a : Cells 4 × Cells 4) i => fwdRound k.k1 i a.1 a.2) (xorCells m (xorCells k.k0 (xorCells k.k1 tweak)), tweak)).1)),
           ((List.range r).foldl (fun (a : Cells 4 × Cells 4) i => fwdRound k.k1 i a.1 a.2) (xorCells m (xorCells k.k0 (xorCells k.k1 tweak)), tweak)).2)).2)) := rfl

theorem crypt_ref (rc : List (BitVec 64)) (hrc : ∀ i, i < 8 → cells4 (rc.getD i 0) = rcCells i) (ks : MantisKey) (hr : ks.rounds ≤ 8)
    (tw input : BitVec 64) (a m b : BitVec 64 × BitVec 64)
    (ha : a = (List.range ks.rounds).foldl (fun (acc : BitVec 64 × BitVec 64) i => refFwd acc.1 acc.2 ks.k1 (rc.getD i 0))
        (input ^^^ ((ks.k0 ^^^ ks.k1) ^^^ tw), tw))
    (hm : m = refMid a.1 ks.k1)
    (hb : b = (List.range ks.rounds).foldl (fun (acc : BitVec 64 × BitVec 64) i => refBwd acc.1 acc.2 m.2 (rc.getD (ks.rounds - 1 - i) 0)) (m.1, a.2)) :
    cells4 (b.1 ^^^ ((ks.k0prime ^^^ m.2) ^^^ b.2)) = crypt ks.rounds (keysOf ks) (cells4 tw) (cells4 input) := by
  have hl : ∀ i ∈ List.range ks.rounds, i < 8 := fun i hi => by have := List.mem_range.mp hi; omega
  have hl' : ∀ i ∈ (List.range ks.rounds).reverse, i < 8 := fun i hi => hl i (by simpa using hi)
  have hS0 : cells4 (input ^^^ ((ks.k0 ^^^ ks.k1) ^^^ tw)) = xorCells (cells4 input) (xorCells (cells4 ks.k0) (xorCells (cells4 ks.k1) (cells4 tw))) := by
    simp only [cells4_xor]
    apply Vector.ext; intro j hj
    simp only [xorCells_get]
    simp only [BitVec.xor_assoc]
  -- forward half
  have hA := fwd_fold rc hrc ks.k1 (List.range ks.rounds) hl (input ^^^ ((ks.k0 ^^^ ks.k1) ^^^ tw), tw)
  rw [← ha] at hA
  simp only [absPair, hS0] at hA
  -- middle
  have hM := refMid_cells a.1 ks.k1
  rw [← hm] at hM
  -- backward half
  have hb0 : b = (List.range ks.rounds).reverse.foldl (fun (acc : BitVec 64 × BitVec 64) i => refBwd acc.1 acc.2 m.2 (rc.getD i 0)) (m.1, a.2) := by
    rw [hb]
    exact foldl_countdown (fun (acc : BitVec 64 × BitVec 64) i => refBwd acc.1 acc.2 m.2 (rc.getD i 0)) ks.rounds (m.1, a.2)
  have hB := bwd_fold rc hrc m.2 (List.range ks.rounds).reverse hl' (m.1, a.2)
  rw [← hb0] at hB
  simp only [absPair] at hB
  have hA1 : cells4 a.1 = _ := congrArg Prod.fst hA
  have hA2 : cells4 a.2 = _ := congrArg Prod.snd hA
  rw [hM.1, hM.2, hA1, hA2] at hB
  have hB1 : cells4 b.1 = _ := congrArg Prod.fst hB
  have hB2 : cells4 b.2 = _ := congrArg Prod.snd hB
  rw [crypt_proj]
  simp only [keysOf]
  rw [← hB1, ← hB2, ← hM.2]
  simp only [cells4_xor]
  apply Vector.ext; intro j hj
  simp only [xorCells_get]
  simp only [BitVec.xor_assoc]


/-- `mantis_ecb_crypt`: the specification's `crypt` under the schedule's key material and stored tweak -/
theorem mantisCrypt_spec (o : MantisOps) (hp : MantisPiecesOK o) (hrc : ∀ i, i < 8 → cells4 (o.rc.getD i 0) = rcCells i)
    (ks : MantisKey) (hr : ks.rounds ≤ 8) (input : Bytes) :
    mantisCrypt o ks input = bytesOfCells4 (crypt ks.rounds (keysOf ks) (cells4 ks.tweak) (cells4 (image 64 input))) := by
  simp only [mantisCrypt, hp.pre, hp.fwd, hp.mid, hp.bwd, hp.post, refPre, refPost, image_k0, image_k1, image_k0prime, image_tweak]
  rw [← bytesOfCells4_cells4]
  congr 1
  exact crypt_ref o.rc hrc ks hr ks.tweak (image 64 input) _ _ _ rfl rfl rfl

/-- `mantis_ecb_crypt_tweaked`: the same with the caller's tweak -/
theorem mantisCryptTweaked_spec (o : MantisOps) (hp : MantisPiecesOK o) (hrc : ∀ i, i < 8 → cells4 (o.rc.getD i 0) = rcCells i)
    (ks : MantisKey) (hr : ks.rounds ≤ 8) (tweak input : Bytes) :
    mantisCryptTweaked o ks tweak input =
      bytesOfCells4 (crypt ks.rounds (keysOf ks) (cells4 (image 64 tweak)) (cells4 (image 64 input))) := by
  simp only [mantisCryptTweaked, hp.preT, hp.fwdT, hp.midT, hp.bwdT, hp.postT, refPre, refPost, image_k0, image_k1, image_k0prime]
  rw [← bytesOfCells4_cells4]
  congr 1
  exact crypt_ref o.rc hrc ks hr (image 64 tweak) (image 64 input) _ _ _ rfl rfl rfl

end SkinnyVerif.Lemmas
