/-
Tactics shared by the round-refinement lemmas.  A round body translated from C is compared
with the specification's round cell by cell and bit by bit: `simp` unfolds the generated
stages (`gen_unfold`), pushes bit extraction through the word operations, sees through the
lane-structured leaf calls with their `_getElem` lemmas, and `ac_rfl` closes the remaining
xor chains.
-/
import SkinnyVerif.Lemmas.Abs
import SkinnyVerif.Gen.Skinny128Pieces
import SkinnyVerif.Gen.Skinny64Pieces

namespace SkinnyVerif.Lemmas
open SkinnyVerif SkinnyVerif.Gen SkinnyVerif.Spec.Skinny

/-- round key on cells for a schedule entry: upper rows from the entry, `c2 = 2` in cell 8 -/
def rk8 (sk : BitVec 64) : Cells 8 := xorCells (top8 sk) (c2cells 8)
def rk4 (sk : BitVec 32) : Cells 4 := xorCells (top4 sk) (c2cells 4)

theorem getElem_congr_fun {k : Nat} (f : BitVec k → BitVec k) (a b : BitVec k) (m : Nat) (hm : m < k) (h : a = b) :
    (f a)[m] = (f b)[m] := by rw [h]

syntax "round128_tac" : tactic
macro_rules
  | `(tactic| round128_tac) => `(tactic|
    (apply cells_ext <;>
      (simp [rk8, round, roundInv, permute_P, permute_Pinv, mulColumns_M, mulColumns_Minv, xorCells_get, subCells_get,
             cells8_get, top8_get, c2cells_get, ops8]
       bv_bits 8 <;>
        (simp [gen_unfold, lane, extractLsb'_extractLsb'_le,
               skinny128_sbox_64_getElem, skinny128_sbox_32_getElem, skinny128_inv_sbox_64_getElem, skinny128_inv_sbox_32_getElem,
               sbox128_64_lane, sbox128_32_lane, inv_sbox128_64_lane, inv_sbox128_32_lane]
         try ac_rfl))))

/-- variant for rounds that end with the S-box layer: each bit goal has the shape
`(Sinv A)[m] = (Sinv B)[m]`; the arguments are compared bit by bit -/
syntax "round128_inv_tac" : tactic
macro_rules
  | `(tactic| round128_inv_tac) => `(tactic|
    (apply cells_ext <;>
      (simp [rk8, round, roundInv, permute_P, permute_Pinv, mulColumns_M, mulColumns_Minv, xorCells_get, subCells_get,
             cells8_get, top8_get, c2cells_get, ops8]
       bv_bits 8 <;>
        (simp [gen_unfold, lane, extractLsb'_extractLsb'_le,
               skinny128_sbox_64_getElem, skinny128_sbox_32_getElem, skinny128_inv_sbox_64_getElem, skinny128_inv_sbox_32_getElem,
               sbox128_64_lane, sbox128_32_lane, inv_sbox128_64_lane, inv_sbox128_32_lane]
         apply getElem_congr_fun
         bv_bits 8 <;> (simp; try ac_rfl)))))

syntax "round64_tac" : tactic
macro_rules
  | `(tactic| round64_tac) => `(tactic|
    (apply cells_ext <;>
      (simp [rk4, round, roundInv, permute_P, permute_Pinv, mulColumns_M, mulColumns_Minv, xorCells_get, subCells_get,
             cells4_get, top4_get, c2cells_get, ops4]
       bv_bits 4 <;>
        (simp [gen_unfold, lane, extractLsb'_extractLsb'_le,
               skinny64_sbox_64_getElem, skinny64_sbox_32_getElem, skinny64_inv_sbox_64_getElem, skinny64_inv_sbox_32_getElem,
               sbox64_64_lane, sbox64_32_lane, inv_sbox64_64_lane, inv_sbox64_32_lane]
         try ac_rfl))))

syntax "round64_inv_tac" : tactic
macro_rules
  | `(tactic| round64_inv_tac) => `(tactic|
    (apply cells_ext <;>
      (simp [rk4, round, roundInv, permute_P, permute_Pinv, mulColumns_M, mulColumns_Minv, xorCells_get, subCells_get,
             cells4_get, top4_get, c2cells_get, ops4]
       bv_bits 4 <;>
        (simp [gen_unfold, lane, extractLsb'_extractLsb'_le,
               skinny64_sbox_64_getElem, skinny64_sbox_32_getElem, skinny64_inv_sbox_64_getElem, skinny64_inv_sbox_32_getElem,
               sbox64_64_lane, sbox64_32_lane, inv_sbox64_64_lane, inv_sbox64_32_lane]
         apply getElem_congr_fun
         bv_bits 4 <;> (simp; try ac_rfl)))))

end SkinnyVerif.Lemmas
