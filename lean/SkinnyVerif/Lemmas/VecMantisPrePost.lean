/- Mantis vec128 parallel ECB: the explicit-lane first and last segments (load of eight blocks and eight tweaks,
   whitening; whitening, store) are, lane by lane, the reference `pre` / `post` on the block and tweak of that lane -/
import SkinnyVerif.Lemmas.VecMantisBase
import SkinnyVerif.Basic.Segments

namespace SkinnyVerif.Lemmas
open SkinnyVerif SkinnyVerif.Gen SkinnyVerif.Impl

set_option maxRecDepth 8000
set_option maxHeartbeats 8000000

/-- block of lane `j` in the row-sliced image of `MantisVectorCells_t` (four rows of eight 16-bit lanes) -/
def laneSt (x : BitVec 512) (j : Nat) : BitVec 64 :=
  pack4h (x.extractLsb' (16 * j) 16) (x.extractLsb' (128 + 16 * j) 16) (x.extractLsb' (256 + 16 * j) 16) (x.extractLsb' (384 + 16 * j) 16)

syntax "vmp_win" : tactic
macro_rules
  | `(tactic| vmp_win) => `(tactic|
    (simp only [gen_unfold, laneSt, pack4h, refPre, refPost, lane, Nat.reduceMul, Nat.reduceAdd]
     apply eq_of_lanes 8 8 (by decide) (by decide)
     intro i hi
     nat_cases i 8 <;> (simp only [lane, Nat.reduceMul, extractLsb'_extractLsb'_le, Nat.reduceAdd]; seg_windows; (try ac_rfl); (try (bv_bits 8 <;> ((try simp); (try ac_rfl)))))))

theorem vmp_pre_state (input : BitVec 512) (ks : BitVec 288) (tweak : BitVec 512) (j : Nat) (hj : j < 8) :
    laneSt (vmp_pre input ks tweak).1 j = (refPre (input.extractLsb' (64 * j) 64) ks (tweak.extractLsb' (64 * j) 64)).1 := by
  nat_cases j 8 <;> vmp_win

theorem vmp_pre_tweak (input : BitVec 512) (ks : BitVec 288) (tweak : BitVec 512) (j : Nat) (hj : j < 8) :
    laneSt (vmp_pre input ks tweak).2.1 j = tweak.extractLsb' (64 * j) 64 := by
  nat_cases j 8 <;> vmp_win

theorem vmp_pre_k1 (input : BitVec 512) (ks : BitVec 288) (tweak : BitVec 512) :
    (vmp_pre input ks tweak).2.2 = ks.extractLsb' 128 64 := by
  simp only [gen_unfold]

theorem vmp_post_lane (st tk : BitVec 512) (k1 : BitVec 64) (ks : BitVec 288) (j : Nat) (hj : j < 8) :
    (vmp_post st tk k1 ks).extractLsb' (64 * j) 64 = refPost (laneSt st j) (laneSt tk j) k1 ks := by
  nat_cases j 8 <;> vmp_win

end SkinnyVerif.Lemmas
