/-
Reference forms of the MANTIS pieces at the level of 8-byte memory images, in terms of the
64-bit leaf functions.  Each configuration's generated pieces are shown equal to these
(`Lemmas/MantisPieces_*.lean`); the references are related to the specification once
(`Lemmas/MantisRefine.lean`).
-/
import SkinnyVerif.Lemmas.MantisLeaf
import SkinnyVerif.Lemmas.RoundTac
import SkinnyVerif.Gen.MantisPieces
import SkinnyVerif.Impl.Mantis

namespace SkinnyVerif.Lemmas
open SkinnyVerif SkinnyVerif.Gen SkinnyVerif.Impl

/-- memory image of α (the bytes of the big-endian constant, read little-endian) -/
def alphaImg : BitVec 64 := 0xd308a385886a3f24#64

def refPre (input : BitVec 64) (ks : BitVec 288) (tw : BitVec 64) : BitVec 64 × BitVec 64 × BitVec 64 :=
  (input ^^^ ((ks.extractLsb' 0 64 ^^^ ks.extractLsb' 128 64) ^^^ tw), tw, ks.extractLsb' 128 64)

def refFwd (st tw k1 r : BitVec 64) : BitVec 64 × BitVec 64 :=
  (mantis_mix_columns (mantis_shift_rows ((mantis_sbox_64 st ^^^ r) ^^^ (k1 ^^^ mantis_update_tweak tw))), mantis_update_tweak tw)

def refMid (st k1 : BitVec 64) : BitVec 64 × BitVec 64 :=
  (mantis_sbox_64 (mantis_mix_columns (mantis_sbox_64 st)), k1 ^^^ alphaImg)

def refBwd (st tw k1 r : BitVec 64) : BitVec 64 × BitVec 64 :=
  (mantis_sbox_64 ((mantis_shift_rows_inverse (mantis_mix_columns st) ^^^ (k1 ^^^ tw)) ^^^ r), mantis_update_tweak_inverse tw)

def refPost (st tw k1 : BitVec 64) (ks : BitVec 288) : BitVec 64 :=
  st ^^^ ((ks.extractLsb' 64 64 ^^^ k1) ^^^ tw)

/-- what has to be shown about one configuration's pieces -/
structure MantisPiecesOK (o : MantisOps) : Prop where
  pre : ∀ input ks, o.pre input ks = refPre input ks (ks.extractLsb' 192 64)
  fwd : ∀ st tw k1 r, o.fwd st tw k1 r = refFwd st tw k1 r
  mid : ∀ st k1, o.mid st k1 = refMid st k1
  bwd : ∀ st tw k1 r, o.bwd st tw k1 r = refBwd st tw k1 r
  post : ∀ st tw k1 ks, o.post st tw k1 ks = refPost st tw k1 ks
  preT : ∀ input ks tw, o.preT input ks tw = refPre input ks tw
  fwdT : ∀ st tw k1 r, o.fwdT st tw k1 r = refFwd st tw k1 r
  midT : ∀ st k1, o.midT st k1 = refMid st k1
  bwdT : ∀ st tw k1 r, o.bwdT st tw k1 r = refBwd st tw k1 r
  postT : ∀ st tw k1 ks, o.postT st tw k1 ks = refPost st tw k1 ks

/-- bit-by-bit comparison of two 64-bit images: the permutation and MixColumns leaves are
unfolded, the S-box leaves are seen through with their lane lemmas -/
syntax "mantis_bits" : tactic
macro_rules
  | `(tactic| mantis_bits) => `(tactic|
    (bv_bits 64 <;>
      (simp [gen_unfold, refPre, refFwd, refMid, refBwd, refPost, alphaImg, lane, extractLsb'_extractLsb'_le,
             mantis_mix_columns, mantis_shift_rows, mantis_shift_rows_inverse, mantis_update_tweak, mantis_update_tweak_inverse,
             mantis_sbox_64_getElem, mantis_sbox_32_getElem, msbox_64_lane, msbox_32_lane]
       try ac_rfl)))

/-- variant for images that end with the S-box layer -/
syntax "mantis_bits_sbox" : tactic
macro_rules
  | `(tactic| mantis_bits_sbox) => `(tactic|
    (bv_bits 64 <;>
      (simp [gen_unfold, refPre, refFwd, refMid, refBwd, refPost, alphaImg, lane, extractLsb'_extractLsb'_le,
             mantis_mix_columns, mantis_shift_rows, mantis_shift_rows_inverse, mantis_update_tweak, mantis_update_tweak_inverse,
             mantis_sbox_64_getElem, mantis_sbox_32_getElem, msbox_64_lane, msbox_32_lane]
       try (apply getElem_congr_fun
            bv_bits 4 <;> (simp; try ac_rfl)))))

/-- S-box layer applied to an image that itself contains per-half S-box results (32-bit word configurations) -/
syntax "mantis_bits_sbox2" : tactic
macro_rules
  | `(tactic| mantis_bits_sbox2) => `(tactic|
    (bv_bits 64 <;>
      (simp [gen_unfold, refPre, refFwd, refMid, refBwd, refPost, alphaImg, lane, extractLsb'_extractLsb'_le,
             mantis_mix_columns, mantis_shift_rows, mantis_shift_rows_inverse, mantis_update_tweak, mantis_update_tweak_inverse,
             mantis_sbox_64_getElem, mantis_sbox_32_getElem, msbox_64_lane, msbox_32_lane]
       try (apply getElem_congr_fun
            bv_bits 4 <;>
              (simp [lane, extractLsb'_extractLsb'_le, mantis_sbox_64_getElem, mantis_sbox_32_getElem, msbox_64_lane, msbox_32_lane]
               try ac_rfl)))))

end SkinnyVerif.Lemmas
