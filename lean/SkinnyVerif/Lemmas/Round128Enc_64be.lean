/- SKINNY-128, configuration 64be: the generated encrypt round body computes the specification's round on cells -/
import SkinnyVerif.Lemmas.RoundTac

namespace SkinnyVerif.Lemmas
open SkinnyVerif SkinnyVerif.Gen SkinnyVerif.Spec.Skinny

set_option maxRecDepth 8000 in
set_option maxHeartbeats 8000000 in
theorem encRound128_64be (st : BitVec 128) (sk : BitVec 64) :
    cells8 (skinny128_ecb_encrypt_round_64be st sk) = round ops8 (rk8 sk) (cells8 st) := by round128_tac

end SkinnyVerif.Lemmas
