/- Skinny-128 vec128 parallel ECB: load / store is the transposition between four blocks and four row vectors -/
import SkinnyVerif.Lemmas.Vec128Base

namespace SkinnyVerif.Lemmas
open SkinnyVerif SkinnyVerif.Gen SkinnyVerif.Impl SkinnyVerif.Spec.Skinny

set_option maxRecDepth 8000
set_option maxHeartbeats 8000000

theorem v128p_enc_load_lane (input : BitVec 512) (j : Nat) (hj : j < 4) :
    packT (laneRows (v128p_enc_load input) j) = input.extractLsb' (128 * j) 128 := by
  nat_cases j 4 <;> vec_ls

end SkinnyVerif.Lemmas
