/-
The 128-bit vector back end of Skinny-128 parallel ECB (`src/skinny128-parallel-vec128.c`).

The round bodies are translated lane-generically (a vector is the 32-bit element of one lane: GCC's
element-wise semantics of vector operators is part of the translator's trusted base); the load and
store segments are translated with explicit lanes.  Shown here: the vector round on the rows of one
lane is the C library's scalar 32-bit round on the block made of those rows, and load / store are
the transposition between four consecutive blocks and four row vectors.
-/
import SkinnyVerif.Lemmas.AllConfigs
import SkinnyVerif.Gen.Vec128LeafLanes
import SkinnyVerif.Gen.Vec128Pieces

namespace SkinnyVerif.Lemmas
open SkinnyVerif SkinnyVerif.Gen SkinnyVerif.Impl SkinnyVerif.Spec.Skinny

theorem v128p_sbox_lane_eq : ∀ v, v128p_sbox_lane v = S8 v := forall_bv_eq _ _ (by decide +kernel)
theorem v128p_inv_sbox_lane_eq : ∀ v, v128p_inv_sbox_lane v = S8inv v := forall_bv_eq _ _ (by decide +kernel)
theorem v128p_sbox_lane' : v128p_sbox_lane = S8 := funext v128p_sbox_lane_eq
theorem v128p_inv_sbox_lane' : v128p_inv_sbox_lane = S8inv := funext v128p_inv_sbox_lane_eq

/-- a block from its four 32-bit rows -/
def pack4 (r0 r1 r2 r3 : BitVec 32) : BitVec 128 :=
  r0.setWidth 128 ||| (r1.setWidth 128 <<< 32) ||| (r2.setWidth 128 <<< 64) ||| (r3.setWidth 128 <<< 96)

def rotl32 (x : BitVec 32) (c : Nat) : BitVec 32 := (x <<< c) ||| (x >>> (32 - c))

/-- the vector encryption round, written with the S-box leaf -/
def refVEnc (r0 r1 r2 r3 : BitVec 32) (sk : BitVec 64) : BitVec 32 × BitVec 32 × BitVec 32 × BitVec 32 :=
  let a0 := v128p_sbox r0 ^^^ sk.extractLsb' 0 32
  let a1 := v128p_sbox r1 ^^^ sk.extractLsb' 32 32
  let a2 := v128p_sbox r2 ^^^ 0x2#32
  let b1 := rotl32 a1 8
  let b2 := rotl32 a2 16
  let b3 := rotl32 (v128p_sbox r3) 24
  (b3 ^^^ (b2 ^^^ a0), a0, b1 ^^^ b2, b2 ^^^ a0)

set_option maxRecDepth 8000
set_option maxHeartbeats 8000000

theorem v128p_enc_round_ref (r0 r1 r2 r3 : BitVec 32) (sk : BitVec 64) : v128p_enc_round r0 r1 r2 r3 sk = refVEnc r0 r1 r2 r3 sk := by
  simp only [v128p_enc_round, refVEnc, v128p_sbox, rotl32, gen_unfold]


/-- the vector decryption round, written with the inverse S-box leaf -/
def refVDec (r0 r1 r2 r3 : BitVec 32) (sk : BitVec 64) : BitVec 32 × BitVec 32 × BitVec 32 × BitVec 32 :=
  let n2 := r3 ^^^ r1
  let n1 := r2 ^^^ n2
  let n3 := r0 ^^^ r3
  (v128p_inv_sbox (r1 ^^^ sk.extractLsb' 0 32), v128p_inv_sbox (rotl32 n1 24 ^^^ sk.extractLsb' 32 32),
   v128p_inv_sbox (rotl32 n2 16 ^^^ 0x2#32), v128p_inv_sbox (rotl32 n3 8))

theorem v128p_dec_round_ref (r0 r1 r2 r3 : BitVec 32) (sk : BitVec 64) : v128p_dec_round r0 r1 r2 r3 sk = refVDec r0 r1 r2 r3 sk := by
  simp only [v128p_dec_round, refVDec, v128p_inv_sbox, rotl32, gen_unfold]

syntax "vec_bits" num : tactic
macro_rules
  | `(tactic| vec_bits $n) => `(tactic|
    (bv_bits $n <;>
      (simp [gen_unfold, pack4, refVEnc, refVDec, rotl32, lane, extractLsb'_extractLsb'_le,
             skinny128_sbox_32_getElem, skinny128_inv_sbox_32_getElem, v128p_sbox_getElem, v128p_inv_sbox_getElem,
             sbox128_32_lane, inv_sbox128_32_lane, v128p_sbox_lane', v128p_inv_sbox_lane']
       try (first
            | ac_rfl
            | (apply getElem_congr_fun
               bv_bits 8 <;> (simp [lane]; try ac_rfl))))))

theorem refVEnc_scalar (r0 r1 r2 r3 : BitVec 32) (sk : BitVec 64) :
    pack4 (refVEnc r0 r1 r2 r3 sk).1 (refVEnc r0 r1 r2 r3 sk).2.1 (refVEnc r0 r1 r2 r3 sk).2.2.1 (refVEnc r0 r1 r2 r3 sk).2.2.2 =
      skinny128_ecb_encrypt_round_32le (pack4 r0 r1 r2 r3) sk := by
  vec_bits 128

end SkinnyVerif.Lemmas
