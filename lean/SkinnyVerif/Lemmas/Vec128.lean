/- The 128-bit vector back end of Skinny-128 parallel ECB: all lemmas (see `Vec128Base`) -/
import SkinnyVerif.Lemmas.Vec128Round
import SkinnyVerif.Lemmas.Vec128LoadStore
