/-
The 128-bit vector back end of Skinny-128 parallel ECB (`src/skinny128-parallel-vec128.c`).

The round bodies are translated lane-generically (a vector is the 32-bit element of one lane: GCC's
element-wise semantics of vector operators is part of the translator's trusted base); the load and
store segments are translated with explicit lanes.  Shown here: the vector round on the rows of one
lane is the C library's scalar 32-bit round on the block made of those rows, and load / store are
the transposition between four consecutive blocks and four row vectors.
-/
import SkinnyVerif.Lemmas.AllConfigs
import SkinnyVerif.Gen.Vec128LeafLanes
import SkinnyVerif.Gen.Vec128Pieces

namespace SkinnyVerif.Lemmas
open SkinnyVerif SkinnyVerif.Gen SkinnyVerif.Impl SkinnyVerif.Spec.Skinny

theorem v128p_sbox_lane_eq : ∀ v, v128p_sbox_lane v = S8 v := forall_bv_eq _ _ (by decide +kernel)
theorem v128p_inv_sbox_lane_eq : ∀ v, v128p_inv_sbox_lane v = S8inv v := forall_bv_eq _ _ (by decide +kernel)
theorem v128p_sbox_lane' : v128p_sbox_lane = S8 := funext v128p_sbox_lane_eq
theorem v128p_inv_sbox_lane' : v128p_inv_sbox_lane = S8inv := funext v128p_inv_sbox_lane_eq

/-- a block from its four 32-bit rows -/
def pack4 (r0 r1 r2 r3 : BitVec 32) : BitVec 128 :=
  r0.setWidth 128 ||| (r1.setWidth 128 <<< 32) ||| (r2.setWidth 128 <<< 64) ||| (r3.setWidth 128 <<< 96)


/-! ## reading rows, bytes and bits out of a packed block -/

theorem pack4_getElem (a b c d : BitVec 32) (j : Nat) (hj : j < 128) :
    (pack4 a b c d)[j] = if h0 : j < 32 then a[j] else if h1 : j < 64 then b[j - 32]'(by omega) else if h2 : j < 96 then c[j - 64]'(by omega) else d[j - 96]'(by omega) := by
  simp only [pack4, BitVec.getElem_or, BitVec.getElem_setWidth, BitVec.getElem_shiftLeft]
  by_cases h0 : j < 32
  · have e1 : ¬ (32 ≤ j) := by omega
    simp [h0, BitVec.getLsbD_eq_getElem, show j < 64 by omega, show j < 96 by omega]
  · by_cases h1 : j < 64
    · simp [h0, h1, show j < 96 by omega, BitVec.getLsbD_eq_getElem, show j - 32 < 32 by omega, BitVec.getLsbD_of_ge a j (by omega)]
    · by_cases h2 : j < 96
      · simp [h0, h1, h2, BitVec.getLsbD_eq_getElem, show j - 64 < 32 by omega, BitVec.getLsbD_of_ge a j (by omega), BitVec.getLsbD_of_ge b (j - 32) (by omega)]
      · simp [h0, h1, h2, BitVec.getLsbD_eq_getElem, show j - 96 < 32 by omega, BitVec.getLsbD_of_ge a j (by omega), BitVec.getLsbD_of_ge b (j - 32) (by omega), BitVec.getLsbD_of_ge c (j - 64) (by omega)]

set_option maxRecDepth 8000 in
theorem pack4_row0 (a b c d : BitVec 32) : BitVec.extractLsb' 0 32 (pack4 a b c d) = a := by
  bv_bits 32 <;> simp [pack4]

set_option maxRecDepth 8000 in
theorem pack4_row1 (a b c d : BitVec 32) : BitVec.extractLsb' 32 32 (pack4 a b c d) = b := by
  bv_bits 32 <;> simp [pack4]

set_option maxRecDepth 8000 in
theorem pack4_row2 (a b c d : BitVec 32) : BitVec.extractLsb' 64 32 (pack4 a b c d) = c := by
  bv_bits 32 <;> simp [pack4]

set_option maxRecDepth 8000 in
theorem pack4_row3 (a b c d : BitVec 32) : BitVec.extractLsb' 96 32 (pack4 a b c d) = d := by
  bv_bits 32 <;> simp [pack4]

set_option maxRecDepth 8000 in
theorem pack4_byte0 (a b c d : BitVec 32) : BitVec.extractLsb' 0 8 (pack4 a b c d) = BitVec.extractLsb' 0 8 a := by
  bv_bits 8 <;> simp [pack4]

set_option maxRecDepth 8000 in
theorem pack4_byte1 (a b c d : BitVec 32) : BitVec.extractLsb' 8 8 (pack4 a b c d) = BitVec.extractLsb' 8 8 a := by
  bv_bits 8 <;> simp [pack4]

set_option maxRecDepth 8000 in
theorem pack4_byte2 (a b c d : BitVec 32) : BitVec.extractLsb' 16 8 (pack4 a b c d) = BitVec.extractLsb' 16 8 a := by
  bv_bits 8 <;> simp [pack4]

set_option maxRecDepth 8000 in
theorem pack4_byte3 (a b c d : BitVec 32) : BitVec.extractLsb' 24 8 (pack4 a b c d) = BitVec.extractLsb' 24 8 a := by
  bv_bits 8 <;> simp [pack4]

set_option maxRecDepth 8000 in
theorem pack4_byte4 (a b c d : BitVec 32) : BitVec.extractLsb' 32 8 (pack4 a b c d) = BitVec.extractLsb' 0 8 b := by
  bv_bits 8 <;> simp [pack4]

set_option maxRecDepth 8000 in
theorem pack4_byte5 (a b c d : BitVec 32) : BitVec.extractLsb' 40 8 (pack4 a b c d) = BitVec.extractLsb' 8 8 b := by
  bv_bits 8 <;> simp [pack4]

set_option maxRecDepth 8000 in
theorem pack4_byte6 (a b c d : BitVec 32) : BitVec.extractLsb' 48 8 (pack4 a b c d) = BitVec.extractLsb' 16 8 b := by
  bv_bits 8 <;> simp [pack4]

set_option maxRecDepth 8000 in
theorem pack4_byte7 (a b c d : BitVec 32) : BitVec.extractLsb' 56 8 (pack4 a b c d) = BitVec.extractLsb' 24 8 b := by
  bv_bits 8 <;> simp [pack4]

set_option maxRecDepth 8000 in
theorem pack4_byte8 (a b c d : BitVec 32) : BitVec.extractLsb' 64 8 (pack4 a b c d) = BitVec.extractLsb' 0 8 c := by
  bv_bits 8 <;> simp [pack4]

set_option maxRecDepth 8000 in
theorem pack4_byte9 (a b c d : BitVec 32) : BitVec.extractLsb' 72 8 (pack4 a b c d) = BitVec.extractLsb' 8 8 c := by
  bv_bits 8 <;> simp [pack4]

set_option maxRecDepth 8000 in
theorem pack4_byte10 (a b c d : BitVec 32) : BitVec.extractLsb' 80 8 (pack4 a b c d) = BitVec.extractLsb' 16 8 c := by
  bv_bits 8 <;> simp [pack4]

set_option maxRecDepth 8000 in
theorem pack4_byte11 (a b c d : BitVec 32) : BitVec.extractLsb' 88 8 (pack4 a b c d) = BitVec.extractLsb' 24 8 c := by
  bv_bits 8 <;> simp [pack4]

set_option maxRecDepth 8000 in
theorem pack4_byte12 (a b c d : BitVec 32) : BitVec.extractLsb' 96 8 (pack4 a b c d) = BitVec.extractLsb' 0 8 d := by
  bv_bits 8 <;> simp [pack4]

set_option maxRecDepth 8000 in
theorem pack4_byte13 (a b c d : BitVec 32) : BitVec.extractLsb' 104 8 (pack4 a b c d) = BitVec.extractLsb' 8 8 d := by
  bv_bits 8 <;> simp [pack4]

set_option maxRecDepth 8000 in
theorem pack4_byte14 (a b c d : BitVec 32) : BitVec.extractLsb' 112 8 (pack4 a b c d) = BitVec.extractLsb' 16 8 d := by
  bv_bits 8 <;> simp [pack4]

set_option maxRecDepth 8000 in
theorem pack4_byte15 (a b c d : BitVec 32) : BitVec.extractLsb' 120 8 (pack4 a b c d) = BitVec.extractLsb' 24 8 d := by
  bv_bits 8 <;> simp [pack4]

def rotl32 (x : BitVec 32) (c : Nat) : BitVec 32 := (x <<< c) ||| (x >>> (32 - c))

/-- the vector encryption round, written with the S-box leaf -/
def refVEnc (r0 r1 r2 r3 : BitVec 32) (sk : BitVec 64) : BitVec 32 × BitVec 32 × BitVec 32 × BitVec 32 :=
  let a0 := v128p_sbox r0 ^^^ sk.extractLsb' 0 32
  let a1 := v128p_sbox r1 ^^^ sk.extractLsb' 32 32
  let a2 := v128p_sbox r2 ^^^ 0x2#32
  let b1 := rotl32 a1 8
  let b2 := rotl32 a2 16
  let b3 := rotl32 (v128p_sbox r3) 24
  (b3 ^^^ (b2 ^^^ a0), a0, b1 ^^^ b2, b2 ^^^ a0)

set_option maxRecDepth 8000
set_option maxHeartbeats 8000000

theorem v128p_enc_round_ref (r0 r1 r2 r3 : BitVec 32) (sk : BitVec 64) : v128p_enc_round r0 r1 r2 r3 sk = refVEnc r0 r1 r2 r3 sk := by
  simp only [v128p_enc_round, refVEnc, v128p_sbox, rotl32, gen_unfold]


/-- the vector decryption round, written with the inverse S-box leaf -/
def refVDec (r0 r1 r2 r3 : BitVec 32) (sk : BitVec 64) : BitVec 32 × BitVec 32 × BitVec 32 × BitVec 32 :=
  let n2 := r3 ^^^ r1
  let n1 := r2 ^^^ n2
  let n3 := r0 ^^^ r3
  (v128p_inv_sbox (r1 ^^^ sk.extractLsb' 0 32), v128p_inv_sbox (rotl32 n1 24 ^^^ sk.extractLsb' 32 32),
   v128p_inv_sbox (rotl32 n2 16 ^^^ 0x2#32), v128p_inv_sbox (rotl32 n3 8))

theorem v128p_dec_round_ref (r0 r1 r2 r3 : BitVec 32) (sk : BitVec 64) : v128p_dec_round r0 r1 r2 r3 sk = refVDec r0 r1 r2 r3 sk := by
  simp only [v128p_dec_round, refVDec, v128p_inv_sbox, rotl32, gen_unfold]

syntax "vec_bits" num : tactic
macro_rules
  | `(tactic| vec_bits $n) => `(tactic|
    (bv_bits $n <;>
      (simp [gen_unfold, pack4_getElem, pack4_row0, pack4_row1, pack4_row2, pack4_row3, pack4_byte0, pack4_byte1, pack4_byte2, pack4_byte3, pack4_byte4, pack4_byte5, pack4_byte6, pack4_byte7, pack4_byte8, pack4_byte9, pack4_byte10, pack4_byte11, pack4_byte12, pack4_byte13, pack4_byte14, pack4_byte15, refVEnc, refVDec, rotl32, lane, extractLsb'_extractLsb'_le,
             skinny128_sbox_32_getElem, skinny128_inv_sbox_32_getElem, v128p_sbox_getElem, v128p_inv_sbox_getElem,
             sbox128_32_lane, inv_sbox128_32_lane, v128p_sbox_lane', v128p_inv_sbox_lane']
       try (first
            | ac_rfl
            | (apply getElem_congr_fun
               bv_bits 8 <;> (simp [lane]; try ac_rfl))))))

theorem refVEnc_scalar (r0 r1 r2 r3 : BitVec 32) (sk : BitVec 64) :
    pack4 (refVEnc r0 r1 r2 r3 sk).1 (refVEnc r0 r1 r2 r3 sk).2.1 (refVEnc r0 r1 r2 r3 sk).2.2.1 (refVEnc r0 r1 r2 r3 sk).2.2.2 =
      skinny128_ecb_encrypt_round_32le (pack4 r0 r1 r2 r3) sk := by
  vec_bits 128


theorem refVDec_scalar (r0 r1 r2 r3 : BitVec 32) (sk : BitVec 64) :
    pack4 (refVDec r0 r1 r2 r3 sk).1 (refVDec r0 r1 r2 r3 sk).2.1 (refVDec r0 r1 r2 r3 sk).2.2.1 (refVDec r0 r1 r2 r3 sk).2.2.2 =
      skinny128_ecb_decrypt_round_32le (pack4 r0 r1 r2 r3) sk := by
  vec_bits 128

/-- rows of one lane as a block -/
def packT (t : BitVec 32 × BitVec 32 × BitVec 32 × BitVec 32) : BitVec 128 := pack4 t.1 t.2.1 t.2.2.1 t.2.2.2

/-- **one lane of the vector encryption round = the scalar 32-bit round of the C library** -/
theorem v128p_enc_round_scalar (t : BitVec 32 × BitVec 32 × BitVec 32 × BitVec 32) (sk : BitVec 64) :
    packT (v128p_enc_round t.1 t.2.1 t.2.2.1 t.2.2.2 sk) = skinny128_ecb_encrypt_round_32le (packT t) sk := by
  rw [v128p_enc_round_ref]; exact refVEnc_scalar _ _ _ _ sk

theorem v128p_dec_round_scalar (t : BitVec 32 × BitVec 32 × BitVec 32 × BitVec 32) (sk : BitVec 64) :
    packT (v128p_dec_round t.1 t.2.1 t.2.2.1 t.2.2.2 sk) = skinny128_ecb_decrypt_round_32le (packT t) sk := by
  rw [v128p_dec_round_ref]; exact refVDec_scalar _ _ _ _ sk

/-- all rounds on one lane: the vector loop body iterated = the scalar loop body iterated -/
theorem v128p_enc_rounds_scalar (sched : List (BitVec 64)) (t : BitVec 32 × BitVec 32 × BitVec 32 × BitVec 32) :
    packT (sched.foldl (fun (a : BitVec 32 × BitVec 32 × BitVec 32 × BitVec 32) sk => v128p_enc_round a.1 a.2.1 a.2.2.1 a.2.2.2 sk) t) =
      sched.foldl (fun st sk => skinny128_ecb_encrypt_round_32le st sk) (packT t) := by
  induction sched generalizing t with
  | nil => rfl
  | cons sk rest ih => simp only [List.foldl_cons]; rw [ih, v128p_enc_round_scalar]

theorem v128p_dec_rounds_scalar (sched : List (BitVec 64)) (t : BitVec 32 × BitVec 32 × BitVec 32 × BitVec 32) :
    packT (sched.foldl (fun (a : BitVec 32 × BitVec 32 × BitVec 32 × BitVec 32) sk => v128p_dec_round a.1 a.2.1 a.2.2.1 a.2.2.2 sk) t) =
      sched.foldl (fun st sk => skinny128_ecb_decrypt_round_32le st sk) (packT t) := by
  induction sched generalizing t with
  | nil => rfl
  | cons sk rest ih => simp only [List.foldl_cons]; rw [ih, v128p_dec_round_scalar]

/-! ## load and store: the transposition between four blocks and four row vectors -/

/-- the rows of lane `j` of four row vectors -/
def laneRows (rows : BitVec 128 × BitVec 128 × BitVec 128 × BitVec 128) (j : Nat) : BitVec 32 × BitVec 32 × BitVec 32 × BitVec 32 :=
  (lane 32 j rows.1, lane 32 j rows.2.1, lane 32 j rows.2.2.1, lane 32 j rows.2.2.2)

syntax "vec_ls" : tactic
macro_rules
  | `(tactic| vec_ls) => `(tactic|
    (bv_bits 128 <;> simp [gen_unfold, packT, laneRows, pack4_getElem, lane, extractLsb'_extractLsb'_le]))

theorem v128p_enc_load_lane (input : BitVec 512) (j : Nat) (hj : j < 4) :
    packT (laneRows (v128p_enc_load input) j) = input.extractLsb' (128 * j) 128 := by
  nat_cases j 4 <;> vec_ls

theorem v128p_dec_load_lane (input : BitVec 512) (j : Nat) (hj : j < 4) :
    packT (laneRows (v128p_dec_load input) j) = input.extractLsb' (128 * j) 128 := by
  nat_cases j 4 <;> vec_ls

theorem v128p_enc_store_lane (rows : BitVec 128 × BitVec 128 × BitVec 128 × BitVec 128) (j : Nat) (hj : j < 4) :
    (v128p_enc_store rows.1 rows.2.1 rows.2.2.1 rows.2.2.2).extractLsb' (128 * j) 128 = packT (laneRows rows j) := by
  nat_cases j 4 <;> vec_ls

theorem v128p_dec_store_lane (rows : BitVec 128 × BitVec 128 × BitVec 128 × BitVec 128) (j : Nat) (hj : j < 4) :
    (v128p_dec_store rows.1 rows.2.1 rows.2.2.1 rows.2.2.2).extractLsb' (128 * j) 128 = packT (laneRows rows j) := by
  nat_cases j 4 <;> vec_ls

end SkinnyVerif.Lemmas
