/- Skinny-64 vec128 parallel ECB: one lane of the vector round = the scalar round of the 32-bit-word configuration -/
import SkinnyVerif.Lemmas.Vec64Base

namespace SkinnyVerif.Lemmas
open SkinnyVerif SkinnyVerif.Gen SkinnyVerif.Impl SkinnyVerif.Spec.Skinny

set_option maxRecDepth 8000
set_option maxHeartbeats 8000000

syntax "vec64_bits" : tactic
macro_rules
  | `(tactic| vec64_bits) => `(tactic|
    (bv_bits 64 <;>
      (simp [gen_unfold, packTh, pack4h_getElem, pack4h_row0, pack4h_row1, pack4h_row2, pack4h_row3, pack4h_nib0, pack4h_nib1, pack4h_nib2, pack4h_nib3, pack4h_nib4, pack4h_nib5, pack4h_nib6, pack4h_nib7, pack4h_nib8, pack4h_nib9, pack4h_nib10, pack4h_nib11, pack4h_nib12, pack4h_nib13, pack4h_nib14, pack4h_nib15, lane, extractLsb'_extractLsb'_le,
             skinny64_sbox_32_getElem, skinny64_inv_sbox_32_getElem, v64p_sbox_getElem, v64p_inv_sbox_getElem,
             sbox64_32_lane, inv_sbox64_32_lane, v64p_sbox_lane', v64p_inv_sbox_lane']
       try (first
            | ac_rfl
            | (apply getElem_congr_fun
               bv_bits 4 <;> (simp [lane]; try ac_rfl))))))

/-- **one lane of the vector encryption round = the scalar round of the C library (32-bit words)** -/
theorem v64p_enc_round_scalar (t : Rows16) (sk : BitVec 32) :
    packTh (v64p_enc_round t.1 t.2.1 t.2.2.1 t.2.2.2 sk) = skinny64_ecb_encrypt_round_32le (packTh t) sk := by
  vec64_bits

theorem v64p_dec_round_scalar (t : Rows16) (sk : BitVec 32) :
    packTh (v64p_dec_round t.1 t.2.1 t.2.2.1 t.2.2.2 sk) = skinny64_ecb_decrypt_round_32le (packTh t) sk := by
  vec64_bits

theorem v64p_enc_rounds_scalar (sched : List (BitVec 32)) (t : Rows16) :
    packTh (sched.foldl (fun (a : Rows16) sk => v64p_enc_round a.1 a.2.1 a.2.2.1 a.2.2.2 sk) t) =
      sched.foldl (fun st sk => skinny64_ecb_encrypt_round_32le st sk) (packTh t) := by
  induction sched generalizing t with
  | nil => rfl
  | cons sk rest ih => simp only [List.foldl_cons]; rw [ih, v64p_enc_round_scalar]

theorem v64p_dec_rounds_scalar (sched : List (BitVec 32)) (t : Rows16) :
    packTh (sched.foldl (fun (a : Rows16) sk => v64p_dec_round a.1 a.2.1 a.2.2.1 a.2.2.2 sk) t) =
      sched.foldl (fun st sk => skinny64_ecb_decrypt_round_32le st sk) (packTh t) := by
  induction sched generalizing t with
  | nil => rfl
  | cons sk rest ih => simp only [List.foldl_cons]; rw [ih, v64p_dec_round_scalar]

end SkinnyVerif.Lemmas
