/- MANTIS, configuration 32le: the generated pieces equal the reference forms
   (each piece is proved in its own module `MantisPieces_32le_<piece>`) -/
import SkinnyVerif.Lemmas.MantisPieces_32le_pre
import SkinnyVerif.Lemmas.MantisPieces_32le_fwd
import SkinnyVerif.Lemmas.MantisPieces_32le_mid
import SkinnyVerif.Lemmas.MantisPieces_32le_bwd
import SkinnyVerif.Lemmas.MantisPieces_32le_post
import SkinnyVerif.Lemmas.MantisPieces_32le_preT
import SkinnyVerif.Lemmas.MantisPieces_32le_fwdT
import SkinnyVerif.Lemmas.MantisPieces_32le_midT
import SkinnyVerif.Lemmas.MantisPieces_32le_bwdT
import SkinnyVerif.Lemmas.MantisPieces_32le_postT

namespace SkinnyVerif.Lemmas
open SkinnyVerif SkinnyVerif.Gen SkinnyVerif.Impl

theorem mantisPieces_32le : MantisPiecesOK (opsMantis .c32le) where
  pre := mantisPiece_32le_pre
  fwd := mantisPiece_32le_fwd
  mid := mantisPiece_32le_mid
  bwd := mantisPiece_32le_bwd
  post := mantisPiece_32le_post
  preT := mantisPiece_32le_preT
  fwdT := mantisPiece_32le_fwdT
  midT := mantisPiece_32le_midT
  bwdT := mantisPiece_32le_bwdT
  postT := mantisPiece_32le_postT

end SkinnyVerif.Lemmas
