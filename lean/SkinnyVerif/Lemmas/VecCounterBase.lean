/-
Per-lane counter increments of the vector CTR back ends (`skinny128_ctr_increment` in
`skinny128-ctr-vec128.c` / `-vec256.c`, `skinny64_ctr_increment`, `mantis_ctr_increment`).  The C
function walks the bytes of one column of the *strided* counter image
(`SkinnyVector4x32_t counter[4]` etc.: row-sliced, lane `c` of row `r` holds bytes `4r .. 4r+3` of
counter `c`) from the least significant byte up, with a 32-bit accumulator
(`inc += ptr[0]; ptr[0] = (uint8_t)inc; inc >>= 8`).  The translator unrolls it for each constant
column; here is the generic part: what such a chain computes, as a number.
-/
import SkinnyVerif.Lemmas.Counter

namespace SkinnyVerif.Lemmas
open SkinnyVerif

/-- accumulators of the byte-wise carry chain (bytes least significant first) -/
def accs : List (BitVec 8) → BitVec 32 → List (BitVec 32)
  | [], _ => []
  | b :: bs, k => (k + b.setWidth 32) :: accs bs ((k + b.setWidth 32) >>> 8)

/-- lane `q` of the image after the chain over the byte lanes `qs` (least significant first) -/
def chainLane {w : Nat} (img : BitVec w) (qs : List Nat) (k : BitVec 32) (q : Nat) : BitVec 8 :=
  if qs.idxOf q < qs.length then ((accs (qs.map (fun p => lane 8 p img)) k).getD (qs.idxOf q) 0).setWidth 8
  else lane 8 q img

/-- the bytes at lanes `qs`, as a number (least significant lane first) -/
def colVal {w : Nat} (qs : List Nat) (img : BitVec w) : Nat := valLE (qs.map (fun q => (lane 8 q img).toNat))

theorem accs_length (bs : List (BitVec 8)) (k : BitVec 32) : (accs bs k).length = bs.length := by
  induction bs generalizing k with
  | nil => rfl
  | cons b bs ih => simp [accs, ih]

/-- the chain on bit vectors is the chain on numbers, as long as the 32-bit accumulator cannot overflow -/
theorem accs_addChain (bs : List (BitVec 8)) (k : BitVec 32) (hk : k.toNat + 255 < 2 ^ 32) :
    (accs bs k).map (fun a => (a.setWidth 8).toNat) = addChain (bs.map (fun b => b.toNat)) k.toNat := by
  induction bs generalizing k with
  | nil => rfl
  | cons b bs ih =>
    have hb := b.isLt
    have hsum : (k + b.setWidth 32).toNat = b.toNat + k.toNat := by
      simp only [BitVec.toNat_add, BitVec.toNat_setWidth]
      omega
    have hcar : ((k + b.setWidth 32) >>> 8).toNat = (b.toNat + k.toNat) / 256 := by
      simp only [BitVec.toNat_ushiftRight, hsum, Nat.shiftRight_eq_div_pow]
    simp only [accs, List.map_cons, addChain]
    rw [ih _ (by rw [hcar]; omega), hcar]
    congr 1
    simp only [BitVec.toNat_setWidth, hsum]

theorem accs_val (bs : List (BitVec 8)) (k : BitVec 32) (hk : k.toNat + 255 < 2 ^ 32) :
    valLE ((accs bs k).map (fun a => (a.setWidth 8).toNat)) = (valLE (bs.map (fun b => b.toNat)) + k.toNat) % 256 ^ bs.length := by
  rw [accs_addChain bs k hk, addChain_val]; simp

theorem idxOf_getElem_nodup (l : List Nat) (hnd : l.Nodup) (i : Nat) (hi : i < l.length) : l.idxOf l[i] = i := by
  induction l generalizing i with
  | nil => simp at hi
  | cons a l ih =>
    rw [List.nodup_cons] at hnd
    cases i with
    | zero => simp
    | succ i =>
      have hi' : i < l.length := by simpa using hi
      have hne : a ≠ l[i] := fun h => hnd.1 (h ▸ List.getElem_mem hi')
      have hb : (a == l[i]) = false := by simpa using hne
      simp only [List.getElem_cons_succ, List.idxOf_cons, hb, cond_false]
      rw [ih hnd.2 i hi']

/-- what a function with the lane behaviour `chainLane` does to the column it walks, and to everything else -/
theorem chain_column {w : Nat} (f : BitVec w → BitVec 32 → BitVec w) (qs : List Nat) (n : Nat) (hnd : qs.Nodup) (hqs : ∀ q ∈ qs, q < n)
    (hl : ∀ img k q, q < n → lane 8 q (f img k) = chainLane img qs k q) (img : BitVec w) (k : BitVec 32) :
    (k.toNat + 255 < 2 ^ 32 → colVal qs (f img k) = (colVal qs img + k.toNat) % 256 ^ qs.length) ∧
    (∀ q, q < n → q ∉ qs → lane 8 q (f img k) = lane 8 q img) := by
  constructor
  · intro hk
    have hmap : qs.map (fun q => (lane 8 q (f img k)).toNat) = (accs (qs.map (fun p => lane 8 p img)) k).map (fun a => (a.setWidth 8).toNat) := by
      apply List.ext_getElem
      · simp [accs_length]
      · intro i h1 h2
        have hi : i < qs.length := by simpa using h1
        simp only [List.getElem_map]
        rw [hl img k qs[i] (hqs _ (List.getElem_mem hi))]
        have hidx : qs.idxOf qs[i] = i := idxOf_getElem_nodup qs hnd i hi
        simp only [chainLane, hidx, hi, if_true]
        rw [List.getD_eq_getElem?_getD, List.getElem?_eq_getElem (by simpa [accs_length] using hi)]
        rfl
    simp only [colVal]
    rw [hmap, accs_val _ _ hk]
    simp only [List.map_map, Function.comp_def, List.length_map]
  · intro q hq hnot
    rw [hl img k q hq]
    have : ¬ qs.idxOf q < qs.length := by
      intro h
      exact hnot (List.idxOf_lt_length_iff.mp h)
    simp only [chainLane, this, if_false]

end SkinnyVerif.Lemmas
