/- Skinny-128 vec256 parallel ECB: load / store is the transposition between eight blocks and four row vectors (lanes 4-7) -/
import SkinnyVerif.Lemmas.Vec256Base

namespace SkinnyVerif.Lemmas
open SkinnyVerif SkinnyVerif.Gen SkinnyVerif.Impl SkinnyVerif.Spec.Skinny

set_option maxRecDepth 8000
set_option maxHeartbeats 8000000

theorem v256p_enc_load_lane_hi (input : BitVec 1024) (k : Nat) (hk : k < 4) :
    packT (laneRows8 (v256p_enc_load input) (k + 4)) = input.extractLsb' (128 * (k + 4)) 128 := by
  nat_cases k 4 <;> vec8_ls

end SkinnyVerif.Lemmas
