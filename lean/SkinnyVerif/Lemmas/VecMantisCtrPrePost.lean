/- Mantis vec128 CTR batch function: first segment (counter vectors as they are, whitening with the stored tweak) and
   last segment (whitening, store), lane by lane -/
import SkinnyVerif.Lemmas.VecMantisCtrBase

namespace SkinnyVerif.Lemmas
open SkinnyVerif SkinnyVerif.Gen SkinnyVerif.Impl

set_option maxRecDepth 8000
set_option maxHeartbeats 8000000

theorem vmc_pre_state (input : BitVec 512) (ks : BitVec 288) (j : Nat) (hj : j < 8) :
    laneSt (vmc_pre input ks).1 j = (refPre (laneSt input j) ks (ks.extractLsb' 192 64)).1 := by
  nat_cases j 8 <;> vmp_win

theorem vmc_pre_tweak (input : BitVec 512) (ks : BitVec 288) : (vmc_pre input ks).2.1 = ks.extractLsb' 192 64 := by
  simp only [gen_unfold]

theorem vmc_pre_k1 (input : BitVec 512) (ks : BitVec 288) : (vmc_pre input ks).2.2 = ks.extractLsb' 128 64 := by
  simp only [gen_unfold]

theorem vmc_post_lane (st : BitVec 512) (tw k1 : BitVec 64) (ks : BitVec 288) (j : Nat) (hj : j < 8) :
    (vmc_post st tw k1 ks).extractLsb' (64 * j) 64 = refPost (laneSt st j) tw k1 ks := by
  nat_cases j 8 <;> vmp_win

end SkinnyVerif.Lemmas
