/-
Schedule refinement (generic in the block size and the build configuration): the entries that
`set_tk1`, `set_tk2`, `set_tk3` and `xor_tk1` leave in the key schedule are the specification's
round keys -- by induction over the round index with the running tweakey words as invariant.
-/
import SkinnyVerif.Lemmas.Generic

namespace SkinnyVerif.Lemmas
open SkinnyVerif SkinnyVerif.Gen SkinnyVerif.Spec.Skinny SkinnyVerif.Impl

/-! ## xor algebra on cells -/
section cellalg
variable {s : Nat}

theorem xorCells_comm (a b : Cells s) : xorCells a b = xorCells b a := by
  apply Vector.ext; intro i hi; simp [xorCells, BitVec.xor_comm]
theorem xorCells_assoc (a b c : Cells s) : xorCells (xorCells a b) c = xorCells a (xorCells b c) := by
  apply Vector.ext; intro i hi; simp [xorCells, BitVec.xor_assoc]
theorem xorCells_zero (a : Cells s) : xorCells a (zeroCells s) = a := by
  apply Vector.ext; intro i hi; simp [xorCells, zeroCells]
theorem zero_xorCells (a : Cells s) : xorCells (zeroCells s) a = a := by
  rw [xorCells_comm, xorCells_zero]
theorem xorCells_self (a : Cells s) : xorCells a a = zeroCells s := by
  apply Vector.ext; intro i hi; simp [xorCells, zeroCells]
theorem topRows_xor (a b : Cells s) : topRows (xorCells a b) = xorCells (topRows a) (topRows b) := by
  apply Vector.ext; intro i hi
  by_cases h : i < 8 <;> simp [topRows, xorCells, h]
theorem topRows_zero : topRows (zeroCells s) = zeroCells s := by
  apply Vector.ext; intro i hi
  by_cases h : i < 8 <;> simp [topRows, zeroCells, h]
theorem permute_zero (p : Vector (Fin 16) 16) : permute p (zeroCells s) = zeroCells s := by
  apply Vector.ext; intro i hi; simp [permute, zeroCells]
theorem permute_xor (p : Vector (Fin 16) 16) (a b : Cells s) : permute p (xorCells a b) = xorCells (permute p a) (permute p b) := by
  apply Vector.ext; intro i hi; simp [permute, xorCells]
theorem mapTop_zero (f : BitVec s → BitVec s) (hf : f (0#s) = 0#s) : mapTop f (zeroCells s) = zeroCells s := by
  apply Vector.ext; intro i hi
  by_cases h : i < 8
  · simp [mapTop, zeroCells, h, hf]
  · simp [mapTop, zeroCells, h]

end cellalg

/-! ## round constants -/

theorem iter_succ' {τ : Type} (f : τ → τ) (n : Nat) (x : τ) : iter f (n + 1) x = iter f n (f x) := by
  induction n with
  | zero => rfl
  | succ n ih => simp only [iter] at ih ⊢; rw [ih]

theorem rc_iter (i : Nat) : (iter rcStep8 (i + 1) 0).setWidth 6 = rcAt i ∧ iter rcStep8 (i + 1) 0 < 64 := by
  induction i with
  | zero =>
    have h := rcStep8_spec 0 (by decide)
    simp only [iter, rcAt]
    exact ⟨by simpa using h.1, h.2⟩
  | succ i ih =>
    have h := rcStep8_spec (iter rcStep8 (i + 1) 0) ih.2
    refine ⟨?_, h.2⟩
    show (rcStep8 (iter rcStep8 (i + 1) 0)).setWidth 6 = rcNext (rcAt i)
    rw [h.1, ih.1]

theorem lt64_bits : ∀ rc : BitVec 8, rc < 64 → rc[6] = false ∧ rc[7] = false := by
  have h := forall_bv_of_all (w := 8) (fun rc => decide (rc < 64 → rc[6] = false ∧ rc[7] = false)) (by decide +kernel)
  intro rc hrc; exact of_decide_eq_true (h rc) hrc

/-- `constCells` (spec) = constants kept in the schedule entry + the `c2` added in the round function -/
theorem constCells_split8 (dom : BitVec 8) (rc : BitVec 8) (hrc : rc < 64) :
    constCells 8 (rc.setWidth 6) dom = xorCells (constTop 8 rc dom) (c2cells 8) := by
  obtain ⟨h6, h7⟩ := lt64_bits rc hrc
  apply cells_ext <;>
    ((simp [constCells, constTop, c2cells, xorCells]) <;> (bv_bits 8 <;> simp [h6, h7]))

theorem constCells_split4 (dom : BitVec 4) (rc : BitVec 8) (hrc : rc < 64) :
    constCells 4 (rc.setWidth 6) dom = xorCells (constTop 4 rc dom) (c2cells 4) := by
  obtain ⟨h6, h7⟩ := lt64_bits rc hrc
  apply cells_ext <;>
    ((simp [constCells, constTop, c2cells, xorCells]) <;> (bv_bits 4 <;> simp [h6, h7]))

/-! ## the specification's tweakey words in closed form -/

theorem tkAt_eq {s : Nat} (co : CellOps s) (t : Tweakey s) (i : Nat) :
    tkAt co t i = ⟨iter (permute PT) i t.tk1, iter (fun c => mapTop co.lfsr2 (permute PT c)) i t.tk2,
                   iter (fun c => mapTop co.lfsr3 (permute PT c)) i t.tk3⟩ := by
  induction i with
  | zero => rfl
  | succ i ih => simp only [tkAt, ih, tkNext, iter]

theorem iter_fixed {τ : Type} (f : τ → τ) (x : τ) (h : f x = x) (n : Nat) : iter f n x = x := by
  induction n with
  | zero => rfl
  | succ n ih => simp only [iter, ih, h]

/-! ## closed forms of the implementation's schedule loops -/
theorem iter_pair {s : Nat} (f : Cells s → Cells s) (g : BitVec 8 → BitVec 8) (n : Nat) (c : Cells s) (r : BitVec 8) :
    iter (fun (p : Cells s × BitVec 8) => (f p.1, g p.2)) n (c, r) = (iter f n c, iter g n r) := by
  induction n with
  | zero => rfl
  | succ n ih => simp only [iter, ih]

section impl
variable {b h s : Nat} (A : Abs b h s) (o : SkinnyOps b h) (hc : OpsCorrectG A o)
include hc

/-- `set_tk1`: entry `i` = upper rows of `PT^i(TK1)` xor the constants of round `i` (and the domain bit) -/
theorem setTk1_spec (ks : KeySched h) (key : Bytes) (tweaked : Bool) (hlen : ks.rounds ≤ ks.sched.length) :
    (setTk1 o ks key tweaked).rounds = ks.rounds ∧ (setTk1 o ks key tweaked).sched.length = ks.sched.length ∧
    (∀ i, i < ks.rounds → A.top ((setTk1 o ks key tweaked).sched.getD i 0) =
      xorCells (topRows (iter (permute PT) i (A.cells (image b key))))
               (constTop s (iter rcStep8 (i + 1) 0) (if tweaked then 2 else 0))) ∧
    (∀ i, ks.rounds ≤ i → (setTk1 o ks key tweaked).sched.getD i 0 = ks.sched.getD i 0) := by
  have key0 : o.tk1Load (image b key) = (image b key, 0) := hc.tk1Load _
  cases tweaked
  · have hf := schedFold_abs (d := (0 : BitVec h))
      (step := fun (_ : BitVec h) (st : BitVec b × BitVec 8) => let p := o.tk1Step0 st.1 st.2; (p.1, (p.2.1, p.2.2)))
      (absS := fun st => (A.cells st.1, st.2)) (absE := A.top)
      (nextA := fun (p : Cells s × BitVec 8) => (permute PT p.1, rcStep8 p.2))
      (F := fun _ p => xorCells (topRows p.1) (constTop s (rcStep8 p.2) 0))
      (by intro e st; simp only [hc.tk1Step0_tk, hc.tk1Step0_rc])
      (by intro e st; simp only [hc.tk1Step0_e])
      ks.rounds ks.sched (image b key, 0) hlen
    obtain ⟨_, h2, h3, h4⟩ := hf
    simp only [setTk1, key0, Bool.false_eq_true, if_false]
    refine ⟨by trivial, h2, ?_, h4⟩
    intro i hi
    rw [h3 i hi, iter_pair]
    rfl
  · have hf := schedFold_abs (d := (0 : BitVec h))
      (step := fun (_ : BitVec h) (st : BitVec b × BitVec 8) => let p := o.tk1Step1 st.1 st.2; (p.1, (p.2.1, p.2.2)))
      (absS := fun st => (A.cells st.1, st.2)) (absE := A.top)
      (nextA := fun (p : Cells s × BitVec 8) => (permute PT p.1, rcStep8 p.2))
      (F := fun _ p => xorCells (topRows p.1) (constTop s (rcStep8 p.2) 2))
      (by intro e st; simp only [hc.tk1Step1_tk, hc.tk1Step1_rc])
      (by intro e st; simp only [hc.tk1Step1_e])
      ks.rounds ks.sched (image b key, 0) hlen
    obtain ⟨_, h2, h3, h4⟩ := hf
    simp only [setTk1, key0, if_true]
    refine ⟨by trivial, h2, ?_, h4⟩
    intro i hi
    rw [h3 i hi, iter_pair]
    rfl

/-- `xor_tk1`: entry `i` is xored with the upper rows of `PT^i(TK1)` -/
theorem xorTk1_spec (ks : KeySched h) (key : Bytes) (hlen : ks.rounds ≤ ks.sched.length) :
    (xorTk1 o ks key).rounds = ks.rounds ∧ (xorTk1 o ks key).sched.length = ks.sched.length ∧
    (∀ i, i < ks.rounds → A.top ((xorTk1 o ks key).sched.getD i 0) =
      xorCells (A.top (ks.sched.getD i 0)) (topRows (iter (permute PT) i (A.cells (image b key))))) ∧
    (∀ i, ks.rounds ≤ i → (xorTk1 o ks key).sched.getD i 0 = ks.sched.getD i 0) := by
  have hf := schedFold_abs (d := (0 : BitVec h)) (step := o.xorTk1Step) (absS := A.cells) (absE := A.top)
    (nextA := permute PT) (F := fun e c => xorCells e (topRows c))
    (by intro e st; exact hc.xorTk1Step_tk e st) (by intro e st; exact hc.xorTk1Step_e e st)
    ks.rounds ks.sched (image b key) hlen
  obtain ⟨_, h2, h3, h4⟩ := hf
  simp only [xorTk1, hc.xorTk1Load]
  exact ⟨by trivial, h2, h3, h4⟩

/-- `set_tk2` / `set_tk3` on a loaded tweakey word `tk0` -/
theorem setTkN_spec (which : Bool) (ks : KeySched h) (key : Bytes) (keySize : Nat) (junk : BitVec b)
    (hlen : ks.rounds ≤ ks.sched.length) :
    let tk0 := (if which then o.tk3Load else o.tk2Load) keySize junk (image b (key.take keySize))
    let f := fun c => mapTop (if which then A.co.lfsr3 else A.co.lfsr2) (permute PT c)
    (setTkN o which ks key keySize junk).rounds = ks.rounds ∧ (setTkN o which ks key keySize junk).sched.length = ks.sched.length ∧
    (∀ i, i < ks.rounds → A.top ((setTkN o which ks key keySize junk).sched.getD i 0) =
      xorCells (A.top (ks.sched.getD i 0)) (topRows (iter f i (A.cells tk0)))) ∧
    (∀ i, ks.rounds ≤ i → (setTkN o which ks key keySize junk).sched.getD i 0 = ks.sched.getD i 0) := by
  cases which
  · have hf := schedFold_abs (d := (0 : BitVec h)) (step := o.tk2Step) (absS := A.cells) (absE := A.top)
      (nextA := fun c => mapTop A.co.lfsr2 (permute PT c)) (F := fun e c => xorCells e (topRows c))
      (by intro e st; exact hc.tk2Step_tk e st) (by intro e st; exact hc.tk2Step_e e st)
      ks.rounds ks.sched (o.tk2Load keySize junk (image b (key.take keySize))) hlen
    obtain ⟨_, h2, h3, h4⟩ := hf
    simp only [setTkN, Bool.false_eq_true, if_false]
    exact ⟨by trivial, h2, h3, h4⟩
  · have hf := schedFold_abs (d := (0 : BitVec h)) (step := o.tk3Step) (absS := A.cells) (absE := A.top)
      (nextA := fun c => mapTop A.co.lfsr3 (permute PT c)) (F := fun e c => xorCells e (topRows c))
      (by intro e st; exact hc.tk3Step_tk e st) (by intro e st; exact hc.tk3Step_e e st)
      ks.rounds ks.sched (o.tk3Load keySize junk (image b (key.take keySize))) hlen
    obtain ⟨_, h2, h3, h4⟩ := hf
    simp only [setTkN, if_true]
    exact ⟨by trivial, h2, h3, h4⟩

end impl
end SkinnyVerif.Lemmas
