/-
Schedule refinement (generic in the block size and the build configuration): the entries that
`set_tk1`, `set_tk2`, `set_tk3` and `xor_tk1` leave in the key schedule are the specification's
round keys -- by induction over the round index with the running tweakey words as invariant.
-/
import SkinnyVerif.Lemmas.Generic

namespace SkinnyVerif.Lemmas
open SkinnyVerif SkinnyVerif.Gen SkinnyVerif.Spec.Skinny SkinnyVerif.Impl

/-! ## xor algebra on cells -/
section cellalg
variable {s : Nat}

theorem xorCells_comm (a b : Cells s) : xorCells a b = xorCells b a := by
  apply Vector.ext; intro i hi; simp [xorCells, BitVec.xor_comm]
theorem xorCells_assoc (a b c : Cells s) : xorCells (xorCells a b) c = xorCells a (xorCells b c) := by
  apply Vector.ext; intro i hi; simp [xorCells, BitVec.xor_assoc]
theorem xorCells_zero (a : Cells s) : xorCells a (zeroCells s) = a := by
  apply Vector.ext; intro i hi; simp [xorCells, zeroCells]
theorem zero_xorCells (a : Cells s) : xorCells (zeroCells s) a = a := by
  rw [xorCells_comm, xorCells_zero]
theorem xorCells_self (a : Cells s) : xorCells a a = zeroCells s := by
  apply Vector.ext; intro i hi; simp [xorCells, zeroCells]
theorem topRows_xor (a b : Cells s) : topRows (xorCells a b) = xorCells (topRows a) (topRows b) := by
  apply Vector.ext; intro i hi
  by_cases h : i < 8 <;> simp [topRows, xorCells, h]
theorem topRows_zero : topRows (zeroCells s) = zeroCells s := by
  apply Vector.ext; intro i hi
  by_cases h : i < 8 <;> simp [topRows, zeroCells, h]
theorem permute_zero (p : Vector (Fin 16) 16) : permute p (zeroCells s) = zeroCells s := by
  apply Vector.ext; intro i hi; simp [permute, zeroCells]
theorem permute_xor (p : Vector (Fin 16) 16) (a b : Cells s) : permute p (xorCells a b) = xorCells (permute p a) (permute p b) := by
  apply Vector.ext; intro i hi; simp [permute, xorCells]
theorem mapTop_zero (f : BitVec s → BitVec s) (hf : f (0#s) = 0#s) : mapTop f (zeroCells s) = zeroCells s := by
  apply Vector.ext; intro i hi
  by_cases h : i < 8
  · simp [mapTop, zeroCells, h, hf]
  · simp [mapTop, zeroCells, h]

end cellalg

/-! ## round constants -/

theorem iter_succ' {τ : Type} (f : τ → τ) (n : Nat) (x : τ) : iter f (n + 1) x = iter f n (f x) := by
  induction n with
  | zero => rfl
  | succ n ih => simp only [iter] at ih ⊢; rw [ih]

theorem rc_iter (i : Nat) : (iter rcStep8 (i + 1) 0).setWidth 6 = rcAt i ∧ iter rcStep8 (i + 1) 0 < 64 := by
  induction i with
  | zero =>
    have h := rcStep8_spec 0 (by decide)
    simp only [iter, rcAt]
    exact ⟨by simpa using h.1, h.2⟩
  | succ i ih =>
    have h := rcStep8_spec (iter rcStep8 (i + 1) 0) ih.2
    refine ⟨?_, h.2⟩
    show (rcStep8 (iter rcStep8 (i + 1) 0)).setWidth 6 = rcNext (rcAt i)
    rw [h.1, ih.1]

theorem lt64_bits : ∀ rc : BitVec 8, rc < 64 → rc[6] = false ∧ rc[7] = false := by
  have h := forall_bv_of_all (w := 8) (fun rc => decide (rc < 64 → rc[6] = false ∧ rc[7] = false)) (by decide +kernel)
  intro rc hrc; exact of_decide_eq_true (h rc) hrc

/-- `constCells` (spec) = constants kept in the schedule entry + the `c2` added in the round function -/
theorem constCells_split8 (dom : BitVec 8) (rc : BitVec 8) (hrc : rc < 64) :
    constCells 8 (rc.setWidth 6) dom = xorCells (constTop 8 rc dom) (c2cells 8) := by
  obtain ⟨h6, h7⟩ := lt64_bits rc hrc
  apply cells_ext <;>
    ((simp [constCells, constTop, c2cells, xorCells]) <;> (bv_bits 8 <;> simp [h6, h7]))

theorem constCells_split4 (dom : BitVec 4) (rc : BitVec 8) (hrc : rc < 64) :
    constCells 4 (rc.setWidth 6) dom = xorCells (constTop 4 rc dom) (c2cells 4) := by
  obtain ⟨h6, h7⟩ := lt64_bits rc hrc
  apply cells_ext <;>
    ((simp [constCells, constTop, c2cells, xorCells]) <;> (bv_bits 4 <;> simp [h6, h7]))

/-! ## the specification's tweakey words in closed form -/

theorem tkAt_eq {s : Nat} (co : CellOps s) (t : Tweakey s) (i : Nat) :
    tkAt co t i = ⟨iter (permute PT) i t.tk1, iter (fun c => mapTop co.lfsr2 (permute PT c)) i t.tk2,
                   iter (fun c => mapTop co.lfsr3 (permute PT c)) i t.tk3⟩ := by
  induction i with
  | zero => rfl
  | succ i ih => simp only [tkAt, ih, tkNext, iter]

theorem iter_fixed {τ : Type} (f : τ → τ) (x : τ) (h : f x = x) (n : Nat) : iter f n x = x := by
  induction n with
  | zero => rfl
  | succ n ih => simp only [iter, ih, h]

end SkinnyVerif.Lemmas
