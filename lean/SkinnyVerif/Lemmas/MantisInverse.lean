/-
MANTIS at the level of the specification: decryption (encryption under `(k0', k0, k1 ⊕ α)`)
inverts encryption, for every round count, key, tweak and block.
-/
import SkinnyVerif.Lemmas.MantisLeaf

namespace SkinnyVerif.Lemmas
open SkinnyVerif SkinnyVerif.Spec.Skinny SkinnyVerif.Spec.Mantis

theorem bv_xor_cancel_left4 {w : Nat} (a b : BitVec w) : a ^^^ (a ^^^ b) = b := by
  rw [← BitVec.xor_assoc, BitVec.xor_self, BitVec.zero_xor]

theorem xorCells_cancel4 (a b : Cells 4) : xorCells (xorCells a b) b = a := by
  apply Vector.ext; intro j hj
  simp only [xorCells_get, BitVec.xor_assoc, BitVec.xor_self, BitVec.xor_zero]

theorem subCells_Sb0_twice (x : Cells 4) : subCells Sb0 (subCells Sb0 x) = x := by
  apply Vector.ext; intro j hj
  simp [subCells, Sb0_involution]

theorem P_Pinv (x : Cells 4) : permute PInv (permute PPerm x) = x := by
  apply cells_ext <;> simp [permute_MP, permute_MPinv]
theorem Pinv_P (x : Cells 4) : permute PPerm (permute PInv x) = x := by
  apply cells_ext <;> simp [permute_MP, permute_MPinv]
theorem h_hInv (x : Cells 4) : permute hInv (permute hPerm x) = x := by
  apply cells_ext <;> simp [permute_h, permute_hInv]
theorem hInv_h (x : Cells 4) : permute hPerm (permute hInv x) = x := by
  apply cells_ext <;> simp [permute_h, permute_hInv]

theorem mmA {w : Nat} (a b c d : BitVec w) : (a ^^^ c ^^^ d) ^^^ (a ^^^ b ^^^ d) ^^^ (a ^^^ b ^^^ c) = a := by
  ext i hi; simp only [BitVec.getElem_xor]; cases a[i] <;> cases b[i] <;> cases c[i] <;> cases d[i] <;> rfl
theorem mmB {w : Nat} (a b c d : BitVec w) : (b ^^^ c ^^^ d) ^^^ (a ^^^ b ^^^ d) ^^^ (a ^^^ b ^^^ c) = b := by
  ext i hi; simp only [BitVec.getElem_xor]; cases a[i] <;> cases b[i] <;> cases c[i] <;> cases d[i] <;> rfl
theorem mmC {w : Nat} (a b c d : BitVec w) : (b ^^^ c ^^^ d) ^^^ (a ^^^ c ^^^ d) ^^^ (a ^^^ b ^^^ c) = c := by
  ext i hi; simp only [BitVec.getElem_xor]; cases a[i] <;> cases b[i] <;> cases c[i] <;> cases d[i] <;> rfl
theorem mmD {w : Nat} (a b c d : BitVec w) : (b ^^^ c ^^^ d) ^^^ (a ^^^ c ^^^ d) ^^^ (a ^^^ b ^^^ d) = d := by
  ext i hi; simp only [BitVec.getElem_xor]; cases a[i] <;> cases b[i] <;> cases c[i] <;> cases d[i] <;> rfl

theorem MM_twice (x : Cells 4) : mulColumns MM (mulColumns MM x) = x := by
  apply cells_ext
  · simp only [mulColumns_MM, Vector.getElem_mk, List.getElem_toArray, List.getElem_cons_zero, List.getElem_cons_succ]
    exact mmA x[0] x[4] x[8] x[12]
  · simp only [mulColumns_MM, Vector.getElem_mk, List.getElem_toArray, List.getElem_cons_zero, List.getElem_cons_succ]
    exact mmA x[1] x[5] x[9] x[13]
  · simp only [mulColumns_MM, Vector.getElem_mk, List.getElem_toArray, List.getElem_cons_zero, List.getElem_cons_succ]
    exact mmA x[2] x[6] x[10] x[14]
  · simp only [mulColumns_MM, Vector.getElem_mk, List.getElem_toArray, List.getElem_cons_zero, List.getElem_cons_succ]
    exact mmA x[3] x[7] x[11] x[15]
  · simp only [mulColumns_MM, Vector.getElem_mk, List.getElem_toArray, List.getElem_cons_zero, List.getElem_cons_succ]
    exact mmB x[0] x[4] x[8] x[12]
  · simp only [mulColumns_MM, Vector.getElem_mk, List.getElem_toArray, List.getElem_cons_zero, List.getElem_cons_succ]
    exact mmB x[1] x[5] x[9] x[13]
  · simp only [mulColumns_MM, Vector.getElem_mk, List.getElem_toArray, List.getElem_cons_zero, List.getElem_cons_succ]
    exact mmB x[2] x[6] x[10] x[14]
  · simp only [mulColumns_MM, Vector.getElem_mk, List.getElem_toArray, List.getElem_cons_zero, List.getElem_cons_succ]
    exact mmB x[3] x[7] x[11] x[15]
  · simp only [mulColumns_MM, Vector.getElem_mk, List.getElem_toArray, List.getElem_cons_zero, List.getElem_cons_succ]
    exact mmC x[0] x[4] x[8] x[12]
  · simp only [mulColumns_MM, Vector.getElem_mk, List.getElem_toArray, List.getElem_cons_zero, List.getElem_cons_succ]
    exact mmC x[1] x[5] x[9] x[13]
  · simp only [mulColumns_MM, Vector.getElem_mk, List.getElem_toArray, List.getElem_cons_zero, List.getElem_cons_succ]
    exact mmC x[2] x[6] x[10] x[14]
  · simp only [mulColumns_MM, Vector.getElem_mk, List.getElem_toArray, List.getElem_cons_zero, List.getElem_cons_succ]
    exact mmC x[3] x[7] x[11] x[15]
  · simp only [mulColumns_MM, Vector.getElem_mk, List.getElem_toArray, List.getElem_cons_zero, List.getElem_cons_succ]
    exact mmD x[0] x[4] x[8] x[12]
  · simp only [mulColumns_MM, Vector.getElem_mk, List.getElem_toArray, List.getElem_cons_zero, List.getElem_cons_succ]
    exact mmD x[1] x[5] x[9] x[13]
  · simp only [mulColumns_MM, Vector.getElem_mk, List.getElem_toArray, List.getElem_cons_zero, List.getElem_cons_succ]
    exact mmD x[2] x[6] x[10] x[14]
  · simp only [mulColumns_MM, Vector.getElem_mk, List.getElem_toArray, List.getElem_cons_zero, List.getElem_cons_succ]
    exact mmD x[3] x[7] x[11] x[15]

theorem bwd_fwd (k : Cells 4) (i : Nat) (st tw : Cells 4) :
    bwdRound k i (fwdRound k i st tw).1 (fwdRound k i st tw).2 = (st, tw) := by
  simp only [fwdRound, bwdRound, MM_twice, P_Pinv, xorCells_cancel4, subCells_Sb0_twice, h_hInv]

theorem fwd_bwd (k : Cells 4) (i : Nat) (st tw : Cells 4) :
    fwdRound k i (bwdRound k i st tw).1 (bwdRound k i st tw).2 = (st, tw) := by
  simp only [fwdRound, bwdRound, hInv_h, subCells_Sb0_twice, xorCells_cancel4, Pinv_P, MM_twice]

/-- `r` forward rounds followed by the `r` backward rounds (same key) return to the start -/
theorem bwd_fold_fwd_fold (k : Cells 4) (r : Nat) (a : Cells 4 × Cells 4) :
    (List.range r).reverse.foldl (fun (c : Cells 4 × Cells 4) i => bwdRound k i c.1 c.2)
      ((List.range r).foldl (fun (c : Cells 4 × Cells 4) i => fwdRound k i c.1 c.2) a) = a := by
  induction r with
  | zero => rfl
  | succ n ih =>
    rw [List.range_succ, List.foldl_append, List.reverse_append, List.foldl_append]
    simp only [List.foldl_cons, List.foldl_nil, List.reverse_cons, List.reverse_nil, List.nil_append]
    rw [bwd_fwd]
    exact ih

theorem fwd_fold_bwd_fold (k : Cells 4) (r : Nat) (a : Cells 4 × Cells 4) :
    (List.range r).foldl (fun (c : Cells 4 × Cells 4) i => fwdRound k i c.1 c.2)
      ((List.range r).reverse.foldl (fun (c : Cells 4 × Cells 4) i => bwdRound k i c.1 c.2) a) = a := by
  induction r generalizing a with
  | zero => rfl
  | succ n ih =>
    rw [List.range_succ, List.reverse_append, List.foldl_append, List.foldl_append]
    simp only [List.foldl_cons, List.foldl_nil, List.reverse_cons, List.reverse_nil, List.nil_append]
    rw [ih, fwd_bwd]

theorem mid_twice (x : Cells 4) :
    subCells Sb0 (mulColumns MM (subCells Sb0 (subCells Sb0 (mulColumns MM (subCells Sb0 x))))) = x := by
  rw [subCells_Sb0_twice, MM_twice, subCells_Sb0_twice]

end SkinnyVerif.Lemmas
