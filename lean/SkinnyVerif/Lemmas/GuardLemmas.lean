/-
What the generated argument guards say, for every 32-bit size: accepted exactly in the
documented ranges.
-/
import SkinnyVerif.Impl.Mantis

namespace SkinnyVerif.Lemmas
open SkinnyVerif SkinnyVerif.Gen SkinnyVerif.Impl

theorem ult_ofNat_left (n c : Nat) (hn : n < 2 ^ 32) (hc : c < 2 ^ 32) :
    BitVec.ult (BitVec.ofNat 32 n) (BitVec.ofNat 32 c) = decide (n < c) := by
  simp [BitVec.ult, BitVec.toNat_ofNat, Nat.mod_eq_of_lt hn, Nat.mod_eq_of_lt hc]

theorem ult_ofNat_right (n c : Nat) (hn : n < 2 ^ 32) (hc : c < 2 ^ 32) :
    BitVec.ult (BitVec.ofNat 32 c) (BitVec.ofNat 32 n) = decide (c < n) := by
  simp [BitVec.ult, BitVec.toNat_ofNat, Nat.mod_eq_of_lt hn, Nat.mod_eq_of_lt hc]

theorem ofNat32_ne (n c : Nat) (hn : n < 2 ^ 32) (hc : c < 2 ^ 32) :
    (BitVec.ofNat 32 n != BitVec.ofNat 32 c) = decide (n ≠ c) := by
  have : (BitVec.ofNat 32 n = BitVec.ofNat 32 c) ↔ n = c := by
    constructor
    · intro h
      have := congrArg BitVec.toNat h
      simpa [BitVec.toNat_ofNat, Nat.mod_eq_of_lt hn, Nat.mod_eq_of_lt hc] using this
    · intro h; rw [h]
  by_cases h : n = c <;> simp [bne, this, h]

/-- `skinny128_set_key`: rejected iff a pointer is null or the size is outside 16..48 -/
theorem guard128_setKey (kn : Bool) (n : Nat) (hn : n < 2 ^ 32) :
    guards128.setKey false kn (BitVec.ofNat 32 n) = (kn || decide (n < 16) || decide (48 < n)) := by
  simp only [guards128, skinny128_set_key_guard, Bool.false_or]
  rw [show (0x10#32 : BitVec 32) = BitVec.ofNat 32 16 from rfl, show (0x30#32 : BitVec 32) = BitVec.ofNat 32 48 from rfl,
    ult_ofNat_left n 16 hn (by decide), ult_ofNat_right n 48 hn (by decide)]

theorem guard128_setTweakedKey (kn : Bool) (n : Nat) (hn : n < 2 ^ 32) :
    guards128.setTweakedKey false kn (BitVec.ofNat 32 n) = (kn || decide (n < 16) || decide (32 < n)) := by
  simp only [guards128, skinny128_set_tweaked_key_guard, Bool.false_or]
  rw [show (0x10#32 : BitVec 32) = BitVec.ofNat 32 16 from rfl, show (0x20#32 : BitVec 32) = BitVec.ofNat 32 32 from rfl,
    ult_ofNat_left n 16 hn (by decide), ult_ofNat_right n 32 hn (by decide)]

theorem guard128_setTweak (tn : Bool) (n : Nat) (hn : n < 2 ^ 32) :
    guards128.setTweak false tn (BitVec.ofNat 32 n) = (decide (n < 1) || decide (16 < n)) := by
  simp only [guards128, skinny128_set_tweak_guard, Bool.false_or]
  rw [show (0x1#32 : BitVec 32) = BitVec.ofNat 32 1 from rfl, show (0x10#32 : BitVec 32) = BitVec.ofNat 32 16 from rfl,
    ult_ofNat_left n 1 hn (by decide), ult_ofNat_right n 16 hn (by decide)]

theorem guard64_setKey (kn : Bool) (n : Nat) (hn : n < 2 ^ 32) :
    guards64.setKey false kn (BitVec.ofNat 32 n) = (kn || decide (n < 8) || decide (24 < n)) := by
  simp only [guards64, skinny64_set_key_guard, Bool.false_or]
  rw [show (0x8#32 : BitVec 32) = BitVec.ofNat 32 8 from rfl, show (0x18#32 : BitVec 32) = BitVec.ofNat 32 24 from rfl,
    ult_ofNat_left n 8 hn (by decide), ult_ofNat_right n 24 hn (by decide)]

theorem guard64_setTweakedKey (kn : Bool) (n : Nat) (hn : n < 2 ^ 32) :
    guards64.setTweakedKey false kn (BitVec.ofNat 32 n) = (kn || decide (n < 8) || decide (16 < n)) := by
  simp only [guards64, skinny64_set_tweaked_key_guard, Bool.false_or]
  rw [show (0x8#32 : BitVec 32) = BitVec.ofNat 32 8 from rfl, show (0x10#32 : BitVec 32) = BitVec.ofNat 32 16 from rfl,
    ult_ofNat_left n 8 hn (by decide), ult_ofNat_right n 16 hn (by decide)]

theorem guard64_setTweak (tn : Bool) (n : Nat) (hn : n < 2 ^ 32) :
    guards64.setTweak false tn (BitVec.ofNat 32 n) = (decide (n < 1) || decide (8 < n)) := by
  simp only [guards64, skinny64_set_tweak_guard, Bool.false_or]
  rw [show (0x1#32 : BitVec 32) = BitVec.ofNat 32 1 from rfl, show (0x8#32 : BitVec 32) = BitVec.ofNat 32 8 from rfl,
    ult_ofNat_left n 1 hn (by decide), ult_ofNat_right n 8 hn (by decide)]

/-- `mantis_set_key`: rejected iff null, size ≠ 16, or rounds outside 5..8 (the mode is not validated) -/
theorem guardMantis_setKey (kn : Bool) (size rounds : Nat) (mode : Int) (hs : size < 2 ^ 32) (hr : rounds < 2 ^ 32) :
    mantisSetKeyGuard false kn size rounds mode = (kn || decide (size ≠ 16) || decide (rounds < 5) || decide (8 < rounds)) := by
  simp only [mantisSetKeyGuard, mantis_set_key_guard, Bool.false_or]
  rw [show (0x10#32 : BitVec 32) = BitVec.ofNat 32 16 from rfl, show (0x5#32 : BitVec 32) = BitVec.ofNat 32 5 from rfl,
    show (0x8#32 : BitVec 32) = BitVec.ofNat 32 8 from rfl,
    ofNat32_ne size 16 hs (by decide), ult_ofNat_left rounds 5 hr (by decide), ult_ofNat_right rounds 8 hr (by decide)]

theorem guardMantis_setTweak (tn : Bool) (size : Nat) (hs : size < 2 ^ 32) :
    mantisSetTweakGuard false tn size = decide (size ≠ 8) := by
  simp only [mantisSetTweakGuard, mantis_set_tweak_guard, Bool.false_or]
  rw [show (0x8#32 : BitVec 32) = BitVec.ofNat 32 8 from rfl, ofNat32_ne size 8 hs (by decide)]

end SkinnyVerif.Lemmas
