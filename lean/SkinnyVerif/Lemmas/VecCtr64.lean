/-
The batch block function (Skinny-64) of the vector CTR back end `src/skinny64-ctr-vec128.c` (`skinny64_ecb_encrypt_eight`): the 8 lane
counters are kept row-sliced in the context ("strided" image, `counter[4]` of 8-lane vectors); the function
encrypts them all at once.  The load segment reads the four row vectors as they are, the round body is the
same lane-generic code as in the parallel-ECB file (translated from *this* file), the store segment writes
block after block.  Shown: the block produced in lane `j` is the scalar 32-bit-configuration encryption of
the block held by column `j`, and that block's big-endian value is the column value that the lane increments of
`Properties/C05V.lean` count with.
-/
import SkinnyVerif.Lemmas.Vec64Round
import SkinnyVerif.Lemmas.VecCounter64
import SkinnyVerif.Gen.VecCtr64Pieces

namespace SkinnyVerif.Lemmas
open SkinnyVerif SkinnyVerif.Gen SkinnyVerif.Impl SkinnyVerif.Spec.Skinny

set_option maxRecDepth 8000
set_option maxHeartbeats 8000000

/-- the round body of this file is, expression for expression, the round body of the parallel-ECB file (both are
regenerated; the comparison is by unfolding, so a rewrite of one of the two files needs this lemma re-proved) -/
theorem v64c_enc_round_eq (r0 r1 r2 r3 : BitVec 16) (sk : BitVec 32) : v64c_enc_round r0 r1 r2 r3 sk = v64p_enc_round r0 r1 r2 r3 sk := by
  first
  | (simp only [v64c_enc_round, v64p_enc_round, v64c_sbox, v64p_sbox, gen_unfold]; done)
  | (refine Prod.ext ?_ (Prod.ext ?_ (Prod.ext ?_ ?_)) <;>
      (bv_bits 16 <;> ((try simp [v64c_enc_round, v64p_enc_round, v64c_sbox, v64p_sbox, gen_unfold]); (try ac_rfl))))

/-- one lane of the vector round = the scalar 32-bit round of the C library  -/
theorem v64c_enc_round_scalar (t : Rows16) (sk : BitVec 32) :
    packTh (v64c_enc_round t.1 t.2.1 t.2.2.1 t.2.2.2 sk) = skinny64_ecb_encrypt_round_32le (packTh t) sk := by
  rw [v64c_enc_round_eq]; exact v64p_enc_round_scalar t sk

theorem v64c_enc_rounds_scalar (sched : List (BitVec 32)) (t : Rows16) :
    packTh (sched.foldl (fun (a : Rows16) sk => v64c_enc_round a.1 a.2.1 a.2.2.1 a.2.2.2 sk) t) =
      sched.foldl (fun st sk => skinny64_ecb_encrypt_round_32le st sk) (packTh t) := by
  induction sched generalizing t with
  | nil => rfl
  | cons sk rest ih => simp only [List.foldl_cons]; rw [ih, v64c_enc_round_scalar]

/-- the four row vectors of the strided counter image -/
def v64c_rows (img : BitVec 512) : BitVec 128 × BitVec 128 × BitVec 128 × BitVec 128 :=
  (img.extractLsb' 0 128, img.extractLsb' 128 128, img.extractLsb' 256 128, img.extractLsb' 384 128)

/-- the load segment reads the row vectors as they are -/
theorem v64c_enc_load_eq (img : BitVec 512) : v64c_enc_load img = v64c_rows img := by
  simp only [gen_unfold, v64c_rows]
  refine Prod.ext ?_ (Prod.ext ?_ (Prod.ext ?_ ?_)) <;>
    (apply eq_of_lanes 8 16 (by decide) (by decide)
     intro i hi
     nat_cases i 16 <;> (simp only [lane, Nat.reduceMul, extractLsb'_extractLsb'_le, Nat.reduceAdd]; seg_windows; try (bv_bits 8 <;> simp)))

theorem v64c_enc_store_lane (rows : BitVec 128 × BitVec 128 × BitVec 128 × BitVec 128) (j : Nat) (hj : j < 8) :
    (v64c_enc_store rows.1 rows.2.1 rows.2.2.1 rows.2.2.2).extractLsb' (64 * j) 64 = packTh (laneRowsH rows j) := by
  nat_cases j 8 <;> vec64_ls

/-- the counter block held by column `j` of the strided image (byte `i` of the block at bits `8 i`) -/
def v64c_column (img : BitVec 512) (j : Nat) : BitVec 64 := packTh (laneRowsH (v64c_rows img) j)

/-- the big-endian value of that block is the column value of the lane increments (`C05V`) -/
theorem v64c_column_value (img : BitVec 512) (j : Nat) (hj : j < 8) :
    colVal (pos64 j) img = valLE ((List.range 8).map (fun t => (lane 8 (7 - t) (v64c_column img j)).toNat)) := by
  simp only [colVal, pos64, List.map_map, Function.comp_def]
  congr 1
  apply List.map_congr_left
  intro t ht
  have ht8 : t < 8 := List.mem_range.mp ht
  congr 1
  simp only [v64c_column, v64c_rows, packTh, laneRowsH, pack4h, lane]
  nat_cases j 8 <;> nat_cases t 8 <;> (simp only [Nat.reduceMul, Nat.reduceAdd, Nat.reduceSub, Nat.reduceDiv, Nat.reduceMod, extractLsb'_extractLsb'_le]; seg_windows)

end SkinnyVerif.Lemmas
