/-
MANTIS leaf lemmas: the row-sliced C helpers (tweak update `h` and inverse, cell permutation
`P` and inverse, MixColumns, bit-sliced Sb0) are the specification's operations on cells
(cell `i` = nibble `i xor 1` of the 8-byte memory image, as for SKINNY-64).
-/
import SkinnyVerif.Lemmas.Leaf64
import SkinnyVerif.Spec.Mantis
import SkinnyVerif.Gen.MantisLeafLanes

namespace SkinnyVerif.Lemmas
open SkinnyVerif SkinnyVerif.Gen SkinnyVerif.Spec.Skinny SkinnyVerif.Spec.Mantis

section forms
variable {s : Nat} (st : Cells s)

set_option maxHeartbeats 1000000 in
theorem permute_h : permute hPerm st =
    #v[st[6], st[5], st[14], st[15], st[0], st[1], st[2], st[3], st[7], st[12], st[13], st[4], st[8], st[9], st[10], st[11]] := by
  apply Vector.ext; intro i hi
  nat_cases i 16 <;> simp [permute, hPerm]

set_option maxHeartbeats 1000000 in
theorem permute_hInv : permute hInv st =
    #v[st[4], st[5], st[6], st[7], st[11], st[1], st[0], st[8], st[12], st[13], st[14], st[15], st[9], st[10], st[2], st[3]] := by
  apply Vector.ext; intro i hi
  nat_cases i 16 <;> simp [permute, hInv]

set_option maxHeartbeats 1000000 in
theorem permute_MP : permute PPerm st =
    #v[st[0], st[11], st[6], st[13], st[10], st[1], st[12], st[7], st[5], st[14], st[3], st[8], st[15], st[4], st[9], st[2]] := by
  apply Vector.ext; intro i hi
  nat_cases i 16 <;> simp [permute, PPerm]

set_option maxHeartbeats 1000000 in
theorem permute_MPinv : permute PInv st =
    #v[st[0], st[5], st[15], st[10], st[13], st[8], st[2], st[7], st[11], st[14], st[4], st[1], st[6], st[3], st[9], st[12]] := by
  apply Vector.ext; intro i hi
  nat_cases i 16 <;> simp [permute, PInv]

set_option maxHeartbeats 1000000 in
theorem mulColumns_MM : mulColumns MM st =
    #v[st[4] ^^^ st[8] ^^^ st[12], st[5] ^^^ st[9] ^^^ st[13], st[6] ^^^ st[10] ^^^ st[14], st[7] ^^^ st[11] ^^^ st[15],
       st[0] ^^^ st[8] ^^^ st[12], st[1] ^^^ st[9] ^^^ st[13], st[2] ^^^ st[10] ^^^ st[14], st[3] ^^^ st[11] ^^^ st[15],
       st[0] ^^^ st[4] ^^^ st[12], st[1] ^^^ st[5] ^^^ st[13], st[2] ^^^ st[6] ^^^ st[14], st[3] ^^^ st[7] ^^^ st[15],
       st[0] ^^^ st[4] ^^^ st[8], st[1] ^^^ st[5] ^^^ st[9], st[2] ^^^ st[6] ^^^ st[10], st[3] ^^^ st[7] ^^^ st[11]] := by
  apply Vector.ext; intro i hi
  nat_cases i 16 <;> simp [mulColumns, MM, rowOf, colOf, cellIx, finRange4]

end forms

theorem mantis_sbox_64_lane_eq : ∀ v, mantis_sbox_64_lane v = Sb0 v := forall_bv_eq _ _ (by decide +kernel)
theorem mantis_sbox_32_lane_eq : ∀ v, mantis_sbox_32_lane v = Sb0 v := forall_bv_eq _ _ (by decide +kernel)
theorem msbox_64_lane : mantis_sbox_64_lane = Sb0 := funext mantis_sbox_64_lane_eq
theorem msbox_32_lane : mantis_sbox_32_lane = Sb0 := funext mantis_sbox_32_lane_eq

set_option maxRecDepth 8000 in
set_option maxHeartbeats 4000000 in
theorem update_tweak_cells (x : BitVec 64) : cells4 (mantis_update_tweak x) = permute hPerm (cells4 x) := by
  apply cells_ext <;>
    (simp [permute_h, cells4_get]
     bv_bits 4 <;> simp [mantis_update_tweak, gen_unfold, lane])

set_option maxRecDepth 8000 in
set_option maxHeartbeats 4000000 in
theorem update_tweak_inverse_cells (x : BitVec 64) : cells4 (mantis_update_tweak_inverse x) = permute hInv (cells4 x) := by
  apply cells_ext <;>
    (simp [permute_hInv, cells4_get]
     bv_bits 4 <;> simp [mantis_update_tweak_inverse, gen_unfold, lane])

set_option maxRecDepth 8000 in
set_option maxHeartbeats 4000000 in
theorem shift_rows_cells (x : BitVec 64) : cells4 (mantis_shift_rows x) = permute PPerm (cells4 x) := by
  apply cells_ext <;>
    (simp [permute_MP, cells4_get]
     bv_bits 4 <;> simp [mantis_shift_rows, gen_unfold, lane])

set_option maxRecDepth 8000 in
set_option maxHeartbeats 4000000 in
theorem shift_rows_inverse_cells (x : BitVec 64) : cells4 (mantis_shift_rows_inverse x) = permute PInv (cells4 x) := by
  apply cells_ext <;>
    (simp [permute_MPinv, cells4_get]
     bv_bits 4 <;> simp [mantis_shift_rows_inverse, gen_unfold, lane])

set_option maxRecDepth 8000 in
set_option maxHeartbeats 4000000 in
theorem mix_columns_cells (x : BitVec 64) : cells4 (mantis_mix_columns x) = mulColumns MM (cells4 x) := by
  apply cells_ext <;>
    (simp [mulColumns_MM, cells4_get]
     bv_bits 4 <;> (simp [mantis_mix_columns, gen_unfold, lane]; try ac_rfl))

theorem sbox_64_cells (x : BitVec 64) : cells4 (mantis_sbox_64 x) = subCells Sb0 (cells4 x) := by
  apply cells_ext <;>
    (simp only [cells4_get, subCells_get, Nat.reduceXor]
     rw [mantis_sbox_64_lanes _ _ (by decide), msbox_64_lane])

theorem cells4_xor (a b : BitVec 64) : cells4 (a ^^^ b) = xorCells (cells4 a) (cells4 b) := by
  apply cells_ext <;> (simp [cells4_get, xorCells_get]; bv_bits 4 <;> simp [lane])

end SkinnyVerif.Lemmas
