/-
Counter arithmetic: the generated `skinny128_inc_counter` / `skinny64_inc_counter` (a byte-wise
carry chain over a `uint16_t` accumulator, unrolled by the translator) add a small number to a
big-endian counter block modulo 2^(8·bs) -- carries through every byte, wrap-around included.
-/
import SkinnyVerif.Basic.BytesLemmas
import SkinnyVerif.Gen.CounterLeafOuts
import SkinnyVerif.Impl.Modes

namespace SkinnyVerif.Lemmas
open SkinnyVerif SkinnyVerif.Gen SkinnyVerif.Impl

/-- carry chain over bytes listed from the least significant one -/
def addChain : List Nat → Nat → List Nat
  | [], _ => []
  | b :: bs, c => (b + c) % 256 :: addChain bs ((b + c) / 256)

def valLE : List Nat → Nat
  | [] => 0
  | b :: bs => b + 256 * valLE bs

theorem addChain_length (l : List Nat) (c : Nat) : (addChain l c).length = l.length := by
  induction l generalizing c with
  | nil => rfl
  | cons b bs ih => simp [addChain, ih]

theorem addChain_val (l : List Nat) (c : Nat) : valLE (addChain l c) = (valLE l + c) % 256 ^ l.length := by
  induction l generalizing c with
  | nil => simp [addChain, valLE, Nat.mod_one]
  | cons b bs ih =>
    simp only [addChain, valLE, ih, List.length_cons]
    have hM : 0 < 256 ^ bs.length := Nat.pow_pos (by decide)
    have h1 : 256 * ((valLE bs + (b + c) / 256) % 256 ^ bs.length) = (256 * (valLE bs + (b + c) / 256)) % (256 * 256 ^ bs.length) :=
      (Nat.mul_mod_mul_left 256 _ _).symm
    have h2 : (b + c) % 256 < 256 := Nat.mod_lt _ (by decide)
    have h3 : 256 ^ (bs.length + 1) = 256 * 256 ^ bs.length := by rw [Nat.pow_succ, Nat.mul_comm]
    rw [h3, h1]
    have h4 : (256 * (valLE bs + (b + c) / 256)) % (256 * 256 ^ bs.length) + (b + c) % 256 < 256 * 256 ^ bs.length := by
      rw [← h1]
      have : (valLE bs + (b + c) / 256) % 256 ^ bs.length < 256 ^ bs.length := Nat.mod_lt _ hM
      have : 256 * ((valLE bs + (b + c) / 256) % 256 ^ bs.length) + 256 ≤ 256 * 256 ^ bs.length := by
        have := Nat.mul_le_mul_left 256 (Nat.succ_le_of_lt this)
        rw [Nat.mul_succ] at this; exact this
      omega
    have h5 : b + 256 * valLE bs + c = 256 * (valLE bs + (b + c) / 256) + (b + c) % 256 := by
      have := Nat.div_add_mod (b + c) 256
      rw [Nat.mul_add]; omega
    have h6 : (b + c) % 256 < 256 * 256 ^ bs.length := by
      have : 256 * 1 ≤ 256 * 256 ^ bs.length := Nat.mul_le_mul_left 256 hM
      omega
    rw [h5, Nat.add_mod (256 * (valLE bs + (b + c) / 256)) ((b + c) % 256), Nat.mod_eq_of_lt h6, Nat.mod_eq_of_lt h4, Nat.add_comm]

/-! stage facts in `toNat` form -/
theorem stage_add_toNat (acc : BitVec 16) (b : BitVec 8) :
    (BitVec.setWidth 16 (BitVec.setWidth 32 acc + BitVec.setWidth 32 b)).toNat = (acc.toNat + b.toNat) % 65536 := by
  have ha := acc.isLt; have hb := b.isLt
  simp only [BitVec.toNat_setWidth, BitVec.toNat_add]
  omega

theorem stage_byte_toNat (v : BitVec 16) : (BitVec.setWidth 8 v).toNat = v.toNat % 256 := by
  simp [BitVec.toNat_setWidth]

theorem stage_carry_toNat (v : BitVec 16) : (BitVec.setWidth 16 (BitVec.setWidth 32 v >>> 8)).toNat = v.toNat / 256 := by
  have hv := v.isLt
  simp only [BitVec.toNat_setWidth, BitVec.toNat_ushiftRight, Nat.shiftRight_eq_div_pow]
  omega

/-- base-256 digits are determined by the value -/
theorem valLE_digit (l : List Nat) (hl : ∀ b ∈ l, b < 256) (j : Nat) (hj : j < l.length) :
    l.getD j 0 = (valLE l >>> (8 * j)) % 256 := by
  induction l generalizing j with
  | nil => simp at hj
  | cons b bs ih =>
    have hb : b < 256 := hl b (by simp)
    cases j with
    | zero => simp only [valLE, List.getD_cons_zero, Nat.mul_zero, Nat.shiftRight_zero]; omega
    | succ j =>
      have h8 : (valLE (b :: bs)) >>> 8 = valLE bs := by
        simp only [valLE, Nat.shiftRight_eq_div_pow]; omega
      have : 8 * (j + 1) = 8 + 8 * j := by omega
      rw [this, Nat.shiftRight_add, h8, List.getD_cons_succ]
      exact ih (fun x hx => hl x (by simp [hx])) j (by simpa using hj)

theorem addChain_lt (l : List Nat) (c : Nat) : ∀ b ∈ addChain l c, b < 256 := by
  induction l generalizing c with
  | nil => simp [addChain]
  | cons x xs ih =>
    intro b hb
    simp only [addChain, List.mem_cons] at hb
    rcases hb with h | h
    · rw [h]; exact Nat.mod_lt _ (by decide)
    · exact ih _ b h

/-- one unrolled step of the generated carry chain, on numbers, when the 16-bit accumulator does not overflow -/
theorem chain_step (acc : BitVec 16) (b : BitVec 8) (h : acc.toNat + b.toNat < 65536) :
    (BitVec.setWidth 8 (BitVec.setWidth 16 (BitVec.setWidth 32 acc + BitVec.setWidth 32 b))).toNat = (b.toNat + acc.toNat) % 256 ∧
    (BitVec.setWidth 16 (BitVec.setWidth 32 (BitVec.setWidth 16 (BitVec.setWidth 32 acc + BitVec.setWidth 32 b)) >>> 8)).toNat = (b.toNat + acc.toNat) / 256 := by
  rw [stage_byte_toNat, stage_carry_toNat, stage_add_toNat, Nat.mod_eq_of_lt h, Nat.add_comm]
  exact ⟨rfl, rfl⟩

/-! ## the generated functions as a recursion over the byte index -/

/-- running sums of the carry chain on numbers: `b j` is the `j`-th byte from the least significant end -/
def sumN (b : Nat → Nat) (k : Nat) : Nat → Nat
  | 0 => k + b 0
  | j + 1 => sumN b k j / 256 + b (j + 1)

theorem sumN_bound (b : Nat → Nat) (k : Nat) (hb : ∀ j, b j < 256) (hk : k ≤ 0xFF00) (j : Nat) : sumN b k j < 65536 := by
  cases j with
  | zero => have := hb 0; simp only [sumN]; omega
  | succ j =>
    have h1 : sumN b k j / 256 + b (j + 1) < 65536 := by
      have hb1 := hb (j + 1)
      have : sumN b k j < 65536 := sumN_bound b k hb hk j
      omega
    exact h1

theorem addChain_getD (b : Nat → Nat) (k n j : Nat) (hj : j < n) :
    (addChain ((List.range n).map b) k).getD j 0 = sumN b k j % 256 := by
  induction n generalizing b k j with
  | zero => omega
  | succ n ih =>
    have hr : (List.range (n + 1)).map b = b 0 :: (List.range n).map (fun i => b (i + 1)) := by
      rw [List.range_succ_eq_map]; simp [List.map_map, Function.comp]
    rw [hr]
    cases j with
    | zero => simp only [addChain, sumN, List.getD_cons_zero, Nat.add_comm]
    | succ j =>
      simp only [addChain, List.getD_cons_succ]
      rw [ih (fun i => b (i + 1)) ((b 0 + k) / 256) j (by omega)]
      congr 1
      -- the running sums shift along
      have hshift : ∀ i, sumN (fun i => b (i + 1)) ((b 0 + k) / 256) i = sumN b k (i + 1) := by
        intro i
        induction i with
        | zero => simp [sumN, Nat.add_comm]
        | succ i ihi => simp only [sumN, ihi]
      exact hshift j

/-- 128-bit counter: accumulator after adding byte `j` (from the least significant end) -/
def vBV128 (x : BitVec 128) (k : BitVec 16) : Nat → BitVec 16
  | 0 => BitVec.setWidth 16 (BitVec.setWidth 32 k + BitVec.setWidth 32 (BitVec.extractLsb' 120 8 x))
  | j + 1 => BitVec.setWidth 16 (BitVec.setWidth 32 (BitVec.setWidth 16 (BitVec.setWidth 32 (vBV128 x k j) >>> 8)) +
      BitVec.setWidth 32 (BitVec.extractLsb' (120 - 8 * (j + 1)) 8 x))

def asm16 (m : Nat → BitVec 8) : BitVec 128 :=
  ((((((((((((((((BitVec.setWidth 128 (m 15)) ||| ((BitVec.setWidth 128 (m 14)) <<< 8)) ||| ((BitVec.setWidth 128 (m 13)) <<< 16)) ||| ((BitVec.setWidth 128 (m 12)) <<< 24)) ||| ((BitVec.setWidth 128 (m 11)) <<< 32)) ||| ((BitVec.setWidth 128 (m 10)) <<< 40)) ||| ((BitVec.setWidth 128 (m 9)) <<< 48)) ||| ((BitVec.setWidth 128 (m 8)) <<< 56)) ||| ((BitVec.setWidth 128 (m 7)) <<< 64)) ||| ((BitVec.setWidth 128 (m 6)) <<< 72)) ||| ((BitVec.setWidth 128 (m 5)) <<< 80)) ||| ((BitVec.setWidth 128 (m 4)) <<< 88)) ||| ((BitVec.setWidth 128 (m 3)) <<< 96)) ||| ((BitVec.setWidth 128 (m 2)) <<< 104)) ||| ((BitVec.setWidth 128 (m 1)) <<< 112)) ||| ((BitVec.setWidth 128 (m 0)) <<< 120))

def vBV64 (x : BitVec 64) (k : BitVec 16) : Nat → BitVec 16
  | 0 => BitVec.setWidth 16 (BitVec.setWidth 32 k + BitVec.setWidth 32 (BitVec.extractLsb' 56 8 x))
  | j + 1 => BitVec.setWidth 16 (BitVec.setWidth 32 (BitVec.setWidth 16 (BitVec.setWidth 32 (vBV64 x k j) >>> 8)) +
      BitVec.setWidth 32 (BitVec.extractLsb' (56 - 8 * (j + 1)) 8 x))

def asm8 (m : Nat → BitVec 8) : BitVec 64 :=
  ((((((((BitVec.setWidth 64 (m 7)) ||| ((BitVec.setWidth 64 (m 6)) <<< 8)) ||| ((BitVec.setWidth 64 (m 5)) <<< 16)) ||| ((BitVec.setWidth 64 (m 4)) <<< 24)) ||| ((BitVec.setWidth 64 (m 3)) <<< 32)) ||| ((BitVec.setWidth 64 (m 2)) <<< 40)) ||| ((BitVec.setWidth 64 (m 1)) <<< 48)) ||| ((BitVec.setWidth 64 (m 0)) <<< 56))

/-- the unrolled generated function is the recursion (definitional unfolding of the translator's stages) -/
theorem inc128_eq (x : BitVec 128) (k : BitVec 16) :
    skinny128_inc_counter x k = asm16 (fun j => BitVec.setWidth 8 (vBV128 x k j)) := by
  rw [skinny128_inc_counter_out0]
  simp only [skinny128_inc_counter.e1, skinny128_inc_counter.e2, skinny128_inc_counter.e3, skinny128_inc_counter.e4, skinny128_inc_counter.e5, skinny128_inc_counter.e6, skinny128_inc_counter.e7, skinny128_inc_counter.e8, skinny128_inc_counter.e9, skinny128_inc_counter.e10, skinny128_inc_counter.e11, skinny128_inc_counter.e12, skinny128_inc_counter.e13, skinny128_inc_counter.e14, skinny128_inc_counter.e15, skinny128_inc_counter.e16, skinny128_inc_counter.e17, skinny128_inc_counter.e18, skinny128_inc_counter.e19, skinny128_inc_counter.e20, skinny128_inc_counter.e21, skinny128_inc_counter.e22, skinny128_inc_counter.e23, skinny128_inc_counter.e24, skinny128_inc_counter.e25, skinny128_inc_counter.e26, skinny128_inc_counter.e27, skinny128_inc_counter.e28, skinny128_inc_counter.e29, skinny128_inc_counter.e30, skinny128_inc_counter.e31, skinny128_inc_counter.e32, skinny128_inc_counter.e33, skinny128_inc_counter.e34, skinny128_inc_counter.e35, skinny128_inc_counter.e36, skinny128_inc_counter.e37, skinny128_inc_counter.e38, skinny128_inc_counter.e39, skinny128_inc_counter.e40, skinny128_inc_counter.e41, skinny128_inc_counter.e42, skinny128_inc_counter.e43, skinny128_inc_counter.e44, skinny128_inc_counter.e45, skinny128_inc_counter.e46, skinny128_inc_counter.e47, skinny128_inc_counter.e49, asm16, vBV128]

theorem inc64_eq (x : BitVec 64) (k : BitVec 16) :
    skinny64_inc_counter x k = asm8 (fun j => BitVec.setWidth 8 (vBV64 x k j)) := by
  rw [skinny64_inc_counter_out0]
  simp only [skinny64_inc_counter.e1, skinny64_inc_counter.e2, skinny64_inc_counter.e3, skinny64_inc_counter.e4, skinny64_inc_counter.e5, skinny64_inc_counter.e6, skinny64_inc_counter.e7, skinny64_inc_counter.e8, skinny64_inc_counter.e9, skinny64_inc_counter.e10, skinny64_inc_counter.e11, skinny64_inc_counter.e12, skinny64_inc_counter.e13, skinny64_inc_counter.e14, skinny64_inc_counter.e15, skinny64_inc_counter.e16, skinny64_inc_counter.e17, skinny64_inc_counter.e18, skinny64_inc_counter.e19, skinny64_inc_counter.e20, skinny64_inc_counter.e21, skinny64_inc_counter.e22, skinny64_inc_counter.e23, skinny64_inc_counter.e25, asm8, vBV64]

set_option maxRecDepth 8000 in
theorem lane_asm16 (m : Nat → BitVec 8) (p : Nat) (hp : p < 16) : lane 8 p (asm16 m) = m (15 - p) := by
  nat_cases p 16 <;> (bv_bits 8 <;> simp [asm16, lane])

set_option maxRecDepth 8000 in
theorem lane_asm8 (m : Nat → BitVec 8) (p : Nat) (hp : p < 8) : lane 8 p (asm8 m) = m (7 - p) := by
  nat_cases p 8 <;> (bv_bits 8 <;> simp [asm8, lane])

/-! ## from the recursion to numbers -/

theorem vBV128_toNat (x : BitVec 128) (k : BitVec 16) (hk : k.toNat ≤ 0xFF00) (j : Nat) (hj : j < 16) :
    (vBV128 x k j).toNat = sumN (fun j => (lane 8 (15 - j) x).toNat) k.toNat j := by
  induction j with
  | zero =>
    have hb : (BitVec.extractLsb' 120 8 x).toNat < 256 := (BitVec.extractLsb' 120 8 x).isLt
    simp only [vBV128, sumN, stage_add_toNat, lane]
    have : k.toNat + (BitVec.extractLsb' 120 8 x).toNat < 65536 := by omega
    simpa [Nat.mod_eq_of_lt this]
  | succ j ih =>
    have ih := ih (by omega)
    have hbound := sumN_bound (fun j => (lane 8 (15 - j) x).toNat) k.toNat (fun j => (lane 8 (15 - j) x).isLt) hk j
    have hoff : 120 - 8 * (j + 1) = 8 * (15 - (j + 1)) := by omega
    simp only [vBV128, sumN, stage_add_toNat, stage_carry_toNat, ih, hoff]
    have hb : (lane 8 (15 - (j + 1)) x).toNat < 256 := (lane 8 (15 - (j + 1)) x).isLt
    have : sumN (fun j => (lane 8 (15 - j) x).toNat) k.toNat j / 256 + (lane 8 (15 - (j + 1)) x).toNat < 65536 := by omega
    simp only [lane] at this ⊢
    rw [Nat.mod_eq_of_lt this]

theorem vBV64_toNat (x : BitVec 64) (k : BitVec 16) (hk : k.toNat ≤ 0xFF00) (j : Nat) (hj : j < 8) :
    (vBV64 x k j).toNat = sumN (fun j => (lane 8 (7 - j) x).toNat) k.toNat j := by
  induction j with
  | zero =>
    have hb : (BitVec.extractLsb' 56 8 x).toNat < 256 := (BitVec.extractLsb' 56 8 x).isLt
    simp only [vBV64, sumN, stage_add_toNat, lane]
    have : k.toNat + (BitVec.extractLsb' 56 8 x).toNat < 65536 := by omega
    simpa [Nat.mod_eq_of_lt this]
  | succ j ih =>
    have ih := ih (by omega)
    have hbound := sumN_bound (fun j => (lane 8 (7 - j) x).toNat) k.toNat (fun j => (lane 8 (7 - j) x).isLt) hk j
    have hoff : 56 - 8 * (j + 1) = 8 * (7 - (j + 1)) := by omega
    simp only [vBV64, sumN, stage_add_toNat, stage_carry_toNat, ih, hoff]
    have hb : (lane 8 (7 - (j + 1)) x).toNat < 256 := (lane 8 (7 - (j + 1)) x).isLt
    have : sumN (fun j => (lane 8 (7 - j) x).toNat) k.toNat j / 256 + (lane 8 (7 - (j + 1)) x).toNat < 65536 := by omega
    simp only [lane] at this ⊢
    rw [Nat.mod_eq_of_lt this]

/-- the base-256 digits of a number, least significant first, have that number as their value -/
theorem valLE_digits (v n : Nat) : valLE ((List.range n).map (fun j => (v >>> (8 * j)) % 256)) = v % 256 ^ n := by
  induction n generalizing v with
  | zero => simp [valLE, Nat.mod_one]
  | succ n ih =>
    have hr : (List.range (n + 1)).map (fun j => (v >>> (8 * j)) % 256) =
        v % 256 :: (List.range n).map (fun j => ((v >>> 8) >>> (8 * j)) % 256) := by
      rw [List.range_succ_eq_map]
      simp only [List.map_cons, List.map_map, Function.comp, Nat.mul_zero, Nat.shiftRight_zero]
      congr 1
      apply List.map_congr_left
      intro j _
      have : 8 * (j + 1) = 8 + 8 * j := by omega
      show (v >>> (8 * (j + 1))) % 256 = _
      rw [this, Nat.shiftRight_add]
    rw [hr]
    have h8 : v >>> 8 = v / 256 := by simp [Nat.shiftRight_eq_div_pow]
    have h3 : 256 ^ (n + 1) = 256 * 256 ^ n := by rw [Nat.pow_succ, Nat.mul_comm]
    show v % 256 + 256 * valLE _ = _
    rw [ih (v >>> 8), h8, h3, Nat.mod_mul]

end SkinnyVerif.Lemmas
