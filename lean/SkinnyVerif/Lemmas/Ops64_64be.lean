/- SKINNY-64, configuration 64be: all generated pieces satisfy `Ops64Correct` -/
import SkinnyVerif.Lemmas.Step64Tac
import SkinnyVerif.Gen.Skinny64PiecesOuts
import SkinnyVerif.Lemmas.Round64Enc_64be
import SkinnyVerif.Lemmas.Round64Dec_64be
import SkinnyVerif.Lemmas.Ops64Load2_64be
import SkinnyVerif.Lemmas.Ops64Load3_64be

namespace SkinnyVerif.Lemmas
open SkinnyVerif SkinnyVerif.Gen SkinnyVerif.Spec.Skinny SkinnyVerif.Impl

set_option maxRecDepth 8000
set_option maxHeartbeats 8000000

theorem o_encLoad_64_64be : ∀ x, (ops64 .c64be).encLoad x = x := by
  intro x; simp only [ops64]; img64_tac 64

theorem o_encStore_64_64be : ∀ x, (ops64 .c64be).encStore x = x := by
  intro x; simp only [ops64]; img64_tac 64

theorem o_decLoad_64_64be : ∀ x, (ops64 .c64be).decLoad x = x := by
  intro x; simp only [ops64]; img64_tac 64

theorem o_decStore_64_64be : ∀ x, (ops64 .c64be).decStore x = x := by
  intro x; simp only [ops64]; img64_tac 64

theorem o_xorTk1Load_64_64be : ∀ x, (ops64 .c64be).xorTk1Load x = x := by
  intro x; simp only [ops64]; img64_tac 64

theorem o_tk1Load_64_64be : ∀ k, (ops64 .c64be).tk1Load k = (k, 0) := by
  intro k; simp only [ops64]; apply Prod.ext
  · simp only [skinny64_set_tk1_load_64be_out0]; img64_tac 64
  · rfl

theorem o_tk1Step0_e_64_64be : ∀ tk rc, top4 ((ops64 .c64be).tk1Step0 tk rc).1 = xorCells (topRows (cells4 tk)) (constTop 4 (rcStep8 rc) 0) := by
  intro tk rc; simp only [ops64, skinny64_set_tk1_step_t0_64be_out0]; step64_tac

theorem o_tk1Step0_tk_64_64be : ∀ tk rc, cells4 ((ops64 .c64be).tk1Step0 tk rc).2.1 = permute PT (cells4 tk) := by
  intro tk rc; simp only [ops64, skinny64_set_tk1_step_t0_64be_out1]; step64_tac

theorem o_tk1Step0_rc_64_64be : ∀ tk rc, ((ops64 .c64be).tk1Step0 tk rc).2.2 = rcStep8 rc := by
  intro tk rc; simp only [ops64, skinny64_set_tk1_step_t0_64be_out2]; img64_tac 8

theorem o_tk1Step1_e_64_64be : ∀ tk rc, top4 ((ops64 .c64be).tk1Step1 tk rc).1 = xorCells (topRows (cells4 tk)) (constTop 4 (rcStep8 rc) 2) := by
  intro tk rc; simp only [ops64, skinny64_set_tk1_step_t1_64be_out0]; step64_tac

theorem o_tk1Step1_tk_64_64be : ∀ tk rc, cells4 ((ops64 .c64be).tk1Step1 tk rc).2.1 = permute PT (cells4 tk) := by
  intro tk rc; simp only [ops64, skinny64_set_tk1_step_t1_64be_out1]; step64_tac

theorem o_tk1Step1_rc_64_64be : ∀ tk rc, ((ops64 .c64be).tk1Step1 tk rc).2.2 = rcStep8 rc := by
  intro tk rc; simp only [ops64, skinny64_set_tk1_step_t1_64be_out2]; img64_tac 8

theorem o_xorTk1Step_e_64_64be : ∀ e tk, top4 ((ops64 .c64be).xorTk1Step e tk).1 = xorCells (top4 e) (topRows (cells4 tk)) := by
  intro e tk; simp only [ops64, skinny64_xor_tk1_step_64be_out0]; step64_tac

theorem o_xorTk1Step_tk_64_64be : ∀ e tk, cells4 ((ops64 .c64be).xorTk1Step e tk).2 = permute PT (cells4 tk) := by
  intro e tk; simp only [ops64, skinny64_xor_tk1_step_64be_out1]; step64_tac

theorem o_tk2Step_e_64_64be : ∀ e tk, top4 ((ops64 .c64be).tk2Step e tk).1 = xorCells (top4 e) (topRows (cells4 tk)) := by
  intro e tk; simp only [ops64, skinny64_set_tk2_step_64be_out0]; step64_tac

theorem o_tk2Step_tk_64_64be : ∀ e tk, cells4 ((ops64 .c64be).tk2Step e tk).2 = mapTop lfsr2_4 (permute PT (cells4 tk)) := by
  intro e tk; simp only [ops64, skinny64_set_tk2_step_64be_out1]; step64_tac

theorem o_tk3Step_e_64_64be : ∀ e tk, top4 ((ops64 .c64be).tk3Step e tk).1 = xorCells (top4 e) (topRows (cells4 tk)) := by
  intro e tk; simp only [ops64, skinny64_set_tk3_step_64be_out0]; step64_tac

theorem o_tk3Step_tk_64_64be : ∀ e tk, cells4 ((ops64 .c64be).tk3Step e tk).2 = mapTop lfsr3_4 (permute PT (cells4 tk)) := by
  intro e tk; simp only [ops64, skinny64_set_tk3_step_64be_out1]; step64_tac

theorem ops64Correct_64be : Ops64Correct (ops64 .c64be) :=
  { encLoad := o_encLoad_64_64be, encStore := o_encStore_64_64be, decLoad := o_decLoad_64_64be, decStore := o_decStore_64_64be,
    encRound := by intro st sk; simp only [ops64]; exact encRound64_64be st sk
    decRound := by intro st sk; simp only [ops64]; exact decRound64_64be st sk
    tk1Load := o_tk1Load_64_64be,
    tk1Step0_e := o_tk1Step0_e_64_64be,
    tk1Step0_tk := o_tk1Step0_tk_64_64be,
    tk1Step0_rc := o_tk1Step0_rc_64_64be,
    tk1Step1_e := o_tk1Step1_e_64_64be,
    tk1Step1_tk := o_tk1Step1_tk_64_64be,
    tk1Step1_rc := o_tk1Step1_rc_64_64be,
    xorTk1Load := o_xorTk1Load_64_64be,
    xorTk1Step_e := o_xorTk1Step_e_64_64be,
    xorTk1Step_tk := o_xorTk1Step_tk_64_64be,
    tk2Step_e := o_tk2Step_e_64_64be,
    tk2Step_tk := o_tk2Step_tk_64_64be,
    tk3Step_e := o_tk3Step_e_64_64be,
    tk3Step_tk := o_tk3Step_tk_64_64be,
    tk2Load := tk2Load64_64be, tk3Load := tk3Load64_64be }

end SkinnyVerif.Lemmas
