/-
The Arduino port, Skinny-128 (portable C++ path of `arduino/libraries/Skinny/Skinny128.cpp`):
every piece translated from the C++ source equals the corresponding piece of the C library's
32-bit little-endian configuration, so the refinement to the specification carries over.
-/
import SkinnyVerif.Lemmas.AllConfigs
import SkinnyVerif.Gen.Arduino128LeafLanes
import SkinnyVerif.Gen.Arduino128PiecesOuts

namespace SkinnyVerif.Lemmas
open SkinnyVerif SkinnyVerif.Gen SkinnyVerif.Impl SkinnyVerif.Spec.Skinny

theorem ard128_sbox_lane_eq : ∀ v, ard128_sbox_lane v = S8 v := forall_bv_eq _ _ (by decide +kernel)
theorem ard128_inv_sbox_lane_eq : ∀ v, ard128_inv_sbox_lane v = S8inv v := forall_bv_eq _ _ (by decide +kernel)
theorem ard128_LFSR2_lane_eq : ∀ v, ard128_LFSR2_lane v = lfsr2_8 v := forall_bv_eq _ _ (by decide +kernel)
theorem ard128_LFSR3_lane_eq : ∀ v, ard128_LFSR3_lane v = lfsr3_8 v := forall_bv_eq _ _ (by decide +kernel)
theorem ard_sbox_lane : ard128_sbox_lane = S8 := funext ard128_sbox_lane_eq
theorem ard_inv_sbox_lane : ard128_inv_sbox_lane = S8inv := funext ard128_inv_sbox_lane_eq
theorem ard_lfsr2_lane : ard128_LFSR2_lane = lfsr2_8 := funext ard128_LFSR2_lane_eq
theorem ard_lfsr3_lane : ard128_LFSR3_lane = lfsr3_8 := funext ard128_LFSR3_lane_eq

/-- bit-by-bit comparison of an Arduino piece with the C library's 32le piece -/
syntax "ard_bits" num : tactic
macro_rules
  | `(tactic| ard_bits $n) => `(tactic|
    (bv_bits $n <;>
      (simp [gen_unfold, lane, extractLsb'_extractLsb'_le,
             skinny128_sbox_32_getElem, skinny128_inv_sbox_32_getElem, skinny128_LFSR2_32_getElem, skinny128_LFSR3_32_getElem,
             ard128_sbox_getElem, ard128_inv_sbox_getElem, ard128_LFSR2_getElem, ard128_LFSR3_getElem,
             sbox128_32_lane, inv_sbox128_32_lane, lfsr2_128_32_lane, lfsr3_128_32_lane,
             ard_sbox_lane, ard_inv_sbox_lane, ard_lfsr2_lane, ard_lfsr3_lane, permute_tk_32_getElem]
       try ac_rfl)))

set_option maxRecDepth 8000
set_option maxHeartbeats 8000000

theorem ard_enc_round_eq (st : BitVec 128) (sk : BitVec 64) : ard128_enc_round st sk = skinny128_ecb_encrypt_round_32le st sk := by
  ard_bits 128


/-- variant for pieces that end with the S-box layer -/
syntax "ard_bits_sbox" num : tactic
macro_rules
  | `(tactic| ard_bits_sbox $n) => `(tactic|
    (bv_bits $n <;>
      (simp [gen_unfold, lane, extractLsb'_extractLsb'_le,
             skinny128_sbox_32_getElem, skinny128_inv_sbox_32_getElem, ard128_sbox_getElem, ard128_inv_sbox_getElem,
             sbox128_32_lane, inv_sbox128_32_lane, ard_sbox_lane, ard_inv_sbox_lane]
       try (apply getElem_congr_fun
            bv_bits 8 <;> (simp; try ac_rfl)))))

theorem ard_dec_round_eq (st : BitVec 128) (sk : BitVec 64) : ard128_dec_round st sk = skinny128_ecb_decrypt_round_32le st sk := by
  ard_bits_sbox 128

theorem ard_tk1_step_t0_eq (tk : BitVec 128) (rc : BitVec 8) : ard128_tk1_step_t0 tk rc = skinny128_set_tk1_step_t0_32le tk rc := by
  refine Prod.ext ?_ (Prod.ext ?_ ?_)
  · ard_bits 64
  · ard_bits 128
  · ard_bits 8

theorem ard_tk1_step_t1_eq (tk : BitVec 128) (rc : BitVec 8) : ard128_tk1_step_t1 tk rc = skinny128_set_tk1_step_t1_32le tk rc := by
  refine Prod.ext ?_ (Prod.ext ?_ ?_)
  · ard_bits 64
  · ard_bits 128
  · ard_bits 8

theorem ard_xor_tk1_step_eq (e : BitVec 64) (tk : BitVec 128) : ard128_xor_tk1_step e tk = skinny128_xor_tk1_step_32le e tk := by
  refine Prod.ext ?_ ?_
  · ard_bits 64
  · ard_bits 128

/-- variant for pieces that end with an LFSR applied to permuted cells -/
syntax "ard_bits_lfsr" num : tactic
macro_rules
  | `(tactic| ard_bits_lfsr $n) => `(tactic|
    (bv_bits $n <;>
      (simp [gen_unfold, lane, extractLsb'_extractLsb'_le,
             skinny128_LFSR2_32_getElem, skinny128_LFSR3_32_getElem, ard128_LFSR2_getElem, ard128_LFSR3_getElem,
             lfsr2_128_32_lane, lfsr3_128_32_lane, ard_lfsr2_lane, ard_lfsr3_lane, permute_tk_32_getElem]
       try (first
            | rfl
            | (apply getElem_congr_fun
               bv_bits 8 <;> (simp [lane, permute_tk_32_getElem, PT, BitVec.getLsbD_eq_getElem]; try (first | rfl | ac_rfl)))))))

theorem ard_tk2_step_eq (e : BitVec 64) (tk : BitVec 128) : ard128_tk2_step e tk = skinny128_set_tk2_step_32le e tk := by
  refine Prod.ext ?_ ?_
  · ard_bits 64
  · ard_bits_lfsr 128

theorem ard_tk3_step_eq (e : BitVec 64) (tk : BitVec 128) : ard128_tk3_step e tk = skinny128_set_tk3_step_32le e tk := by
  refine Prod.ext ?_ ?_
  · ard_bits 64
  · ard_bits_lfsr 128

end SkinnyVerif.Lemmas
