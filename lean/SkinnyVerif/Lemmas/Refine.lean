/-
Block-level refinement, generic in block size and build configuration: with a key schedule
whose entries are the specification's round keys, the implementation's round loops compute the
specification's encryption and decryption (for any number of rounds).
-/
import SkinnyVerif.Lemmas.Schedule

namespace SkinnyVerif.Lemmas
open SkinnyVerif SkinnyVerif.Gen SkinnyVerif.Spec.Skinny SkinnyVerif.Impl

section
variable {b h s : Nat} (A : Abs b h s) (o : SkinnyOps b h) (hc : OpsCorrectG A o)

/-- the image-level part of `ecbEncrypt` / `ecbDecrypt` -/
def encImg (o : SkinnyOps b h) (ks : KeySched h) (x : BitVec b) : BitVec b :=
  o.encStore ((List.range ks.rounds).foldl (fun st i => o.encRound st (ks.sched.getD i 0)) (o.encLoad x))
def decImg (o : SkinnyOps b h) (ks : KeySched h) (x : BitVec b) : BitVec b :=
  o.decStore ((List.range ks.rounds).foldl (fun st i => o.decRound st (ks.sched.getD (ks.rounds - 1 - i) 0)) (o.decLoad x))

omit hc in
theorem ecbEncrypt_eq (p : SkinnyParams) (ks : KeySched h) (input : Bytes) :
    ecbEncrypt o p ks input = bytesOf p.bs (encImg o ks (image b input)) := rfl
omit hc in
theorem ecbDecrypt_eq (p : SkinnyParams) (ks : KeySched h) (input : Bytes) :
    ecbDecrypt o p ks input = bytesOf p.bs (decImg o ks (image b input)) := rfl

/-- the schedule holds the round keys of tweakey `t` with domain constant `dom` -/
def KeyedFor (A : Abs b h s) (ks : KeySched h) (t : Tweakey s) (dom : BitVec s) : Prop :=
  ∀ i, i < ks.rounds → A.rk (ks.sched.getD i 0) = roundKey A.co t dom i

include hc

theorem foldl_rounds (sched : List (BitVec h)) (l : List Nat) (x : BitVec b) (g : Nat → Nat) :
    A.cells (l.foldl (fun st i => o.encRound st (sched.getD (g i) 0)) x) =
      l.foldl (fun st i => round A.co (A.rk (sched.getD (g i) 0)) st) (A.cells x) := by
  induction l generalizing x with
  | nil => rfl
  | cons a l ih => simp only [List.foldl_cons, ih, hc.encRound]

theorem foldl_roundsInv (sched : List (BitVec h)) (l : List Nat) (x : BitVec b) (g : Nat → Nat) :
    A.cells (l.foldl (fun st i => o.decRound st (sched.getD (g i) 0)) x) =
      l.foldl (fun st i => roundInv A.co (A.rk (sched.getD (g i) 0)) st) (A.cells x) := by
  induction l generalizing x with
  | nil => rfl
  | cons a l ih => simp only [List.foldl_cons, ih, hc.decRound]

omit hc in
theorem foldl_congr_mem {α : Type} (l : List Nat) (f g : α → Nat → α) (x : α) (hfg : ∀ i, i ∈ l → ∀ a, f a i = g a i) :
    l.foldl f x = l.foldl g x := by
  induction l generalizing x with
  | nil => rfl
  | cons a l ih =>
    simp only [List.foldl_cons]
    rw [hfg a (by simp)]
    exact ih _ (fun i hi => hfg i (by simp [hi]))

theorem encrypt_refines (ks : KeySched h) (t : Tweakey s) (dom : BitVec s) (hk : KeyedFor A ks t dom) (x : BitVec b) :
    A.cells (encImg o ks x) = encrypt A.co ks.rounds t dom (A.cells x) := by
  simp only [encImg, hc.encStore, hc.encLoad, encrypt]
  rw [foldl_rounds A o hc ks.sched (List.range ks.rounds) x (fun i => i)]
  apply foldl_congr_mem
  intro i hi a
  rw [hk i (List.mem_range.mp hi)]

theorem decrypt_refines (ks : KeySched h) (t : Tweakey s) (dom : BitVec s) (hk : KeyedFor A ks t dom) (x : BitVec b) :
    A.cells (decImg o ks x) = decrypt A.co ks.rounds t dom (A.cells x) := by
  simp only [decImg, hc.decStore, hc.decLoad, decrypt]
  rw [foldl_roundsInv A o hc ks.sched (List.range ks.rounds) x (fun i => ks.rounds - 1 - i)]
  -- reindex: range r mapped by i ↦ r-1-i is the reversed range
  have hrev : ∀ (r : Nat) (F : Cells s → Nat → Cells s) (y : Cells s),
      (List.range r).foldl (fun st i => F st (r - 1 - i)) y = (List.range r).reverse.foldl F y := by
    intro r F y
    have : (List.range r).reverse = (List.range r).map (fun i => r - 1 - i) := by
      apply List.ext_getElem
      · simp
      · intro n h1 h2
        simp at h1 h2 ⊢
    rw [this, List.foldl_map]
  rw [hrev ks.rounds (fun st j => roundInv A.co (A.rk (ks.sched.getD j 0)) st)]
  apply foldl_congr_mem
  intro i hi a
  rw [hk i (List.mem_range.mp (List.mem_reverse.mp hi))]

end
end SkinnyVerif.Lemmas
