/- The 256-bit vector back end of Skinny-128 parallel ECB: all lemmas (see `Vec256Base`) -/
import SkinnyVerif.Lemmas.Vec256Round
import SkinnyVerif.Lemmas.Vec256LoadStore
