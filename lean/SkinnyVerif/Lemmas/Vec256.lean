/- The 256-bit vector back end of Skinny-128 parallel ECB: all lemmas (see `Vec256Base`) -/
import SkinnyVerif.Lemmas.Vec256Round
import SkinnyVerif.Lemmas.Vec256LoadELo
import SkinnyVerif.Lemmas.Vec256LoadEHi
import SkinnyVerif.Lemmas.Vec256LoadDLo
import SkinnyVerif.Lemmas.Vec256LoadDHi
import SkinnyVerif.Lemmas.Vec256StoreELo
import SkinnyVerif.Lemmas.Vec256StoreEHi
import SkinnyVerif.Lemmas.Vec256StoreDLo
import SkinnyVerif.Lemmas.Vec256StoreDHi

namespace SkinnyVerif.Lemmas
open SkinnyVerif SkinnyVerif.Gen SkinnyVerif.Impl SkinnyVerif.Spec.Skinny

theorem v256p_enc_load_lane (input : BitVec 1024) (j : Nat) (hj : j < 8) :
    packT (laneRows8 (v256p_enc_load input) j) = input.extractLsb' (128 * j) 128 := by
  by_cases h : j < 4
  · exact v256p_enc_load_lane_lo input j h
  · obtain ⟨k, rfl⟩ : ∃ k, j = k + 4 := ⟨j - 4, by omega⟩
    exact v256p_enc_load_lane_hi input k (by omega)

theorem v256p_dec_load_lane (input : BitVec 1024) (j : Nat) (hj : j < 8) :
    packT (laneRows8 (v256p_dec_load input) j) = input.extractLsb' (128 * j) 128 := by
  by_cases h : j < 4
  · exact v256p_dec_load_lane_lo input j h
  · obtain ⟨k, rfl⟩ : ∃ k, j = k + 4 := ⟨j - 4, by omega⟩
    exact v256p_dec_load_lane_hi input k (by omega)

theorem v256p_enc_store_lane (rows : BitVec 256 × BitVec 256 × BitVec 256 × BitVec 256) (j : Nat) (hj : j < 8) :
    (v256p_enc_store rows.1 rows.2.1 rows.2.2.1 rows.2.2.2).extractLsb' (128 * j) 128 = packT (laneRows8 rows j) := by
  by_cases h : j < 4
  · exact v256p_enc_store_lane_lo rows j h
  · obtain ⟨k, rfl⟩ : ∃ k, j = k + 4 := ⟨j - 4, by omega⟩
    exact v256p_enc_store_lane_hi rows k (by omega)

theorem v256p_dec_store_lane (rows : BitVec 256 × BitVec 256 × BitVec 256 × BitVec 256) (j : Nat) (hj : j < 8) :
    (v256p_dec_store rows.1 rows.2.1 rows.2.2.1 rows.2.2.2).extractLsb' (128 * j) 128 = packT (laneRows8 rows j) := by
  by_cases h : j < 4
  · exact v256p_dec_store_lane_lo rows j h
  · obtain ⟨k, rfl⟩ : ∃ k, j = k + 4 := ⟨j - 4, by omega⟩
    exact v256p_dec_store_lane_hi rows k (by omega)

end SkinnyVerif.Lemmas
