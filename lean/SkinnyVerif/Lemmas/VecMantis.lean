/-
Mantis vec128 parallel ECB: assembly of the translated pieces into `_mantis_parallel_crypt_vec128` on one group
of eight blocks, and the per-lane view of that assembly.
-/
import SkinnyVerif.Lemmas.VecMantisFwd
import SkinnyVerif.Lemmas.VecMantisMid
import SkinnyVerif.Lemmas.VecMantisBwd
import SkinnyVerif.Lemmas.VecMantisPrePost

namespace SkinnyVerif.Lemmas
open SkinnyVerif SkinnyVerif.Gen SkinnyVerif.Impl

abbrev Rows128 := BitVec 128 × BitVec 128 × BitVec 128 × BitVec 128

/-- the four 16-bit rows of a 64-bit Mantis state image -/
def unpackTh (s : BitVec 64) : Rows16 := (s.extractLsb' 0 16, s.extractLsb' 16 16, s.extractLsb' 32 16, s.extractLsb' 48 16)

set_option maxRecDepth 8000 in
theorem packTh_unpackTh (s : BitVec 64) : packTh (unpackTh s) = s := by
  bv_bits 64 <;> simp [packTh, unpackTh, pack4h_getElem]

theorem unpackTh_packTh (t : Rows16) : unpackTh (packTh t) = t := by
  simp only [unpackTh, packTh, pack4h_row0, pack4h_row1, pack4h_row2, pack4h_row3]

/-- the four row vectors of the image of `MantisVectorCells_t` -/
def rowsOf (x : BitVec 512) : Rows128 := (x.extractLsb' 0 128, x.extractLsb' 128 128, x.extractLsb' 256 128, x.extractLsb' 384 128)
def imageOf (r : Rows128) : BitVec 512 :=
  r.1.setWidth 512 ||| (r.2.1.setWidth 512 <<< 128) ||| (r.2.2.1.setWidth 512 <<< 256) ||| (r.2.2.2.setWidth 512 <<< 384)

theorem rowsOf_imageOf (r : Rows128) : rowsOf (imageOf r) = r := by
  simp only [rowsOf, imageOf]
  refine Prod.ext ?_ (Prod.ext ?_ (Prod.ext ?_ ?_)) <;> seg_windows

/-- the block of lane `j` -/
def laneOf (r : Rows128) (j : Nat) : BitVec 64 := packTh (laneRowsH r j)

theorem laneSt_eq (x : BitVec 512) (j : Nat) (hj : j < 8) : laneSt x j = laneOf (rowsOf x) j := by
  simp only [laneSt, laneOf, packTh, laneRowsH, rowsOf, lane]
  rw [extractLsb'_extractLsb'_le (16 * j) 16 0 128 x (by omega), extractLsb'_extractLsb'_le (16 * j) 16 128 128 x (by omega),
    extractLsb'_extractLsb'_le (16 * j) 16 256 128 x (by omega), extractLsb'_extractLsb'_le (16 * j) 16 384 128 x (by omega)]
  simp only [Nat.zero_add]

/-- element-wise semantics for a piece that takes and returns two vector-cell objects (state, tweak) -/
def zipRowsH (f : Rows16 → Rows16 → Rows16) (s t : Rows128) : Rows128 :=
  (packLanes 16 128 (fun j => (f (laneRowsH s j) (laneRowsH t j)).1) 8, packLanes 16 128 (fun j => (f (laneRowsH s j) (laneRowsH t j)).2.1) 8,
   packLanes 16 128 (fun j => (f (laneRowsH s j) (laneRowsH t j)).2.2.1) 8, packLanes 16 128 (fun j => (f (laneRowsH s j) (laneRowsH t j)).2.2.2) 8)

theorem laneRowsH_zipRowsH (f : Rows16 → Rows16 → Rows16) (s t : Rows128) (j : Nat) (hj : j < 8) :
    laneRowsH (zipRowsH f s t) j = f (laneRowsH s j) (laneRowsH t j) := by
  simp only [laneRowsH, zipRowsH, lane_packLanes 16 128 _ 8 j (by decide), hj, if_true]

/-- a lane function on images, applied to every lane of (state, tweak) -/
def stepAll (g : BitVec 64 → BitVec 64 → BitVec 64 × BitVec 64) (p : Rows128 × Rows128) : Rows128 × Rows128 :=
  (zipRowsH (fun a b => unpackTh (g (packTh a) (packTh b)).1) p.1 p.2, zipRowsH (fun a b => unpackTh (g (packTh a) (packTh b)).2) p.1 p.2)

theorem laneOf_stepAll (g : BitVec 64 → BitVec 64 → BitVec 64 × BitVec 64) (p : Rows128 × Rows128) (j : Nat) (hj : j < 8) :
    (laneOf (stepAll g p).1 j, laneOf (stepAll g p).2 j) = g (laneOf p.1 j) (laneOf p.2 j) := by
  simp only [laneOf, stepAll, laneRowsH_zipRowsH _ _ _ j hj, packTh_unpackTh]

theorem laneOf_foldAll {α : Type} (g : α → BitVec 64 → BitVec 64 → BitVec 64 × BitVec 64) (l : List α) (p : Rows128 × Rows128) (j : Nat) (hj : j < 8) :
    (laneOf (l.foldl (fun acc a => stepAll (g a) acc) p).1 j, laneOf (l.foldl (fun acc a => stepAll (g a) acc) p).2 j) =
      l.foldl (fun (acc : BitVec 64 × BitVec 64) a => g a acc.1 acc.2) (laneOf p.1 j, laneOf p.2 j) := by
  induction l generalizing p with
  | nil => rfl
  | cons a rest ih =>
    simp only [List.foldl_cons]
    rw [ih (stepAll (g a) p), laneOf_stepAll (g a) p j hj]

/-! `_mantis_parallel_crypt_vec128` on one group of eight blocks with their eight tweaks, stage by stage.
`rounds` and the key-schedule image `ks` are what the C function reads from `MantisKey_t`. -/

/-- k1 as loaded by the first segment -/
def vmK1 (ks : BitVec 288) (input tweak : BitVec 512) : BitVec 64 := (vmp_pre input ks tweak).2.2
/-- state and tweak rows after the forward rounds -/
def vmA (ks : BitVec 288) (rounds : Nat) (input tweak : BitVec 512) : Rows128 × Rows128 :=
  (List.range rounds).foldl (fun acc i => stepAll (fun s t => vmp_fwd s t (vmK1 ks input tweak) (vmp_rc.getD i 0)) acc)
    (rowsOf (vmp_pre input ks tweak).1, rowsOf (vmp_pre input ks tweak).2.1)
/-- k1 xor alpha, as computed by the middle section -/
def vmK1' (ks : BitVec 288) (input tweak : BitVec 512) : BitVec 64 := (vmp_mid 0 (vmK1 ks input tweak)).2
/-- state rows after the middle section -/
def vmSt (ks : BitVec 288) (rounds : Nat) (input tweak : BitVec 512) : Rows128 :=
  zipRowsH (fun s _ => unpackTh (vmp_mid (packTh s) (vmK1 ks input tweak)).1) (vmA ks rounds input tweak).1 (vmA ks rounds input tweak).2
/-- state and tweak rows after the backward rounds -/
def vmB (ks : BitVec 288) (rounds : Nat) (input tweak : BitVec 512) : Rows128 × Rows128 :=
  (List.range rounds).foldl (fun acc i => stepAll (fun s t => vmp_bwd s t (vmK1' ks input tweak) (vmp_rc.getD (rounds - 1 - i) 0)) acc)
    (vmSt ks rounds input tweak, (vmA ks rounds input tweak).2)

def vecMantis8 (ks : BitVec 288) (rounds : Nat) (input tweak : BitVec 512) : BitVec 512 :=
  vmp_post (imageOf (vmB ks rounds input tweak).1) (imageOf (vmB ks rounds input tweak).2) (vmK1' ks input tweak) ks

/-- the same pipeline on one block and one tweak (the pieces are lane-generic) -/
def laneMantis (ks : BitVec 288) (rounds : Nat) (inp tw : BitVec 64) : BitVec 64 :=
  let k1 := ks.extractLsb' 128 64
  let a := (List.range rounds).foldl (fun (acc : BitVec 64 × BitVec 64) i => vmp_fwd acc.1 acc.2 k1 (vmp_rc.getD i 0)) ((refPre inp ks tw).1, tw)
  let k1' := (vmp_mid 0 k1).2
  let b := (List.range rounds).foldl (fun (acc : BitVec 64 × BitVec 64) i => vmp_bwd acc.1 acc.2 k1' (vmp_rc.getD (rounds - 1 - i) 0)) ((vmp_mid a.1 k1).1, a.2)
  refPost b.1 b.2 k1' ks

theorem vmK1_eq (ks : BitVec 288) (input tweak : BitVec 512) : vmK1 ks input tweak = ks.extractLsb' 128 64 := vmp_pre_k1 input ks tweak

theorem vmA_lane (ks : BitVec 288) (rounds : Nat) (input tweak : BitVec 512) (j : Nat) (hj : j < 8) :
    (laneOf (vmA ks rounds input tweak).1 j, laneOf (vmA ks rounds input tweak).2 j) =
      (List.range rounds).foldl (fun (acc : BitVec 64 × BitVec 64) i => vmp_fwd acc.1 acc.2 (ks.extractLsb' 128 64) (vmp_rc.getD i 0))
        ((refPre (input.extractLsb' (64 * j) 64) ks (tweak.extractLsb' (64 * j) 64)).1, tweak.extractLsb' (64 * j) 64) := by
  have h := laneOf_foldAll (fun (i : Nat) s t => vmp_fwd s t (vmK1 ks input tweak) (vmp_rc.getD i 0)) (List.range rounds)
    (rowsOf (vmp_pre input ks tweak).1, rowsOf (vmp_pre input ks tweak).2.1) j hj
  simp only [vmA]
  rw [h, ← laneSt_eq _ j hj, ← laneSt_eq _ j hj, vmp_pre_state _ _ _ j hj, vmp_pre_tweak _ _ _ j hj, vmK1_eq]

theorem vmSt_lane (ks : BitVec 288) (rounds : Nat) (input tweak : BitVec 512) (j : Nat) (hj : j < 8) :
    laneOf (vmSt ks rounds input tweak) j = (vmp_mid (laneOf (vmA ks rounds input tweak).1 j) (ks.extractLsb' 128 64)).1 := by
  simp only [vmSt, laneOf, laneRowsH_zipRowsH _ _ _ j hj, packTh_unpackTh, vmK1_eq]

theorem vmB_lane (ks : BitVec 288) (rounds : Nat) (input tweak : BitVec 512) (j : Nat) (hj : j < 8) :
    (laneOf (vmB ks rounds input tweak).1 j, laneOf (vmB ks rounds input tweak).2 j) =
      (List.range rounds).foldl (fun (acc : BitVec 64 × BitVec 64) i => vmp_bwd acc.1 acc.2 (vmp_mid 0 (ks.extractLsb' 128 64)).2 (vmp_rc.getD (rounds - 1 - i) 0))
        ((vmp_mid (laneOf (vmA ks rounds input tweak).1 j) (ks.extractLsb' 128 64)).1, laneOf (vmA ks rounds input tweak).2 j) := by
  have h := laneOf_foldAll (fun (i : Nat) s t => vmp_bwd s t (vmK1' ks input tweak) (vmp_rc.getD (rounds - 1 - i) 0)) (List.range rounds)
    (vmSt ks rounds input tweak, (vmA ks rounds input tweak).2) j hj
  simp only [vmB]
  rw [h, vmSt_lane _ _ _ _ j hj]
  simp only [vmK1', vmK1_eq]

/-- **lane `j` of the vector group is the one-block pipeline on block `j` and tweak `j`** -/
theorem vecMantis8_lane (ks : BitVec 288) (rounds : Nat) (input tweak : BitVec 512) (j : Nat) (hj : j < 8) :
    (vecMantis8 ks rounds input tweak).extractLsb' (64 * j) 64 = laneMantis ks rounds (input.extractLsb' (64 * j) 64) (tweak.extractLsb' (64 * j) 64) := by
  simp only [vecMantis8]
  rw [vmp_post_lane _ _ _ _ j hj, laneSt_eq _ j hj, laneSt_eq _ j hj, rowsOf_imageOf, rowsOf_imageOf]
  have hB := vmB_lane ks rounds input tweak j hj
  have hA := vmA_lane ks rounds input tweak j hj
  have hB1 := congrArg Prod.fst hB
  have hB2 := congrArg Prod.snd hB
  have hA1 := congrArg Prod.fst hA
  have hA2 := congrArg Prod.snd hA
  simp only at hB1 hB2 hA1 hA2
  rw [hB1, hB2, hA1, hA2]
  simp only [laneMantis, vmK1', vmK1_eq]

end SkinnyVerif.Lemmas
