/- Mantis vec128 parallel ECB: the lane-generic backward round is the reference backward round -/
import SkinnyVerif.Lemmas.VecMantisBase

namespace SkinnyVerif.Lemmas
open SkinnyVerif SkinnyVerif.Gen SkinnyVerif.Impl

set_option maxRecDepth 8000
set_option maxHeartbeats 8000000

theorem vmp_bwd_ref (st tk k1 r : BitVec 64) : vmp_bwd st tk k1 r = refBwd st tk k1 r := by
  refine Prod.ext ?_ ?_
  · vmantis_bits_sbox
  · vmantis_bits

end SkinnyVerif.Lemmas
