/- Mantis vec128 parallel ECB: the lane-generic forward round is the reference forward round -/
import SkinnyVerif.Lemmas.VecMantisBase

namespace SkinnyVerif.Lemmas
open SkinnyVerif SkinnyVerif.Gen SkinnyVerif.Impl

set_option maxRecDepth 8000
set_option maxHeartbeats 8000000

theorem vmp_fwd_ref (st tk k1 r : BitVec 64) : vmp_fwd st tk k1 r = refFwd st tk k1 r := by
  refine Prod.ext ?_ ?_ <;> vmantis_bits

end SkinnyVerif.Lemmas
