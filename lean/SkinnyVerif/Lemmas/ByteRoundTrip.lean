/- Byte strings of block length and cell vectors are in bijection through the byte interface. -/
import SkinnyVerif.Lemmas.ByteCells

namespace SkinnyVerif.Lemmas
open SkinnyVerif SkinnyVerif.Spec.Skinny

theorem image_bytesOf_128 (x : BitVec 128) : image 128 (bytesOf 16 x) = x := by
  apply eq_of_lanes 8 16 (by decide) (by decide)
  intro i hi
  rw [lane8_image 128 _ i (by omega), bytesOf_lanes]
  have h : ((List.range 16).map fun i => UInt8.ofNat (lane 8 i x).toNat).getD i 0 = UInt8.ofNat (lane 8 i x).toNat := by
    rw [List.getD_eq_getElem?_getD, List.getElem?_map, List.getElem?_range hi]; rfl
  rw [h]
  apply BitVec.eq_of_toNat_eq
  have : (lane 8 i x).toNat < 256 := (lane 8 i x).isLt
  simp [UInt8.toNat_ofNat, Nat.mod_eq_of_lt this]

theorem image_bytesOf_64 (x : BitVec 64) : image 64 (bytesOf 8 x) = x := by
  apply eq_of_lanes 8 8 (by decide) (by decide)
  intro i hi
  rw [lane8_image 64 _ i (by omega), bytesOf_lanes]
  have h : ((List.range 8).map fun i => UInt8.ofNat (lane 8 i x).toNat).getD i 0 = UInt8.ofNat (lane 8 i x).toNat := by
    rw [List.getD_eq_getElem?_getD, List.getElem?_map, List.getElem?_range hi]; rfl
  rw [h]
  apply BitVec.eq_of_toNat_eq
  have : (lane 8 i x).toNat < 256 := (lane 8 i x).isLt
  simp [UInt8.toNat_ofNat, Nat.mod_eq_of_lt this]

/-- a byte string of exactly `n` bytes is recovered from its image -/
theorem bytesOf_image (w n : Nat) (l : Bytes) (hl : l.length = n) (hw : 8 * n ≤ w) : bytesOf n (image w l) = l := by
  rw [bytesOf_lanes]
  apply List.ext_getElem
  · simp [hl]
  · intro i h1 h2
    simp only [List.getElem_map, List.getElem_range]
    have hi : i < n := by simpa using h1
    rw [lane8_image w l i (by omega)]
    have : l.getD i 0 = l[i] := by rw [List.getD_eq_getElem?_getD, List.getElem?_eq_getElem h2]; rfl
    rw [this]
    have hb : (l[i]).toNat < 256 := (l[i]).toNat_lt
    simp [BitVec.toNat_ofNat, Nat.mod_eq_of_lt hb]

end SkinnyVerif.Lemmas
