/-
SKINNY-128 leaf lemmas that are not lane-wise: the tweakey permutation (both C variants) is the
specification's `PT` on cells; bit-level form for use inside larger proofs.
-/
import SkinnyVerif.Lemmas.OpsCorrect
import SkinnyVerif.Gen.Skinny128LeafOuts

namespace SkinnyVerif.Lemmas
open SkinnyVerif SkinnyVerif.Gen SkinnyVerif.Spec.Skinny

/-- bit `j` of the image of a function that permutes cells -/
theorem getElem_of_cells8_perm (f : BitVec 128 → BitVec 128) (p : Vector (Fin 16) 16)
    (h : ∀ x, cells8 (f x) = permute p (cells8 x)) (x : BitVec 128) (j : Nat) (hj : j < 128) :
    (f x)[j] = (lane 8 (p[j / 8]'(by omega)).val x)[j % 8]'(Nat.mod_lt _ (by decide)) := by
  have hi : j / 8 < 16 := by omega
  have h1 := congrArg (fun v => (v[j / 8]'hi).getLsbD (j % 8)) (h x)
  have hm : j % 8 < 8 := Nat.mod_lt _ (by decide)
  have hjk : 8 * (j / 8) + j % 8 = j := Nat.div_add_mod j 8
  simp only [cells8_get, getLsbD_lane, hm, decide_true, Bool.true_and, hjk] at h1
  rw [← BitVec.getLsbD_eq_getElem hj, h1, ← BitVec.getLsbD_eq_getElem]
  simp [permute, cells8]

set_option maxRecDepth 8000 in
set_option maxHeartbeats 4000000 in
theorem permute_tk_64le_cells (tk : BitVec 128) : cells8 (skinny128_permute_tk_64le tk) = permute PT (cells8 tk) := by
  apply cells_ext <;>
    (simp [permute_PT, cells8_get]
     bv_bits 8 <;> simp [skinny128_permute_tk_64le, gen_unfold, lane])

set_option maxRecDepth 8000 in
set_option maxHeartbeats 4000000 in
theorem permute_tk_32_cells (tk : BitVec 128) : cells8 (skinny128_permute_tk_32 tk) = permute PT (cells8 tk) := by
  apply cells_ext <;>
    (simp [permute_PT, cells8_get]
     bv_bits 8 <;> simp [skinny128_permute_tk_32, gen_unfold, lane])

theorem permute_tk_64le_getElem (tk : BitVec 128) (j : Nat) (hj : j < 128) :
    (skinny128_permute_tk_64le tk)[j] = (lane 8 (PT[j / 8]'(by omega)).val tk)[j % 8]'(Nat.mod_lt _ (by decide)) :=
  getElem_of_cells8_perm _ PT permute_tk_64le_cells tk j hj

theorem permute_tk_32_getElem (tk : BitVec 128) (j : Nat) (hj : j < 128) :
    (skinny128_permute_tk_32 tk)[j] = (lane 8 (PT[j / 8]'(by omega)).val tk)[j % 8]'(Nat.mod_lt _ (by decide)) :=
  getElem_of_cells8_perm _ PT permute_tk_32_cells tk j hj

end SkinnyVerif.Lemmas
