/- SKINNY-128, configuration 64be: the size-specialised TK3 loaders zero-pad the key bytes (no truncation, no uninitialised rows) -/
import SkinnyVerif.Lemmas.OpsCorrect
import SkinnyVerif.Gen.Skinny128PiecesOuts

namespace SkinnyVerif.Lemmas
open SkinnyVerif SkinnyVerif.Gen SkinnyVerif.Spec.Skinny SkinnyVerif.Impl

set_option maxRecDepth 8000 in
set_option maxHeartbeats 32000000 in
theorem tk3Load128_64be : ∀ k junk key, 1 ≤ k → k ≤ 16 → (ops128 .c64be).tk3Load k junk key = key &&& BitVec.ofNat 128 (2 ^ (8 * k) - 1) := by
  intro k junk key h1 h2
  simp only [ops128]
  nat_cases k 17
  · omega
  all_goals (simp only [skinny128_set_tk3_load_64be]; bv_bits 128 <;> simp [gen_unfold])

end SkinnyVerif.Lemmas
