/- Skinny-128 vec256 parallel ECB: one lane of the vector round = the scalar 32-bit round -/
import SkinnyVerif.Lemmas.Vec256Base

namespace SkinnyVerif.Lemmas
open SkinnyVerif SkinnyVerif.Gen SkinnyVerif.Impl SkinnyVerif.Spec.Skinny

set_option maxRecDepth 8000
set_option maxHeartbeats 8000000

/-- the vector encryption round of the 256-bit file, written with its S-box leaf -/
def refVEnc8 (r0 r1 r2 r3 : BitVec 32) (sk : BitVec 64) : BitVec 32 × BitVec 32 × BitVec 32 × BitVec 32 :=
  let a0 := v256p_sbox r0 ^^^ sk.extractLsb' 0 32
  let a1 := v256p_sbox r1 ^^^ sk.extractLsb' 32 32
  let a2 := v256p_sbox r2 ^^^ 0x2#32
  let b1 := rotl32 a1 8
  let b2 := rotl32 a2 16
  let b3 := rotl32 (v256p_sbox r3) 24
  (b3 ^^^ (b2 ^^^ a0), a0, b1 ^^^ b2, b2 ^^^ a0)


theorem v256p_enc_round_ref (r0 r1 r2 r3 : BitVec 32) (sk : BitVec 64) : v256p_enc_round r0 r1 r2 r3 sk = refVEnc8 r0 r1 r2 r3 sk := by
  first
  | (simp only [v256p_enc_round, refVEnc8, v256p_sbox, rotl32, gen_unfold]; done)
  | (refine Prod.ext ?_ (Prod.ext ?_ (Prod.ext ?_ ?_)) <;>
      (bv_bits 32 <;> ((try simp [v256p_enc_round, refVEnc8, v256p_sbox, rotl32, gen_unfold]); (try ac_rfl))))

def refVDec8 (r0 r1 r2 r3 : BitVec 32) (sk : BitVec 64) : BitVec 32 × BitVec 32 × BitVec 32 × BitVec 32 :=
  let n2 := r3 ^^^ r1
  let n1 := r2 ^^^ n2
  let n3 := r0 ^^^ r3
  (v256p_inv_sbox (r1 ^^^ sk.extractLsb' 0 32), v256p_inv_sbox (rotl32 n1 24 ^^^ sk.extractLsb' 32 32),
   v256p_inv_sbox (rotl32 n2 16 ^^^ 0x2#32), v256p_inv_sbox (rotl32 n3 8))

theorem v256p_dec_round_ref (r0 r1 r2 r3 : BitVec 32) (sk : BitVec 64) : v256p_dec_round r0 r1 r2 r3 sk = refVDec8 r0 r1 r2 r3 sk := by
  first
  | (simp only [v256p_dec_round, refVDec8, v256p_inv_sbox, rotl32, gen_unfold]; done)
  | (refine Prod.ext ?_ (Prod.ext ?_ (Prod.ext ?_ ?_)) <;>
      (bv_bits 32 <;> ((try simp [v256p_dec_round, refVDec8, v256p_inv_sbox, rotl32, gen_unfold]); (try ac_rfl))))

syntax "vec8_bits" num : tactic
macro_rules
  | `(tactic| vec8_bits $n) => `(tactic|
    (bv_bits $n <;>
      (simp [gen_unfold, pack4_getElem, pack4_row0, pack4_row1, pack4_row2, pack4_row3, pack4_byte0, pack4_byte1, pack4_byte2, pack4_byte3, pack4_byte4, pack4_byte5, pack4_byte6, pack4_byte7, pack4_byte8, pack4_byte9, pack4_byte10, pack4_byte11, pack4_byte12, pack4_byte13, pack4_byte14, pack4_byte15, refVEnc8, refVDec8, rotl32, lane, extractLsb'_extractLsb'_le,
             skinny128_sbox_32_getElem, skinny128_inv_sbox_32_getElem, v256p_sbox_getElem, v256p_inv_sbox_getElem,
             sbox128_32_lane, inv_sbox128_32_lane, v256p_sbox_lane', v256p_inv_sbox_lane']
       try (first
            | ac_rfl
            | (apply getElem_congr_fun
               bv_bits 8 <;> (simp [lane]; try ac_rfl))))))

theorem refVEnc8_scalar (r0 r1 r2 r3 : BitVec 32) (sk : BitVec 64) :
    pack4 (refVEnc8 r0 r1 r2 r3 sk).1 (refVEnc8 r0 r1 r2 r3 sk).2.1 (refVEnc8 r0 r1 r2 r3 sk).2.2.1 (refVEnc8 r0 r1 r2 r3 sk).2.2.2 =
      skinny128_ecb_encrypt_round_32le (pack4 r0 r1 r2 r3) sk := by
  vec8_bits 128

theorem refVDec8_scalar (r0 r1 r2 r3 : BitVec 32) (sk : BitVec 64) :
    pack4 (refVDec8 r0 r1 r2 r3 sk).1 (refVDec8 r0 r1 r2 r3 sk).2.1 (refVDec8 r0 r1 r2 r3 sk).2.2.1 (refVDec8 r0 r1 r2 r3 sk).2.2.2 =
      skinny128_ecb_decrypt_round_32le (pack4 r0 r1 r2 r3) sk := by
  vec8_bits 128

/-- **one lane of the 256-bit vector encryption round = the scalar 32-bit round of the C library** -/
theorem v256p_enc_round_scalar (t : BitVec 32 × BitVec 32 × BitVec 32 × BitVec 32) (sk : BitVec 64) :
    packT (v256p_enc_round t.1 t.2.1 t.2.2.1 t.2.2.2 sk) = skinny128_ecb_encrypt_round_32le (packT t) sk := by
  rw [v256p_enc_round_ref]; exact refVEnc8_scalar _ _ _ _ sk

theorem v256p_dec_round_scalar (t : BitVec 32 × BitVec 32 × BitVec 32 × BitVec 32) (sk : BitVec 64) :
    packT (v256p_dec_round t.1 t.2.1 t.2.2.1 t.2.2.2 sk) = skinny128_ecb_decrypt_round_32le (packT t) sk := by
  rw [v256p_dec_round_ref]; exact refVDec8_scalar _ _ _ _ sk

theorem v256p_enc_rounds_scalar (sched : List (BitVec 64)) (t : BitVec 32 × BitVec 32 × BitVec 32 × BitVec 32) :
    packT (sched.foldl (fun (a : BitVec 32 × BitVec 32 × BitVec 32 × BitVec 32) sk => v256p_enc_round a.1 a.2.1 a.2.2.1 a.2.2.2 sk) t) =
      sched.foldl (fun st sk => skinny128_ecb_encrypt_round_32le st sk) (packT t) := by
  induction sched generalizing t with
  | nil => rfl
  | cons sk rest ih => simp only [List.foldl_cons]; rw [ih, v256p_enc_round_scalar]

theorem v256p_dec_rounds_scalar (sched : List (BitVec 64)) (t : BitVec 32 × BitVec 32 × BitVec 32 × BitVec 32) :
    packT (sched.foldl (fun (a : BitVec 32 × BitVec 32 × BitVec 32 × BitVec 32) sk => v256p_dec_round a.1 a.2.1 a.2.2.1 a.2.2.2 sk) t) =
      sched.foldl (fun st sk => skinny128_ecb_decrypt_round_32le st sk) (packT t) := by
  induction sched generalizing t with
  | nil => rfl
  | cons sk rest ih => simp only [List.foldl_cons]; rw [ih, v256p_dec_round_scalar]


end SkinnyVerif.Lemmas
