/-
Lane increments of `src/skinny128-ctr-vec256.c` (regenerated as `v256c_inc_<column>` on every run): lane by lane,
each translated function is the byte-wise carry chain over the lanes of its column and leaves every
other byte of the strided counter image alone.  (Generated once by a script; the byte positions are
the layout formula of the strided image, not read off the code.)
-/
import SkinnyVerif.Lemmas.VecCounterBase
import SkinnyVerif.Basic.Segments
import SkinnyVerif.Gen.VecCounterLeaf

namespace SkinnyVerif.Lemmas
open SkinnyVerif SkinnyVerif.Gen

/-- byte lanes of column `c` in the strided counter image, least significant byte first -/
def pos256 (c : Nat) : List Nat := (List.range 16).map (fun j => ((15 - j) / 4) * 32 + c * 4 + (15 - j) % 4)

local macro "gen_acc " c:ident p:num : tactic => `(tactic| generalize (_ + BitVec.setWidth 32 (BitVec.extractLsb' $p 8 $c)) = a)

set_option maxRecDepth 20000
set_option maxHeartbeats 4000000

theorem v256c_inc_0_lanes (counter : BitVec 1024) (inc : BitVec 32) (q : Nat) (hq : q < 128) :
    lane 8 q (v256c_inc_0 counter inc) = chainLane counter (pos256 0) inc q := by
  have hp : pos256 0 = [99, 98, 97, 96, 67, 66, 65, 64, 35, 34, 33, 32, 3, 2, 1, 0] := by decide
  rw [hp]
  simp only [gen_unfold, chainLane, List.map, accs, lane, Nat.reduceMul, List.length_cons, List.length_nil, Nat.reduceAdd]
  gen_acc counter 792; gen_acc counter 784; gen_acc counter 776; gen_acc counter 768; gen_acc counter 536; gen_acc counter 528; gen_acc counter 520; gen_acc counter 512; gen_acc counter 280; gen_acc counter 272; gen_acc counter 264; gen_acc counter 256; gen_acc counter 24; gen_acc counter 16; gen_acc counter 8; gen_acc counter 0
  nat_cases q 128 <;>
    (simp only [List.idxOf_cons, List.idxOf_nil, List.getD_cons_zero, List.getD_cons_succ, Nat.reduceBEq, Nat.reduceAdd, Nat.reduceLT, cond_false, cond_true, if_true, if_false, Nat.zero_add, Nat.reduceMul]
     seg_windows)

theorem v256c_inc_1_lanes (counter : BitVec 1024) (inc : BitVec 32) (q : Nat) (hq : q < 128) :
    lane 8 q (v256c_inc_1 counter inc) = chainLane counter (pos256 1) inc q := by
  have hp : pos256 1 = [103, 102, 101, 100, 71, 70, 69, 68, 39, 38, 37, 36, 7, 6, 5, 4] := by decide
  rw [hp]
  simp only [gen_unfold, chainLane, List.map, accs, lane, Nat.reduceMul, List.length_cons, List.length_nil, Nat.reduceAdd]
  gen_acc counter 824; gen_acc counter 816; gen_acc counter 808; gen_acc counter 800; gen_acc counter 568; gen_acc counter 560; gen_acc counter 552; gen_acc counter 544; gen_acc counter 312; gen_acc counter 304; gen_acc counter 296; gen_acc counter 288; gen_acc counter 56; gen_acc counter 48; gen_acc counter 40; gen_acc counter 32
  nat_cases q 128 <;>
    (simp only [List.idxOf_cons, List.idxOf_nil, List.getD_cons_zero, List.getD_cons_succ, Nat.reduceBEq, Nat.reduceAdd, Nat.reduceLT, cond_false, cond_true, if_true, if_false, Nat.zero_add, Nat.reduceMul]
     seg_windows)

theorem v256c_inc_2_lanes (counter : BitVec 1024) (inc : BitVec 32) (q : Nat) (hq : q < 128) :
    lane 8 q (v256c_inc_2 counter inc) = chainLane counter (pos256 2) inc q := by
  have hp : pos256 2 = [107, 106, 105, 104, 75, 74, 73, 72, 43, 42, 41, 40, 11, 10, 9, 8] := by decide
  rw [hp]
  simp only [gen_unfold, chainLane, List.map, accs, lane, Nat.reduceMul, List.length_cons, List.length_nil, Nat.reduceAdd]
  gen_acc counter 856; gen_acc counter 848; gen_acc counter 840; gen_acc counter 832; gen_acc counter 600; gen_acc counter 592; gen_acc counter 584; gen_acc counter 576; gen_acc counter 344; gen_acc counter 336; gen_acc counter 328; gen_acc counter 320; gen_acc counter 88; gen_acc counter 80; gen_acc counter 72; gen_acc counter 64
  nat_cases q 128 <;>
    (simp only [List.idxOf_cons, List.idxOf_nil, List.getD_cons_zero, List.getD_cons_succ, Nat.reduceBEq, Nat.reduceAdd, Nat.reduceLT, cond_false, cond_true, if_true, if_false, Nat.zero_add, Nat.reduceMul]
     seg_windows)

theorem v256c_inc_3_lanes (counter : BitVec 1024) (inc : BitVec 32) (q : Nat) (hq : q < 128) :
    lane 8 q (v256c_inc_3 counter inc) = chainLane counter (pos256 3) inc q := by
  have hp : pos256 3 = [111, 110, 109, 108, 79, 78, 77, 76, 47, 46, 45, 44, 15, 14, 13, 12] := by decide
  rw [hp]
  simp only [gen_unfold, chainLane, List.map, accs, lane, Nat.reduceMul, List.length_cons, List.length_nil, Nat.reduceAdd]
  gen_acc counter 888; gen_acc counter 880; gen_acc counter 872; gen_acc counter 864; gen_acc counter 632; gen_acc counter 624; gen_acc counter 616; gen_acc counter 608; gen_acc counter 376; gen_acc counter 368; gen_acc counter 360; gen_acc counter 352; gen_acc counter 120; gen_acc counter 112; gen_acc counter 104; gen_acc counter 96
  nat_cases q 128 <;>
    (simp only [List.idxOf_cons, List.idxOf_nil, List.getD_cons_zero, List.getD_cons_succ, Nat.reduceBEq, Nat.reduceAdd, Nat.reduceLT, cond_false, cond_true, if_true, if_false, Nat.zero_add, Nat.reduceMul]
     seg_windows)

theorem v256c_inc_4_lanes (counter : BitVec 1024) (inc : BitVec 32) (q : Nat) (hq : q < 128) :
    lane 8 q (v256c_inc_4 counter inc) = chainLane counter (pos256 4) inc q := by
  have hp : pos256 4 = [115, 114, 113, 112, 83, 82, 81, 80, 51, 50, 49, 48, 19, 18, 17, 16] := by decide
  rw [hp]
  simp only [gen_unfold, chainLane, List.map, accs, lane, Nat.reduceMul, List.length_cons, List.length_nil, Nat.reduceAdd]
  gen_acc counter 920; gen_acc counter 912; gen_acc counter 904; gen_acc counter 896; gen_acc counter 664; gen_acc counter 656; gen_acc counter 648; gen_acc counter 640; gen_acc counter 408; gen_acc counter 400; gen_acc counter 392; gen_acc counter 384; gen_acc counter 152; gen_acc counter 144; gen_acc counter 136; gen_acc counter 128
  nat_cases q 128 <;>
    (simp only [List.idxOf_cons, List.idxOf_nil, List.getD_cons_zero, List.getD_cons_succ, Nat.reduceBEq, Nat.reduceAdd, Nat.reduceLT, cond_false, cond_true, if_true, if_false, Nat.zero_add, Nat.reduceMul]
     seg_windows)

theorem v256c_inc_5_lanes (counter : BitVec 1024) (inc : BitVec 32) (q : Nat) (hq : q < 128) :
    lane 8 q (v256c_inc_5 counter inc) = chainLane counter (pos256 5) inc q := by
  have hp : pos256 5 = [119, 118, 117, 116, 87, 86, 85, 84, 55, 54, 53, 52, 23, 22, 21, 20] := by decide
  rw [hp]
  simp only [gen_unfold, chainLane, List.map, accs, lane, Nat.reduceMul, List.length_cons, List.length_nil, Nat.reduceAdd]
  gen_acc counter 952; gen_acc counter 944; gen_acc counter 936; gen_acc counter 928; gen_acc counter 696; gen_acc counter 688; gen_acc counter 680; gen_acc counter 672; gen_acc counter 440; gen_acc counter 432; gen_acc counter 424; gen_acc counter 416; gen_acc counter 184; gen_acc counter 176; gen_acc counter 168; gen_acc counter 160
  nat_cases q 128 <;>
    (simp only [List.idxOf_cons, List.idxOf_nil, List.getD_cons_zero, List.getD_cons_succ, Nat.reduceBEq, Nat.reduceAdd, Nat.reduceLT, cond_false, cond_true, if_true, if_false, Nat.zero_add, Nat.reduceMul]
     seg_windows)

theorem v256c_inc_6_lanes (counter : BitVec 1024) (inc : BitVec 32) (q : Nat) (hq : q < 128) :
    lane 8 q (v256c_inc_6 counter inc) = chainLane counter (pos256 6) inc q := by
  have hp : pos256 6 = [123, 122, 121, 120, 91, 90, 89, 88, 59, 58, 57, 56, 27, 26, 25, 24] := by decide
  rw [hp]
  simp only [gen_unfold, chainLane, List.map, accs, lane, Nat.reduceMul, List.length_cons, List.length_nil, Nat.reduceAdd]
  gen_acc counter 984; gen_acc counter 976; gen_acc counter 968; gen_acc counter 960; gen_acc counter 728; gen_acc counter 720; gen_acc counter 712; gen_acc counter 704; gen_acc counter 472; gen_acc counter 464; gen_acc counter 456; gen_acc counter 448; gen_acc counter 216; gen_acc counter 208; gen_acc counter 200; gen_acc counter 192
  nat_cases q 128 <;>
    (simp only [List.idxOf_cons, List.idxOf_nil, List.getD_cons_zero, List.getD_cons_succ, Nat.reduceBEq, Nat.reduceAdd, Nat.reduceLT, cond_false, cond_true, if_true, if_false, Nat.zero_add, Nat.reduceMul]
     seg_windows)

theorem v256c_inc_7_lanes (counter : BitVec 1024) (inc : BitVec 32) (q : Nat) (hq : q < 128) :
    lane 8 q (v256c_inc_7 counter inc) = chainLane counter (pos256 7) inc q := by
  have hp : pos256 7 = [127, 126, 125, 124, 95, 94, 93, 92, 63, 62, 61, 60, 31, 30, 29, 28] := by decide
  rw [hp]
  simp only [gen_unfold, chainLane, List.map, accs, lane, Nat.reduceMul, List.length_cons, List.length_nil, Nat.reduceAdd]
  gen_acc counter 1016; gen_acc counter 1008; gen_acc counter 1000; gen_acc counter 992; gen_acc counter 760; gen_acc counter 752; gen_acc counter 744; gen_acc counter 736; gen_acc counter 504; gen_acc counter 496; gen_acc counter 488; gen_acc counter 480; gen_acc counter 248; gen_acc counter 240; gen_acc counter 232; gen_acc counter 224
  nat_cases q 128 <;>
    (simp only [List.idxOf_cons, List.idxOf_nil, List.getD_cons_zero, List.getD_cons_succ, Nat.reduceBEq, Nat.reduceAdd, Nat.reduceLT, cond_false, cond_true, if_true, if_false, Nat.zero_add, Nat.reduceMul]
     seg_windows)

end SkinnyVerif.Lemmas
