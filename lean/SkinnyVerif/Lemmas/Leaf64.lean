/-
SKINNY-64 leaf lemmas that are not lane-wise: the tweakey permutation (both C variants) is the
specification's `PT` on cells (cell `i` = nibble `i xor 1` of the 8-byte image).
-/
import SkinnyVerif.Lemmas.OpsCorrect
import SkinnyVerif.Gen.Skinny64LeafOuts

namespace SkinnyVerif.Lemmas
open SkinnyVerif SkinnyVerif.Gen SkinnyVerif.Spec.Skinny

theorem xor1_lt16 (n : Nat) (h : n < 16) : n ^^^ 1 < 16 := by
  nat_cases n 16 <;> decide

theorem xor1_xor1 (n : Nat) : (n ^^^ 1) ^^^ 1 = n := by
  rw [Nat.xor_assoc]; simp

/-- bit `j` of the image of a function that permutes cells -/
theorem getElem_of_cells4_perm (f : BitVec 64 → BitVec 64) (p : Vector (Fin 16) 16)
    (h : ∀ x, cells4 (f x) = permute p (cells4 x)) (x : BitVec 64) (j : Nat) (hj : j < 64) :
    (f x)[j] = (lane 4 ((p[(j / 4) ^^^ 1]'(xor1_lt16 _ (by omega))).val ^^^ 1) x)[j % 4]'(Nat.mod_lt _ (by decide)) := by
  have hi : (j / 4) ^^^ 1 < 16 := xor1_lt16 _ (by omega)
  have h1 := congrArg (fun v => (v[(j / 4) ^^^ 1]'hi).getLsbD (j % 4)) (h x)
  have hm : j % 4 < 4 := Nat.mod_lt _ (by decide)
  have hjk : 4 * (j / 4) + j % 4 = j := Nat.div_add_mod j 4
  simp only [cells4_get, getLsbD_lane, hm, decide_true, Bool.true_and, xor1_xor1, hjk] at h1
  rw [← BitVec.getLsbD_eq_getElem hj, h1, ← BitVec.getLsbD_eq_getElem]
  simp [permute, cells4]

set_option maxRecDepth 8000 in
set_option maxHeartbeats 4000000 in
theorem permute_tk64_le_cells (tk : BitVec 64) : cells4 (skinny64_permute_tk_le tk) = permute PT (cells4 tk) := by
  apply cells_ext <;>
    (simp [permute_PT, cells4_get]
     bv_bits 4 <;> simp [skinny64_permute_tk_le, gen_unfold, lane])

set_option maxRecDepth 8000 in
set_option maxHeartbeats 4000000 in
theorem permute_tk64_be_cells (tk : BitVec 64) : cells4 (skinny64_permute_tk_be tk) = permute PT (cells4 tk) := by
  apply cells_ext <;>
    (simp [permute_PT, cells4_get]
     bv_bits 4 <;> simp [skinny64_permute_tk_be, gen_unfold, lane])

theorem permute_tk64_le_getElem (tk : BitVec 64) (j : Nat) (hj : j < 64) :
    (skinny64_permute_tk_le tk)[j] = (lane 4 ((PT[(j / 4) ^^^ 1]'(xor1_lt16 _ (by omega))).val ^^^ 1) tk)[j % 4]'(Nat.mod_lt _ (by decide)) :=
  getElem_of_cells4_perm _ PT permute_tk64_le_cells tk j hj

theorem permute_tk64_be_getElem (tk : BitVec 64) (j : Nat) (hj : j < 64) :
    (skinny64_permute_tk_be tk)[j] = (lane 4 ((PT[(j / 4) ^^^ 1]'(xor1_lt16 _ (by omega))).val ^^^ 1) tk)[j % 4]'(Nat.mod_lt _ (by decide)) :=
  getElem_of_cells4_perm _ PT permute_tk64_be_cells tk j hj

end SkinnyVerif.Lemmas
