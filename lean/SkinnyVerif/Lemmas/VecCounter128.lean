/-
Lane increments of `src/skinny128-ctr-vec128.c` (regenerated as `v128c_inc_<column>` on every run): lane by lane,
each translated function is the byte-wise carry chain over the lanes of its column and leaves every
other byte of the strided counter image alone.  (Generated once by a script; the byte positions are
the layout formula of the strided image, not read off the code.)
-/
import SkinnyVerif.Lemmas.VecCounterBase
import SkinnyVerif.Basic.Segments
import SkinnyVerif.Gen.VecCounterLeaf

namespace SkinnyVerif.Lemmas
open SkinnyVerif SkinnyVerif.Gen

/-- byte lanes of column `c` in the strided counter image, least significant byte first -/
def pos128 (c : Nat) : List Nat := (List.range 16).map (fun j => ((15 - j) / 4) * 16 + c * 4 + (15 - j) % 4)

local macro "gen_acc " c:ident p:num : tactic => `(tactic| generalize (_ + BitVec.setWidth 32 (BitVec.extractLsb' $p 8 $c)) = a)

set_option maxRecDepth 20000
set_option maxHeartbeats 4000000

theorem v128c_inc_0_lanes (counter : BitVec 512) (inc : BitVec 32) (q : Nat) (hq : q < 64) :
    lane 8 q (v128c_inc_0 counter inc) = chainLane counter (pos128 0) inc q := by
  have hp : pos128 0 = [51, 50, 49, 48, 35, 34, 33, 32, 19, 18, 17, 16, 3, 2, 1, 0] := by decide
  rw [hp]
  simp only [gen_unfold, chainLane, List.map, accs, lane, Nat.reduceMul, List.length_cons, List.length_nil, Nat.reduceAdd]
  gen_acc counter 408; gen_acc counter 400; gen_acc counter 392; gen_acc counter 384; gen_acc counter 280; gen_acc counter 272; gen_acc counter 264; gen_acc counter 256; gen_acc counter 152; gen_acc counter 144; gen_acc counter 136; gen_acc counter 128; gen_acc counter 24; gen_acc counter 16; gen_acc counter 8; gen_acc counter 0
  nat_cases q 64 <;>
    (simp only [List.idxOf_cons, List.idxOf_nil, List.getD_cons_zero, List.getD_cons_succ, Nat.reduceBEq, Nat.reduceAdd, Nat.reduceLT, cond_false, cond_true, if_true, if_false, Nat.zero_add, Nat.reduceMul]
     seg_windows)

theorem v128c_inc_1_lanes (counter : BitVec 512) (inc : BitVec 32) (q : Nat) (hq : q < 64) :
    lane 8 q (v128c_inc_1 counter inc) = chainLane counter (pos128 1) inc q := by
  have hp : pos128 1 = [55, 54, 53, 52, 39, 38, 37, 36, 23, 22, 21, 20, 7, 6, 5, 4] := by decide
  rw [hp]
  simp only [gen_unfold, chainLane, List.map, accs, lane, Nat.reduceMul, List.length_cons, List.length_nil, Nat.reduceAdd]
  gen_acc counter 440; gen_acc counter 432; gen_acc counter 424; gen_acc counter 416; gen_acc counter 312; gen_acc counter 304; gen_acc counter 296; gen_acc counter 288; gen_acc counter 184; gen_acc counter 176; gen_acc counter 168; gen_acc counter 160; gen_acc counter 56; gen_acc counter 48; gen_acc counter 40; gen_acc counter 32
  nat_cases q 64 <;>
    (simp only [List.idxOf_cons, List.idxOf_nil, List.getD_cons_zero, List.getD_cons_succ, Nat.reduceBEq, Nat.reduceAdd, Nat.reduceLT, cond_false, cond_true, if_true, if_false, Nat.zero_add, Nat.reduceMul]
     seg_windows)

theorem v128c_inc_2_lanes (counter : BitVec 512) (inc : BitVec 32) (q : Nat) (hq : q < 64) :
    lane 8 q (v128c_inc_2 counter inc) = chainLane counter (pos128 2) inc q := by
  have hp : pos128 2 = [59, 58, 57, 56, 43, 42, 41, 40, 27, 26, 25, 24, 11, 10, 9, 8] := by decide
  rw [hp]
  simp only [gen_unfold, chainLane, List.map, accs, lane, Nat.reduceMul, List.length_cons, List.length_nil, Nat.reduceAdd]
  gen_acc counter 472; gen_acc counter 464; gen_acc counter 456; gen_acc counter 448; gen_acc counter 344; gen_acc counter 336; gen_acc counter 328; gen_acc counter 320; gen_acc counter 216; gen_acc counter 208; gen_acc counter 200; gen_acc counter 192; gen_acc counter 88; gen_acc counter 80; gen_acc counter 72; gen_acc counter 64
  nat_cases q 64 <;>
    (simp only [List.idxOf_cons, List.idxOf_nil, List.getD_cons_zero, List.getD_cons_succ, Nat.reduceBEq, Nat.reduceAdd, Nat.reduceLT, cond_false, cond_true, if_true, if_false, Nat.zero_add, Nat.reduceMul]
     seg_windows)

theorem v128c_inc_3_lanes (counter : BitVec 512) (inc : BitVec 32) (q : Nat) (hq : q < 64) :
    lane 8 q (v128c_inc_3 counter inc) = chainLane counter (pos128 3) inc q := by
  have hp : pos128 3 = [63, 62, 61, 60, 47, 46, 45, 44, 31, 30, 29, 28, 15, 14, 13, 12] := by decide
  rw [hp]
  simp only [gen_unfold, chainLane, List.map, accs, lane, Nat.reduceMul, List.length_cons, List.length_nil, Nat.reduceAdd]
  gen_acc counter 504; gen_acc counter 496; gen_acc counter 488; gen_acc counter 480; gen_acc counter 376; gen_acc counter 368; gen_acc counter 360; gen_acc counter 352; gen_acc counter 248; gen_acc counter 240; gen_acc counter 232; gen_acc counter 224; gen_acc counter 120; gen_acc counter 112; gen_acc counter 104; gen_acc counter 96
  nat_cases q 64 <;>
    (simp only [List.idxOf_cons, List.idxOf_nil, List.getD_cons_zero, List.getD_cons_succ, Nat.reduceBEq, Nat.reduceAdd, Nat.reduceLT, cond_false, cond_true, if_true, if_false, Nat.zero_add, Nat.reduceMul]
     seg_windows)

end SkinnyVerif.Lemmas
