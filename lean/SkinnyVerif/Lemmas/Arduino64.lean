/-
The Arduino port, Skinny-64 (portable C++ path of `arduino/libraries/Skinny/Skinny64.cpp`):
every piece translated from the C++ source equals the corresponding piece of the C library's
32-bit little-endian configuration.
-/
import SkinnyVerif.Lemmas.AllConfigs
import SkinnyVerif.Gen.Arduino64LeafLanes
import SkinnyVerif.Gen.Arduino64PiecesOuts

namespace SkinnyVerif.Lemmas
open SkinnyVerif SkinnyVerif.Gen SkinnyVerif.Impl SkinnyVerif.Spec.Skinny

theorem ard64_sbox_lane_eq : ∀ v, ard64_sbox_lane v = S4 v := forall_bv_eq _ _ (by decide +kernel)
theorem ard64_inv_sbox_lane_eq : ∀ v, ard64_inv_sbox_lane v = S4inv v := forall_bv_eq _ _ (by decide +kernel)
theorem ard64_LFSR2_lane_eq : ∀ v, ard64_LFSR2_lane v = lfsr2_4 v := forall_bv_eq _ _ (by decide +kernel)
theorem ard64_LFSR3_lane_eq : ∀ v, ard64_LFSR3_lane v = lfsr3_4 v := forall_bv_eq _ _ (by decide +kernel)
theorem ard64_sbox_lane' : ard64_sbox_lane = S4 := funext ard64_sbox_lane_eq
theorem ard64_inv_sbox_lane' : ard64_inv_sbox_lane = S4inv := funext ard64_inv_sbox_lane_eq
theorem ard64_lfsr2_lane' : ard64_LFSR2_lane = lfsr2_4 := funext ard64_LFSR2_lane_eq
theorem ard64_lfsr3_lane' : ard64_LFSR3_lane = lfsr3_4 := funext ard64_LFSR3_lane_eq

syntax "ard64_bits" num : tactic
macro_rules
  | `(tactic| ard64_bits $n) => `(tactic|
    (bv_bits $n <;>
      (simp [gen_unfold, lane, extractLsb'_extractLsb'_le,
             skinny64_sbox_32_getElem, skinny64_inv_sbox_32_getElem, skinny64_LFSR2_getElem, skinny64_LFSR3_getElem,
             ard64_sbox_getElem, ard64_inv_sbox_getElem, ard64_LFSR2_getElem, ard64_LFSR3_getElem,
             sbox64_32_lane, inv_sbox64_32_lane, lfsr2_64_lane, lfsr3_64_lane,
             ard64_sbox_lane', ard64_inv_sbox_lane', ard64_lfsr2_lane', ard64_lfsr3_lane', permute_tk64_le_getElem, permute_tk64_be_getElem]
       try (first
            | rfl
            | ac_rfl
            | (apply getElem_congr_fun
               bv_bits 4 <;> (simp [lane, permute_tk64_le_getElem, permute_tk64_be_getElem, PT, BitVec.getLsbD_eq_getElem]; try (first | rfl | ac_rfl)))))))

set_option maxRecDepth 8000
set_option maxHeartbeats 8000000

theorem ard64_enc_load_eq (x : BitVec 64) : ard64_enc_load x = x := by ard64_bits 64
theorem ard64_enc_store_eq (x : BitVec 64) : ard64_enc_store x = x := by ard64_bits 64
theorem ard64_dec_load_eq (x : BitVec 64) : ard64_dec_load x = x := by ard64_bits 64
theorem ard64_dec_store_eq (x : BitVec 64) : ard64_dec_store x = x := by ard64_bits 64

theorem ard64_enc_round_eq (st : BitVec 64) (sk : BitVec 32) : ard64_enc_round st sk = skinny64_ecb_encrypt_round_32le st sk := by
  ard64_bits 64
theorem ard64_dec_round_eq (st : BitVec 64) (sk : BitVec 32) : ard64_dec_round st sk = skinny64_ecb_decrypt_round_32le st sk := by
  ard64_bits 64

theorem ard64_tk1_step_t0_eq (tk : BitVec 64) (rc : BitVec 8) : ard64_tk1_step_t0 tk rc = skinny64_set_tk1_step_t0_32le tk rc := by
  refine Prod.ext ?_ (Prod.ext ?_ ?_)
  · ard64_bits 32
  · ard64_bits 64
  · ard64_bits 8
theorem ard64_tk1_step_t1_eq (tk : BitVec 64) (rc : BitVec 8) : ard64_tk1_step_t1 tk rc = skinny64_set_tk1_step_t1_32le tk rc := by
  refine Prod.ext ?_ (Prod.ext ?_ ?_)
  · ard64_bits 32
  · ard64_bits 64
  · ard64_bits 8
theorem ard64_xor_tk1_step_eq (e : BitVec 32) (tk : BitVec 64) : ard64_xor_tk1_step e tk = skinny64_xor_tk1_step_32le e tk := by
  refine Prod.ext ?_ ?_
  · ard64_bits 32
  · ard64_bits 64
theorem ard64_tk2_step_eq (e : BitVec 32) (tk : BitVec 64) : ard64_tk2_step e tk = skinny64_set_tk2_step_32le e tk := by
  refine Prod.ext ?_ ?_
  · ard64_bits 32
  · ard64_bits 64
theorem ard64_tk3_step_eq (e : BitVec 32) (tk : BitVec 64) : ard64_tk3_step e tk = skinny64_set_tk3_step_32le e tk := by
  refine Prod.ext ?_ ?_
  · ard64_bits 32
  · ard64_bits 64

end SkinnyVerif.Lemmas
