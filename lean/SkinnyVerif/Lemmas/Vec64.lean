/- The 128-bit vector back end of Skinny-64 parallel ECB: all lemmas (see `Vec64Base`) -/
import SkinnyVerif.Lemmas.Vec64Round
import SkinnyVerif.Lemmas.Vec64LoadStore
