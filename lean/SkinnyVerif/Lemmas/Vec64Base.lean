/-
The 128-bit vector back end of Skinny-64 parallel ECB (`src/skinny64-parallel-vec128.c`, eight blocks
per group, 16-bit lanes): common definitions.  The round bodies are translated lane-generically (one
16-bit element per row), the load and store segments with explicit lanes.  Shown in `Vec64Round`,
`Vec64Load*`, `Vec64Store*`: the vector round on the rows of one lane is the C library's scalar round
of the 32-bit-word configuration on the block made of those rows, and load / store are the
transposition between eight consecutive blocks and four row vectors.
-/
import SkinnyVerif.Lemmas.AllConfigs
import SkinnyVerif.Gen.Vec64LeafLanes
import SkinnyVerif.Gen.Vec64Pieces
import SkinnyVerif.Basic.Segments

namespace SkinnyVerif.Lemmas
open SkinnyVerif SkinnyVerif.Gen SkinnyVerif.Impl SkinnyVerif.Spec.Skinny

theorem v64p_sbox_lane_eq : ∀ v, v64p_sbox_lane v = S4 v := by decide
theorem v64p_inv_sbox_lane_eq : ∀ v, v64p_inv_sbox_lane v = S4inv v := by decide
theorem v64p_sbox_lane' : v64p_sbox_lane = S4 := funext v64p_sbox_lane_eq
theorem v64p_inv_sbox_lane' : v64p_inv_sbox_lane = S4inv := funext v64p_inv_sbox_lane_eq

/-- a Skinny-64 block from its four 16-bit rows -/
def pack4h (r0 r1 r2 r3 : BitVec 16) : BitVec 64 :=
  r0.setWidth 64 ||| (r1.setWidth 64 <<< 16) ||| (r2.setWidth 64 <<< 32) ||| (r3.setWidth 64 <<< 48)

theorem pack4h_getElem (a b c d : BitVec 16) (j : Nat) (hj : j < 64) :
    (pack4h a b c d)[j] = if h0 : j < 16 then a[j] else if h1 : j < 32 then b[j - 16]'(by omega) else if h2 : j < 48 then c[j - 32]'(by omega) else d[j - 48]'(by omega) := by
  simp only [pack4h, BitVec.getElem_or, BitVec.getElem_setWidth, BitVec.getElem_shiftLeft]
  by_cases h0 : j < 16
  · simp [h0, BitVec.getLsbD_eq_getElem, show j < 32 by omega, show j < 48 by omega]
  · by_cases h1 : j < 32
    · simp [h0, h1, show j < 48 by omega, BitVec.getLsbD_eq_getElem, show j - 16 < 16 by omega, BitVec.getLsbD_of_ge a j (by omega)]
    · by_cases h2 : j < 48
      · simp [h0, h1, h2, BitVec.getLsbD_eq_getElem, show j - 32 < 16 by omega, BitVec.getLsbD_of_ge a j (by omega), BitVec.getLsbD_of_ge b (j - 16) (by omega)]
      · simp [h0, h1, h2, BitVec.getLsbD_eq_getElem, show j - 48 < 16 by omega, BitVec.getLsbD_of_ge a j (by omega), BitVec.getLsbD_of_ge b (j - 16) (by omega), BitVec.getLsbD_of_ge c (j - 32) (by omega)]

set_option maxRecDepth 8000 in
theorem pack4h_row0 (a b c d : BitVec 16) : BitVec.extractLsb' 0 16 (pack4h a b c d) = a := by
  bv_bits 16 <;> simp [pack4h]

set_option maxRecDepth 8000 in
theorem pack4h_row1 (a b c d : BitVec 16) : BitVec.extractLsb' 16 16 (pack4h a b c d) = b := by
  bv_bits 16 <;> simp [pack4h]

set_option maxRecDepth 8000 in
theorem pack4h_row2 (a b c d : BitVec 16) : BitVec.extractLsb' 32 16 (pack4h a b c d) = c := by
  bv_bits 16 <;> simp [pack4h]

set_option maxRecDepth 8000 in
theorem pack4h_row3 (a b c d : BitVec 16) : BitVec.extractLsb' 48 16 (pack4h a b c d) = d := by
  bv_bits 16 <;> simp [pack4h]

set_option maxRecDepth 8000 in
theorem pack4h_nib0 (a b c d : BitVec 16) : BitVec.extractLsb' 0 4 (pack4h a b c d) = BitVec.extractLsb' 0 4 a := by
  bv_bits 4 <;> simp [pack4h]

set_option maxRecDepth 8000 in
theorem pack4h_nib1 (a b c d : BitVec 16) : BitVec.extractLsb' 4 4 (pack4h a b c d) = BitVec.extractLsb' 4 4 a := by
  bv_bits 4 <;> simp [pack4h]

set_option maxRecDepth 8000 in
theorem pack4h_nib2 (a b c d : BitVec 16) : BitVec.extractLsb' 8 4 (pack4h a b c d) = BitVec.extractLsb' 8 4 a := by
  bv_bits 4 <;> simp [pack4h]

set_option maxRecDepth 8000 in
theorem pack4h_nib3 (a b c d : BitVec 16) : BitVec.extractLsb' 12 4 (pack4h a b c d) = BitVec.extractLsb' 12 4 a := by
  bv_bits 4 <;> simp [pack4h]

set_option maxRecDepth 8000 in
theorem pack4h_nib4 (a b c d : BitVec 16) : BitVec.extractLsb' 16 4 (pack4h a b c d) = BitVec.extractLsb' 0 4 b := by
  bv_bits 4 <;> simp [pack4h]

set_option maxRecDepth 8000 in
theorem pack4h_nib5 (a b c d : BitVec 16) : BitVec.extractLsb' 20 4 (pack4h a b c d) = BitVec.extractLsb' 4 4 b := by
  bv_bits 4 <;> simp [pack4h]

set_option maxRecDepth 8000 in
theorem pack4h_nib6 (a b c d : BitVec 16) : BitVec.extractLsb' 24 4 (pack4h a b c d) = BitVec.extractLsb' 8 4 b := by
  bv_bits 4 <;> simp [pack4h]

set_option maxRecDepth 8000 in
theorem pack4h_nib7 (a b c d : BitVec 16) : BitVec.extractLsb' 28 4 (pack4h a b c d) = BitVec.extractLsb' 12 4 b := by
  bv_bits 4 <;> simp [pack4h]

set_option maxRecDepth 8000 in
theorem pack4h_nib8 (a b c d : BitVec 16) : BitVec.extractLsb' 32 4 (pack4h a b c d) = BitVec.extractLsb' 0 4 c := by
  bv_bits 4 <;> simp [pack4h]

set_option maxRecDepth 8000 in
theorem pack4h_nib9 (a b c d : BitVec 16) : BitVec.extractLsb' 36 4 (pack4h a b c d) = BitVec.extractLsb' 4 4 c := by
  bv_bits 4 <;> simp [pack4h]

set_option maxRecDepth 8000 in
theorem pack4h_nib10 (a b c d : BitVec 16) : BitVec.extractLsb' 40 4 (pack4h a b c d) = BitVec.extractLsb' 8 4 c := by
  bv_bits 4 <;> simp [pack4h]

set_option maxRecDepth 8000 in
theorem pack4h_nib11 (a b c d : BitVec 16) : BitVec.extractLsb' 44 4 (pack4h a b c d) = BitVec.extractLsb' 12 4 c := by
  bv_bits 4 <;> simp [pack4h]

set_option maxRecDepth 8000 in
theorem pack4h_nib12 (a b c d : BitVec 16) : BitVec.extractLsb' 48 4 (pack4h a b c d) = BitVec.extractLsb' 0 4 d := by
  bv_bits 4 <;> simp [pack4h]

set_option maxRecDepth 8000 in
theorem pack4h_nib13 (a b c d : BitVec 16) : BitVec.extractLsb' 52 4 (pack4h a b c d) = BitVec.extractLsb' 4 4 d := by
  bv_bits 4 <;> simp [pack4h]

set_option maxRecDepth 8000 in
theorem pack4h_nib14 (a b c d : BitVec 16) : BitVec.extractLsb' 56 4 (pack4h a b c d) = BitVec.extractLsb' 8 4 d := by
  bv_bits 4 <;> simp [pack4h]

set_option maxRecDepth 8000 in
theorem pack4h_nib15 (a b c d : BitVec 16) : BitVec.extractLsb' 60 4 (pack4h a b c d) = BitVec.extractLsb' 12 4 d := by
  bv_bits 4 <;> simp [pack4h]

abbrev Rows16 := BitVec 16 × BitVec 16 × BitVec 16 × BitVec 16

/-- rows of one lane as a block -/
def packTh (t : Rows16) : BitVec 64 := pack4h t.1 t.2.1 t.2.2.1 t.2.2.2

/-- the rows of lane `j` of four 8-lane row vectors -/
def laneRowsH (rows : BitVec 128 × BitVec 128 × BitVec 128 × BitVec 128) (j : Nat) : Rows16 :=
  (lane 16 j rows.1, lane 16 j rows.2.1, lane 16 j rows.2.2.1, lane 16 j rows.2.2.2)

syntax "vec64_ls" : tactic
macro_rules
  | `(tactic| vec64_ls) => `(tactic|
    (simp only [gen_unfold, packTh, laneRowsH, pack4h, lane, Nat.reduceMul]
     apply eq_of_lanes 8 8 (by decide) (by decide)
     intro i hi
     nat_cases i 8 <;> (simp only [lane, Nat.reduceMul, extractLsb'_extractLsb'_le, Nat.reduceAdd]; seg_windows; try (bv_bits 8 <;> simp))))

end SkinnyVerif.Lemmas
