/-
Literal 16-tuple forms of the specification's cell operations: each operation defined in
`Spec/Skinny.lean` through index tables is shown equal to an explicit vector of cell
expressions, so that refinement proofs can compare cell by cell.
-/
import SkinnyVerif.Basic.Lanes
import SkinnyVerif.Spec.Skinny
import SkinnyVerif.Spec.Mantis

namespace SkinnyVerif.Lemmas
open SkinnyVerif SkinnyVerif.Spec.Skinny

theorem finRange4 : List.finRange 4 = [0, 1, 2, 3] := by decide
theorem finRange16 : List.finRange 16 = [0, 1, 2, 3, 4, 5, 6, 7, 8, 9, 10, 11, 12, 13, 14, 15] := by decide

@[simp] theorem f4v0 : ((0 : Fin 4) : Nat) = 0 := rfl
@[simp] theorem f4v1 : ((1 : Fin 4) : Nat) = 1 := rfl
@[simp] theorem f4v2 : ((2 : Fin 4) : Nat) = 2 := rfl
@[simp] theorem f4v3 : ((3 : Fin 4) : Nat) = 3 := rfl
@[simp] theorem f16v0 : ((0 : Fin 16) : Nat) = 0 := rfl
@[simp] theorem f16v1 : ((1 : Fin 16) : Nat) = 1 := rfl
@[simp] theorem f16v2 : ((2 : Fin 16) : Nat) = 2 := rfl
@[simp] theorem f16v3 : ((3 : Fin 16) : Nat) = 3 := rfl
@[simp] theorem f16v4 : ((4 : Fin 16) : Nat) = 4 := rfl
@[simp] theorem f16v5 : ((5 : Fin 16) : Nat) = 5 := rfl
@[simp] theorem f16v6 : ((6 : Fin 16) : Nat) = 6 := rfl
@[simp] theorem f16v7 : ((7 : Fin 16) : Nat) = 7 := rfl
@[simp] theorem f16v8 : ((8 : Fin 16) : Nat) = 8 := rfl
@[simp] theorem f16v9 : ((9 : Fin 16) : Nat) = 9 := rfl
@[simp] theorem f16v10 : ((10 : Fin 16) : Nat) = 10 := rfl
@[simp] theorem f16v11 : ((11 : Fin 16) : Nat) = 11 := rfl
@[simp] theorem f16v12 : ((12 : Fin 16) : Nat) = 12 := rfl
@[simp] theorem f16v13 : ((13 : Fin 16) : Nat) = 13 := rfl
@[simp] theorem f16v14 : ((14 : Fin 16) : Nat) = 14 := rfl
@[simp] theorem f16v15 : ((15 : Fin 16) : Nat) = 15 := rfl

/-- a vector of 16 cells is the literal vector of its entries -/
theorem cells_eta {s : Nat} (st : Cells s) :
    st = #v[st[0], st[1], st[2], st[3], st[4], st[5], st[6], st[7], st[8], st[9], st[10], st[11], st[12], st[13], st[14], st[15]] := by
  apply Vector.ext; intro i hi
  nat_cases i 16 <;> simp

/-- extensionality on the 16 literal indices -/
theorem cells_ext {s : Nat} (a b : Cells s)
    (h0 : a[0] = b[0]) (h1 : a[1] = b[1]) (h2 : a[2] = b[2]) (h3 : a[3] = b[3])
    (h4 : a[4] = b[4]) (h5 : a[5] = b[5]) (h6 : a[6] = b[6]) (h7 : a[7] = b[7])
    (h8 : a[8] = b[8]) (h9 : a[9] = b[9]) (h10 : a[10] = b[10]) (h11 : a[11] = b[11])
    (h12 : a[12] = b[12]) (h13 : a[13] = b[13]) (h14 : a[14] = b[14]) (h15 : a[15] = b[15]) : a = b := by
  apply Vector.ext; intro i hi
  nat_cases i 16 <;> simp_all

section forms
variable {s : Nat} (st : Cells s)

set_option maxHeartbeats 1000000 in
theorem permute_P : permute P st =
    #v[st[0], st[1], st[2], st[3], st[7], st[4], st[5], st[6], st[10], st[11], st[8], st[9], st[13], st[14], st[15], st[12]] := by
  apply Vector.ext; intro i hi
  nat_cases i 16 <;> simp [permute, P]

set_option maxHeartbeats 1000000 in
theorem permute_Pinv : permute Pinv st =
    #v[st[0], st[1], st[2], st[3], st[5], st[6], st[7], st[4], st[10], st[11], st[8], st[9], st[15], st[12], st[13], st[14]] := by
  apply Vector.ext; intro i hi
  nat_cases i 16 <;> simp [permute, Pinv]

set_option maxHeartbeats 1000000 in
theorem permute_PT : permute PT st =
    #v[st[9], st[15], st[8], st[13], st[10], st[14], st[12], st[11], st[0], st[1], st[2], st[3], st[4], st[5], st[6], st[7]] := by
  apply Vector.ext; intro i hi
  nat_cases i 16 <;> simp [permute, PT]

set_option maxHeartbeats 1000000 in
theorem mulColumns_M : mulColumns M st =
    #v[st[0] ^^^ st[8] ^^^ st[12], st[1] ^^^ st[9] ^^^ st[13], st[2] ^^^ st[10] ^^^ st[14], st[3] ^^^ st[11] ^^^ st[15],
       st[0], st[1], st[2], st[3],
       st[4] ^^^ st[8], st[5] ^^^ st[9], st[6] ^^^ st[10], st[7] ^^^ st[11],
       st[0] ^^^ st[8], st[1] ^^^ st[9], st[2] ^^^ st[10], st[3] ^^^ st[11]] := by
  apply Vector.ext; intro i hi
  nat_cases i 16 <;> simp [mulColumns, M, rowOf, colOf, cellIx, finRange4]

set_option maxHeartbeats 1000000 in
theorem mulColumns_Minv : mulColumns Minv st =
    #v[st[4], st[5], st[6], st[7],
       st[4] ^^^ st[8] ^^^ st[12], st[5] ^^^ st[9] ^^^ st[13], st[6] ^^^ st[10] ^^^ st[14], st[7] ^^^ st[11] ^^^ st[15],
       st[4] ^^^ st[12], st[5] ^^^ st[13], st[6] ^^^ st[14], st[7] ^^^ st[15],
       st[0] ^^^ st[12], st[1] ^^^ st[13], st[2] ^^^ st[14], st[3] ^^^ st[15]] := by
  apply Vector.ext; intro i hi
  nat_cases i 16 <;> simp [mulColumns, Minv, rowOf, colOf, cellIx, finRange4]

theorem xorCells_get (a b : Cells s) (i : Nat) (hi : i < 16) : (xorCells a b)[i] = a[i] ^^^ b[i] := by
  simp [xorCells]

theorem subCells_get (f : BitVec s → BitVec s) (i : Nat) (hi : i < 16) : (subCells f st)[i] = f st[i] := by
  simp [subCells]

end forms
end SkinnyVerif.Lemmas
