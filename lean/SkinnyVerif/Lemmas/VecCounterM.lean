/-
Lane increments of `src/mantis-ctr-vec128.c` (regenerated as `vmc_inc_<column>` on every run): lane by lane,
each translated function is the byte-wise carry chain over the lanes of its column and leaves every
other byte of the strided counter image alone.  (Generated once by a script; the byte positions are
the layout formula of the strided image, not read off the code.)
-/
import SkinnyVerif.Lemmas.VecCounterBase
import SkinnyVerif.Basic.Segments
import SkinnyVerif.Gen.VecCounterLeaf

namespace SkinnyVerif.Lemmas
open SkinnyVerif SkinnyVerif.Gen

/-- byte lanes of column `c` in the strided counter image, least significant byte first -/
def pos64m (c : Nat) : List Nat := (List.range 8).map (fun j => ((7 - j) / 2) * 16 + c * 2 + (7 - j) % 2)

local macro "gen_acc " c:ident p:num : tactic => `(tactic| generalize (_ + BitVec.setWidth 32 (BitVec.extractLsb' $p 8 $c)) = a)

set_option maxRecDepth 20000
set_option maxHeartbeats 4000000

theorem vmc_inc_0_lanes (counter : BitVec 512) (inc : BitVec 32) (q : Nat) (hq : q < 64) :
    lane 8 q (vmc_inc_0 counter inc) = chainLane counter (pos64m 0) inc q := by
  have hp : pos64m 0 = [49, 48, 33, 32, 17, 16, 1, 0] := by decide
  rw [hp]
  simp only [gen_unfold, chainLane, List.map, accs, lane, Nat.reduceMul, List.length_cons, List.length_nil, Nat.reduceAdd]
  gen_acc counter 392; gen_acc counter 384; gen_acc counter 264; gen_acc counter 256; gen_acc counter 136; gen_acc counter 128; gen_acc counter 8; gen_acc counter 0
  nat_cases q 64 <;>
    (simp only [List.idxOf_cons, List.idxOf_nil, List.getD_cons_zero, List.getD_cons_succ, Nat.reduceBEq, Nat.reduceAdd, Nat.reduceLT, cond_false, cond_true, if_true, if_false, Nat.zero_add, Nat.reduceMul]
     seg_windows)

theorem vmc_inc_1_lanes (counter : BitVec 512) (inc : BitVec 32) (q : Nat) (hq : q < 64) :
    lane 8 q (vmc_inc_1 counter inc) = chainLane counter (pos64m 1) inc q := by
  have hp : pos64m 1 = [51, 50, 35, 34, 19, 18, 3, 2] := by decide
  rw [hp]
  simp only [gen_unfold, chainLane, List.map, accs, lane, Nat.reduceMul, List.length_cons, List.length_nil, Nat.reduceAdd]
  gen_acc counter 408; gen_acc counter 400; gen_acc counter 280; gen_acc counter 272; gen_acc counter 152; gen_acc counter 144; gen_acc counter 24; gen_acc counter 16
  nat_cases q 64 <;>
    (simp only [List.idxOf_cons, List.idxOf_nil, List.getD_cons_zero, List.getD_cons_succ, Nat.reduceBEq, Nat.reduceAdd, Nat.reduceLT, cond_false, cond_true, if_true, if_false, Nat.zero_add, Nat.reduceMul]
     seg_windows)

theorem vmc_inc_2_lanes (counter : BitVec 512) (inc : BitVec 32) (q : Nat) (hq : q < 64) :
    lane 8 q (vmc_inc_2 counter inc) = chainLane counter (pos64m 2) inc q := by
  have hp : pos64m 2 = [53, 52, 37, 36, 21, 20, 5, 4] := by decide
  rw [hp]
  simp only [gen_unfold, chainLane, List.map, accs, lane, Nat.reduceMul, List.length_cons, List.length_nil, Nat.reduceAdd]
  gen_acc counter 424; gen_acc counter 416; gen_acc counter 296; gen_acc counter 288; gen_acc counter 168; gen_acc counter 160; gen_acc counter 40; gen_acc counter 32
  nat_cases q 64 <;>
    (simp only [List.idxOf_cons, List.idxOf_nil, List.getD_cons_zero, List.getD_cons_succ, Nat.reduceBEq, Nat.reduceAdd, Nat.reduceLT, cond_false, cond_true, if_true, if_false, Nat.zero_add, Nat.reduceMul]
     seg_windows)

theorem vmc_inc_3_lanes (counter : BitVec 512) (inc : BitVec 32) (q : Nat) (hq : q < 64) :
    lane 8 q (vmc_inc_3 counter inc) = chainLane counter (pos64m 3) inc q := by
  have hp : pos64m 3 = [55, 54, 39, 38, 23, 22, 7, 6] := by decide
  rw [hp]
  simp only [gen_unfold, chainLane, List.map, accs, lane, Nat.reduceMul, List.length_cons, List.length_nil, Nat.reduceAdd]
  gen_acc counter 440; gen_acc counter 432; gen_acc counter 312; gen_acc counter 304; gen_acc counter 184; gen_acc counter 176; gen_acc counter 56; gen_acc counter 48
  nat_cases q 64 <;>
    (simp only [List.idxOf_cons, List.idxOf_nil, List.getD_cons_zero, List.getD_cons_succ, Nat.reduceBEq, Nat.reduceAdd, Nat.reduceLT, cond_false, cond_true, if_true, if_false, Nat.zero_add, Nat.reduceMul]
     seg_windows)

theorem vmc_inc_4_lanes (counter : BitVec 512) (inc : BitVec 32) (q : Nat) (hq : q < 64) :
    lane 8 q (vmc_inc_4 counter inc) = chainLane counter (pos64m 4) inc q := by
  have hp : pos64m 4 = [57, 56, 41, 40, 25, 24, 9, 8] := by decide
  rw [hp]
  simp only [gen_unfold, chainLane, List.map, accs, lane, Nat.reduceMul, List.length_cons, List.length_nil, Nat.reduceAdd]
  gen_acc counter 456; gen_acc counter 448; gen_acc counter 328; gen_acc counter 320; gen_acc counter 200; gen_acc counter 192; gen_acc counter 72; gen_acc counter 64
  nat_cases q 64 <;>
    (simp only [List.idxOf_cons, List.idxOf_nil, List.getD_cons_zero, List.getD_cons_succ, Nat.reduceBEq, Nat.reduceAdd, Nat.reduceLT, cond_false, cond_true, if_true, if_false, Nat.zero_add, Nat.reduceMul]
     seg_windows)

theorem vmc_inc_5_lanes (counter : BitVec 512) (inc : BitVec 32) (q : Nat) (hq : q < 64) :
    lane 8 q (vmc_inc_5 counter inc) = chainLane counter (pos64m 5) inc q := by
  have hp : pos64m 5 = [59, 58, 43, 42, 27, 26, 11, 10] := by decide
  rw [hp]
  simp only [gen_unfold, chainLane, List.map, accs, lane, Nat.reduceMul, List.length_cons, List.length_nil, Nat.reduceAdd]
  gen_acc counter 472; gen_acc counter 464; gen_acc counter 344; gen_acc counter 336; gen_acc counter 216; gen_acc counter 208; gen_acc counter 88; gen_acc counter 80
  nat_cases q 64 <;>
    (simp only [List.idxOf_cons, List.idxOf_nil, List.getD_cons_zero, List.getD_cons_succ, Nat.reduceBEq, Nat.reduceAdd, Nat.reduceLT, cond_false, cond_true, if_true, if_false, Nat.zero_add, Nat.reduceMul]
     seg_windows)

theorem vmc_inc_6_lanes (counter : BitVec 512) (inc : BitVec 32) (q : Nat) (hq : q < 64) :
    lane 8 q (vmc_inc_6 counter inc) = chainLane counter (pos64m 6) inc q := by
  have hp : pos64m 6 = [61, 60, 45, 44, 29, 28, 13, 12] := by decide
  rw [hp]
  simp only [gen_unfold, chainLane, List.map, accs, lane, Nat.reduceMul, List.length_cons, List.length_nil, Nat.reduceAdd]
  gen_acc counter 488; gen_acc counter 480; gen_acc counter 360; gen_acc counter 352; gen_acc counter 232; gen_acc counter 224; gen_acc counter 104; gen_acc counter 96
  nat_cases q 64 <;>
    (simp only [List.idxOf_cons, List.idxOf_nil, List.getD_cons_zero, List.getD_cons_succ, Nat.reduceBEq, Nat.reduceAdd, Nat.reduceLT, cond_false, cond_true, if_true, if_false, Nat.zero_add, Nat.reduceMul]
     seg_windows)

theorem vmc_inc_7_lanes (counter : BitVec 512) (inc : BitVec 32) (q : Nat) (hq : q < 64) :
    lane 8 q (vmc_inc_7 counter inc) = chainLane counter (pos64m 7) inc q := by
  have hp : pos64m 7 = [63, 62, 47, 46, 31, 30, 15, 14] := by decide
  rw [hp]
  simp only [gen_unfold, chainLane, List.map, accs, lane, Nat.reduceMul, List.length_cons, List.length_nil, Nat.reduceAdd]
  gen_acc counter 504; gen_acc counter 496; gen_acc counter 376; gen_acc counter 368; gen_acc counter 248; gen_acc counter 240; gen_acc counter 120; gen_acc counter 112
  nat_cases q 64 <;>
    (simp only [List.idxOf_cons, List.idxOf_nil, List.getD_cons_zero, List.getD_cons_succ, Nat.reduceBEq, Nat.reduceAdd, Nat.reduceLT, cond_false, cond_true, if_true, if_false, Nat.zero_add, Nat.reduceMul]
     seg_windows)

end SkinnyVerif.Lemmas
