/-
The schedule loop (`Impl.schedFold`) in closed form: after `r` iterations entry `i < r` holds
`out (old entry i) (state after i steps)`, the other entries are untouched, and the running
state has been stepped `r` times -- stated through abstraction functions so that the step
lemmas (which are about cells) apply directly.
-/
import SkinnyVerif.Impl.Skinny

namespace SkinnyVerif.Lemmas
open SkinnyVerif SkinnyVerif.Impl

def iter {τ : Type} (f : τ → τ) : Nat → τ → τ
  | 0, x => x
  | n + 1, x => f (iter f n x)

theorem getD_set {α : Type} (l : List α) (i j : Nat) (a d : α) :
    (l.set i a).getD j d = if i = j ∧ i < l.length then a else l.getD j d := by
  simp only [List.getD_eq_getElem?_getD, List.getElem?_set]
  by_cases h : i = j
  · subst h
    by_cases h2 : i < l.length
    · simp [h2]
    · simp [h2]
  · simp [h]

theorem schedFold_abs {α σ τ β : Type} (d : α) (step : α → σ → α × σ) (absS : σ → τ) (absE : α → β)
    (nextA : τ → τ) (F : β → τ → β)
    (hnext : ∀ e s, absS (step e s).2 = nextA (absS s))
    (hout : ∀ e s, absE (step e s).1 = F (absE e) (absS s))
    (r : Nat) (sched0 : List α) (s0 : σ) (hlen : r ≤ sched0.length) :
    absS (schedFold step d r sched0 s0).2 = iter nextA r (absS s0) ∧
    (schedFold step d r sched0 s0).1.length = sched0.length ∧
    (∀ i, i < r → absE ((schedFold step d r sched0 s0).1.getD i d) = F (absE (sched0.getD i d)) (iter nextA i (absS s0))) ∧
    (∀ i, r ≤ i → (schedFold step d r sched0 s0).1.getD i d = sched0.getD i d) := by
  induction r with
  | zero => simp [schedFold, iter]
  | succ r ih =>
    have ih := ih (by omega)
    obtain ⟨ih1, ih2, ih3, ih4⟩ := ih
    have hunf : schedFold step d (r + 1) sched0 s0 =
        (let acc := schedFold step d r sched0 s0
         let p := step (acc.1.getD r d) acc.2
         (acc.1.set r p.1, p.2)) := by
      simp [schedFold, List.range_succ, List.foldl_append]
    rw [hunf]
    refine ⟨?_, ?_, ?_, ?_⟩
    · simp only [hnext, ih1, iter]
    · simp [ih2]
    · intro i hi
      simp only [getD_set, ih2]
      by_cases hir : r = i
      · subst hir
        have hr : r < sched0.length := by omega
        simp only [true_and, hr, if_true, hout, ih1]
        rw [ih4 r (Nat.le_refl r)]
      · have : i < r := by omega
        simp only [hir, false_and, if_false]
        exact ih3 i this
    · intro i hi
      simp only [getD_set, ih2]
      have hir : ¬ r = i := by omega
      simp only [hir, false_and, if_false]
      exact ih4 i (by omega)

end SkinnyVerif.Lemmas
