/- Skinny-128 vec256 parallel ECB: load / store is the transposition between eight blocks and four row vectors -/
import SkinnyVerif.Lemmas.Vec256Base

namespace SkinnyVerif.Lemmas
open SkinnyVerif SkinnyVerif.Gen SkinnyVerif.Impl SkinnyVerif.Spec.Skinny

set_option maxRecDepth 8000
set_option maxHeartbeats 8000000

theorem v256p_enc_load_lane (input : BitVec 1024) (j : Nat) (hj : j < 8) :
    packT (laneRows8 (v256p_enc_load input) j) = input.extractLsb' (128 * j) 128 := by
  nat_cases j 8 <;> vec8_ls

theorem v256p_dec_load_lane (input : BitVec 1024) (j : Nat) (hj : j < 8) :
    packT (laneRows8 (v256p_dec_load input) j) = input.extractLsb' (128 * j) 128 := by
  nat_cases j 8 <;> vec8_ls

theorem v256p_enc_store_lane (rows : BitVec 256 × BitVec 256 × BitVec 256 × BitVec 256) (j : Nat) (hj : j < 8) :
    (v256p_enc_store rows.1 rows.2.1 rows.2.2.1 rows.2.2.2).extractLsb' (128 * j) 128 = packT (laneRows8 rows j) := by
  nat_cases j 8 <;> vec8_ls

theorem v256p_dec_store_lane (rows : BitVec 256 × BitVec 256 × BitVec 256 × BitVec 256) (j : Nat) (hj : j < 8) :
    (v256p_dec_store rows.1 rows.2.1 rows.2.2.1 rows.2.2.2).extractLsb' (128 * j) 128 = packT (laneRows8 rows j) := by
  nat_cases j 8 <;> vec8_ls

end SkinnyVerif.Lemmas
