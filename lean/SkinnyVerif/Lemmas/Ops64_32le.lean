/- SKINNY-64, configuration 32le: all generated pieces satisfy `Ops64Correct` -/
import SkinnyVerif.Lemmas.Step64Tac
import SkinnyVerif.Gen.Skinny64PiecesOuts
import SkinnyVerif.Lemmas.Round64Enc_32le
import SkinnyVerif.Lemmas.Round64Dec_32le
import SkinnyVerif.Lemmas.Ops64Load2_32le
import SkinnyVerif.Lemmas.Ops64Load3_32le

namespace SkinnyVerif.Lemmas
open SkinnyVerif SkinnyVerif.Gen SkinnyVerif.Spec.Skinny SkinnyVerif.Impl

set_option maxRecDepth 8000
set_option maxHeartbeats 8000000

theorem o_encLoad_64_32le : ∀ x, (ops64 .c32le).encLoad x = x := by
  intro x; simp only [ops64]; img64_tac 64

theorem o_encStore_64_32le : ∀ x, (ops64 .c32le).encStore x = x := by
  intro x; simp only [ops64]; img64_tac 64

theorem o_decLoad_64_32le : ∀ x, (ops64 .c32le).decLoad x = x := by
  intro x; simp only [ops64]; img64_tac 64

theorem o_decStore_64_32le : ∀ x, (ops64 .c32le).decStore x = x := by
  intro x; simp only [ops64]; img64_tac 64

theorem o_xorTk1Load_64_32le : ∀ x, (ops64 .c32le).xorTk1Load x = x := by
  intro x; simp only [ops64]; img64_tac 64

theorem o_tk1Load_64_32le : ∀ k, (ops64 .c32le).tk1Load k = (k, 0) := by
  intro k; simp only [ops64]; apply Prod.ext
  · simp only [skinny64_set_tk1_load_32le_out0]; img64_tac 64
  · rfl

theorem o_tk1Step0_e_64_32le : ∀ tk rc, top4 ((ops64 .c32le).tk1Step0 tk rc).1 = xorCells (topRows (cells4 tk)) (constTop 4 (rcStep8 rc) 0) := by
  intro tk rc; simp only [ops64, skinny64_set_tk1_step_t0_32le_out0]; step64_tac

theorem o_tk1Step0_tk_64_32le : ∀ tk rc, cells4 ((ops64 .c32le).tk1Step0 tk rc).2.1 = permute PT (cells4 tk) := by
  intro tk rc; simp only [ops64, skinny64_set_tk1_step_t0_32le_out1]; step64_tac

theorem o_tk1Step0_rc_64_32le : ∀ tk rc, ((ops64 .c32le).tk1Step0 tk rc).2.2 = rcStep8 rc := by
  intro tk rc; simp only [ops64, skinny64_set_tk1_step_t0_32le_out2]; img64_tac 8

theorem o_tk1Step1_e_64_32le : ∀ tk rc, top4 ((ops64 .c32le).tk1Step1 tk rc).1 = xorCells (topRows (cells4 tk)) (constTop 4 (rcStep8 rc) 2) := by
  intro tk rc; simp only [ops64, skinny64_set_tk1_step_t1_32le_out0]; step64_tac

theorem o_tk1Step1_tk_64_32le : ∀ tk rc, cells4 ((ops64 .c32le).tk1Step1 tk rc).2.1 = permute PT (cells4 tk) := by
  intro tk rc; simp only [ops64, skinny64_set_tk1_step_t1_32le_out1]; step64_tac

theorem o_tk1Step1_rc_64_32le : ∀ tk rc, ((ops64 .c32le).tk1Step1 tk rc).2.2 = rcStep8 rc := by
  intro tk rc; simp only [ops64, skinny64_set_tk1_step_t1_32le_out2]; img64_tac 8

theorem o_xorTk1Step_e_64_32le : ∀ e tk, top4 ((ops64 .c32le).xorTk1Step e tk).1 = xorCells (top4 e) (topRows (cells4 tk)) := by
  intro e tk; simp only [ops64, skinny64_xor_tk1_step_32le_out0]; step64_tac

theorem o_xorTk1Step_tk_64_32le : ∀ e tk, cells4 ((ops64 .c32le).xorTk1Step e tk).2 = permute PT (cells4 tk) := by
  intro e tk; simp only [ops64, skinny64_xor_tk1_step_32le_out1]; step64_tac

theorem o_tk2Step_e_64_32le : ∀ e tk, top4 ((ops64 .c32le).tk2Step e tk).1 = xorCells (top4 e) (topRows (cells4 tk)) := by
  intro e tk; simp only [ops64, skinny64_set_tk2_step_32le_out0]; step64_tac

theorem o_tk2Step_tk_64_32le : ∀ e tk, cells4 ((ops64 .c32le).tk2Step e tk).2 = mapTop lfsr2_4 (permute PT (cells4 tk)) := by
  intro e tk; simp only [ops64, skinny64_set_tk2_step_32le_out1]; step64_tac

theorem o_tk3Step_e_64_32le : ∀ e tk, top4 ((ops64 .c32le).tk3Step e tk).1 = xorCells (top4 e) (topRows (cells4 tk)) := by
  intro e tk; simp only [ops64, skinny64_set_tk3_step_32le_out0]; step64_tac

theorem o_tk3Step_tk_64_32le : ∀ e tk, cells4 ((ops64 .c32le).tk3Step e tk).2 = mapTop lfsr3_4 (permute PT (cells4 tk)) := by
  intro e tk; simp only [ops64, skinny64_set_tk3_step_32le_out1]; step64_tac

theorem ops64Correct_32le : Ops64Correct (ops64 .c32le) :=
  { encLoad := o_encLoad_64_32le, encStore := o_encStore_64_32le, decLoad := o_decLoad_64_32le, decStore := o_decStore_64_32le,
    encRound := by intro st sk; simp only [ops64]; exact encRound64_32le st sk
    decRound := by intro st sk; simp only [ops64]; exact decRound64_32le st sk
    tk1Load := o_tk1Load_64_32le,
    tk1Step0_e := o_tk1Step0_e_64_32le,
    tk1Step0_tk := o_tk1Step0_tk_64_32le,
    tk1Step0_rc := o_tk1Step0_rc_64_32le,
    tk1Step1_e := o_tk1Step1_e_64_32le,
    tk1Step1_tk := o_tk1Step1_tk_64_32le,
    tk1Step1_rc := o_tk1Step1_rc_64_32le,
    xorTk1Load := o_xorTk1Load_64_32le,
    xorTk1Step_e := o_xorTk1Step_e_64_32le,
    xorTk1Step_tk := o_xorTk1Step_tk_64_32le,
    tk2Step_e := o_tk2Step_e_64_32le,
    tk2Step_tk := o_tk2Step_tk_64_32le,
    tk3Step_e := o_tk3Step_e_64_32le,
    tk3Step_tk := o_tk3Step_tk_64_32le,
    tk2Load := tk2Load64_32le, tk3Load := tk3Load64_32le }

end SkinnyVerif.Lemmas
