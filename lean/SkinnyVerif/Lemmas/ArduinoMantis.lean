/-
The Arduino port, Mantis-8 (portable C++ path of `arduino/libraries/Skinny/Mantis8.cpp`): the pieces
of `encryptBlock`, `setKey`, `setTweak` and `swapModes` translated from the C++ source equal the
image-level reference forms / field equations that the C library's pieces satisfy.
The class keeps k0, k0', k1, tweak in a 32-byte struct (`st`), the first 32 bytes of the C library's
36-byte `MantisKey_t` image; the round count is fixed at 8.  The class has no per-call-tweak entry
point: those fields of the table are filled with the reference forms themselves.
-/
import SkinnyVerif.Lemmas.MantisKeys
import SkinnyVerif.Gen.ArduinoMantisLeafLanes
import SkinnyVerif.Gen.ArduinoMantisPiecesOuts
import SkinnyVerif.Gen.ArduinoMantisKeyOuts

namespace SkinnyVerif.Lemmas
open SkinnyVerif SkinnyVerif.Gen SkinnyVerif.Impl SkinnyVerif.Spec.Skinny SkinnyVerif.Spec.Mantis

theorem ardm_sbox_lane_eq : ∀ v, ardm_sbox_lane v = Sb0 v := forall_bv_eq _ _ (by decide +kernel)
theorem ardm_sbox_lane' : ardm_sbox_lane = Sb0 := funext ardm_sbox_lane_eq

def opsArdM : MantisOps :=
  { pre := fun input ks => ardm_pre input (ks.setWidth 256), fwd := ardm_fwd, mid := ardm_mid, bwd := ardm_bwd,
    post := fun st tw k1 ks => ardm_post st tw k1 (ks.setWidth 256),
    preT := refPre, fwdT := refFwd, midT := refMid, bwdT := refBwd, postT := refPost,
    rc := ardm_rc,
    swapModes := fun ks => (ardm_swap_modes (ks.setWidth 256)).setWidth 288,
    unpack0 := fun x => ((ardm_set_tweak (x.setWidth 64) 0).2).extractLsb' 192 64,
    unpack8 := fun x => x.extractLsb' 64 64,
    unpackRot := ardm_unpack_rotated_block,
    setKeyEnc := fun k => (1, (ardm_set_key k).2.setWidth 288),
    setKeyDec := fun k => (1, (ardm_swap_modes (ardm_set_key k).2).setWidth 288) }

syntax "ardm_bits" num : tactic
macro_rules
  | `(tactic| ardm_bits $n) => `(tactic|
    (bv_bits $n <;>
      (simp [gen_unfold, refPre, refFwd, refMid, refBwd, refPost, alphaImg, lane, extractLsb'_extractLsb'_le,
             mantis_mix_columns, mantis_shift_rows, mantis_shift_rows_inverse, mantis_update_tweak, mantis_update_tweak_inverse,
             ardm_mix_columns, ardm_shift_rows, ardm_shift_rows_inverse, ardm_update_tweak, ardm_update_tweak_inverse,
             mantis_sbox_64_getElem, ardm_sbox_getElem, msbox_64_lane, ardm_sbox_lane']
       try (first
            | rfl
            | ac_rfl
            | (apply getElem_congr_fun
               bv_bits 4 <;>
                 (simp [lane, extractLsb'_extractLsb'_le, mantis_sbox_64_getElem, ardm_sbox_getElem, msbox_64_lane, ardm_sbox_lane',
                        mantis_mix_columns, ardm_mix_columns, mantis_shift_rows_inverse, ardm_shift_rows_inverse]
                  try (first | rfl | ac_rfl)))))))

syntax "ardm_bits_sbox" num : tactic
macro_rules
  | `(tactic| ardm_bits_sbox $n) => `(tactic|
    (bv_bits $n <;>
      (simp [gen_unfold, refPre, refFwd, refMid, refBwd, refPost, alphaImg, lane, extractLsb'_extractLsb'_le,
             mantis_mix_columns, mantis_shift_rows, mantis_shift_rows_inverse, mantis_update_tweak, mantis_update_tweak_inverse,
             ardm_mix_columns, ardm_shift_rows, ardm_shift_rows_inverse, ardm_update_tweak, ardm_update_tweak_inverse,
             mantis_sbox_64_getElem, ardm_sbox_getElem, msbox_64_lane, ardm_sbox_lane']
       try (apply getElem_congr_fun
            bv_bits 4 <;>
              (simp [lane, extractLsb'_extractLsb'_le, mantis_sbox_64_getElem, ardm_sbox_getElem, msbox_64_lane, ardm_sbox_lane']
               try ac_rfl)))))

set_option maxRecDepth 8000
set_option maxHeartbeats 8000000

theorem ardm_rot_eq (x : BitVec 64) : ardm_unpack_rotated_block x = mantis_unpack_rotated_block_le x := by
  bv_bits 64 <;> simp [ardm_unpack_rotated_block, mantis_unpack_rotated_block_le, gen_unfold]

theorem ardm_pre_eq (input : BitVec 64) (ks : BitVec 288) : ardm_pre input (ks.setWidth 256) = refPre input ks (ks.extractLsb' 192 64) := by
  refine Prod.ext ?_ (Prod.ext ?_ ?_) <;> ardm_bits 64
theorem ardm_fwd_eq (st tw k1 r : BitVec 64) : ardm_fwd st tw k1 r = refFwd st tw k1 r := by
  refine Prod.ext ?_ ?_ <;> ardm_bits 64
theorem ardm_mid_eq (st k1 : BitVec 64) : ardm_mid st k1 = refMid st k1 := by
  refine Prod.ext ?_ ?_
  · ardm_bits_sbox 64
  · ardm_bits 64
theorem ardm_bwd_eq (st tw k1 r : BitVec 64) : ardm_bwd st tw k1 r = refBwd st tw k1 r := by
  refine Prod.ext ?_ ?_
  · ardm_bits_sbox 64
  · ardm_bits 64
theorem ardm_post_eq (st tw k1 : BitVec 64) (ks : BitVec 288) : ardm_post st tw k1 (ks.setWidth 256) = refPost st tw k1 ks := by
  ardm_bits 64

theorem mantisPieces_ard : MantisPiecesOK opsArdM where
  pre := fun input ks => ardm_pre_eq input ks
  fwd := fun st tw k1 r => ardm_fwd_eq st tw k1 r
  mid := fun st k1 => ardm_mid_eq st k1
  bwd := fun st tw k1 r => ardm_bwd_eq st tw k1 r
  post := fun st tw k1 ks => ardm_post_eq st tw k1 ks
  preT := fun _ _ _ => rfl
  fwdT := fun _ _ _ _ => rfl
  midT := fun _ _ => rfl
  bwdT := fun _ _ _ _ => rfl
  postT := fun _ _ _ _ => rfl

end SkinnyVerif.Lemmas

namespace SkinnyVerif.Lemmas
open SkinnyVerif SkinnyVerif.Gen SkinnyVerif.Impl SkinnyVerif.Spec.Skinny SkinnyVerif.Spec.Mantis

set_option maxRecDepth 8000
set_option maxHeartbeats 4000000

syntax "ardm_key_bits" : tactic
macro_rules
  | `(tactic| ardm_key_bits) => `(tactic|
    (simp only [opsArdM, MantisKey.ofImage, ardm_set_key, ardm_swap_modes, ardm_set_tweak, ardm_rot_eq]
     bv_bits 64 <;> simp [gen_unfold, alphaImg, MantisKey.image, extractLsb'_extractLsb'_le]))

theorem mantisKeys_ard : MantisKeysOK opsArdM := by
  constructor <;> intro x <;> ardm_key_bits

theorem mantis_rc_ok_ard : ∀ i, i < 8 → cells4 (opsArdM.rc.getD i 0) = rcCells i := by
  intro i hi
  nat_cases i 8 <;> decide +kernel

end SkinnyVerif.Lemmas
