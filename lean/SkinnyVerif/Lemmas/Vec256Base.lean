/-
The 256-bit vector back end of Skinny-128 parallel ECB (`src/skinny128-parallel-vec256.c`, eight
blocks per group): common definitions.  Same structure as `Lemmas/Vec128.lean`: the lane-generic round bodies translated
from this file are shown equal, on the rows of one lane, to the C library's scalar 32-bit round; the
explicit-lane load / store segments are the transposition between eight consecutive blocks and four
row vectors of eight lanes.
-/
import SkinnyVerif.Lemmas.Vec128
import SkinnyVerif.Gen.Vec256LeafLanes
import SkinnyVerif.Gen.Vec256Pieces

namespace SkinnyVerif.Lemmas
open SkinnyVerif SkinnyVerif.Gen SkinnyVerif.Impl SkinnyVerif.Spec.Skinny

theorem v256p_sbox_lane_eq : ∀ v, v256p_sbox_lane v = S8 v := forall_bv_eq _ _ (by decide +kernel)
theorem v256p_inv_sbox_lane_eq : ∀ v, v256p_inv_sbox_lane v = S8inv v := forall_bv_eq _ _ (by decide +kernel)
theorem v256p_sbox_lane' : v256p_sbox_lane = S8 := funext v256p_sbox_lane_eq
theorem v256p_inv_sbox_lane' : v256p_inv_sbox_lane = S8inv := funext v256p_inv_sbox_lane_eq

/-- the rows of lane `j` of four 8-lane row vectors -/
def laneRows8 (rows : BitVec 256 × BitVec 256 × BitVec 256 × BitVec 256) (j : Nat) : BitVec 32 × BitVec 32 × BitVec 32 × BitVec 32 :=
  (lane 32 j rows.1, lane 32 j rows.2.1, lane 32 j rows.2.2.1, lane 32 j rows.2.2.2)

syntax "vec8_ls" : tactic
macro_rules
  | `(tactic| vec8_ls) => `(tactic|
    (simp only [gen_unfold, packT, laneRows8, pack4, lane, Nat.reduceMul]
     apply eq_of_lanes 8 16 (by decide) (by decide)
     intro i hi
     nat_cases i 16 <;> (simp only [lane, Nat.reduceMul, extractLsb'_extractLsb'_le, Nat.reduceAdd]; seg_windows; try (bv_bits 8 <;> simp))))

end SkinnyVerif.Lemmas
