/-
Key setup (generic): `set_key_inner` leaves the specification's round keys in the schedule, for
every key length in the documented range -- a length between two primary sizes behaves as the
key bytes followed by zeros (the partial-word loaders zero-pad and read no uninitialised memory).
-/
import SkinnyVerif.Lemmas.Refine
import SkinnyVerif.Basic.BytesLemmas

namespace SkinnyVerif.Lemmas
open SkinnyVerif SkinnyVerif.Gen SkinnyVerif.Spec.Skinny SkinnyVerif.Impl

/-- facts about the abstraction of one block size -/
structure AbsOK {b h s : Nat} (A : Abs b h s) : Prop where
  split : ∀ (dom : BitVec s) (rc : BitVec 8), rc < 64 → constCells s (rc.setWidth 6) dom = xorCells (constTop s rc dom) (c2cells s)
  lfsr2_zero : A.co.lfsr2 (0#s) = 0#s
  lfsr3_zero : A.co.lfsr3 (0#s) = 0#s
  cells_zero : A.cells 0 = zeroCells s

theorem absOK128 : AbsOK abs128 :=
  { split := constCells_split8, lfsr2_zero := by decide, lfsr3_zero := by decide,
    cells_zero := by apply cells_ext <;> simp [abs128, cells8, zeroCells, lane] }
theorem absOK64 : AbsOK abs64 :=
  { split := constCells_split4, lfsr2_zero := by decide, lfsr3_zero := by decide,
    cells_zero := by apply cells_ext <;> simp [abs64, cells4, zeroCells, lane] }

theorem bv_xor_left_comm {w : Nat} (a b c : BitVec w) : a ^^^ (b ^^^ c) = b ^^^ (a ^^^ c) := by
  rw [← BitVec.xor_assoc, BitVec.xor_comm a b, BitVec.xor_assoc]

section
variable {b h s : Nat} (A : Abs b h s) (o : SkinnyOps b h) (hc : OpsCorrectG A o) (ha : AbsOK A)

/-- the tweakey words the implementation loads from `size` key bytes: the images of the key
bytes from offsets 0, `bs`, `2·bs` (missing bytes read as zero) -/
def implTweakey (A : Abs b h s) (bs : Nat) (key : Bytes) : Tweakey s :=
  ⟨A.cells (image b key), A.cells (image b (key.drop bs)), A.cells (image b (key.drop (2 * bs)))⟩

omit hc in
include ha in
theorem rk_assemble' (e : BitVec h) (c1 c2 c3 : Cells s) (rc8 : BitVec 8) (rc6 : BitVec 6) (dom : BitVec s)
    (hw : rc8.setWidth 6 = rc6) (hlt : rc8 < 64)
    (he : A.top e = xorCells (xorCells (xorCells (topRows c1) (constTop s rc8 dom)) (topRows c2)) (topRows c3)) :
    A.rk e = xorCells (constCells s rc6 dom) (topRows (xorCells c1 (xorCells c2 c3))) := by
  have hs := ha.split dom rc8 hlt
  rw [hw] at hs
  rw [Abs.rk, he, hs, topRows_xor, topRows_xor]
  apply Vector.ext; intro j hj
  simp only [xorCells_get]
  simp only [BitVec.xor_assoc, BitVec.xor_comm, bv_xor_left_comm]

omit hc in
include ha in
/-- a schedule entry assembled from up to three tweakey words and the constants is the round key -/
theorem rk_assemble (e : BitVec h) (c1 c2 c3 : Cells s) (i : Nat) (dom : BitVec s)
    (he : A.top e = xorCells (xorCells (xorCells (topRows c1) (constTop s (iter rcStep8 (i + 1) 0) dom)) (topRows c2)) (topRows c3)) :
    A.rk e = xorCells (constCells s (rcAt i) dom) (topRows (xorCells c1 (xorCells c2 c3))) :=
  rk_assemble' A ha e c1 c2 c3 _ _ dom (rc_iter i).1 (rc_iter i).2 he

omit hc ha in
theorem iter_zero_lfsr (f : BitVec s → BitVec s) (hf : f (0#s) = 0#s) (n : Nat) :
    iter (fun c => mapTop f (permute PT c)) n (zeroCells s) = zeroCells s :=
  iter_fixed _ _ (by rw [permute_zero, mapTop_zero f hf]) n

include hc ha

/-- from the closed forms of the schedule entries to `KeyedFor` -/
theorem keyed_of_tops (ks' : KeySched h) (t : Tweakey s) (dom : BitVec s)
    (hh : ∀ i, i < ks'.rounds → A.top (ks'.sched.getD i 0) =
      xorCells (xorCells (xorCells (topRows (iter (permute PT) i t.tk1)) (constTop s (iter rcStep8 (i + 1) 0) dom))
        (topRows (iter (fun c => mapTop A.co.lfsr2 (permute PT c)) i t.tk2)))
        (topRows (iter (fun c => mapTop A.co.lfsr3 (permute PT c)) i t.tk3))) :
    KeyedFor A ks' t dom := by
  intro i hi
  rw [roundKey, tkAt_eq]
  exact rk_assemble A ha _ _ _ _ i dom (hh i hi)

/-- `set_key_inner`, no tweak: the schedule holds the round keys of the tweakey whose words are
the images of the key bytes at offsets 0, `bs`, `2·bs`, zero-padded -/
theorem setKeyInner_plain (p : SkinnyParams) (hb : b = 8 * p.bs) (ks : KeySched h) (key : Bytes) (size : Nat)
    (j2 j3 : BitVec b) (h1 : p.bs ≤ size) (h2 : size ≤ 3 * p.bs) (hbs : 0 < p.bs)
    (hl1 : p.r1 ≤ ks.sched.length) (hl2 : p.r2 ≤ ks.sched.length) (hl3 : p.r3 ≤ ks.sched.length) :
    KeyedFor A (setKeyInner o p ks key size none j2 j3) (implTweakey A p.bs (key.take size)) 0 ∧
    (setKeyInner o p ks key size none j2 j3).rounds = (if size = p.bs then p.r1 else if size ≤ 2 * p.bs then p.r2 else p.r3) ∧
    (setKeyInner o p ks key size none j2 j3).sched.length = ks.sched.length := by
  have himg1 : image b (key.take size) = image b key := image_take b key size (by omega)
  have hz2 := iter_zero_lfsr (s := s) A.co.lfsr2 ha.lfsr2_zero
  have hz3 := iter_zero_lfsr (s := s) A.co.lfsr3 ha.lfsr3_zero
  by_cases hs1 : size = p.bs
  · -- one tweakey word
    subst hs1
    have hsp := setTk1_spec A o hc { ks with rounds := p.r1 } key false (by simpa using hl1)
    obtain ⟨hr, hlen, htop, _⟩ := hsp
    have hd1 : (key.take p.bs).drop p.bs = [] := by simp
    have hd2 : (key.take p.bs).drop (2 * p.bs) = [] := by simp; omega
    simp only [setKeyInner, if_true]
    refine ⟨?_, by simpa using hr, by simpa using hlen⟩
    apply keyed_of_tops A o hc ha
    intro i hi
    have hi' : i < p.r1 := by simpa [hr] using hi
    simp only [implTweakey, hd1, hd2, himg1]
    have himg0 : image b ([] : Bytes) = 0 := by simp [image, leNat]
    rw [himg0, ha.cells_zero, hz2, hz3, topRows_zero, xorCells_zero, xorCells_zero]
    exact htop i hi'
  · by_cases hs2 : size ≤ 2 * p.bs
    · -- two tweakey words
      have hsp1 := setTk1_spec A o hc { ks with rounds := p.r2 } key false (by simpa using hl2)
      obtain ⟨hr1, hlen1, htop1, _⟩ := hsp1
      have hsp2 := setTkN_spec A o hc false (setTk1 o { ks with rounds := p.r2 } key false) (key.drop p.bs) (size - p.bs) j2
        (by rw [hr1, hlen1]; simpa using hl2)
      obtain ⟨hr2, hlen2, htop2, _⟩ := hsp2
      simp only [setKeyInner, hs1, hs2, if_false, if_true]
      refine ⟨?_, by rw [hr2, hr1], by rw [hlen2, hlen1]⟩
      apply keyed_of_tops A o hc ha
      intro i hi
      have hi2 : i < (setTk1 o { ks with rounds := p.r2 } key false).rounds := by rw [hr2] at hi; exact hi
      have hi1 : i < p.r2 := by rw [hr1] at hi2; exact hi2
      rw [htop2 i hi2, htop1 i hi1]
      have hd2 : (key.take size).drop (2 * p.bs) = [] := by simp; omega
      have himg0 : image b ([] : Bytes) = 0 := by simp [image, leNat]
      have hk2 : (key.drop p.bs).take (size - p.bs) = (key.take size).drop p.bs := by
        rw [List.drop_take]
      have hload : o.tk2Load (size - p.bs) j2 (image b ((key.drop p.bs).take (size - p.bs))) = image b ((key.take size).drop p.bs) := by
        rw [hc.tk2Load _ _ _ (by omega) (by omega), hk2]
        apply image_and_mask
        simp; omega
      simp only [implTweakey, hd2, himg1, himg0, ha.cells_zero, hz3, topRows_zero, xorCells_zero, Bool.false_eq_true, if_false, hload]
    · -- three tweakey words
      have hsp1 := setTk1_spec A o hc { ks with rounds := p.r3 } key false (by simpa using hl3)
      obtain ⟨hr1, hlen1, htop1, _⟩ := hsp1
      have hsp2 := setTkN_spec A o hc false (setTk1 o { ks with rounds := p.r3 } key false) (key.drop p.bs) p.bs j2
        (by rw [hr1, hlen1]; simpa using hl3)
      obtain ⟨hr2, hlen2, htop2, _⟩ := hsp2
      have hsp3 := setTkN_spec A o hc true (setTkN o false (setTk1 o { ks with rounds := p.r3 } key false) (key.drop p.bs) p.bs j2)
        (key.drop (2 * p.bs)) (size - 2 * p.bs) j3 (by rw [hr2, hr1, hlen2, hlen1]; simpa using hl3)
      obtain ⟨hr3, hlen3, htop3, _⟩ := hsp3
      simp only [setKeyInner, hs1, hs2, if_false]
      refine ⟨?_, by rw [hr3, hr2, hr1], by rw [hlen3, hlen2, hlen1]⟩
      apply keyed_of_tops A o hc ha
      intro i hi
      have hi3 : i < (setTkN o false (setTk1 o { ks with rounds := p.r3 } key false) (key.drop p.bs) p.bs j2).rounds := by rw [hr3] at hi; exact hi
      have hi2 : i < (setTk1 o { ks with rounds := p.r3 } key false).rounds := by rw [hr2] at hi3; exact hi3
      have hi1 : i < p.r3 := by rw [hr1] at hi2; exact hi2
      rw [htop3 i hi3, htop2 i hi2, htop1 i hi1]
      have hload2 : o.tk2Load p.bs j2 (image b ((key.drop p.bs).take p.bs)) = image b ((key.take size).drop p.bs) := by
        rw [hc.tk2Load _ _ _ (by omega) (by omega)]
        rw [image_and_mask b _ p.bs (by simp; omega)]
        rw [image_take b _ p.bs (by omega)]
        rw [← image_take b ((key.take size).drop p.bs) p.bs (by omega)]
        rw [← image_take b (key.drop p.bs) p.bs (by omega)]
        congr 1
        rw [List.drop_take, List.take_take]
        congr 1
        omega
      have hk3 : (key.drop (2 * p.bs)).take (size - 2 * p.bs) = (key.take size).drop (2 * p.bs) := by
        rw [List.drop_take]
      have hload3 : o.tk3Load (size - 2 * p.bs) j3 (image b ((key.drop (2 * p.bs)).take (size - 2 * p.bs))) = image b ((key.take size).drop (2 * p.bs)) := by
        rw [hc.tk3Load _ _ _ (by omega) (by omega), hk3]
        apply image_and_mask
        simp; omega
      simp only [implTweakey, himg1, Bool.false_eq_true, if_false, if_true, hload2, hload3]

end
end SkinnyVerif.Lemmas
