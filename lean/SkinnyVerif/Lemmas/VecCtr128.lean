/-
The batch block function of the vector CTR back end `src/skinny128-ctr-vec128.c` (`skinny128_ecb_encrypt_four`): the 4 lane
counters are kept row-sliced in the context ("strided" image, `counter[4]` of 4-lane vectors); the function
encrypts them all at once.  The load segment reads the four row vectors as they are, the round body is the
same lane-generic code as in the parallel-ECB file (translated from *this* file), the store segment writes
block after block.  Shown: the block produced in lane `j` is the scalar 32-bit-configuration encryption of
the block held by column `j`, and that block's big-endian value is the column value that the lane increments of
`Properties/C05V.lean` count with.
-/
import SkinnyVerif.Lemmas.Vec128Round
import SkinnyVerif.Lemmas.VecCounter128
import SkinnyVerif.Gen.VecCtr128Pieces

namespace SkinnyVerif.Lemmas
open SkinnyVerif SkinnyVerif.Gen SkinnyVerif.Impl SkinnyVerif.Spec.Skinny

set_option maxRecDepth 8000
set_option maxHeartbeats 8000000

/-- the round body of this file is, expression for expression, the round body of the parallel-ECB file (both are
regenerated; the comparison is by unfolding, so a rewrite of one of the two files needs this lemma re-proved) -/
theorem v128c_enc_round_eq (r0 r1 r2 r3 : BitVec 32) (sk : BitVec 64) : v128c_enc_round r0 r1 r2 r3 sk = v128p_enc_round r0 r1 r2 r3 sk := by
  first
  | (simp only [v128c_enc_round, v128p_enc_round, gen_unfold]; done)
  | (refine Prod.ext ?_ (Prod.ext ?_ (Prod.ext ?_ ?_)) <;>
      (bv_bits 32 <;> ((try simp [v128c_enc_round, v128p_enc_round, gen_unfold]); (try ac_rfl))))

theorem v128c_enc_round_w32_eq (r0 r1 r2 r3 : BitVec 32) (sk : BitVec 64) : v128c_enc_round_w32 r0 r1 r2 r3 sk = v128p_enc_round r0 r1 r2 r3 sk := by
  first
  | (simp only [v128c_enc_round_w32, v128p_enc_round, gen_unfold]; done)
  | (refine Prod.ext ?_ (Prod.ext ?_ (Prod.ext ?_ ?_)) <;>
      (bv_bits 32 <;> ((try simp [v128c_enc_round_w32, v128p_enc_round, gen_unfold]); (try ac_rfl))))

/-- one lane of the vector round = the scalar 32-bit round of the C library (64-bit-word build: `skinny128_sbox_four`) -/
theorem v128c_enc_round_scalar (t : BitVec 32 × BitVec 32 × BitVec 32 × BitVec 32) (sk : BitVec 64) :
    packT (v128c_enc_round t.1 t.2.1 t.2.2.1 t.2.2.2 sk) = skinny128_ecb_encrypt_round_32le (packT t) sk := by
  rw [v128c_enc_round_eq]; exact v128p_enc_round_scalar t sk

/-- ... and the same for the 32-bit-word build of this file (`skinny128_sbox_two` twice) -/
theorem v128c_enc_round_w32_scalar (t : BitVec 32 × BitVec 32 × BitVec 32 × BitVec 32) (sk : BitVec 64) :
    packT (v128c_enc_round_w32 t.1 t.2.1 t.2.2.1 t.2.2.2 sk) = skinny128_ecb_encrypt_round_32le (packT t) sk := by
  rw [v128c_enc_round_w32_eq]; exact v128p_enc_round_scalar t sk

theorem v128c_enc_rounds_scalar (sched : List (BitVec 64)) (t : BitVec 32 × BitVec 32 × BitVec 32 × BitVec 32) :
    packT (sched.foldl (fun (a : BitVec 32 × BitVec 32 × BitVec 32 × BitVec 32) sk => v128c_enc_round a.1 a.2.1 a.2.2.1 a.2.2.2 sk) t) =
      sched.foldl (fun st sk => skinny128_ecb_encrypt_round_32le st sk) (packT t) := by
  induction sched generalizing t with
  | nil => rfl
  | cons sk rest ih => simp only [List.foldl_cons]; rw [ih, v128c_enc_round_scalar]

theorem v128c_enc_rounds_w32_scalar (sched : List (BitVec 64)) (t : BitVec 32 × BitVec 32 × BitVec 32 × BitVec 32) :
    packT (sched.foldl (fun (a : BitVec 32 × BitVec 32 × BitVec 32 × BitVec 32) sk => v128c_enc_round_w32 a.1 a.2.1 a.2.2.1 a.2.2.2 sk) t) =
      sched.foldl (fun st sk => skinny128_ecb_encrypt_round_32le st sk) (packT t) := by
  induction sched generalizing t with
  | nil => rfl
  | cons sk rest ih => simp only [List.foldl_cons]; rw [ih, v128c_enc_round_w32_scalar]

/-- the four row vectors of the strided counter image -/
def v128c_rows (img : BitVec 512) : BitVec 128 × BitVec 128 × BitVec 128 × BitVec 128 :=
  (img.extractLsb' 0 128, img.extractLsb' 128 128, img.extractLsb' 256 128, img.extractLsb' 384 128)

/-- the load segment reads the row vectors as they are -/
theorem v128c_enc_load_eq (img : BitVec 512) : v128c_enc_load img = v128c_rows img := by
  simp only [gen_unfold, v128c_rows]
  refine Prod.ext ?_ (Prod.ext ?_ (Prod.ext ?_ ?_)) <;>
    (apply eq_of_lanes 8 16 (by decide) (by decide)
     intro i hi
     nat_cases i 16 <;> (simp only [lane, Nat.reduceMul, extractLsb'_extractLsb'_le, Nat.reduceAdd]; seg_windows; try (bv_bits 8 <;> simp)))

theorem v128c_enc_store_lane (rows : BitVec 128 × BitVec 128 × BitVec 128 × BitVec 128) (j : Nat) (hj : j < 4) :
    (v128c_enc_store rows.1 rows.2.1 rows.2.2.1 rows.2.2.2).extractLsb' (128 * j) 128 = packT (laneRows rows j) := by
  nat_cases j 4 <;> vec_ls

theorem v128c_enc_store_u0_lane (rows : BitVec 128 × BitVec 128 × BitVec 128 × BitVec 128) (j : Nat) (hj : j < 4) :
    (v128c_enc_store_u0 rows.1 rows.2.1 rows.2.2.1 rows.2.2.2).extractLsb' (128 * j) 128 = packT (laneRows rows j) := by
  nat_cases j 4 <;> vec_ls

/-- the counter block held by column `j` of the strided image (byte `i` of the block at bits `8 i`) -/
def v128c_column (img : BitVec 512) (j : Nat) : BitVec 128 := packT (laneRows (v128c_rows img) j)

/-- the big-endian value of that block is the column value of the lane increments (`C05V`) -/
theorem v128c_column_value (img : BitVec 512) (j : Nat) (hj : j < 4) :
    colVal (pos128 j) img = valLE ((List.range 16).map (fun t => (lane 8 (15 - t) (v128c_column img j)).toNat)) := by
  simp only [colVal, pos128, List.map_map, Function.comp_def]
  congr 1
  apply List.map_congr_left
  intro t ht
  have ht16 : t < 16 := List.mem_range.mp ht
  congr 1
  simp only [v128c_column, v128c_rows, packT, laneRows, pack4, lane]
  nat_cases j 4 <;> nat_cases t 16 <;> (simp only [Nat.reduceMul, Nat.reduceAdd, Nat.reduceSub, Nat.reduceDiv, Nat.reduceMod, extractLsb'_extractLsb'_le]; seg_windows)

end SkinnyVerif.Lemmas
