/-
MANTIS key material: big-endian words of the specification versus little-endian memory images,
and `k0' = (k0 ⋙ 1) ⊕ (k0 ≫ 63)` as computed byte-wise by `mantis_unpack_rotated_block`.
-/
import SkinnyVerif.Lemmas.MantisRef
import SkinnyVerif.Lemmas.ByteCells

namespace SkinnyVerif.Lemmas
open SkinnyVerif SkinnyVerif.Gen SkinnyVerif.Impl SkinnyVerif.Spec.Skinny SkinnyVerif.Spec.Mantis

/-- byte reversal of a 64-bit word -/
def bswap64 (x : BitVec 64) : BitVec 64 :=
  ((x.extractLsb' 0 8).setWidth 64 <<< 56) ||| ((x.extractLsb' 8 8).setWidth 64 <<< 48) |||
  ((x.extractLsb' 16 8).setWidth 64 <<< 40) ||| ((x.extractLsb' 24 8).setWidth 64 <<< 32) |||
  ((x.extractLsb' 32 8).setWidth 64 <<< 24) ||| ((x.extractLsb' 40 8).setWidth 64 <<< 16) |||
  ((x.extractLsb' 48 8).setWidth 64 <<< 8) ||| (x.extractLsb' 56 8).setWidth 64

set_option maxRecDepth 8000 in
theorem lane8_bswap64 (x : BitVec 64) (i : Nat) (hi : i < 8) : lane 8 i (bswap64 x) = lane 8 (7 - i) x := by
  nat_cases i 8 <;> (bv_bits 8 <;> simp [bswap64, lane])

theorem leNat_append (a b : Bytes) : leNat (a ++ b) = leNat a + 256 ^ a.length * leNat b := by
  induction a with
  | nil => simp [leNat]
  | cons x xs ih =>
    simp only [List.cons_append, leNat, ih, List.length_cons, Nat.pow_succ]
    rw [Nat.mul_add, ← Nat.mul_assoc, Nat.mul_comm 256 (256 ^ xs.length)]
    omega

theorem foldl_be (b : Bytes) (acc : Nat) :
    b.foldl (fun a x => a * 256 + x.toNat) acc = acc * 256 ^ b.length + leNat b.reverse := by
  induction b generalizing acc with
  | nil => simp [leNat]
  | cons x xs ih =>
    simp only [List.foldl_cons, ih, List.reverse_cons, leNat_append, List.length_reverse, List.length_cons, leNat, Nat.pow_succ,
      Nat.mul_zero, Nat.add_zero]
    rw [Nat.add_mul, Nat.mul_assoc, Nat.mul_comm 256 (256 ^ xs.length), Nat.mul_comm (256 ^ xs.length) x.toNat]
    omega

theorem beWord_eq (b : Bytes) : beWord b = image 64 b.reverse := by
  simp [beWord, image, foldl_be]

theorem image_reverse8 (b : Bytes) (hb : b.length = 8) : image 64 b.reverse = bswap64 (image 64 b) := by
  apply eq_of_lanes 8 8 (by decide) (by decide)
  intro i hi
  rw [lane8_bswap64 _ _ hi, lane8_image 64 _ i (by omega), lane8_image 64 _ (7 - i) (by omega)]
  congr 2
  rw [List.getD_eq_getElem?_getD, List.getD_eq_getElem?_getD, List.getElem?_reverse (by omega)]
  congr 2
  omega

theorem beWord_bswap (b : Bytes) (hb : b.length = 8) : beWord b = bswap64 (image 64 b) := by
  rw [beWord_eq, image_reverse8 b hb]

set_option maxRecDepth 8000 in
set_option maxHeartbeats 2000000 in
/-- the cells of a big-endian word are the cells of the byte-reversed image -/
theorem cellsOfWord_bswap (x : BitVec 64) : cellsOfWord (bswap64 x) = cells4 x := by
  apply cells_ext <;>
    (simp [cellsOfWord, cells4_get]
     bv_bits 4 <;> simp [bswap64, lane])

set_option maxRecDepth 8000 in
set_option maxHeartbeats 4000000 in
/-- `mantis_unpack_rotated_block` computes `k0'` -/
theorem rot_le_cells (x : BitVec 64) : cells4 (mantis_unpack_rotated_block_le x) = cellsOfWord (k0prime (bswap64 x)) := by
  apply cells_ext <;>
    (simp [cellsOfWord, cells4_get]
     bv_bits 4 <;> simp [mantis_unpack_rotated_block_le, gen_unfold, k0prime, bswap64, lane, BitVec.getElem_rotateRight])

set_option maxRecDepth 8000 in
set_option maxHeartbeats 4000000 in
theorem rot_be_eq (x : BitVec 64) : mantis_unpack_rotated_block_be x = mantis_unpack_rotated_block_le x := by
  bv_bits 64 <;> simp [mantis_unpack_rotated_block_le, mantis_unpack_rotated_block_be, gen_unfold]

end SkinnyVerif.Lemmas

namespace SkinnyVerif.Lemmas
open SkinnyVerif SkinnyVerif.Gen SkinnyVerif.Impl SkinnyVerif.Spec.Skinny SkinnyVerif.Spec.Mantis

/-- what has to be shown about one configuration's key-handling functions -/
structure MantisKeysOK (o : MantisOps) : Prop where
  enc_k0 : ∀ k, (MantisKey.ofImage (o.setKeyEnc k).2).k0 = k.extractLsb' 0 64
  enc_k0p : ∀ k, (MantisKey.ofImage (o.setKeyEnc k).2).k0prime = mantis_unpack_rotated_block_le (k.extractLsb' 0 64)
  enc_k1 : ∀ k, (MantisKey.ofImage (o.setKeyEnc k).2).k1 = k.extractLsb' 64 64
  enc_tw : ∀ k, (MantisKey.ofImage (o.setKeyEnc k).2).tweak = 0
  dec_k0 : ∀ k, (MantisKey.ofImage (o.setKeyDec k).2).k0 = mantis_unpack_rotated_block_le (k.extractLsb' 0 64)
  dec_k0p : ∀ k, (MantisKey.ofImage (o.setKeyDec k).2).k0prime = k.extractLsb' 0 64
  dec_k1 : ∀ k, (MantisKey.ofImage (o.setKeyDec k).2).k1 = k.extractLsb' 64 64 ^^^ alphaImg
  dec_tw : ∀ k, (MantisKey.ofImage (o.setKeyDec k).2).tweak = 0
  unpack0 : ∀ x, o.unpack0 x = x.extractLsb' 0 64
  swap_k0 : ∀ ks : MantisKey, (MantisKey.ofImage (o.swapModes ks.image)).k0 = ks.k0prime
  swap_k0p : ∀ ks : MantisKey, (MantisKey.ofImage (o.swapModes ks.image)).k0prime = ks.k0
  swap_k1 : ∀ ks : MantisKey, (MantisKey.ofImage (o.swapModes ks.image)).k1 = ks.k1 ^^^ alphaImg
  swap_tw : ∀ ks : MantisKey, (MantisKey.ofImage (o.swapModes ks.image)).tweak = ks.tweak

syntax "mantis_key_bits" : tactic
macro_rules
  | `(tactic| mantis_key_bits) => `(tactic|
    (simp only [opsMantis, MantisKey.ofImage, rot_be_eq,
        mantis_set_key_enc_64le, mantis_set_key_dec_64le, mantis_set_key_enc_32le, mantis_set_key_dec_32le,
        mantis_set_key_enc_64be, mantis_set_key_dec_64be, mantis_set_key_enc_32be, mantis_set_key_dec_32be]
     bv_bits 64 <;>
      simp [gen_unfold, alphaImg, MantisKey.image, mantis_unpack_block_le_0, mantis_unpack_block_le_8, mantis_unpack_block_be_0, mantis_unpack_block_be_8,
            mantis_swap_modes_64le, mantis_swap_modes_32le, mantis_swap_modes_64be, mantis_swap_modes_32be, extractLsb'_extractLsb'_le]))

set_option maxRecDepth 8000
set_option maxHeartbeats 4000000

theorem mantisKeys_64le : MantisKeysOK (opsMantis .c64le) := by
  constructor <;> intro x <;> mantis_key_bits
theorem mantisKeys_32le : MantisKeysOK (opsMantis .c32le) := by
  constructor <;> intro x <;> mantis_key_bits
theorem mantisKeys_64be : MantisKeysOK (opsMantis .c64be) := by
  constructor <;> intro x <;> mantis_key_bits
theorem mantisKeys_32be : MantisKeysOK (opsMantis .c32be) := by
  constructor <;> intro x <;> mantis_key_bits

theorem mantis_rc_ok (t : Tag) : ∀ i, i < 8 → cells4 ((opsMantis t).rc.getD i 0) = rcCells i := by
  intro i hi
  cases t <;> (nat_cases i 8 <;> decide +kernel)

end SkinnyVerif.Lemmas
