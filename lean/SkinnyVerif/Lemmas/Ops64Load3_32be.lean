/- SKINNY-64, configuration 32be: the size-specialised TK3 loaders zero-pad the key bytes (no truncation, no uninitialised rows) -/
import SkinnyVerif.Lemmas.OpsCorrect
import SkinnyVerif.Gen.Skinny64PiecesOuts

namespace SkinnyVerif.Lemmas
open SkinnyVerif SkinnyVerif.Gen SkinnyVerif.Spec.Skinny SkinnyVerif.Impl

set_option maxRecDepth 8000 in
set_option maxHeartbeats 32000000 in
theorem tk3Load64_32be : ∀ k junk key, 1 ≤ k → k ≤ 8 → (ops64 .c32be).tk3Load k junk key = key &&& BitVec.ofNat 64 (2 ^ (8 * k) - 1) := by
  intro k junk key h1 h2
  simp only [ops64]
  nat_cases k 9
  · omega
  all_goals (simp only [skinny64_set_tk3_load_32be]; bv_bits 64 <;> simp [gen_unfold])

end SkinnyVerif.Lemmas
