/-
CTR mode (generic in the block cipher, the block size, the batch size and the back-end style):
the keystream-buffer state machine of `*_ctr_*_encrypt` produces `input xor keystream` at the
current stream position, whatever the sizes of the calls, and leaves a state that continues
the same stream.  Proved by induction over the loop iterations of one call (`ctrLoop_spec`)
and then over the list of calls (`Properties/C05.lean`).
-/
import SkinnyVerif.Impl.Modes
import SkinnyVerif.Spec.Modes

namespace SkinnyVerif.Lemmas
open SkinnyVerif SkinnyVerif.Impl

/-- keystream byte `p` for the counter family `ctr` (block `i` is `E (ctr i)`) -/
def ksByte (E : Bytes → Bytes) (bs : Nat) (ctr : Nat → Bytes) (p : Nat) : UInt8 :=
  (E (ctr (p / bs))).getD (p % bs) 0

def ksRange (E : Bytes → Bytes) (bs : Nat) (ctr : Nat → Bytes) (off n : Nat) : Bytes :=
  (List.range n).map fun j => ksByte E bs ctr (off + j)

theorem ksRange_length (E : Bytes → Bytes) (bs : Nat) (ctr : Nat → Bytes) (off n : Nat) : (ksRange E bs ctr off n).length = n := by
  simp [ksRange]

theorem ksRange_add (E : Bytes → Bytes) (bs : Nat) (ctr : Nat → Bytes) (off n1 n2 : Nat) :
    ksRange E bs ctr off (n1 + n2) = ksRange E bs ctr off n1 ++ ksRange E bs ctr (off + n1) n2 := by
  simp only [ksRange, List.range_add, List.map_append, List.map_map]
  congr 1
  apply List.map_congr_left
  intro j _
  simp [Nat.add_assoc]

theorem ksRange_take (E : Bytes → Bytes) (bs : Nat) (ctr : Nat → Bytes) (off n k : Nat) (h : k ≤ n) :
    (ksRange E bs ctr off n).take k = ksRange E bs ctr off k := by
  obtain ⟨m, rfl⟩ := Nat.exists_eq_add_of_le h
  rw [ksRange_add, List.take_append_of_le_length (by simp [ksRange_length]), List.take_of_length_le (by simp [ksRange_length])]

theorem ksRange_drop (E : Bytes → Bytes) (bs : Nat) (ctr : Nat → Bytes) (off n k : Nat) (h : k ≤ n) :
    (ksRange E bs ctr off n).drop k = ksRange E bs ctr (off + k) (n - k) := by
  obtain ⟨m, rfl⟩ := Nat.exists_eq_add_of_le h
  rw [ksRange_add, List.drop_append_of_le_length (by simp [ksRange_length]), List.drop_of_length_le (by simp [ksRange_length])]
  simp

theorem xorBytes_append (a b k1 k2 : Bytes) (h : a.length = k1.length) :
    xorBytes (a ++ b) (k1 ++ k2) = xorBytes a k1 ++ xorBytes b k2 := by
  simp only [xorBytes]
  exact List.zipWith_append h

theorem xorBytes_take_right (a k : Bytes) : xorBytes a k = xorBytes a (k.take a.length) := by
  simp only [xorBytes]
  induction a generalizing k with
  | nil => simp
  | cons x xs ih =>
    cases k with
    | nil => simp
    | cons y ys => simp [ih ys]

/-- the concatenated encryptions of `B` consecutive counter blocks are `B*bs` keystream bytes -/
theorem batch_eq_ksRange (E : Bytes → Bytes) (bs B : Nat) (hE : ∀ x, (E x).length = bs) (ctr : Nat → Bytes) (base : Nat) :
    ((List.range B).map (fun j => ctr (base + j))).flatMap E = ksRange E bs ctr (base * bs) (B * bs) := by
  induction B with
  | zero => simp [ksRange]
  | succ B ih =>
    rw [List.range_succ, List.map_append, List.flatMap_append, ih, Nat.succ_mul, ksRange_add]
    congr 1
    simp only [List.map_cons, List.map_nil, List.flatMap_cons, List.flatMap_nil, List.append_nil]
    apply List.ext_getElem
    · simp [hE, ksRange_length]
    · intro i h1 h2
      have hi : i < bs := by simpa [hE] using h1
      simp only [ksRange, List.getElem_map, List.getElem_range, ksByte]
      have hbs : 0 < bs := by omega
      have e1 : (base * bs + B * bs + i) / bs = base + B := by
        rw [← Nat.add_mul, Nat.add_comm, Nat.add_mul_div_right _ _ hbs, Nat.div_eq_of_lt hi, Nat.zero_add]
      have e2 : (base * bs + B * bs + i) % bs = i := by
        rw [← Nat.add_mul, Nat.add_comm, Nat.add_mul_mod_self_right, Nat.mod_eq_of_lt hi]
      rw [e1, e2, List.getD_eq_getElem?_getD, List.getElem?_eq_getElem (by simpa [hE] using hi)]
      rfl

theorem xor_ks_split (E : Bytes → Bytes) (bs : Nat) (ctr : Nat → Bytes) (input : Bytes) (n k : Nat) (hk : k ≤ input.length) :
    xorBytes input (ksRange E bs ctr n input.length) =
      xorBytes (input.take k) (ksRange E bs ctr n k) ++ xorBytes (input.drop k) (ksRange E bs ctr (n + k) (input.length - k)) := by
  have hlen2 : input.length = k + (input.length - k) := by omega
  have h1 : xorBytes input (ksRange E bs ctr n input.length) =
      xorBytes (input.take k ++ input.drop k) (ksRange E bs ctr n k ++ ksRange E bs ctr (n + k) (input.length - k)) := by
    rw [List.take_append_drop, ← ksRange_add, ← hlen2]
  rw [h1, xorBytes_append _ _ _ _ (by simp [ksRange_length]; omega)]

theorem ceil_mul (bs k : Nat) (h : 0 < bs) : (k * bs + bs - 1) / bs = k := by
  have h1 : k * bs + bs - 1 = bs * k + (bs - 1) := by rw [Nat.mul_comm]; omega
  have h2 : bs - 1 < bs := by omega
  rw [h1, Nat.mul_add_div h, Nat.div_eq_of_lt h2, Nat.add_zero]

theorem ceil_add (bs k r : Nat) (h : 0 < bs) : (k * bs + r + bs - 1) / bs = k + (r + bs - 1) / bs := by
  have h1 : k * bs + r + bs - 1 = bs * k + (r + bs - 1) := by rw [Nat.mul_comm]; omega
  rw [h1, Nat.mul_add_div h]

theorem ceil_le (bs B r : Nat) (h : 0 < bs) (hr : r < B * bs) : (r + bs - 1) / bs ≤ B := by
  apply Nat.le_of_lt_succ
  apply Nat.div_lt_of_lt_mul
  have h1 : bs * B.succ = B * bs + bs := by rw [Nat.mul_succ, Nat.mul_comm]
  rw [h1]
  omega

/-! ## the loop invariant -/

/-- index of the first counter block of the next batch when `n` bytes have been consumed -/
def nextBase (W B n : Nat) : Nat := if n % W = 0 then (n / W) * B else (n / W + 1) * B

/-- the CTR context continues, at byte position `n`, the stream whose block `i` is
`E (ctr (b0 + i))` (the lane counters may lag behind by the pending increment) -/
structure CInv (E : Bytes → Bytes) (bs B : Nat) (lazy : Bool) (ctr : Nat → Bytes) (b0 n : Nat) (st : CtrState) : Prop where
  lanes : ∃ base, st.lanes = (List.range B).map (fun j => ctr (base + j)) ∧
    base + (if lazy then st.pending else 0) = b0 + nextBase (B * bs) B n ∧ st.pending ≤ B
  bufA : n % (B * bs) = 0 → st.offset ≥ B * bs
  bufB : n % (B * bs) ≠ 0 → st.offset = n % (B * bs) ∧
    st.ecounter = ksRange E bs (fun i => ctr (b0 + i)) ((n / (B * bs)) * (B * bs)) (B * bs) ∧ (lazy = true → st.pending = B)

section
variable (inc : Nat → Bytes → Bytes) (E : Bytes → Bytes) (bs B : Nat) (lazy : Bool) (ctr : Nat → Bytes)
variable (hbs : 0 < bs) (hB : 0 < B) (hE : ∀ x, (E x).length = bs)
variable (hinc : ∀ k i, k ≤ B → inc k (ctr i) = ctr (i + k))
include hbs hB hE hinc

theorem ctrLoop_spec (b0 : Nat) (fuel : Nat) : ∀ (st : CtrState) (input out : Bytes) (n : Nat), input.length < fuel →
    CInv E bs B lazy ctr b0 n st →
    (ctrLoop inc E bs B lazy fuel st input out).2 = out ++ xorBytes input (ksRange E bs (fun i => ctr (b0 + i)) n input.length) ∧
    CInv E bs B lazy ctr b0 (n + input.length) (ctrLoop inc E bs B lazy fuel st input out).1 := by
  have hW : 0 < B * bs := Nat.mul_pos hB hbs
  induction fuel with
  | zero => intro st input out n h; omega
  | succ fuel ih =>
    intro st input out n hlen hinv
    by_cases hemp : input = []
    · subst hemp
      simp only [ctrLoop, List.isEmpty_nil, if_true, List.length_nil, Nat.add_zero]
      exact ⟨by simp [ksRange, xorBytes], hinv⟩
    · have hne : input.isEmpty = false := by cases input <;> simp_all
      have hpos : 0 < input.length := by cases input <;> simp_all
      obtain ⟨⟨base, hl, hb, hp⟩, hbufA, hbufB⟩ := hinv
      have hnmod := Nat.div_add_mod n (B * bs)
      by_cases hoff : st.offset ≥ B * bs
      · -- a new batch is generated: the stream is at a batch boundary
        have hr : n % (B * bs) = 0 := by
          by_cases h0 : n % (B * bs) = 0
          · exact h0
          · have := (hbufB h0).1
            have : n % (B * bs) < B * bs := Nat.mod_lt _ hW
            omega
        have hn : (n / (B * bs)) * (B * bs) = n := by rw [Nat.mul_comm]; omega
        have hnb : nextBase (B * bs) B n = (n / (B * bs)) * B := by simp [nextBase, hr]
        have hlanes0 : (if lazy then st.lanes.map (inc st.pending) else st.lanes) =
            (List.range B).map (fun j => ctr (b0 + ((n / (B * bs)) * B + j))) := by
          cases lazy
          · simp only [Bool.false_eq_true, if_false] at hb ⊢
            rw [hl]; simp only [Nat.add_zero] at hb; rw [hb, hnb]
            apply List.map_congr_left
            intro j _
            congr 1; omega
          · simp only [if_true] at hb ⊢
            rw [hl, List.map_map]
            apply List.map_congr_left
            intro j _
            simp only [Function.comp]
            rw [hinc _ _ hp]
            congr 1
            omega
        have hec : (if lazy then st.lanes.map (inc st.pending) else st.lanes).flatMap E =
            ksRange E bs (fun i => ctr (b0 + i)) n (B * bs) := by
          rw [hlanes0, batch_eq_ksRange E bs B hE (fun i => ctr (b0 + i)), Nat.mul_assoc, hn]
        -- the lanes after the batch
        have hlanes1 : ∃ base', (if lazy then (if lazy then st.lanes.map (inc st.pending) else st.lanes)
              else (if lazy then st.lanes.map (inc st.pending) else st.lanes).map (inc B)) = (List.range B).map (fun j => ctr (base' + j)) ∧
            base' + (if lazy then (if lazy then B else st.pending) else 0) = b0 + (n / (B * bs) + 1) * B := by
          cases lazy
          · refine ⟨b0 + (n / (B * bs)) * B + B, ?_, by simp [Nat.add_mul]; omega⟩
            simp only [Bool.false_eq_true, if_false] at hlanes0 ⊢
            rw [hlanes0, List.map_map]
            apply List.map_congr_left
            intro j _
            simp only [Function.comp]
            rw [hinc _ _ (Nat.le_refl B)]
            congr 1; omega
          · refine ⟨b0 + (n / (B * bs)) * B, ?_, by simp [Nat.add_mul]; omega⟩
            simp only [if_true] at hlanes0 ⊢
            rw [hlanes0]
            apply List.map_congr_left
            intro j _
            congr 1; omega
        obtain ⟨base', hl1, hb1⟩ := hlanes1
        have hpend : (if lazy then B else st.pending) ≤ B := by cases lazy <;> simp [hp]
        by_cases hfull : input.length ≥ B * bs
        · -- a whole batch is consumed
          simp only [ctrLoop, hne, Bool.false_eq_true, if_false, hoff, if_true, hfull]
          have hr' : (n + B * bs) % (B * bs) = 0 := by rw [Nat.add_mod_right]; exact hr
          have hq' : (n + B * bs) / (B * bs) = n / (B * bs) + 1 := Nat.add_div_right n hW
          have hinv' : CInv E bs B lazy ctr b0 (n + B * bs) { st with lanes := (if lazy then (if lazy then st.lanes.map (inc st.pending) else st.lanes) else (if lazy then st.lanes.map (inc st.pending) else st.lanes).map (inc B)), ecounter := (if lazy then st.lanes.map (inc st.pending) else st.lanes).flatMap E, pending := (if lazy then B else st.pending) } :=
            ⟨⟨base', hl1, by simp only [nextBase, hr', if_true, hq']; exact hb1, hpend⟩, fun _ => hoff, fun h => absurd hr' h⟩
          have := ih _ (input.drop (B * bs)) (out ++ xorBytes (input.take (B * bs)) ((if lazy then st.lanes.map (inc st.pending) else st.lanes).flatMap E))
            (n + B * bs) (by simp; omega) hinv'
          obtain ⟨h1, h2⟩ := this
          constructor
          · rw [h1, hec, List.append_assoc, xor_ks_split E bs (fun i => ctr (b0 + i)) input n (B * bs) hfull]
            simp
          · have : n + B * bs + (input.drop (B * bs)).length = n + input.length := by simp; omega
            rw [this] at h2; exact h2
        · -- the last, partial part of the request
          have hlt : input.length < B * bs := by omega
          simp only [ctrLoop, hne, Bool.false_eq_true, if_false, hoff, if_true, hfull]
          have hr' : (n + input.length) % (B * bs) = input.length := by
            rw [Nat.add_mod, hr, Nat.zero_add, Nat.mod_mod, Nat.mod_eq_of_lt hlt]
          have hq' : (n + input.length) / (B * bs) = n / (B * bs) := by
            have : n + input.length = (B * bs) * (n / (B * bs)) + input.length := by omega
            rw [this, Nat.mul_add_div hW, Nat.div_eq_of_lt hlt]; simp
          have hne0 : ¬ (n + input.length) % (B * bs) = 0 := by rw [hr']; omega
          constructor
          · rw [hec, xorBytes_take_right input (ksRange E bs (fun i => ctr (b0 + i)) n (B * bs)), ksRange_take _ _ _ _ _ _ (by omega)]
          · refine ⟨⟨base', hl1, ?_, hpend⟩, fun h => absurd h hne0, fun _ => ⟨hr'.symm, ?_, fun hz => by simp [hz]⟩⟩
            · simp only [nextBase, hne0, if_false, hq']; exact hb1
            · show (if lazy then st.lanes.map (inc st.pending) else st.lanes).flatMap E = _
              rw [hec, hq', hn]
      · -- left-over keystream from the previous request
        have hr : ¬ n % (B * bs) = 0 := fun h0 => hoff (hbufA h0)
        obtain ⟨hoffeq, hecnt, hpB⟩ := hbufB hr
        have hrlt : n % (B * bs) < B * bs := Nat.mod_lt _ hW
        have hpos0 : (n / (B * bs)) * (B * bs) + n % (B * bs) = n := by rw [Nat.mul_comm]; exact hnmod
        simp only [ctrLoop, hne, Bool.false_eq_true, if_false, hoff]
        generalize htemp : min (B * bs - st.offset) input.length = temp
        have ht1 : temp ≤ input.length := by rw [← htemp]; exact Nat.min_le_right _ _
        have ht2 : temp ≤ B * bs - n % (B * bs) := by rw [← htemp, hoffeq]; exact Nat.min_le_left _ _
        have ht0 : 0 < temp := by rw [← htemp, hoffeq]; omega
        have hmodcases : (n % (B * bs) + temp = B * bs ∧ (n + temp) % (B * bs) = 0 ∧ (n + temp) / (B * bs) = n / (B * bs) + 1) ∨
            (n % (B * bs) + temp < B * bs ∧ (n + temp) % (B * bs) = n % (B * bs) + temp ∧ (n + temp) / (B * bs) = n / (B * bs)) := by
          by_cases hend : n % (B * bs) + temp = B * bs
          · left
            have : n + temp = (n / (B * bs) + 1) * (B * bs) := by rw [Nat.add_mul]; omega
            exact ⟨hend, by rw [this, Nat.mul_mod_left], by rw [this, Nat.mul_div_cancel _ hW]⟩
          · right
            have hlt2 : n % (B * bs) + temp < B * bs := by omega
            have : n + temp = (B * bs) * (n / (B * bs)) + (n % (B * bs) + temp) := by omega
            exact ⟨hlt2, by rw [this, Nat.mul_add_mod, Nat.mod_eq_of_lt hlt2], by rw [this, Nat.mul_add_div hW, Nat.div_eq_of_lt hlt2]; simp⟩
        have hinv' : CInv E bs B lazy ctr b0 (n + temp) { st with offset := st.offset + temp } := by
          rcases hmodcases with ⟨hend, h1, h2⟩ | ⟨hlt2, h1, h2⟩
          · refine ⟨⟨base, hl, ?_, hp⟩, fun _ => by show st.offset + temp ≥ B * bs; omega, fun h => absurd h1 h⟩
            rw [hb]; simp [nextBase, hr, h1, h2]
          · have hne1 : ¬ (n + temp) % (B * bs) = 0 := by rw [h1]; omega
            refine ⟨⟨base, hl, ?_, hp⟩, fun h => absurd h hne1, fun _ => ⟨by show st.offset + temp = _; rw [h1, hoffeq], by show st.ecounter = _; rw [h2]; exact hecnt, hpB⟩⟩
            rw [hb]; simp [nextBase, hr, hne1, h2]
        have := ih { st with offset := st.offset + temp } (input.drop temp)
          (out ++ xorBytes (input.take temp) (st.ecounter.drop st.offset)) (n + temp) (by simp; omega) hinv'
        obtain ⟨h1, h2⟩ := this
        constructor
        · rw [h1, List.append_assoc, xor_ks_split E bs (fun i => ctr (b0 + i)) input n temp ht1, hecnt, hoffeq, ksRange_drop _ _ _ _ _ _ (by omega), hpos0]
          congr 1
          congr 1
          · rw [xorBytes_take_right (input.take temp), ksRange_take _ _ _ _ _ _ (by simp; omega)]
            simp [Nat.min_eq_left ht1]
          · simp
        · have : n + temp + (input.drop temp).length = n + input.length := by simp; omega
          rw [this] at h2; exact h2

/-- one `encrypt` call -/
theorem ctrEncrypt_spec (b0 n : Nat) (st : CtrState) (input : Bytes) (hinv : CInv E bs B lazy ctr b0 n st) :
    (ctrLoop inc E bs B lazy (input.length + 1) st input []).2 = xorBytes input (ksRange E bs (fun i => ctr (b0 + i)) n input.length) ∧
    CInv E bs B lazy ctr b0 (n + input.length) (ctrLoop inc E bs B lazy (input.length + 1) st input []).1 := by
  have := ctrLoop_spec inc E bs B lazy ctr hbs hB hE hinc b0 (input.length + 1) st input [] n (by omega) hinv
  simpa using this

omit hE hinc in
/-- keystream reset after a key or tweak change (`*_reset` of the vector back ends; `offset := bs`
of the generic one, for which `B = 1`): whatever cipher `E'` is in place afterwards, the stream
restarts at the first counter block that has not been used yet -/
theorem reset_inv (E' : Bytes → Bytes) (b0 n : Nat) (st : CtrState) (hgen : lazy = false → B = 1)
    (hinv : CInv E bs B lazy ctr b0 n st) :
    CInv E' bs B lazy ctr (b0 + (n + bs - 1) / bs) 0 (st.reset bs B lazy) := by
  have hW : 0 < B * bs := Nat.mul_pos hB hbs
  obtain ⟨⟨base, hl, hb, hp⟩, hbufA, hbufB⟩ := hinv
  have h00 : (0 : Nat) % (B * bs) = 0 := Nat.zero_mod _
  -- n = (q*B)*bs + r
  have hdecomp : n = (n / (B * bs)) * B * bs + n % (B * bs) := by
    have h1 := Nat.div_add_mod n (B * bs)
    have h2 : B * bs * (n / (B * bs)) = (n / (B * bs)) * B * bs := by
      rw [Nat.mul_comm, Nat.mul_assoc]
    omega
  generalize hq : n / (B * bs) = q at *
  generalize hrr : n % (B * bs) = r at *
  have hrlt : r < B * bs := by rw [← hrr]; exact Nat.mod_lt _ hW
  by_cases hr : r = 0
  · -- at a batch boundary: nothing buffered
    have hoff := hbufA hr
    have hceil : (n + bs - 1) / bs = q * B := by
      rw [hdecomp, hr, Nat.add_zero]
      exact ceil_mul bs (q * B) hbs
    have hst : (st.reset bs B lazy).lanes = st.lanes ∧ (if lazy then (st.reset bs B lazy).pending else 0) = (if lazy then st.pending else 0) ∧
        (st.reset bs B lazy).offset ≥ B * bs ∧ (st.reset bs B lazy).pending ≤ B := by
      cases lazy
      · simp [CtrState.reset, hp]
      · have : ¬ st.offset < B * bs := by omega
        simp [CtrState.reset, this, hp]; exact hoff
    obtain ⟨e1, e2, e3, e4⟩ := hst
    refine ⟨⟨base, by rw [e1]; exact hl, ?_, e4⟩, fun _ => e3, fun h => absurd h00 h⟩
    rw [e2, hb]
    simp [nextBase, hr, hrr, hq, hceil]
  · -- part of a batch was consumed
    obtain ⟨hoffeq, _, hpB⟩ := hbufB hr
    have hceil : (n + bs - 1) / bs = q * B + (r + bs - 1) / bs := by
      rw [hdecomp]; exact ceil_add bs (q * B) r hbs
    have hu : (r + bs - 1) / bs ≤ B := ceil_le bs B r hbs hrlt
    cases hlz : lazy
    · -- generic back end (B = 1): the counter was incremented right after the block was generated
      have hB1 : B = 1 := hgen hlz
      subst hB1
      rw [hlz] at hb
      simp only [Bool.false_eq_true, if_false, Nat.add_zero] at hb
      have hu1 : (r + bs - 1) / bs = 1 := by
        have h1 : r + bs - 1 = bs * 1 + (r - 1) := by omega
        have h2 : r - 1 < bs := by omega
        rw [h1, Nat.mul_add_div hbs, Nat.div_eq_of_lt h2]
      refine ⟨⟨base, hl, ?_, hp⟩, fun _ => by simp [CtrState.reset], fun h => absurd h00 h⟩
      simp only [Bool.false_eq_true, if_false, Nat.add_zero, hb, nextBase, hrr, hq, hr, h00, if_true, hceil, hu1]
      simp
    · -- vector back ends: remember how many blocks of the batch were used
      rw [hlz] at hb
      simp only [if_true] at hb
      have hpend := hpB hlz
      have hlt : st.offset < B * bs := by omega
      have hreset : st.reset bs B true = { st with pending := (r + bs - 1) / bs, offset := B * bs } := by
        unfold CtrState.reset
        simp [hoffeq]
        intro h; omega
      rw [hreset]
      refine ⟨⟨base, hl, ?_, hu⟩, fun _ => Nat.le_refl _, fun h => absurd h00 h⟩
      show base + (r + bs - 1) / bs = b0 + (n + bs - 1) / bs + nextBase (B * bs) B 0
      rw [hpend] at hb
      simp only [nextBase, hrr, hq, hr, if_false] at hb
      rw [Nat.add_mul] at hb
      simp only [nextBase, h00, if_true, Nat.zero_div, Nat.zero_mul, Nat.add_zero, hceil]
      omega

end
end SkinnyVerif.Lemmas
