/- MANTIS, configuration 64le: the generated pieces equal the reference forms
   (each piece is proved in its own module `MantisPieces_64le_<piece>`) -/
import SkinnyVerif.Lemmas.MantisPieces_64le_pre
import SkinnyVerif.Lemmas.MantisPieces_64le_fwd
import SkinnyVerif.Lemmas.MantisPieces_64le_mid
import SkinnyVerif.Lemmas.MantisPieces_64le_bwd
import SkinnyVerif.Lemmas.MantisPieces_64le_post
import SkinnyVerif.Lemmas.MantisPieces_64le_preT
import SkinnyVerif.Lemmas.MantisPieces_64le_fwdT
import SkinnyVerif.Lemmas.MantisPieces_64le_midT
import SkinnyVerif.Lemmas.MantisPieces_64le_bwdT
import SkinnyVerif.Lemmas.MantisPieces_64le_postT

namespace SkinnyVerif.Lemmas
open SkinnyVerif SkinnyVerif.Gen SkinnyVerif.Impl

theorem mantisPieces_64le : MantisPiecesOK (opsMantis .c64le) where
  pre := mantisPiece_64le_pre
  fwd := mantisPiece_64le_fwd
  mid := mantisPiece_64le_mid
  bwd := mantisPiece_64le_bwd
  post := mantisPiece_64le_post
  preT := mantisPiece_64le_preT
  fwdT := mantisPiece_64le_fwdT
  midT := mantisPiece_64le_midT
  bwdT := mantisPiece_64le_bwdT
  postT := mantisPiece_64le_postT

end SkinnyVerif.Lemmas
