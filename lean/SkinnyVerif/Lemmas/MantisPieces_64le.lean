/- MANTIS, configuration 64le: the generated pieces equal the reference forms -/
import SkinnyVerif.Lemmas.MantisRef

namespace SkinnyVerif.Lemmas
open SkinnyVerif SkinnyVerif.Gen SkinnyVerif.Impl

set_option maxRecDepth 8000
set_option maxHeartbeats 8000000

theorem mantisPieces_64le : MantisPiecesOK (opsMantis .c64le) where
  pre := by
    intro input ks
    refine Prod.ext ?_ (Prod.ext ?_ ?_) <;> simp only [opsMantis] <;> mantis_bits
  fwd := by
    intro st tw k1 r
    refine Prod.ext ?_ ?_ <;> simp only [opsMantis] <;> mantis_bits
  mid := by
    intro st k1
    refine Prod.ext ?_ ?_ <;> simp only [opsMantis]
    · mantis_bits_sbox
    · mantis_bits
  bwd := by
    intro st tw k1 r
    refine Prod.ext ?_ ?_ <;> simp only [opsMantis]
    · mantis_bits_sbox
    · mantis_bits
  post := by
    intro st tw k1 ks
    simp only [opsMantis]; mantis_bits
  preT := by
    intro input ks tw
    refine Prod.ext ?_ (Prod.ext ?_ ?_) <;> simp only [opsMantis] <;> mantis_bits
  fwdT := by
    intro st tw k1 r
    refine Prod.ext ?_ ?_ <;> simp only [opsMantis] <;> mantis_bits
  midT := by
    intro st k1
    refine Prod.ext ?_ ?_ <;> simp only [opsMantis]
    · mantis_bits_sbox
    · mantis_bits
  bwdT := by
    intro st tw k1 r
    refine Prod.ext ?_ ?_ <;> simp only [opsMantis]
    · mantis_bits_sbox
    · mantis_bits
  postT := by
    intro st tw k1 ks
    simp only [opsMantis]; mantis_bits

end SkinnyVerif.Lemmas
