/-
Line-protocol driver of the executable model (see /verif/DESIGN.md section 4.2).
Reads one operation per line on stdin, prints one result line per operation.
The C driver (`/verif/harness/cdrv.c`) implements the same protocol on the real library;
the correspondence check diffs the two output streams.
-/
import Std.Data.HashMap
import SkinnyVerif.Api.FactsBuild
import SkinnyVerif.Impl.VecExec
import SkinnyVerif.Api.VecExecM
import SkinnyVerif.Spec.Skinny

namespace SkinnyVerif.Driver
open SkinnyVerif SkinnyVerif.Impl SkinnyVerif.Api

structure St where
  bd : Build
  probes : Probes := ⟨true, true⟩
  junk : UInt8 := 0xA5
  world : World := {}
  k128 : Std.HashMap String (KeySched 64) := {}
  t128 : Std.HashMap String (TweakedKey 64) := {}
  k64 : Std.HashMap String (KeySched 32) := {}
  t64 : Std.HashMap String (TweakedKey 32) := {}
  mks : Std.HashMap String MantisKey := {}
  hs : Std.HashMap String Handle := {}
  spec : Bool := false
  -- spec-mode shadow state: what the specification needs to know about each key object
  specKey : Std.HashMap String (Bytes × Bytes × Nat × Int) := {}   -- key, tweak, rounds/flag, mode

def defaultSizes : Sizes := factsSizes

def mkBuild (tag : Tag) : Build :=
  { cfg := {}, tag := tag, sizes := defaultSizes, setTweakNullOk := false, parInitNullCheck := false,
    initClearsOnFail := false, initStaggers := false }

def parseTag : String → Option Tag
  | "64le" => some .c64le | "32le" => some .c32le | "64be" => some .c64be | "32be" => some .c32be | _ => none

def optBytes (s : String) : Option (Option Bytes) :=
  if s = "NULL" then some none else (ofHex (if s = "-" then "" else s)).map some

def famOf : String → Option Family
  | "ctr128" | "par128" => some .s128
  | "ctr64" | "par64" => some .s64
  | "mctr" | "mpar" => some .mantis
  | _ => none

def handleOf (st : St) (name : String) : Option Handle := if name = "NULL" then none else st.hs[name]?

def setHandle (st : St) (name : String) (h : Option Handle) : St :=
  match h with
  | some hd => if name = "NULL" then st else { st with hs := st.hs.insert name hd }
  | none => st

/-- parallel ECB on a vector back end: the output bytes as the *translated vector code* computes them
(`Impl/VecExec.lean`; `Properties/C07X.lean` proves them equal to the block-by-block result of the object model) -/
def parVecOut (bd : Build) (f : Family) (enc : Bool) (w : World) (h : Option Handle) (d : Bytes) : Option Bytes :=
  match h with
  | some hd =>
    match hd.vtable with
    | .be b =>
      match w.deref hd.ctx with
      | .ok (_, a) =>
        match f, a.val with
        | .s128, .skinnyKey 64 ks =>
          some (VecExec.par128 b bd.cfg.unaligned enc ks (if enc then ecbEncrypt (ops128 bd.tag) p128 ks else ecbDecrypt (ops128 bd.tag) p128 ks) d)
        | .s64, .skinnyKey 32 ks =>
          some (VecExec.par64 b bd.cfg.unaligned enc ks (if enc then ecbEncrypt (ops64 bd.tag) p64 ks else ecbDecrypt (ops64 bd.tag) p64 ks) d)
        | _, _ => none
      | .error _ => none
    | _ => none
  | none => none

/-- the same for `mantis_parallel_ecb_crypt` (`Api/VecExecM.lean`, `C07X_mantis_exec`) -/
def parVecOutM (bd : Build) (w : World) (h : Option Handle) (tw d : Bytes) : Option Bytes :=
  match h with
  | some hd =>
    match hd.vtable with
    | .be b =>
      match w.deref hd.ctx with
      | .ok (_, a) =>
        match a.val with
        | .mantisKey ks => some (VecExecM.parMantis b (opsMantis bd.tag) ks tw d)
        | _ => none
      | .error _ => none
    | _ => none
  | none => none

def retLine (r : Nat) : String := s!"ret={r}"

def b2n (s : String) : Bool := s = "1"

/-- one protocol step: new state and the output line -/
def step (st : St) (line : String) : St × String :=
  let toks := (line.trimAscii.toString.splitOn " ").filter (· ≠ "")
  let bd := st.bd
  let fault := (st, "fault")
  match toks with
  | [] => (st, "")
  | ["cfg", tag, a, b, c, d] =>
    -- `64le`, `32be`, …; the suffix `-u0` says the library was built with SKINNY_UNALIGNED = 0 (byte-wise vector load / store)
    match parseTag ((tag.splitOn "-").headD "") with
    | some t => ({ st with bd := { bd with cfg := { bd.cfg with unaligned := !(tag.splitOn "-").contains "u0" }, tag := t, setTweakNullOk := b2n a, parInitNullCheck := b2n b, initClearsOnFail := b2n c, initStaggers := b2n d } }, "ok")
    | none => (st, "bad-op")
  | ["sizes", a, b, c, d, e, f, g, h, i, j] =>
    -- the sizes the harness read off the source must be the ones the model was generated with
    let want := [a, b, c, d, e, f, g, h, i, j].map String.toNat!
    let have_ := (List.range 10).map factAlloc
    (st, if want = have_ then "ok" else "sizes-mismatch")
  | ["probes", a, b] => ({ st with probes := ⟨b2n a, b2n b⟩ }, "ok")
  | ["align", _] | ["guard", _] | ["overlap", _] => (st, "ok")
  | ["junk", x] => ({ st with junk := UInt8.ofNat x.toNat! }, "ok")
  | ["failat", k] => ({ st with world := { st.world with failAt := if k = "none" then none else some (st.world.allocCount + k.toNat!) } }, "ok")
  | ["heap"] =>
    let live := (st.world.heap.filter (·.live)).length
    let ev := String.intercalate ";" st.world.events
    ({ st with world := { st.world with events := [] } }, s!"live={live} events={ev}")
  -- ---------------------------------------------------------------- key-schedule objects
  | ["s128.key.new", n] => ({ st with k128 := st.k128.insert n { rounds := 0, sched := List.replicate 56 0 } }, "ok")
  | ["s128.tkey.new", n] => ({ st with t128 := st.t128.insert n { ks := { rounds := 0, sched := List.replicate 56 0 }, tweak := zeros 16 } }, "ok")
  | ["s64.key.new", n] => ({ st with k64 := st.k64.insert n { rounds := 0, sched := List.replicate 40 0 } }, "ok")
  | ["s64.tkey.new", n] => ({ st with t64 := st.t64.insert n { ks := { rounds := 0, sched := List.replicate 40 0 }, tweak := zeros 8 } }, "ok")
  | ["mantis.key.new", n] => ({ st with mks := st.mks.insert n default }, "ok")
  | ["s128.set_key", n, k, sz] =>
    match optBytes k, (if n = "NULL" then none else st.k128[n]?) with
    | some key, some ks =>
      let (r, ks') := setKey (ops128 bd.tag) guards128 p128 ks key sz.toNat! (junkOf 128 st.junk) (junkOf 128 st.junk)
      ({ st with k128 := st.k128.insert n ks' }, retLine r)
    | some _, none => (st, retLine 0)
    | _, _ => (st, "bad-op")
  | ["s64.set_key", n, k, sz] =>
    match optBytes k, (if n = "NULL" then none else st.k64[n]?) with
    | some key, some ks =>
      let (r, ks') := setKey (ops64 bd.tag) guards64 p64 ks key sz.toNat! (junkOf 64 st.junk) (junkOf 64 st.junk)
      ({ st with k64 := st.k64.insert n ks' }, retLine r)
    | some _, none => (st, retLine 0)
    | _, _ => (st, "bad-op")
  | ["s128.set_tweaked_key", n, k, sz] =>
    match optBytes k, (if n = "NULL" then none else st.t128[n]?) with
    | some key, some tk =>
      let (r, tk') := setTweakedKey (ops128 bd.tag) guards128 p128 tk key sz.toNat! (junkOf 128 st.junk) (junkOf 128 st.junk)
      ({ st with t128 := st.t128.insert n tk' }, retLine r)
    | some _, none => (st, retLine 0)
    | _, _ => (st, "bad-op")
  | ["s64.set_tweaked_key", n, k, sz] =>
    match optBytes k, (if n = "NULL" then none else st.t64[n]?) with
    | some key, some tk =>
      let (r, tk') := setTweakedKey (ops64 bd.tag) guards64 p64 tk key sz.toNat! (junkOf 64 st.junk) (junkOf 64 st.junk)
      ({ st with t64 := st.t64.insert n tk' }, retLine r)
    | some _, none => (st, retLine 0)
    | _, _ => (st, "bad-op")
  | ["s128.set_tweak", n, t, sz] =>
    match optBytes t, (if n = "NULL" then none else st.t128[n]?) with
    | some tw, some tk =>
      let (r, tk') := setTweak (ops128 bd.tag) guards128 p128 tk tw sz.toNat!
      ({ st with t128 := st.t128.insert n tk' }, retLine r)
    | some _, none => (st, retLine 0)
    | _, _ => (st, "bad-op")
  | ["s64.set_tweak", n, t, sz] =>
    match optBytes t, (if n = "NULL" then none else st.t64[n]?) with
    | some tw, some tk =>
      let (r, tk') := setTweak (ops64 bd.tag) guards64 p64 tk tw sz.toNat!
      ({ st with t64 := st.t64.insert n tk' }, retLine r)
    | some _, none => (st, retLine 0)
    | _, _ => (st, "bad-op")
  | [op, n, x] =>
    match ofHex x with
    | none =>
      -- handle-based operations with one argument fall through to the next group
      stepHandles st toks
    | some data =>
      match op with
      | "s128.enc" => match st.k128[n]? with | some ks => (st, toHex (ecbEncrypt (ops128 bd.tag) p128 ks data)) | none => (st, "bad-op")
      | "s128.dec" => match st.k128[n]? with | some ks => (st, toHex (ecbDecrypt (ops128 bd.tag) p128 ks data)) | none => (st, "bad-op")
      | "s128.tenc" => match st.t128[n]? with | some tk => (st, toHex (ecbEncrypt (ops128 bd.tag) p128 tk.ks data)) | none => (st, "bad-op")
      | "s128.tdec" => match st.t128[n]? with | some tk => (st, toHex (ecbDecrypt (ops128 bd.tag) p128 tk.ks data)) | none => (st, "bad-op")
      | "s64.enc" => match st.k64[n]? with | some ks => (st, toHex (ecbEncrypt (ops64 bd.tag) p64 ks data)) | none => (st, "bad-op")
      | "s64.dec" => match st.k64[n]? with | some ks => (st, toHex (ecbDecrypt (ops64 bd.tag) p64 ks data)) | none => (st, "bad-op")
      | "s64.tenc" => match st.t64[n]? with | some tk => (st, toHex (ecbEncrypt (ops64 bd.tag) p64 tk.ks data)) | none => (st, "bad-op")
      | "s64.tdec" => match st.t64[n]? with | some tk => (st, toHex (ecbDecrypt (ops64 bd.tag) p64 tk.ks data)) | none => (st, "bad-op")
      | "mantis.crypt" => match st.mks[n]? with | some ks => (st, toHex (mantisCrypt (opsMantis bd.tag) ks data)) | none => (st, "bad-op")
      | _ => stepHandles st toks
  | _ => stepHandles st toks
where
  stepHandles (st : St) (toks : List String) : St × String :=
    let bd := st.bd
    let fault := (st, "fault")
    match toks with
    | ["mantis.set_key", n, k, sz, rounds, mode] =>
      match optBytes k, (if n = "NULL" then none else st.mks[n]?) with
      | some key, some ks =>
        let (r, ks') := mantisSetKey (opsMantis bd.tag) ks key sz.toNat! rounds.toNat! (if mode = "1" then 1 else mode.toInt!)
        ({ st with mks := st.mks.insert n ks' }, retLine r)
      | some _, none => (st, retLine 0)
      | _, _ => (st, "bad-op")
    | ["mantis.set_tweak", n, t, sz] =>
      match optBytes t, (if n = "NULL" then none else st.mks[n]?) with
      | some tw, some ks =>
        let (r, ks') := mantisSetTweak (opsMantis bd.tag) ks tw sz.toNat!
        ({ st with mks := st.mks.insert n ks' }, retLine r)
      | some _, none => (st, retLine 0)
      | _, _ => (st, "bad-op")
    | ["mantis.swap", n] =>
      match st.mks[n]? with
      | some ks => ({ st with mks := st.mks.insert n (mantisSwapModes (opsMantis bd.tag) ks) }, "ok")
      | none => (st, "bad-op")
    | ["mantis.crypt_tweaked", n, t, x] =>
      match st.mks[n]?, ofHex t, ofHex x with
      | some ks, some tw, some data => (st, toHex (mantisCryptTweaked (opsMantis bd.tag) ks tw data))
      | _, _, _ => (st, "bad-op")
    -- ---------------------------------------------------------------- handles
    | ["h.new", n, kind] =>
      let h : Handle := if kind = "zero" then { vtable := .null, ctx := .null } else { vtable := .garbage, ctx := .garbage, psize := 0 }
      ({ st with hs := st.hs.insert n h }, "ok")
    | [op, n] =>
      match op.splitOn "." with
      | [fam, "init"] =>
        match famOf fam with
        | none => (st, "bad-op")
        | some f =>
          let isPar := fam.startsWith "par" || fam = "mpar"
          let r := if isPar then parInit bd f st.probes st.world (handleOf st n) else ctrInit bd f st.probes st.world (handleOf st n)
          match r with
          | .ok (w, ret, h) => (setHandle { st with world := w } n h, retLine ret)
          | .error _ => fault
      | [fam, "cleanup"] =>
        match famOf fam with
        | none => (st, "bad-op")
        | some f =>
          let isPar := fam.startsWith "par" || fam = "mpar"
          let r := if isPar then parCleanup bd f st.world (handleOf st n) else ctrCleanup bd f st.world (handleOf st n)
          match r with
          | .ok (w, h) => (setHandle { st with world := w } n h, "ok")
          | .error _ => fault
      | [_, "psize"] =>
        match handleOf st n with
        | some h => (st, s!"psize={h.psize}")
        | none => (st, "bad-op")
      | ["mpar", "swap"] =>
        match mantisParSwap bd st.world (handleOf st n) with
        | .ok w => ({ st with world := w }, "ok")
        | .error _ => fault
      | _ => (st, "bad-op")
    | [op, n, a] =>
      match op.splitOn "." with
      | [fam, "encrypt"] =>
        match famOf fam, optBytes a with
        | some f, some data =>
          if fam.startsWith "par" then
            match data with
            | none => (st, "bad-op")
            | some d => match skinnyParCrypt bd f true st.world (handleOf st n) d with
              | .ok (r, out) => (st, s!"ret={r} out={toHex (if r = 1 then (parVecOut bd f true st.world (handleOf st n) d).getD out else out)}")
              | .error _ => fault
          else
            match ctrEncryptCall bd f st.world (handleOf st n) data with
            | .ok (w, r, out) => ({ st with world := w }, s!"ret={r} out={toHex out}")
            | .error _ => fault
        | _, _ => (st, "bad-op")
      | [fam, "decrypt"] =>
        match famOf fam, ofHex (if a = "-" then "" else a) with
        | some f, some d => match skinnyParCrypt bd f false st.world (handleOf st n) d with
          | .ok (r, out) => (st, s!"ret={r} out={toHex (if r = 1 then (parVecOut bd f false st.world (handleOf st n) d).getD out else out)}")
          | .error _ => fault
        | _, _ => (st, "bad-op")
      | _ => (st, "bad-op")
    | [op, n, a, b] =>
      match op.splitOn "." with
      | [fam, "set_key"] =>
        match famOf fam, optBytes a with
        | some f, some key =>
          let r := if fam.startsWith "par" then skinnyParSetKey bd f st.world (handleOf st n) key b.toNat! st.junk
                   else skinnyCtrSetKey bd f st.world (handleOf st n) key b.toNat! st.junk
          match r with
          | .ok (w, ret) => ({ st with world := w }, retLine ret)
          | .error _ => fault
        | _, _ => (st, "bad-op")
      | [fam, "set_tweaked_key"] =>
        match famOf fam, optBytes a with
        | some f, some key =>
          match skinnyCtrSetTweakedKey bd f st.world (handleOf st n) key b.toNat! st.junk with
          | .ok (w, ret) => ({ st with world := w }, retLine ret)
          | .error _ => fault
        | _, _ => (st, "bad-op")
      | [fam, "set_tweak"] =>
        match famOf fam, optBytes a with
        | some f, some tw =>
          let r := if f = .mantis then mantisCtrSetTweak bd st.world (handleOf st n) tw b.toNat!
                   else skinnyCtrSetTweak bd f st.world (handleOf st n) tw b.toNat!
          match r with
          | .ok (w, ret) => ({ st with world := w }, retLine ret)
          | .error _ => fault
        | _, _ => (st, "bad-op")
      | [fam, "set_counter"] =>
        match famOf fam, optBytes a with
        | some f, some c =>
          match ctrSetCounter f st.world (handleOf st n) c b.toNat! with
          | .ok (w, ret) => ({ st with world := w }, retLine ret)
          | .error _ => fault
        | _, _ => (st, "bad-op")
      | ["mpar", "crypt"] =>
        match ofHex (if a = "-" then "" else a), ofHex (if b = "-" then "" else b) with
        | some tw, some d => match mantisParCrypt bd st.world (handleOf st n) tw d with
          | .ok (r, out) => (st, s!"ret={r} out={toHex (if r = 1 then (parVecOutM bd st.world (handleOf st n) tw d).getD out else out)}")
          | .error _ => fault
        | _, _ => (st, "bad-op")
      | _ => (st, "bad-op")
    | ["mctr.set_key", n, k, sz, rounds] =>
      match optBytes k with
      | some key => match mantisCtrSetKey bd st.world (handleOf st n) key sz.toNat! rounds.toNat! with
        | .ok (w, ret) => ({ st with world := w }, retLine ret)
        | .error _ => fault
      | none => (st, "bad-op")
    | ["mpar.set_key", n, k, sz, rounds, mode] =>
      match optBytes k with
      | some key => match mantisParSetKey bd st.world (handleOf st n) key sz.toNat! rounds.toNat! (if mode = "1" then 1 else mode.toInt!) with
        | .ok (w, ret) => ({ st with world := w }, retLine ret)
        | .error _ => fault
      | none => (st, "bad-op")
    | _ => (st, "bad-op")

partial def loop (h : IO.FS.Stream) (out : IO.FS.Stream) (st : St) : IO Unit := do
  let line ← h.getLine
  if line.isEmpty then return ()
  let t := line.trimAscii.toString
  if t.isEmpty || t.startsWith "#" then
    loop h out st
  else
    let t := if t.startsWith "? " then (t.drop 2).toString else t
    let (st', o) := step st t
    out.putStrLn o
    loop h out st'

end SkinnyVerif.Driver

def main (_args : List String) : IO Unit := do
  let stdin ← IO.getStdin
  let stdout ← IO.getStdout
  SkinnyVerif.Driver.loop stdin stdout { bd := SkinnyVerif.Driver.mkBuild .c64le }
