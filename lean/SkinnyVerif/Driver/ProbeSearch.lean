/-
Search for a processor state on which a probe generated from the current source answers
differently from the architectural specification (`Spec/Cpu.lean`).  Run with
`lake env lean --run SkinnyVerif/Driver/ProbeSearch.lean` when a C13 theorem no longer checks.
-/
import SkinnyVerif.Gen.Probes

open SkinnyVerif.Spec.Cpu SkinnyVerif.Gen.Probes

def mkArch (maxLeaf l1ecx l1edx xcr0 e0 en : Nat) : Arch :=
  { maxLeaf := BitVec.ofNat 32 maxLeaf, leaf0 := (0, 0, 0), leaf1 := (0, 0, BitVec.ofNat 32 l1ecx, BitVec.ofNat 32 l1edx),
    leaf7 := fun s => if s = 0 then (0, BitVec.ofNat 32 e0, 0, 0) else (0, BitVec.ofNat 32 en, 0, 0),
    other := fun _ _ => (0, 0, 0, 0), xcr := fun c => if c = 0 then (BitVec.ofNat 32 xcr0, 0) else (0xffffffff, 0) }

def main : IO Unit := do
  let mut found := false
  for maxLeaf in [0, 1, 6, 7, 13] do
    for l1ecx in [0, 0x08000000, 0xf7ffffff, 0xffffffff] do
      for l1edx in [0, 0x04000000, 0xfbffffff, 0xffffffff] do
        for xcr0 in [0, 1, 2, 3, 4, 5, 6, 7, 0xe7, 0xe1] do
          for e0 in [0, 0x20, 0x8, 0xffffffdf, 0xffffffff, 0x100, 0x28] do
            for en in [0, 0xffffffff] do
              for j in [0, 1, 5, 7, 0xffffffff] do
                if !found then
                  let a := mkArch maxLeaf l1ecx l1edx xcr0 e0 en
                  let env := a.env (fun _ => BitVec.ofNat 32 j)
                  let g128 := skinny_has_vec128 env != 0
                  let g256 := skinny_has_vec256 env != 0
                  if g128 != a.sse2 || g256 != a.avx2Usable then
                    found := true
                    IO.println s!"MODEL-WITNESS maxleaf={maxLeaf} leaf1.ecx={l1ecx} leaf1.edx={l1edx} xcr0={xcr0} leaf7.0.ebx={e0} leaf7.n.ebx={en} unset_registers={j} probe128={g128} spec_sse2={a.sse2} probe256={g256} spec_avx2_usable={a.avx2Usable}"
  if !found then IO.println "NO-WITNESS"
