/-
Specification oracle: the same line protocol as `Driver/Main.lean`, but every result is
computed from `Spec/` alone (the papers' ciphers, CTR and ECB as the properties state them,
and the documented error contract) with an abstract notion of object state: the key, the
latest tweak, the counter block and the stream position.  Used by the falsifier searches:
implementation output ≠ specification output on a script is a concrete property violation.
Operations whose result the properties do not define print `undef` (the search ignores them).
-/
import Std.Data.HashMap
import SkinnyVerif.Spec.Skinny
import SkinnyVerif.Spec.Mantis
import SkinnyVerif.Spec.Modes
import SkinnyVerif.Basic.Bytes

namespace SkinnyVerif.SpecDriver
open SkinnyVerif SkinnyVerif.Spec

/-- abstract key state of a schedule object -/
inductive KeyS
  | unkeyed
  | skinny (bs : Nat) (key : Bytes)                   -- zero-padded to a primary size
  | tweaked (bs : Nat) (key : Bytes) (tweak : Bytes)
  | mantis (key : Bytes) (tweak : Bytes) (rounds : Nat) (enc : Bool)
deriving Repr, Inhabited

def primary (bs n : Nat) : Nat := if n ≤ bs then bs else if n ≤ 2 * bs then 2 * bs else 3 * bs

def KeyS.E : KeyS → Option (Bytes → Bytes)
  | .skinny 16 k => some (Skinny.encrypt128 k)
  | .skinny _ k => some (Skinny.encrypt64 k)
  | .tweaked 16 k t => some (Skinny.encryptTweaked128 k t)
  | .tweaked _ k t => some (Skinny.encryptTweaked64 k t)
  | .mantis k t r true => some (Mantis.encrypt r k t)
  | .mantis k t r false => some (Mantis.decrypt r k t)
  | .unkeyed => none

def KeyS.D : KeyS → Option (Bytes → Bytes)
  | .skinny 16 k => some (Skinny.decrypt128 k)
  | .skinny _ k => some (Skinny.decrypt64 k)
  | .tweaked 16 k t => some (Skinny.decryptTweaked128 k t)
  | .tweaked _ k t => some (Skinny.decryptTweaked64 k t)
  | .mantis k t r true => some (Mantis.decrypt r k t)
  | .mantis k t r false => some (Mantis.encrypt r k t)
  | .unkeyed => none

/-- abstract state of a CTR / parallel handle -/
structure HS where
  live : Bool := false          -- initialised and not cleaned up
  inert : Bool := true          -- zeroed, failed-init or cleaned-up: every call returns 0
  key : KeyS := .unkeyed
  counter : Bytes := []
  pos : Nat := 0                -- bytes consumed since the counter was set
  fresh : Bool := true          -- no data call since the last counter/key/tweak change
  undefStream : Bool := false   -- key or tweak changed in mid-stream: C05 leaves the continuation open
deriving Inhabited

structure St where
  keys : Std.HashMap String KeyS := {}
  hs : Std.HashMap String HS := {}
  failNext : Option Nat := none
  allocs : Nat := 0
  live : Nat := 0

def retLine (r : Nat) : String := s!"ret={r}"
def optBytes (s : String) : Option (Option Bytes) :=
  if s = "NULL" then some none else (ofHex (if s = "-" then "" else s)).map some
def famBs : String → Nat
  | "ctr128" | "par128" => 16 | _ => 8

/-- the documented key-setting contract for SKINNY schedules -/
def skinnySetKey (bs maxWords : Nat) (old : KeyS) (key : Option Bytes) (size : Nat) (tweaked : Bool) : Nat × KeyS :=
  match key with
  | none => (0, old)
  | some k =>
    if size < bs ∨ size > maxWords * bs then (0, old)
    else
      let kk := padRight (primary bs size) (k.take size)
      (1, if tweaked then .tweaked bs kk (zeros bs) else .skinny bs kk)

def step (st : St) (line : String) : St × String :=
  let toks := (line.trimAscii.toString.splitOn " ").filter (· ≠ "")
  let keyOf := fun (n : String) => if n = "NULL" then none else st.keys[n]?
  let setK := fun (n : String) (k : KeyS) => { st with keys := st.keys.insert n k }
  match toks with
  | ["cfg", _, _, _, _, _] | ["sizes", _, _, _, _, _, _, _, _, _, _] | ["probes", _, _] | ["junk", _] | ["align", _] | ["guard", _] | ["overlap", _] => (st, "ok")
  | ["failat", k] => ({ st with failNext := if k = "none" then none else some (st.allocs + k.toNat!) }, "ok")
  | ["heap"] => (st, s!"live={st.live}")
  | [op, n] =>
    if op.endsWith ".new" then (setK n .unkeyed, "ok")
    else if op = "mantis.swap" then
      match keyOf n with
      | some (.mantis k t r e) => (setK n (.mantis k t r (!e)), "ok")
      | _ => (st, "undef")
    else
      let parts := op.splitOn "."
      match parts with
      | [_, "init"] =>
        if n = "NULL" then (st, retLine 0)
        else
          let fails := st.failNext = some st.allocs
          let st := { st with allocs := st.allocs + 1 }
          if fails then ({ st with hs := st.hs.insert n { live := false, inert := true } }, retLine 0)
          else ({ st with live := st.live + 1, hs := st.hs.insert n { live := true, inert := false, key := .unkeyed, counter := zeros (famBs parts.head!), pos := 0 } }, retLine 1)
      | [_, "cleanup"] =>
        match (if n = "NULL" then none else st.hs[n]?) with
        | some h => if h.live then ({ st with live := st.live - 1, hs := st.hs.insert n { live := false, inert := true } }, "ok") else (st, "ok")
        | none => (st, "ok")
      | [_, "psize"] => (st, "undef")
      | ["mpar", "swap"] =>
        match st.hs[n]? with
        | some h => match h.key with
          | .mantis k t r e => ({ st with hs := st.hs.insert n { h with key := .mantis k t r (!e) } }, "ok")
          | _ => (st, "ok")
        | none => (st, "ok")
      | _ => (st, "undef")
  | ["h.new", n, kind] => ({ st with hs := st.hs.insert n { live := false, inert := kind = "zero" } }, "ok")
  | [op, n, a] =>
    match op with
    | "s128.enc" | "s64.enc" | "s128.tenc" | "s64.tenc" | "mantis.crypt" =>
      match keyOf n, ofHex a with
      | some k, some d => match k.E with | some f => (st, toHex (f d)) | none => (st, "undef")
      | _, _ => (st, "undef")
    | "s128.dec" | "s64.dec" | "s128.tdec" | "s64.tdec" =>
      match keyOf n, ofHex a with
      | some k, some d => match k.D with | some f => (st, toHex (f d)) | none => (st, "undef")
      | _, _ => (st, "undef")
    | _ =>
      let parts := op.splitOn "."
      match parts, (if n = "NULL" then none else st.hs[n]?) with
      | [_, _], none => (st, "ret=0 out=")
      | [fam, "encrypt"], some h =>
        if h.inert ∨ !h.live then (st, "ret=0 out=")
        else if fam.startsWith "par" then
          match ofHex (if a = "-" then "" else a) with
          | some d => if d.length % famBs fam ≠ 0 then (st, "ret=0 out=") else
            match h.key.E with
            | some f => (st, s!"ret=1 out={toHex (Modes.ecb f (famBs fam) d)}")
            | none => (st, "undef")
          | none => (st, "undef")
        else
          match optBytes a with
          | some none => (st, "ret=0 out=")
          | some (some d) =>
            match h.key.E with
            | some f =>
              let out := Modes.ctr f (famBs fam) h.counter h.pos d
              ({ st with hs := st.hs.insert n { h with pos := h.pos + d.length, fresh := false } },
               if h.undefStream then "undef" else s!"ret=1 out={toHex out}")
            | none => (st, "undef")
          | none => (st, "undef")
      | [fam, "decrypt"], some h =>
        if h.inert ∨ !h.live then (st, "ret=0 out=")
        else match ofHex (if a = "-" then "" else a) with
          | some d => if d.length % famBs fam ≠ 0 then (st, "ret=0 out=") else
            match h.key.D with
            | some f => (st, s!"ret=1 out={toHex (Modes.ecb f (famBs fam) d)}")
            | none => (st, "undef")
          | none => (st, "undef")
      | _, _ => (st, "undef")
  | [op, n, a, b] =>
    let sz := b.toNat!
    match op with
    | "s128.set_key" | "s64.set_key" | "s128.set_tweaked_key" | "s64.set_tweaked_key" =>
      let bs := if op.startsWith "s128" then 16 else 8
      let tw := op.endsWith "tweaked_key"
      match optBytes a with
      | some key =>
        if n = "NULL" then (st, retLine 0) else
        let (r, k) := skinnySetKey bs (if tw then 2 else 3) ((st.keys[n]?).getD .unkeyed) key sz tw
        (setK n k, retLine r)
      | none => (st, "undef")
    | "s128.set_tweak" | "s64.set_tweak" =>
      let bs := if op.startsWith "s128" then 16 else 8
      if n = "NULL" then (st, retLine 0)
      else if sz < 1 ∨ sz > bs then (st, retLine 0)
      else match st.keys[n]?, optBytes a with
        | some (.tweaked bs' k _), some t => (setK n (.tweaked bs' k (match t with | some t => padRight bs (t.take sz) | none => zeros bs)), retLine 1)
        | _, _ => (st, "undef")
    | "mantis.set_tweak" =>
      if n = "NULL" then (st, retLine 0)
      else if sz ≠ 8 then (st, retLine 0)
      else match st.keys[n]?, optBytes a with
        | some (.mantis k _ r e), some t => (setK n (.mantis k (match t with | some t => t.take 8 | none => zeros 8) r e), retLine 1)
        | _, _ => (st, "undef")
    | "mantis.crypt_tweaked" =>
      match keyOf n, ofHex a, ofHex b with
      | some (.mantis k _ r e), some t, some d => (st, toHex (if e then Mantis.encrypt r k t d else Mantis.decrypt r k t d))
      | _, _, _ => (st, "undef")
    | _ =>
      let parts := op.splitOn "."
      match parts, (if n = "NULL" then none else st.hs[n]?) with
      | [_, _], none => (st, if op = "mpar.crypt" then "ret=0 out=" else retLine 0)
      | [fam, fn], some h =>
        let bs := famBs fam
        if h.inert ∨ !h.live then (st, if fn = "crypt" then "ret=0 out=" else retLine 0)
        else
          let upd := fun (h' : HS) (r : Nat) => ({ st with hs := st.hs.insert n h' }, retLine r)
          match fn with
          | "set_key" =>
            match optBytes a with
            | some key => let (r, k) := skinnySetKey bs 3 h.key key sz false
                          if r = 0 then (st, retLine 0) else upd { h with key := k, undefStream := h.undefStream || !h.fresh } 1
            | none => (st, "undef")
          | "set_tweaked_key" =>
            match optBytes a with
            | some key => let (r, k) := skinnySetKey bs 2 h.key key sz true
                          if r = 0 then (st, retLine 0) else upd { h with key := k, undefStream := h.undefStream || !h.fresh } 1
            | none => (st, "undef")
          | "set_tweak" =>
            if fam = "mctr" then
              if sz ≠ 8 then (st, retLine 0) else
              match h.key, optBytes a with
              | .mantis k _ r e, some t => upd { h with key := .mantis k (match t with | some t => t.take 8 | none => zeros 8) r e, undefStream := h.undefStream || !h.fresh } 1
              | _, _ => (st, "undef")
            else if sz < 1 ∨ sz > bs then (st, retLine 0)
            else match h.key, optBytes a with
              | .tweaked bs' k _, some t => upd { h with key := .tweaked bs' k (match t with | some t => padRight bs (t.take sz) | none => zeros bs), undefStream := h.undefStream || !h.fresh } 1
              | _, _ => (st, "undef")
          | "set_counter" =>
            if sz > bs then (st, retLine 0)
            else match optBytes a with
              | some c => upd { h with counter := Modes.counterOf bs (c.map (·.take sz)), pos := 0, fresh := true, undefStream := false } 1
              | none => (st, "undef")
          | "crypt" =>
            match ofHex (if a = "-" then "" else a), ofHex (if b = "-" then "" else b) with
            | some tws, some d =>
              if d.length % 8 ≠ 0 then (st, "ret=0 out=") else
              match h.key with
              | .mantis k _ r e =>
                let blocks := Modes.chunks 8 (d.length + 1) d
                let twl := Modes.chunks 8 (tws.length + 1) tws
                let out := (blocks.zip twl).flatMap fun (blk, t) => if e then Mantis.encrypt r k t blk else Mantis.decrypt r k t blk
                (st, s!"ret=1 out={toHex out}")
              | _ => (st, "undef")
            | _, _ => (st, "undef")
          | _ => (st, "undef")
      | _, _ => (st, "undef")
  | ["mantis.set_key", n, k, sz, rounds, mode] =>
    match optBytes k with
    | some key =>
      if n = "NULL" then (st, retLine 0) else
      match key with
      | none => (st, retLine 0)
      | some kb =>
        if sz.toNat! ≠ 16 ∨ rounds.toNat! < 5 ∨ rounds.toNat! > 8 then (st, retLine 0)
        else (setK n (.mantis (kb.take 16) (zeros 8) rounds.toNat! (mode = "1")), retLine 1)
    | none => (st, "undef")
  | ["mctr.set_key", n, k, sz, rounds] =>
    match optBytes k, (if n = "NULL" then none else st.hs[n]?) with
    | some key, some h =>
      if h.inert ∨ !h.live then (st, retLine 0) else
      match key with
      | none => (st, retLine 0)
      | some kb =>
        if sz.toNat! ≠ 16 ∨ rounds.toNat! < 5 ∨ rounds.toNat! > 8 then (st, retLine 0)
        else ({ st with hs := st.hs.insert n { h with key := .mantis (kb.take 16) (zeros 8) rounds.toNat! true, undefStream := h.undefStream || !h.fresh } }, retLine 1)
    | some _, none => (st, retLine 0)
    | none, _ => (st, "undef")
  | ["mpar.set_key", n, k, sz, rounds, mode] =>
    match optBytes k, (if n = "NULL" then none else st.hs[n]?) with
    | some key, some h =>
      if h.inert ∨ !h.live then (st, retLine 0) else
      match key with
      | none => (st, retLine 0)
      | some kb =>
        if sz.toNat! ≠ 16 ∨ rounds.toNat! < 5 ∨ rounds.toNat! > 8 then (st, retLine 0)
        else ({ st with hs := st.hs.insert n { h with key := .mantis (kb.take 16) (zeros 8) rounds.toNat! (mode = "1") } }, retLine 1)
    | some _, none => (st, retLine 0)
    | none, _ => (st, "undef")
  | _ => (st, "undef")

partial def loop (h : IO.FS.Stream) (out : IO.FS.Stream) (st : St) : IO Unit := do
  let line ← h.getLine
  if line.isEmpty then return ()
  let t := line.trimAscii.toString
  if t.isEmpty || t.startsWith "#" then loop h out st
  else
    let t := if t.startsWith "? " then (t.drop 2).toString else t
    let (st', o) := step st t
    out.putStrLn o
    loop h out st'

end SkinnyVerif.SpecDriver

def main (_args : List String) : IO Unit := do
  SkinnyVerif.SpecDriver.loop (← IO.getStdin) (← IO.getStdout) {}
