/-
The object layer as a state machine: a set of caller-owned objects (CTR and parallel-ECB
handles) over the `World` heap, driven by the public calls.  `stepSys` only routes each call
to the `World` function that mirrors the C function; the theorems about life cycle, error
contract, allocation failure and wiping (C14-C17) are stated over this machine.
-/
import SkinnyVerif.Api.FactsBuild

namespace SkinnyVerif.Api
open SkinnyVerif SkinnyVerif.Impl

inductive Kind | ctr (f : Family) | par (f : Family)
deriving DecidableEq, Repr

inductive Shape | sctr (h : Nat) | mctr | skey (h : Nat) | mkey | wiped
deriving DecidableEq, Repr

def CtxVal.shape : CtxVal → Shape
  | .skinnyCtr h _ _ => .sctr h
  | .mantisCtr _ _ => .mctr
  | .skinnyKey h _ => .skey h
  | .mantisKey _ => .mkey
  | .wiped => .wiped

def Kind.shape : Kind → Shape
  | .ctr .s128 => .sctr 64 | .ctr .s64 => .sctr 32 | .ctr .mantis => .mctr
  | .par .s128 => .skey 64 | .par .s64 => .skey 32 | .par .mantis => .mkey

/-- the public calls on one object -/
inductive Call
  | init (p : Probes)
  | cleanup
  | setKey (key : Option Bytes) (size : Nat) (junk : UInt8)
  | setTweakedKey (key : Option Bytes) (size : Nat) (junk : UInt8)
  | setTweak (tweak : Option Bytes) (size : Nat)
  | mantisSetKey (key : Option Bytes) (size rounds : Nat) (mode : Int)
  | setCounter (counter : Option Bytes) (size : Nat)
  | encrypt (input : Option Bytes)
  | parCrypt (enc : Bool) (input : Bytes)
  | mantisParCrypt (tweaks input : Bytes)
  | swap

def Call.isInit : Call → Bool
  | .init _ => true
  | _ => false

def Call.isCleanup : Call → Bool
  | .cleanup => true
  | _ => false

structure Out where
  ret : Option Nat := none     -- `none`: a void function, or a call the API does not have for this kind of object
  data : Bytes := []
deriving Repr, DecidableEq

/-- one public call; `h = none` is a null object pointer -/
def callStep (bd : Build) (w : World) (k : Kind) (h : Option Handle) (c : Call) : M (World × Option Handle × Out) :=
  match k, c with
  | .ctr f, .init p => do let r ← ctrInit bd f p w h; pure (r.1, r.2.2, { ret := some r.2.1 })
  | .par f, .init p => do let r ← parInit bd f p w h; pure (r.1, r.2.2, { ret := some r.2.1 })
  | .ctr f, .cleanup => do let r ← ctrCleanup bd f w h; pure (r.1, r.2, {})
  | .par f, .cleanup => do let r ← parCleanup bd f w h; pure (r.1, r.2, {})
  | .ctr f, .setKey key size junk =>
    if f = .mantis then pure (w, h, {}) else do let r ← skinnyCtrSetKey bd f w h key size junk; pure (r.1, h, { ret := some r.2 })
  | .ctr f, .setTweakedKey key size junk =>
    if f = .mantis then pure (w, h, {}) else do let r ← skinnyCtrSetTweakedKey bd f w h key size junk; pure (r.1, h, { ret := some r.2 })
  | .ctr f, .setTweak tweak size =>
    if f = .mantis then do let r ← mantisCtrSetTweak bd w h tweak size; pure (r.1, h, { ret := some r.2 })
    else do let r ← skinnyCtrSetTweak bd f w h tweak size; pure (r.1, h, { ret := some r.2 })
  | .ctr f, .mantisSetKey key size rounds _ =>
    if f = .mantis then do let r ← mantisCtrSetKey bd w h key size rounds; pure (r.1, h, { ret := some r.2 }) else pure (w, h, {})
  | .ctr f, .setCounter counter size => do let r ← ctrSetCounter f w h counter size; pure (r.1, h, { ret := some r.2 })
  | .ctr f, .encrypt input => do let r ← ctrEncryptCall bd f w h input; pure (r.1, h, { ret := some r.2.1, data := r.2.2 })
  | .par f, .setKey key size junk =>
    if f = .mantis then pure (w, h, {}) else do let r ← skinnyParSetKey bd f w h key size junk; pure (r.1, h, { ret := some r.2 })
  | .par f, .mantisSetKey key size rounds mode =>
    if f = .mantis then do let r ← mantisParSetKey bd w h key size rounds mode; pure (r.1, h, { ret := some r.2 }) else pure (w, h, {})
  | .par f, .swap => if f = .mantis then do let w' ← mantisParSwap bd w h; pure (w', h, {}) else pure (w, h, {})
  | .par f, .parCrypt enc input =>
    if f = .mantis then pure (w, h, {}) else do let r ← skinnyParCrypt bd f enc w h input; pure (w, h, { ret := some r.1, data := r.2 })
  | .par f, .mantisParCrypt tweaks input =>
    if f = .mantis then do let r ← mantisParCrypt bd w h tweaks input; pure (w, h, { ret := some r.1, data := r.2 }) else pure (w, h, {})
  | _, _ => pure (w, h, {})

/-- a caller-owned object: its kind, the bytes of the handle, and whether the caller has
initialised it (by a call to `init`) or zeroed it -/
structure Obj where
  kind : Kind
  h : Handle
  ready : Bool
deriving Repr

structure Sys where
  w : World := {}
  objs : List Obj := []

def zeroHandle : Handle := { vtable := .null, ctx := .null, psize := 0 }

inductive Op
  | declare (k : Kind) (h : Handle)           -- object memory with arbitrary contents comes into scope
  | call (k : Kind) (i : Option Nat) (c : Call)   -- `i = none`: the object pointer is NULL
  | failAt (n : Option Nat)                   -- the allocator fails the n-th request from now / never

def stepSys (bd : Build) (s : Sys) : Op → M (Sys × Out)
  | .declare k h => pure ({ s with objs := s.objs ++ [{ kind := k, h := h, ready := decide (h = zeroHandle) }] }, {})
  | .failAt n => pure ({ s with w := { s.w with failAt := n.map (s.w.allocCount + ·) } }, {})
  | .call k i c => do
    let h := i.bind (fun j => (s.objs[j]?).map (·.h))
    let r ← callStep bd s.w k h c
    let objs := match i, r.2.1 with
      | some j, some hd => s.objs.modify j (fun o => { o with h := hd, ready := o.ready || c.isInit })
      | _, _ => s.objs
    pure ({ w := r.1, objs := objs }, r.2.2)

/-- the histories the properties quantify over: what a C caller may do without itself invoking
undefined behaviour or leaking.  Objects come into scope with arbitrary bytes (but cannot forge a
pointer to a live context); `init` may be called on any object that does not own a context;
every other call needs an object that was initialised or zeroed before. -/
def Allowed (s : Sys) : Op → Prop
  | .declare _ h => ∀ id, h.ctx ≠ .ptr id
  | .failAt _ => True
  | .call _ none _ => True
  | .call k (some j) c => ∃ o, s.objs[j]? = some o ∧ o.kind = k ∧
      (if c.isInit then ∀ id, o.h.ctx ≠ .ptr id else o.ready = true)

def runSys (bd : Build) : Sys → List Op → M (Sys × List Out)
  | s, [] => pure (s, [])
  | s, op :: ops => do
    let r ← stepSys bd s op
    let r' ← runSys bd r.1 ops
    pure (r'.1, r.2 :: r'.2)

end SkinnyVerif.Api
