/-
Object model of the public API: caller-visible handles whose fields may hold garbage, a heap
of context allocations with live/freed status, and an allocation oracle that can fail.
Every public function of the C library is a function `World → args → Except Fault (World × Ret)`.
Dereferencing a garbage or freed pointer, or calling through a garbage vtable, is a `Fault`.

One Lean function per C function, mirroring the order of its checks and stores.
-/
import SkinnyVerif.Impl.Modes
import SkinnyVerif.Impl.Mantis

namespace SkinnyVerif.Api
open SkinnyVerif SkinnyVerif.Impl

/-- a `const void *vtable` field -/
inductive VtVal | null | garbage | be (b : Backend)
deriving Repr, DecidableEq, Inhabited

/-- a `void *ctx` field -/
inductive PtrVal | null | garbage | ptr (id : Nat)
deriving Repr, DecidableEq, Inhabited

/-- `Skinny128CTR_t`, `Skinny64CTR_t`, `MantisCTR_t`, and (with `psize`) the parallel-ECB handles -/
structure Handle where
  vtable : VtVal
  ctx : PtrVal
  psize : Nat := 0
deriving Repr, DecidableEq, Inhabited

/-- contents of a context allocation -/
inductive CtxVal
  | skinnyCtr (h : Nat) (kt : TweakedKey h) (st : CtrState)
  | mantisCtr (ks : MantisKey) (st : CtrState)
  | skinnyKey (h : Nat) (ks : KeySched h)
  | mantisKey (ks : MantisKey)
  | wiped
deriving Repr

structure Alloc where
  live : Bool
  size : Nat          -- bytes requested from calloc
  val : CtxVal
  zeroAtFree : Bool := false   -- every byte of the block was zero when it was freed
deriving Repr

/-- the three cipher families -/
inductive Family | s128 | s64 | mantis
deriving Repr, DecidableEq, Inhabited

def Family.bs : Family → Nat
  | .s128 => 16 | .s64 => 8 | .mantis => 8

/-- blocks per batch of a back end -/
def Family.batch : Family → Backend → Nat
  | _, .generic => 1
  | .s128, .vec128 => 4
  | .s128, .vec256 => 8
  | _, _ => 8

/-- which back ends exist for a family -/
def Family.has : Family → Backend → Bool
  | .s128, _ => true
  | _, .vec256 => false
  | _, _ => true

/-- what the CPU probes report to an `init` call: whether the 128-bit and 256-bit probes
answer yes.  (C13 models the probes themselves; here their answers are inputs.) -/
structure Probes where
  vec128 : Bool
  vec256 : Bool
deriving Repr, DecidableEq, Inhabited

/-- sizes of the context structs per back end (bytes), as the translator reads them off the
source (`Gen/Facts`); used for the heap accounting -/
structure Sizes where
  ctr : Family → Backend → Nat
  par : Family → Nat
  ctrCleanse : Family → Backend → Nat     -- size argument of the `skinny_cleanse` call in the cleanup function
  parCleanse : Family → Nat

structure World where
  heap : List Alloc := []
  allocCount : Nat := 0
  failAt : Option Nat := none       -- index (0-based) of the calloc request that fails
  events : List String := []        -- calloc/free log (sizes, order) for the correspondence
deriving Repr

abbrev M := Except Fault

def World.alloc (w : World) (size : Nat) (val : CtxVal) : World × Option Nat :=
  let k := w.allocCount
  if w.failAt = some k then
    ({ w with allocCount := k + 1, events := w.events ++ [s!"calloc {size} fail"] }, none)
  else
    ({ w with allocCount := k + 1, heap := w.heap ++ [{ live := true, size := size, val := val }],
              events := w.events ++ [s!"calloc {size}"] }, some w.heap.length)

def World.deref (w : World) (p : PtrVal) : M (Nat × Alloc) :=
  match p with
  | .null => .error .nullDeref
  | .garbage => .error .wildFree
  | .ptr id =>
    match w.heap[id]? with
    | none => .error .wildFree
    | some a => if a.live then .ok (id, a) else .error .useAfterFree

def World.setVal (w : World) (id : Nat) (v : CtxVal) : World :=
  { w with heap := w.heap.modify id (fun a => { a with val := v }) }

/-- `skinny_cleanse(ctx, cleanseSize)` followed by `free`: the block is all-zero at `free` iff
the cleansed range covers everything the library ever wrote (`cleanseSize ≥ structSize`) -/
def World.wipeAndFree (w : World) (id : Nat) (structSize cleanseSize : Nat) : World :=
  { w with heap := w.heap.modify id (fun a => { a with live := false, val := .wiped, zeroAtFree := decide (cleanseSize ≥ structSize) }),
           events := w.events ++ [s!"free {(w.heap[id]?.map (·.size)).getD 0} zero={decide (cleanseSize ≥ structSize)}"] }

/-- build parameters of the library that the object layer depends on -/
structure Build where
  cfg : Cfg
  tag : Tag
  sizes : Sizes
  setTweakNullOk : Bool      -- does `skinnyN_set_tweak` test its tweak pointer for NULL?
  parInitNullCheck : Bool    -- does `*_parallel_ecb_init` test its argument for NULL?
  initClearsOnFail : Bool    -- do the `init` functions leave an inert object when calloc fails?
  initStaggers : Bool        -- do the vector CTR `init`s stagger the lane counters?

/-- the back end an `init` call selects, given what the probes say (mirrors the cascade
`def; if has128 → vec128; if has256 → vec256`) -/
def selectBackend (f : Family) (p : Probes) : Backend :=
  let b := Backend.generic
  let b := if p.vec128 then Backend.vec128 else b
  if f = .s128 ∧ p.vec256 then Backend.vec256 else b

/-! ## CTR objects -/

def ctrZero (f : Family) (be : Backend) (staggered : Bool) : CtxVal :=
  let B := f.batch be
  let st0 := CtrState.init f.bs B
  let st := if staggered then { (CtrState.setCounter f.bs B st0 none 0) with offset := B * f.bs } else st0
  match f with
  | .s128 => .skinnyCtr 64 { ks := { rounds := 0, sched := List.replicate 56 0 }, tweak := zeros 16 } st
  | .s64 => .skinnyCtr 32 { ks := { rounds := 0, sched := List.replicate 40 0 }, tweak := zeros 8 } st
  | .mantis => .mantisCtr { k0 := 0, k0prime := 0, k1 := 0, tweak := 0, rounds := 0 } st

/-- `*_ctr_init`; `h = none` is a null handle pointer; otherwise the handle's prior content -/
def ctrInit (bd : Build) (f : Family) (p : Probes) (w : World) (h : Option Handle) : M (World × Nat × Option Handle) :=
  match h with
  | none => .ok (w, 0, none)
  | some old =>
    let be := selectBackend f p
    let size := bd.sizes.ctr f be + (if be = .generic then 0 else 31)
    let (w, r) := w.alloc size (ctrZero f be (bd.initStaggers && be != .generic))
    match r with
    | none =>
      if bd.initClearsOnFail then .ok (w, 0, some { vtable := .null, ctx := .null })
      else .ok (w, 0, some { old with vtable := .be be })     -- vtable stored, ctx untouched
    | some id => .ok (w, 1, some { vtable := .be be, ctx := .ptr id })

/-- common prefix of every dispatched CTR call: null handle / null vtable → 0;
garbage vtable → call through a wild pointer -/
def dispatch (h : Option Handle) : M (Option (Handle × Backend)) :=
  match h with
  | none => .ok none
  | some hd =>
    match hd.vtable with
    | .null => .ok none
    | .garbage => .error .wildFree
    | .be b => .ok (some (hd, b))

/-- `*_ctr_cleanup` -/
def ctrCleanup (bd : Build) (f : Family) (w : World) (h : Option Handle) : M (World × Option Handle) := do
  match ← dispatch h with
  | none => pure (w, h)
  | some (hd, be) =>
    match hd.ctx with
    | .null => pure (w, some { hd with vtable := .null })
    | p =>
      let (id, _) ← w.deref p
      pure (w.wipeAndFree id (bd.sizes.ctr f be) (bd.sizes.ctrCleanse f be), some { hd with vtable := .null, ctx := .null })

/-- generic shape of the CTR setters: `upd` is the underlying schedule/counter update; `needKey`
says whether the back-end function rejects a null data pointer before looking at the context -/
def ctrUpdate (w : World) (h : Option Handle) (argNull : Bool) (needArg : Bool)
    (upd : Backend → CtxVal → M (Nat × CtxVal)) : M (World × Nat) := do
  match ← dispatch h with
  | none => pure (w, 0)
  | some (hd, be) =>
    if needArg && argNull then pure (w, 0)
    else match hd.ctx with
      | .null => pure (w, 0)
      | p =>
        let (id, a) ← w.deref p
        let (r, v) ← upd be a.val
        if r = 0 then pure (w, 0) else pure (w.setVal id v, r)

def resetStream (f : Family) (be : Backend) (st : CtrState) : CtrState :=
  st.reset f.bs (f.batch be) (be != .generic)

def junkOf (w : Nat) (pat : UInt8) : BitVec w := image w (List.replicate (w / 8 + 1) pat)

/-- `skinnyN_ctr_set_key` -/
def skinnyCtrSetKey (bd : Build) (f : Family) (w : World) (h : Option Handle) (key : Option Bytes) (size : Nat) (junk : UInt8) :
    M (World × Nat) :=
  ctrUpdate w h key.isNone true fun be v =>
    match f, v with
    | .s128, .skinnyCtr 64 kt st =>
      let (r, ks) := setKey (ops128 bd.tag) guards128 p128 kt.ks key size (junkOf 128 junk) (junkOf 128 junk)
      .ok (r, .skinnyCtr 64 { kt with ks := ks } (resetStream f be st))
    | .s64, .skinnyCtr 32 kt st =>
      let (r, ks) := setKey (ops64 bd.tag) guards64 p64 kt.ks key size (junkOf 64 junk) (junkOf 64 junk)
      .ok (r, .skinnyCtr 32 { kt with ks := ks } (resetStream f be st))
    | _, _ => .error .wildFree

/-- `skinnyN_ctr_set_tweaked_key` -/
def skinnyCtrSetTweakedKey (bd : Build) (f : Family) (w : World) (h : Option Handle) (key : Option Bytes) (size : Nat) (junk : UInt8) :
    M (World × Nat) :=
  ctrUpdate w h key.isNone true fun be v =>
    match f, v with
    | .s128, .skinnyCtr 64 kt st =>
      let (r, kt) := setTweakedKey (ops128 bd.tag) guards128 p128 kt key size (junkOf 128 junk) (junkOf 128 junk)
      .ok (r, .skinnyCtr 64 kt (resetStream f be st))
    | .s64, .skinnyCtr 32 kt st =>
      let (r, kt) := setTweakedKey (ops64 bd.tag) guards64 p64 kt key size (junkOf 64 junk) (junkOf 64 junk)
      .ok (r, .skinnyCtr 32 kt (resetStream f be st))
    | _, _ => .error .wildFree

/-- `skinnyN_ctr_set_tweak` -/
def skinnyCtrSetTweak (bd : Build) (f : Family) (w : World) (h : Option Handle) (tweak : Option Bytes) (size : Nat) :
    M (World × Nat) :=
  ctrUpdate w h tweak.isNone false fun be v =>
    match f, v with
    | .s128, .skinnyCtr 64 kt st => do
      let (r, kt) := setTweak (ops128 bd.tag) guards128 p128 kt tweak size
      pure (r, .skinnyCtr 64 kt (resetStream f be st))
    | .s64, .skinnyCtr 32 kt st => do
      let (r, kt) := setTweak (ops64 bd.tag) guards64 p64 kt tweak size
      pure (r, .skinnyCtr 32 kt (resetStream f be st))
    | _, _ => .error .wildFree

/-- `mantis_ctr_set_key` (always keyed for encryption) -/
def mantisCtrSetKey (bd : Build) (w : World) (h : Option Handle) (key : Option Bytes) (size rounds : Nat) : M (World × Nat) :=
  ctrUpdate w h key.isNone true fun be v =>
    match v with
    | .mantisCtr ks st =>
      let (r, ks) := mantisSetKey (opsMantis bd.tag) ks key size rounds 1
      .ok (r, .mantisCtr ks (resetStream .mantis be st))
    | _ => .error .wildFree

/-- `mantis_ctr_set_tweak` -/
def mantisCtrSetTweak (bd : Build) (w : World) (h : Option Handle) (tweak : Option Bytes) (size : Nat) : M (World × Nat) :=
  ctrUpdate w h tweak.isNone false fun be v =>
    match v with
    | .mantisCtr ks st =>
      let (r, ks) := mantisSetTweak (opsMantis bd.tag) ks tweak size
      .ok (r, .mantisCtr ks (resetStream .mantis be st))
    | _ => .error .wildFree

/-- `*_ctr_set_counter`: the size check precedes the context check in every back end -/
def ctrSetCounter (f : Family) (w : World) (h : Option Handle) (counter : Option Bytes) (size : Nat) : M (World × Nat) := do
  match ← dispatch h with
  | none => pure (w, 0)
  | some (hd, be) =>
    if size > f.bs then pure (w, 0)
    else match hd.ctx with
      | .null => pure (w, 0)
      | p =>
        let (id, a) ← w.deref p
        let B := f.batch be
        match a.val with
        | .skinnyCtr hh kt st => pure (w.setVal id (.skinnyCtr hh kt (st.setCounter f.bs B counter size)), 1)
        | .mantisCtr ks st => pure (w.setVal id (.mantisCtr ks (st.setCounter f.bs B counter size)), 1)
        | _ => .error .wildFree

/-- the block function a CTR context encrypts its counters with -/
def ctrBlockFn (bd : Build) (v : CtxVal) : Bytes → Bytes :=
  match v with
  | .skinnyCtr 64 kt _ => ecbEncrypt (ops128 bd.tag) p128 kt.ks
  | .skinnyCtr 32 kt _ => ecbEncrypt (ops64 bd.tag) p64 kt.ks
  | .mantisCtr ks _ => mantisCrypt (opsMantis bd.tag) ks
  | _ => id

/-- `*_ctr_encrypt`; `input = none` models a null `input` or `output` pointer -/
def ctrEncryptCall (bd : Build) (f : Family) (w : World) (h : Option Handle) (input : Option Bytes) : M (World × Nat × Bytes) := do
  match ← dispatch h with
  | none => pure (w, 0, [])
  | some (hd, be) =>
    match input with
    | none => pure (w, 0, [])
    | some data =>
      match hd.ctx with
      | .null => pure (w, 0, [])
      | p =>
        let (id, a) ← w.deref p
        let B := f.batch be
        match a.val with
        | .skinnyCtr hh kt st =>
          let (st', out) := ctrEncrypt (ctrBlockFn bd a.val) f.bs B (be != .generic) st data
          pure (w.setVal id (.skinnyCtr hh kt st'), 1, out)
        | .mantisCtr ks st =>
          let (st', out) := ctrEncrypt (ctrBlockFn bd a.val) f.bs B (be != .generic) st data
          pure (w.setVal id (.mantisCtr ks st'), 1, out)
        | _ => .error .wildFree

/-! ## Parallel ECB objects -/

def parZero : Family → CtxVal
  | .s128 => .skinnyKey 64 { rounds := 0, sched := List.replicate 56 0 }
  | .s64 => .skinnyKey 32 { rounds := 0, sched := List.replicate 40 0 }
  | .mantis => .mantisKey { k0 := 0, k0prime := 0, k1 := 0, tweak := 0, rounds := 0 }

/-- `*_parallel_ecb_init` -/
def parInit (bd : Build) (f : Family) (p : Probes) (w : World) (h : Option Handle) : M (World × Nat × Option Handle) :=
  match h with
  | none =>
    if bd.parInitNullCheck then .ok (w, 0, none)
    else
      -- allocation happens first, then the store through the null handle
      let (_, _) := w.alloc (bd.sizes.par f) (parZero f)
      .error .nullDeref
  | some old =>
    let (w, r) := w.alloc (bd.sizes.par f) (parZero f)
    match r with
    | none =>
      if bd.initClearsOnFail then .ok (w, 0, some { vtable := .null, ctx := .null, psize := 0 })
      else .ok (w, 0, some old)
    | some id =>
      let be := selectBackend f p
      let vt := if be = .generic then VtVal.null else .be be
      let psize := (if f = .s128 ∧ be = .vec256 then 8 else if f = .s128 then 4 else 8) * f.bs
      .ok (w, 1, some { vtable := vt, ctx := .ptr id, psize := psize })

/-- `*_parallel_ecb_cleanup` -/
def parCleanup (bd : Build) (f : Family) (w : World) (h : Option Handle) : M (World × Option Handle) :=
  match h with
  | none => .ok (w, h)
  | some hd =>
    match hd.ctx with
    | .null => .ok (w, h)
    | p => do
      let (id, _) ← w.deref p
      pure (w.wipeAndFree id (bd.sizes.par f) (bd.sizes.parCleanse f), some { hd with ctx := .null })

/-- `skinnyN_parallel_ecb_set_key` -/
def skinnyParSetKey (bd : Build) (f : Family) (w : World) (h : Option Handle) (key : Option Bytes) (size : Nat) (junk : UInt8) :
    M (World × Nat) :=
  match h with
  | none => .ok (w, 0)
  | some hd =>
    match hd.ctx with
    | .null => .ok (w, 0)
    | p => do
      let (id, a) ← w.deref p
      match f, a.val with
      | .s128, .skinnyKey 64 ks =>
        let (r, ks) := setKey (ops128 bd.tag) guards128 p128 ks key size (junkOf 128 junk) (junkOf 128 junk)
        pure (if r = 0 then w else w.setVal id (.skinnyKey 64 ks), r)
      | .s64, .skinnyKey 32 ks =>
        let (r, ks) := setKey (ops64 bd.tag) guards64 p64 ks key size (junkOf 64 junk) (junkOf 64 junk)
        pure (if r = 0 then w else w.setVal id (.skinnyKey 32 ks), r)
      | _, _ => .error .wildFree

/-- `mantis_parallel_ecb_set_key` -/
def mantisParSetKey (bd : Build) (w : World) (h : Option Handle) (key : Option Bytes) (size rounds : Nat) (mode : Int) :
    M (World × Nat) :=
  match h with
  | none => .ok (w, 0)
  | some hd =>
    match hd.ctx with
    | .null => .ok (w, 0)
    | p => do
      let (id, a) ← w.deref p
      match a.val with
      | .mantisKey ks =>
        let (r, ks) := mantisSetKey (opsMantis bd.tag) ks key size rounds mode
        pure (if r = 0 then w else w.setVal id (.mantisKey ks), r)
      | _ => .error .wildFree

/-- `mantis_parallel_ecb_swap_modes` -/
def mantisParSwap (bd : Build) (w : World) (h : Option Handle) : M World :=
  match h with
  | none => .ok w
  | some hd =>
    match hd.ctx with
    | .null => .ok w
    | p => do
      let (id, a) ← w.deref p
      match a.val with
      | .mantisKey ks => pure (w.setVal id (.mantisKey (mantisSwapModes (opsMantis bd.tag) ks)))
      | _ => .error .wildFree

/-- `skinnyN_parallel_ecb_encrypt` / `_decrypt` -/
def skinnyParCrypt (bd : Build) (f : Family) (enc : Bool) (w : World) (h : Option Handle) (input : Bytes) : M (Nat × Bytes) :=
  match h with
  | none => .ok (0, [])
  | some hd =>
    match hd.ctx with
    | .null => .ok (0, [])
    | p =>
      if input.length % f.bs ≠ 0 then .ok (0, [])
      else do
        let (_, a) ← w.deref p
        match f, a.val with
        | .s128, .skinnyKey 64 ks =>
          let F := if enc then ecbEncrypt (ops128 bd.tag) p128 ks else ecbDecrypt (ops128 bd.tag) p128 ks
          pure (1, parallelBlocks F 16 (input.length + 1) input)
        | .s64, .skinnyKey 32 ks =>
          let F := if enc then ecbEncrypt (ops64 bd.tag) p64 ks else ecbDecrypt (ops64 bd.tag) p64 ks
          pure (1, parallelBlocks F 8 (input.length + 1) input)
        | _, _ => .error .wildFree

/-- `mantis_parallel_ecb_crypt`: block `i` under the `i`-th tweak -/
def mantisParBlocks (o : MantisOps) (ks : MantisKey) : Nat → Bytes → Bytes → Bytes
  | 0, _, _ => []
  | fuel + 1, tweaks, input =>
    if input.length < 8 then []
    else mantisCryptTweaked o ks (tweaks.take 8) (input.take 8) ++ mantisParBlocks o ks fuel (tweaks.drop 8) (input.drop 8)

def mantisParCrypt (bd : Build) (w : World) (h : Option Handle) (tweaks input : Bytes) : M (Nat × Bytes) :=
  match h with
  | none => .ok (0, [])
  | some hd =>
    match hd.ctx with
    | .null => .ok (0, [])
    | p =>
      if input.length % 8 ≠ 0 then .ok (0, [])
      else do
        let (_, a) ← w.deref p
        match a.val with
        | .mantisKey ks => pure (1, mantisParBlocks (opsMantis bd.tag) ks (input.length + 1) tweaks input)
        | _ => .error .wildFree

end SkinnyVerif.Api
