/-
Build parameters of the object model taken from the facts the translator reads off the
current source (`Gen/Facts.lean`, regenerated on every run): allocation sizes, cleanse sizes.
-/
import SkinnyVerif.Api.World
import SkinnyVerif.Gen.Facts

namespace SkinnyVerif.Api
open SkinnyVerif SkinnyVerif.Impl

def ctrIndex : Family → Backend → Nat
  | .s128, .generic => 0 | .s128, .vec128 => 1 | .s128, .vec256 => 2
  | .s64, .generic => 3 | .s64, _ => 4
  | .mantis, .generic => 5 | .mantis, _ => 6

def parIndex : Family → Nat
  | .s128 => 7 | .s64 => 8 | .mantis => 9

def factAlloc (i : Nat) : Nat := (Gen.Facts.ctxTable.getD i (0, 0, false)).1
/-- the cleanse size counts only when the cleanup function is exactly `skinny_cleanse(ctx, n); free(..)` -/
def factCleanse (i : Nat) : Nat := let e := Gen.Facts.ctxTable.getD i (0, 0, false); if e.2.2 then e.2.1 else 0

def factsSizes : Sizes :=
  { ctr := fun f be => factAlloc (ctrIndex f be), par := fun f => factAlloc (parIndex f),
    ctrCleanse := fun f be => factCleanse (ctrIndex f be), parCleanse := fun f => factCleanse (parIndex f) }

/-- the behaviour the properties demand of the object layer (all defects repaired) -/
def goodBuild (tag : Tag) : Build :=
  { cfg := {}, tag := tag, sizes := factsSizes, setTweakNullOk := true, parInitNullCheck := true,
    initClearsOnFail := true, initStaggers := true }

/-- every context type is cleansed over at least the bytes that were requested for it -/
def Sizes.WipeOK (s : Sizes) : Prop :=
  (∀ f be, s.ctr f be ≤ s.ctrCleanse f be) ∧ (∀ f, s.par f ≤ s.parCleanse f)

theorem factsSizes_wipeOK : factsSizes.WipeOK := by
  constructor
  · intro f be; cases f <;> cases be <;> decide
  · intro f; cases f <;> decide

theorem factsSizes_pos : (∀ f be, 0 < factsSizes.ctr f be) ∧ (∀ f, 0 < factsSizes.par f) := by
  constructor
  · intro f be; cases f <;> cases be <;> decide
  · intro f; cases f <;> decide

end SkinnyVerif.Api
