/-
Executable form of `_mantis_parallel_crypt_vec128` inside the loops of `mantis_parallel_ecb_crypt`, for the model driver
(the Mantis counterpart of `Impl/VecExec.lean`): assembled from the translated pieces of `src/mantis-parallel-vec128.c`
(`Gen/VecMantisPieces.lean`) exactly as `Lemmas/VecMantis.lean` assembles them for the theorems; `Properties/C07X.lean`
proves the two assemblies equal and `C07X_mantis_exec` that what the driver prints is block `i` under tweak `i`.
-/
import SkinnyVerif.Api.World
import SkinnyVerif.Impl.VecExec
import SkinnyVerif.Gen.VecMantisPieces

namespace SkinnyVerif.Api.VecExecM
open SkinnyVerif SkinnyVerif.Gen SkinnyVerif.Impl SkinnyVerif.Api SkinnyVerif.Impl.VecExec

def pack4h (r0 r1 r2 r3 : BitVec 16) : BitVec 64 :=
  r0.setWidth 64 ||| (r1.setWidth 64 <<< 16) ||| (r2.setWidth 64 <<< 32) ||| (r3.setWidth 64 <<< 48)
def packTh (t : R16) : BitVec 64 := pack4h t.1 t.2.1 t.2.2.1 t.2.2.2
def unpackTh (s : BitVec 64) : R16 := (s.extractLsb' 0 16, s.extractLsb' 16 16, s.extractLsb' 32 16, s.extractLsb' 48 16)
def rowsOf (x : BitVec 512) : R128 := (x.extractLsb' 0 128, x.extractLsb' 128 128, x.extractLsb' 256 128, x.extractLsb' 384 128)
def imageOf (r : R128) : BitVec 512 :=
  r.1.setWidth 512 ||| (r.2.1.setWidth 512 <<< 128) ||| (r.2.2.1.setWidth 512 <<< 256) ||| (r.2.2.2.setWidth 512 <<< 384)

def zipRowsH (f : R16 → R16 → R16) (s t : R128) : R128 :=
  (packLanes 16 128 (fun j => (f (laneRowsH s j) (laneRowsH t j)).1) 8, packLanes 16 128 (fun j => (f (laneRowsH s j) (laneRowsH t j)).2.1) 8,
   packLanes 16 128 (fun j => (f (laneRowsH s j) (laneRowsH t j)).2.2.1) 8, packLanes 16 128 (fun j => (f (laneRowsH s j) (laneRowsH t j)).2.2.2) 8)

def stepAll (g : BitVec 64 → BitVec 64 → BitVec 64 × BitVec 64) (p : R128 × R128) : R128 × R128 :=
  (zipRowsH (fun a b => unpackTh (g (packTh a) (packTh b)).1) p.1 p.2, zipRowsH (fun a b => unpackTh (g (packTh a) (packTh b)).2) p.1 p.2)

def vmK1 (ks : BitVec 288) (input tweak : BitVec 512) : BitVec 64 := (vmp_pre input ks tweak).2.2
def vmA (ks : BitVec 288) (rounds : Nat) (input tweak : BitVec 512) : R128 × R128 :=
  (List.range rounds).foldl (fun acc i => stepAll (fun s t => vmp_fwd s t (vmK1 ks input tweak) (vmp_rc.getD i 0)) acc)
    (rowsOf (vmp_pre input ks tweak).1, rowsOf (vmp_pre input ks tweak).2.1)
def vmK1' (ks : BitVec 288) (input tweak : BitVec 512) : BitVec 64 := (vmp_mid 0 (vmK1 ks input tweak)).2
def vmSt (ks : BitVec 288) (rounds : Nat) (input tweak : BitVec 512) : R128 :=
  zipRowsH (fun s _ => unpackTh (vmp_mid (packTh s) (vmK1 ks input tweak)).1) (vmA ks rounds input tweak).1 (vmA ks rounds input tweak).2
def vmB (ks : BitVec 288) (rounds : Nat) (input tweak : BitVec 512) : R128 × R128 :=
  (List.range rounds).foldl (fun acc i => stepAll (fun s t => vmp_bwd s t (vmK1' ks input tweak) (vmp_rc.getD (rounds - 1 - i) 0)) acc)
    (vmSt ks rounds input tweak, (vmA ks rounds input tweak).2)

/-- `_mantis_parallel_crypt_vec128` on one group of eight blocks with their eight tweaks -/
def mantis8 (ks : BitVec 288) (rounds : Nat) (input tweak : BitVec 512) : BitVec 512 :=
  vmp_post (imageOf (vmB ks rounds input tweak).1) (imageOf (vmB ks rounds input tweak).2) (vmK1' ks input tweak) ks

/-- the loops of `mantis_parallel_ecb_crypt`: groups of eight through the vector code, the rest block by block -/
def batchedM (G : Bytes → Bytes → Bytes) (o : MantisOps) (ks : MantisKey) : Nat → Bytes → Bytes → Bytes
  | 0, _, _ => []
  | fuel + 1, tw, inp =>
    if 64 ≤ inp.length then G (tw.take 64) (inp.take 64) ++ batchedM G o ks fuel (tw.drop 64) (inp.drop 64)
    else mantisParBlocks o ks (inp.length + 1) tw inp

def parMantis (be : Backend) (o : MantisOps) (ks : MantisKey) (tw inp : Bytes) : Bytes :=
  match be with
  | .generic => mantisParBlocks o ks (inp.length + 1) tw inp
  | _ => batchedM (fun t c => bytesOf 64 (mantis8 ks.image ks.rounds (image 512 c) (image 512 t))) o ks (inp.length + 1) tw inp

end SkinnyVerif.Api.VecExecM
