/-
C19 (Mantis-8 part): the generic form of C02 for an arbitrary table of MANTIS pieces, instantiated
with the pieces translated from `arduino/libraries/Skinny/Mantis8.cpp`.
-/
import SkinnyVerif.Properties.C02
import SkinnyVerif.Properties.C03M
import SkinnyVerif.Lemmas.ArduinoMantis

namespace SkinnyVerif.Properties
open SkinnyVerif SkinnyVerif.Gen SkinnyVerif.Impl SkinnyVerif.Lemmas SkinnyVerif.Spec.Skinny SkinnyVerif.Spec.Mantis

/-! ## key material after `mantis_set_key` -/

theorem keysOf_enc_ops (o : MantisOps) (P : MantisPiecesOK o) (K : MantisKeysOK o) (RC : ∀ i, i < 8 → cells4 (o.rc.getD i 0) = rcCells i) (key : Bytes) (hk : key.length = 16) (rounds : Nat) :
    keysOf { MantisKey.ofImage (o.setKeyEnc (image 128 key)).2 with rounds := rounds } = encKeys key := by
  simp only [keysOf, encKeys, K.enc_k0, K.enc_k0p, K.enc_k1, image128_lo, image128_hi key (by omega)]
  have h8 : (key.take 8).length = 8 := by simp [hk]
  have h8' : ((key.drop 8).take 8).length = 8 := by simp [hk]
  rw [beWord_bswap _ h8, beWord_bswap _ h8', cellsOfWord_bswap, cellsOfWord_bswap, rot_le_cells,
    image_take 64 key 8 (by decide), image_take 64 (key.drop 8) 8 (by decide)]

theorem keysOf_dec_ops (o : MantisOps) (P : MantisPiecesOK o) (K : MantisKeysOK o) (RC : ∀ i, i < 8 → cells4 (o.rc.getD i 0) = rcCells i) (key : Bytes) (hk : key.length = 16) (rounds : Nat) :
    keysOf { MantisKey.ofImage (o.setKeyDec (image 128 key)).2 with rounds := rounds } = decKeys key := by
  simp only [keysOf, decKeys, encKeys, K.dec_k0, K.dec_k0p, K.dec_k1, image128_lo, image128_hi key (by omega), cells4_xor, alphaImg_cells]
  have h8 : (key.take 8).length = 8 := by simp [hk]
  have h8' : ((key.drop 8).take 8).length = 8 := by simp [hk]
  rw [beWord_bswap _ h8, beWord_bswap _ h8', cellsOfWord_bswap, cellsOfWord_bswap, rot_le_cells,
    image_take 64 key 8 (by decide), image_take 64 (key.drop 8) 8 (by decide)]

/-- the specification's `mode`: 1 = `MANTIS_ENCRYPT`, anything else = decrypt -/
def specCrypt_ops (mode : Int) (r : Nat) (key tweak blk : Bytes) : Bytes :=
  if mode = 1 then Spec.Mantis.encrypt r key tweak blk else Spec.Mantis.decrypt r key tweak blk

/-- **C02** -/
theorem C02_mantis_ops (o : MantisOps) (P : MantisPiecesOK o) (K : MantisKeysOK o) (RC : ∀ i, i < 8 → cells4 (o.rc.getD i 0) = rcCells i) (ks0 : MantisKey) (key tweak blk : Bytes) (hk : key.length = 16) (rounds : Nat)
    (hr : 5 ≤ rounds ∧ rounds ≤ 8) (mode : Int) :
    let r := mantisSetKey o ks0 (some key) 16 rounds mode
    r.1 = 1 ∧
    -- a freshly keyed schedule uses the all-zero tweak
    mantisCrypt o r.2 blk = specCrypt_ops mode rounds key (zeros 8) blk ∧
    -- the tweak supplied with the call
    mantisCryptTweaked o r.2 tweak blk = specCrypt_ops mode rounds key tweak blk ∧
    -- the tweak supplied through the schedule
    (mantisSetTweak o r.2 (some tweak) 8).1 = 1 ∧
    mantisCrypt o (mantisSetTweak o r.2 (some tweak) 8).2 blk = specCrypt_ops mode rounds key tweak blk ∧
    -- a NULL tweak is the zero tweak
    mantisCrypt o (mantisSetTweak o r.2 none 8).2 blk = specCrypt_ops mode rounds key (zeros 8) blk := by
  intro r
  have hg : mantisSetKeyGuard false (some key).isNone 16 rounds mode = false := by
    rw [guardMantis_setKey _ _ _ _ (by decide) (by omega)]
    simp; omega
  have hgt : ∀ tw : Option Bytes, mantisSetTweakGuard false tw.isNone 8 = false := by
    intro tw; rw [guardMantis_setTweak _ _ (by decide)]; simp
  have hr2 : r.2.rounds = rounds := by
    simp only [r, mantisSetKey, hg, Bool.false_eq_true, if_false]
  have hkeys : keysOf r.2 = if mode = 1 then encKeys key else decKeys key := by
    simp only [r, mantisSetKey, hg, Bool.false_eq_true, if_false]
    by_cases hm : mode = 1
    · simp only [hm, if_true]; exact keysOf_enc_ops o P K RC key hk rounds
    · simp only [hm, if_false]; exact keysOf_dec_ops o P K RC key hk rounds
  have htw0 : r.2.tweak = 0 := by
    simp only [r, mantisSetKey, hg, Bool.false_eq_true, if_false]
    by_cases hm : mode = 1
    · simp only [hm, if_true]; exact K.enc_tw _
    · simp only [hm, if_false]; exact K.dec_tw _
  have hz : cells4 (0 : BitVec 64) = cellsOfBytes4 (zeros 8) := by rw [cellsOfBytes4_eq, image64_zeros]
  have spec_eq : ∀ tw : Bytes, bytesOfCells4 (crypt rounds (if mode = 1 then encKeys key else decKeys key) (cellsOfBytes4 tw) (cellsOfBytes4 blk)) =
      specCrypt_ops mode rounds key tw blk := by
    intro tw; simp only [specCrypt_ops, Spec.Mantis.encrypt, Spec.Mantis.decrypt]; split <;> rfl
  refine ⟨?_, ?_, ?_, ?_, ?_, ?_⟩
  · simp only [r, mantisSetKey, hg, Bool.false_eq_true, if_false]
  · rw [mantisCrypt_spec o P RC r.2 (by omega) blk, hr2, hkeys, htw0, hz, ← cellsOfBytes4_eq]; exact spec_eq _
  · rw [mantisCryptTweaked_spec o P RC r.2 (by omega) tweak blk, hr2, hkeys, ← cellsOfBytes4_eq, ← cellsOfBytes4_eq]; exact spec_eq _
  · simp only [mantisSetTweak, hgt, Bool.false_eq_true, if_false]
  · have hks : (mantisSetTweak o r.2 (some tweak) 8).2 = { r.2 with tweak := image 64 tweak } := by
      simp only [mantisSetTweak, hgt, Bool.false_eq_true, if_false]
      rw [K.unpack0, image128_lo, image_take 64 tweak 8 (by decide)]
    rw [hks, mantisCrypt_spec o P RC _ (by simp only; omega) blk]
    simp only [keysOf] at hkeys ⊢
    rw [hr2, hkeys, ← cellsOfBytes4_eq, ← cellsOfBytes4_eq]; exact spec_eq _
  · have hks : (mantisSetTweak o r.2 none 8).2 = { r.2 with tweak := 0 } := by
      simp only [mantisSetTweak, hgt, Bool.false_eq_true, if_false]
    rw [hks, mantisCrypt_spec o P RC _ (by simp only; omega) blk]
    simp only [keysOf] at hkeys ⊢
    rw [hr2, hkeys, hz, ← cellsOfBytes4_eq]; exact spec_eq _



/-- `mantis_swap_modes` turns the key material of an encryption schedule into that of the
decryption schedule and back; tweak and round count are kept -/
theorem C02_swap_modes_ops (o : MantisOps) (P : MantisPiecesOK o) (K : MantisKeysOK o) (RC : ∀ i, i < 8 → cells4 (o.rc.getD i 0) = rcCells i) (ks : MantisKey) :
    let s := mantisSwapModes o ks
    keysOf s = { k0 := (keysOf ks).k0', k0' := (keysOf ks).k0, k1 := xorCells (keysOf ks).k1 (cellsOfWord alpha) } ∧
    s.tweak = ks.tweak ∧ s.rounds = ks.rounds := by
  simp only [mantisSwapModes, keysOf, K.swap_k0, K.swap_k0p, K.swap_k1, K.swap_tw, cells4_xor, alphaImg_cells, and_self]

theorem C02_swap_enc_is_dec_ops (o : MantisOps) (P : MantisPiecesOK o) (K : MantisKeysOK o) (RC : ∀ i, i < 8 → cells4 (o.rc.getD i 0) = rcCells i) (ks : MantisKey) (key : Bytes) (h : keysOf ks = encKeys key) :
    keysOf (mantisSwapModes o ks) = decKeys key := by
  rw [(C02_swap_modes_ops o P K RC ks).1, h]; rfl

theorem C02_swap_dec_is_enc_ops (o : MantisOps) (P : MantisPiecesOK o) (K : MantisKeysOK o) (RC : ∀ i, i < 8 → cells4 (o.rc.getD i 0) = rcCells i) (ks : MantisKey) (key : Bytes) (h : keysOf ks = decKeys key) :
    keysOf (mantisSwapModes o ks) = encKeys key := by
  rw [(C02_swap_modes_ops o P K RC ks).1, h]
  simp only [decKeys, xorCells_alpha_twice]


/-- **C19, Mantis8**: after `setKey` (8 rounds) the class encrypts as MANTIS-8 under the zero tweak, under
the tweak given to `setTweak` (NULL = zero), and after `swapModes` it decrypts -/
theorem C19_mantis8 (ks0 : MantisKey) (key tweak blk : Bytes) (hk : key.length = 16) :
    let r := mantisSetKey opsArdM ks0 (some key) 16 8 1
    mantisCrypt opsArdM r.2 blk = Spec.Mantis.encrypt 8 key (zeros 8) blk ∧
    mantisCrypt opsArdM (mantisSetTweak opsArdM r.2 (some tweak) 8).2 blk = Spec.Mantis.encrypt 8 key tweak blk ∧
    mantisCrypt opsArdM (mantisSetTweak opsArdM r.2 none 8).2 blk = Spec.Mantis.encrypt 8 key (zeros 8) blk := by
  intro r
  have h := C02_mantis_ops opsArdM mantisPieces_ard mantisKeys_ard mantis_rc_ok_ard ks0 key tweak blk hk 8 (by decide) 1
  simp only [specCrypt_ops, if_true] at h
  exact ⟨h.2.1, h.2.2.2.2.1, h.2.2.2.2.2⟩

/-- after `swapModes` the key material is that of the decryption schedule -/
theorem C19_mantis8_swap (ks : MantisKey) (key : Bytes) (h : keysOf ks = encKeys key) :
    keysOf (mantisSwapModes opsArdM ks) = decKeys key :=
  C02_swap_enc_is_dec_ops opsArdM mantisPieces_ard mantisKeys_ard mantis_rc_ok_ard ks key h

end SkinnyVerif.Properties
