/-
C14-C17 over the object-layer state machine (`Api/Machine.lean`): for every history a C caller
may produce, no call faults, the heap invariant holds, failed calls change nothing, cleanup
releases exactly what init allocated, and every freed block was wiped.
-/
import SkinnyVerif.Api.Machine

namespace SkinnyVerif.Properties
open SkinnyVerif SkinnyVerif.Impl SkinnyVerif.Api

/-- a usable handle: no garbage fields; an owned context is live and of the right type -/
def WFH (w : World) (k : Kind) (h : Handle) : Prop :=
  h.vtable ≠ .garbage ∧ h.ctx ≠ .garbage ∧
  ∀ id, h.ctx = .ptr id → ∃ a, w.heap[id]? = some a ∧ a.live = true ∧ a.val.shape = k.shape ∧
    (∀ f, k = .ctr f → ∃ be, h.vtable = .be be)

/-- what a call that is neither `init` nor `cleanup` may do to the world -/
def PureEffect (w : World) (k : Kind) (h : Handle) (w' : World) : Prop :=
  w' = w ∨ ∃ id v, h.ctx = .ptr id ∧ w' = w.setVal id v ∧ v.shape = k.shape

theorem deref_ok (w : World) (id : Nat) (a : Alloc) (h1 : w.heap[id]? = some a) (h2 : a.live = true) :
    w.deref (.ptr id) = .ok (id, a) := by
  simp [World.deref, h1, h2]

theorem shape_sctr {v : CtxVal} {h : Nat} (hs : v.shape = .sctr h) : ∃ kt st, v = .skinnyCtr h kt st := by
  cases v <;> simp [CtxVal.shape] at hs
  subst hs; exact ⟨_, _, rfl⟩
theorem shape_mctr {v : CtxVal} (hs : v.shape = .mctr) : ∃ ks st, v = .mantisCtr ks st := by
  cases v <;> simp [CtxVal.shape] at hs
  exact ⟨_, _, rfl⟩
theorem shape_skey {v : CtxVal} {h : Nat} (hs : v.shape = .skey h) : ∃ ks, v = .skinnyKey h ks := by
  cases v <;> simp [CtxVal.shape] at hs
  subst hs; exact ⟨_, rfl⟩
theorem shape_mkey {v : CtxVal} (hs : v.shape = .mkey) : ∃ ks, v = .mantisKey ks := by
  cases v <;> simp [CtxVal.shape] at hs
  exact ⟨_, rfl⟩

theorem ctrUpdate_spec (w : World) (k : Kind) (h : Handle) (argNull needArg : Bool)
    (upd : Backend → CtxVal → M (Nat × CtxVal)) (hwf : WFH w k h)
    (hupd : ∀ be v, v.shape = k.shape → ∃ r v', upd be v = .ok (r, v') ∧ v'.shape = k.shape) :
    ∃ w' r, ctrUpdate w (some h) argNull needArg upd = .ok (w', r) ∧ PureEffect w k h w' ∧ (r = 0 → w' = w) := by
  obtain ⟨hv, hc, hp⟩ := hwf
  unfold ctrUpdate dispatch
  cases hvt : h.vtable with
  | garbage => exact absurd hvt hv
  | null => exact ⟨w, 0, by simp [bind, Except.bind, pure, Except.pure, hvt], Or.inl rfl, fun _ => rfl⟩
  | be b =>
    by_cases hna : (needArg && argNull) = true
    · exact ⟨w, 0, by simp [bind, Except.bind, pure, Except.pure, hna, hvt], Or.inl rfl, fun _ => rfl⟩
    · cases hcx : h.ctx with
      | garbage => exact absurd hcx hc
      | null => exact ⟨w, 0, by simp [bind, Except.bind, pure, Except.pure, hna, hvt, hcx], Or.inl rfl, fun _ => rfl⟩
      | ptr id =>
        obtain ⟨a, ha, hlive, hshape, _⟩ := hp id hcx
        obtain ⟨r, v', hu, hs'⟩ := hupd b a.val hshape
        by_cases hr : r = 0
        · refine ⟨w, 0, ?_, Or.inl rfl, fun _ => rfl⟩
          simp [bind, Except.bind, pure, Except.pure, hna, hvt, hcx, deref_ok w id a ha hlive, hu, hr]
        · refine ⟨w.setVal id v', r, ?_, Or.inr ⟨id, v', hcx, rfl, hs'⟩, fun h0 => absurd h0 hr⟩
          simp [bind, Except.bind, pure, Except.pure, hna, hvt, hcx, deref_ok w id a ha hlive, hu, hr]


theorem ctr_shape_cases (f : Family) (v : CtxVal) (hv : v.shape = (Kind.ctr f).shape) :
    (∃ hh kt st, v = .skinnyCtr hh kt st) ∨ (∃ ks st, v = .mantisCtr ks st) := by
  cases f
  · obtain ⟨kt, st, rfl⟩ := shape_sctr hv; exact Or.inl ⟨_, _, _, rfl⟩
  · obtain ⟨kt, st, rfl⟩ := shape_sctr hv; exact Or.inl ⟨_, _, _, rfl⟩
  · obtain ⟨ks, st, rfl⟩ := shape_mctr hv; exact Or.inr ⟨_, _, rfl⟩

theorem setCounter_spec (w : World) (f : Family) (h : Handle) (counter : Option Bytes) (size : Nat) (hwf : WFH w (.ctr f) h) :
    ∃ w' r, ctrSetCounter f w (some h) counter size = .ok (w', r) ∧ PureEffect w (.ctr f) h w' ∧ (r = 0 → w' = w) := by
  obtain ⟨hv, hc, hp⟩ := hwf
  unfold ctrSetCounter dispatch
  cases hvt : h.vtable with
  | garbage => exact absurd hvt hv
  | null => exact ⟨w, 0, by simp [bind, Except.bind, pure, Except.pure, hvt], Or.inl rfl, fun _ => rfl⟩
  | be b =>
    by_cases hsz : size > f.bs
    · exact ⟨w, 0, by simp [bind, Except.bind, pure, Except.pure, hvt, hsz], Or.inl rfl, fun _ => rfl⟩
    · cases hcx : h.ctx with
      | garbage => exact absurd hcx hc
      | null => exact ⟨w, 0, by simp [bind, Except.bind, pure, Except.pure, hvt, hsz, hcx], Or.inl rfl, fun _ => rfl⟩
      | ptr id =>
        obtain ⟨a, ha, hlive, hshape, _⟩ := hp id hcx
        rcases ctr_shape_cases f a.val hshape with ⟨hh, kt, st, hval⟩ | ⟨ks, st, hval⟩
        · refine ⟨w.setVal id (.skinnyCtr hh kt (st.setCounter f.bs (f.batch b) counter size)), 1, ?_, Or.inr ⟨id, _, hcx, rfl, ?_⟩, fun h0 => by simp at h0⟩
          · simp [bind, Except.bind, pure, Except.pure, hvt, hsz, hcx, deref_ok w id a ha hlive, hval]
          · rw [hval] at hshape; exact hshape
        · refine ⟨w.setVal id (.mantisCtr ks (st.setCounter f.bs (f.batch b) counter size)), 1, ?_, Or.inr ⟨id, _, hcx, rfl, ?_⟩, fun h0 => by simp at h0⟩
          · simp [bind, Except.bind, pure, Except.pure, hvt, hsz, hcx, deref_ok w id a ha hlive, hval]
          · rw [hval] at hshape; exact hshape

theorem encrypt_spec (bd : Build) (w : World) (f : Family) (h : Handle) (input : Option Bytes) (hwf : WFH w (.ctr f) h) :
    ∃ w' r d, ctrEncryptCall bd f w (some h) input = .ok (w', r, d) ∧ PureEffect w (.ctr f) h w' ∧ (r = 0 → w' = w) := by
  obtain ⟨hv, hc, hp⟩ := hwf
  unfold ctrEncryptCall dispatch
  cases hvt : h.vtable with
  | garbage => exact absurd hvt hv
  | null => exact ⟨w, 0, [], by simp [bind, Except.bind, pure, Except.pure, hvt], Or.inl rfl, fun _ => rfl⟩
  | be b =>
    cases input with
    | none => exact ⟨w, 0, [], by simp [bind, Except.bind, pure, Except.pure, hvt], Or.inl rfl, fun _ => rfl⟩
    | some data =>
      cases hcx : h.ctx with
      | garbage => exact absurd hcx hc
      | null => exact ⟨w, 0, [], by simp [bind, Except.bind, pure, Except.pure, hvt, hcx], Or.inl rfl, fun _ => rfl⟩
      | ptr id =>
        obtain ⟨a, ha, hlive, hshape, _⟩ := hp id hcx
        rcases ctr_shape_cases f a.val hshape with ⟨hh, kt, st, hval⟩ | ⟨ks, st, hval⟩
        · refine ⟨w.setVal id (.skinnyCtr hh kt (ctrEncrypt (ctrBlockFn bd (.skinnyCtr hh kt st)) f.bs (f.batch b) (b != .generic) st data).1), 1,
              (ctrEncrypt (ctrBlockFn bd (.skinnyCtr hh kt st)) f.bs (f.batch b) (b != .generic) st data).2, ?_, Or.inr ⟨id, _, hcx, rfl, ?_⟩, fun h0 => by simp at h0⟩
          · simp [bind, Except.bind, pure, Except.pure, hvt, hcx, deref_ok w id a ha hlive, hval]
          · rw [hval] at hshape; exact hshape
        · refine ⟨w.setVal id (.mantisCtr ks (ctrEncrypt (ctrBlockFn bd (.mantisCtr ks st)) f.bs (f.batch b) (b != .generic) st data).1), 1,
              (ctrEncrypt (ctrBlockFn bd (.mantisCtr ks st)) f.bs (f.batch b) (b != .generic) st data).2, ?_, Or.inr ⟨id, _, hcx, rfl, ?_⟩, fun h0 => by simp at h0⟩
          · simp [bind, Except.bind, pure, Except.pure, hvt, hcx, deref_ok w id a ha hlive, hval]
          · rw [hval] at hshape; exact hshape

/-- the result of a call that is neither `init` nor `cleanup` on a usable object -/
def PureResult (bd : Build) (w : World) (k : Kind) (h : Handle) (c : Call) : Prop :=
  ∃ w' out, callStep bd w k (some h) c = .ok (w', some h, out) ∧ PureEffect w k h w' ∧ (out.ret = some 0 → w' = w)

theorem pure_of_update {bd : Build} {w : World} {k : Kind} {h : Handle} {c : Call} {X : M (World × Nat)}
    (hX : ∃ w' r, X = .ok (w', r) ∧ PureEffect w k h w' ∧ (r = 0 → w' = w))
    (hstep : callStep bd w k (some h) c = (do let r ← X; pure (r.1, some h, { ret := some r.2 }))) :
    PureResult bd w k h c := by
  obtain ⟨w', r, hx, he, h0⟩ := hX
  refine ⟨w', { ret := some r }, ?_, he, ?_⟩
  · rw [hstep, hx]; rfl
  · intro hr; exact h0 (by simpa using hr)

theorem call_pure_ctr (bd : Build) (w : World) (f : Family) (h : Handle) (c : Call) (hwf : WFH w (.ctr f) h)
    (hi : c.isInit = false) (hcl : c.isCleanup = false) : PureResult bd w (.ctr f) h c := by
  have same : PureResult bd w (.ctr f) h c ↔ PureResult bd w (.ctr f) h c := Iff.rfl
  cases c with
  | init p => simp [Call.isInit] at hi
  | cleanup => simp [Call.isCleanup] at hcl
  | setKey key size junk =>
    cases f with
    | mantis => exact ⟨w, {}, rfl, Or.inl rfl, fun _ => rfl⟩
    | s128 =>
      apply pure_of_update (X := skinnyCtrSetKey bd .s128 w (some h) key size junk) _ rfl
      apply ctrUpdate_spec w _ h _ _ _ hwf
      intro be v hv; obtain ⟨kt, st, rfl⟩ := shape_sctr hv; exact ⟨_, _, rfl, rfl⟩
    | s64 =>
      apply pure_of_update (X := skinnyCtrSetKey bd .s64 w (some h) key size junk) _ rfl
      apply ctrUpdate_spec w _ h _ _ _ hwf
      intro be v hv; obtain ⟨kt, st, rfl⟩ := shape_sctr hv; exact ⟨_, _, rfl, rfl⟩
  | setTweakedKey key size junk =>
    cases f with
    | mantis => exact ⟨w, {}, rfl, Or.inl rfl, fun _ => rfl⟩
    | s128 =>
      apply pure_of_update (X := skinnyCtrSetTweakedKey bd .s128 w (some h) key size junk) _ rfl
      apply ctrUpdate_spec w _ h _ _ _ hwf
      intro be v hv; obtain ⟨kt, st, rfl⟩ := shape_sctr hv; exact ⟨_, _, rfl, rfl⟩
    | s64 =>
      apply pure_of_update (X := skinnyCtrSetTweakedKey bd .s64 w (some h) key size junk) _ rfl
      apply ctrUpdate_spec w _ h _ _ _ hwf
      intro be v hv; obtain ⟨kt, st, rfl⟩ := shape_sctr hv; exact ⟨_, _, rfl, rfl⟩
  | setTweak tweak size =>
    cases f with
    | mantis =>
      apply pure_of_update (X := mantisCtrSetTweak bd w (some h) tweak size) _ rfl
      apply ctrUpdate_spec w _ h _ _ _ hwf
      intro be v hv; obtain ⟨ks, st, rfl⟩ := shape_mctr hv; exact ⟨_, _, rfl, rfl⟩
    | s128 =>
      apply pure_of_update (X := skinnyCtrSetTweak bd .s128 w (some h) tweak size) _ rfl
      apply ctrUpdate_spec w _ h _ _ _ hwf
      intro be v hv; obtain ⟨kt, st, rfl⟩ := shape_sctr hv; exact ⟨_, _, rfl, rfl⟩
    | s64 =>
      apply pure_of_update (X := skinnyCtrSetTweak bd .s64 w (some h) tweak size) _ rfl
      apply ctrUpdate_spec w _ h _ _ _ hwf
      intro be v hv; obtain ⟨kt, st, rfl⟩ := shape_sctr hv; exact ⟨_, _, rfl, rfl⟩
  | mantisSetKey key size rounds mode =>
    cases f with
    | mantis =>
      apply pure_of_update (X := mantisCtrSetKey bd w (some h) key size rounds) _ rfl
      apply ctrUpdate_spec w _ h _ _ _ hwf
      intro be v hv; obtain ⟨ks, st, rfl⟩ := shape_mctr hv; exact ⟨_, _, rfl, rfl⟩
    | s128 => exact ⟨w, {}, rfl, Or.inl rfl, fun _ => rfl⟩
    | s64 => exact ⟨w, {}, rfl, Or.inl rfl, fun _ => rfl⟩
  | setCounter counter size =>
    exact pure_of_update (X := ctrSetCounter f w (some h) counter size) (setCounter_spec w f h counter size hwf) rfl
  | encrypt input =>
    obtain ⟨w', r, d, hx, he, h0⟩ := encrypt_spec bd w f h input hwf
    refine ⟨w', { ret := some r, data := d }, ?_, he, fun hr => h0 (by simpa using hr)⟩
    show (do let r ← ctrEncryptCall bd f w (some h) input; pure (r.1, some h, ({ ret := some r.2.1, data := r.2.2 } : Out))) = _
    rw [hx]; rfl
  | parCrypt enc input => exact ⟨w, {}, rfl, Or.inl rfl, fun _ => rfl⟩
  | mantisParCrypt tweaks input => exact ⟨w, {}, rfl, Or.inl rfl, fun _ => rfl⟩
  | swap => exact ⟨w, {}, rfl, Or.inl rfl, fun _ => rfl⟩


theorem call_pure_par (bd : Build) (w : World) (f : Family) (h : Handle) (c : Call) (hwf : WFH w (.par f) h)
    (hi : c.isInit = false) (hcl : c.isCleanup = false) : PureResult bd w (.par f) h c := by
  obtain ⟨hv, hc, hp⟩ := hwf
  have triv : PureResult bd w (.par f) h c → PureResult bd w (.par f) h c := id
  cases c with
  | init p => simp [Call.isInit] at hi
  | cleanup => simp [Call.isCleanup] at hcl
  | setTweakedKey key size junk => exact ⟨w, {}, rfl, Or.inl rfl, fun _ => rfl⟩
  | setTweak tweak size => exact ⟨w, {}, rfl, Or.inl rfl, fun _ => rfl⟩
  | setCounter counter size => exact ⟨w, {}, rfl, Or.inl rfl, fun _ => rfl⟩
  | encrypt input => exact ⟨w, {}, rfl, Or.inl rfl, fun _ => rfl⟩
  | setKey key size junk =>
    cases f with
    | mantis => exact ⟨w, {}, rfl, Or.inl rfl, fun _ => rfl⟩
    | s128 =>
      apply pure_of_update (X := skinnyParSetKey bd .s128 w (some h) key size junk) _ rfl
      unfold skinnyParSetKey
      cases hcx : h.ctx with
      | garbage => exact absurd hcx hc
      | null => exact ⟨w, 0, by simp [hcx], Or.inl rfl, fun _ => rfl⟩
      | ptr id =>
        obtain ⟨a, ha, hlive, hshape, _⟩ := hp id hcx
        obtain ⟨ks, hval⟩ := shape_skey hshape
        simp only [hcx, bind, Except.bind, deref_ok w id a ha hlive, hval, pure, Except.pure]
        by_cases hr : (setKey (ops128 bd.tag) guards128 p128 ks key size (junkOf 128 junk) (junkOf 128 junk)).1 = 0
        · exact ⟨w, 0, by simp [hr], Or.inl rfl, fun _ => rfl⟩
        · exact ⟨w.setVal id (.skinnyKey 64 (setKey (ops128 bd.tag) guards128 p128 ks key size (junkOf 128 junk) (junkOf 128 junk)).2), _, by simp [hr], Or.inr ⟨id, _, hcx, rfl, rfl⟩, fun h0 => absurd h0 hr⟩
    | s64 =>
      apply pure_of_update (X := skinnyParSetKey bd .s64 w (some h) key size junk) _ rfl
      unfold skinnyParSetKey
      cases hcx : h.ctx with
      | garbage => exact absurd hcx hc
      | null => exact ⟨w, 0, by simp [hcx], Or.inl rfl, fun _ => rfl⟩
      | ptr id =>
        obtain ⟨a, ha, hlive, hshape, _⟩ := hp id hcx
        obtain ⟨ks, hval⟩ := shape_skey hshape
        simp only [hcx, bind, Except.bind, deref_ok w id a ha hlive, hval, pure, Except.pure]
        by_cases hr : (setKey (ops64 bd.tag) guards64 p64 ks key size (junkOf 64 junk) (junkOf 64 junk)).1 = 0
        · exact ⟨w, 0, by simp [hr], Or.inl rfl, fun _ => rfl⟩
        · exact ⟨w.setVal id (.skinnyKey 32 (setKey (ops64 bd.tag) guards64 p64 ks key size (junkOf 64 junk) (junkOf 64 junk)).2), _, by simp [hr], Or.inr ⟨id, _, hcx, rfl, rfl⟩, fun h0 => absurd h0 hr⟩
  | mantisSetKey key size rounds mode =>
    cases f with
    | s128 => exact ⟨w, {}, rfl, Or.inl rfl, fun _ => rfl⟩
    | s64 => exact ⟨w, {}, rfl, Or.inl rfl, fun _ => rfl⟩
    | mantis =>
      apply pure_of_update (X := mantisParSetKey bd w (some h) key size rounds mode) _ rfl
      unfold mantisParSetKey
      cases hcx : h.ctx with
      | garbage => exact absurd hcx hc
      | null => exact ⟨w, 0, by simp [hcx], Or.inl rfl, fun _ => rfl⟩
      | ptr id =>
        obtain ⟨a, ha, hlive, hshape, _⟩ := hp id hcx
        obtain ⟨ks, hval⟩ := shape_mkey hshape
        simp only [hcx, bind, Except.bind, deref_ok w id a ha hlive, hval, pure, Except.pure]
        by_cases hr : (mantisSetKey (opsMantis bd.tag) ks key size rounds mode).1 = 0
        · exact ⟨w, 0, by simp [hr], Or.inl rfl, fun _ => rfl⟩
        · exact ⟨w.setVal id (.mantisKey (mantisSetKey (opsMantis bd.tag) ks key size rounds mode).2), _, by simp [hr], Or.inr ⟨id, _, hcx, rfl, rfl⟩, fun h0 => absurd h0 hr⟩
  | swap =>
    cases f with
    | s128 => exact ⟨w, {}, rfl, Or.inl rfl, fun _ => rfl⟩
    | s64 => exact ⟨w, {}, rfl, Or.inl rfl, fun _ => rfl⟩
    | mantis =>
      cases hcx : h.ctx with
      | garbage => exact absurd hcx hc
      | null => exact ⟨w, {}, by simp [callStep, mantisParSwap, hcx, bind, Except.bind, pure, Except.pure], Or.inl rfl, fun _ => rfl⟩
      | ptr id =>
        obtain ⟨a, ha, hlive, hshape, _⟩ := hp id hcx
        obtain ⟨ks, hval⟩ := shape_mkey hshape
        refine ⟨w.setVal id (.mantisKey (mantisSwapModes (opsMantis bd.tag) ks)), {}, ?_, Or.inr ⟨id, _, hcx, rfl, rfl⟩, fun h0 => by simp at h0⟩
        simp [callStep, mantisParSwap, hcx, bind, Except.bind, pure, Except.pure, deref_ok w id a ha hlive, hval]
  | parCrypt enc input =>
    cases f with
    | mantis => exact ⟨w, {}, rfl, Or.inl rfl, fun _ => rfl⟩
    | s128 =>
      cases hcx : h.ctx with
      | garbage => exact absurd hcx hc
      | null => exact ⟨w, _, by simp [callStep, skinnyParCrypt, hcx, bind, Except.bind, pure, Except.pure]; rfl, Or.inl rfl, fun _ => rfl⟩
      | ptr id =>
        obtain ⟨a, ha, hlive, hshape, _⟩ := hp id hcx
        obtain ⟨ks, hval⟩ := shape_skey hshape
        by_cases hl : input.length % Family.s128.bs ≠ 0
        · exact ⟨w, _, by simp [callStep, skinnyParCrypt, hcx, bind, Except.bind, pure, Except.pure, hl]; rfl, Or.inl rfl, fun _ => rfl⟩
        · exact ⟨w, _, by simp [callStep, skinnyParCrypt, hcx, bind, Except.bind, pure, Except.pure, hl, deref_ok w id a ha hlive, hval]; rfl, Or.inl rfl, fun _ => rfl⟩
    | s64 =>
      cases hcx : h.ctx with
      | garbage => exact absurd hcx hc
      | null => exact ⟨w, _, by simp [callStep, skinnyParCrypt, hcx, bind, Except.bind, pure, Except.pure]; rfl, Or.inl rfl, fun _ => rfl⟩
      | ptr id =>
        obtain ⟨a, ha, hlive, hshape, _⟩ := hp id hcx
        obtain ⟨ks, hval⟩ := shape_skey hshape
        by_cases hl : input.length % Family.s64.bs ≠ 0
        · exact ⟨w, _, by simp [callStep, skinnyParCrypt, hcx, bind, Except.bind, pure, Except.pure, hl]; rfl, Or.inl rfl, fun _ => rfl⟩
        · exact ⟨w, _, by simp [callStep, skinnyParCrypt, hcx, bind, Except.bind, pure, Except.pure, hl, deref_ok w id a ha hlive, hval]; rfl, Or.inl rfl, fun _ => rfl⟩
  | mantisParCrypt tweaks input =>
    cases f with
    | s128 => exact ⟨w, {}, rfl, Or.inl rfl, fun _ => rfl⟩
    | s64 => exact ⟨w, {}, rfl, Or.inl rfl, fun _ => rfl⟩
    | mantis =>
      cases hcx : h.ctx with
      | garbage => exact absurd hcx hc
      | null => exact ⟨w, _, by simp [callStep, mantisParCrypt, hcx, bind, Except.bind, pure, Except.pure]; rfl, Or.inl rfl, fun _ => rfl⟩
      | ptr id =>
        obtain ⟨a, ha, hlive, hshape, _⟩ := hp id hcx
        obtain ⟨ks, hval⟩ := shape_mkey hshape
        by_cases hl : input.length % 8 ≠ 0
        · exact ⟨w, _, by simp [callStep, mantisParCrypt, hcx, bind, Except.bind, pure, Except.pure, hl]; rfl, Or.inl rfl, fun _ => rfl⟩
        · exact ⟨w, _, by simp [callStep, mantisParCrypt, hcx, bind, Except.bind, pure, Except.pure, hl, deref_ok w id a ha hlive, hval]; rfl, Or.inl rfl, fun _ => rfl⟩


theorem call_pure (bd : Build) (w : World) (k : Kind) (h : Handle) (c : Call) (hwf : WFH w k h)
    (hi : c.isInit = false) (hcl : c.isCleanup = false) : PureResult bd w k h c := by
  cases k with
  | ctr f => exact call_pure_ctr bd w f h c hwf hi hcl
  | par f => exact call_pure_par bd w f h c hwf hi hcl

/-! ## calls through a NULL object pointer -/

theorem call_null (bd : Build) (hb : bd.parInitNullCheck = true) (w : World) (k : Kind) (c : Call) :
    ∃ out, callStep bd w k none c = .ok (w, none, out) ∧ (out.ret = none ∨ out.ret = some 0) := by
  cases k with
  | ctr f =>
    cases c <;> first
      | exact ⟨_, rfl, Or.inr rfl⟩
      | exact ⟨_, rfl, Or.inl rfl⟩
      | (cases f <;> first | exact ⟨_, rfl, Or.inr rfl⟩ | exact ⟨_, rfl, Or.inl rfl⟩)
  | par f =>
    cases c <;> first
      | exact ⟨_, rfl, Or.inr rfl⟩
      | exact ⟨_, rfl, Or.inl rfl⟩
      | exact ⟨_, by simp [callStep, parInit, hb, bind, Except.bind, pure, Except.pure]; rfl, Or.inr rfl⟩
      | (cases f <;> first | exact ⟨_, rfl, Or.inr rfl⟩ | exact ⟨_, rfl, Or.inl rfl⟩)


/-! ## init and cleanup -/

theorem ctrZero_shape (f : Family) (be : Backend) (stg : Bool) : (ctrZero f be stg).shape = (Kind.ctr f).shape := by
  cases f <;> rfl
theorem parZero_shape (f : Family) : (parZero f).shape = (Kind.par f).shape := by
  cases f <;> rfl

/-- what `init` does, whatever the object's memory held before: either the allocation fails, then
the heap is unchanged, 0 is returned and the object is left zeroed; or a fresh live context of
the right type is appended to the heap and the object owns it -/
def InitResult (bd : Build) (w : World) (k : Kind) (old : Handle) (p : Probes) : Prop :=
  (w.failAt = some w.allocCount ∧ ∃ w', callStep bd w k (some old) (.init p) = .ok (w', some zeroHandle, { ret := some 0 }) ∧
      w'.heap = w.heap ∧ w'.allocCount = w.allocCount + 1) ∨
  (w.failAt ≠ some w.allocCount ∧ ∃ w' a vt ps, callStep bd w k (some old) (.init p) =
      .ok (w', some { vtable := vt, ctx := .ptr w.heap.length, psize := ps }, { ret := some 1 }) ∧
      w'.heap = w.heap ++ [a] ∧ a.live = true ∧ a.val.shape = k.shape ∧ vt ≠ .garbage ∧ (∀ f, k = .ctr f → ∃ be, vt = .be be))

theorem init_spec (bd : Build) (hb : bd.initClearsOnFail = true) (w : World) (k : Kind) (old : Handle) (p : Probes) :
    InitResult bd w k old p := by
  by_cases hf : w.failAt = some w.allocCount
  · left
    refine ⟨hf, ?_⟩
    cases k with
    | ctr f => simp [callStep, ctrInit, World.alloc, hf, hb, bind, Except.bind, pure, Except.pure, zeroHandle]
    | par f => simp [callStep, parInit, World.alloc, hf, hb, bind, Except.bind, pure, Except.pure, zeroHandle]
  · right
    refine ⟨hf, ?_⟩
    cases k with
    | ctr f =>
      refine ⟨(w.alloc (bd.sizes.ctr f (selectBackend f p) + (if selectBackend f p = .generic then 0 else 31))
          (ctrZero f (selectBackend f p) (bd.initStaggers && selectBackend f p != .generic))).1,
        { live := true, size := bd.sizes.ctr f (selectBackend f p) + (if selectBackend f p = .generic then 0 else 31),
          val := ctrZero f (selectBackend f p) (bd.initStaggers && selectBackend f p != .generic) },
        .be (selectBackend f p), 0, ?_, ?_, rfl, ctrZero_shape _ _ _, by simp, fun _ _ => ⟨_, rfl⟩⟩
      · simp [callStep, ctrInit, World.alloc, hf, bind, Except.bind, pure, Except.pure]
      · simp [World.alloc, hf]
    | par f =>
      refine ⟨(w.alloc (bd.sizes.par f) (parZero f)).1, { live := true, size := bd.sizes.par f, val := parZero f },
        (if selectBackend f p = .generic then VtVal.null else .be (selectBackend f p)),
        (if f = .s128 ∧ selectBackend f p = .vec256 then 8 else if f = .s128 then 4 else 8) * f.bs, ?_, ?_, rfl, parZero_shape _, ?_, fun _ h => by cases h⟩
      · simp [callStep, parInit, World.alloc, hf, bind, Except.bind, pure, Except.pure]
      · simp [World.alloc, hf]
      · by_cases hg : selectBackend f p = .generic <;> simp [hg]

/-- what `cleanup` does on a usable object -/
def CleanupResult (bd : Build) (w : World) (k : Kind) (h : Handle) : Prop :=
  (∃ id a st cl, h.ctx = .ptr id ∧ w.heap[id]? = some a ∧ st ≤ cl ∧
      ∃ h', callStep bd w k (some h) .cleanup = .ok (w.wipeAndFree id st cl, some h', {}) ∧ h'.ctx = .null ∧ h'.vtable ≠ .garbage ∧
        (∀ f, k = .ctr f → h'.vtable = .null)) ∨
  ((∀ id, h.ctx ≠ .ptr id) ∧ ∃ h', callStep bd w k (some h) .cleanup = .ok (w, some h', {}) ∧ h'.ctx = .null ∧ h'.vtable ≠ .garbage)

theorem cleanup_spec (bd : Build) (hs : bd.sizes.WipeOK) (w : World) (k : Kind) (h : Handle) (hwf : WFH w k h) :
    CleanupResult bd w k h := by
  obtain ⟨hv, hc, hp⟩ := hwf
  cases hcx : h.ctx with
  | garbage => exact absurd hcx hc
  | null =>
    right
    refine ⟨fun id => by simp [hcx], ?_⟩
    cases k with
    | ctr f =>
      cases hvt : h.vtable with
      | garbage => exact absurd hvt hv
      | null => exact ⟨h, by simp [callStep, ctrCleanup, dispatch, hvt, bind, Except.bind, pure, Except.pure], hcx, hv⟩
      | be b => exact ⟨{ h with vtable := .null }, by simp [callStep, ctrCleanup, dispatch, hvt, hcx, bind, Except.bind, pure, Except.pure], hcx, by simp⟩
    | par f => exact ⟨h, by simp [callStep, parCleanup, hcx, bind, Except.bind, pure, Except.pure], hcx, hv⟩
  | ptr id =>
    left
    obtain ⟨a, ha, hlive, hshape, hvt⟩ := hp id hcx
    cases k with
    | ctr f =>
      obtain ⟨be, hbe⟩ := hvt f rfl
      refine ⟨id, a, bd.sizes.ctr f be, bd.sizes.ctrCleanse f be, hcx, ha, hs.1 f be, { h with vtable := .null, ctx := .null }, ?_, rfl, by simp, fun _ _ => rfl⟩
      simp [callStep, ctrCleanup, dispatch, hbe, hcx, bind, Except.bind, pure, Except.pure, deref_ok w id a ha hlive]
    | par f =>
      refine ⟨id, a, bd.sizes.par f, bd.sizes.parCleanse f, hcx, ha, hs.2 f, { h with ctx := .null }, ?_, rfl, hv, fun _ h => by cases h⟩
      simp [callStep, parCleanup, hcx, bind, Except.bind, pure, Except.pure, deref_ok w id a ha hlive]


/-! ## the invariant -/

structure Inv (s : Sys) : Prop where
  /-- an initialised or zeroed object is usable -/
  wf : ∀ (j : Nat) (o : Obj), s.objs[j]? = some o → o.ready = true → WFH s.w o.kind o.h
  /-- an object that was never initialised owns nothing -/
  fresh : ∀ (j : Nat) (o : Obj), s.objs[j]? = some o → o.ready = false → ∀ id, o.h.ctx ≠ .ptr id
  /-- no context has two owners -/
  inj : ∀ (i j : Nat) (oi oj : Obj) (id : Nat), s.objs[i]? = some oi → s.objs[j]? = some oj → oi.h.ctx = .ptr id → oj.h.ctx = .ptr id → i = j
  /-- every live context has an owner (nothing is leaked) -/
  noleak : ∀ (id : Nat) (a : Alloc), s.w.heap[id]? = some a → a.live = true → ∃ (j : Nat) (o : Obj), s.objs[j]? = some o ∧ o.h.ctx = .ptr id
  /-- every block handed back to the allocator was all-zero at that moment -/
  wiped : ∀ (id : Nat) (a : Alloc), s.w.heap[id]? = some a → a.live = false → a.zeroAtFree = true

theorem inv_init : Inv {} :=
  { wf := by intro j o h; simp at h, fresh := by intro j o h; simp at h, inj := by intro i j oi oj id h; simp at h,
    noleak := by intro id a h; simp [World.heap] at h, wiped := by intro id a h; simp [World.heap] at h }

/-- the skeleton of an allocation the invariant depends on -/
def skel (a : Alloc) : Bool × Shape × Bool := (a.live, a.val.shape, a.zeroAtFree)

theorem setVal_get (w : World) (id : Nat) (v : CtxVal) (i : Nat) :
    (w.setVal id v).heap[i]? = (w.heap[i]?).map (fun a => if id = i then { a with val := v } else a) := by
  simp [World.setVal, List.getElem?_modify]

theorem pure_heap (w w' : World) (k : Kind) (h : Handle) (hwf : WFH w k h) (he : PureEffect w k h w') (i : Nat) :
    (w'.heap[i]?).map skel = (w.heap[i]?).map skel := by
  rcases he with rfl | ⟨id, v, hcx, rfl, hv⟩
  · rfl
  · rw [setVal_get]
    cases hg : w.heap[i]? with
    | none => rfl
    | some a =>
      by_cases hi : id = i
      · subst hi
        obtain ⟨a', ha', _, hsh, _⟩ := hwf.2.2 id hcx
        rw [hg] at ha'; cases ha'
        simp [skel, hv, hsh]
      · simp [hi]

theorem skel_some {l l' : List Alloc} {i : Nat} {a : Alloc} (h : (l'[i]?).map skel = (l[i]?).map skel) (ha : l[i]? = some a) :
    ∃ a', l'[i]? = some a' ∧ a'.live = a.live ∧ a'.val.shape = a.val.shape ∧ a'.zeroAtFree = a.zeroAtFree := by
  rw [ha] at h
  cases h' : l'[i]? with
  | none => simp [h'] at h
  | some a' =>
    simp only [h', Option.map_some, Option.some.injEq, skel, Prod.mk.injEq] at h
    exact ⟨a', rfl, h.1, h.2.1, h.2.2⟩

/-- a world whose heap has the same skeleton supports the same invariant -/
theorem inv_of_skel (s : Sys) (w' : World) (hinv : Inv s) (hsk : ∀ i : Nat, (w'.heap[i]?).map skel = (s.w.heap[i]?).map skel) :
    Inv { w := w', objs := s.objs } := by
  have hsk' : ∀ i : Nat, (s.w.heap[i]?).map skel = (w'.heap[i]?).map skel := fun i => (hsk i).symm
  refine { wf := ?_, fresh := hinv.fresh, inj := hinv.inj, noleak := ?_, wiped := ?_ }
  · intro j o ho hr
    obtain ⟨h1, h2, h3⟩ := hinv.wf j o ho hr
    refine ⟨h1, h2, fun id hid => ?_⟩
    obtain ⟨a, ha, hl, hs, hv⟩ := h3 id hid
    obtain ⟨a', ha', e1, e2, _⟩ := skel_some (hsk id) ha
    exact ⟨a', ha', by rw [e1, hl], by rw [e2, hs], hv⟩
  · intro id a ha hl
    obtain ⟨a0, ha0, e1, _, _⟩ := skel_some (hsk' id) ha
    exact hinv.noleak id a0 ha0 (by rw [e1, hl])
  · intro id a ha hl
    obtain ⟨a0, ha0, e1, _, e3⟩ := skel_some (hsk' id) ha
    rw [← e3]; exact hinv.wiped id a0 ha0 (by rw [e1, hl])

theorem modify_self {α : Type} (l : List α) (j : Nat) (f : α → α) (hf : ∀ o, l[j]? = some o → f o = o) : l.modify j f = l := by
  apply List.ext_getElem?
  intro i
  rw [List.getElem?_modify]
  cases hi : l[i]? with
  | none => rfl
  | some a =>
    by_cases hji : j = i
    · subst hji; simp [hf a hi]
    · simp [hji]


theorem modify_get {α : Type} (l : List α) (j i : Nat) (f : α → α) :
    (l.modify j f)[i]? = if j = i then (l[i]?).map f else l[i]? := by
  rw [List.getElem?_modify]
  by_cases h : j = i <;> simp [h]

/-- the assumptions on the build under which the object-layer properties hold: the `init`
functions check their argument and leave an inert object on failure (repairs D6, D7), and every
cleanup wipes at least the bytes that were requested (from the source facts) -/
structure Good (bd : Build) : Prop where
  parNull : bd.parInitNullCheck = true
  clears : bd.initClearsOnFail = true
  wipe : bd.sizes.WipeOK

theorem goodBuild_good (t : Tag) : Good (goodBuild t) := ⟨rfl, rfl, factsSizes_wipeOK⟩

/-- ids owned by objects are valid heap indices -/
theorem Inv.owned_lt {s : Sys} (hinv : Inv s) {j : Nat} {o : Obj} {id : Nat} (ho : s.objs[j]? = some o) (hid : o.h.ctx = .ptr id) :
    ∃ a, s.w.heap[id]? = some a ∧ a.live = true ∧ id < s.w.heap.length := by
  cases hr : o.ready with
  | false => exact absurd hid (hinv.fresh j o ho hr id)
  | true =>
    obtain ⟨a, ha, hl, _, _⟩ := (hinv.wf j o ho hr).2.2 id hid
    refine ⟨a, ha, hl, ?_⟩
    have := List.getElem?_eq_some_iff.mp ha
    exact this.1

theorem step_declare (s : Sys) (hinv : Inv s) (k : Kind) (h : Handle) (hal : ∀ id, h.ctx ≠ .ptr id) :
    Inv { s with objs := s.objs ++ [{ kind := k, h := h, ready := decide (h = zeroHandle) }] } := by
  have hget : ∀ (j : Nat) (o : Obj), (s.objs ++ [{ kind := k, h := h, ready := decide (h = zeroHandle) }])[j]? = some o →
      s.objs[j]? = some o ∨ (j = s.objs.length ∧ o = { kind := k, h := h, ready := decide (h = zeroHandle) }) := by
    intro j o ho
    by_cases hj : j < s.objs.length
    · left; rwa [List.getElem?_append_left hj] at ho
    · right
      rw [List.getElem?_append_right (by omega)] at ho
      have : j - s.objs.length = 0 := by
        cases hk : j - s.objs.length with
        | zero => rfl
        | succ n => rw [hk] at ho; simp at ho
      rw [this] at ho
      simp at ho
      exact ⟨by omega, ho.symm⟩
  refine { wf := ?_, fresh := ?_, inj := ?_, noleak := ?_, wiped := hinv.wiped }
  · intro j o ho hr
    rcases hget j o ho with h1 | ⟨_, rfl⟩
    · exact hinv.wf j o h1 hr
    · have hz : h = zeroHandle := by simpa using hr
      subst hz
      exact ⟨by simp [zeroHandle], by simp [zeroHandle], fun id hid => by simp [zeroHandle] at hid⟩
  · intro j o ho hr
    rcases hget j o ho with h1 | ⟨_, rfl⟩
    · exact hinv.fresh j o h1 hr
    · exact hal
  · intro i j oi oj id hi hj hci hcj
    rcases hget i oi hi with h1 | ⟨_, rfl⟩
    · rcases hget j oj hj with h2 | ⟨_, rfl⟩
      · exact hinv.inj i j oi oj id h1 h2 hci hcj
      · exact absurd hcj (hal id)
    · exact absurd hci (hal id)
  · intro id a ha hl
    obtain ⟨j, o, ho, hc⟩ := hinv.noleak id a ha hl
    refine ⟨j, o, ?_, hc⟩
    have hj : j < s.objs.length := (List.getElem?_eq_some_iff.mp ho).1
    rw [List.getElem?_append_left hj]; exact ho


/-- objects after a call on object `j` that leaves handle `hd` behind -/
def updObjs (objs : List Obj) (j : Nat) (hd : Handle) (init : Bool) : List Obj :=
  objs.modify j (fun o => { o with h := hd, ready := o.ready || init })

theorem updObjs_get (objs : List Obj) (j : Nat) (hd : Handle) (init : Bool) (o : Obj) (ho : objs[j]? = some o) (i : Nat) (oi : Obj)
    (hi : (updObjs objs j hd init)[i]? = some oi) :
    (i = j ∧ oi = { o with h := hd, ready := o.ready || init }) ∨ (i ≠ j ∧ objs[i]? = some oi) := by
  rw [updObjs, modify_get] at hi
  by_cases h : j = i
  · subst h; left; simp [ho] at hi; exact ⟨rfl, hi.symm⟩
  · right; simp [h] at hi; exact ⟨fun e => h e.symm, hi⟩

theorem updObjs_other (objs : List Obj) (j : Nat) (hd : Handle) (init : Bool) (i : Nat) (h : i ≠ j) :
    (updObjs objs j hd init)[i]? = objs[i]? := by
  rw [updObjs, modify_get]
  have : ¬ j = i := fun e => h e.symm
  simp [this]

theorem updObjs_self (objs : List Obj) (j : Nat) (hd : Handle) (init : Bool) (o : Obj) (ho : objs[j]? = some o) :
    (updObjs objs j hd init)[j]? = some { o with h := hd, ready := o.ready || init } := by
  rw [updObjs, modify_get]; simp [ho]

/-- failed `init`: heap unchanged, object zeroed -/
theorem step_init_fail (s : Sys) (hinv : Inv s) (w' : World) (hw : w'.heap = s.w.heap) (j : Nat) (o : Obj) (ho : s.objs[j]? = some o)
    (hown : ∀ id, o.h.ctx ≠ .ptr id) : Inv { w := w', objs := updObjs s.objs j zeroHandle true } := by
  refine { wf := ?_, fresh := ?_, inj := ?_, noleak := ?_, wiped := by intro id a ha; rw [hw] at ha; exact hinv.wiped id a ha }
  · intro i oi hi hr
    rcases updObjs_get _ _ _ _ o ho i oi hi with ⟨_, rfl⟩ | ⟨_, h2⟩
    · exact ⟨by simp [zeroHandle], by simp [zeroHandle], fun id hid => by simp [zeroHandle] at hid⟩
    · obtain ⟨h1, h2', h3⟩ := hinv.wf i oi h2 hr
      exact ⟨h1, h2', fun id hid => by simpa [hw] using h3 id hid⟩
  · intro i oi hi hr
    rcases updObjs_get _ _ _ _ o ho i oi hi with ⟨_, rfl⟩ | ⟨_, h2⟩
    · simp at hr
    · exact hinv.fresh i oi h2 hr
  · intro i1 i2 o1 o2 id h1 h2 c1 c2
    rcases updObjs_get _ _ _ _ o ho i1 o1 h1 with ⟨_, rfl⟩ | ⟨_, g1⟩
    · simp [zeroHandle] at c1
    · rcases updObjs_get _ _ _ _ o ho i2 o2 h2 with ⟨_, rfl⟩ | ⟨_, g2⟩
      · simp [zeroHandle] at c2
      · exact hinv.inj i1 i2 o1 o2 id g1 g2 c1 c2
  · intro id a ha hl
    rw [hw] at ha
    obtain ⟨j0, o0, h0, c0⟩ := hinv.noleak id a ha hl
    have hne : j0 ≠ j := by
      intro e; subst e; rw [ho] at h0; cases h0; exact hown id c0
    exact ⟨j0, o0, by rw [updObjs_other _ _ _ _ _ hne]; exact h0, c0⟩

/-- successful `init`: one fresh live context appended, owned by the object -/
theorem step_init_ok (s : Sys) (hinv : Inv s) (w' : World) (a : Alloc) (hw : w'.heap = s.w.heap ++ [a]) (hl : a.live = true)
    (j : Nat) (o : Obj) (ho : s.objs[j]? = some o) (hown : ∀ id, o.h.ctx ≠ .ptr id)
    (hsh : a.val.shape = o.kind.shape) (vt : VtVal) (ps : Nat) (hvt : vt ≠ .garbage) (hbe : ∀ f, o.kind = .ctr f → ∃ be, vt = .be be) :
    Inv { w := w', objs := updObjs s.objs j { vtable := vt, ctx := .ptr s.w.heap.length, psize := ps } true } := by
  have hold : ∀ (id : Nat) (x : Alloc), s.w.heap[id]? = some x → w'.heap[id]? = some x := by
    intro id x hx
    have : id < s.w.heap.length := (List.getElem?_eq_some_iff.mp hx).1
    rw [hw, List.getElem?_append_left this]; exact hx
  have hnew : w'.heap[s.w.heap.length]? = some a := by
    rw [hw, List.getElem?_append_right (Nat.le_refl _)]; simp
  have hcases : ∀ (id : Nat) (x : Alloc), w'.heap[id]? = some x → s.w.heap[id]? = some x ∨ (id = s.w.heap.length ∧ x = a) := by
    intro id x hx
    by_cases hid : id < s.w.heap.length
    · left; rwa [hw, List.getElem?_append_left hid] at hx
    · right
      rw [hw, List.getElem?_append_right (by omega)] at hx
      cases hk : id - s.w.heap.length with
      | zero => rw [hk] at hx; simp at hx; exact ⟨by omega, hx.symm⟩
      | succ n => rw [hk] at hx; simp at hx
  refine { wf := ?_, fresh := ?_, inj := ?_, noleak := ?_, wiped := ?_ }
  · intro i oi hi hr
    rcases updObjs_get _ _ _ _ o ho i oi hi with ⟨_, rfl⟩ | ⟨_, h2⟩
    · refine ⟨hvt, by simp, fun id hid => ?_⟩
      have : id = s.w.heap.length := by simpa using hid.symm
      subst this
      exact ⟨a, hnew, hl, hsh, hbe⟩
    · obtain ⟨h1, h2', h3⟩ := hinv.wf i oi h2 hr
      refine ⟨h1, h2', fun id hid => ?_⟩
      obtain ⟨x, hx, r⟩ := h3 id hid
      exact ⟨x, hold id x hx, r⟩
  · intro i oi hi hr
    rcases updObjs_get _ _ _ _ o ho i oi hi with ⟨_, rfl⟩ | ⟨_, h2⟩
    · simp at hr
    · exact hinv.fresh i oi h2 hr
  · intro i1 i2 o1 o2 id h1 h2 c1 c2
    rcases updObjs_get _ _ _ _ o ho i1 o1 h1 with ⟨e1, rfl⟩ | ⟨n1, g1⟩
    · rcases updObjs_get _ _ _ _ o ho i2 o2 h2 with ⟨e2, rfl⟩ | ⟨n2, g2⟩
      · rw [e1, e2]
      · have hid : id = s.w.heap.length := by simpa using c1.symm
        obtain ⟨_, _, _, hlt⟩ := hinv.owned_lt g2 c2
        omega
    · rcases updObjs_get _ _ _ _ o ho i2 o2 h2 with ⟨e2, rfl⟩ | ⟨n2, g2⟩
      · have hid : id = s.w.heap.length := by simpa using c2.symm
        obtain ⟨_, _, _, hlt⟩ := hinv.owned_lt g1 c1
        omega
      · exact hinv.inj i1 i2 o1 o2 id g1 g2 c1 c2
  · intro id x hx hlx
    rcases hcases id x hx with h0 | ⟨rfl, rfl⟩
    · obtain ⟨j0, o0, h0', c0⟩ := hinv.noleak id x h0 hlx
      have hne : j0 ≠ j := by
        intro e; subst e; rw [ho] at h0'; cases h0'; exact hown id c0
      exact ⟨j0, o0, by rw [updObjs_other _ _ _ _ _ hne]; exact h0', c0⟩
    · exact ⟨j, _, updObjs_self _ _ _ _ o ho, rfl⟩
  · intro id x hx hlx
    rcases hcases id x hx with h0 | ⟨rfl, rfl⟩
    · exact hinv.wiped id x h0 hlx
    · rw [hl] at hlx; cases hlx


theorem wipe_get (w : World) (id st cl : Nat) (i : Nat) :
    (w.wipeAndFree id st cl).heap[i]? =
      (w.heap[i]?).map (fun a => if id = i then { a with live := false, val := .wiped, zeroAtFree := decide (cl ≥ st) } else a) := by
  simp [World.wipeAndFree, List.getElem?_modify]

/-- `cleanup` that frees: the context is wiped and released, the object keeps nothing -/
theorem step_cleanup_free (s : Sys) (hinv : Inv s) (id st cl : Nat) (hsz : st ≤ cl) (j : Nat) (o : Obj) (ho : s.objs[j]? = some o)
    (hid : o.h.ctx = .ptr id) (h' : Handle) (hc : h'.ctx = .null) (hv : h'.vtable ≠ .garbage) :
    Inv { w := s.w.wipeAndFree id st cl, objs := updObjs s.objs j h' false } := by
  have hother : ∀ (i : Nat), i ≠ id → (s.w.wipeAndFree id st cl).heap[i]? = s.w.heap[i]? := by
    intro i hne
    rw [wipe_get]
    have : ¬ id = i := fun e => hne e.symm
    cases s.w.heap[i]? <;> simp [this]
  refine { wf := ?_, fresh := ?_, inj := ?_, noleak := ?_, wiped := ?_ }
  · intro i oi hi hr
    rcases updObjs_get _ _ _ _ o ho i oi hi with ⟨_, rfl⟩ | ⟨hne, h2⟩
    · exact ⟨hv, by simp [hc], fun id' hid' => by simp [hc] at hid'⟩
    · obtain ⟨h1, h2', h3⟩ := hinv.wf i oi h2 hr
      refine ⟨h1, h2', fun id' hid' => ?_⟩
      have hne' : id' ≠ id := by
        intro e; subst e; exact hne (hinv.inj i j oi o id' h2 ho hid' hid)
      rw [hother id' hne']
      exact h3 id' hid'
  · intro i oi hi hr
    rcases updObjs_get _ _ _ _ o ho i oi hi with ⟨_, rfl⟩ | ⟨_, h2⟩
    · intro id'; simp [hc]
    · exact hinv.fresh i oi h2 hr
  · intro i1 i2 o1 o2 id' h1 h2 c1 c2
    rcases updObjs_get _ _ _ _ o ho i1 o1 h1 with ⟨_, rfl⟩ | ⟨_, g1⟩
    · simp [hc] at c1
    · rcases updObjs_get _ _ _ _ o ho i2 o2 h2 with ⟨_, rfl⟩ | ⟨_, g2⟩
      · simp [hc] at c2
      · exact hinv.inj i1 i2 o1 o2 id' g1 g2 c1 c2
  · intro id' x hx hlx
    by_cases he : id' = id
    · subst he
      rw [wipe_get] at hx
      cases hg : s.w.heap[id']? with
      | none => simp [hg] at hx
      | some a0 => simp [hg] at hx; subst hx; simp at hlx
    · rw [hother id' he] at hx
      obtain ⟨j0, o0, h0, c0⟩ := hinv.noleak id' x hx hlx
      have hne : j0 ≠ j := by
        intro e; subst e; rw [ho] at h0; cases h0; rw [hid] at c0; cases c0; exact he rfl
      exact ⟨j0, o0, by rw [updObjs_other _ _ _ _ _ hne]; exact h0, c0⟩
  · intro id' x hx hlx
    by_cases he : id' = id
    · subst he
      rw [wipe_get] at hx
      cases hg : s.w.heap[id']? with
      | none => simp [hg] at hx
      | some a0 => simp [hg] at hx; subst hx; simpa using hsz
    · rw [hother id' he] at hx
      exact hinv.wiped id' x hx hlx

/-- `cleanup` on an object that owns nothing -/
theorem step_cleanup_none (s : Sys) (hinv : Inv s) (j : Nat) (o : Obj) (ho : s.objs[j]? = some o)
    (hown : ∀ id, o.h.ctx ≠ .ptr id) (h' : Handle) (hc : h'.ctx = .null) (hv : h'.vtable ≠ .garbage) :
    Inv { w := s.w, objs := updObjs s.objs j h' false } := by
  refine { wf := ?_, fresh := ?_, inj := ?_, noleak := ?_, wiped := hinv.wiped }
  · intro i oi hi hr
    rcases updObjs_get _ _ _ _ o ho i oi hi with ⟨_, rfl⟩ | ⟨_, h2⟩
    · exact ⟨hv, by simp [hc], fun id' hid' => by simp [hc] at hid'⟩
    · exact hinv.wf i oi h2 hr
  · intro i oi hi hr
    rcases updObjs_get _ _ _ _ o ho i oi hi with ⟨_, rfl⟩ | ⟨_, h2⟩
    · intro id'; simp [hc]
    · exact hinv.fresh i oi h2 hr
  · intro i1 i2 o1 o2 id' h1 h2 c1 c2
    rcases updObjs_get _ _ _ _ o ho i1 o1 h1 with ⟨_, rfl⟩ | ⟨_, g1⟩
    · simp [hc] at c1
    · rcases updObjs_get _ _ _ _ o ho i2 o2 h2 with ⟨_, rfl⟩ | ⟨_, g2⟩
      · simp [hc] at c2
      · exact hinv.inj i1 i2 o1 o2 id' g1 g2 c1 c2
  · intro id' x hx hlx
    obtain ⟨j0, o0, h0, c0⟩ := hinv.noleak id' x hx hlx
    have hne : j0 ≠ j := by
      intro e; subst e; rw [ho] at h0; cases h0; exact hown id' c0
    exact ⟨j0, o0, by rw [updObjs_other _ _ _ _ _ hne]; exact h0, c0⟩


theorem step_call_eq (bd : Build) (s : Sys) (k : Kind) (j : Nat) (c : Call) (o : Obj) (ho : s.objs[j]? = some o)
    (w' : World) (hd : Handle) (out : Out) (hcall : callStep bd s.w k (some o.h) c = .ok (w', some hd, out)) :
    stepSys bd s (.call k (some j) c) = .ok ({ w := w', objs := updObjs s.objs j hd c.isInit }, out) := by
  simp [stepSys, ho, hcall, bind, Except.bind, pure, Except.pure, updObjs]

theorem step_null_eq (bd : Build) (s : Sys) (k : Kind) (c : Call) (out : Out)
    (hcall : callStep bd s.w k none c = .ok (s.w, none, out)) :
    stepSys bd s (.call k none c) = .ok (s, out) := by
  simp [stepSys, hcall, bind, Except.bind, pure, Except.pure]

/-- **Safety of the object layer**: from any state satisfying the invariant, every allowed
operation completes without a fault (no wild, null or freed pointer is dereferenced, nothing is
freed twice) and re-establishes the invariant. -/
theorem step_ok (bd : Build) (hg : Good bd) (s : Sys) (hinv : Inv s) (op : Op) (hal : Allowed s op) :
    ∃ s' out, stepSys bd s op = .ok (s', out) ∧ Inv s' := by
  cases op with
  | declare k h => exact ⟨_, _, rfl, step_declare s hinv k h hal⟩
  | failAt n =>
    refine ⟨_, _, rfl, ?_⟩
    exact inv_of_skel s _ hinv (fun i => rfl)
  | call k i c =>
    cases i with
    | none =>
      obtain ⟨out, hcall, _⟩ := call_null bd hg.parNull s.w k c
      exact ⟨s, out, step_null_eq bd s k c out hcall, hinv⟩
    | some j =>
      obtain ⟨o, ho, hk, hc⟩ := hal
      subst hk
      cases hci : c.isInit with
      | true =>
        -- init
        rw [hci] at hc
        simp only [if_true] at hc
        cases c <;> simp [Call.isInit] at hci
        rename_i p
        rcases init_spec bd hg.clears s.w o.kind o.h p with ⟨_, w', hcall, hheap, _⟩ | ⟨_, w', a, vt, ps, hcall, hheap, hl, hsh, hvt, hbe⟩
        · exact ⟨_, _, step_call_eq bd s o.kind j _ o ho w' _ _ hcall, step_init_fail s hinv w' hheap j o ho hc⟩
        · exact ⟨_, _, step_call_eq bd s o.kind j _ o ho w' _ _ hcall, step_init_ok s hinv w' a hheap hl j o ho hc hsh vt ps hvt hbe⟩
      | false =>
        rw [hci] at hc
        simp only [Bool.false_eq_true, if_false] at hc
        have hwf := hinv.wf j o ho hc
        cases hcc : c.isCleanup with
        | true =>
          cases c <;> simp [Call.isCleanup] at hcc
          rcases cleanup_spec bd hg.wipe s.w o.kind o.h hwf with ⟨id, a, st, cl, hid, _, hsz, h', hcall, hc', hv', _⟩ | ⟨hown, h', hcall, hc', hv'⟩
          · exact ⟨_, _, step_call_eq bd s o.kind j _ o ho _ _ _ hcall, step_cleanup_free s hinv id st cl hsz j o ho hid h' hc' hv'⟩
          · exact ⟨_, _, step_call_eq bd s o.kind j _ o ho _ _ _ hcall, step_cleanup_none s hinv j o ho hown h' hc' hv'⟩
        | false =>
          obtain ⟨w', out, hcall, heff, _⟩ := call_pure bd s.w o.kind o.h c hwf hci hcc
          refine ⟨_, out, step_call_eq bd s o.kind j c o ho w' o.h out hcall, ?_⟩
          have hobjs : updObjs s.objs j o.h c.isInit = s.objs := by
            rw [updObjs, hci]
            apply modify_self
            intro o' ho'
            rw [ho] at ho'; cases ho'
            cases o; simp
          rw [hobjs]
          exact inv_of_skel s w' hinv (pure_heap s.w w' o.kind o.h hwf heff)

/-- the same for whole histories: every allowed history runs to completion without a fault and
ends in a state satisfying the invariant -/
inductive AllowedRun (bd : Build) : Sys → List Op → Prop
  | nil (s : Sys) : AllowedRun bd s []
  | cons (s : Sys) (op : Op) (ops : List Op) (h : Allowed s op)
      (hrest : ∀ s' out, stepSys bd s op = .ok (s', out) → AllowedRun bd s' ops) : AllowedRun bd s (op :: ops)

theorem run_ok (bd : Build) (hg : Good bd) (ops : List Op) (s : Sys) (hinv : Inv s) (hal : AllowedRun bd s ops) :
    ∃ s' outs, runSys bd s ops = .ok (s', outs) ∧ Inv s' := by
  induction ops generalizing s with
  | nil => exact ⟨s, [], rfl, hinv⟩
  | cons op ops ih =>
    cases hal with
    | cons _ _ _ h hrest =>
      obtain ⟨s1, out, hstep, hinv1⟩ := step_ok bd hg s hinv op h
      obtain ⟨s2, outs, hrun, hinv2⟩ := ih s1 hinv1 (hrest s1 out hstep)
      exact ⟨s2, out :: outs, by simp [runSys, hstep, hrun, bind, Except.bind, pure, Except.pure], hinv2⟩

end SkinnyVerif.Properties
