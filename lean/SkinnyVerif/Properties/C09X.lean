/-
C05 / C09, the keystream xor helpers of `src/skinny-internal.h` (`skinny128_xor`, `skinny64_xor` in their three
builds - 64-bit words, 32-bit words, byte-wise - and `skinny_xor` for every partial-block size 1..15), regenerated on
every run: each computes the byte-wise xor of its two inputs, touches exactly `n` bytes of each buffer, and never reads
a byte of the data input after having written the output byte at the same offset - so the CTR functions may be called
with `output == input`.
-/
import SkinnyVerif.Gen.XorLeaf
import SkinnyVerif.Gen.IoTableXor
import SkinnyVerif.Basic.Segments
import SkinnyVerif.Properties.C08

namespace SkinnyVerif.Properties
open SkinnyVerif SkinnyVerif.Gen

syntax "xor_tac " num : tactic
macro_rules
  | `(tactic| xor_tac $n) => `(tactic|
    (simp only [gen_unfold] <;>
     (apply eq_of_lanes 8 $n (by decide) (by decide)
      intro i hi
      nat_cases i $n <;> (simp only [lane, Nat.reduceMul]; seg_windows))))

set_option maxRecDepth 8000 in
theorem C09_xor_blocks (a b : BitVec 128) (c d : BitVec 64) :
    skinny128_xor_w64 a b = a ^^^ b ∧ skinny128_xor_w32 a b = a ^^^ b ∧ skinny128_xor_bytes a b = a ^^^ b ∧
    skinny64_xor_w64 c d = c ^^^ d ∧ skinny64_xor_w32 c d = c ^^^ d ∧ skinny64_xor_bytes c d = c ^^^ d := by
  refine ⟨?_, ?_, ?_, ?_, ?_, ?_⟩
  · xor_tac 16
  · xor_tac 16
  · xor_tac 16
  · xor_tac 8
  · xor_tac 8
  · xor_tac 8

set_option maxRecDepth 8000 in
theorem C09_xor_partial :
    (∀ a b, skinny_xor_1 a b = a ^^^ b) ∧ (∀ a b, skinny_xor_2 a b = a ^^^ b) ∧ (∀ a b, skinny_xor_3 a b = a ^^^ b) ∧
    (∀ a b, skinny_xor_4 a b = a ^^^ b) ∧ (∀ a b, skinny_xor_5 a b = a ^^^ b) ∧ (∀ a b, skinny_xor_6 a b = a ^^^ b) ∧
    (∀ a b, skinny_xor_7 a b = a ^^^ b) ∧ (∀ a b, skinny_xor_8 a b = a ^^^ b) ∧ (∀ a b, skinny_xor_9 a b = a ^^^ b) ∧
    (∀ a b, skinny_xor_10 a b = a ^^^ b) ∧ (∀ a b, skinny_xor_11 a b = a ^^^ b) ∧ (∀ a b, skinny_xor_12 a b = a ^^^ b) ∧
    (∀ a b, skinny_xor_13 a b = a ^^^ b) ∧ (∀ a b, skinny_xor_14 a b = a ^^^ b) ∧ (∀ a b, skinny_xor_15 a b = a ^^^ b) := by
  refine ⟨?_, ?_, ?_, ?_, ?_, ?_, ?_, ?_, ?_, ?_, ?_, ?_, ?_, ?_, ?_⟩ <;> intro a b
  · xor_tac 1
  · xor_tac 2
  · xor_tac 3
  · xor_tac 4
  · xor_tac 5
  · xor_tac 6
  · xor_tac 7
  · xor_tac 8
  · xor_tac 9
  · xor_tac 10
  · xor_tac 11
  · xor_tac 12
  · xor_tac 13
  · xor_tac 14
  · xor_tac 15

/-- with `output == input1`: no byte of the data is read after the output byte at the same offset has been written -/
def inPlaceSafe : List (Bool × Nat × Nat × Nat) → Bool
  | [] => true
  | e :: rest =>
    (if e.1 && e.2.1 == 1 then rest.all (fun r => r.1 || r.2.1 != 0 || r.2.2.1 + r.2.2.2 ≤ e.2.2.1 || e.2.2.1 + e.2.2.2 ≤ r.2.2.1) else true) && inPlaceSafe rest

/-- accesses stay inside `n` bytes, inputs are never written, the output is never read, in-place use is safe, and all
`n` bytes of the output are written and of both inputs read -/
theorem C09_xor_access :
    ioTableXor.all (fun f => f.2.all (inBlock f.1) && f.2.all directionOK && inPlaceSafe f.2 &&
      coversBlock f.1 f.2 0 && coversBlock f.1 f.2 1 && coversBlock f.1 f.2 2) = true ∧ ioTableXor.length = 21 := by
  constructor <;> decide +kernel

end SkinnyVerif.Properties
