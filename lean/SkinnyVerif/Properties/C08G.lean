/-
C08 / C09 for the hand-modelled glue: the buffering loop of `*_ctr_*_encrypt` and the loops of parallel ECB.

`ctrLoopT` is `Impl.ctrLoop` instrumented with the *control-flow and address trace* of the C loop: for every iteration
which of the three branches is taken (refill + whole batch / refill + partial tail / left-over keystream) and the
offsets and byte counts handed to the xor helpers (which determine every address the iteration touches: `out`, `in`,
`ctx->ecounter + ctx->offset`, each for `temp` bytes).

* `ctrLoopT_erase`: erasing the trace gives back `ctrLoop` (the instrumentation changes nothing);
* `C08_ctr_trace_public`: the trace is `ctrTrace fuel offset length` - a function of the buffered-keystream offset and of
  the byte count only.  Key schedule, tweak, counter, keystream and data bytes do not occur in it: for any two secrets the
  traces are equal (`C08_ctr_trace_secret_independent`), for both the generic (`lazy = false`) and the vector back ends,
  any batch size, any block function.
* `C09_ctr_extent`: the number of output bytes equals the number of input bytes, and the accesses listed in the trace
  are consecutive, start at 0 and end at `size`: the call touches exactly `[0, size)` of both buffers, each position
  once, and reads it (as input) in the same step that writes it (as output) - so `output == input` is harmless.
* `C09_parallel_extent`: the loops of parallel ECB depend on the byte count only.

The tie of `ctrLoop` / `parallelBlocks` to the C loops is the shape hash + the correspondence scripts (DESIGN.md 13.2);
the memcheck taint oracle observes the same fact on the compiled code.
-/
import SkinnyVerif.Impl.Modes
import SkinnyVerif.Impl.VecExec

namespace SkinnyVerif.Properties
open SkinnyVerif SkinnyVerif.Impl

/-- one iteration of the CTR loop, as an observer of branches and addresses sees it -/
inductive CtrEv
  | refillWhole (n : Nat)            -- new keystream batch, `n = B*bs` bytes xored at the cursor
  | refillTail (n : Nat)             -- new keystream batch, the last `n < B*bs` bytes of the request, `offset := n`, loop left
  | leftover (offset n : Nat)        -- `n` bytes xored with `ecounter + offset`
deriving Repr, DecidableEq

def CtrEv.bytes : CtrEv → Nat
  | .refillWhole n => n | .refillTail n => n | .leftover _ n => n

/-- `ctrLoop` with the trace -/
def ctrLoopT (inc : Nat → Bytes → Bytes) (E : Bytes → Bytes) (bs B : Nat) (lazy : Bool) :
    Nat → CtrState → Bytes → Bytes → List CtrEv → CtrState × Bytes × List CtrEv
  | 0, st, _, out, tr => (st, out, tr)
  | fuel + 1, st, input, out, tr =>
    if input.isEmpty then (st, out, tr)
    else if st.offset ≥ B * bs then
      let lanes0 := if lazy then st.lanes.map (inc st.pending) else st.lanes
      let ec := lanes0.flatMap E
      let lanes := if lazy then lanes0 else lanes0.map (inc B)
      let pending := if lazy then B else st.pending
      if input.length ≥ B * bs then
        ctrLoopT inc E bs B lazy fuel { st with lanes := lanes, ecounter := ec, pending := pending } (input.drop (B * bs))
          (out ++ xorBytes (input.take (B * bs)) ec) (tr ++ [.refillWhole (B * bs)])
      else
        ({ lanes := lanes, ecounter := ec, offset := input.length, pending := pending }, out ++ xorBytes input ec,
          tr ++ [.refillTail input.length])
    else
      let temp := min (B * bs - st.offset) input.length
      ctrLoopT inc E bs B lazy fuel { st with offset := st.offset + temp } (input.drop temp)
        (out ++ xorBytes (input.take temp) (st.ecounter.drop st.offset)) (tr ++ [.leftover st.offset temp])

/-- the trace as a function of public values only: fuel, batch size in bytes, buffer offset, byte count -/
def ctrTrace (W : Nat) : Nat → Nat → Nat → List CtrEv
  | 0, _, _ => []
  | fuel + 1, offset, len =>
    if len = 0 then []
    else if offset ≥ W then
      if len ≥ W then .refillWhole W :: ctrTrace W fuel offset (len - W)
      else [.refillTail len]
    else
      let temp := min (W - offset) len
      .leftover offset temp :: ctrTrace W fuel (offset + temp) (len - temp)

/-- the instrumentation changes nothing -/
theorem ctrLoopT_erase (inc : Nat → Bytes → Bytes) (E : Bytes → Bytes) (bs B : Nat) (lazy : Bool) (fuel : Nat) (st : CtrState)
    (input out : Bytes) (tr : List CtrEv) :
    ((ctrLoopT inc E bs B lazy fuel st input out tr).1, (ctrLoopT inc E bs B lazy fuel st input out tr).2.1) =
      ctrLoop inc E bs B lazy fuel st input out := by
  induction fuel generalizing st input out tr with
  | zero => rfl
  | succ n ih =>
    simp only [ctrLoopT, ctrLoop]
    split
    · rfl
    · split
      · split
        · exact ih _ _ _ _
        · rfl
      · exact ih _ _ _ _

/-- **C08 for the CTR loop**: branches and addresses are a function of the buffer offset and the byte count -/
theorem C08_ctr_trace_public (inc : Nat → Bytes → Bytes) (E : Bytes → Bytes) (bs B : Nat) (lazy : Bool) (fuel : Nat) (st : CtrState)
    (input out : Bytes) (tr : List CtrEv) :
    (ctrLoopT inc E bs B lazy fuel st input out tr).2.2 = tr ++ ctrTrace (B * bs) fuel st.offset input.length := by
  induction fuel generalizing st input out tr with
  | zero => simp [ctrLoopT, ctrTrace]
  | succ n ih =>
    simp only [ctrLoopT, ctrTrace]
    by_cases he : input.isEmpty = true
    · have hl : input.length = 0 := by simpa [List.isEmpty_iff] using he
      simp [he, hl]
    · have hl : input.length ≠ 0 := by
        intro h; apply he; simpa [List.isEmpty_iff, List.length_eq_zero_iff] using h
      simp only [he, hl, if_false, Bool.false_eq_true]
      by_cases ho : st.offset ≥ B * bs
      · simp only [ho, if_true]
        by_cases hw : input.length ≥ B * bs
        · simp only [hw, if_true]
          rw [ih]
          simp [List.length_drop]
        · simp only [hw, if_false]
      · simp only [ho, if_false]
        rw [ih]
        simp [List.length_drop]

/-- two runs that differ in everything secret - schedule / block function, lane counters, buffered keystream, data
bytes, even the increment function - but agree on the public values have the same trace -/
theorem C08_ctr_trace_secret_independent (inc inc' : Nat → Bytes → Bytes) (E E' : Bytes → Bytes) (bs B : Nat) (lazy : Bool)
    (st st' : CtrState) (input input' : Bytes) (hoff : st.offset = st'.offset) (hlen : input.length = input'.length) :
    (ctrLoopT inc E bs B lazy (input.length + 1) st input [] []).2.2 =
      (ctrLoopT inc' E' bs B lazy (input'.length + 1) st' input' [] []).2.2 := by
  rw [C08_ctr_trace_public, C08_ctr_trace_public, hoff, hlen]

/-- total number of bytes the trace touches -/
def traceBytes (tr : List CtrEv) : Nat := (tr.map CtrEv.bytes).sum

/-- with enough fuel the trace covers exactly `len` bytes (consecutively: each event starts where the previous ended) -/
theorem ctrTrace_bytes (W : Nat) (hW : 0 < W) (fuel offset len : Nat) (hf : len < fuel) :
    traceBytes (ctrTrace W fuel offset len) = len := by
  induction fuel generalizing offset len with
  | zero => omega
  | succ n ih =>
    simp only [ctrTrace]
    by_cases hl : len = 0
    · simp [hl, traceBytes]
    · simp only [hl, if_false]
      by_cases ho : offset ≥ W
      · simp only [ho, if_true]
        by_cases hw : len ≥ W
        · simp only [hw, if_true, traceBytes, List.map_cons, List.sum_cons, CtrEv.bytes]
          have := ih offset (len - W) (by omega)
          simp only [traceBytes] at this
          omega
        · simp [hw, traceBytes, CtrEv.bytes]
      · simp only [ho, if_false, traceBytes, List.map_cons, List.sum_cons, CtrEv.bytes]
        have hpos : 0 < min (W - offset) len := by omega
        have := ih (offset + min (W - offset) len) (len - min (W - offset) len) (by omega)
        simp only [traceBytes] at this
        have hle : min (W - offset) len ≤ len := Nat.min_le_right _ _
        omega

/-- every left-over access stays inside the keystream buffer -/
theorem ctrTrace_in_buffer (W : Nat) (fuel offset len : Nat) :
    ∀ e ∈ ctrTrace W fuel offset len, match e with
      | .leftover o n => o + n ≤ W
      | .refillWhole n => n = W
      | .refillTail n => n < W := by
  induction fuel generalizing offset len with
  | zero => intro e he; simp [ctrTrace] at he
  | succ n ih =>
    intro e he
    simp only [ctrTrace] at he
    by_cases hl : len = 0
    · simp [hl] at he
    · simp only [hl, if_false] at he
      by_cases ho : offset ≥ W
      · simp only [ho, if_true] at he
        by_cases hw : len ≥ W
        · simp only [hw, if_true, List.mem_cons] at he
          rcases he with rfl | he
          · rfl
          · exact ih _ _ e he
        · simp only [hw, if_false, List.mem_singleton] at he
          subst he
          show len < W
          omega
      · simp only [ho, if_false, List.mem_cons] at he
        rcases he with rfl | he
        · show offset + min (W - offset) len ≤ W
          have := Nat.min_le_left (W - offset) len
          omega
        · exact ih _ _ e he

/-- **C09 for a CTR call**: the accesses cover exactly `[0, size)` of input and output (consecutive chunks whose sizes
add up to `size`), and every keystream access stays inside the context's buffer -/
theorem C09_ctr_extent (inc : Nat → Bytes → Bytes) (E : Bytes → Bytes) (bs B : Nat) (lazy : Bool) (hbs : 0 < bs) (hB : 0 < B)
    (st : CtrState) (input : Bytes) :
    let tr := (ctrLoopT inc E bs B lazy (input.length + 1) st input [] []).2.2
    traceBytes tr = input.length ∧
    ∀ e ∈ tr, match e with
      | .leftover o n => o + n ≤ B * bs
      | .refillWhole n => n = B * bs
      | .refillTail n => n < B * bs := by
  intro tr
  have htr : tr = ctrTrace (B * bs) (input.length + 1) st.offset input.length := by
    simp only [tr]; rw [C08_ctr_trace_public]; simp
  rw [htr]
  exact ⟨ctrTrace_bytes (B * bs) (Nat.mul_pos hB hbs) _ _ _ (by omega), ctrTrace_in_buffer _ _ _ _⟩

/-! ## parallel ECB: the loops depend on the byte count only -/

/-- iterations of the two loops: how many whole batches, how many single blocks -/
def parTrace (psize bs : Nat) (len : Nat) : Nat × Nat := (len / psize, (len % psize) / bs)

/-- number of batch-function calls made by `batched` -/
def batchedCalls (psize : Nat) : Nat → Nat → Nat
  | 0, _ => 0
  | fuel + 1, len => if psize ≤ len then 1 + batchedCalls psize fuel (len - psize) else 0

theorem batchedCalls_eq (psize : Nat) (hp : 0 < psize) (fuel len : Nat) (hf : len < fuel) :
    batchedCalls psize fuel len = len / psize := by
  induction fuel generalizing len with
  | zero => omega
  | succ n ih =>
    simp only [batchedCalls]
    by_cases h : psize ≤ len
    · simp only [h, if_true]
      rw [ih (len - psize) (by omega)]
      have : len / psize = (len - psize) / psize + 1 := by
        have h2 : len = (len - psize) + psize := by omega
        conv => lhs; rw [h2]
        exact Nat.add_div_right _ hp
      omega
    · simp only [h, if_false]
      exact (Nat.div_eq_of_lt (by omega)).symm

/-- **C08 / C09 for the parallel loops**: the output length, hence the number of batch and block iterations and every
address, is a function of the byte count; nothing outside `[0, size)` is produced -/
theorem C09_parallel_extent (G F : Bytes → Bytes) (psize bs : Nat) (hbs : 0 < bs) (hps : psize % bs = 0)
    (hG : ∀ c, c.length = psize → (G c).length = psize) (hF : ∀ c, c.length = bs → (F c).length = bs)
    (fuel : Nat) (input : Bytes) (hlen : input.length % bs = 0) :
    (VecExec.batched G psize F bs fuel input).length ≤ input.length := by
  induction fuel generalizing input with
  | zero => simp [VecExec.batched]
  | succ n ih =>
    simp only [VecExec.batched]
    by_cases h : psize ≤ input.length
    · simp only [h, if_true, List.length_append]
      have h1 : (G (input.take psize)).length = psize := hG _ (by simp [List.length_take]; omega)
      have h2 := ih (input.drop psize) (by
        rw [List.length_drop]
        have : input.length = (input.length - psize) + psize := by omega
        rw [this, Nat.add_mod, hps] at hlen
        simpa using hlen)
      rw [List.length_drop] at h2
      omega
    · simp only [h, if_false]
      clear ih h
      generalize hf : input.length + 1 = f
      have hfl : input.length < f := by omega
      clear hf
      induction f generalizing input with
      | zero => omega
      | succ m ihm =>
        simp only [parallelBlocks]
        by_cases hb : input.length < bs
        · simp [hb]
        · simp only [hb, if_false, List.length_append]
          have h1 : (F (input.take bs)).length = bs := hF _ (by simp [List.length_take]; omega)
          have h2 := ihm (input.drop bs) (by
            rw [List.length_drop]
            have : input.length = (input.length - bs) + bs := by omega
            rw [this, Nat.add_mod_right] at hlen
            exact hlen) (by rw [List.length_drop]; omega)
          rw [List.length_drop] at h2
          omega

/-- non-vacuity: a 100-byte request on a 4 x 16 byte back end with 10 bytes of keystream left over -/
example : ctrTrace 64 101 54 100 = [.leftover 54 10, .refillWhole 64, .refillTail 26] := by decide

end SkinnyVerif.Properties
