/-
C18, interleavings: a call on one object does not look at, and does not touch, the context of another object
(frame property of every public call that is neither `init` nor `cleanup`); therefore two calls on distinct objects
commute - same final state, each call the same result - and so does every interleaving of two threads that work on
disjoint sets of objects: it is indistinguishable from running one thread after the other.

This is a theorem about the object model (`Api/World.lean`, `Api/Machine.lean`), at the granularity of whole calls
under sequentially consistent memory; data races inside the compiled code are the ThreadSanitizer oracle's job.
-/
import SkinnyVerif.Properties.C18
import SkinnyVerif.Properties.C14

namespace SkinnyVerif.Properties
open SkinnyVerif SkinnyVerif.Impl SkinnyVerif.Api

theorem deref_setVal_ne (w : World) (j : Nat) (u : CtxVal) (id : Nat) (hne : id ≠ j) :
    (w.setVal j u).deref (.ptr id) = w.deref (.ptr id) := by
  simp only [World.deref, World.setVal, List.getElem?_modify]
  have : ¬ (j = id) := fun h => hne h.symm
  simp [this]

/-- what a frame does to a result: the other object's context is set in the resulting world as well -/
def framed (j : Nat) (u : CtxVal) {α : Type} (r : M (World × α)) : M (World × α) := r.map (fun x => (x.1.setVal j u, x.2))

theorem setVal_swap (w : World) (i j : Nat) (u v : CtxVal) (hij : i ≠ j) : (w.setVal j u).setVal i v = (w.setVal i v).setVal j u :=
  (setVal_comm w i j v u hij).symm

/-- the pointer of a handle is not `j` -/
def Avoids (h : Option Handle) (j : Nat) : Prop := ∀ hd, h = some hd → ∀ id, hd.ctx = .ptr id → id ≠ j

theorem ctrUpdate_frame (w : World) (h : Option Handle) (argNull needArg : Bool) (upd : Backend → CtxVal → M (Nat × CtxVal))
    (j : Nat) (u : CtxVal) (hav : Avoids h j) :
    ctrUpdate (w.setVal j u) h argNull needArg upd = framed j u (ctrUpdate w h argNull needArg upd) := by
  simp only [ctrUpdate, framed]
  cases hd : dispatch h with
  | error e => simp [bind, Except.bind, Except.map]
  | ok r =>
    cases r with
    | none => simp [bind, Except.bind, Except.map, pure, Except.pure]
    | some hb =>
      obtain ⟨hdl, be⟩ := hb
      have hh : h = some hdl := by
        cases h with
        | none => simp [dispatch] at hd
        | some x =>
          simp only [dispatch] at hd
          split at hd <;> simp_all
      simp only [bind, Except.bind, pure, Except.pure]
      by_cases hna : (needArg && argNull) = true
      · simp [hna, Except.map]
      · simp only [hna, if_false]
        cases hc : hdl.ctx with
        | null => simp [Except.map]
        | garbage => simp [World.deref, Except.map]
        | ptr id =>
          have hne : id ≠ j := hav hdl hh id hc
          simp only [deref_setVal_ne w j u id hne]
          cases hdr : w.deref (.ptr id) with
          | error e => simp [Except.map]
          | ok ia =>
            obtain ⟨id', a⟩ := ia
            have hid : id' = id := by
              simp only [World.deref] at hdr
              split at hdr <;> try simp at hdr
              split at hdr <;> simp at hdr
              exact hdr.1.symm
            subst hid
            simp only
            cases hu : upd be a.val with
            | error e => simp [Except.map]
            | ok rv =>
              obtain ⟨r, v⟩ := rv
              by_cases hr : r = 0
              · simp [hr, Except.map]
              · simp [hr, Except.map, setVal_swap w id' j u v hne]

theorem deref_frame (w : World) (j : Nat) (u : CtxVal) (p : PtrVal) (hav : ∀ id, p = .ptr id → id ≠ j) :
    (w.setVal j u).deref p = w.deref p := by
  cases p with
  | null => rfl
  | garbage => rfl
  | ptr id => exact deref_setVal_ne w j u id (hav id rfl)

theorem deref_id (w : World) (p : PtrVal) (id : Nat) (a : Alloc) (h : w.deref p = .ok (id, a)) : p = .ptr id := by
  cases p with
  | null => simp [World.deref] at h
  | garbage => simp [World.deref] at h
  | ptr i =>
    simp only [World.deref] at h
    split at h <;> try simp at h
    split at h <;> simp at h
    rw [h.1]

theorem dispatch_some (h : Option Handle) (hd : Handle) (be : Backend) (hx : dispatch h = .ok (some (hd, be))) : h = some hd := by
  cases h with
  | none => simp [dispatch] at hx
  | some x =>
    simp only [dispatch] at hx
    split at hx <;> simp_all

theorem ctrSetCounter_frame (f : Family) (w : World) (h : Option Handle) (counter : Option Bytes) (size : Nat)
    (j : Nat) (u : CtxVal) (hav : Avoids h j) :
    ctrSetCounter f (w.setVal j u) h counter size = framed j u (ctrSetCounter f w h counter size) := by
  simp only [ctrSetCounter, framed]
  cases hd : dispatch h with
  | error e => simp [bind, Except.bind, Except.map]
  | ok r =>
    cases r with
    | none => simp [bind, Except.bind, Except.map, pure, Except.pure]
    | some hb =>
      obtain ⟨hdl, be⟩ := hb
      have hh := dispatch_some h hdl be hd
      simp only [bind, Except.bind, pure, Except.pure]
      by_cases hs : size > f.bs
      · simp [hs, Except.map]
      · simp only [hs, if_false]
        cases hc : hdl.ctx with
        | null => simp [Except.map]
        | garbage => simp [World.deref, Except.map]
        | ptr id =>
          have hne : id ≠ j := hav hdl hh id hc
          simp only [deref_setVal_ne w j u id hne]
          cases hdr : w.deref (.ptr id) with
          | error e => simp [Except.map]
          | ok ia =>
            obtain ⟨id', a⟩ := ia
            have hid : PtrVal.ptr id = .ptr id' := deref_id w _ id' a hdr
            cases hid
            simp only
            cases a.val <;> simp [Except.map, setVal_swap w id j u _ hne]

theorem ctrEncryptCall_frame (bd : Build) (f : Family) (w : World) (h : Option Handle) (input : Option Bytes)
    (j : Nat) (u : CtxVal) (hav : Avoids h j) :
    ctrEncryptCall bd f (w.setVal j u) h input = framed j u (ctrEncryptCall bd f w h input) := by
  simp only [ctrEncryptCall, framed]
  cases hd : dispatch h with
  | error e => simp [bind, Except.bind, Except.map]
  | ok r =>
    cases r with
    | none => simp [bind, Except.bind, Except.map, pure, Except.pure]
    | some hb =>
      obtain ⟨hdl, be⟩ := hb
      have hh := dispatch_some h hdl be hd
      simp only [bind, Except.bind, pure, Except.pure]
      cases input with
      | none => simp [Except.map]
      | some data =>
        simp only
        cases hc : hdl.ctx with
        | null => simp [Except.map]
        | garbage => simp [World.deref, Except.map]
        | ptr id =>
          have hne : id ≠ j := hav hdl hh id hc
          simp only [deref_setVal_ne w j u id hne]
          cases hdr : w.deref (.ptr id) with
          | error e => simp [Except.map]
          | ok ia =>
            obtain ⟨id', a⟩ := ia
            have hid : PtrVal.ptr id = .ptr id' := deref_id w _ id' a hdr
            cases hid
            simp only
            cases a.val <;> simp [Except.map, setVal_swap w id j u _ hne]

theorem skinnyParSetKey_frame (bd : Build) (f : Family) (w : World) (h : Option Handle) (key : Option Bytes) (size : Nat) (junk : UInt8)
    (j : Nat) (u : CtxVal) (hav : Avoids h j) :
    skinnyParSetKey bd f (w.setVal j u) h key size junk = framed j u (skinnyParSetKey bd f w h key size junk) := by
  simp only [skinnyParSetKey, framed]
  cases h with
  | none => simp [Except.map]
  | some hdl =>
    simp only
    cases hc : hdl.ctx with
    | null => simp [Except.map]
    | garbage => simp [World.deref, Except.map, bind, Except.bind]
    | ptr id =>
      have hne : id ≠ j := hav hdl rfl id hc
      simp only [deref_setVal_ne w j u id hne, bind, Except.bind, pure, Except.pure]
      cases hdr : w.deref (.ptr id) with
      | error e => simp [Except.map]
      | ok ia =>
        obtain ⟨id', a⟩ := ia
        have hid : PtrVal.ptr id = .ptr id' := deref_id w _ id' a hdr
        cases hid
        simp only
        cases f <;> cases a.val <;> simp [Except.map] <;>
          (split <;> simp [Except.map] <;> split <;> simp [setVal_swap w id j u _ hne])

theorem mantisParSetKey_frame (bd : Build) (w : World) (h : Option Handle) (key : Option Bytes) (size rounds : Nat) (mode : Int)
    (j : Nat) (u : CtxVal) (hav : Avoids h j) :
    mantisParSetKey bd (w.setVal j u) h key size rounds mode = framed j u (mantisParSetKey bd w h key size rounds mode) := by
  simp only [mantisParSetKey, framed]
  cases h with
  | none => simp [Except.map]
  | some hdl =>
    simp only
    cases hc : hdl.ctx with
    | null => simp [Except.map]
    | garbage => simp [World.deref, Except.map, bind, Except.bind]
    | ptr id =>
      have hne : id ≠ j := hav hdl rfl id hc
      simp only [deref_setVal_ne w j u id hne, bind, Except.bind, pure, Except.pure]
      cases hdr : w.deref (.ptr id) with
      | error e => simp [Except.map]
      | ok ia =>
        obtain ⟨id', a⟩ := ia
        have hid : PtrVal.ptr id = .ptr id' := deref_id w _ id' a hdr
        cases hid
        simp only
        cases a.val <;> simp [Except.map] <;> split <;> simp [setVal_swap w id j u _ hne]

theorem mantisParSwap_frame (bd : Build) (w : World) (h : Option Handle) (j : Nat) (u : CtxVal) (hav : Avoids h j) :
    mantisParSwap bd (w.setVal j u) h = (mantisParSwap bd w h).map (fun x => x.setVal j u) := by
  simp only [mantisParSwap]
  cases h with
  | none => simp [Except.map]
  | some hdl =>
    simp only
    cases hc : hdl.ctx with
    | null => simp [Except.map]
    | garbage => simp [World.deref, Except.map, bind, Except.bind]
    | ptr id =>
      have hne : id ≠ j := hav hdl rfl id hc
      simp only [deref_setVal_ne w j u id hne, bind, Except.bind, pure, Except.pure]
      cases hdr : w.deref (.ptr id) with
      | error e => simp [Except.map]
      | ok ia =>
        obtain ⟨id', a⟩ := ia
        have hid : PtrVal.ptr id = .ptr id' := deref_id w _ id' a hdr
        cases hid
        simp only
        cases a.val <;> simp [Except.map, setVal_swap w id j u _ hne]

theorem skinnyParCrypt_frame (bd : Build) (f : Family) (enc : Bool) (w : World) (h : Option Handle) (input : Bytes)
    (j : Nat) (u : CtxVal) (hav : Avoids h j) :
    skinnyParCrypt bd f enc (w.setVal j u) h input = skinnyParCrypt bd f enc w h input := by
  simp only [skinnyParCrypt]
  cases h with
  | none => rfl
  | some hdl =>
    simp only
    cases hc : hdl.ctx with
    | null => rfl
    | garbage => rfl
    | ptr id => simp only [deref_setVal_ne w j u id (hav hdl rfl id hc)]

theorem mantisParCrypt_frame (bd : Build) (w : World) (h : Option Handle) (tweaks input : Bytes)
    (j : Nat) (u : CtxVal) (hav : Avoids h j) :
    mantisParCrypt bd (w.setVal j u) h tweaks input = mantisParCrypt bd w h tweaks input := by
  simp only [mantisParCrypt]
  cases h with
  | none => rfl
  | some hdl =>
    simp only
    cases hc : hdl.ctx with
    | null => rfl
    | garbage => rfl
    | ptr id => simp only [deref_setVal_ne w j u id (hav hdl rfl id hc)]

/-- **frame property of every call other than `init` / `cleanup`**: with another object's context set to any value
before the call, the call does exactly the same and leaves that context as set -/
theorem callStep_frame (bd : Build) (w : World) (k : Kind) (h : Handle) (c : Call) (hi : c.isInit = false) (hcl : c.isCleanup = false)
    (j : Nat) (u : CtxVal) (hav : Avoids (some h) j) :
    callStep bd (w.setVal j u) k (some h) c = (callStep bd w k (some h) c).map (fun r => (r.1.setVal j u, r.2.1, r.2.2)) := by
  cases k with
  | ctr f =>
    cases c with
    | init p => simp [Call.isInit] at hi
    | cleanup => simp [Call.isCleanup] at hcl
    | setKey key size junk =>
      simp only [callStep]; split
      · rfl
      · rw [skinnyCtrSetKey, skinnyCtrSetKey, ctrUpdate_frame _ _ _ _ _ j u hav]
        cases ctrUpdate w (some h) key.isNone true _ <;> simp [framed, Except.map, bind, Except.bind, pure, Except.pure]
    | setTweakedKey key size junk =>
      simp only [callStep]; split
      · rfl
      · rw [skinnyCtrSetTweakedKey, skinnyCtrSetTweakedKey, ctrUpdate_frame _ _ _ _ _ j u hav]
        cases ctrUpdate w (some h) key.isNone true _ <;> simp [framed, Except.map, bind, Except.bind, pure, Except.pure]
    | setTweak tweak size =>
      simp only [callStep]; split
      · rw [mantisCtrSetTweak, mantisCtrSetTweak, ctrUpdate_frame _ _ _ _ _ j u hav]
        cases ctrUpdate w (some h) tweak.isNone false _ <;> simp [framed, Except.map, bind, Except.bind, pure, Except.pure]
      · rw [skinnyCtrSetTweak, skinnyCtrSetTweak, ctrUpdate_frame _ _ _ _ _ j u hav]
        cases ctrUpdate w (some h) tweak.isNone false _ <;> simp [framed, Except.map, bind, Except.bind, pure, Except.pure]
    | mantisSetKey key size rounds mode =>
      simp only [callStep]; split
      · rw [mantisCtrSetKey, mantisCtrSetKey, ctrUpdate_frame _ _ _ _ _ j u hav]
        cases ctrUpdate w (some h) key.isNone true _ <;> simp [framed, Except.map, bind, Except.bind, pure, Except.pure]
      · rfl
    | setCounter counter size =>
      simp only [callStep]
      rw [ctrSetCounter_frame _ _ _ _ _ j u hav]
      cases ctrSetCounter f w (some h) counter size <;> simp [framed, Except.map, bind, Except.bind, pure, Except.pure]
    | encrypt input =>
      simp only [callStep]
      rw [ctrEncryptCall_frame _ _ _ _ _ j u hav]
      cases ctrEncryptCall bd f w (some h) input <;> simp [framed, Except.map, bind, Except.bind, pure, Except.pure]
    | parCrypt enc input => rfl
    | mantisParCrypt tweaks input => rfl
    | swap => rfl
  | par f =>
    cases c with
    | init p => simp [Call.isInit] at hi
    | cleanup => simp [Call.isCleanup] at hcl
    | setKey key size junk =>
      simp only [callStep]; split
      · rfl
      · rw [skinnyParSetKey_frame _ _ _ _ _ _ _ j u hav]
        cases skinnyParSetKey bd f w (some h) key size junk <;> simp [framed, Except.map, bind, Except.bind, pure, Except.pure]
    | setTweakedKey key size junk => rfl
    | setTweak tweak size => rfl
    | mantisSetKey key size rounds mode =>
      simp only [callStep]; split
      · rw [mantisParSetKey_frame _ _ _ _ _ _ _ j u hav]
        cases mantisParSetKey bd w (some h) key size rounds mode <;> simp [framed, Except.map, bind, Except.bind, pure, Except.pure]
      · rfl
    | setCounter counter size => rfl
    | encrypt input => rfl
    | parCrypt enc input =>
      simp only [callStep]; split
      · rfl
      · rw [skinnyParCrypt_frame _ _ _ _ _ _ j u hav]
        cases skinnyParCrypt bd f enc w (some h) input <;> simp [Except.map, bind, Except.bind, pure, Except.pure]
    | mantisParCrypt tweaks input =>
      simp only [callStep]; split
      · rw [mantisParCrypt_frame _ _ _ _ _ j u hav]
        cases mantisParCrypt bd w (some h) tweaks input <;> simp [Except.map, bind, Except.bind, pure, Except.pure]
      · rfl
    | swap =>
      simp only [callStep]; split
      · rw [mantisParSwap_frame _ _ _ j u hav]
        cases mantisParSwap bd w (some h) <;> simp [Except.map, bind, Except.bind, pure, Except.pure]
      · rfl

/-- a call (other than `init` / `cleanup`) on a usable object, as a function of the world only -/
theorem call_result (bd : Build) (w : World) (k : Kind) (h : Handle) (c : Call) (hwf : WFH w k h)
    (hi : c.isInit = false) (hcl : c.isCleanup = false) :
    ∃ w' out, callStep bd w k (some h) c = .ok (w', some h, out) ∧ (w' = w ∨ ∃ id v, h.ctx = .ptr id ∧ w' = w.setVal id v) := by
  obtain ⟨w', out, hc, he, _⟩ := call_pure bd w k h c hwf hi hcl
  refine ⟨w', out, hc, ?_⟩
  rcases he with h1 | ⟨id, v, h1, h2, _⟩
  · exact Or.inl h1
  · exact Or.inr ⟨id, v, h1, h2⟩

/-- **two calls on distinct objects commute**: whichever runs first, each returns what it returns alone (`out1`, `out2`)
and the world ends up the same (`wf`) -/
theorem C18_calls_commute (bd : Build) (w : World) (k1 k2 : Kind) (h1 h2 : Handle) (c1 c2 : Call)
    (hwf1 : WFH w k1 h1) (hwf2 : WFH w k2 h2)
    (hi1 : c1.isInit = false) (hcl1 : c1.isCleanup = false) (hi2 : c2.isInit = false) (hcl2 : c2.isCleanup = false)
    (hdis : ∀ id1 id2, h1.ctx = .ptr id1 → h2.ctx = .ptr id2 → id1 ≠ id2) :
    ∃ w1 w2 wf out1 out2,
      callStep bd w k1 (some h1) c1 = .ok (w1, some h1, out1) ∧ callStep bd w k2 (some h2) c2 = .ok (w2, some h2, out2) ∧
      callStep bd w1 k2 (some h2) c2 = .ok (wf, some h2, out2) ∧ callStep bd w2 k1 (some h1) c1 = .ok (wf, some h1, out1) := by
  obtain ⟨w1, out1, e1, p1⟩ := call_result bd w k1 h1 c1 hwf1 hi1 hcl1
  obtain ⟨w2, out2, e2, p2⟩ := call_result bd w k2 h2 c2 hwf2 hi2 hcl2
  have av21 : ∀ id1, h1.ctx = .ptr id1 → Avoids (some h2) id1 := by
    intro id1 hh hd hs id hc
    cases hs
    exact fun e => hdis id1 id hh hc e.symm
  have av12 : ∀ id2, h2.ctx = .ptr id2 → Avoids (some h1) id2 := by
    intro id2 hh hd hs id hc
    cases hs
    exact hdis id id2 hc hh
  rcases p1 with q1 | ⟨id1, v1, hc1, q1⟩ <;> rcases p2 with q2 | ⟨id2, v2, hc2, q2⟩ <;> rw [q1] at e1 <;> rw [q2] at e2
  · exact ⟨w, w, w, out1, out2, e1, e2, e2, e1⟩
  · refine ⟨w, _, w.setVal id2 v2, out1, out2, e1, e2, e2, ?_⟩
    rw [callStep_frame bd w k1 h1 c1 hi1 hcl1 id2 v2 (av12 id2 hc2), e1]; rfl
  · refine ⟨_, w, w.setVal id1 v1, out1, out2, e1, e2, ?_, e1⟩
    rw [callStep_frame bd w k2 h2 c2 hi2 hcl2 id1 v1 (av21 id1 hc1), e2]; rfl
  · have hne : id1 ≠ id2 := hdis id1 id2 hc1 hc2
    refine ⟨_, _, (w.setVal id1 v1).setVal id2 v2, out1, out2, e1, e2, ?_, ?_⟩
    · rw [callStep_frame bd w k2 h2 c2 hi2 hcl2 id1 v1 (av21 id1 hc1), e2]
      simp [Except.map, setVal_comm w id1 id2 v1 v2 hne]
    · rw [callStep_frame bd w k1 h1 c1 hi1 hcl1 id2 v2 (av12 id2 hc2), e1]; rfl

/-! ## every interleaving of two threads working on disjoint objects -/

/-- the caller's objects: kind and handle bytes (fixed: calls other than `init` / `cleanup` never change a handle) -/
abbrev Handles := List (Kind × Handle)

/-- every handle is usable in `w`, and no two own the same context -/
structure GoodW (hs : Handles) (w : World) : Prop where
  wf : ∀ (i : Nat) (k : Kind) (h : Handle), hs[i]? = some (k, h) → WFH w k h
  dis : ∀ (i j : Nat) (ki : Kind) (hi : Handle) (kj : Kind) (hj : Handle) (idi idj : Nat), hs[i]? = some (ki, hi) → hs[j]? = some (kj, hj) → i ≠ j → hi.ctx = .ptr idi → hj.ctx = .ptr idj → idi ≠ idj

/-- one call of a thread: object index and call -/
structure TCall where
  obj : Nat
  call : Call
  notInit : call.isInit = false
  notCleanup : call.isCleanup = false

def stepW (bd : Build) (hs : Handles) (w : World) (t : TCall) : M (World × Out) :=
  match hs[t.obj]? with
  | some (k, h) => do let r ← callStep bd w k (some h) t.call; pure (r.1, r.2.2)
  | none => pure (w, {})

def runW (bd : Build) (hs : Handles) : World → List TCall → M (World × List Out)
  | w, [] => pure (w, [])
  | w, t :: ts => do
    let r ← stepW bd hs w t
    let r' ← runW bd hs r.1 ts
    pure (r'.1, r.2 :: r'.2)

theorem wfh_setVal (w : World) (k : Kind) (h : Handle) (id' : Nat) (v : CtxVal) (hwf : WFH w k h)
    (hsame : ∀ id, h.ctx = .ptr id → id = id' → v.shape = k.shape) : WFH (w.setVal id' v) k h := by
  obtain ⟨h1, h2, h3⟩ := hwf
  refine ⟨h1, h2, fun id hid => ?_⟩
  obtain ⟨a, ha, hl, hsh, hbe⟩ := h3 id hid
  by_cases e : id' = id
  · subst e
    refine ⟨{ a with val := v }, ?_, hl, hsame _ hid rfl, hbe⟩
    simp [World.setVal, List.getElem?_modify, ha]
  · refine ⟨a, ?_, hl, hsh, hbe⟩
    simp [World.setVal, List.getElem?_modify, e, ha]

/-- a step from a good world succeeds and leads to a good world -/
theorem stepW_good (bd : Build) (hs : Handles) (w : World) (t : TCall) (hg : GoodW hs w) :
    ∃ w' out, stepW bd hs w t = .ok (w', out) ∧ GoodW hs w' := by
  simp only [stepW]
  cases ho : hs[t.obj]? with
  | none => exact ⟨w, {}, rfl, hg⟩
  | some kh =>
    obtain ⟨k, h⟩ := kh
    obtain ⟨w', out, hc, he, _⟩ := call_pure bd w k h t.call (hg.wf _ _ _ ho) t.notInit t.notCleanup
    refine ⟨w', out, by simp [hc, bind, Except.bind, pure, Except.pure], ?_⟩
    rcases he with rfl | ⟨id, v, hid, rfl, hsh⟩
    · exact hg
    · refine ⟨fun i k' h' hi' => ?_, hg.dis⟩
      apply wfh_setVal w k' h' id v (hg.wf i k' h' hi')
      intro id2 hid2 e2
      subst e2
      by_cases hij : i = t.obj
      · subst hij
        rw [ho] at hi'
        cases hi'
        exact hsh
      · exact absurd rfl (hg.dis i t.obj k' h' k h id2 id2 hi' ho hij hid2 hid)

/-- two adjacent calls on different objects can be swapped -/
theorem stepW_swap (bd : Build) (hs : Handles) (w : World) (t1 t2 : TCall) (hg : GoodW hs w) (hne : t1.obj ≠ t2.obj) :
    ∃ w1 w2 wf o1 o2, stepW bd hs w t1 = .ok (w1, o1) ∧ stepW bd hs w t2 = .ok (w2, o2) ∧
      stepW bd hs w1 t2 = .ok (wf, o2) ∧ stepW bd hs w2 t1 = .ok (wf, o1) := by
  simp only [stepW]
  cases ho1 : hs[t1.obj]? with
  | none =>
    obtain ⟨w2, o2, e2, _⟩ := stepW_good bd hs w t2 hg
    simp only [stepW] at e2
    exact ⟨w, w2, w2, {}, o2, rfl, e2, e2, rfl⟩
  | some kh1 =>
    obtain ⟨k1, h1⟩ := kh1
    cases ho2 : hs[t2.obj]? with
    | none =>
      obtain ⟨w1, o1, e1, _⟩ := stepW_good bd hs w t1 hg
      simp only [stepW, ho1] at e1
      exact ⟨w1, w, w1, o1, {}, e1, rfl, rfl, e1⟩
    | some kh2 =>
      obtain ⟨k2, h2⟩ := kh2
      obtain ⟨w1, w2, wf, o1, o2, e1, e2, e12, e21⟩ := C18_calls_commute bd w k1 k2 h1 h2 t1.call t2.call
        (hg.wf _ _ _ ho1) (hg.wf _ _ _ ho2) t1.notInit t1.notCleanup t2.notInit t2.notCleanup
        (fun id1 id2 a b => hg.dis _ _ k1 h1 k2 h2 id1 id2 ho1 ho2 hne a b)
      exact ⟨w1, w2, wf, o1, o2, by simp [e1, bind, Except.bind, pure, Except.pure], by simp [e2, bind, Except.bind, pure, Except.pure],
        by simp [e12, bind, Except.bind, pure, Except.pure], by simp [e21, bind, Except.bind, pure, Except.pure]⟩

theorem runW_good (bd : Build) (hs : Handles) (ts : List TCall) (w : World) (hg : GoodW hs w) :
    ∃ w' outs, runW bd hs w ts = .ok (w', outs) ∧ GoodW hs w' ∧ outs.length = ts.length := by
  induction ts generalizing w with
  | nil => exact ⟨w, [], rfl, hg, rfl⟩
  | cons t rest ih =>
    obtain ⟨w1, o, e, hg1⟩ := stepW_good bd hs w t hg
    obtain ⟨w2, os, e2, hg2, hl⟩ := ih w1 hg1
    exact ⟨w2, o :: os, by simp [runW, e, e2, bind, Except.bind, pure, Except.pure], hg2, by simp [hl]⟩

theorem runW_append (bd : Build) (hs : Handles) (a b : List TCall) (w w1 w2 : World) (oa ob : List Out)
    (ha : runW bd hs w a = .ok (w1, oa)) (hb : runW bd hs w1 b = .ok (w2, ob)) :
    runW bd hs w (a ++ b) = .ok (w2, oa ++ ob) := by
  induction a generalizing w oa with
  | nil => simp [runW, pure, Except.pure] at ha; obtain ⟨rfl, rfl⟩ := ha; simpa using hb
  | cons t rest ih =>
    simp only [runW, bind, Except.bind] at ha
    cases hs1 : stepW bd hs w t with
    | error e => simp [hs1] at ha
    | ok r =>
      simp only [hs1] at ha
      cases hr : runW bd hs r.1 rest with
      | error e => simp [hr] at ha
      | ok r' =>
        simp only [hr, pure, Except.pure, Except.ok.injEq, Prod.mk.injEq] at ha
        obtain ⟨rfl, rfl⟩ := ha
        have := ih r.1 r'.2 (by rw [hr]) 
        simp [runW, hs1, this, bind, Except.bind, pure, Except.pure]

/-- a call moves past any number of calls on other objects: same final world, same result for every call -/
theorem runW_push (bd : Build) (hs : Handles) (t : TCall) (l : List TCall) (hne : ∀ x ∈ l, x.obj ≠ t.obj) (w : World) (hg : GoodW hs w) :
    ∃ wf o os, runW bd hs w (t :: l) = .ok (wf, o :: os) ∧ runW bd hs w (l ++ [t]) = .ok (wf, os ++ [o]) := by
  induction l generalizing w with
  | nil =>
    obtain ⟨w1, o, e, _⟩ := stepW_good bd hs w t hg
    exact ⟨w1, o, [], by simp [runW, e, bind, Except.bind, pure, Except.pure], by simp [runW, e, bind, Except.bind, pure, Except.pure]⟩
  | cons x rest ih =>
    have hx : x.obj ≠ t.obj := hne x (by simp)
    obtain ⟨w1, w2, w12, ox, ot, ex, et, ext, etx⟩ := stepW_swap bd hs w x t hg hx
    obtain ⟨_, _, ex', hgx⟩ := stepW_good bd hs w x hg
    rw [ex] at ex'; cases ex'
    obtain ⟨wf, o, os, e1, e2⟩ := ih (fun y hy => hne y (by simp [hy])) w1 hgx
    -- from w1: t :: rest  ~  rest ++ [t]
    simp only [runW, bind, Except.bind] at e1
    rw [ext] at e1
    simp only at e1
    cases hr : runW bd hs w12 rest with
    | error e => simp [hr] at e1
    | ok r =>
      simp only [hr, pure, Except.pure, Except.ok.injEq, Prod.mk.injEq, List.cons.injEq] at e1
      obtain ⟨rfl, rfl, rfl⟩ := e1
      refine ⟨r.1, ot, ox :: r.2, ?_, ?_⟩
      · simp [runW, et, etx, hr, bind, Except.bind, pure, Except.pure]
      · simp only [List.cons_append, runW, bind, Except.bind, ex]
        rw [e2]
        simp [pure, Except.pure]

theorem runW_length (bd : Build) (hs : Handles) (ts : List TCall) (w w' : World) (outs : List Out)
    (h : runW bd hs w ts = .ok (w', outs)) : outs.length = ts.length := by
  induction ts generalizing w outs with
  | nil => simp [runW, pure, Except.pure] at h; simp [h.2.symm]
  | cons t rest ih =>
    simp only [runW, bind, Except.bind] at h
    cases hs1 : stepW bd hs w t with
    | error e => simp [hs1] at h
    | ok r =>
      simp only [hs1] at h
      cases hr : runW bd hs r.1 rest with
      | error e => simp [hr] at h
      | ok r' =>
        simp only [hr, pure, Except.pure, Except.ok.injEq, Prod.mk.injEq] at h
        obtain ⟨hw, rfl⟩ := h
        have := ih r.1 r'.2 (by rw [hr, ← hw])
        simp [this]

theorem runW_append_inv (bd : Build) (hs : Handles) (a b : List TCall) (w w2 : World) (o : List Out)
    (h : runW bd hs w (a ++ b) = .ok (w2, o)) :
    ∃ w1 oa ob, runW bd hs w a = .ok (w1, oa) ∧ runW bd hs w1 b = .ok (w2, ob) ∧ o = oa ++ ob := by
  induction a generalizing w o with
  | nil => exact ⟨w, [], o, rfl, by simpa using h, rfl⟩
  | cons t rest ih =>
    simp only [List.cons_append, runW, bind, Except.bind] at h
    cases hs1 : stepW bd hs w t with
    | error e => simp [hs1] at h
    | ok r =>
      simp only [hs1] at h
      cases hr : runW bd hs r.1 (rest ++ b) with
      | error e => simp [hr] at h
      | ok r' =>
        simp only [hr, pure, Except.pure, Except.ok.injEq, Prod.mk.injEq] at h
        obtain ⟨rfl, rfl⟩ := h
        obtain ⟨w1, oa, ob, e1, e2, e3⟩ := ih r.1 r'.2 (by rw [hr])
        exact ⟨w1, r.2 :: oa, ob, by simp [runW, hs1, e1, bind, Except.bind, pure, Except.pure], e2, by simp [e3]⟩

/-- the calls of one thread, and their outputs, out of an interleaving -/
def threadOf (tag : Bool) : List (Bool × TCall) → List TCall
  | [] => []
  | x :: l => if x.1 = tag then x.2 :: threadOf tag l else threadOf tag l
def outsOf (tag : Bool) : List (Bool × TCall) → List Out → List Out
  | x :: l, o :: os => if x.1 = tag then o :: outsOf tag l os else outsOf tag l os
  | _, _ => []

/-- **every interleaving of two threads that work on disjoint objects is indistinguishable from running thread 1 and
then thread 2**: the same final world, and every call returns what it returns in the sequential run
(`outsOf tag l outs`: the results of thread `tag`'s calls in the interleaved run, in order) -/
theorem C18_interleaving (bd : Build) (hs : Handles) (l : List (Bool × TCall))
    (hdisj : ∀ x ∈ l, ∀ y ∈ l, x.1 = true → y.1 = false → x.2.obj ≠ y.2.obj) (w : World) (hg : GoodW hs w) :
    ∃ wf outs wm, runW bd hs w (l.map (·.2)) = .ok (wf, outs) ∧
      runW bd hs w (threadOf true l) = .ok (wm, outsOf true l outs) ∧
      runW bd hs wm (threadOf false l) = .ok (wf, outsOf false l outs) := by
  induction l generalizing w with
  | nil => exact ⟨w, [], w, rfl, rfl, rfl⟩
  | cons x rest ih =>
    obtain ⟨tag, t⟩ := x
    obtain ⟨w1, o, e, hg1⟩ := stepW_good bd hs w t hg
    obtain ⟨wf, outs, wa, er, e1r, e2r⟩ := ih (fun a ha b hb => hdisj a (by simp [ha]) b (by simp [hb])) w1 hg1
    have hrun : runW bd hs w (((tag, t) :: rest).map (·.2)) = .ok (wf, o :: outs) := by
      simp [runW, e, er, bind, Except.bind, pure, Except.pure]
    cases tag with
    | true =>
      refine ⟨wf, o :: outs, wa, hrun, ?_, ?_⟩
      · simp [threadOf, outsOf, runW, e, e1r, bind, Except.bind, pure, Except.pure]
      · simpa [threadOf, outsOf] using e2r
    | false =>
      have hne : ∀ y ∈ threadOf true rest, y.obj ≠ t.obj := by
        intro y hy
        have : ∀ (r : List (Bool × TCall)), y ∈ threadOf true r → ∃ z ∈ r, z.1 = true ∧ z.2 = y := by
          intro r
          induction r with
          | nil => simp [threadOf]
          | cons z zs ihz =>
            simp only [threadOf]
            split
            · intro hm
              rcases List.mem_cons.mp hm with rfl | hm'
              · exact ⟨z, by simp, by assumption, rfl⟩
              · obtain ⟨q, hq, hq1, hq2⟩ := ihz hm'
                exact ⟨q, by simp [hq], hq1, hq2⟩
            · intro hm
              obtain ⟨q, hq, hq1, hq2⟩ := ihz hm
              exact ⟨q, by simp [hq], hq1, hq2⟩
        obtain ⟨z, hz, hz1, rfl⟩ := this rest hy
        exact hdisj z (by simp [hz]) (false, t) (by simp) hz1 rfl
      obtain ⟨wp, op, osp, p1, p2⟩ := runW_push bd hs t (threadOf true rest) hne w hg
      -- p1 : t first, then thread 1's calls; compare with e and e1r
      have p1' : runW bd hs w (t :: threadOf true rest) = .ok (wa, o :: outsOf true rest outs) := by
        simp [runW, e, e1r, bind, Except.bind, pure, Except.pure]
      rw [p1'] at p1
      simp only [Except.ok.injEq, Prod.mk.injEq, List.cons.injEq] at p1
      obtain ⟨rfl, rfl, rfl⟩ := p1
      obtain ⟨wm, oa, ob, a1, a2, a3⟩ := runW_append_inv bd hs _ _ w _ _ p2
      have la := runW_length bd hs _ _ _ _ a1
      have lr := runW_length bd hs _ _ _ _ e1r
      have hsplit : oa = outsOf true rest outs ∧ ob = [o] := by
        have := List.append_inj a3 (by rw [la, lr])
        exact ⟨this.1.symm, this.2.symm⟩
      obtain ⟨rfl, rfl⟩ := hsplit
      refine ⟨wf, o :: outs, wm, hrun, ?_, ?_⟩
      · simpa [threadOf, outsOf] using a1
      · -- from wm: t, then thread 2's calls of the rest
        simp only [runW, bind, Except.bind] at a2
        cases hst : stepW bd hs wm t with
        | error e' => simp [hst] at a2
        | ok r =>
          simp only [hst, pure, Except.pure, Except.ok.injEq, Prod.mk.injEq, List.cons.injEq, and_true] at a2
          obtain ⟨rfl, rfl⟩ := a2
          simp [threadOf, outsOf, runW, hst, e2r, bind, Except.bind, pure, Except.pure]

/-- non-vacuity: two zeroed (inert) objects form a good world, so the theorem applies from the very first calls -/
example : GoodW [(.ctr .s128, zeroHandle), (.par .mantis, zeroHandle)] {} := by
  refine ⟨fun i k h hi => ?_, fun i j ki hi kj hj idi idj h1 h2 _ c1 _ => ?_⟩
  · have : h = zeroHandle := by
      match i, hi with
      | 0, hi => simp at hi; exact hi.2.symm
      | 1, hi => simp at hi; exact hi.2.symm
    subst this
    exact ⟨by simp [zeroHandle], by simp [zeroHandle], fun id hid => by simp [zeroHandle] at hid⟩
  · have : hi = zeroHandle := by
      match i, h1 with
      | 0, h1 => simp at h1; exact h1.2.symm
      | 1, h1 => simp at h1; exact h1.2.symm
    subst this
    simp [zeroHandle] at c1

/-- the hypothesis of `C18_interleaving` holds in every state the object layer can reach (C14 `Reachable`), for the
objects that have been initialised or zeroed: the safety invariant gives usable handles and single ownership -/
theorem goodW_of_inv (s : Sys) (hinv : Inv s) (hready : ∀ (j : Nat) (o : Obj), s.objs[j]? = some o → o.ready = true) :
    GoodW (s.objs.map (fun o => (o.kind, o.h))) s.w := by
  refine ⟨fun i k h hi => ?_, fun i j ki hi kj hj idi idj h1 h2 hne c1 c2 => ?_⟩
  · rw [List.getElem?_map] at hi
    cases ho : s.objs[i]? with
    | none => simp [ho] at hi
    | some o =>
      simp only [ho, Option.map_some, Option.some.injEq, Prod.mk.injEq] at hi
      obtain ⟨rfl, rfl⟩ := hi
      exact hinv.wf i o ho (hready i o ho)
  · rw [List.getElem?_map] at h1 h2
    cases ho1 : s.objs[i]? with
    | none => simp [ho1] at h1
    | some o1 =>
      cases ho2 : s.objs[j]? with
      | none => simp [ho2] at h2
      | some o2 =>
        simp only [ho1, ho2, Option.map_some, Option.some.injEq, Prod.mk.injEq] at h1 h2
        obtain ⟨rfl, rfl⟩ := h1
        obtain ⟨rfl, rfl⟩ := h2
        intro e
        subst e
        exact hne (hinv.inj i j o1 o2 idi ho1 ho2 c1 c2)

theorem C18_interleaving_reachable (bd : Build) (hg : Good bd) (s : Sys) (hr : Reachable bd s)
    (hready : ∀ (j : Nat) (o : Obj), s.objs[j]? = some o → o.ready = true) (l : List (Bool × TCall))
    (hdisj : ∀ x ∈ l, ∀ y ∈ l, x.1 = true → y.1 = false → x.2.obj ≠ y.2.obj) :
    let hs := s.objs.map (fun o => (o.kind, o.h))
    ∃ wf outs wm, runW bd hs s.w (l.map (·.2)) = .ok (wf, outs) ∧
      runW bd hs s.w (threadOf true l) = .ok (wm, outsOf true l outs) ∧
      runW bd hs wm (threadOf false l) = .ok (wf, outsOf false l outs) :=
  C18_interleaving bd _ l hdisj s.w (goodW_of_inv s (reachable_inv bd hg s hr) hready)

end SkinnyVerif.Properties
