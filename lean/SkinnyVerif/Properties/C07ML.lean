/-
C07, Mantis: the loops of `mantis_parallel_ecb_crypt` (whole batches of 64 bytes of data *and of tweaks* through the
vector back end, the rest block by block through `mantis_ecb_crypt_tweaked`) compute, for every byte count, block `i`
under the `i`-th tweak - given that the batch function does so on one batch, which `C07_mantis_vec128_block` shows for the
translated vector code.  `mantisBatched` is a hand model of the two `while` loops (hash + correspondence tie).
-/
import SkinnyVerif.Properties.C07M
import SkinnyVerif.Properties.C07L

namespace SkinnyVerif.Properties
open SkinnyVerif SkinnyVerif.Gen SkinnyVerif.Impl SkinnyVerif.Api SkinnyVerif.Lemmas

def mantisBatched (G : Bytes → Bytes → Bytes) (o : MantisOps) (ks : MantisKey) : Nat → Bytes → Bytes → Bytes
  | 0, _, _ => []
  | fuel + 1, tw, inp =>
    if 64 ≤ inp.length then G (tw.take 64) (inp.take 64) ++ mantisBatched G o ks fuel (tw.drop 64) (inp.drop 64)
    else mantisParBlocks o ks (inp.length + 1) tw inp

theorem mpb_fuel (o : MantisOps) (ks : MantisKey) (f f' : Nat) (tw inp : Bytes) (h : inp.length < (f + 1) * 8) (h' : inp.length < (f' + 1) * 8) :
    mantisParBlocks o ks f tw inp = mantisParBlocks o ks f' tw inp := by
  induction f generalizing f' tw inp with
  | zero =>
    have hlt : inp.length < 8 := by simpa using h
    cases f' with
    | zero => rfl
    | succ n => simp [mantisParBlocks, hlt]
  | succ n ih =>
    cases f' with
    | zero =>
      have hlt : inp.length < 8 := by simpa using h'
      simp [mantisParBlocks, hlt]
    | succ m =>
      simp only [mantisParBlocks]
      by_cases hlt : inp.length < 8
      · simp [hlt]
      · simp only [hlt, if_false]
        rw [ih m (tw.drop 8) (inp.drop 8) (by rw [List.length_drop]; omega) (by rw [List.length_drop]; omega)]

theorem mpb_cons (o : MantisOps) (ks : MantisKey) (tw inp : Bytes) (h : 8 ≤ inp.length) :
    mantisParBlocks o ks (inp.length + 1) tw inp =
      mantisCryptTweaked o ks (tw.take 8) (inp.take 8) ++ mantisParBlocks o ks ((inp.drop 8).length + 1) (tw.drop 8) (inp.drop 8) := by
  have h2 : ¬ inp.length < 8 := by omega
  have e : mantisParBlocks o ks (inp.length + 1) tw inp =
      mantisCryptTweaked o ks (tw.take 8) (inp.take 8) ++ mantisParBlocks o ks inp.length (tw.drop 8) (inp.drop 8) := by
    rw [mantisParBlocks]; simp only [h2, if_false]
  rw [e]
  congr 1
  exact mpb_fuel o ks _ _ _ _ (by rw [List.length_drop]; omega) (by omega)

theorem mpb_append (o : MantisOps) (ks : MantisKey) (B : Nat) (tw a b : Bytes) (ha : a.length = B * 8) :
    mantisParBlocks o ks ((a ++ b).length + 1) tw (a ++ b) =
      mantisParBlocks o ks (a.length + 1) tw a ++ mantisParBlocks o ks (b.length + 1) (tw.drop a.length) b := by
  induction B generalizing tw a with
  | zero =>
    have : a = [] := List.eq_nil_of_length_eq_zero (by simpa using ha)
    subst this
    simp [mantisParBlocks]
  | succ n ih =>
    have hal : 8 ≤ a.length := by rw [ha, Nat.succ_mul]; omega
    have hal2 : 8 ≤ (a ++ b).length := by rw [List.length_append]; omega
    have ht : (a ++ b).take 8 = a.take 8 := by rw [List.take_append_of_le_length hal]
    have hd : (a ++ b).drop 8 = a.drop 8 ++ b := by rw [List.drop_append_of_le_length hal]
    have hdl : (a.drop 8).length = n * 8 := by rw [List.length_drop, ha, Nat.succ_mul]; omega
    have e : 8 + (a.drop 8).length = a.length := by rw [List.length_drop]; omega
    rw [mpb_cons o ks tw (a ++ b) hal2, mpb_cons o ks tw a hal, ht, hd, ih (tw.drop 8) (a.drop 8) hdl, List.append_assoc, List.drop_drop, e]

/-- **the Mantis loops compute block `i` under tweak `i` for every byte count** -/
theorem mantisBatched_eq (G : Bytes → Bytes → Bytes) (o : MantisOps) (ks : MantisKey)
    (hG : ∀ t c : Bytes, c.length = 64 → G (t.take 64) c = mantisParBlocks o ks (c.length + 1) t c)
    (fuel : Nat) (tw inp : Bytes) (hf : inp.length < fuel) :
    mantisBatched G o ks fuel tw inp = mantisParBlocks o ks (inp.length + 1) tw inp := by
  induction fuel generalizing tw inp with
  | zero => omega
  | succ n ih =>
    simp only [mantisBatched]
    by_cases hp : 64 ≤ inp.length
    · simp only [hp, if_true]
      have htl : (inp.take 64).length = 64 := by rw [List.length_take]; omega
      have hdl : (inp.drop 64).length < n := by rw [List.length_drop]; omega
      rw [hG tw _ htl, ih _ _ hdl]
      have := mpb_append o ks 8 tw (inp.take 64) (inp.drop 64) (by rw [htl])
      rw [List.take_append_drop, htl] at this
      rw [this, htl]
    · simp only [hp, if_false]

/-- the batch function of the Mantis vector back end on 64 bytes of tweaks and 64 bytes of data -/
def vecMantisBytes (ks : MantisKey) (tw64 chunk : Bytes) : Bytes :=
  bytesOf 64 (vecMantis8 ks.image ks.rounds (image 512 chunk) (image 512 tw64))

theorem take_drop_take (l : Bytes) (j : Nat) (hj : j < 8) : ((l.take 64).drop (8 * j)).take 8 = (l.drop (8 * j)).take 8 := by
  rw [List.drop_take, List.take_take]
  congr 1
  omega

/-- a batch function that writes, at block `j`, tweaked Mantis of input block `j` under tweak `j` -/
theorem mantis_batch_is {w : Nat} (o : MantisOps) (ks : MantisKey) (B : Nat) (X : BitVec w) (t c : Bytes) (hlen : c.length = B * 8)
    (hblk : ∀ j, j < B → bytesOf 8 (X.extractLsb' (8 * 8 * j) (8 * 8)) = mantisCryptTweaked o ks ((t.drop (8 * j)).take 8) ((c.drop (8 * j)).take 8)) :
    bytesOf (B * 8) X = mantisParBlocks o ks (c.length + 1) t c := by
  induction B generalizing w X t c with
  | zero =>
    have : c = [] := List.eq_nil_of_length_eq_zero (by simpa using hlen)
    subst this
    simp [bytesOf, mantisParBlocks]
  | succ n ih =>
    have hal : 8 ≤ c.length := by rw [hlen, Nat.succ_mul]; omega
    have hdl : (c.drop 8).length = n * 8 := by rw [List.length_drop, hlen, Nat.succ_mul]; omega
    rw [show (n + 1) * 8 = 8 + n * 8 by rw [Nat.succ_mul, Nat.add_comm], bytesOf_split X 8 (n * 8), mpb_cons o ks t c hal]
    have h0 := hblk 0 (by omega)
    simp only [Nat.mul_zero, List.drop_zero] at h0
    rw [h0]
    congr 1
    apply ih (X.extractLsb' (8 * 8) (8 * (n * 8))) (t.drop 8) (c.drop 8) hdl
    intro j hj
    have h := hblk (j + 1) (by omega)
    have e1 : 8 * 8 * (j + 1) = 8 * 8 + 8 * 8 * j := by omega
    have e2 : 8 * (j + 1) = 8 + 8 * j := by omega
    rw [extractLsb'_extractLsb'_le (8 * 8 * j) (8 * 8) (8 * 8) (8 * (n * 8)) X (by omega), List.drop_drop, List.drop_drop, ← e1]
    rw [e2] at h
    exact h

theorem vecMantis_batch (ks : MantisKey) (t c : Bytes) (hc : c.length = 64) :
    vecMantisBytes ks (t.take 64) c = mantisParBlocks (opsMantis .c64le) ks (c.length + 1) t c := by
  apply mantis_batch_is (opsMantis .c64le) ks 8 _ t c (by omega)
  intro j hj
  have hb := image_block_gen 512 8 c j (by omega)
  have ht := image_block_gen 512 8 (t.take 64) j (by omega)
  rw [take_drop_take t j hj] at ht
  have := C07_mantis_vec128_block ks (image 512 c) (image 512 (t.take 64)) j hj _ _ (by simpa using hb) (by simpa using ht)
  simpa using this

/-- **Mantis parallel ECB through the 128-bit vector back end, every byte count and every tweak array** -/
theorem C07_mantis_whole_buffer (ks : MantisKey) (tw inp : Bytes) :
    mantisBatched (vecMantisBytes ks) (opsMantis .c64le) ks (inp.length + 1) tw inp =
      mantisParBlocks (opsMantis .c64le) ks (inp.length + 1) tw inp :=
  mantisBatched_eq _ _ ks (fun t c hc => vecMantis_batch ks t c hc) _ tw inp (by omega)

end SkinnyVerif.Properties
