/-
C07 / C02 / C06, Mantis: the 128-bit vector back end of parallel ECB (`_mantis_parallel_crypt_vec128`,
eight blocks under eight tweaks per group), assembled from its translated pieces, processes block `j`
under tweak `j` exactly as the scalar `mantis_ecb_crypt_tweaked` does - for every key schedule image
(hence both modes), every round count, every input and every tweak array - and therefore as the
MANTIS specification (C02).

`vecMantis8` is the hand model of the loop structure and of GCC's element-wise vector semantics; the
pieces, the S-box and the round-constant table are regenerated from `src/mantis-parallel-vec128.c`.
-/
import SkinnyVerif.Lemmas.VecMantis
import SkinnyVerif.Lemmas.VecMantisCtr
import SkinnyVerif.Properties.C05V
import SkinnyVerif.Lemmas.MantisPieces_64le
import SkinnyVerif.Properties.C02

namespace SkinnyVerif.Properties
open SkinnyVerif SkinnyVerif.Gen SkinnyVerif.Impl SkinnyVerif.Lemmas

/-- **block `j` of the vector group = scalar tweaked Mantis on block `j` under tweak `j`** -/
theorem C07_mantis_vec128_block (ks : MantisKey) (input tweak : BitVec 512) (j : Nat) (hj : j < 8) (blk tw : Bytes)
    (hblk : image 64 blk = input.extractLsb' (64 * j) 64) (htw : image 64 tw = tweak.extractLsb' (64 * j) 64) :
    bytesOf 8 ((vecMantis8 ks.image ks.rounds input tweak).extractLsb' (64 * j) 64) =
      mantisCryptTweaked (opsMantis .c64le) ks tw blk := by
  have P := mantisPieces_64le
  rw [vecMantis8_lane _ _ _ _ j hj, ← hblk, ← htw]
  have hrc : (opsMantis .c64le).rc = mantis_rc_64le := rfl
  simp only [mantisCryptTweaked, laneMantis, P.preT, P.fwdT, P.midT, P.bwdT, P.postT, hrc,
    vmp_fwd_ref, vmp_mid_ref, vmp_bwd_ref, vmp_rc_eq, refMid, refPre]

/-- ... and therefore the specification's MANTIS-r under the `j`-th tweak -/
theorem C07_mantis_vec128_spec (ks0 : MantisKey) (key : Bytes) (hk : key.length = 16) (rounds : Nat) (hr : 5 ≤ rounds ∧ rounds ≤ 8) (mode : Int)
    (input tweak : BitVec 512) (j : Nat) (hj : j < 8) (blk tw : Bytes)
    (hblk : image 64 blk = input.extractLsb' (64 * j) 64) (htw : image 64 tw = tweak.extractLsb' (64 * j) 64) :
    let ks := (mantisSetKey (opsMantis .c64le) ks0 (some key) 16 rounds mode).2
    bytesOf 8 ((vecMantis8 ks.image ks.rounds input tweak).extractLsb' (64 * j) 64) = specCrypt mode rounds key tw blk := by
  intro ks
  rw [C07_mantis_vec128_block ks input tweak j hj blk tw hblk htw]
  exact (C02_mantis .c64le ks0 key tw blk hk rounds hr mode).2.2.1

/-! ## the keystream batch of the Mantis vector CTR back end (`mantis_ecb_encrypt_eight`) -/

/-- **keystream batch, Mantis on 128-bit vectors**: block `j` of the batch is `mantis_ecb_crypt` (the schedule's stored
tweak) of the counter block in column `j` of the strided image; that block's big-endian value is the column value of
`C05_vmc_increment` -/
theorem C06_mantis_vec128_keystream (ks : MantisKey) (img : BitVec 512) (j : Nat) (hj : j < 8) (blk : Bytes)
    (hblk : image 64 blk = laneSt img j) :
    bytesOf 8 ((vecMantisCtr8 ks.image ks.rounds img).extractLsb' (64 * j) 64) = mantisCrypt (opsMantis .c64le) ks blk ∧
    columnValue (pos64m j) img = valLE ((List.range 8).map (fun t => (lane 8 (7 - t) (laneSt img j)).toNat)) := by
  have P := mantisPieces_64le
  refine ⟨?_, vmc_column_value img j hj⟩
  rw [vecMantisCtr8_lane _ _ _ j hj, ← hblk]
  have hrc : (opsMantis .c64le).rc = mantis_rc_64le := rfl
  simp only [mantisCrypt, laneMantisCtr, P.pre, P.fwd, P.mid, P.bwd, P.post, hrc, refMid, refPre]

end SkinnyVerif.Properties
