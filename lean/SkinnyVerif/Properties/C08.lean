/-
C08 (constant time) and C09 (buffer contract) for the translated cipher core.

C08: the translator executes every function of the cipher core (all S-boxes, LFSRs, permutations,
key-schedule pieces, round bodies, load/store pieces, counter increments, in all four word-size /
endianness configurations) with all data inputs symbolic.  A branch condition or an address that
depends on a data input is recorded as a leak event.  The theorem states that every counter is 0:
each translated function is one straight-line expression of its inputs, so its sequence of
branches and addresses is the same for all keys, tweaks, blocks and counters.  (Loops bounded by
public values - round count, byte counts - are unrolled or cut into pieces by the translator.)
Code outside the translated core (CTR buffering loops, vector back ends) is covered by the
dynamic taint oracle only.

C09: the accesses of the single-block entry points to the caller's buffers, as recorded during
the same execution: inside the block, input never written, output never read, and every read of
the input precedes every write of the output (so any overlap of the two is harmless).
-/
import SkinnyVerif.Gen.LeakTable
import SkinnyVerif.Gen.IoTable
import SkinnyVerif.Gen.IoTableVec

namespace SkinnyVerif.Properties
open SkinnyVerif SkinnyVerif.Gen

/-- no translated function has a data-dependent branch or address -/
theorem C08_no_leak_events : leakTable.all (· == 0) = true := by decide +kernel

/-- the table covers every translated function (a function that disappears from the translation
is a broken obligation, not a vacuous success) -/
theorem C08_table_complete : leakTable.length = leakTableSize ∧ 300 ≤ leakTableSize := by decide +kernel

/-- an access to a caller buffer stays inside the block -/
def inBlock (bs : Nat) (e : Bool × Nat × Nat × Nat) : Bool :=
  e.2.1 == 9 || e.2.2.1 + e.2.2.2 ≤ bs

/-- input, tweak, key and counter are never written; the output is never read -/
def directionOK (e : Bool × Nat × Nat × Nat) : Bool :=
  if e.2.1 == 1 then e.1 else if e.2.1 == 9 then true else !e.1

/-- no read of the input (or tweak) after the first write of the output -/
def readsBeforeWrites : List (Bool × Nat × Nat × Nat) → Bool
  | [] => true
  | e :: rest => if e.1 && e.2.1 == 1 then rest.all (fun r => !(r.2.1 == 0 || r.2.1 == 2)) else readsBeforeWrites rest

/-- every byte of the output block is written and every byte of the input block is read -/
def coversBlock (bs : Nat) (evs : List (Bool × Nat × Nat × Nat)) (obj : Nat) : Bool :=
  (List.range bs).all fun i => evs.any fun e => e.2.1 == obj && e.2.2.1 ≤ i && i < e.2.2.1 + e.2.2.2

theorem C09_block_functions :
    ioTable.all (fun f => f.2.all (inBlock f.1) && f.2.all directionOK && readsBeforeWrites f.2 &&
      coversBlock f.1 f.2 0 && coversBlock f.1 f.2 1) = true := by decide +kernel

theorem C09_table_complete : ioTable.length = 24 := by decide

/-- **C09 for one batch of the vector parallel-ECB functions** (all four files, default and byte-wise load / store builds):
every access stays inside the batch (`psize` bytes of each caller buffer; for Mantis also of the tweak array), the input and
the tweaks are never written, the output is never read, every input / tweak read precedes the first output write - so a
batch may be processed in place - and every byte of the batch is read and written -/
theorem C09_vector_batch_functions :
    ioTableVec.all (fun f => f.2.all (inBlock f.1) && f.2.all directionOK && readsBeforeWrites f.2 &&
      coversBlock f.1 f.2 0 && coversBlock f.1 f.2 1) = true := by decide +kernel

theorem C09_vector_table_complete : ioTableVec.length = 13 := by decide

end SkinnyVerif.Properties
