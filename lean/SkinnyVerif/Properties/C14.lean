/-
C14 (error contract), C15 (life cycle), C16 (allocation failure), C17 (wipe before free):
corollaries of the object-layer safety theorem (`Properties/Objects.lean`), for every history.
-/
import SkinnyVerif.Properties.Objects
import SkinnyVerif.Lemmas.GuardLemmas

namespace SkinnyVerif.Properties
open SkinnyVerif SkinnyVerif.Impl SkinnyVerif.Api SkinnyVerif.Lemmas

/-! ## inert objects: zeroed, cleaned up, or left behind by a failed `init` -/

/-- an object that owns no context and has no garbage fields -/
def Inert (h : Handle) : Prop := h.ctx = .null ∧ h.vtable ≠ .garbage

/-- every call other than `init` on an inert object returns 0 (or is void), changes nothing in
the world, and leaves the object inert -/
theorem inert_call (bd : Build) (w : World) (k : Kind) (h : Handle) (hin : Inert h) (c : Call) (hc : c.isInit = false) :
    ∃ h' out, callStep bd w k (some h) c = .ok (w, some h', out) ∧ Inert h' ∧ (out.ret = none ∨ out.ret = some 0) ∧ out.data = [] := by
  obtain ⟨hcx, hvt⟩ := hin
  cases k with
  | ctr f =>
    cases hv : h.vtable with
    | garbage => exact absurd hv hvt
    | null =>
      cases c <;> cases f <;>
        simp [Call.isInit, callStep, ctrCleanup, ctrSetCounter, ctrEncryptCall, skinnyCtrSetKey, skinnyCtrSetTweakedKey, skinnyCtrSetTweak,
          mantisCtrSetKey, mantisCtrSetTweak, ctrUpdate, dispatch, hv, hcx, bind, Except.bind, pure, Except.pure, Inert] at hc ⊢
        <;> (first | done | (first | (rename_i inp; cases (inp : Option Bytes)) | skip) <;> (try simp) <;> (refine ⟨_, _, ⟨rfl, rfl⟩, ⟨?_, ?_⟩, ?_, ?_⟩ <;> simp [hcx, hvt, hv]))
    | be b =>
      cases c <;> cases f <;>
        simp [Call.isInit, callStep, ctrCleanup, ctrSetCounter, ctrEncryptCall, skinnyCtrSetKey, skinnyCtrSetTweakedKey, skinnyCtrSetTweak,
          mantisCtrSetKey, mantisCtrSetTweak, ctrUpdate, dispatch, hv, hcx, bind, Except.bind, pure, Except.pure, Inert] at hc ⊢
        <;> (first | done | (first | (rename_i inp; cases (inp : Option Bytes)) | skip) <;> (try simp) <;> (refine ⟨_, _, ⟨rfl, rfl⟩, ⟨?_, ?_⟩, ?_, ?_⟩ <;> simp [hcx, hvt, hv]))
  | par f =>
    cases c <;> cases f <;>
      simp [Call.isInit, callStep, parCleanup, skinnyParSetKey, mantisParSetKey, mantisParSwap, skinnyParCrypt, mantisParCrypt,
        hcx, bind, Except.bind, pure, Except.pure, Inert, hvt] at hc ⊢
      <;> (first | done | (refine ⟨_, _, ⟨rfl, rfl⟩, ⟨?_, ?_⟩, ?_, ?_⟩ <;> simp [hcx, hvt]))


/-! ## reachable states -/

/-- the states the library can be in after any history a C caller may produce -/
def Reachable (bd : Build) (s : Sys) : Prop :=
  ∃ ops outs, AllowedRun bd {} ops ∧ runSys bd {} ops = .ok (s, outs)

theorem reachable_inv (bd : Build) (hg : Good bd) (s : Sys) (hr : Reachable bd s) : Inv s := by
  obtain ⟨ops, outs, hal, hrun⟩ := hr
  obtain ⟨s', outs', hrun', hinv⟩ := run_ok bd hg ops {} inv_init hal
  rw [hrun] at hrun'
  cases hrun'
  exact hinv

/-- **C14/C15/C16 (no undefined behaviour)**: no allowed history makes the library dereference a
null, wild or freed pointer or free a block twice -/
theorem C14_no_fault (bd : Build) (hg : Good bd) (ops : List Op) (hal : AllowedRun bd {} ops) :
    ∃ s outs, runSys bd {} ops = .ok (s, outs) := by
  obtain ⟨s, outs, h, _⟩ := run_ok bd hg ops {} inv_init hal
  exact ⟨s, outs, h⟩

/-! ## C14: a call that returns 0 changes nothing -/

theorem C14_failed_call_changes_nothing (bd : Build) (s : Sys) (hinv : Inv s) (j : Nat) (o : Obj) (c : Call)
    (ho : s.objs[j]? = some o) (hr : o.ready = true) (hi : c.isInit = false) (hcl : c.isCleanup = false) :
    ∃ s' out, stepSys bd s (.call o.kind (some j) c) = .ok (s', out) ∧ s'.objs = s.objs ∧ (out.ret = some 0 → s' = s) := by
  have hwf := hinv.wf j o ho hr
  obtain ⟨w', out, hcall, _, h0⟩ := call_pure bd s.w o.kind o.h c hwf hi hcl
  have hobjs : updObjs s.objs j o.h c.isInit = s.objs := by
    rw [updObjs, hi]
    apply modify_self
    intro o' ho'
    rw [ho] at ho'; cases ho'
    cases o; simp
  refine ⟨_, out, step_call_eq bd s o.kind j c o ho w' o.h out hcall, hobjs, fun hret => ?_⟩
  rw [hobjs, h0 hret]

theorem C14_null_object (bd : Build) (hg : Good bd) (s : Sys) (k : Kind) (c : Call) :
    ∃ out, stepSys bd s (.call k none c) = .ok (s, out) ∧ (out.ret = none ∨ out.ret = some 0) := by
  obtain ⟨out, hcall, hret⟩ := call_null bd hg.parNull s.w k c
  exact ⟨out, step_null_eq bd s k c out hcall, hret⟩

/-- a zeroed, cleaned-up or failed-to-initialise object: every call returns 0 and nothing changes
except that the object stays inert -/
theorem C14_inert_object (bd : Build) (s : Sys) (j : Nat) (o : Obj) (c : Call) (ho : s.objs[j]? = some o)
    (hin : Inert o.h) (hi : c.isInit = false) :
    ∃ s' out, stepSys bd s (.call o.kind (some j) c) = .ok (s', out) ∧ s'.w = s.w ∧ (out.ret = none ∨ out.ret = some 0) ∧ out.data = [] ∧
      ∃ o', s'.objs[j]? = some o' ∧ Inert o'.h := by
  obtain ⟨h', out, hcall, hin', hret, hdata⟩ := inert_call bd s.w o.kind o.h hin c hi
  exact ⟨_, out, step_call_eq bd s o.kind j c o ho s.w h' out hcall, rfl, hret, hdata, _, updObjs_self _ _ _ _ o ho, hin'⟩


/-! ## C14: invalid arguments are rejected with 0 -/

theorem ctrUpdate_zero (w : World) (k : Kind) (h : Handle) (argNull needArg : Bool)
    (upd : Backend → CtxVal → M (Nat × CtxVal)) (hwf : WFH w k h)
    (hz : (needArg && argNull) = true ∨ ∀ be v, v.shape = k.shape → ∃ v', upd be v = .ok (0, v')) :
    ctrUpdate w (some h) argNull needArg upd = .ok (w, 0) := by
  obtain ⟨hv, hc, hp⟩ := hwf
  unfold ctrUpdate dispatch
  cases hvt : h.vtable with
  | garbage => exact absurd hvt hv
  | null => simp [bind, Except.bind, pure, Except.pure, hvt]
  | be b =>
    by_cases hna : (needArg && argNull) = true
    · simp [bind, Except.bind, pure, Except.pure, hna, hvt]
    · rcases hz with hz | hz
      · exact absurd hz hna
      · cases hcx : h.ctx with
        | garbage => exact absurd hcx hc
        | null => simp [bind, Except.bind, pure, Except.pure, hna, hvt, hcx]
        | ptr id =>
          obtain ⟨a, ha, hlive, hshape, _⟩ := hp id hcx
          obtain ⟨v', hu⟩ := hz b a.val hshape
          simp [bind, Except.bind, pure, Except.pure, hna, hvt, hcx, deref_ok w id a ha hlive, hu]

theorem setKey_zero {b h : Nat} (o : SkinnyOps b h) (g : SkinnyGuards) (p : SkinnyParams) (ks : KeySched h) (key : Option Bytes) (size : Nat)
    (j2 j3 : BitVec b) (hg : g.setKey false key.isNone (BitVec.ofNat 32 size) = true) : setKey o g p ks key size j2 j3 = (0, ks) := by
  simp [setKey, hg]
theorem setTweakedKey_zero {b h : Nat} (o : SkinnyOps b h) (g : SkinnyGuards) (p : SkinnyParams) (tk : TweakedKey h) (key : Option Bytes)
    (size : Nat) (j2 j3 : BitVec b) (hg : g.setTweakedKey false key.isNone (BitVec.ofNat 32 size) = true) :
    setTweakedKey o g p tk key size j2 j3 = (0, tk) := by
  simp [setTweakedKey, hg]
theorem setTweak_zero {b h : Nat} (o : SkinnyOps b h) (g : SkinnyGuards) (p : SkinnyParams) (tk : TweakedKey h) (tweak : Option Bytes)
    (size : Nat) (hg : g.setTweak false tweak.isNone (BitVec.ofNat 32 size) = true) : setTweak o g p tk tweak size = (0, tk) := by
  simp [setTweak, hg]

/-- what the documentation calls an invalid argument, per call (sizes are C `unsigned` values) -/
def InvalidArgs : Kind → Call → Prop
  | .ctr .s128, .setKey key size _ => key = none ∨ size < 16 ∨ 48 < size
  | .ctr .s64, .setKey key size _ => key = none ∨ size < 8 ∨ 24 < size
  | .par .s128, .setKey key size _ => key = none ∨ size < 16 ∨ 48 < size
  | .par .s64, .setKey key size _ => key = none ∨ size < 8 ∨ 24 < size
  | .ctr .s128, .setTweakedKey key size _ => key = none ∨ size < 16 ∨ 32 < size
  | .ctr .s64, .setTweakedKey key size _ => key = none ∨ size < 8 ∨ 16 < size
  | .ctr .s128, .setTweak _ size => size < 1 ∨ 16 < size
  | .ctr .s64, .setTweak _ size => size < 1 ∨ 8 < size
  | .ctr .mantis, .setTweak _ size => size ≠ 8
  | .ctr .mantis, .mantisSetKey key size rounds _ => key = none ∨ size ≠ 16 ∨ rounds < 5 ∨ 8 < rounds
  | .par .mantis, .mantisSetKey key size rounds _ => key = none ∨ size ≠ 16 ∨ rounds < 5 ∨ 8 < rounds
  | .ctr f, .setCounter _ size => f.bs < size
  | .ctr _, .encrypt input => input = none
  | .par f, .parCrypt _ input => f ≠ .mantis ∧ input.length % f.bs ≠ 0
  | .par .mantis, .mantisParCrypt _ input => input.length % 8 ≠ 0
  | _, _ => False

def sizesOK : Call → Prop
  | .setKey _ size _ => size < 2 ^ 32
  | .setTweakedKey _ size _ => size < 2 ^ 32
  | .setTweak _ size => size < 2 ^ 32
  | .mantisSetKey _ size rounds _ => size < 2 ^ 32 ∧ rounds < 2 ^ 32
  | _ => True

theorem skinnyCtrSetKey_zero (bd : Build) (w : World) (f : Family) (h : Handle) (key : Option Bytes) (size : Nat) (junk : UInt8)
    (hwf : WFH w (.ctr f) h)
    (hg : (f = .s128 ∧ guards128.setKey false key.isNone (BitVec.ofNat 32 size) = true) ∨
          (f = .s64 ∧ guards64.setKey false key.isNone (BitVec.ofNat 32 size) = true)) :
    skinnyCtrSetKey bd f w (some h) key size junk = .ok (w, 0) := by
  unfold skinnyCtrSetKey
  apply ctrUpdate_zero _ _ _ _ _ _ hwf
  right
  intro be v hv
  rcases hg with ⟨rfl, hg⟩ | ⟨rfl, hg⟩ <;> obtain ⟨kt, st, rfl⟩ := shape_sctr hv <;> simp [setKey_zero _ _ _ _ _ _ _ _ hg]

theorem skinnyCtrSetTweakedKey_zero (bd : Build) (w : World) (f : Family) (h : Handle) (key : Option Bytes) (size : Nat) (junk : UInt8)
    (hwf : WFH w (.ctr f) h)
    (hg : (f = .s128 ∧ guards128.setTweakedKey false key.isNone (BitVec.ofNat 32 size) = true) ∨
          (f = .s64 ∧ guards64.setTweakedKey false key.isNone (BitVec.ofNat 32 size) = true)) :
    skinnyCtrSetTweakedKey bd f w (some h) key size junk = .ok (w, 0) := by
  unfold skinnyCtrSetTweakedKey
  apply ctrUpdate_zero _ _ _ _ _ _ hwf
  right
  intro be v hv
  rcases hg with ⟨rfl, hg⟩ | ⟨rfl, hg⟩ <;> obtain ⟨kt, st, rfl⟩ := shape_sctr hv <;> simp [setTweakedKey_zero _ _ _ _ _ _ _ _ hg]

theorem skinnyCtrSetTweak_zero (bd : Build) (w : World) (f : Family) (h : Handle) (tweak : Option Bytes) (size : Nat)
    (hwf : WFH w (.ctr f) h)
    (hg : (f = .s128 ∧ guards128.setTweak false tweak.isNone (BitVec.ofNat 32 size) = true) ∨
          (f = .s64 ∧ guards64.setTweak false tweak.isNone (BitVec.ofNat 32 size) = true)) :
    skinnyCtrSetTweak bd f w (some h) tweak size = .ok (w, 0) := by
  unfold skinnyCtrSetTweak
  apply ctrUpdate_zero _ _ _ _ _ _ hwf
  right
  intro be v hv
  rcases hg with ⟨rfl, hg⟩ | ⟨rfl, hg⟩ <;> obtain ⟨kt, st, rfl⟩ := shape_sctr hv <;>
    simp [setTweak_zero _ _ _ _ _ _ hg, bind, Except.bind, pure, Except.pure]

theorem mantisCtrSetKey_zero (bd : Build) (w : World) (h : Handle) (key : Option Bytes) (size rounds : Nat)
    (hwf : WFH w (.ctr .mantis) h) (hg : mantisSetKeyGuard false key.isNone size rounds 1 = true) :
    mantisCtrSetKey bd w (some h) key size rounds = .ok (w, 0) := by
  unfold mantisCtrSetKey
  apply ctrUpdate_zero _ _ _ _ _ _ hwf
  right
  intro be v hv
  obtain ⟨ks, st, rfl⟩ := shape_mctr hv
  simp [mantisSetKey, hg]

theorem mantisCtrSetTweak_zero (bd : Build) (w : World) (h : Handle) (tweak : Option Bytes) (size : Nat)
    (hwf : WFH w (.ctr .mantis) h) (hg : mantisSetTweakGuard false tweak.isNone size = true) :
    mantisCtrSetTweak bd w (some h) tweak size = .ok (w, 0) := by
  unfold mantisCtrSetTweak
  apply ctrUpdate_zero _ _ _ _ _ _ hwf
  right
  intro be v hv
  obtain ⟨ks, st, rfl⟩ := shape_mctr hv
  simp [mantisSetTweak, hg]

theorem C14_invalid_arguments_ctr (bd : Build) (w : World) (f : Family) (h : Handle) (c : Call) (hwf : WFH w (.ctr f) h)
    (hbad : InvalidArgs (.ctr f) c) (hsz : sizesOK c) :
    ∃ out, callStep bd w (.ctr f) (some h) c = .ok (w, some h, out) ∧ out.ret = some 0 ∧ out.data = [] := by
  cases c with
  | init p => cases f <;> exact absurd hbad id
  | cleanup => cases f <;> exact absurd hbad id
  | swap => cases f <;> exact absurd hbad id
  | parCrypt e i => cases f <;> exact absurd hbad id
  | mantisParCrypt t i => cases f <;> exact absurd hbad id
  | setCounter counter size =>
    have hb : f.bs < size := by cases f <;> exact hbad
    obtain ⟨hv, hc, hp⟩ := hwf
    cases hvt : h.vtable with
    | garbage => exact absurd hvt hv
    | null => exact ⟨_, by simp [callStep, ctrSetCounter, dispatch, hvt, bind, Except.bind, pure, Except.pure]; rfl, rfl, rfl⟩
    | be b => exact ⟨_, by simp [callStep, ctrSetCounter, dispatch, hvt, hb, bind, Except.bind, pure, Except.pure]; rfl, rfl, rfl⟩
  | encrypt input =>
    have hb : input = none := by cases f <;> exact hbad
    subst hb
    obtain ⟨hv, hc, hp⟩ := hwf
    cases hvt : h.vtable with
    | garbage => exact absurd hvt hv
    | null => exact ⟨_, by simp [callStep, ctrEncryptCall, dispatch, hvt, bind, Except.bind, pure, Except.pure]; rfl, rfl, rfl⟩
    | be b => exact ⟨_, by simp [callStep, ctrEncryptCall, dispatch, hvt, bind, Except.bind, pure, Except.pure]; rfl, rfl, rfl⟩
  | setKey key size junk =>
    cases f with
    | mantis => exact absurd hbad id
    | s128 =>
      have hg : guards128.setKey false key.isNone (BitVec.ofNat 32 size) = true := by
        rw [guard128_setKey _ _ hsz]
        rcases hbad with h1 | h1 | h1 <;> simp [h1]
      exact ⟨_, by simp [callStep, skinnyCtrSetKey_zero bd w .s128 h key size junk hwf (Or.inl ⟨rfl, hg⟩), bind, Except.bind, pure, Except.pure]; rfl, rfl, rfl⟩
    | s64 =>
      have hg : guards64.setKey false key.isNone (BitVec.ofNat 32 size) = true := by
        rw [guard64_setKey _ _ hsz]
        rcases hbad with h1 | h1 | h1 <;> simp [h1]
      exact ⟨_, by simp [callStep, skinnyCtrSetKey_zero bd w .s64 h key size junk hwf (Or.inr ⟨rfl, hg⟩), bind, Except.bind, pure, Except.pure]; rfl, rfl, rfl⟩
  | setTweakedKey key size junk =>
    cases f with
    | mantis => exact absurd hbad id
    | s128 =>
      have hg : guards128.setTweakedKey false key.isNone (BitVec.ofNat 32 size) = true := by
        rw [guard128_setTweakedKey _ _ hsz]
        rcases hbad with h1 | h1 | h1 <;> simp [h1]
      exact ⟨_, by simp [callStep, skinnyCtrSetTweakedKey_zero bd w .s128 h key size junk hwf (Or.inl ⟨rfl, hg⟩), bind, Except.bind, pure, Except.pure]; rfl, rfl, rfl⟩
    | s64 =>
      have hg : guards64.setTweakedKey false key.isNone (BitVec.ofNat 32 size) = true := by
        rw [guard64_setTweakedKey _ _ hsz]
        rcases hbad with h1 | h1 | h1 <;> simp [h1]
      exact ⟨_, by simp [callStep, skinnyCtrSetTweakedKey_zero bd w .s64 h key size junk hwf (Or.inr ⟨rfl, hg⟩), bind, Except.bind, pure, Except.pure]; rfl, rfl, rfl⟩
  | setTweak tweak size =>
    cases f with
    | mantis =>
      have hg : mantisSetTweakGuard false tweak.isNone size = true := by
        rw [guardMantis_setTweak _ _ hsz]
        have hb : size ≠ 8 := hbad
        simp [hb]
      exact ⟨_, by simp [callStep, mantisCtrSetTweak_zero bd w h tweak size hwf hg, bind, Except.bind, pure, Except.pure]; rfl, rfl, rfl⟩
    | s128 =>
      have hg : guards128.setTweak false tweak.isNone (BitVec.ofNat 32 size) = true := by
        rw [guard128_setTweak _ _ hsz]
        rcases hbad with h1 | h1 <;> simp [h1]
      exact ⟨_, by simp [callStep, skinnyCtrSetTweak_zero bd w .s128 h tweak size hwf (Or.inl ⟨rfl, hg⟩), bind, Except.bind, pure, Except.pure]; rfl, rfl, rfl⟩
    | s64 =>
      have hg : guards64.setTweak false tweak.isNone (BitVec.ofNat 32 size) = true := by
        rw [guard64_setTweak _ _ hsz]
        rcases hbad with h1 | h1 <;> simp [h1]
      exact ⟨_, by simp [callStep, skinnyCtrSetTweak_zero bd w .s64 h tweak size hwf (Or.inr ⟨rfl, hg⟩), bind, Except.bind, pure, Except.pure]; rfl, rfl, rfl⟩
  | mantisSetKey key size rounds mode =>
    cases f with
    | s128 => exact absurd hbad id
    | s64 => exact absurd hbad id
    | mantis =>
      have hg : mantisSetKeyGuard false key.isNone size rounds 1 = true := by
        rw [guardMantis_setKey _ _ _ _ hsz.1 hsz.2]
        rcases hbad with h1 | h1 | h1 | h1 <;> simp [h1]
      exact ⟨_, by simp [callStep, mantisCtrSetKey_zero bd w h key size rounds hwf hg, bind, Except.bind, pure, Except.pure]; rfl, rfl, rfl⟩


theorem C14_invalid_arguments_par (bd : Build) (w : World) (f : Family) (h : Handle) (c : Call) (hwf : WFH w (.par f) h)
    (hbad : InvalidArgs (.par f) c) (hsz : sizesOK c) :
    ∃ out, callStep bd w (.par f) (some h) c = .ok (w, some h, out) ∧ out.ret = some 0 ∧ out.data = [] := by
  obtain ⟨hv, hc, hp⟩ := hwf
  cases c with
  | init p => cases f <;> exact absurd hbad id
  | cleanup => cases f <;> exact absurd hbad id
  | swap => cases f <;> exact absurd hbad id
  | setTweakedKey k s j => cases f <;> exact absurd hbad id
  | setTweak k s => cases f <;> exact absurd hbad id
  | setCounter k s => cases f <;> exact absurd hbad id
  | encrypt i => cases f <;> exact absurd hbad id
  | setKey key size junk =>
    cases f with
    | mantis => exact absurd hbad id
    | s128 =>
      have hg : guards128.setKey false key.isNone (BitVec.ofNat 32 size) = true := by
        rw [guard128_setKey _ _ hsz]
        rcases hbad with h1 | h1 | h1 <;> simp [h1]
      cases hcx : h.ctx with
      | garbage => exact absurd hcx hc
      | null => exact ⟨_, by simp [callStep, skinnyParSetKey, hcx, bind, Except.bind, pure, Except.pure]; rfl, rfl, rfl⟩
      | ptr id =>
        obtain ⟨a, ha, hlive, hshape, _⟩ := hp id hcx
        obtain ⟨ks, hval⟩ := shape_skey hshape
        exact ⟨_, by simp [callStep, skinnyParSetKey, hcx, bind, Except.bind, pure, Except.pure, deref_ok w id a ha hlive, hval, setKey_zero _ _ _ _ _ _ _ _ hg]; rfl, rfl, rfl⟩
    | s64 =>
      have hg : guards64.setKey false key.isNone (BitVec.ofNat 32 size) = true := by
        rw [guard64_setKey _ _ hsz]
        rcases hbad with h1 | h1 | h1 <;> simp [h1]
      cases hcx : h.ctx with
      | garbage => exact absurd hcx hc
      | null => exact ⟨_, by simp [callStep, skinnyParSetKey, hcx, bind, Except.bind, pure, Except.pure]; rfl, rfl, rfl⟩
      | ptr id =>
        obtain ⟨a, ha, hlive, hshape, _⟩ := hp id hcx
        obtain ⟨ks, hval⟩ := shape_skey hshape
        exact ⟨_, by simp [callStep, skinnyParSetKey, hcx, bind, Except.bind, pure, Except.pure, deref_ok w id a ha hlive, hval, setKey_zero _ _ _ _ _ _ _ _ hg]; rfl, rfl, rfl⟩
  | mantisSetKey key size rounds mode =>
    cases f with
    | s128 => exact absurd hbad id
    | s64 => exact absurd hbad id
    | mantis =>
      have hg : mantisSetKeyGuard false key.isNone size rounds mode = true := by
        rw [guardMantis_setKey _ _ _ _ hsz.1 hsz.2]
        rcases hbad with h1 | h1 | h1 | h1 <;> simp [h1]
      cases hcx : h.ctx with
      | garbage => exact absurd hcx hc
      | null => exact ⟨_, by simp [callStep, mantisParSetKey, hcx, bind, Except.bind, pure, Except.pure]; rfl, rfl, rfl⟩
      | ptr id =>
        obtain ⟨a, ha, hlive, hshape, _⟩ := hp id hcx
        obtain ⟨ks, hval⟩ := shape_mkey hshape
        exact ⟨_, by simp [callStep, mantisParSetKey, hcx, bind, Except.bind, pure, Except.pure, deref_ok w id a ha hlive, hval, mantisSetKey, hg]; rfl, rfl, rfl⟩
  | parCrypt enc input =>
    have hb : f ≠ .mantis ∧ input.length % f.bs ≠ 0 := by cases f <;> exact hbad
    cases hcx : h.ctx with
    | garbage => exact absurd hcx hc
    | null => exact ⟨_, by simp [callStep, skinnyParCrypt, hcx, hb.1, bind, Except.bind, pure, Except.pure]; rfl, rfl, rfl⟩
    | ptr id => exact ⟨_, by simp [callStep, skinnyParCrypt, hcx, hb.1, hb.2, bind, Except.bind, pure, Except.pure]; rfl, rfl, rfl⟩
  | mantisParCrypt tweaks input =>
    cases f with
    | s128 => exact absurd hbad id
    | s64 => exact absurd hbad id
    | mantis =>
      have hb : input.length % 8 ≠ 0 := hbad
      cases hcx : h.ctx with
      | garbage => exact absurd hcx hc
      | null => exact ⟨_, by simp [callStep, mantisParCrypt, hcx, bind, Except.bind, pure, Except.pure]; rfl, rfl, rfl⟩
      | ptr id => exact ⟨_, by simp [callStep, mantisParCrypt, hcx, hb, bind, Except.bind, pure, Except.pure]; rfl, rfl, rfl⟩

/-! ## C15: life cycle -/

/-- in every reachable state the live contexts are exactly the ones owned by an object, each by
exactly one: nothing is leaked, nothing is shared -/
theorem C15_balanced (bd : Build) (hg : Good bd) (s : Sys) (hr : Reachable bd s) (id : Nat) :
    (∃ a, s.w.heap[id]? = some a ∧ a.live = true) ↔ ∃ (j : Nat) (o : Obj), s.objs[j]? = some o ∧ o.h.ctx = .ptr id := by
  have hinv := reachable_inv bd hg s hr
  constructor
  · rintro ⟨a, ha, hl⟩; exact hinv.noleak id a ha hl
  · rintro ⟨j, o, ho, hc⟩
    obtain ⟨a, ha, hl, _⟩ := hinv.owned_lt ho hc
    exact ⟨a, ha, hl⟩

theorem C15_single_owner (bd : Build) (hg : Good bd) (s : Sys) (hr : Reachable bd s) (i j : Nat) (oi oj : Obj) (id : Nat)
    (hi : s.objs[i]? = some oi) (hj : s.objs[j]? = some oj) (ci : oi.h.ctx = .ptr id) (cj : oj.h.ctx = .ptr id) : i = j :=
  (reachable_inv bd hg s hr).inj i j oi oj id hi hj ci cj

/-- once every object has been cleaned up, no context is live -/
theorem C15_all_released (bd : Build) (hg : Good bd) (s : Sys) (hr : Reachable bd s)
    (hclean : ∀ (j : Nat) (o : Obj), s.objs[j]? = some o → ∀ id, o.h.ctx ≠ .ptr id) (id : Nat) (a : Alloc) (ha : s.w.heap[id]? = some a) :
    a.live = false := by
  cases hl : a.live with
  | false => rfl
  | true =>
    obtain ⟨j, o, ho, hc⟩ := (reachable_inv bd hg s hr).noleak id a ha hl
    exact absurd hc (hclean j o ho id)

/-- `cleanup` releases the object's context (exactly that one) and leaves the object inert;
on an object that owns nothing it does nothing to the heap -/
theorem C15_cleanup (bd : Build) (hg : Good bd) (s : Sys) (hinv : Inv s) (j : Nat) (o : Obj) (ho : s.objs[j]? = some o) (hr : o.ready = true) :
    ∃ s' o', stepSys bd s (.call o.kind (some j) .cleanup) = .ok (s', {}) ∧ s'.objs[j]? = some o' ∧ Inert o'.h ∧
      (∀ id, o.h.ctx = .ptr id → ∃ a', s'.w.heap[id]? = some a' ∧ a'.live = false ∧ a'.zeroAtFree = true) ∧
      (∀ id, o.h.ctx ≠ .ptr id → s'.w.heap[id]? = s.w.heap[id]?) := by
  have hwf := hinv.wf j o ho hr
  rcases cleanup_spec bd hg.wipe s.w o.kind o.h hwf with ⟨id, a, st, cl, hid, ha, hsz, h', hcall, hc', hv', _⟩ | ⟨hown, h', hcall, hc', hv'⟩
  · refine ⟨_, _, step_call_eq bd s o.kind j _ o ho _ _ _ hcall, updObjs_self _ _ _ _ o ho, ⟨hc', hv'⟩, ?_, ?_⟩
    · intro id' hid'
      rw [hid] at hid'; cases hid'
      refine ⟨{ a with live := false, val := .wiped, zeroAtFree := decide (cl ≥ st) }, ?_, rfl, by simpa using hsz⟩
      show (s.w.wipeAndFree id st cl).heap[id]? = _
      rw [wipe_get, ha]; simp
    · intro id' hne
      show (s.w.wipeAndFree id st cl).heap[id']? = _
      rw [wipe_get]
      have : ¬ id = id' := by intro e; subst e; exact hne hid
      cases s.w.heap[id']? <;> simp [this]
  · refine ⟨_, _, step_call_eq bd s o.kind j _ o ho _ _ _ hcall, updObjs_self _ _ _ _ o ho, ⟨hc', hv'⟩, ?_, fun _ _ => rfl⟩
    intro id hid; exact absurd hid (hown id)

/-- cleanup is idempotent: on an inert object it changes nothing in the world -/
theorem C15_cleanup_idempotent (bd : Build) (s : Sys) (j : Nat) (o : Obj) (ho : s.objs[j]? = some o) (hin : Inert o.h) :
    ∃ s', stepSys bd s (.call o.kind (some j) .cleanup) = .ok (s', {}) ∧ s'.w = s.w ∧ ∃ o', s'.objs[j]? = some o' ∧ Inert o'.h := by
  obtain ⟨s', out, hstep, hw, hret, hdata, o', ho', hin'⟩ := C14_inert_object bd s j o .cleanup ho hin rfl
  have : out = {} := by
    obtain ⟨h', out', hcall, _⟩ := inert_call bd s.w o.kind o.h hin .cleanup rfl
    have := step_call_eq bd s o.kind j .cleanup o ho s.w h' out' hcall
    rw [this] at hstep
    cases hstep
    cases o with | mk k h r => cases k <;> simp [callStep, bind, Except.bind, pure, Except.pure] at hcall <;> (split at hcall <;> simp at hcall <;> exact hcall.2.2.symm)
  subst this
  exact ⟨s', hstep, hw, o', ho', hin'⟩


/-! ## C16: allocation failure inside `init` -/

/-- if the allocation fails, `init` returns 0, the heap is exactly what it was (nothing leaked),
and the object is left zeroed - whatever its memory held before the call -/
theorem C16_alloc_failure (bd : Build) (hg : Good bd) (s : Sys) (j : Nat) (o : Obj) (p : Probes) (ho : s.objs[j]? = some o)
    (hf : s.w.failAt = some s.w.allocCount) :
    ∃ s' o', stepSys bd s (.call o.kind (some j) (.init p)) = .ok (s', { ret := some 0 }) ∧ s'.w.heap = s.w.heap ∧
      s'.objs[j]? = some o' ∧ o'.h = zeroHandle ∧ o'.ready = true ∧ Inert o'.h := by
  rcases init_spec bd hg.clears s.w o.kind o.h p with ⟨_, w', hcall, hheap, _⟩ | ⟨hnf, _⟩
  · exact ⟨_, _, step_call_eq bd s o.kind j _ o ho w' _ _ hcall, hheap, updObjs_self _ _ _ _ o ho, rfl, by simp [Call.isInit],
      ⟨rfl, by simp [zeroHandle]⟩⟩
  · exact absurd hf hnf

/-- otherwise `init` returns 1 and the object owns a fresh live context -/
theorem C16_init_success (bd : Build) (hg : Good bd) (s : Sys) (j : Nat) (o : Obj) (p : Probes) (ho : s.objs[j]? = some o)
    (hf : s.w.failAt ≠ some s.w.allocCount) :
    ∃ s' o' a, stepSys bd s (.call o.kind (some j) (.init p)) = .ok (s', { ret := some 1 }) ∧ s'.w.heap = s.w.heap ++ [a] ∧ a.live = true ∧
      s'.objs[j]? = some o' ∧ o'.h.ctx = .ptr s.w.heap.length ∧ o'.ready = true := by
  rcases init_spec bd hg.clears s.w o.kind o.h p with ⟨hf', _⟩ | ⟨_, w', a, vt, ps, hcall, hheap, hl, _, _, _⟩
  · exact absurd hf' hf
  · exact ⟨_, _, a, step_call_eq bd s o.kind j _ o ho w' _ _ hcall, hheap, hl, updObjs_self _ _ _ _ o ho, rfl, by simp [Call.isInit]⟩

/-- after a failed `init` every other call reports failure and `cleanup` is safe: the object is
inert (`C14_inert_object`, `C15_cleanup_idempotent`), in every reachable state (`C14_no_fault`) -/
theorem C16_then_inert (bd : Build) (s : Sys) (j : Nat) (o : Obj) (c : Call) (ho : s.objs[j]? = some o) (hz : o.h = zeroHandle)
    (hi : c.isInit = false) :
    ∃ s' out, stepSys bd s (.call o.kind (some j) c) = .ok (s', out) ∧ s'.w = s.w ∧ (out.ret = none ∨ out.ret = some 0) := by
  obtain ⟨s', out, h1, h2, h3, _⟩ := C14_inert_object bd s j o c ho ⟨by rw [hz]; rfl, by rw [hz]; simp [zeroHandle]⟩ hi
  exact ⟨s', out, h1, h2, h3⟩

/-! ## C17: every freed block was wiped -/

/-- in every reachable state, every block that has been handed back to the allocator was all-zero
at that moment (the cleanse covers at least the bytes requested for the context:
`factsSizes_wipeOK`, from the sizes in the current source) -/
theorem C17_wiped_before_free (bd : Build) (hg : Good bd) (s : Sys) (hr : Reachable bd s) (id : Nat) (a : Alloc)
    (ha : s.w.heap[id]? = some a) (hl : a.live = false) : a.zeroAtFree = true :=
  (reachable_inv bd hg s hr).wiped id a ha hl

/-- the build the checks run against: the facts read off the current source satisfy `Good` -/
theorem C17_source_sizes (t : Tag) : Good (goodBuild t) := goodBuild_good t

/-! ## the hypotheses are satisfiable: a concrete history -/

example : ∃ s outs, runSys (goodBuild .c64le) {}
    [.declare (.ctr .s128) { vtable := .garbage, ctx := .garbage }, .call (.ctr .s128) (some 0) (.init ⟨true, true⟩),
     .call (.ctr .s128) (some 0) .cleanup] = .ok (s, outs) := by
  apply C14_no_fault _ (goodBuild_good _)
  refine .cons _ _ _ (by intro id; simp) fun s1 _ h1 => ?_
  cases h1
  refine .cons _ _ _ ⟨_, rfl, rfl, by intro id; simp⟩ fun s2 _ h2 => ?_
  simp [stepSys, callStep, ctrInit, World.alloc, bind, Except.bind, pure, Except.pure] at h2
  obtain ⟨rfl, -⟩ := h2
  refine .cons _ _ _ ⟨_, rfl, rfl, by simp [Call.isInit]⟩ fun s3 _ _ => .nil _

end SkinnyVerif.Properties
