/-
C07 / C06 (parallel ECB), the executable vector model of the driver (`Impl/VecExec.lean`).

The model driver executes, for a parallel-ECB object served by a vector back end, the batch functions assembled from the
*translated vector code* inside the two loops of `skinnyN_parallel_ecb_encrypt/decrypt`.  This file shows

* `exec_*_eq`: the assemblies the driver runs are the ones the theorems of `C07V.lean` / `C07L.lean` are about, for both
  load / store configurations (word-wise, and the byte-wise paths of `SKINNY_UNALIGNED = 0`);
* `C07X_exec_is_ecb`: for every schedule, direction, back end, load / store configuration and byte count, what the driver
  prints is block-by-block ECB under the scalar block function - so the driver's vector model and its block-by-block
  model are the same function, and a difference between the compiled vector code and the driver is a difference from
  block-by-block ECB (C07) and from the generic back end (C06).
-/
import SkinnyVerif.Impl.VecExec
import SkinnyVerif.Properties.C07L
import SkinnyVerif.Properties.C07ML
import SkinnyVerif.Api.VecExecM

namespace SkinnyVerif.Properties
open SkinnyVerif SkinnyVerif.Gen SkinnyVerif.Impl SkinnyVerif.Lemmas SkinnyVerif.Spec.Modes SkinnyVerif.Spec.Skinny
open SkinnyVerif.Impl.VecExec

theorem exec_laneRows4 : @VecExec.laneRows4 = @laneRows := rfl
theorem exec_laneRows8 : @VecExec.laneRows8 = @Lemmas.laneRows8 := rfl
theorem exec_laneRowsH : @VecExec.laneRowsH = @Lemmas.laneRowsH := rfl
theorem exec_mapRows4 : @VecExec.mapRows4 = @mapRows := rfl
theorem exec_mapRows8 : @VecExec.mapRows8 = @Properties.mapRows8 := rfl
theorem exec_mapRowsH : @VecExec.mapRowsH = @Properties.mapRowsH := rfl

theorem exec_batched : @VecExec.batched = @parallelBatched := by
  funext G psize F bs fuel input
  induction fuel generalizing input with
  | zero => rfl
  | succ n ih => simp only [VecExec.batched, parallelBatched, ih]

theorem exec_up64 (ks : KeySched 64) : VecExec.up ks = schedUp ks := rfl
theorem exec_down64 (ks : KeySched 64) : VecExec.down ks = schedDown ks := rfl
theorem exec_up32 (ks : KeySched 32) : VecExec.up ks = schedUp64 ks := rfl
theorem exec_down32 (ks : KeySched 32) : VecExec.down ks = schedDown64 ks := rfl

/-- the driver's batch functions are the ones of `C07V.lean`, in either load / store configuration -/
theorem exec_enc4_eq (u : Bool) (s : List (BitVec 64)) (x : BitVec 512) : enc4 u s x = vecEnc4 s x := by
  cases u
  · have h := C12_vec_unaligned_paths.1 s x
    simp only [vecEnc4u] at h
    simp only [enc4, exec_mapRows4, Bool.false_eq_true, ↓reduceIte]
    exact h
  · simp only [enc4, vecEnc4, exec_mapRows4, ↓reduceIte]
theorem exec_dec4_eq (u : Bool) (s : List (BitVec 64)) (x : BitVec 512) : dec4 u s x = vecDec4 s x := by
  cases u
  · have h := C12_vec_unaligned_paths.2.1 s x
    simp only [vecDec4u] at h
    simp only [dec4, exec_mapRows4, Bool.false_eq_true, ↓reduceIte]
    exact h
  · simp only [dec4, vecDec4, exec_mapRows4, ↓reduceIte]
theorem exec_enc8_eq (u : Bool) (s : List (BitVec 64)) (x : BitVec 1024) : enc8 u s x = vecEnc8 s x := by
  cases u
  · have h := C12_vec_unaligned_paths.2.2.1 s x
    simp only [vecEnc8u] at h
    simp only [enc8, exec_mapRows8, Bool.false_eq_true, ↓reduceIte]
    exact h
  · simp only [enc8, vecEnc8, exec_mapRows8, ↓reduceIte]
theorem exec_dec8_eq (u : Bool) (s : List (BitVec 64)) (x : BitVec 1024) : dec8 u s x = vecDec8 s x := by
  cases u
  · have h := C12_vec_unaligned_paths.2.2.2.1 s x
    simp only [vecDec8u] at h
    simp only [dec8, exec_mapRows8, Bool.false_eq_true, ↓reduceIte]
    exact h
  · simp only [dec8, vecDec8, exec_mapRows8, ↓reduceIte]
theorem exec_enc8h_eq (u : Bool) (s : List (BitVec 32)) (x : BitVec 512) : enc8h u s x = vecEnc8h s x := by
  cases u
  · have h := C12_vec_unaligned_paths.2.2.2.2.1 s x
    simp only [vecEnc8hu] at h
    simp only [enc8h, exec_mapRowsH, Bool.false_eq_true, ↓reduceIte]
    exact h
  · simp only [enc8h, vecEnc8h, exec_mapRowsH, ↓reduceIte]
theorem exec_dec8h_eq (u : Bool) (s : List (BitVec 32)) (x : BitVec 512) : dec8h u s x = vecDec8h s x := by
  cases u
  · have h := C12_vec_unaligned_paths.2.2.2.2.2 s x
    simp only [vecDec8hu] at h
    simp only [dec8h, exec_mapRowsH, Bool.false_eq_true, ↓reduceIte]
    exact h
  · simp only [dec8h, vecDec8h, exec_mapRowsH, ↓reduceIte]

theorem parallelBlocks_is_ecb (F : Bytes → Bytes) (bs : Nat) (hbs : 0 < bs) (input : Bytes) :
    parallelBlocks F bs (input.length + 1) input = ecb F bs input :=
  parallelBlocks_eq_ecb F bs (by omega) input

/-- **what the model driver prints for a parallel-ECB call on any back end is block-by-block ECB** under the scalar block
function of the 32-bit-word configuration (which C01 / C12 show equal to every other configuration's and to the
specification), for every schedule, direction, load / store configuration and byte count -/
theorem C07X_exec_is_ecb (be : Backend) (u enc : Bool) (ks : KeySched 64) (ks64 : KeySched 32) (input : Bytes) :
    par128 be u enc ks (if enc then ecbEncrypt (ops128 .c32le) p128 ks else ecbDecrypt (ops128 .c32le) p128 ks) input =
      ecb (if enc then ecbEncrypt (ops128 .c32le) p128 ks else ecbDecrypt (ops128 .c32le) p128 ks) 16 input ∧
    par64 be u enc ks64 (if enc then ecbEncrypt (ops64 .c32le) p64 ks64 else ecbDecrypt (ops64 .c32le) p64 ks64) input =
      ecb (if enc then ecbEncrypt (ops64 .c32le) p64 ks64 else ecbDecrypt (ops64 .c32le) p64 ks64) 8 input := by
  have h4 := C07_vec128_whole_buffer ks input
  have h8 := C07_vec256_vec64_whole_buffer ks ks64 input
  constructor
  · cases be <;> cases enc <;>
      simp only [par128, exec_batched, exec_enc4_eq, exec_dec4_eq, exec_enc8_eq, exec_dec8_eq, exec_up64, exec_down64,
        ↓reduceIte, Bool.false_eq_true]
    · exact parallelBlocks_is_ecb _ 16 (by decide) input
    · exact parallelBlocks_is_ecb _ 16 (by decide) input
    · exact h4.2
    · exact h4.1
    · exact h8.2.1
    · exact h8.1
  · cases be <;> cases enc <;>
      simp only [par64, exec_batched, exec_enc8h_eq, exec_dec8h_eq, exec_up32, exec_down32, ↓reduceIte, Bool.false_eq_true]
    · exact parallelBlocks_is_ecb _ 8 (by decide) input
    · exact parallelBlocks_is_ecb _ 8 (by decide) input
    · exact h8.2.2.2
    · exact h8.2.2.1
    · exact h8.2.2.2
    · exact h8.2.2.1

/-! ## Mantis -/

open SkinnyVerif.Api SkinnyVerif.Api.VecExecM in
theorem exec_mantis8 : @VecExecM.mantis8 = @Lemmas.vecMantis8 := rfl

open SkinnyVerif.Api SkinnyVerif.Api.VecExecM in
theorem exec_batchedM : @VecExecM.batchedM = @mantisBatched := by
  funext G o ks fuel tw inp
  induction fuel generalizing tw inp with
  | zero => rfl
  | succ n ih => simp only [VecExecM.batchedM, mantisBatched, ih]

open SkinnyVerif.Api SkinnyVerif.Api.VecExecM in
/-- **what the model driver prints for a Mantis parallel call on any back end** is block `i` under tweak `i` through the
scalar `mantis_ecb_crypt_tweaked` (64-bit-word pieces; C02 / C12 relate them to the other configurations and to the
specification), for every schedule, round count, tweak array and byte count -/
theorem C07X_mantis_exec (be : Backend) (ks : MantisKey) (tw inp : Bytes) :
    parMantis be (opsMantis .c64le) ks tw inp = mantisParBlocks (opsMantis .c64le) ks (inp.length + 1) tw inp := by
  have h := C07_mantis_whole_buffer ks tw inp
  cases be <;> simp only [parMantis, exec_batchedM, exec_mantis8]
  · exact h
  · exact h

end SkinnyVerif.Properties
