/-
C11 -- results are a function of API inputs only.

In the model every automatic variable or heap region that a C function does not fully assign
before use is an explicit `junk` parameter, and the prior contents of the caller's schedule
object are the `ks0` / `tk0` arguments.  The theorems say: return values and all block results
are independent of both (they equal an expression in which neither occurs).  That no generated
piece reads uninitialised local memory at all is re-checked on every run from the translator's
output (`usesJunk = false`, `junk_reads` empty).
-/
import SkinnyVerif.Properties.C12

namespace SkinnyVerif.Properties
open SkinnyVerif SkinnyVerif.Spec.Skinny SkinnyVerif.Impl SkinnyVerif.Lemmas SkinnyVerif.Gen

/-- same configuration, different junk and different prior schedule contents: same results -/
theorem C11_skinny128 (t : Tag) (ks1 ks2 : KeySched 64) (h1 : 56 ≤ ks1.sched.length) (h2 : 56 ≤ ks2.sched.length)
    (key : Bytes) (size : Nat) (hsz : size < 2 ^ 32) (hkey : size ≤ key.length ∨ size > 48) (j2 j3 j2' j3' : BitVec 128) (blk : Bytes) :
    let r1 := setKey (ops128 t) guards128 p128 ks1 (some key) size j2 j3
    let r2 := setKey (ops128 t) guards128 p128 ks2 (some key) size j2' j3'
    r1.1 = r2.1 ∧ (r1.1 = 1 → ecbEncrypt (ops128 t) p128 r1.2 blk = ecbEncrypt (ops128 t) p128 r2.2 blk ∧
                             ecbDecrypt (ops128 t) p128 r1.2 blk = ecbDecrypt (ops128 t) p128 r2.2 blk) :=
  C12_skinny128 t t ks1 ks2 h1 h2 key size hsz hkey j2 j3 j2' j3' blk

theorem C11_skinny64 (t : Tag) (ks1 ks2 : KeySched 32) (h1 : 40 ≤ ks1.sched.length) (h2 : 40 ≤ ks2.sched.length)
    (key : Bytes) (size : Nat) (hsz : size < 2 ^ 32) (hkey : size ≤ key.length ∨ size > 24) (j2 j3 j2' j3' : BitVec 64) (blk : Bytes) :
    let r1 := setKey (ops64 t) guards64 p64 ks1 (some key) size j2 j3
    let r2 := setKey (ops64 t) guards64 p64 ks2 (some key) size j2' j3'
    r1.1 = r2.1 ∧ (r1.1 = 1 → ecbEncrypt (ops64 t) p64 r1.2 blk = ecbEncrypt (ops64 t) p64 r2.2 blk ∧
                             ecbDecrypt (ops64 t) p64 r1.2 blk = ecbDecrypt (ops64 t) p64 r2.2 blk) :=
  C12_skinny64 t t ks1 ks2 h1 h2 key size hsz hkey j2 j3 j2' j3' blk

theorem C11_tweaked128 (t : Tag) (tk1 tk2 : TweakedKey 64) (h1 : 56 ≤ tk1.ks.sched.length) (h2 : 56 ≤ tk2.ks.sched.length)
    (key : Bytes) (size : Nat) (hs1 : 16 ≤ size) (hs2 : size ≤ 32) (hkey : size ≤ key.length) (j2 j3 j2' j3' : BitVec 128)
    (hist : List TweakArg) (hv : ∀ a ∈ hist, validTweak 16 a) (blk : Bytes) :
    ecbEncrypt (ops128 t) p128 (applyTweaks128 t (setTweakedKey (ops128 t) guards128 p128 tk1 (some key) size j2 j3).2 hist).ks blk =
    ecbEncrypt (ops128 t) p128 (applyTweaks128 t (setTweakedKey (ops128 t) guards128 p128 tk2 (some key) size j2' j3').2 hist).ks blk :=
  C12_tweaked128 t t tk1 tk2 h1 h2 key size hs1 hs2 hkey j2 j3 j2' j3' hist hv blk

/-- the generated partial-word loaders of every configuration take no uninitialised input -/
theorem C11_no_junk_in_loaders :
    skinny128_set_tk2_load_64le.usesJunk = false ∧ skinny128_set_tk3_load_64le.usesJunk = false ∧
    skinny128_set_tk2_load_32le.usesJunk = false ∧ skinny128_set_tk3_load_32le.usesJunk = false ∧
    skinny128_set_tk2_load_64be.usesJunk = false ∧ skinny128_set_tk3_load_64be.usesJunk = false ∧
    skinny128_set_tk2_load_32be.usesJunk = false ∧ skinny128_set_tk3_load_32be.usesJunk = false ∧
    skinny64_set_tk2_load_64le.usesJunk = false ∧ skinny64_set_tk3_load_64le.usesJunk = false ∧
    skinny64_set_tk2_load_32le.usesJunk = false ∧ skinny64_set_tk3_load_32le.usesJunk = false ∧
    skinny64_set_tk2_load_64be.usesJunk = false ∧ skinny64_set_tk3_load_64be.usesJunk = false ∧
    skinny64_set_tk2_load_32be.usesJunk = false ∧ skinny64_set_tk3_load_32be.usesJunk = false := by
  decide

end SkinnyVerif.Properties
