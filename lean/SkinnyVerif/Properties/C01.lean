/-
C01 -- SKINNY-64/128 block encryption and decryption conform to the specification.

For every build configuration (`Tag`), every key of a primary size and every block, the model of
`skinnyN_set_key` followed by `skinnyN_ecb_encrypt` / `_decrypt` returns exactly what
`Spec/Skinny.lean` defines, on byte strings.  The bit-level steps of the model are the
definitions regenerated from the C sources on every run; the proof composes their lemmas by
induction over the rounds (no bound on the number of rounds anywhere).
-/
import SkinnyVerif.Lemmas.AllConfigs
import SkinnyVerif.Lemmas.ByteCells
import SkinnyVerif.Lemmas.GuardLemmas

namespace SkinnyVerif.Properties
open SkinnyVerif SkinnyVerif.Spec.Skinny SkinnyVerif.Impl SkinnyVerif.Lemmas

theorem tweakey128_eq (key : Bytes) : tweakey128 key = implTweakey abs128 16 key := by
  simp only [tweakey128, implTweakey, abs128, cellsOfBytes8_eq]
  rw [image_take 128 key 16 (by decide), image_take 128 (key.drop 16) 16 (by decide), image_take 128 (key.drop 32) 16 (by decide)]

theorem tweakey64_eq (key : Bytes) : tweakey64 key = implTweakey abs64 8 key := by
  simp only [tweakey64, implTweakey, abs64, cellsOfBytes4_eq]
  rw [image_take 64 key 8 (by decide), image_take 64 (key.drop 8) 8 (by decide), image_take 64 (key.drop 16) 8 (by decide)]

/-- SKINNY-128, all three key sizes, every configuration, both directions -/
theorem C01_skinny128 (t : Tag) (ks0 : KeySched 64) (hlen : 56 ≤ ks0.sched.length) (key blk : Bytes)
    (hk : key.length = 16 ∨ key.length = 32 ∨ key.length = 48) (j2 j3 : BitVec 128) :
    (setKey (ops128 t) guards128 p128 ks0 (some key) key.length j2 j3).1 = 1 ∧
    ecbEncrypt (ops128 t) p128 (setKey (ops128 t) guards128 p128 ks0 (some key) key.length j2 j3).2 blk = encrypt128 key blk ∧
    ecbDecrypt (ops128 t) p128 (setKey (ops128 t) guards128 p128 ks0 (some key) key.length j2 j3).2 blk = decrypt128 key blk := by
  have hg : guards128.setKey false (some key).isNone (BitVec.ofNat 32 key.length) = false := by
    rw [guard128_setKey _ _ (by omega)]; rcases hk with h | h | h <;> simp [h]
  simp only [setKey, hg, Bool.false_eq_true, if_false]
  have hks := setKeyInner_plain abs128 (ops128 t) (opsG128 t) absOK128 p128 (by decide) ks0 key key.length j2 j3
    (by simp [p128]; omega) (by simp [p128]; omega) (by decide) (by simp [p128]; omega) (by simp [p128]; omega) (by simp [p128]; omega)
  obtain ⟨hkeyed, hrounds, _⟩ := hks
  rw [List.take_length] at hkeyed
  have hr : (setKeyInner (ops128 t) p128 ks0 key key.length none j2 j3).rounds = rounds128 (key.length / 16) := by
    rw [hrounds]
    rcases hk with h | h | h <;> simp [h, p128, rounds128]
  refine ⟨by trivial, ?_, ?_⟩
  · rw [ecbEncrypt_eq, encrypt128, show p128.bs = 16 from rfl, ← bytesOfCells8_cells8]
    congr 1
    have := encrypt_refines abs128 (ops128 t) (opsG128 t) _ _ _ hkeyed (image 128 blk)
    simp only [abs128] at this
    rw [this, hr, tweakey128_eq, cellsOfBytes8_eq]
    rfl
  · rw [ecbDecrypt_eq, decrypt128, show p128.bs = 16 from rfl, ← bytesOfCells8_cells8]
    congr 1
    have := decrypt_refines abs128 (ops128 t) (opsG128 t) _ _ _ hkeyed (image 128 blk)
    simp only [abs128] at this
    rw [this, hr, tweakey128_eq, cellsOfBytes8_eq]
    rfl

/-- SKINNY-64, all three key sizes, every configuration, both directions -/
theorem C01_skinny64 (t : Tag) (ks0 : KeySched 32) (hlen : 40 ≤ ks0.sched.length) (key blk : Bytes)
    (hk : key.length = 8 ∨ key.length = 16 ∨ key.length = 24) (j2 j3 : BitVec 64) :
    (setKey (ops64 t) guards64 p64 ks0 (some key) key.length j2 j3).1 = 1 ∧
    ecbEncrypt (ops64 t) p64 (setKey (ops64 t) guards64 p64 ks0 (some key) key.length j2 j3).2 blk = encrypt64 key blk ∧
    ecbDecrypt (ops64 t) p64 (setKey (ops64 t) guards64 p64 ks0 (some key) key.length j2 j3).2 blk = decrypt64 key blk := by
  have hg : guards64.setKey false (some key).isNone (BitVec.ofNat 32 key.length) = false := by
    rw [guard64_setKey _ _ (by omega)]; rcases hk with h | h | h <;> simp [h]
  simp only [setKey, hg, Bool.false_eq_true, if_false]
  have hks := setKeyInner_plain abs64 (ops64 t) (opsG64 t) absOK64 p64 (by decide) ks0 key key.length j2 j3
    (by simp [p64]; omega) (by simp [p64]; omega) (by decide) (by simp [p64]; omega) (by simp [p64]; omega) (by simp [p64]; omega)
  obtain ⟨hkeyed, hrounds, _⟩ := hks
  rw [List.take_length] at hkeyed
  have hr : (setKeyInner (ops64 t) p64 ks0 key key.length none j2 j3).rounds = rounds64 (key.length / 8) := by
    rw [hrounds]
    rcases hk with h | h | h <;> simp [h, p64, rounds64]
  refine ⟨by trivial, ?_, ?_⟩
  · rw [ecbEncrypt_eq, encrypt64, show p64.bs = 8 from rfl, ← bytesOfCells4_cells4]
    congr 1
    have := encrypt_refines abs64 (ops64 t) (opsG64 t) _ _ _ hkeyed (image 64 blk)
    simp only [abs64] at this
    rw [this, hr, tweakey64_eq, cellsOfBytes4_eq]
    rfl
  · rw [ecbDecrypt_eq, decrypt64, show p64.bs = 8 from rfl, ← bytesOfCells4_cells4]
    congr 1
    have := decrypt_refines abs64 (ops64 t) (opsG64 t) _ _ _ hkeyed (image 64 blk)
    simp only [abs64] at this
    rw [this, hr, tweakey64_eq, cellsOfBytes4_eq]
    rfl

/-- non-vacuity: the hypotheses are met by the paper's SKINNY-128-384 vector and a zeroed schedule -/
example : (56 ≤ (List.replicate 56 (0 : BitVec 64)).length) ∧ ((List.replicate 48 (7 : UInt8)).length = 16 ∨ (List.replicate 48 (7 : UInt8)).length = 32 ∨ (List.replicate 48 (7 : UInt8)).length = 48) := by
  simp

end SkinnyVerif.Properties
