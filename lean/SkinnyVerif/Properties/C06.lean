/-
C05 (final form) and C06 (CTR part).

* `C05_stream`: after `set_counter` (any counter length 0..bs, or NULL), any sequence of `encrypt`
  calls returns, call by call, the CTR transformation of the concatenated input under the
  specification's counter arithmetic -- for the generic back end (`B = 1`) and the vector back
  ends (`B` lanes, lazy lane increments), for any block function `E` with `bs`-byte output.
* `C05_init`: a freshly initialised context is in the state `set_counter(NULL, 0)` produces.
* `C05_involution`: applying the same stream twice restores the data.
* `C06_ctr`: for every sequence of counter sets, data calls and key/tweak changes (which may
  come in the middle of a stream), the generic and the vector back end return identical outputs.
-/
import SkinnyVerif.Properties.C05
import SkinnyVerif.Lemmas.CounterSpec

namespace SkinnyVerif.Properties
open SkinnyVerif SkinnyVerif.Impl SkinnyVerif.Lemmas SkinnyVerif.Spec.Modes

/-! ## big-endian round trip for counter blocks -/

theorem natBE_beNat (n : Nat) (c : Bytes) (hc : c.length = n) : natBE n (beNat c) = c := by
  simp only [natBE, beNat]
  apply List.ext_getElem
  · simp [hc]
  · intro i h1 h2
    have hi : i < n := by simpa using h1
    simp only [List.getElem_map, List.getElem_range]
    rw [leNat_byte c.reverse (n - 1 - i)]
    have hrev : c.reverse.getD (n - 1 - i) 0 = c[i] := by
      rw [List.getD_eq_getElem?_getD, List.getElem?_reverse (by rw [hc]; omega)]
      have : c.length - 1 - (n - 1 - i) = i := by omega
      rw [this, List.getElem?_eq_getElem h2]; rfl
    rw [hrev]
    simp

theorem beNat_lt (c : Bytes) : beNat c < 2 ^ (8 * c.length) := by
  have := leNat_lt c.reverse
  simpa [beNat] using this

theorem ctrBlock_zero_eq (bs : Nat) (c : Bytes) (hc : c.length = bs) : ctrBlock bs c 0 = c := by
  have hlt := beNat_lt c
  rw [hc] at hlt
  simp [ctrBlock, Nat.mod_eq_of_lt hlt, natBE_beNat bs c hc]

theorem counterBlock_length (bs : Nat) (counter : Option Bytes) (size : Nat) (hs : size ≤ bs) :
    (counterBlock bs counter size).length = bs := by
  cases counter with
  | none => simp [counterBlock, zeros]
  | some c =>
    simp only [counterBlock, padLeft, zeros, List.length_append, List.length_replicate, List.length_take]
    omega

theorem counterBlock_eq_spec (bs : Nat) (counter : Option Bytes) (size : Nat) :
    counterBlock bs counter size = counterOf bs (counter.map (·.take size)) := by
  cases counter <;> rfl

section
variable (E : Bytes → Bytes) (bs B : Nat) (lazy : Bool)
variable (hbs : 0 < bs) (hB : 0 < B) (hB8 : B ≤ 8) (hE : ∀ x, (E x).length = bs) (hspec : IncSpec bs)
include hbs hB hB8 hE hspec

/-- C05: the whole stream after a counter set, however it is cut into calls -/
theorem C05_stream (st0 : CtrState) (counter : Option Bytes) (size : Nat) (hs : size ≤ bs) (calls : List Bytes) :
    let run := calls.foldl (fun (acc : CtrState × List Bytes) data =>
        let r := ctrEncrypt E bs B lazy acc.1 data; (r.1, acc.2 ++ [r.2])) (st0.setCounter bs B counter size, [])
    run.2.flatten = Spec.Modes.ctr E bs (counterOf bs (counter.map (·.take size))) 0 calls.flatten ∧
    List.map List.length run.2 = List.map List.length calls := by
  have hc0 := ctrBlock_zero_eq bs _ (counterBlock_length bs counter size hs)
  have hinv := setCounter_inv bs B lazy hbs hB hB8 hspec E st0 counter size hc0
  have := C05_calls E bs B lazy hbs hB hB8 hE hspec (counterBlock bs counter size) calls _ 0 hinv
  rw [counterBlock_eq_spec] at this
  exact ⟨this.1, this.2.1⟩

omit hE in
/-- C05: a freshly initialised context (all-zero counter; the vector `init`s stagger their lanes
through `set_counter(NULL, 0)`) is at position 0 of the stream that starts at the zero counter -/
theorem C05_init (E' : Bytes → Bytes) :
    CInv E' bs B lazy (ctrBlock bs (zeros bs)) 0 0 ((CtrState.init bs B).setCounter bs B none 0) := by
  have h := setCounter_inv bs B lazy hbs hB hB8 hspec E' (CtrState.init bs B) none 0
    (ctrBlock_zero_eq bs _ (counterBlock_length bs none 0 (Nat.zero_le _)))
  exact h

end

/-- C05: the CTR transformation at a fixed stream position is an involution -/
theorem C05_involution (E : Bytes → Bytes) (bs : Nat) (c : Bytes) (off : Nat) (data : Bytes) :
    Spec.Modes.ctr E bs c off (Spec.Modes.ctr E bs c off data) = data := by
  simp only [Spec.Modes.ctr, xorBytes, List.length_zipWith, keystream, List.length_map, List.length_range, Nat.min_self]
  apply List.ext_getElem
  · simp
  · intro i h1 h2
    simp only [List.getElem_zipWith]
    rw [UInt8.xor_assoc, UInt8.xor_self, UInt8.xor_zero]

/-! ## C06: the back ends are observationally identical -/

/-- operations on a keyed CTR context (after argument validation) -/
inductive CtrOp
  | setCounter (counter : Option Bytes) (size : Nat)
  | encrypt (data : Bytes)
  | rekey (E' : Bytes → Bytes)      -- set_key / set_tweaked_key / set_tweak: a new block function, keystream reset

/-- a context of one back end: the current block function and the counter state -/
structure Ctx where
  E : Bytes → Bytes
  st : CtrState

def stepCtx (bs B : Nat) (lazy : Bool) (c : Ctx) : CtrOp → Ctx × Option Bytes
  | .setCounter counter size => ({ c with st := c.st.setCounter bs B counter size }, none)
  | .encrypt data => let r := ctrEncrypt c.E bs B lazy c.st data; ({ c with st := r.1 }, some r.2)
  | .rekey E' => ({ E := E', st := c.st.reset bs B lazy }, none)

def runCtx (bs B : Nat) (lazy : Bool) (c : Ctx) (ops : List CtrOp) : List (Option Bytes) :=
  (ops.foldl (fun (acc : Ctx × List (Option Bytes)) op => let r := stepCtx bs B lazy acc.1 op; (r.1, acc.2 ++ [r.2])) (c, [])).2

/-- valid counter lengths and block functions with `bs`-byte output -/
def opOK (bs : Nat) : CtrOp → Prop
  | .setCounter _ size => size ≤ bs
  | .encrypt _ => True
  | .rekey E' => ∀ x, (E' x).length = bs

/-- simulation relation between a generic context and a vector context -/
def Sim (bs B : Nat) (g v : Ctx) : Prop :=
  g.E = v.E ∧ (∀ x, (g.E x).length = bs) ∧
  ∃ c b0 n, CInv g.E bs 1 false (ctrBlock bs c) b0 n g.st ∧ CInv v.E bs B true (ctrBlock bs c) b0 n v.st

theorem C06_step (bs B : Nat) (hbs : 0 < bs) (hB : 0 < B) (hB8 : B ≤ 8) (hspec : IncSpec bs)
    (g v : Ctx) (hsim : Sim bs B g v) (op : CtrOp) (hop : opOK bs op) :
    (stepCtx bs 1 false g op).2 = (stepCtx bs B true v op).2 ∧ Sim bs B (stepCtx bs 1 false g op).1 (stepCtx bs B true v op).1 := by
  obtain ⟨hEeq, hElen, c, b0, n, hg, hv⟩ := hsim
  cases op with
  | setCounter counter size =>
    have hc0 := ctrBlock_zero_eq bs _ (counterBlock_length bs counter size hop)
    refine ⟨rfl, hEeq, hElen, counterBlock bs counter size, 0, 0, ?_, ?_⟩
    · exact setCounter_inv bs 1 false hbs (by decide) (by decide) hspec g.E g.st counter size hc0
    · exact setCounter_inv bs B true hbs hB hB8 hspec v.E v.st counter size hc0
  | encrypt data =>
    have hincG : ∀ k i, k ≤ 1 → incCounter bs k (ctrBlock bs c i) = ctrBlock bs c (i + k) :=
      fun k i hk => inc_family bs 1 hbs (by decide) (by decide) hspec c k i hk
    have hincV : ∀ k i, k ≤ B → incCounter bs k (ctrBlock bs c i) = ctrBlock bs c (i + k) :=
      fun k i hk => inc_family bs B hbs hB hB8 hspec c k i hk
    have hElenV : ∀ x, (v.E x).length = bs := by rw [← hEeq]; exact hElen
    obtain ⟨og, ig⟩ := ctrEncrypt_spec (incCounter bs) g.E bs 1 false (ctrBlock bs c) hbs (by decide) hElen hincG b0 n g.st data hg
    obtain ⟨ov, iv⟩ := ctrEncrypt_spec (incCounter bs) v.E bs B true (ctrBlock bs c) hbs hB hElenV hincV b0 n v.st data hv
    refine ⟨?_, hEeq, hElen, c, b0, n + data.length, ig, iv⟩
    show some (ctrEncrypt g.E bs 1 false g.st data).2 = some (ctrEncrypt v.E bs B true v.st data).2
    rw [hEeq] at og
    simp only [ctrEncrypt, hEeq, og, ov]
  | rekey E' =>
    refine ⟨rfl, rfl, hop, c, b0 + (n + bs - 1) / bs, 0, ?_, ?_⟩
    · exact reset_inv g.E bs 1 false (ctrBlock bs c) hbs (by decide) E' b0 n g.st (fun _ => rfl) hg
    · exact reset_inv v.E bs B true (ctrBlock bs c) hbs hB E' b0 n v.st (fun h => by cases h) hv

/-- C06 (CTR): identical outputs for every sequence of operations -/
theorem C06_ctr (bs B : Nat) (hbs : 0 < bs) (hB : 0 < B) (hB8 : B ≤ 8) (hspec : IncSpec bs)
    (ops : List CtrOp) (hops : ∀ op ∈ ops, opOK bs op) (g v : Ctx) (hsim : Sim bs B g v) :
    runCtx bs 1 false g ops = runCtx bs B true v ops := by
  suffices h : ∀ (ops : List CtrOp) (g v : Ctx) (outs : List (Option Bytes)), (∀ op ∈ ops, opOK bs op) → Sim bs B g v →
      (ops.foldl (fun (acc : Ctx × List (Option Bytes)) op => let r := stepCtx bs 1 false acc.1 op; (r.1, acc.2 ++ [r.2])) (g, outs)).2 =
      (ops.foldl (fun (acc : Ctx × List (Option Bytes)) op => let r := stepCtx bs B true acc.1 op; (r.1, acc.2 ++ [r.2])) (v, outs)).2 by
    exact h ops g v [] hops hsim
  intro ops
  induction ops with
  | nil => intro g v outs _ _; rfl
  | cons op rest ih =>
    intro g v outs hops hsim
    obtain ⟨ho, hs⟩ := C06_step bs B hbs hB hB8 hspec g v hsim op (hops op (by simp))
    simp only [List.foldl_cons]
    rw [ho]
    exact ih _ _ _ (fun o h => hops o (by simp [h])) hs

/-- fresh contexts of the two back ends are related (init = zeroed context + `set_counter(NULL, 0)`) -/
theorem C06_init (bs B : Nat) (hbs : 0 < bs) (hB : 0 < B) (hB8 : B ≤ 8) (hspec : IncSpec bs) (E : Bytes → Bytes)
    (hE : ∀ x, (E x).length = bs) :
    Sim bs B ⟨E, (CtrState.init bs 1).setCounter bs 1 none 0⟩ ⟨E, (CtrState.init bs B).setCounter bs B none 0⟩ :=
  ⟨rfl, hE, zeros bs, 0, 0, C05_init bs 1 false hbs (by decide) (by decide) hspec E, C05_init bs B true hbs hB hB8 hspec E⟩

/-- the instances for the library's block sizes -/
theorem C05_C06_instances : IncSpec 16 ∧ IncSpec 8 := ⟨incSpec16, incSpec8⟩

end SkinnyVerif.Properties
