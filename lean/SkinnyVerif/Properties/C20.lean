/-
C20: the example tools.  Hand model of the three tools' processing loops (`examples/skinny-ctr.c`,
`skinny-ecb.c`, `skinny-tweak.c`): the input file is read in 1024-byte chunks (`fread` on a regular
file: every chunk full except possibly the last), each chunk is processed in place and written.
Theorems: the CTR tool's output is the library's CTR transformation of the whole file (any
chunking is invisible, C05) and applying it twice restores the file; the ECB tool's output is
the block-by-block encryption of all whole blocks, the trailing partial block dropped; the tweak
tool processes block `i` under tweak `T + i` (big-endian increment of the tweak bytes).
Option parsing, file handling and exit codes are outside the model: they are observed by the
tools oracle only (`tools/tools_drv.py`).
-/
import SkinnyVerif.Properties.C06
import SkinnyVerif.Properties.C07
import SkinnyVerif.Lemmas.Counter

namespace SkinnyVerif.Properties
open SkinnyVerif SkinnyVerif.Impl SkinnyVerif.Lemmas SkinnyVerif.Spec.Modes

/-- `fread(buffer, 1, 1024, f)` until end of file on a regular file -/
def readChunks (n : Nat) : Nat → Bytes → List Bytes
  | 0, _ => []
  | fuel + 1, data => if data.length = 0 then [] else data.take n :: readChunks n fuel (data.drop n)

theorem readChunks_flatten (n : Nat) (hn : 0 < n) (fuel : Nat) (data : Bytes) (hf : data.length < fuel) :
    (readChunks n fuel data).flatten = data := by
  induction fuel generalizing data with
  | zero => omega
  | succ k ih =>
    simp only [readChunks]
    by_cases h0 : data.length = 0
    · simp [h0, List.eq_nil_of_length_eq_zero h0]
    · simp only [h0, if_false, List.flatten_cons]
      rw [ih (data.drop n) (by rw [List.length_drop]; omega), List.take_append_drop]

/-! ## skinny-ctr -/

/-- the CTR tool: one `ctr_encrypt` call per chunk on one CTR object -/
def toolCtr (E : Bytes → Bytes) (bs B : Nat) (lazy : Bool) (st0 : CtrState) (counter : Option Bytes) (size : Nat) (file : Bytes) : Bytes :=
  ((readChunks 1024 (file.length + 1) file).foldl (fun (acc : CtrState × List Bytes) data =>
      let r := ctrEncrypt E bs B lazy acc.1 data; (r.1, acc.2 ++ [r.2])) (st0.setCounter bs B counter size, [])).2.flatten

theorem C20_ctr_tool (E : Bytes → Bytes) (bs B : Nat) (lazy : Bool) (hbs : 0 < bs) (hB : 0 < B) (hB8 : B ≤ 8) (hE : ∀ x, (E x).length = bs)
    (hspec : IncSpec bs) (st0 : CtrState) (counter : Option Bytes) (size : Nat) (hs : size ≤ bs) (file : Bytes) :
    toolCtr E bs B lazy st0 counter size file = Spec.Modes.ctr E bs (counterOf bs (counter.map (·.take size))) 0 file := by
  have h := (C05_stream E bs B lazy hbs hB hB8 hE hspec st0 counter size hs (readChunks 1024 (file.length + 1) file)).1
  rw [readChunks_flatten 1024 (by decide) _ file (by omega)] at h
  exact h

/-- running the CTR tool on its own output (same key and counter) restores the file -/
theorem C20_ctr_tool_roundtrip (E : Bytes → Bytes) (bs B : Nat) (lazy : Bool) (hbs : 0 < bs) (hB : 0 < B) (hB8 : B ≤ 8) (hE : ∀ x, (E x).length = bs)
    (hspec : IncSpec bs) (st0 st1 : CtrState) (counter : Option Bytes) (size : Nat) (hs : size ≤ bs) (file : Bytes) :
    toolCtr E bs B lazy st1 counter size (toolCtr E bs B lazy st0 counter size file) = file := by
  rw [C20_ctr_tool E bs B lazy hbs hB hB8 hE hspec st0 counter size hs, C20_ctr_tool E bs B lazy hbs hB hB8 hE hspec st1 counter size hs]
  exact C05_involution E bs _ 0 file

/-! ## skinny-ecb -/

/-- the ECB tool: per chunk, the whole blocks of the chunk -/
def toolEcb (F : Bytes → Bytes) (bs : Nat) (file : Bytes) : Bytes :=
  ((readChunks 1024 (file.length + 1) file).map fun c => parallelBlocks F bs (c.length + 1) (c.take (c.length - c.length % bs))).flatten

theorem chunks_fuel (bs : Nat) (hbs : 0 < bs) (f1 f2 : Nat) (data : Bytes) (h1 : data.length < f1) (h2 : data.length < f2) :
    chunks bs f1 data = chunks bs f2 data := by
  induction f1 generalizing f2 data with
  | zero => omega
  | succ k ih =>
    cases f2 with
    | zero => omega
    | succ j =>
      have hbs' : bs ≠ 0 := by omega
      simp only [chunks, hbs', or_false]
      by_cases hlt : data.length < bs
      · simp [hlt]
      · simp only [hlt, if_false]
        congr 1
        exact ih j (data.drop bs) (by rw [List.length_drop]; omega) (by rw [List.length_drop]; omega)

theorem chunks_short (bs fuel : Nat) (r : Bytes) (hr : r.length < bs) : chunks bs fuel r = [] := by
  cases fuel with
  | zero => rfl
  | succ k => simp [chunks, hr]

theorem chunks_append (bs : Nat) (hbs : 0 < bs) (q : Nat) (a b : Bytes) (f : Nat) (ha : a.length = q * bs) (hf : (a ++ b).length < f) :
    chunks bs f (a ++ b) = chunks bs f a ++ chunks bs f b := by
  induction q generalizing a f with
  | zero =>
    have : a = [] := by simpa using ha
    subst this
    cases f with
    | zero => simp at hf
    | succ k => simp [chunks, hbs]
  | succ n ih =>
    cases f with
    | zero => omega
    | succ k =>
      have hbs' : bs ≠ 0 := by omega
      have hlen : bs ≤ a.length := by rw [ha, Nat.succ_mul]; omega
      have h1 : ¬ (a ++ b).length < bs := by simp; omega
      have h2 : ¬ a.length < bs := by omega
      have hab : (a ++ b).length = a.length + b.length := by simp
      have hb : chunks bs (k + 1) b = chunks bs k b := chunks_fuel bs hbs (k + 1) k b (by omega) (by omega)
      rw [hb]
      simp only [chunks, hbs', or_false, h1, h2, if_false, List.cons_append]
      rw [List.take_append_of_le_length hlen, List.drop_append_of_le_length hlen]
      congr 1
      have hk : (a.drop bs).length = n * bs := by rw [List.length_drop, ha, Nat.succ_mul]; omega
      exact ih (a.drop bs) k hk (by simp [List.length_drop]; omega)

/-- dropping the trailing partial block does not change the blocks -/
theorem chunks_take_whole (bs : Nat) (hbs : 0 < bs) (fuel : Nat) (c : Bytes) (hf : c.length < fuel) :
    chunks bs fuel (c.take (c.length - c.length % bs)) = chunks bs fuel c := by
  have hdm := Nat.div_add_mod c.length bs
  have hmod := Nat.mod_lt c.length hbs
  have hsplit : c = c.take (c.length - c.length % bs) ++ c.drop (c.length - c.length % bs) := (List.take_append_drop _ c).symm
  have hlenA : (c.take (c.length - c.length % bs)).length = (c.length / bs) * bs := by
    rw [List.length_take, Nat.mul_comm]; omega
  conv => rhs; rw [hsplit]
  rw [chunks_append bs hbs (c.length / bs) _ _ fuel hlenA (by rw [← hsplit]; exact hf),
    chunks_short bs fuel (c.drop _) (by rw [List.length_drop]; omega), List.append_nil]

theorem C20_ecb_tool (F : Bytes → Bytes) (bs : Nat) (hbs : 0 < bs) (h1024 : 1024 % bs = 0) (file : Bytes) :
    toolEcb F bs file = ecb F bs file := by
  simp only [toolEcb, ecb]
  suffices h : ∀ (fuel : Nat) (data : Bytes), data.length < fuel →
      ((readChunks 1024 fuel data).map fun c => parallelBlocks F bs (c.length + 1) (c.take (c.length - c.length % bs))).flatten =
        (chunks bs (data.length + 1) data).flatMap F from h _ file (by omega)
  intro fuel
  induction fuel with
  | zero => intro data h; omega
  | succ k ih =>
    intro data hf
    simp only [readChunks]
    by_cases h0 : data.length = 0
    · have : data = [] := List.eq_nil_of_length_eq_zero h0
      subst this
      simp [chunks, hbs]
    · simp only [h0, if_false, List.map_cons, List.flatten_cons]
      rw [ih (data.drop 1024) (by rw [List.length_drop]; omega)]
      rw [parallelBlocks_eq F bs (by omega)]
      have hfu : chunks bs ((data.take 1024).length + 1) ((data.take 1024).take ((data.take 1024).length - (data.take 1024).length % bs)) =
          chunks bs (data.length + 1) (data.take 1024) := by
        rw [chunks_take_whole bs hbs _ _ (by omega)]
        exact chunks_fuel bs hbs _ _ _ (by omega) (by rw [List.length_take]; omega)
      rw [hfu]
      by_cases hge : 1024 ≤ data.length
      · -- a full chunk: a whole number of blocks
        have hl : (data.take 1024).length = (1024 / bs) * bs := by
          rw [List.length_take, Nat.min_eq_left hge, Nat.mul_comm]
          have := Nat.div_add_mod 1024 bs; omega
        have := chunks_append bs hbs (1024 / bs) (data.take 1024) (data.drop 1024) (data.length + 1) hl (by rw [List.take_append_drop]; omega)
        rw [List.take_append_drop] at this
        rw [this, List.flatMap_append]
        congr 2
        exact chunks_fuel bs hbs _ _ _ (by omega) (by rw [List.length_drop]; omega)
      · -- the last, short chunk
        have ht : data.take 1024 = data := List.take_of_length_le (by omega)
        have hd : data.drop 1024 = [] := List.drop_of_length_le (by omega)
        rw [ht, hd]
        simp [chunks, hbs]

/-! ## skinny-tweak -/

/-- `increment_tweak`: add one to the big-endian number in the tweak bytes (carry chain from the last byte) -/
def incTweak (t : Bytes) : Bytes := ((addChain (t.reverse.map (·.toNat)) 1).reverse).map UInt8.ofNat

/-- the tweak tool on the whole blocks of one chunk sequence: block `i` under the `i`-th tweak -/
def toolTweakBlocks (E : Bytes → Bytes → Bytes) (bs : Nat) : Nat → Bytes → Bytes → Bytes
  | 0, _, _ => []
  | fuel + 1, tw, data => if data.length < bs then [] else E tw (data.take bs) ++ toolTweakBlocks E bs fuel (incTweak tw) (data.drop bs)

theorem incTweak_length (t : Bytes) : (incTweak t).length = t.length := by
  simp [incTweak, addChain_length]

theorem valLE_eq_leNat (l : Bytes) : valLE (l.map (·.toNat)) = leNat l := by
  induction l with
  | nil => rfl
  | cons x xs ih => simp [valLE, leNat, ih]

theorem map_ofNat_toNat (l : List Nat) (h : ∀ b ∈ l, b < 256) : (l.map UInt8.ofNat).map (·.toNat) = l := by
  induction l with
  | nil => rfl
  | cons x xs ih =>
    have hx : x < 256 := h x (by simp)
    simp only [List.map_cons, ih (fun b hb => h b (by simp [hb]))]
    congr 1
    simp [UInt8.toNat_ofNat, Nat.mod_eq_of_lt hx]

/-- the tweak after one increment is the big-endian number plus one, modulo 2^(8·length) -/
theorem C20_increment_tweak (t : Bytes) : beNat (incTweak t) = (beNat t + 1) % 256 ^ t.length := by
  simp only [beNat, incTweak, ← List.map_reverse, List.reverse_reverse]
  rw [← valLE_eq_leNat, map_ofNat_toNat _ (addChain_lt _ _), addChain_val, valLE_eq_leNat]
  simp

/-- `n` increments -/
def incTweakN : Nat → Bytes → Bytes
  | 0, t => t
  | n + 1, t => incTweakN n (incTweak t)

theorem incTweakN_length (n : Nat) (t : Bytes) : (incTweakN n t).length = t.length := by
  induction n generalizing t with
  | zero => rfl
  | succ k ih => rw [incTweakN, ih, incTweak_length]

/-- the tweak used for block `i` is `T + i` (mod 2^(8·tweak_size)) -/
theorem C20_tweak_of_block (t : Bytes) (i : Nat) : beNat (incTweakN i t) = (beNat t + i) % 256 ^ t.length := by
  induction i generalizing t with
  | zero =>
    have := leNat_lt t.reverse
    simp only [List.length_reverse] at this
    simp only [incTweakN, Nat.add_zero]
    rw [Nat.mod_eq_of_lt]
    simpa [beNat, Nat.pow_mul] using this
  | succ n ih =>
    rw [incTweakN, ih (incTweak t), C20_increment_tweak, incTweak_length, Nat.mod_add_mod]
    congr 1; omega

/-- the tweak tool processes block `i` under the tweak incremented `i` times -/
theorem C20_tweak_tool (E : Bytes → Bytes → Bytes) (bs : Nat) (hbs : 0 < bs) (fuel : Nat) (tw data : Bytes) (i : Nat)
    (hi : (i + 1) * bs ≤ data.length) (hf : data.length < fuel * bs) (hE : ∀ t x, (E t x).length = bs) :
    ((toolTweakBlocks E bs fuel tw data).drop (i * bs)).take bs = E (incTweakN i tw) ((data.drop (i * bs)).take bs) := by
  induction i generalizing fuel tw data with
  | zero =>
    cases fuel with
    | zero => simp at hf
    | succ k =>
      have h1 : ¬ data.length < bs := by omega
      simp only [toolTweakBlocks, h1, if_false, Nat.zero_mul, List.drop_zero, incTweakN]
      rw [List.take_append_of_le_length (by rw [hE]; exact Nat.le_refl _)]
      rw [List.take_of_length_le (by rw [hE]; exact Nat.le_refl _)]
  | succ n ih =>
    cases fuel with
    | zero => simp at hf
    | succ k =>
      have h1 : ¬ data.length < bs := by
        have : bs ≤ (n + 1 + 1) * bs := Nat.le_mul_of_pos_left bs (by omega)
        omega
      simp only [toolTweakBlocks, h1, if_false, incTweakN]
      have hsplit : (n + 1) * bs = bs + n * bs := by rw [Nat.succ_mul]; omega
      rw [hsplit, ← List.drop_drop, List.drop_append_of_le_length (by rw [hE]; exact Nat.le_refl _)]
      have hnil : (E tw (data.take bs)).drop bs = [] := List.drop_of_length_le (by rw [hE]; exact Nat.le_refl _)
      rw [hnil, List.nil_append]
      have := ih k (incTweak tw) (data.drop bs) (by rw [List.length_drop]; rw [Nat.succ_mul] at hi; omega)
        (by rw [List.length_drop]; rw [Nat.succ_mul] at hf; omega)
      rw [this, List.drop_drop]

end SkinnyVerif.Properties
