/-
C03, MANTIS part: for every round count, key, tweak and block, decryption inverts encryption and
vice versa - at the level of the specification, and therefore (C02) for the implementation
through `mantis_ecb_crypt`, `mantis_ecb_crypt_tweaked` and after `mantis_swap_modes`.
-/
import SkinnyVerif.Properties.C02
import SkinnyVerif.Properties.C03
import SkinnyVerif.Lemmas.MantisInverse

namespace SkinnyVerif.Properties
open SkinnyVerif SkinnyVerif.Impl SkinnyVerif.Lemmas SkinnyVerif.Spec.Skinny SkinnyVerif.Spec.Mantis

/-- the key material of the opposite direction -/
def flipKeys (k : Keys) : Keys := { k0 := k.k0', k0' := k.k0, k1 := xorCells k.k1 (cellsOfWord alpha) }

theorem flipKeys_flipKeys (k : Keys) : flipKeys (flipKeys k) = k := by
  cases k; simp [flipKeys, xorCells_alpha_twice]

/-- the tweak component of the backward half does not depend on key or state -/
theorem bwd_fold_tw (k k' : Cells 4) (l : List Nat) (a a' : Cells 4 × Cells 4) (h : a.2 = a'.2) :
    (l.foldl (fun (c : Cells 4 × Cells 4) i => bwdRound k i c.1 c.2) a).2 =
    (l.foldl (fun (c : Cells 4 × Cells 4) i => bwdRound k' i c.1 c.2) a').2 := by
  induction l generalizing a a' with
  | nil => exact h
  | cons i rest ih =>
    simp only [List.foldl_cons]
    apply ih
    simp only [bwdRound, h]

theorem xor3_cancel (m a b c : Cells 4) : xorCells (xorCells m (xorCells a (xorCells b c))) (xorCells a (xorCells b c)) = m :=
  xorCells_cancel4 _ _

/-- **the reflection structure**: running the cipher under the flipped keys undoes it -/
theorem crypt_flip (r : Nat) (k : Keys) (t m : Cells 4) : crypt r (flipKeys k) t (crypt r k t m) = m := by
  rw [crypt_proj r (flipKeys k), crypt_proj r k]
  simp only [flipKeys, xorCells_alpha_twice]
  -- name the intermediate states of the encryption
  generalize hs0 : xorCells m (xorCells k.k0 (xorCells k.k1 t)) = s0
  generalize hA : (List.range r).foldl (fun (a : Cells 4 × Cells 4) i => fwdRound k.k1 i a.1 a.2) (s0, t) = A
  generalize hB : (List.range r).reverse.foldl (fun (a : Cells 4 × Cells 4) i => bwdRound (xorCells k.k1 (cellsOfWord alpha)) i a.1 a.2)
      (subCells Sb0 (mulColumns MM (subCells Sb0 A.1)), A.2) = B
  -- the tweak is back at its start after the backward half
  have hBt : B.2 = t := by
    rw [← hB]
    have h1 := bwd_fold_tw (xorCells k.k1 (cellsOfWord alpha)) k.k1 (List.range r).reverse
      (subCells Sb0 (mulColumns MM (subCells Sb0 A.1)), A.2) A rfl
    rw [h1, ← hA, bwd_fold_fwd_fold]
  -- undo the output whitening
  rw [hBt, xor3_cancel]
  -- the forward half of the second run undoes the backward half of the first
  have hFB : (List.range r).foldl (fun (a : Cells 4 × Cells 4) i => fwdRound (xorCells k.k1 (cellsOfWord alpha)) i a.1 a.2) (B.1, t) =
      (subCells Sb0 (mulColumns MM (subCells Sb0 A.1)), A.2) := by
    have : (B.1, t) = B := by rw [← hBt]
    rw [this, ← hB, fwd_fold_bwd_fold]
  rw [hFB]
  simp only [mid_twice]
  -- the backward half of the second run undoes the forward half of the first
  have hBF : (List.range r).reverse.foldl (fun (a : Cells 4 × Cells 4) i => bwdRound k.k1 i a.1 a.2) (A.1, A.2) = (s0, t) := by
    rw [show (A.1, A.2) = A from rfl, ← hA, bwd_fold_fwd_fold]
  rw [hBF, ← hs0]
  exact xor3_cancel m _ _ _

theorem decKeys_eq_flip (key : Bytes) : decKeys key = flipKeys (encKeys key) := rfl
theorem encKeys_eq_flip (key : Bytes) : encKeys key = flipKeys (decKeys key) := by
  rw [decKeys_eq_flip, flipKeys_flipKeys]

/-- MANTIS-r: decrypt ∘ encrypt = id and encrypt ∘ decrypt = id on blocks, for every r, key, tweak -/
theorem C03_mantis_spec (r : Nat) (key tweak blk : Bytes) (hb : blk.length = 8) :
    Spec.Mantis.decrypt r key tweak (Spec.Mantis.encrypt r key tweak blk) = blk ∧
    Spec.Mantis.encrypt r key tweak (Spec.Mantis.decrypt r key tweak blk) = blk := by
  simp only [Spec.Mantis.decrypt, Spec.Mantis.encrypt, cellsOfBytes4_bytesOfCells4]
  constructor
  · rw [decKeys_eq_flip, crypt_flip, bytesOfCells4_cellsOfBytes4 blk hb]
  · conv => lhs; rw [encKeys_eq_flip]
    rw [crypt_flip, bytesOfCells4_cellsOfBytes4 blk hb]

/-- the implementation: a decryption schedule undoes an encryption schedule (any configuration,
stored or per-call tweak), and `swap_modes` turns one into the other -/
theorem C03_mantis_impl (t : Tag) (ksE ksD : MantisKey) (key tweak blk : Bytes) (hk : key.length = 16) (hb : blk.length = 8)
    (rounds : Nat) (hr : 5 ≤ rounds ∧ rounds ≤ 8) :
    let o := opsMantis t
    let e := (mantisSetKey o ksE (some key) 16 rounds 1).2
    let d := (mantisSetKey o ksD (some key) 16 rounds 0).2
    mantisCryptTweaked o d tweak (mantisCryptTweaked o e tweak blk) = blk ∧
    mantisCryptTweaked o e tweak (mantisCryptTweaked o d tweak blk) = blk ∧
    mantisCrypt o (mantisSetTweak o d (some tweak) 8).2 (mantisCrypt o (mantisSetTweak o e (some tweak) 8).2 blk) = blk := by
  intro o e d
  have E := C02_mantis t ksE key tweak blk hk rounds hr 1
  have hlen : (Spec.Mantis.encrypt rounds key tweak blk).length = 8 := by simp [Spec.Mantis.encrypt, bytesOfCells4]
  have hlenD : (Spec.Mantis.decrypt rounds key tweak blk).length = 8 := by simp [Spec.Mantis.decrypt, bytesOfCells4]
  have D1 := C02_mantis t ksD key tweak (Spec.Mantis.encrypt rounds key tweak blk) hk rounds hr 0
  have D2 := C02_mantis t ksD key tweak blk hk rounds hr 0
  have E2 := C02_mantis t ksE key tweak (Spec.Mantis.decrypt rounds key tweak blk) hk rounds hr 1
  have S := C03_mantis_spec rounds key tweak blk hb
  simp only [specCrypt, if_true, show ¬ ((0 : Int) = 1) by decide, if_false] at E D1 D2 E2
  refine ⟨?_, ?_, ?_⟩
  · show mantisCryptTweaked o d tweak (mantisCryptTweaked o e tweak blk) = blk
    rw [E.2.2.1, D1.2.2.1]; exact S.1
  · show mantisCryptTweaked o e tweak (mantisCryptTweaked o d tweak blk) = blk
    rw [D2.2.2.1, E2.2.2.1]; exact S.2
  · show mantisCrypt o (mantisSetTweak o d (some tweak) 8).2 (mantisCrypt o (mantisSetTweak o e (some tweak) 8).2 blk) = blk
    rw [E.2.2.2.2.1, D1.2.2.2.2.1]; exact S.1

end SkinnyVerif.Properties
