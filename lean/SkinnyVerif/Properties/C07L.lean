/-
C07, the loops of `skinnyN_parallel_ecb_encrypt / _decrypt`: whole batches of `psize` bytes go through the back end's
batch function, whatever is left goes block by block through the scalar function.  For every byte count the result is
block-by-block ECB, provided the batch function agrees with the block function on one batch - which is what
`C07_vec128_block`, `C07_vec256_block`, `C07_vec64_block` show for the translated vector code.  The instance for the
128-bit Skinny-128 back end is spelled out down to bytes (`C07_vec128_whole_buffer`).

`parallelBatched` is a hand model of the two `while` loops (tied to the source by the function's hash and by the
correspondence on every block count); the batch function inside it is the translated vector code.
-/
import SkinnyVerif.Properties.C07
import SkinnyVerif.Properties.C07V

namespace SkinnyVerif.Properties
open SkinnyVerif SkinnyVerif.Gen SkinnyVerif.Impl SkinnyVerif.Lemmas SkinnyVerif.Spec.Modes SkinnyVerif.Spec.Skinny

/-- the two loops: `while (size >= psize) batch; while (size >= bs) block` -/
def parallelBatched (G : Bytes → Bytes) (psize : Nat) (F : Bytes → Bytes) (bs : Nat) : Nat → Bytes → Bytes
  | 0, _ => []
  | fuel + 1, input =>
    if psize ≤ input.length then G (input.take psize) ++ parallelBatched G psize F bs fuel (input.drop psize)
    else parallelBlocks F bs (input.length + 1) input

/-- `chunks` does not depend on spare fuel -/
theorem chunks_spare_fuel (bs : Nat) (hbs : 0 < bs) (f f' : Nat) (b : Bytes) (h : b.length < (f + 1) * bs) (h' : b.length < (f' + 1) * bs) :
    chunks bs f b = chunks bs f' b := by
  induction f generalizing f' b with
  | zero =>
    have hlt : b.length < bs := by simpa using h
    cases f' with
    | zero => rfl
    | succ n => simp [chunks, hlt]
  | succ n ih =>
    cases f' with
    | zero =>
      have hlt : b.length < bs := by simpa using h'
      simp [chunks, hlt]
    | succ m =>
      simp only [chunks]
      by_cases hlt : b.length < bs
      · simp [hlt]
      · have hne : bs ≠ 0 := by omega
        simp only [hlt, hne, or_self, if_false]
        have e1 : (n + 1 + 1) * bs = (n + 1) * bs + bs := Nat.succ_mul _ _
        have e2 : (m + 1 + 1) * bs = (m + 1) * bs + bs := Nat.succ_mul _ _
        rw [ih m (b.drop bs) (by rw [List.length_drop]; omega) (by rw [List.length_drop]; omega)]

theorem ecb_cons (F : Bytes → Bytes) (bs : Nat) (hbs : 0 < bs) (a : Bytes) (h : bs ≤ a.length) :
    ecb F bs a = F (a.take bs) ++ ecb F bs (a.drop bs) := by
  have hne : bs ≠ 0 := by omega
  have h2 : ¬ a.length < bs := by omega
  have hc : chunks bs (a.length + 1) a = a.take bs :: chunks bs a.length (a.drop bs) := by
    simp only [chunks, h2, hne, or_self, if_false]
  have hf : chunks bs a.length (a.drop bs) = chunks bs ((a.drop bs).length + 1) (a.drop bs) := by
    apply chunks_spare_fuel bs hbs
    · rw [List.length_drop, Nat.succ_mul]
      have : a.length ≤ a.length * bs := Nat.le_mul_of_pos_right _ hbs
      omega
    · rw [Nat.succ_mul]
      have : (a.drop bs).length ≤ ((a.drop bs).length + 1) * bs := by
        have := Nat.le_mul_of_pos_right ((a.drop bs).length + 1) hbs
        omega
      omega
  simp only [ecb, hc, List.flatMap_cons, hf]

/-- ECB of a whole number of blocks followed by more data -/
theorem ecb_append (F : Bytes → Bytes) (bs : Nat) (hbs : 0 < bs) (B : Nat) (a b : Bytes) (ha : a.length = B * bs) :
    ecb F bs (a ++ b) = ecb F bs a ++ ecb F bs b := by
  induction B generalizing a with
  | zero =>
    have : a = [] := List.eq_nil_of_length_eq_zero (by simpa using ha)
    subst this
    simp [ecb, chunks]
  | succ n ih =>
    have hal : bs ≤ a.length := by rw [ha, Nat.succ_mul]; omega
    have hal2 : bs ≤ (a ++ b).length := by rw [List.length_append]; omega
    have ht : (a ++ b).take bs = a.take bs := by rw [List.take_append_of_le_length hal]
    have hd : (a ++ b).drop bs = a.drop bs ++ b := by rw [List.drop_append_of_le_length hal]
    have hdl : (a.drop bs).length = n * bs := by rw [List.length_drop, ha, Nat.succ_mul]; omega
    rw [ecb_cons F bs hbs (a ++ b) hal2, ecb_cons F bs hbs a hal, ht, hd, ih (a.drop bs) hdl, List.append_assoc]

/-- **the loops compute block-by-block ECB for every byte count** -/
theorem parallelBatched_eq_ecb (G F : Bytes → Bytes) (bs B : Nat) (hbs : 0 < bs) (hB : 0 < B)
    (hG : ∀ chunk : Bytes, chunk.length = B * bs → G chunk = ecb F bs chunk) (fuel : Nat) (input : Bytes) (hf : input.length < fuel) :
    parallelBatched G (B * bs) F bs fuel input = ecb F bs input := by
  induction fuel generalizing input with
  | zero => omega
  | succ n ih =>
    simp only [parallelBatched]
    by_cases hp : B * bs ≤ input.length
    · simp only [hp, if_true]
      have hpos : 0 < B * bs := Nat.mul_pos hB hbs
      have htl : (input.take (B * bs)).length = B * bs := by rw [List.length_take]; omega
      have hdl : (input.drop (B * bs)).length < n := by rw [List.length_drop]; omega
      rw [hG _ htl, ih _ hdl, ← ecb_append F bs hbs B _ _ htl, List.take_append_drop]
    · simp only [hp, if_false]
      exact parallelBlocks_eq_ecb F bs (by omega) input

/-! ## down to bytes: the 128-bit vector back end of Skinny-128 -/

theorem bytesOf_split {w : Nat} (x : BitVec w) (m n : Nat) :
    bytesOf (m + n) x = bytesOf m (x.extractLsb' 0 (8 * m)) ++ bytesOf n (x.extractLsb' (8 * m) (8 * n)) := by
  simp only [bytesOf_lanes]
  rw [List.range_add, List.map_append, List.map_map]
  congr 1
  · apply List.map_congr_left
    intro i hi
    have hi' : i < m := List.mem_range.mp hi
    rw [lane_extractLsb' 8 i 0 (8 * m) x (by omega)]
    simp [lane]
  · apply List.map_congr_left
    intro i hi
    have hi' : i < n := List.mem_range.mp hi
    simp only [Function.comp]
    rw [lane_extractLsb' 8 i (8 * m) (8 * n) x (by omega)]
    simp only [lane]
    congr 3
    omega

theorem image_block (chunk : Bytes) (j : Nat) (hj : 128 * (j + 1) ≤ 512) :
    image 128 ((chunk.drop (16 * j)).take 16) = (image 512 chunk).extractLsb' (128 * j) 128 := by
  apply eq_of_lanes 8 16 (by decide) (by decide)
  intro i hi
  rw [lane8_image 128 _ i (by omega), lane_extractLsb' 8 i (128 * j) 128 _ (by omega)]
  have e : 128 * j + 8 * i = 8 * (16 * j + i) := by omega
  have hl := lane8_image 512 chunk (16 * j + i) (by omega)
  simp only [lane] at hl
  rw [e, hl]
  congr 2
  simp only [List.getD_eq_getElem?_getD, List.getElem?_take, hi, if_true, List.getElem?_drop]

/-- the batch function of the 128-bit vector back end on 64 bytes -/
def vec128EncBytes (ks : KeySched 64) (chunk : Bytes) : Bytes := bytesOf 64 (vecEnc4 (schedUp ks) (image 512 chunk))
def vec128DecBytes (ks : KeySched 64) (chunk : Bytes) : Bytes := bytesOf 64 (vecDec4 (schedDown ks) (image 512 chunk))

theorem vec128_batch_is_ecb (ks : KeySched 64) (chunk : Bytes) (hc : chunk.length = 4 * 16) :
    vec128EncBytes ks chunk = ecb (ecbEncrypt (ops128 .c32le) p128 ks) 16 chunk ∧
    vec128DecBytes ks chunk = ecb (ecbDecrypt (ops128 .c32le) p128 ks) 16 chunk := by
  have h0 := image_block chunk 0 (by decide)
  have h1 := image_block chunk 1 (by decide)
  have h2 := image_block chunk 2 (by decide)
  have h3 := image_block chunk 3 (by decide)
  simp only [Nat.mul_zero, Nat.mul_one, List.drop_zero] at h0 h1 h2 h3
  have B0 := C07_vec128_block ks (image 512 chunk) 0 (by decide) _ h0
  have B1 := C07_vec128_block ks (image 512 chunk) 1 (by decide) _ h1
  have B2 := C07_vec128_block ks (image 512 chunk) 2 (by decide) _ h2
  have B3 := C07_vec128_block ks (image 512 chunk) 3 (by decide) _ h3
  simp only [Nat.mul_zero, Nat.mul_one] at B0 B1 B2 B3
  have e1 : (chunk.drop 16).length = 48 := by rw [List.length_drop]; omega
  have e2 : (chunk.drop 32).length = 32 := by rw [List.length_drop]; omega
  have e3 : (chunk.drop 48).length = 16 := by rw [List.length_drop]; omega
  have e4 : (chunk.drop 64) = [] := List.drop_eq_nil_of_le (by omega)
  have split : ∀ x : BitVec 512, bytesOf 64 x = bytesOf 16 (x.extractLsb' 0 128) ++ (bytesOf 16 (x.extractLsb' 128 128) ++
      (bytesOf 16 (x.extractLsb' 256 128) ++ bytesOf 16 (x.extractLsb' 384 128))) := by
    intro x
    rw [show (64 : Nat) = 16 + 48 from rfl, bytesOf_split x 16 48, show (48 : Nat) = 16 + 32 from rfl, bytesOf_split _ 16 32,
      show (32 : Nat) = 16 + 16 from rfl, bytesOf_split _ 16 16]
    simp only [extractLsb'_extractLsb'_le, Nat.reduceMul, Nat.reduceAdd, Nat.reduceLeDiff, Nat.le_refl]
  have unroll : ∀ F : Bytes → Bytes, ecb F 16 chunk = F (chunk.take 16) ++ (F ((chunk.drop 16).take 16) ++
      (F ((chunk.drop 32).take 16) ++ F ((chunk.drop 48).take 16))) := by
    intro F
    rw [ecb_cons F 16 (by decide) chunk (by omega), ecb_cons F 16 (by decide) (chunk.drop 16) (by omega), List.drop_drop,
      ecb_cons F 16 (by decide) (chunk.drop 32) (by omega), List.drop_drop, ecb_cons F 16 (by decide) (chunk.drop 48) (by omega), List.drop_drop]
    simp [e4, ecb, chunks]
  constructor
  · rw [vec128EncBytes, split, unroll, B0.1, B1.1, B2.1, B3.1]
  · rw [vec128DecBytes, split, unroll, B0.2, B1.2, B2.2, B3.2]

/-- **parallel ECB on the 128-bit vector back end, every byte count**: batches through the translated vector code, the
rest through the scalar function = block-by-block ECB, hence (for keys of a primary size, by C01) the specification -/
theorem C07_vec128_whole_buffer (ks : KeySched 64) (input : Bytes) :
    parallelBatched (vec128EncBytes ks) (4 * 16) (ecbEncrypt (ops128 .c32le) p128 ks) 16 (input.length + 1) input =
      ecb (ecbEncrypt (ops128 .c32le) p128 ks) 16 input ∧
    parallelBatched (vec128DecBytes ks) (4 * 16) (ecbDecrypt (ops128 .c32le) p128 ks) 16 (input.length + 1) input =
      ecb (ecbDecrypt (ops128 .c32le) p128 ks) 16 input :=
  ⟨parallelBatched_eq_ecb _ _ 16 4 (by decide) (by decide) (fun c hc => (vec128_batch_is_ecb ks c hc).1) _ input (by omega),
   parallelBatched_eq_ecb _ _ 16 4 (by decide) (by decide) (fun c hc => (vec128_batch_is_ecb ks c hc).2) _ input (by omega)⟩

/-! ## the same for every vector back end of Skinny: a generic batch lemma and its instances -/

theorem image_block_gen (W bs : Nat) (chunk : Bytes) (j : Nat) (hj : 8 * bs * (j + 1) ≤ W) :
    image (8 * bs) ((chunk.drop (bs * j)).take bs) = (image W chunk).extractLsb' (8 * bs * j) (8 * bs) := by
  by_cases hbs : bs = 0
  · subst hbs; apply BitVec.eq_of_getLsbD_eq; intro i hi; omega
  apply eq_of_lanes 8 bs (by decide) (Nat.le_refl _)
  intro i hi
  have h1 : 8 * (i + 1) ≤ 8 * bs := by omega
  have hmul : 8 * bs * (j + 1) = 8 * bs * j + 8 * bs := Nat.mul_succ _ _
  rw [lane8_image (8 * bs) _ i h1, lane_extractLsb' 8 i (8 * bs * j) (8 * bs) _ h1]
  have e : 8 * bs * j + 8 * i = 8 * (bs * j + i) := by rw [Nat.mul_assoc, Nat.mul_add]
  have hl := lane8_image W chunk (bs * j + i) (by
    have : 8 * (bs * j + i + 1) = 8 * bs * j + 8 * (i + 1) := by rw [Nat.mul_assoc]; omega
    omega)
  simp only [lane] at hl
  rw [e, hl]
  congr 2
  simp only [List.getD_eq_getElem?_getD, List.getElem?_take, hi, if_true, List.getElem?_drop]

/-- a batch function that writes, at block `j`, the block function of input block `j` is ECB on the batch -/
theorem batch_is_ecb {w : Nat} (F : Bytes → Bytes) (bs : Nat) (hbs : 0 < bs) (B : Nat) (X : BitVec w) (chunk : Bytes)
    (hlen : chunk.length = B * bs)
    (hblk : ∀ j, j < B → bytesOf bs (X.extractLsb' (8 * bs * j) (8 * bs)) = F ((chunk.drop (bs * j)).take bs)) :
    bytesOf (B * bs) X = ecb F bs chunk := by
  induction B generalizing w X chunk with
  | zero =>
    have : chunk = [] := List.eq_nil_of_length_eq_zero (by simpa using hlen)
    subst this
    simp [bytesOf, ecb, chunks]
  | succ n ih =>
    have hal : bs ≤ chunk.length := by rw [hlen, Nat.succ_mul]; omega
    have hdl : (chunk.drop bs).length = n * bs := by rw [List.length_drop, hlen, Nat.succ_mul]; omega
    rw [show (n + 1) * bs = bs + n * bs by rw [Nat.succ_mul, Nat.add_comm], bytesOf_split X bs (n * bs), ecb_cons F bs hbs chunk hal]
    have h0 := hblk 0 (by omega)
    simp only [Nat.mul_zero, List.drop_zero] at h0
    rw [h0]
    congr 1
    apply ih (X.extractLsb' (8 * bs) (8 * (n * bs))) (chunk.drop bs) hdl
    intro j hj
    have h := hblk (j + 1) (by omega)
    have e1 : 8 * bs * (j + 1) = 8 * bs + 8 * bs * j := by rw [Nat.mul_succ, Nat.add_comm]
    have e2 : bs * (j + 1) = bs + bs * j := by rw [Nat.mul_succ, Nat.add_comm]
    rw [extractLsb'_extractLsb'_le (8 * bs * j) (8 * bs) (8 * bs) (8 * (n * bs)) X (by
      have : 8 * bs * j + 8 * bs = 8 * bs * (j + 1) := (Nat.mul_succ _ _).symm
      have : 8 * bs * (j + 1) ≤ 8 * bs * n := Nat.mul_le_mul_left _ (by omega)
      have : 8 * bs * n = 8 * (n * bs) := by rw [Nat.mul_assoc, Nat.mul_comm bs n]
      omega), List.drop_drop, ← e1]
    rw [e2] at h
    exact h

def vec256EncBytes (ks : KeySched 64) (chunk : Bytes) : Bytes := bytesOf 128 (vecEnc8 (schedUp ks) (image 1024 chunk))
def vec256DecBytes (ks : KeySched 64) (chunk : Bytes) : Bytes := bytesOf 128 (vecDec8 (schedDown ks) (image 1024 chunk))
def vec64EncBytes (ks : KeySched 32) (chunk : Bytes) : Bytes := bytesOf 64 (vecEnc8h (schedUp64 ks) (image 512 chunk))
def vec64DecBytes (ks : KeySched 32) (chunk : Bytes) : Bytes := bytesOf 64 (vecDec8h (schedDown64 ks) (image 512 chunk))

theorem vec256_batch_is_ecb (ks : KeySched 64) (chunk : Bytes) (hc : chunk.length = 8 * 16) :
    vec256EncBytes ks chunk = ecb (ecbEncrypt (ops128 .c32le) p128 ks) 16 chunk ∧
    vec256DecBytes ks chunk = ecb (ecbDecrypt (ops128 .c32le) p128 ks) 16 chunk := by
  have hb : ∀ j, j < 8 → image 128 ((chunk.drop (16 * j)).take 16) = (image 1024 chunk).extractLsb' (128 * j) 128 := by
    intro j hj
    have := image_block_gen 1024 16 chunk j (by omega)
    simpa using this
  constructor
  · exact batch_is_ecb _ 16 (by decide) 8 _ chunk hc (fun j hj => by
      have := (C07_vec256_block ks (image 1024 chunk) j hj _ (hb j hj)).1
      simpa using this)
  · exact batch_is_ecb _ 16 (by decide) 8 _ chunk hc (fun j hj => by
      have := (C07_vec256_block ks (image 1024 chunk) j hj _ (hb j hj)).2
      simpa using this)

theorem vec64_batch_is_ecb (ks : KeySched 32) (chunk : Bytes) (hc : chunk.length = 8 * 8) :
    vec64EncBytes ks chunk = ecb (ecbEncrypt (ops64 .c32le) p64 ks) 8 chunk ∧
    vec64DecBytes ks chunk = ecb (ecbDecrypt (ops64 .c32le) p64 ks) 8 chunk := by
  have hb : ∀ j, j < 8 → image 64 ((chunk.drop (8 * j)).take 8) = (image 512 chunk).extractLsb' (64 * j) 64 := by
    intro j hj
    have := image_block_gen 512 8 chunk j (by omega)
    simpa using this
  constructor
  · exact batch_is_ecb _ 8 (by decide) 8 _ chunk hc (fun j hj => by
      have := (C07_vec64_block ks (image 512 chunk) j hj _ (hb j hj)).1
      simpa using this)
  · exact batch_is_ecb _ 8 (by decide) 8 _ chunk hc (fun j hj => by
      have := (C07_vec64_block ks (image 512 chunk) j hj _ (hb j hj)).2
      simpa using this)

/-- **parallel ECB through the 256-bit Skinny-128 and the 128-bit Skinny-64 vector back ends, every byte count** -/
theorem C07_vec256_vec64_whole_buffer (ks : KeySched 64) (ks64 : KeySched 32) (input : Bytes) :
    parallelBatched (vec256EncBytes ks) (8 * 16) (ecbEncrypt (ops128 .c32le) p128 ks) 16 (input.length + 1) input =
      ecb (ecbEncrypt (ops128 .c32le) p128 ks) 16 input ∧
    parallelBatched (vec256DecBytes ks) (8 * 16) (ecbDecrypt (ops128 .c32le) p128 ks) 16 (input.length + 1) input =
      ecb (ecbDecrypt (ops128 .c32le) p128 ks) 16 input ∧
    parallelBatched (vec64EncBytes ks64) (8 * 8) (ecbEncrypt (ops64 .c32le) p64 ks64) 8 (input.length + 1) input =
      ecb (ecbEncrypt (ops64 .c32le) p64 ks64) 8 input ∧
    parallelBatched (vec64DecBytes ks64) (8 * 8) (ecbDecrypt (ops64 .c32le) p64 ks64) 8 (input.length + 1) input =
      ecb (ecbDecrypt (ops64 .c32le) p64 ks64) 8 input :=
  ⟨parallelBatched_eq_ecb _ _ 16 8 (by decide) (by decide) (fun c hc => (vec256_batch_is_ecb ks c hc).1) _ input (by omega),
   parallelBatched_eq_ecb _ _ 16 8 (by decide) (by decide) (fun c hc => (vec256_batch_is_ecb ks c hc).2) _ input (by omega),
   parallelBatched_eq_ecb _ _ 8 8 (by decide) (by decide) (fun c hc => (vec64_batch_is_ecb ks64 c hc).1) _ input (by omega),
   parallelBatched_eq_ecb _ _ 8 8 (by decide) (by decide) (fun c hc => (vec64_batch_is_ecb ks64 c hc).2) _ input (by omega)⟩

end SkinnyVerif.Properties
