/-
C19 (Skinny-128 part): the Arduino port's portable C++ code (`arduino/libraries/Skinny/Skinny128.cpp`).
Every piece of `encryptBlock`, `decryptBlock`, `setTK1`, `xorTK1`, `setTK2`, `setTK3` is translated
from the C++ source on every run (`Gen/Arduino128Pieces.lean`) and proved equal to the corresponding
piece of the C library's 32-bit little-endian configuration (`Lemmas/Arduino128.lean`); the
refinement theorems of C01 and C04 are restated here for an arbitrary table of pieces and
instantiated with the Arduino table.  So for every key of a primary size, every tweak history and
every block the Arduino classes compute the specification - hence exactly what the C library computes.
The glue (which `setTKn` a class calls for which key size; `setTweak` as xor-out / xor-in) is the
same hand model as for the C library, tied by the `ardrv` oracle; the Skinny-64 and Mantis-8 classes
and the CTR wrapper are covered by the oracle only.
-/
import SkinnyVerif.Properties.C04
import SkinnyVerif.Properties.C01
import SkinnyVerif.Lemmas.Arduino128
import SkinnyVerif.Lemmas.Arduino64

namespace SkinnyVerif.Properties
open SkinnyVerif SkinnyVerif.Gen SkinnyVerif.Spec.Skinny SkinnyVerif.Impl SkinnyVerif.Lemmas

/-! ## C01 and C04 for an arbitrary correct table of pieces -/

/-- SKINNY-128, all three key sizes, every configuration, both directions -/
theorem C01_skinny128_ops (o : SkinnyOps 128 64) (hc : OpsCorrectG abs128 o) (ks0 : KeySched 64) (hlen : 56 ≤ ks0.sched.length) (key blk : Bytes)
    (hk : key.length = 16 ∨ key.length = 32 ∨ key.length = 48) (j2 j3 : BitVec 128) :
    (setKey o guards128 p128 ks0 (some key) key.length j2 j3).1 = 1 ∧
    ecbEncrypt o p128 (setKey o guards128 p128 ks0 (some key) key.length j2 j3).2 blk = encrypt128 key blk ∧
    ecbDecrypt o p128 (setKey o guards128 p128 ks0 (some key) key.length j2 j3).2 blk = decrypt128 key blk := by
  have hg : guards128.setKey false (some key).isNone (BitVec.ofNat 32 key.length) = false := by
    rw [guard128_setKey _ _ (by omega)]; rcases hk with h | h | h <;> simp [h]
  simp only [setKey, hg, Bool.false_eq_true, if_false]
  have hks := setKeyInner_plain abs128 o hc absOK128 p128 (by decide) ks0 key key.length j2 j3
    (by simp [p128]; omega) (by simp [p128]; omega) (by decide) (by simp [p128]; omega) (by simp [p128]; omega) (by simp [p128]; omega)
  obtain ⟨hkeyed, hrounds, _⟩ := hks
  rw [List.take_length] at hkeyed
  have hr : (setKeyInner o p128 ks0 key key.length none j2 j3).rounds = rounds128 (key.length / 16) := by
    rw [hrounds]
    rcases hk with h | h | h <;> simp [h, p128, rounds128]
  refine ⟨by trivial, ?_, ?_⟩
  · rw [ecbEncrypt_eq, encrypt128, show p128.bs = 16 from rfl, ← bytesOfCells8_cells8]
    congr 1
    have := encrypt_refines abs128 o hc _ _ _ hkeyed (image 128 blk)
    simp only [abs128] at this
    rw [this, hr, tweakey128_eq, cellsOfBytes8_eq]
    rfl
  · rw [ecbDecrypt_eq, decrypt128, show p128.bs = 16 from rfl, ← bytesOfCells8_cells8]
    congr 1
    have := decrypt_refines abs128 o hc _ _ _ hkeyed (image 128 blk)
    simp only [abs128] at this
    rw [this, hr, tweakey128_eq, cellsOfBytes8_eq]
    rfl


def applyTweaks128_ops (o : SkinnyOps 128 64) (hc : OpsCorrectG abs128 o) (tk : TweakedKey 64) (hist : List TweakArg) : TweakedKey 64 :=
  hist.foldl (fun tk a => (setTweak o guards128 p128 tk a.1 a.2).2) tk

/-- invariant carried through the history -/
def TInv128_ops (tk : TweakedKey 64) (T : Bytes) (c2 c3 : Cells 8) (r : Nat) : Prop :=
  TopsFor abs128 tk.ks ⟨cells8 (image 128 T), c2, c3⟩ 2 ∧ tk.tweak = T ∧ tk.ks.rounds = r ∧ r ≤ tk.ks.sched.length

theorem setTweak128_inv_ops (o : SkinnyOps 128 64) (hc : OpsCorrectG abs128 o) (tk : TweakedKey 64) (T : Bytes) (c2 c3 : Cells 8) (r : Nat) (a : TweakArg)
    (hv : validTweak 16 a) (hinv : TInv128_ops tk T c2 c3 r) :
    (setTweak o guards128 p128 tk a.1 a.2).1 = 1 ∧
    TInv128_ops (setTweak o guards128 p128 tk a.1 a.2).2 (effTweak 16 a) c2 c3 r := by
  obtain ⟨htops, htw, hr, hlen⟩ := hinv
  have hg : guards128.setTweak false a.1.isNone (BitVec.ofNat 32 a.2) = false := by
    rw [guard128_setTweak _ _ (by have := hv.2; omega)]
    have := hv.1; have := hv.2
    simp; omega
  have hx := xorTk1_twice abs128 o hc tk.ks tk.tweak (effTweak 16 a) c2 c3 2 (by rw [hr]; exact hlen)
    (by rw [htw]; exact htops)
  obtain ⟨h1, h2, h3⟩ := hx
  have he : tweakBytes p128.bs a.1 a.2 = effTweak 16 a := rfl
  simp only [setTweak, hg, Bool.false_eq_true, if_false, he]
  exact ⟨by trivial, h1, rfl, by rw [h2, hr], by rw [h3]; exact hlen⟩

theorem applyTweaks128_inv_ops (o : SkinnyOps 128 64) (hc : OpsCorrectG abs128 o) (hist : List TweakArg) (tk : TweakedKey 64) (T : Bytes) (c2 c3 : Cells 8) (r : Nat)
    (hv : ∀ a ∈ hist, validTweak 16 a) (hinv : TInv128_ops tk T c2 c3 r) :
    TInv128_ops (applyTweaks128_ops o hc tk hist) (match hist.getLast? with | none => T | some a => effTweak 16 a) c2 c3 r := by
  induction hist generalizing tk T with
  | nil => simpa [applyTweaks128_ops] using hinv
  | cons a rest ih =>
    have h1 := (setTweak128_inv_ops o hc tk T c2 c3 r a (hv a (by simp)) hinv).2
    have h2 := ih (setTweak o guards128 p128 tk a.1 a.2).2 (effTweak 16 a) (fun x hx => hv x (by simp [hx])) h1
    simp only [applyTweaks128_ops, List.foldl_cons] at h2 ⊢
    cases hrest : rest.getLast? with
    | none =>
      have : rest = [] := by simpa using hrest
      subst this
      simpa using h1
    | some x =>
      have hl : (a :: rest).getLast? = some x := by
        cases rest with
        | nil => simp at hrest
        | cons y ys => simpa [List.getLast?_cons_cons] using hrest
      rw [hrest] at h2
      rw [hl]
      exact h2

/-- SKINNY-128 tweakable schedules: any key length 16..32, any history of valid tweak changes -/
theorem C04_skinny128_ops (o : SkinnyOps 128 64) (hc : OpsCorrectG abs128 o) (tk0 : TweakedKey 64) (hlen : 56 ≤ tk0.ks.sched.length) (key : Bytes) (size : Nat)
    (hs1 : 16 ≤ size) (hs2 : size ≤ 32) (hkey : size ≤ key.length) (j2 j3 : BitVec 128)
    (hist : List TweakArg) (hv : ∀ a ∈ hist, validTweak 16 a) (blk : Bytes) :
    let r := setTweakedKey o guards128 p128 tk0 (some key) size j2 j3
    let tk := applyTweaks128_ops o hc r.2 hist
    let K := padRight (if size = 16 then 16 else 32) (key.take size)
    r.1 = 1 ∧
    ecbEncrypt o p128 tk.ks blk = encryptTweaked128 K (lastTweak 16 hist) blk ∧
    ecbDecrypt o p128 tk.ks blk = decryptTweaked128 K (lastTweak 16 hist) blk := by
  intro r tk K
  have hg : guards128.setTweakedKey false (some key).isNone (BitVec.ofNat 32 size) = false := by
    rw [guard128_setTweakedKey _ _ (by omega)]; simp; omega
  have hr : r = (1, { ks := setKeyInner o p128 tk0.ks key size (some (zeros 16)) j2 j3, tweak := zeros 16 }) := by
    simp only [r, setTweakedKey, hg, Bool.false_eq_true, if_false, p128]
  have hks := setKeyInner_tweaked abs128 o hc absOK128 p128 (by decide) tk0.ks key (zeros 16) size j2 j3
    (by simp [p128]; omega) (by simp [p128]; omega) (by decide) (by simp [p128]; omega) (by simp [p128]; omega)
  obtain ⟨htops, hrounds, hl⟩ := hks
  have hinv0 : TInv128_ops r.2 (zeros 16) (cells8 (image 128 (key.take size))) (cells8 (image 128 ((key.take size).drop 16)))
      (if size = p128.bs then p128.r2 else p128.r3) := by
    rw [hr]
    refine ⟨htops, rfl, hrounds, ?_⟩
    show (if size = p128.bs then p128.r2 else p128.r3) ≤ (setKeyInner o p128 tk0.ks key size (some (zeros 16)) j2 j3).sched.length
    rw [hl]; simp only [p128]
    by_cases h16 : size = 16 <;> simp [h16] <;> omega
  have hinv := applyTweaks128_inv_ops o hc hist r.2 (zeros 16) _ _ _ hv hinv0
  have hT : (match hist.getLast? with | none => zeros 16 | some a => effTweak 16 a) = lastTweak 16 hist := by
    rfl
  rw [hT] at hinv
  obtain ⟨htops', _, hr', _⟩ := hinv
  have hkeyed := TopsFor.keyed abs128 o hc absOK128 htops'
  -- the specification's tweakey for (tweak ++ padded key)
  have hTlen : (lastTweak 16 hist).length = 16 := by
    simp only [lastTweak]
    split
    · simp [zeros]
    · rename_i a _
      simp only [effTweak, tweakBytes]; split <;> simp [zeros, padRight]
  have hKlen : (key.take size).length = size := by simp; omega
  have hK : K = key.take size ++ zeros ((if size = 16 then 16 else 32) - size) := by
    simp only [K]; rw [padRight_eq _ _ (by rw [hKlen]; split <;> omega), hKlen]
  have htk : tweakey128 (lastTweak 16 hist ++ K) =
      ⟨cells8 (image 128 (lastTweak 16 hist)), cells8 (image 128 (key.take size)), cells8 (image 128 ((key.take size).drop 16))⟩ := by
    rw [tweakey128_eq]
    simp only [implTweakey, abs128]
    have e1 : image 128 (lastTweak 16 hist ++ K) = image 128 (lastTweak 16 hist) := by
      rw [← image_take 128 _ 16 (by decide), List.take_append_of_le_length (by omega), List.take_of_length_le (by omega)]
    have e2 : (lastTweak 16 hist ++ K).drop 16 = K := by
      rw [List.drop_append_of_le_length (by omega), List.drop_of_length_le (by omega), List.nil_append]
    have e3 : (lastTweak 16 hist ++ K).drop (2 * 16) = K.drop 16 := by
      rw [show 2 * 16 = 16 + 16 from rfl, ← List.drop_drop, e2]
    rw [e1, e2, e3, hK, image_append_zeros]
    have e4 : image 128 ((key.take size ++ zeros ((if size = 16 then 16 else 32) - size)).drop 16) = image 128 ((key.take size).drop 16) := by
      rw [List.drop_append_of_le_length (by omega), image_append_zeros]
    rw [e4]
  have hKl : K.length = if size = 16 then 16 else 32 := by simp [K, padRight, zeros]
  have hrr : tk.ks.rounds = rounds128 (K.length / 16 + 1) := by
    rw [hr', hKl]; simp only [p128]
    by_cases h16 : size = 16
    · simp [h16, rounds128]
    · simp [h16, rounds128]
  refine ⟨by rw [hr], ?_, ?_⟩
  · rw [ecbEncrypt_eq, encryptTweaked128, show p128.bs = 16 from rfl, ← bytesOfCells8_cells8]
    congr 1
    have := encrypt_refines abs128 o hc _ _ _ hkeyed (image 128 blk)
    simp only [abs128] at this
    rw [this, hrr, htk, cellsOfBytes8_eq]
  · rw [ecbDecrypt_eq, decryptTweaked128, show p128.bs = 16 from rfl, ← bytesOfCells8_cells8]
    congr 1
    have := decrypt_refines abs128 o hc _ _ _ hkeyed (image 128 blk)
    simp only [abs128] at this
    rw [this, hrr, htk, cellsOfBytes8_eq]


/-! ## the Arduino table -/

/-- the pieces translated from `Skinny128.cpp`; the TK2/TK3 loaders of the port copy 16 bytes -/
def opsArd128 : SkinnyOps 128 64 :=
  { encLoad := ard128_enc_load, encRound := ard128_enc_round, encStore := ard128_enc_store,
    decLoad := ard128_dec_load, decRound := ard128_dec_round, decStore := ard128_dec_store,
    tk1Load := ard128_tk1_load, tk1Step0 := ard128_tk1_step_t0, tk1Step1 := ard128_tk1_step_t1,
    xorTk1Load := ard128_xor_tk1_load, xorTk1Step := ard128_xor_tk1_step,
    tk2Load := fun k _ key => ard128_tk2_load key &&& BitVec.ofNat 128 (2 ^ (8 * k) - 1), tk2Step := ard128_tk2_step,
    tk3Load := fun k _ key => ard128_tk3_load key &&& BitVec.ofNat 128 (2 ^ (8 * k) - 1), tk3Step := ard128_tk3_step,
    loadUsesJunk := false }

theorem opsArd128_correct : Ops128Correct opsArd128 := by
  have C := ops128Correct .c32le
  constructor
  · intro x; rfl
  · intro x; rfl
  · intro x; rfl
  · intro x; rfl
  · intro st sk; show cells8 (ard128_enc_round st sk) = _; rw [ard_enc_round_eq]; exact C.encRound st sk
  · intro st sk; show cells8 (ard128_dec_round st sk) = _; rw [ard_dec_round_eq]; exact C.decRound st sk
  · intro k; rfl
  · intro tk rc; show top8 (ard128_tk1_step_t0 tk rc).1 = _; rw [ard_tk1_step_t0_eq]; exact C.tk1Step0_e tk rc
  · intro tk rc; show cells8 (ard128_tk1_step_t0 tk rc).2.1 = _; rw [ard_tk1_step_t0_eq]; exact C.tk1Step0_tk tk rc
  · intro tk rc; show (ard128_tk1_step_t0 tk rc).2.2 = _; rw [ard_tk1_step_t0_eq]; exact C.tk1Step0_rc tk rc
  · intro tk rc; show top8 (ard128_tk1_step_t1 tk rc).1 = _; rw [ard_tk1_step_t1_eq]; exact C.tk1Step1_e tk rc
  · intro tk rc; show cells8 (ard128_tk1_step_t1 tk rc).2.1 = _; rw [ard_tk1_step_t1_eq]; exact C.tk1Step1_tk tk rc
  · intro tk rc; show (ard128_tk1_step_t1 tk rc).2.2 = _; rw [ard_tk1_step_t1_eq]; exact C.tk1Step1_rc tk rc
  · intro k; rfl
  · intro e tk; show top8 (ard128_xor_tk1_step e tk).1 = _; rw [ard_xor_tk1_step_eq]; exact C.xorTk1Step_e e tk
  · intro e tk; show cells8 (ard128_xor_tk1_step e tk).2 = _; rw [ard_xor_tk1_step_eq]; exact C.xorTk1Step_tk e tk
  · intro e tk; show top8 (ard128_tk2_step e tk).1 = _; rw [ard_tk2_step_eq]; exact C.tk2Step_e e tk
  · intro e tk; show cells8 (ard128_tk2_step e tk).2 = _; rw [ard_tk2_step_eq]; exact C.tk2Step_tk e tk
  · intro e tk; show top8 (ard128_tk3_step e tk).1 = _; rw [ard_tk3_step_eq]; exact C.tk3Step_e e tk
  · intro e tk; show cells8 (ard128_tk3_step e tk).2 = _; rw [ard_tk3_step_eq]; exact C.tk3Step_tk e tk
  · intro k junk key _ _; rfl
  · intro k junk key _ _; rfl

theorem opsArdG128 : OpsCorrectG abs128 opsArd128 := OpsCorrectG.of128 opsArd128_correct

/-- **C19, Skinny128_128 / _256 / _384**: encryptBlock and decryptBlock after setKey are the specification
(and therefore the C library, C01) for every key and block -/
theorem C19_skinny128 (ks0 : KeySched 64) (hlen : 56 ≤ ks0.sched.length) (key blk : Bytes)
    (hk : key.length = 16 ∨ key.length = 32 ∨ key.length = 48) (j2 j3 : BitVec 128) :
    ecbEncrypt opsArd128 p128 (setKey opsArd128 guards128 p128 ks0 (some key) key.length j2 j3).2 blk = encrypt128 key blk ∧
    ecbDecrypt opsArd128 p128 (setKey opsArd128 guards128 p128 ks0 (some key) key.length j2 j3).2 blk = decrypt128 key blk :=
  (C01_skinny128_ops opsArd128 opsArdG128 ks0 hlen key blk hk j2 j3).2

/-- the Arduino class and the C library (any configuration) agree on every key and block -/
theorem C19_skinny128_eq_C (t : Tag) (ks0 ks1 : KeySched 64) (h0 : 56 ≤ ks0.sched.length) (h1 : 56 ≤ ks1.sched.length) (key blk : Bytes)
    (hk : key.length = 16 ∨ key.length = 32 ∨ key.length = 48) (j2 j3 j2' j3' : BitVec 128) :
    ecbEncrypt opsArd128 p128 (setKey opsArd128 guards128 p128 ks0 (some key) key.length j2 j3).2 blk =
      ecbEncrypt (ops128 t) p128 (setKey (ops128 t) guards128 p128 ks1 (some key) key.length j2' j3').2 blk := by
  rw [(C19_skinny128 ks0 h0 key blk hk j2 j3).1, (C01_skinny128 t ks1 h1 key blk hk j2' j3').2.1]


/-- **C19, Skinny128_256_Tweaked / _384_Tweaked**: after setKey and any history of setTweak calls
(lengths 1..16, NULL = zero) the class computes the specification's tweakable cipher under the
most recent tweak only - tweak changes are history-independent -/
theorem C19_tweaked128 (tk0 : TweakedKey 64) (hlen : 56 ≤ tk0.ks.sched.length) (key : Bytes) (size : Nat)
    (hs : size = 16 ∨ size = 32) (hkey : size ≤ key.length) (j2 j3 : BitVec 128)
    (hist : List TweakArg) (hv : ∀ a ∈ hist, validTweak 16 a) (blk : Bytes) :
    let r := setTweakedKey opsArd128 guards128 p128 tk0 (some key) size j2 j3
    let tk := applyTweaks128_ops opsArd128 opsArdG128 r.2 hist
    ecbEncrypt opsArd128 p128 tk.ks blk = encryptTweaked128 (padRight (if size = 16 then 16 else 32) (key.take size)) (lastTweak 16 hist) blk ∧
    ecbDecrypt opsArd128 p128 tk.ks blk = decryptTweaked128 (padRight (if size = 16 then 16 else 32) (key.take size)) (lastTweak 16 hist) blk :=
  (C04_skinny128_ops opsArd128 opsArdG128 tk0 hlen key size (by omega) (by omega) hkey j2 j3 hist hv blk).2


/-! ## Skinny-64: C01 and C04 for an arbitrary correct table of pieces, and the Arduino table -/

/-- SKINNY-64, all three key sizes, every configuration, both directions -/
theorem C01_skinny64_ops (o : SkinnyOps 64 32) (hc : OpsCorrectG abs64 o) (ks0 : KeySched 32) (hlen : 40 ≤ ks0.sched.length) (key blk : Bytes)
    (hk : key.length = 8 ∨ key.length = 16 ∨ key.length = 24) (j2 j3 : BitVec 64) :
    (setKey o guards64 p64 ks0 (some key) key.length j2 j3).1 = 1 ∧
    ecbEncrypt o p64 (setKey o guards64 p64 ks0 (some key) key.length j2 j3).2 blk = encrypt64 key blk ∧
    ecbDecrypt o p64 (setKey o guards64 p64 ks0 (some key) key.length j2 j3).2 blk = decrypt64 key blk := by
  have hg : guards64.setKey false (some key).isNone (BitVec.ofNat 32 key.length) = false := by
    rw [guard64_setKey _ _ (by omega)]; rcases hk with h | h | h <;> simp [h]
  simp only [setKey, hg, Bool.false_eq_true, if_false]
  have hks := setKeyInner_plain abs64 o hc absOK64 p64 (by decide) ks0 key key.length j2 j3
    (by simp [p64]; omega) (by simp [p64]; omega) (by decide) (by simp [p64]; omega) (by simp [p64]; omega) (by simp [p64]; omega)
  obtain ⟨hkeyed, hrounds, _⟩ := hks
  rw [List.take_length] at hkeyed
  have hr : (setKeyInner o p64 ks0 key key.length none j2 j3).rounds = rounds64 (key.length / 8) := by
    rw [hrounds]
    rcases hk with h | h | h <;> simp [h, p64, rounds64]
  refine ⟨by trivial, ?_, ?_⟩
  · rw [ecbEncrypt_eq, encrypt64, show p64.bs = 8 from rfl, ← bytesOfCells4_cells4]
    congr 1
    have := encrypt_refines abs64 o hc _ _ _ hkeyed (image 64 blk)
    simp only [abs64] at this
    rw [this, hr, tweakey64_eq, cellsOfBytes4_eq]
    rfl
  · rw [ecbDecrypt_eq, decrypt64, show p64.bs = 8 from rfl, ← bytesOfCells4_cells4]
    congr 1
    have := decrypt_refines abs64 o hc _ _ _ hkeyed (image 64 blk)
    simp only [abs64] at this
    rw [this, hr, tweakey64_eq, cellsOfBytes4_eq]
    rfl

/-- non-vacuity: the hypotheses are met by the paper's SKINNY-128-384 vector and a zeroed schedule -/
example : (56 ≤ (List.replicate 56 (0 : BitVec 64)).length) ∧ ((List.replicate 48 (7 : UInt8)).length = 16 ∨ (List.replicate 48 (7 : UInt8)).length = 32 ∨ (List.replicate 48 (7 : UInt8)).length = 48) := by
  simp


def applyTweaks64_ops (o : SkinnyOps 64 32) (hc : OpsCorrectG abs64 o) (tk : TweakedKey 32) (hist : List TweakArg) : TweakedKey 32 :=
  hist.foldl (fun tk a => (setTweak o guards64 p64 tk a.1 a.2).2) tk

/-- invariant carried through the history -/
def TInv64_ops (tk : TweakedKey 32) (T : Bytes) (c2 c3 : Cells 4) (r : Nat) : Prop :=
  TopsFor abs64 tk.ks ⟨cells4 (image 64 T), c2, c3⟩ 2 ∧ tk.tweak = T ∧ tk.ks.rounds = r ∧ r ≤ tk.ks.sched.length

theorem setTweak64_inv_ops (o : SkinnyOps 64 32) (hc : OpsCorrectG abs64 o) (tk : TweakedKey 32) (T : Bytes) (c2 c3 : Cells 4) (r : Nat) (a : TweakArg)
    (hv : validTweak 8 a) (hinv : TInv64_ops tk T c2 c3 r) :
    (setTweak o guards64 p64 tk a.1 a.2).1 = 1 ∧
    TInv64_ops (setTweak o guards64 p64 tk a.1 a.2).2 (effTweak 8 a) c2 c3 r := by
  obtain ⟨htops, htw, hr, hlen⟩ := hinv
  have hg : guards64.setTweak false a.1.isNone (BitVec.ofNat 32 a.2) = false := by
    rw [guard64_setTweak _ _ (by have := hv.2; omega)]
    have := hv.1; have := hv.2
    simp; omega
  have hx := xorTk1_twice abs64 o hc tk.ks tk.tweak (effTweak 8 a) c2 c3 2 (by rw [hr]; exact hlen)
    (by rw [htw]; exact htops)
  obtain ⟨h1, h2, h3⟩ := hx
  have he : tweakBytes p64.bs a.1 a.2 = effTweak 8 a := rfl
  simp only [setTweak, hg, Bool.false_eq_true, if_false, he]
  exact ⟨by trivial, h1, rfl, by rw [h2, hr], by rw [h3]; exact hlen⟩

theorem applyTweaks64_inv_ops (o : SkinnyOps 64 32) (hc : OpsCorrectG abs64 o) (hist : List TweakArg) (tk : TweakedKey 32) (T : Bytes) (c2 c3 : Cells 4) (r : Nat)
    (hv : ∀ a ∈ hist, validTweak 8 a) (hinv : TInv64_ops tk T c2 c3 r) :
    TInv64_ops (applyTweaks64_ops o hc tk hist) (match hist.getLast? with | none => T | some a => effTweak 8 a) c2 c3 r := by
  induction hist generalizing tk T with
  | nil => simpa [applyTweaks64_ops] using hinv
  | cons a rest ih =>
    have h1 := (setTweak64_inv_ops o hc tk T c2 c3 r a (hv a (by simp)) hinv).2
    have h2 := ih (setTweak o guards64 p64 tk a.1 a.2).2 (effTweak 8 a) (fun x hx => hv x (by simp [hx])) h1
    simp only [applyTweaks64_ops, List.foldl_cons] at h2 ⊢
    cases hrest : rest.getLast? with
    | none =>
      have : rest = [] := by simpa using hrest
      subst this
      simpa using h1
    | some x =>
      have hl : (a :: rest).getLast? = some x := by
        cases rest with
        | nil => simp at hrest
        | cons y ys => simpa [List.getLast?_cons_cons] using hrest
      rw [hrest] at h2
      rw [hl]
      exact h2

/-- SKINNY-64 tweakable schedules: any key length 16..32, any history of valid tweak changes -/
theorem C04_skinny64_ops (o : SkinnyOps 64 32) (hc : OpsCorrectG abs64 o) (tk0 : TweakedKey 32) (hlen : 40 ≤ tk0.ks.sched.length) (key : Bytes) (size : Nat)
    (hs1 : 8 ≤ size) (hs2 : size ≤ 16) (hkey : size ≤ key.length) (j2 j3 : BitVec 64)
    (hist : List TweakArg) (hv : ∀ a ∈ hist, validTweak 8 a) (blk : Bytes) :
    let r := setTweakedKey o guards64 p64 tk0 (some key) size j2 j3
    let tk := applyTweaks64_ops o hc r.2 hist
    let K := padRight (if size = 8 then 8 else 16) (key.take size)
    r.1 = 1 ∧
    ecbEncrypt o p64 tk.ks blk = encryptTweaked64 K (lastTweak 8 hist) blk ∧
    ecbDecrypt o p64 tk.ks blk = decryptTweaked64 K (lastTweak 8 hist) blk := by
  intro r tk K
  have hg : guards64.setTweakedKey false (some key).isNone (BitVec.ofNat 32 size) = false := by
    rw [guard64_setTweakedKey _ _ (by omega)]; simp; omega
  have hr : r = (1, { ks := setKeyInner o p64 tk0.ks key size (some (zeros 8)) j2 j3, tweak := zeros 8 }) := by
    simp only [r, setTweakedKey, hg, Bool.false_eq_true, if_false, p64]
  have hks := setKeyInner_tweaked abs64 o hc absOK64 p64 (by decide) tk0.ks key (zeros 8) size j2 j3
    (by simp [p64]; omega) (by simp [p64]; omega) (by decide) (by simp [p64]; omega) (by simp [p64]; omega)
  obtain ⟨htops, hrounds, hl⟩ := hks
  have hinv0 : TInv64_ops r.2 (zeros 8) (cells4 (image 64 (key.take size))) (cells4 (image 64 ((key.take size).drop 8)))
      (if size = p64.bs then p64.r2 else p64.r3) := by
    rw [hr]
    refine ⟨htops, rfl, hrounds, ?_⟩
    show (if size = p64.bs then p64.r2 else p64.r3) ≤ (setKeyInner o p64 tk0.ks key size (some (zeros 8)) j2 j3).sched.length
    rw [hl]; simp only [p64]
    by_cases h16 : size = 8 <;> simp [h16] <;> omega
  have hinv := applyTweaks64_inv_ops o hc hist r.2 (zeros 8) _ _ _ hv hinv0
  have hT : (match hist.getLast? with | none => zeros 8 | some a => effTweak 8 a) = lastTweak 8 hist := by
    rfl
  rw [hT] at hinv
  obtain ⟨htops', _, hr', _⟩ := hinv
  have hkeyed := TopsFor.keyed abs64 o hc absOK64 htops'
  -- the specification's tweakey for (tweak ++ padded key)
  have hTlen : (lastTweak 8 hist).length = 8 := by
    simp only [lastTweak]
    split
    · simp [zeros]
    · rename_i a _
      simp only [effTweak, tweakBytes]; split <;> simp [zeros, padRight]
  have hKlen : (key.take size).length = size := by simp; omega
  have hK : K = key.take size ++ zeros ((if size = 8 then 8 else 16) - size) := by
    simp only [K]; rw [padRight_eq _ _ (by rw [hKlen]; split <;> omega), hKlen]
  have htk : tweakey64 (lastTweak 8 hist ++ K) =
      ⟨cells4 (image 64 (lastTweak 8 hist)), cells4 (image 64 (key.take size)), cells4 (image 64 ((key.take size).drop 8))⟩ := by
    rw [tweakey64_eq]
    simp only [implTweakey, abs64]
    have e1 : image 64 (lastTweak 8 hist ++ K) = image 64 (lastTweak 8 hist) := by
      rw [← image_take 64 _ 8 (by decide), List.take_append_of_le_length (by omega), List.take_of_length_le (by omega)]
    have e2 : (lastTweak 8 hist ++ K).drop 8 = K := by
      rw [List.drop_append_of_le_length (by omega), List.drop_of_length_le (by omega), List.nil_append]
    have e3 : (lastTweak 8 hist ++ K).drop (2 * 8) = K.drop 8 := by
      rw [show 2 * 8 = 8 + 8 from rfl, ← List.drop_drop, e2]
    rw [e1, e2, e3, hK, image_append_zeros]
    have e4 : image 64 ((key.take size ++ zeros ((if size = 8 then 8 else 16) - size)).drop 8) = image 64 ((key.take size).drop 8) := by
      rw [List.drop_append_of_le_length (by omega), image_append_zeros]
    rw [e4]
  have hKl : K.length = if size = 8 then 8 else 16 := by simp [K, padRight, zeros]
  have hrr : tk.ks.rounds = rounds64 (K.length / 8 + 1) := by
    rw [hr', hKl]; simp only [p64]
    by_cases h16 : size = 8
    · simp [h16, rounds64]
    · simp [h16, rounds64]
  refine ⟨by rw [hr], ?_, ?_⟩
  · rw [ecbEncrypt_eq, encryptTweaked64, show p64.bs = 8 from rfl, ← bytesOfCells4_cells4]
    congr 1
    have := encrypt_refines abs64 o hc _ _ _ hkeyed (image 64 blk)
    simp only [abs64] at this
    rw [this, hrr, htk, cellsOfBytes4_eq]
  · rw [ecbDecrypt_eq, decryptTweaked64, show p64.bs = 8 from rfl, ← bytesOfCells4_cells4]
    congr 1
    have := decrypt_refines abs64 o hc _ _ _ hkeyed (image 64 blk)
    simp only [abs64] at this
    rw [this, hrr, htk, cellsOfBytes4_eq]

/-- non-vacuity: a history with a short tweak, a null tweak and a full tweak is valid -/
example : ∀ a ∈ ([(some [1, 2, 3], 3), (none, 16), (some (List.replicate 16 9), 16)] : List TweakArg), validTweak 16 a := by
  intro a ha
  simp at ha
  rcases ha with h | h | h <;> subst h <;> simp [validTweak]


def opsArd64 : SkinnyOps 64 32 :=
  { encLoad := ard64_enc_load, encRound := ard64_enc_round, encStore := ard64_enc_store,
    decLoad := ard64_dec_load, decRound := ard64_dec_round, decStore := ard64_dec_store,
    tk1Load := ard64_tk1_load, tk1Step0 := ard64_tk1_step_t0, tk1Step1 := ard64_tk1_step_t1,
    xorTk1Load := ard64_xor_tk1_load, xorTk1Step := ard64_xor_tk1_step,
    tk2Load := fun k _ key => ard64_tk2_load key &&& BitVec.ofNat 64 (2 ^ (8 * k) - 1), tk2Step := ard64_tk2_step,
    tk3Load := fun k _ key => ard64_tk3_load key &&& BitVec.ofNat 64 (2 ^ (8 * k) - 1), tk3Step := ard64_tk3_step,
    loadUsesJunk := false }

set_option maxRecDepth 8000 in
theorem ard64_tk_loads (key : BitVec 64) :
    ard64_tk1_load key = (key, 0) ∧ ard64_xor_tk1_load key = key ∧ ard64_tk2_load key = key ∧ ard64_tk3_load key = key := by
  refine ⟨Prod.ext ?_ ?_, ?_, ?_, ?_⟩
  · bv_bits 64 <;> simp [gen_unfold]
  · rfl
  · bv_bits 64 <;> simp [gen_unfold]
  · bv_bits 64 <;> simp [gen_unfold]
  · bv_bits 64 <;> simp [gen_unfold]

theorem opsArd64_correct : Ops64Correct opsArd64 := by
  have C := ops64Correct .c32le
  have L := ard64_tk_loads
  constructor
  · intro x; exact ard64_enc_load_eq x
  · intro x; exact ard64_enc_store_eq x
  · intro x; exact ard64_dec_load_eq x
  · intro x; exact ard64_dec_store_eq x
  · intro st sk; show cells4 (ard64_enc_round st sk) = _; rw [ard64_enc_round_eq]; exact C.encRound st sk
  · intro st sk; show cells4 (ard64_dec_round st sk) = _; rw [ard64_dec_round_eq]; exact C.decRound st sk
  · intro k; exact (L k).1
  · intro tk rc; show top4 (ard64_tk1_step_t0 tk rc).1 = _; rw [ard64_tk1_step_t0_eq]; exact C.tk1Step0_e tk rc
  · intro tk rc; show cells4 (ard64_tk1_step_t0 tk rc).2.1 = _; rw [ard64_tk1_step_t0_eq]; exact C.tk1Step0_tk tk rc
  · intro tk rc; show (ard64_tk1_step_t0 tk rc).2.2 = _; rw [ard64_tk1_step_t0_eq]; exact C.tk1Step0_rc tk rc
  · intro tk rc; show top4 (ard64_tk1_step_t1 tk rc).1 = _; rw [ard64_tk1_step_t1_eq]; exact C.tk1Step1_e tk rc
  · intro tk rc; show cells4 (ard64_tk1_step_t1 tk rc).2.1 = _; rw [ard64_tk1_step_t1_eq]; exact C.tk1Step1_tk tk rc
  · intro tk rc; show (ard64_tk1_step_t1 tk rc).2.2 = _; rw [ard64_tk1_step_t1_eq]; exact C.tk1Step1_rc tk rc
  · intro k; exact (L k).2.1
  · intro e tk; show top4 (ard64_xor_tk1_step e tk).1 = _; rw [ard64_xor_tk1_step_eq]; exact C.xorTk1Step_e e tk
  · intro e tk; show cells4 (ard64_xor_tk1_step e tk).2 = _; rw [ard64_xor_tk1_step_eq]; exact C.xorTk1Step_tk e tk
  · intro e tk; show top4 (ard64_tk2_step e tk).1 = _; rw [ard64_tk2_step_eq]; exact C.tk2Step_e e tk
  · intro e tk; show cells4 (ard64_tk2_step e tk).2 = _; rw [ard64_tk2_step_eq]; exact C.tk2Step_tk e tk
  · intro e tk; show top4 (ard64_tk3_step e tk).1 = _; rw [ard64_tk3_step_eq]; exact C.tk3Step_e e tk
  · intro e tk; show cells4 (ard64_tk3_step e tk).2 = _; rw [ard64_tk3_step_eq]; exact C.tk3Step_tk e tk
  · intro k junk key _ _; show ard64_tk2_load key &&& _ = _; rw [(L key).2.2.1]
  · intro k junk key _ _; show ard64_tk3_load key &&& _ = _; rw [(L key).2.2.2]

theorem opsArdG64 : OpsCorrectG abs64 opsArd64 := OpsCorrectG.of64 opsArd64_correct

/-- **C19, Skinny64_64 / _128 / _192** -/
theorem C19_skinny64 (ks0 : KeySched 32) (hlen : 40 ≤ ks0.sched.length) (key blk : Bytes)
    (hk : key.length = 8 ∨ key.length = 16 ∨ key.length = 24) (j2 j3 : BitVec 64) :
    ecbEncrypt opsArd64 p64 (setKey opsArd64 guards64 p64 ks0 (some key) key.length j2 j3).2 blk = encrypt64 key blk ∧
    ecbDecrypt opsArd64 p64 (setKey opsArd64 guards64 p64 ks0 (some key) key.length j2 j3).2 blk = decrypt64 key blk :=
  (C01_skinny64_ops opsArd64 opsArdG64 ks0 hlen key blk hk j2 j3).2

/-- **C19, Skinny64_128_Tweaked / _192_Tweaked** -/
theorem C19_tweaked64 (tk0 : TweakedKey 32) (hlen : 40 ≤ tk0.ks.sched.length) (key : Bytes) (size : Nat)
    (hs : size = 8 ∨ size = 16) (hkey : size ≤ key.length) (j2 j3 : BitVec 64)
    (hist : List TweakArg) (hv : ∀ a ∈ hist, validTweak 8 a) (blk : Bytes) :
    let r := setTweakedKey opsArd64 guards64 p64 tk0 (some key) size j2 j3
    let tk := applyTweaks64_ops opsArd64 opsArdG64 r.2 hist
    ecbEncrypt opsArd64 p64 tk.ks blk = encryptTweaked64 (padRight (if size = 8 then 8 else 16) (key.take size)) (lastTweak 8 hist) blk ∧
    ecbDecrypt opsArd64 p64 tk.ks blk = decryptTweaked64 (padRight (if size = 8 then 8 else 16) (key.take size)) (lastTweak 8 hist) blk :=
  (C04_skinny64_ops opsArd64 opsArdG64 tk0 hlen key size (by omega) (by omega) hkey j2 j3 hist hv blk).2

end SkinnyVerif.Properties
