/-
C05 / C06, vector CTR back ends: the keystream batch.

`skinny128_ecb_encrypt_four` (128-bit vectors), `skinny128_ecb_encrypt_eight` (256-bit vectors) and
`skinny64_ecb_encrypt_eight`, assembled from the pieces translated from the three vector CTR files, turn the
strided counter image into the keystream buffer: the block written at position `j` is the scalar block
encryption (32-bit-word configuration, hence the specification by C01) of the counter block held by column `j`,
and the big-endian value of that block is the column value that the lane increments of `C05V` add to.
So one batch of keystream is `E(c_0) ‖ E(c_1) ‖ …` for the lane counters `c_j` - what the "B-lane" state machine
of `Properties/C06.lean` assumes of the vector code.  The 32-bit-word round body (`skinny128_sbox_two`) and the
byte-wise store path of the two Skinny-128 files compute the same batch (C12).
-/
import SkinnyVerif.Lemmas.VecCtr128
import SkinnyVerif.Lemmas.VecCtr256
import SkinnyVerif.Lemmas.VecCtr64
import SkinnyVerif.Properties.C07V
import SkinnyVerif.Properties.C05V

namespace SkinnyVerif.Properties
open SkinnyVerif SkinnyVerif.Gen SkinnyVerif.Impl SkinnyVerif.Lemmas SkinnyVerif.Spec.Skinny

/-- `skinny128_ecb_encrypt_four` on the strided image of four lane counters -/
def ctrEnc4 (sched : List (BitVec 64)) (img : BitVec 512) : BitVec 512 :=
  let rows := sched.foldl (fun rws sk => mapRows (fun t => v128c_enc_round t.1 t.2.1 t.2.2.1 t.2.2.2 sk) rws) (v128c_enc_load img)
  v128c_enc_store rows.1 rows.2.1 rows.2.2.1 rows.2.2.2
/-- the same function as compiled for 32-bit words without unaligned access -/
def ctrEnc4' (sched : List (BitVec 64)) (img : BitVec 512) : BitVec 512 :=
  let rows := sched.foldl (fun rws sk => mapRows (fun t => v128c_enc_round_w32 t.1 t.2.1 t.2.2.1 t.2.2.2 sk) rws) (v128c_enc_load img)
  v128c_enc_store_u0 rows.1 rows.2.1 rows.2.2.1 rows.2.2.2

def ctrEnc8 (sched : List (BitVec 64)) (img : BitVec 1024) : BitVec 1024 :=
  let rows := sched.foldl (fun rws sk => mapRows8 (fun t => v256c_enc_round t.1 t.2.1 t.2.2.1 t.2.2.2 sk) rws) (v256c_enc_load img)
  v256c_enc_store rows.1 rows.2.1 rows.2.2.1 rows.2.2.2
def ctrEnc8' (sched : List (BitVec 64)) (img : BitVec 1024) : BitVec 1024 :=
  let rows := sched.foldl (fun rws sk => mapRows8 (fun t => v256c_enc_round_w32 t.1 t.2.1 t.2.2.1 t.2.2.2 sk) rws) (v256c_enc_load img)
  v256c_enc_store_u0 rows.1 rows.2.1 rows.2.2.1 rows.2.2.2

def ctrEnc8h (sched : List (BitVec 32)) (img : BitVec 512) : BitVec 512 :=
  let rows := sched.foldl (fun rws sk => mapRowsH (fun t => v64c_enc_round t.1 t.2.1 t.2.2.1 t.2.2.2 sk) rws) (v64c_enc_load img)
  v64c_enc_store rows.1 rows.2.1 rows.2.2.1 rows.2.2.2

theorem ctrEnc4_block (sched : List (BitVec 64)) (img : BitVec 512) (j : Nat) (hj : j < 4) :
    (ctrEnc4 sched img).extractLsb' (128 * j) 128 = sched.foldl (fun st sk => skinny128_ecb_encrypt_round_32le st sk) (v128c_column img j) ∧
    (ctrEnc4' sched img).extractLsb' (128 * j) 128 = sched.foldl (fun st sk => skinny128_ecb_encrypt_round_32le st sk) (v128c_column img j) := by
  constructor
  · simp only [ctrEnc4]
    rw [v128c_enc_store_lane _ j hj, laneRows_fold (fun t sk => v128c_enc_round t.1 t.2.1 t.2.2.1 t.2.2.2 sk) sched _ j hj,
      v128c_enc_rounds_scalar, v128c_enc_load_eq]; rfl
  · simp only [ctrEnc4']
    rw [v128c_enc_store_u0_lane _ j hj, laneRows_fold (fun t sk => v128c_enc_round_w32 t.1 t.2.1 t.2.2.1 t.2.2.2 sk) sched _ j hj,
      v128c_enc_rounds_w32_scalar, v128c_enc_load_eq]; rfl

theorem ctrEnc8_block (sched : List (BitVec 64)) (img : BitVec 1024) (j : Nat) (hj : j < 8) :
    (ctrEnc8 sched img).extractLsb' (128 * j) 128 = sched.foldl (fun st sk => skinny128_ecb_encrypt_round_32le st sk) (v256c_column img j) ∧
    (ctrEnc8' sched img).extractLsb' (128 * j) 128 = sched.foldl (fun st sk => skinny128_ecb_encrypt_round_32le st sk) (v256c_column img j) := by
  constructor
  · simp only [ctrEnc8]
    rw [v256c_enc_store_lane _ j hj, laneRows8_fold (fun t sk => v256c_enc_round t.1 t.2.1 t.2.2.1 t.2.2.2 sk) sched _ j hj,
      v256c_enc_rounds_scalar, v256c_enc_load_eq]; rfl
  · simp only [ctrEnc8']
    rw [v256c_enc_store_u0_lane _ j hj, laneRows8_fold (fun t sk => v256c_enc_round_w32 t.1 t.2.1 t.2.2.1 t.2.2.2 sk) sched _ j hj,
      v256c_enc_rounds_w32_scalar, v256c_enc_load_eq]; rfl

theorem ctrEnc8h_block (sched : List (BitVec 32)) (img : BitVec 512) (j : Nat) (hj : j < 8) :
    (ctrEnc8h sched img).extractLsb' (64 * j) 64 = sched.foldl (fun st sk => skinny64_ecb_encrypt_round_32le st sk) (v64c_column img j) := by
  simp only [ctrEnc8h]
  rw [v64c_enc_store_lane _ j hj, laneRowsH_fold (fun t sk => v64c_enc_round t.1 t.2.1 t.2.2.1 t.2.2.2 sk) sched _ j hj,
    v64c_enc_rounds_scalar, v64c_enc_load_eq]; rfl

/-- **keystream batch, Skinny-128 on 128-bit vectors**: block `j` of the batch is `skinny128_ecb_encrypt` of the counter
block in column `j`; that block's big-endian value is the column value of `C05_v128c_increment` -/
theorem C06_vec128_keystream (ks : KeySched 64) (img : BitVec 512) (j : Nat) (hj : j < 4) (blk : Bytes)
    (hblk : image 128 blk = v128c_column img j) :
    bytesOf 16 ((ctrEnc4 (schedUp ks) img).extractLsb' (128 * j) 128) = ecbEncrypt (ops128 .c32le) p128 ks blk ∧
    bytesOf 16 ((ctrEnc4' (schedUp ks) img).extractLsb' (128 * j) 128) = ecbEncrypt (ops128 .c32le) p128 ks blk ∧
    columnValue (pos128 j) img = valLE ((List.range 16).map (fun t => (lane 8 (15 - t) (v128c_column img j)).toNat)) := by
  have C := ops128Correct .c32le
  have h := ctrEnc4_block (schedUp ks) img j hj
  refine ⟨?_, ?_, v128c_column_value img j hj⟩
  · rw [h.1, schedUp, List.foldl_map, ← hblk]; simp only [ecbEncrypt, p128]; rw [C.encLoad, C.encStore]; rfl
  · rw [h.2, schedUp, List.foldl_map, ← hblk]; simp only [ecbEncrypt, p128]; rw [C.encLoad, C.encStore]; rfl

theorem C06_vec256_keystream (ks : KeySched 64) (img : BitVec 1024) (j : Nat) (hj : j < 8) (blk : Bytes)
    (hblk : image 128 blk = v256c_column img j) :
    bytesOf 16 ((ctrEnc8 (schedUp ks) img).extractLsb' (128 * j) 128) = ecbEncrypt (ops128 .c32le) p128 ks blk ∧
    bytesOf 16 ((ctrEnc8' (schedUp ks) img).extractLsb' (128 * j) 128) = ecbEncrypt (ops128 .c32le) p128 ks blk ∧
    columnValue (pos256 j) img = valLE ((List.range 16).map (fun t => (lane 8 (15 - t) (v256c_column img j)).toNat)) := by
  have C := ops128Correct .c32le
  have h := ctrEnc8_block (schedUp ks) img j hj
  refine ⟨?_, ?_, v256c_column_value img j hj⟩
  · rw [h.1, schedUp, List.foldl_map, ← hblk]; simp only [ecbEncrypt, p128]; rw [C.encLoad, C.encStore]; rfl
  · rw [h.2, schedUp, List.foldl_map, ← hblk]; simp only [ecbEncrypt, p128]; rw [C.encLoad, C.encStore]; rfl

theorem C06_vec64_keystream (ks : KeySched 32) (img : BitVec 512) (j : Nat) (hj : j < 8) (blk : Bytes)
    (hblk : image 64 blk = v64c_column img j) :
    bytesOf 8 ((ctrEnc8h (schedUp64 ks) img).extractLsb' (64 * j) 64) = ecbEncrypt (ops64 .c32le) p64 ks blk ∧
    columnValue (pos64 j) img = valLE ((List.range 8).map (fun t => (lane 8 (7 - t) (v64c_column img j)).toNat)) := by
  have C := ops64Correct .c32le
  refine ⟨?_, v64c_column_value img j hj⟩
  rw [ctrEnc8h_block _ _ j hj, schedUp64, List.foldl_map, ← hblk]; simp only [ecbEncrypt, p64]; rw [C.encLoad, C.encStore]; rfl

end SkinnyVerif.Properties
