/-
C12 -- build-configuration independence (scalar cipher code): whichever of the four
(word size x byte-order specialisation) configurations is compiled, key setup and single-block
processing return the same values for every input and every tweak history.  Corollary of
C01/C04/C10, which hold for every `Tag`; the obligations are real because each configuration
has its own generated definitions (64- vs 32-bit S-boxes and LFSRs, two `permute_tk`, different
load/store code), each proved against the same specification.
-/
import SkinnyVerif.Properties.C04

namespace SkinnyVerif.Properties
open SkinnyVerif SkinnyVerif.Spec.Skinny SkinnyVerif.Impl SkinnyVerif.Lemmas

theorem C12_skinny128 (t1 t2 : Tag) (ks1 ks2 : KeySched 64) (h1 : 56 ≤ ks1.sched.length) (h2 : 56 ≤ ks2.sched.length)
    (key : Bytes) (size : Nat) (hsz : size < 2 ^ 32) (hkey : size ≤ key.length ∨ size > 48) (j2 j3 j2' j3' : BitVec 128) (blk : Bytes) :
    let r1 := setKey (ops128 t1) guards128 p128 ks1 (some key) size j2 j3
    let r2 := setKey (ops128 t2) guards128 p128 ks2 (some key) size j2' j3'
    r1.1 = r2.1 ∧ (r1.1 = 1 → ecbEncrypt (ops128 t1) p128 r1.2 blk = ecbEncrypt (ops128 t2) p128 r2.2 blk ∧
                             ecbDecrypt (ops128 t1) p128 r1.2 blk = ecbDecrypt (ops128 t2) p128 r2.2 blk) := by
  intro r1 r2
  obtain ⟨a1, b1, _, d1⟩ := C10_skinny128_set_key t1 ks1 h1 key size hsz hkey j2 j3
  obtain ⟨a2, b2, _, d2⟩ := C10_skinny128_set_key t2 ks2 h2 key size hsz hkey j2' j3'
  have hret : r1.1 = r2.1 := by
    by_cases hin : 16 ≤ size ∧ size ≤ 48
    · rw [show r1.1 = 1 from a1.mpr hin, show r2.1 = 1 from a2.mpr hin]
    · have n1 : r1.1 ≠ 1 := fun h => hin (a1.mp h)
      have n2 : r2.1 ≠ 1 := fun h => hin (a2.mp h)
      rcases b1 with h | h <;> rcases b2 with h' | h'
      · exact h.trans h'.symm
      · exact absurd h' n2
      · exact absurd h n1
      · exact absurd h n1
  refine ⟨hret, fun hr1 => ?_⟩
  have hr2 : r2.1 = 1 := by rw [← hret]; exact hr1
  exact ⟨by rw [(d1 hr1 blk).1, (d2 hr2 blk).1], by rw [(d1 hr1 blk).2, (d2 hr2 blk).2]⟩

theorem C12_skinny64 (t1 t2 : Tag) (ks1 ks2 : KeySched 32) (h1 : 40 ≤ ks1.sched.length) (h2 : 40 ≤ ks2.sched.length)
    (key : Bytes) (size : Nat) (hsz : size < 2 ^ 32) (hkey : size ≤ key.length ∨ size > 24) (j2 j3 j2' j3' : BitVec 64) (blk : Bytes) :
    let r1 := setKey (ops64 t1) guards64 p64 ks1 (some key) size j2 j3
    let r2 := setKey (ops64 t2) guards64 p64 ks2 (some key) size j2' j3'
    r1.1 = r2.1 ∧ (r1.1 = 1 → ecbEncrypt (ops64 t1) p64 r1.2 blk = ecbEncrypt (ops64 t2) p64 r2.2 blk ∧
                             ecbDecrypt (ops64 t1) p64 r1.2 blk = ecbDecrypt (ops64 t2) p64 r2.2 blk) := by
  intro r1 r2
  obtain ⟨a1, b1, _, d1⟩ := C10_skinny64_set_key t1 ks1 h1 key size hsz hkey j2 j3
  obtain ⟨a2, b2, _, d2⟩ := C10_skinny64_set_key t2 ks2 h2 key size hsz hkey j2' j3'
  have hret : r1.1 = r2.1 := by
    by_cases hin : 8 ≤ size ∧ size ≤ 24
    · rw [show r1.1 = 1 from a1.mpr hin, show r2.1 = 1 from a2.mpr hin]
    · have n1 : r1.1 ≠ 1 := fun h => hin (a1.mp h)
      have n2 : r2.1 ≠ 1 := fun h => hin (a2.mp h)
      rcases b1 with h | h <;> rcases b2 with h' | h'
      · exact h.trans h'.symm
      · exact absurd h' n2
      · exact absurd h n1
      · exact absurd h n1
  refine ⟨hret, fun hr1 => ?_⟩
  have hr2 : r2.1 = 1 := by rw [← hret]; exact hr1
  exact ⟨by rw [(d1 hr1 blk).1, (d2 hr2 blk).1], by rw [(d1 hr1 blk).2, (d2 hr2 blk).2]⟩

/-- tweakable schedules: same results after the same tweak history in any two configurations -/
theorem C12_tweaked128 (t1 t2 : Tag) (tk1 tk2 : TweakedKey 64) (h1 : 56 ≤ tk1.ks.sched.length) (h2 : 56 ≤ tk2.ks.sched.length)
    (key : Bytes) (size : Nat) (hs1 : 16 ≤ size) (hs2 : size ≤ 32) (hkey : size ≤ key.length) (j2 j3 j2' j3' : BitVec 128)
    (hist : List TweakArg) (hv : ∀ a ∈ hist, validTweak 16 a) (blk : Bytes) :
    ecbEncrypt (ops128 t1) p128 (applyTweaks128 t1 (setTweakedKey (ops128 t1) guards128 p128 tk1 (some key) size j2 j3).2 hist).ks blk =
    ecbEncrypt (ops128 t2) p128 (applyTweaks128 t2 (setTweakedKey (ops128 t2) guards128 p128 tk2 (some key) size j2' j3').2 hist).ks blk := by
  rw [(C04_skinny128 t1 tk1 h1 key size hs1 hs2 hkey j2 j3 hist hv blk).2.1, (C04_skinny128 t2 tk2 h2 key size hs1 hs2 hkey j2' j3' hist hv blk).2.1]

theorem C12_tweaked64 (t1 t2 : Tag) (tk1 tk2 : TweakedKey 32) (h1 : 40 ≤ tk1.ks.sched.length) (h2 : 40 ≤ tk2.ks.sched.length)
    (key : Bytes) (size : Nat) (hs1 : 8 ≤ size) (hs2 : size ≤ 16) (hkey : size ≤ key.length) (j2 j3 j2' j3' : BitVec 64)
    (hist : List TweakArg) (hv : ∀ a ∈ hist, validTweak 8 a) (blk : Bytes) :
    ecbEncrypt (ops64 t1) p64 (applyTweaks64 t1 (setTweakedKey (ops64 t1) guards64 p64 tk1 (some key) size j2 j3).2 hist).ks blk =
    ecbEncrypt (ops64 t2) p64 (applyTweaks64 t2 (setTweakedKey (ops64 t2) guards64 p64 tk2 (some key) size j2' j3').2 hist).ks blk := by
  rw [(C04_skinny64 t1 tk1 h1 key size hs1 hs2 hkey j2 j3 hist hv blk).2.1, (C04_skinny64 t2 tk2 h2 key size hs1 hs2 hkey j2' j3' hist hv blk).2.1]

end SkinnyVerif.Properties
