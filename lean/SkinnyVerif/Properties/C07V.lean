/-
C07 / C06, vector back end (Skinny-128 parallel ECB, 128-bit vectors): the function
`_skinny128_parallel_encrypt_vec128` / `_decrypt_vec128`, assembled from its translated pieces - load
(explicit lanes), the round body applied to every lane (lane-generic translation), store (explicit
lanes) - processes each of the four blocks exactly as the scalar block function of the C library does,
hence as the specification (C01).

The assembly `vecEnc4`/`vecDec4` is the hand model of the loop structure and of GCC's element-wise
vector semantics ("the round body acts on every lane separately"); everything inside the pieces is
regenerated from `src/skinny128-parallel-vec128.c` on every run.
-/
import SkinnyVerif.Lemmas.Vec128
import SkinnyVerif.Lemmas.Vec256
import SkinnyVerif.Lemmas.Vec64
import SkinnyVerif.Lemmas.VecU0
import SkinnyVerif.Properties.C01

namespace SkinnyVerif.Properties
open SkinnyVerif SkinnyVerif.Gen SkinnyVerif.Impl SkinnyVerif.Lemmas SkinnyVerif.Spec.Skinny

abbrev Rows32 := BitVec 32 × BitVec 32 × BitVec 32 × BitVec 32
abbrev Rows128 := BitVec 128 × BitVec 128 × BitVec 128 × BitVec 128

/-- element-wise semantics of the vector operators: a lane-generic function acts on every lane -/
def mapRows (f : Rows32 → Rows32) (rows : Rows128) : Rows128 :=
  (packLanes 32 128 (fun j => (f (laneRows rows j)).1) 4, packLanes 32 128 (fun j => (f (laneRows rows j)).2.1) 4,
   packLanes 32 128 (fun j => (f (laneRows rows j)).2.2.1) 4, packLanes 32 128 (fun j => (f (laneRows rows j)).2.2.2) 4)

theorem laneRows_mapRows (f : Rows32 → Rows32) (rows : Rows128) (j : Nat) (hj : j < 4) :
    laneRows (mapRows f rows) j = f (laneRows rows j) := by
  simp only [laneRows, mapRows, lane_packLanes 32 128 _ 4 j (by decide), hj, if_true]

theorem laneRows_fold (g : Rows32 → BitVec 64 → Rows32) (sched : List (BitVec 64)) (rows : Rows128) (j : Nat) (hj : j < 4) :
    laneRows (sched.foldl (fun rws sk => mapRows (fun t => g t sk) rws) rows) j = sched.foldl g (laneRows rows j) := by
  induction sched generalizing rows with
  | nil => rfl
  | cons sk rest ih => simp only [List.foldl_cons]; rw [ih, laneRows_mapRows _ _ j hj]

/-- `_skinny128_parallel_encrypt_vec128` on one group of four blocks -/
def vecEnc4 (sched : List (BitVec 64)) (input : BitVec 512) : BitVec 512 :=
  let rows := sched.foldl (fun rws sk => mapRows (fun t => v128p_enc_round t.1 t.2.1 t.2.2.1 t.2.2.2 sk) rws) (v128p_enc_load input)
  v128p_enc_store rows.1 rows.2.1 rows.2.2.1 rows.2.2.2

def vecDec4 (sched : List (BitVec 64)) (input : BitVec 512) : BitVec 512 :=
  let rows := sched.foldl (fun rws sk => mapRows (fun t => v128p_dec_round t.1 t.2.1 t.2.2.1 t.2.2.2 sk) rws) (v128p_dec_load input)
  v128p_dec_store rows.1 rows.2.1 rows.2.2.1 rows.2.2.2

/-- block `j` of the vector result = the scalar 32-bit rounds on block `j` of the input -/
theorem vecEnc4_block (sched : List (BitVec 64)) (input : BitVec 512) (j : Nat) (hj : j < 4) :
    (vecEnc4 sched input).extractLsb' (128 * j) 128 =
      sched.foldl (fun st sk => skinny128_ecb_encrypt_round_32le st sk) (input.extractLsb' (128 * j) 128) := by
  simp only [vecEnc4]
  rw [v128p_enc_store_lane _ j hj, laneRows_fold (fun t sk => v128p_enc_round t.1 t.2.1 t.2.2.1 t.2.2.2 sk) sched _ j hj,
    v128p_enc_rounds_scalar, v128p_enc_load_lane input j hj]

theorem vecDec4_block (sched : List (BitVec 64)) (input : BitVec 512) (j : Nat) (hj : j < 4) :
    (vecDec4 sched input).extractLsb' (128 * j) 128 =
      sched.foldl (fun st sk => skinny128_ecb_decrypt_round_32le st sk) (input.extractLsb' (128 * j) 128) := by
  simp only [vecDec4]
  rw [v128p_dec_store_lane _ j hj, laneRows_fold (fun t sk => v128p_dec_round t.1 t.2.1 t.2.2.1 t.2.2.2 sk) sched _ j hj,
    v128p_dec_rounds_scalar, v128p_dec_load_lane input j hj]

/-- the schedule entries in the order the encryption loop walks them -/
def schedUp (ks : KeySched 64) : List (BitVec 64) := (List.range ks.rounds).map (fun i => ks.sched.getD i 0)
/-- ... and the decryption loop (from the last entry down) -/
def schedDown (ks : KeySched 64) : List (BitVec 64) := (List.range ks.rounds).map (fun i => ks.sched.getD (ks.rounds - 1 - i) 0)

/-- **C07 for the 128-bit vector back end**: each of the four blocks of a group is encrypted /
decrypted exactly as `skinny128_ecb_encrypt` / `_decrypt` of the 32-bit configuration does -/
theorem C07_vec128_block (ks : KeySched 64) (input : BitVec 512) (j : Nat) (hj : j < 4) (blk : Bytes)
    (hblk : image 128 blk = input.extractLsb' (128 * j) 128) :
    bytesOf 16 ((vecEnc4 (schedUp ks) input).extractLsb' (128 * j) 128) = ecbEncrypt (ops128 .c32le) p128 ks blk ∧
    bytesOf 16 ((vecDec4 (schedDown ks) input).extractLsb' (128 * j) 128) = ecbDecrypt (ops128 .c32le) p128 ks blk := by
  have C := ops128Correct .c32le
  constructor
  · rw [vecEnc4_block _ _ j hj, schedUp, List.foldl_map, ← hblk]
    simp only [ecbEncrypt, p128]
    rw [C.encLoad, C.encStore]
    rfl
  · rw [vecDec4_block _ _ j hj, schedDown, List.foldl_map, ← hblk]
    simp only [ecbDecrypt, p128]
    rw [C.decLoad, C.decStore]
    rfl

/-- ... and therefore as the specification, for every key of a primary size -/
theorem C07_vec128_spec (ks0 : KeySched 64) (hlen : 56 ≤ ks0.sched.length) (key : Bytes)
    (hk : key.length = 16 ∨ key.length = 32 ∨ key.length = 48) (j2 j3 : BitVec 128)
    (input : BitVec 512) (j : Nat) (hj : j < 4) (blk : Bytes) (hblk : image 128 blk = input.extractLsb' (128 * j) 128) :
    let ks := (setKey (ops128 .c32le) guards128 p128 ks0 (some key) key.length j2 j3).2
    bytesOf 16 ((vecEnc4 (schedUp ks) input).extractLsb' (128 * j) 128) = encrypt128 key blk ∧
    bytesOf 16 ((vecDec4 (schedDown ks) input).extractLsb' (128 * j) 128) = decrypt128 key blk := by
  intro ks
  have h := C07_vec128_block ks input j hj blk hblk
  have c := C01_skinny128 .c32le ks0 hlen key blk hk j2 j3
  exact ⟨h.1.trans c.2.1, h.2.trans c.2.2⟩

/-! ## the 256-bit vector back end (`src/skinny128-parallel-vec256.c`): eight blocks per group -/

abbrev Rows256 := BitVec 256 × BitVec 256 × BitVec 256 × BitVec 256

def mapRows8 (f : Rows32 → Rows32) (rows : Rows256) : Rows256 :=
  (packLanes 32 256 (fun j => (f (laneRows8 rows j)).1) 8, packLanes 32 256 (fun j => (f (laneRows8 rows j)).2.1) 8,
   packLanes 32 256 (fun j => (f (laneRows8 rows j)).2.2.1) 8, packLanes 32 256 (fun j => (f (laneRows8 rows j)).2.2.2) 8)

theorem laneRows8_mapRows8 (f : Rows32 → Rows32) (rows : Rows256) (j : Nat) (hj : j < 8) :
    laneRows8 (mapRows8 f rows) j = f (laneRows8 rows j) := by
  simp only [laneRows8, mapRows8, lane_packLanes 32 256 _ 8 j (by decide), hj, if_true]

theorem laneRows8_fold (g : Rows32 → BitVec 64 → Rows32) (sched : List (BitVec 64)) (rows : Rows256) (j : Nat) (hj : j < 8) :
    laneRows8 (sched.foldl (fun rws sk => mapRows8 (fun t => g t sk) rws) rows) j = sched.foldl g (laneRows8 rows j) := by
  induction sched generalizing rows with
  | nil => rfl
  | cons sk rest ih => simp only [List.foldl_cons]; rw [ih, laneRows8_mapRows8 _ _ j hj]

/-- `_skinny128_parallel_encrypt_vec256` on one group of eight blocks -/
def vecEnc8 (sched : List (BitVec 64)) (input : BitVec 1024) : BitVec 1024 :=
  let rows := sched.foldl (fun rws sk => mapRows8 (fun t => v256p_enc_round t.1 t.2.1 t.2.2.1 t.2.2.2 sk) rws) (v256p_enc_load input)
  v256p_enc_store rows.1 rows.2.1 rows.2.2.1 rows.2.2.2

def vecDec8 (sched : List (BitVec 64)) (input : BitVec 1024) : BitVec 1024 :=
  let rows := sched.foldl (fun rws sk => mapRows8 (fun t => v256p_dec_round t.1 t.2.1 t.2.2.1 t.2.2.2 sk) rws) (v256p_dec_load input)
  v256p_dec_store rows.1 rows.2.1 rows.2.2.1 rows.2.2.2

theorem vecEnc8_block (sched : List (BitVec 64)) (input : BitVec 1024) (j : Nat) (hj : j < 8) :
    (vecEnc8 sched input).extractLsb' (128 * j) 128 =
      sched.foldl (fun st sk => skinny128_ecb_encrypt_round_32le st sk) (input.extractLsb' (128 * j) 128) := by
  simp only [vecEnc8]
  rw [v256p_enc_store_lane _ j hj, laneRows8_fold (fun t sk => v256p_enc_round t.1 t.2.1 t.2.2.1 t.2.2.2 sk) sched _ j hj,
    v256p_enc_rounds_scalar, v256p_enc_load_lane input j hj]

theorem vecDec8_block (sched : List (BitVec 64)) (input : BitVec 1024) (j : Nat) (hj : j < 8) :
    (vecDec8 sched input).extractLsb' (128 * j) 128 =
      sched.foldl (fun st sk => skinny128_ecb_decrypt_round_32le st sk) (input.extractLsb' (128 * j) 128) := by
  simp only [vecDec8]
  rw [v256p_dec_store_lane _ j hj, laneRows8_fold (fun t sk => v256p_dec_round t.1 t.2.1 t.2.2.1 t.2.2.2 sk) sched _ j hj,
    v256p_dec_rounds_scalar, v256p_dec_load_lane input j hj]

/-- **C07 for the 256-bit vector back end**: each of the eight blocks of a group is encrypted /
decrypted exactly as `skinny128_ecb_encrypt` / `_decrypt` of the 32-bit configuration does -/
theorem C07_vec256_block (ks : KeySched 64) (input : BitVec 1024) (j : Nat) (hj : j < 8) (blk : Bytes)
    (hblk : image 128 blk = input.extractLsb' (128 * j) 128) :
    bytesOf 16 ((vecEnc8 (schedUp ks) input).extractLsb' (128 * j) 128) = ecbEncrypt (ops128 .c32le) p128 ks blk ∧
    bytesOf 16 ((vecDec8 (schedDown ks) input).extractLsb' (128 * j) 128) = ecbDecrypt (ops128 .c32le) p128 ks blk := by
  have C := ops128Correct .c32le
  constructor
  · rw [vecEnc8_block _ _ j hj, schedUp, List.foldl_map, ← hblk]
    simp only [ecbEncrypt, p128]
    rw [C.encLoad, C.encStore]
    rfl
  · rw [vecDec8_block _ _ j hj, schedDown, List.foldl_map, ← hblk]
    simp only [ecbDecrypt, p128]
    rw [C.decLoad, C.decStore]
    rfl

theorem C07_vec256_spec (ks0 : KeySched 64) (hlen : 56 ≤ ks0.sched.length) (key : Bytes)
    (hk : key.length = 16 ∨ key.length = 32 ∨ key.length = 48) (j2 j3 : BitVec 128)
    (input : BitVec 1024) (j : Nat) (hj : j < 8) (blk : Bytes) (hblk : image 128 blk = input.extractLsb' (128 * j) 128) :
    let ks := (setKey (ops128 .c32le) guards128 p128 ks0 (some key) key.length j2 j3).2
    bytesOf 16 ((vecEnc8 (schedUp ks) input).extractLsb' (128 * j) 128) = encrypt128 key blk ∧
    bytesOf 16 ((vecDec8 (schedDown ks) input).extractLsb' (128 * j) 128) = decrypt128 key blk := by
  intro ks
  have h := C07_vec256_block ks input j hj blk hblk
  have c := C01_skinny128 .c32le ks0 hlen key blk hk j2 j3
  exact ⟨h.1.trans c.2.1, h.2.trans c.2.2⟩

/-! ## Skinny-64, 128-bit vector back end (`src/skinny64-parallel-vec128.c`): eight blocks per group, 16-bit lanes -/

def mapRowsH (f : Rows16 → Rows16) (rows : Rows128) : Rows128 :=
  (packLanes 16 128 (fun j => (f (laneRowsH rows j)).1) 8, packLanes 16 128 (fun j => (f (laneRowsH rows j)).2.1) 8,
   packLanes 16 128 (fun j => (f (laneRowsH rows j)).2.2.1) 8, packLanes 16 128 (fun j => (f (laneRowsH rows j)).2.2.2) 8)

theorem laneRowsH_mapRowsH (f : Rows16 → Rows16) (rows : Rows128) (j : Nat) (hj : j < 8) :
    laneRowsH (mapRowsH f rows) j = f (laneRowsH rows j) := by
  simp only [laneRowsH, mapRowsH, lane_packLanes 16 128 _ 8 j (by decide), hj, if_true]

theorem laneRowsH_fold (g : Rows16 → BitVec 32 → Rows16) (sched : List (BitVec 32)) (rows : Rows128) (j : Nat) (hj : j < 8) :
    laneRowsH (sched.foldl (fun rws sk => mapRowsH (fun t => g t sk) rws) rows) j = sched.foldl g (laneRowsH rows j) := by
  induction sched generalizing rows with
  | nil => rfl
  | cons sk rest ih => simp only [List.foldl_cons]; rw [ih, laneRowsH_mapRowsH _ _ j hj]

/-- `_skinny64_parallel_encrypt_vec128` on one group of eight blocks -/
def vecEnc8h (sched : List (BitVec 32)) (input : BitVec 512) : BitVec 512 :=
  let rows := sched.foldl (fun rws sk => mapRowsH (fun t => v64p_enc_round t.1 t.2.1 t.2.2.1 t.2.2.2 sk) rws) (v64p_enc_load input)
  v64p_enc_store rows.1 rows.2.1 rows.2.2.1 rows.2.2.2

def vecDec8h (sched : List (BitVec 32)) (input : BitVec 512) : BitVec 512 :=
  let rows := sched.foldl (fun rws sk => mapRowsH (fun t => v64p_dec_round t.1 t.2.1 t.2.2.1 t.2.2.2 sk) rws) (v64p_dec_load input)
  v64p_dec_store rows.1 rows.2.1 rows.2.2.1 rows.2.2.2

theorem vecEnc8h_block (sched : List (BitVec 32)) (input : BitVec 512) (j : Nat) (hj : j < 8) :
    (vecEnc8h sched input).extractLsb' (64 * j) 64 =
      sched.foldl (fun st sk => skinny64_ecb_encrypt_round_32le st sk) (input.extractLsb' (64 * j) 64) := by
  simp only [vecEnc8h]
  rw [v64p_enc_store_lane _ j hj, laneRowsH_fold (fun t sk => v64p_enc_round t.1 t.2.1 t.2.2.1 t.2.2.2 sk) sched _ j hj,
    v64p_enc_rounds_scalar, v64p_enc_load_lane input j hj]

theorem vecDec8h_block (sched : List (BitVec 32)) (input : BitVec 512) (j : Nat) (hj : j < 8) :
    (vecDec8h sched input).extractLsb' (64 * j) 64 =
      sched.foldl (fun st sk => skinny64_ecb_decrypt_round_32le st sk) (input.extractLsb' (64 * j) 64) := by
  simp only [vecDec8h]
  rw [v64p_dec_store_lane _ j hj, laneRowsH_fold (fun t sk => v64p_dec_round t.1 t.2.1 t.2.2.1 t.2.2.2 sk) sched _ j hj,
    v64p_dec_rounds_scalar, v64p_dec_load_lane input j hj]

def schedUp64 (ks : KeySched 32) : List (BitVec 32) := (List.range ks.rounds).map (fun i => ks.sched.getD i 0)
def schedDown64 (ks : KeySched 32) : List (BitVec 32) := (List.range ks.rounds).map (fun i => ks.sched.getD (ks.rounds - 1 - i) 0)

/-- **C07 for the Skinny-64 vector back end**: each of the eight blocks of a group is encrypted /
decrypted exactly as `skinny64_ecb_encrypt` / `_decrypt` of the 32-bit configuration does -/
theorem C07_vec64_block (ks : KeySched 32) (input : BitVec 512) (j : Nat) (hj : j < 8) (blk : Bytes)
    (hblk : image 64 blk = input.extractLsb' (64 * j) 64) :
    bytesOf 8 ((vecEnc8h (schedUp64 ks) input).extractLsb' (64 * j) 64) = ecbEncrypt (ops64 .c32le) p64 ks blk ∧
    bytesOf 8 ((vecDec8h (schedDown64 ks) input).extractLsb' (64 * j) 64) = ecbDecrypt (ops64 .c32le) p64 ks blk := by
  have C := ops64Correct .c32le
  constructor
  · rw [vecEnc8h_block _ _ j hj, schedUp64, List.foldl_map, ← hblk]
    simp only [ecbEncrypt, p64]
    rw [C.encLoad, C.encStore]
    rfl
  · rw [vecDec8h_block _ _ j hj, schedDown64, List.foldl_map, ← hblk]
    simp only [ecbDecrypt, p64]
    rw [C.decLoad, C.decStore]
    rfl

theorem C07_vec64_spec (ks0 : KeySched 32) (hlen : 40 ≤ ks0.sched.length) (key : Bytes)
    (hk : key.length = 8 ∨ key.length = 16 ∨ key.length = 24) (j2 j3 : BitVec 64)
    (input : BitVec 512) (j : Nat) (hj : j < 8) (blk : Bytes) (hblk : image 64 blk = input.extractLsb' (64 * j) 64) :
    let ks := (setKey (ops64 .c32le) guards64 p64 ks0 (some key) key.length j2 j3).2
    bytesOf 8 ((vecEnc8h (schedUp64 ks) input).extractLsb' (64 * j) 64) = encrypt64 key blk ∧
    bytesOf 8 ((vecDec8h (schedDown64 ks) input).extractLsb' (64 * j) 64) = decrypt64 key blk := by
  intro ks
  have h := C07_vec64_block ks input j hj blk hblk
  have c := C01_skinny64 .c32le ks0 hlen key blk hk j2 j3
  exact ⟨h.1.trans c.2.1, h.2.trans c.2.2⟩

/-! ## the byte-wise load / store paths (`SKINNY_UNALIGNED = 0`) of the three vector files

The round bodies do not depend on the switch; the load and store segments do.  Assembled from the
pieces translated under that configuration, the batch functions are *equal* to the ones of the default
configuration (C12 for the vector files), hence every theorem above holds for them too. -/

def vecEnc4u (sched : List (BitVec 64)) (input : BitVec 512) : BitVec 512 :=
  let rows := sched.foldl (fun rws sk => mapRows (fun t => v128p_enc_round t.1 t.2.1 t.2.2.1 t.2.2.2 sk) rws) (v128p_enc_load_u0 input)
  v128p_enc_store_u0 rows.1 rows.2.1 rows.2.2.1 rows.2.2.2
def vecDec4u (sched : List (BitVec 64)) (input : BitVec 512) : BitVec 512 :=
  let rows := sched.foldl (fun rws sk => mapRows (fun t => v128p_dec_round t.1 t.2.1 t.2.2.1 t.2.2.2 sk) rws) (v128p_dec_load_u0 input)
  v128p_dec_store_u0 rows.1 rows.2.1 rows.2.2.1 rows.2.2.2
def vecEnc8u (sched : List (BitVec 64)) (input : BitVec 1024) : BitVec 1024 :=
  let rows := sched.foldl (fun rws sk => mapRows8 (fun t => v256p_enc_round t.1 t.2.1 t.2.2.1 t.2.2.2 sk) rws) (v256p_enc_load_u0 input)
  v256p_enc_store_u0 rows.1 rows.2.1 rows.2.2.1 rows.2.2.2
def vecDec8u (sched : List (BitVec 64)) (input : BitVec 1024) : BitVec 1024 :=
  let rows := sched.foldl (fun rws sk => mapRows8 (fun t => v256p_dec_round t.1 t.2.1 t.2.2.1 t.2.2.2 sk) rws) (v256p_dec_load_u0 input)
  v256p_dec_store_u0 rows.1 rows.2.1 rows.2.2.1 rows.2.2.2
def vecEnc8hu (sched : List (BitVec 32)) (input : BitVec 512) : BitVec 512 :=
  let rows := sched.foldl (fun rws sk => mapRowsH (fun t => v64p_enc_round t.1 t.2.1 t.2.2.1 t.2.2.2 sk) rws) (v64p_enc_load_u0 input)
  v64p_enc_store_u0 rows.1 rows.2.1 rows.2.2.1 rows.2.2.2
def vecDec8hu (sched : List (BitVec 32)) (input : BitVec 512) : BitVec 512 :=
  let rows := sched.foldl (fun rws sk => mapRowsH (fun t => v64p_dec_round t.1 t.2.1 t.2.2.1 t.2.2.2 sk) rws) (v64p_dec_load_u0 input)
  v64p_dec_store_u0 rows.1 rows.2.1 rows.2.2.1 rows.2.2.2

theorem eq_of_blocks {w : Nat} (k n : Nat) (hk : 0 < k) (hw : w ≤ k * n) (a b : BitVec w)
    (h : ∀ j, j < n → a.extractLsb' (k * j) k = b.extractLsb' (k * j) k) : a = b :=
  eq_of_lanes k n hk hw a b (fun i hi => h i hi)

/-- **C12 for the vector files**: the byte-wise load / store configuration computes the same batch function -/
theorem C12_vec_unaligned_paths :
    (∀ sched input, vecEnc4u sched input = vecEnc4 sched input) ∧ (∀ sched input, vecDec4u sched input = vecDec4 sched input) ∧
    (∀ sched input, vecEnc8u sched input = vecEnc8 sched input) ∧ (∀ sched input, vecDec8u sched input = vecDec8 sched input) ∧
    (∀ sched input, vecEnc8hu sched input = vecEnc8h sched input) ∧ (∀ sched input, vecDec8hu sched input = vecDec8h sched input) := by
  refine ⟨?_, ?_, ?_, ?_, ?_, ?_⟩ <;> intro sched input
  · apply eq_of_blocks 128 4 (by decide) (by decide); intro j hj
    rw [vecEnc4_block _ _ j hj]; simp only [vecEnc4u]
    rw [v128p_enc_store_u0_lane _ j hj, laneRows_fold (fun t sk => v128p_enc_round t.1 t.2.1 t.2.2.1 t.2.2.2 sk) sched _ j hj,
      v128p_enc_rounds_scalar, v128p_enc_load_u0_lane input j hj]
  · apply eq_of_blocks 128 4 (by decide) (by decide); intro j hj
    rw [vecDec4_block _ _ j hj]; simp only [vecDec4u]
    rw [v128p_dec_store_u0_lane _ j hj, laneRows_fold (fun t sk => v128p_dec_round t.1 t.2.1 t.2.2.1 t.2.2.2 sk) sched _ j hj,
      v128p_dec_rounds_scalar, v128p_dec_load_u0_lane input j hj]
  · apply eq_of_blocks 128 8 (by decide) (by decide); intro j hj
    rw [vecEnc8_block _ _ j hj]; simp only [vecEnc8u]
    rw [v256p_enc_store_u0_lane _ j hj, laneRows8_fold (fun t sk => v256p_enc_round t.1 t.2.1 t.2.2.1 t.2.2.2 sk) sched _ j hj,
      v256p_enc_rounds_scalar, v256p_enc_load_u0_lane input j hj]
  · apply eq_of_blocks 128 8 (by decide) (by decide); intro j hj
    rw [vecDec8_block _ _ j hj]; simp only [vecDec8u]
    rw [v256p_dec_store_u0_lane _ j hj, laneRows8_fold (fun t sk => v256p_dec_round t.1 t.2.1 t.2.2.1 t.2.2.2 sk) sched _ j hj,
      v256p_dec_rounds_scalar, v256p_dec_load_u0_lane input j hj]
  · apply eq_of_blocks 64 8 (by decide) (by decide); intro j hj
    rw [vecEnc8h_block _ _ j hj]; simp only [vecEnc8hu]
    rw [v64p_enc_store_u0_lane _ j hj, laneRowsH_fold (fun t sk => v64p_enc_round t.1 t.2.1 t.2.2.1 t.2.2.2 sk) sched _ j hj,
      v64p_enc_rounds_scalar, v64p_enc_load_u0_lane input j hj]
  · apply eq_of_blocks 64 8 (by decide) (by decide); intro j hj
    rw [vecDec8h_block _ _ j hj]; simp only [vecDec8hu]
    rw [v64p_dec_store_u0_lane _ j hj, laneRowsH_fold (fun t sk => v64p_dec_round t.1 t.2.1 t.2.2.1 t.2.2.2 sk) sched _ j hj,
      v64p_dec_rounds_scalar, v64p_dec_load_u0_lane input j hj]

end SkinnyVerif.Properties
