/-
C07 / C06, vector back end (Skinny-128 parallel ECB, 128-bit vectors): the function
`_skinny128_parallel_encrypt_vec128` / `_decrypt_vec128`, assembled from its translated pieces - load
(explicit lanes), the round body applied to every lane (lane-generic translation), store (explicit
lanes) - processes each of the four blocks exactly as the scalar block function of the C library does,
hence as the specification (C01).

The assembly `vecEnc4`/`vecDec4` is the hand model of the loop structure and of GCC's element-wise
vector semantics ("the round body acts on every lane separately"); everything inside the pieces is
regenerated from `src/skinny128-parallel-vec128.c` on every run.
-/
import SkinnyVerif.Lemmas.Vec128
import SkinnyVerif.Properties.C01

namespace SkinnyVerif.Properties
open SkinnyVerif SkinnyVerif.Gen SkinnyVerif.Impl SkinnyVerif.Lemmas SkinnyVerif.Spec.Skinny

abbrev Rows32 := BitVec 32 × BitVec 32 × BitVec 32 × BitVec 32
abbrev Rows128 := BitVec 128 × BitVec 128 × BitVec 128 × BitVec 128

/-- element-wise semantics of the vector operators: a lane-generic function acts on every lane -/
def mapRows (f : Rows32 → Rows32) (rows : Rows128) : Rows128 :=
  (packLanes 32 128 (fun j => (f (laneRows rows j)).1) 4, packLanes 32 128 (fun j => (f (laneRows rows j)).2.1) 4,
   packLanes 32 128 (fun j => (f (laneRows rows j)).2.2.1) 4, packLanes 32 128 (fun j => (f (laneRows rows j)).2.2.2) 4)

theorem laneRows_mapRows (f : Rows32 → Rows32) (rows : Rows128) (j : Nat) (hj : j < 4) :
    laneRows (mapRows f rows) j = f (laneRows rows j) := by
  simp only [laneRows, mapRows, lane_packLanes 32 128 _ 4 j (by decide), hj, if_true]

theorem laneRows_fold (g : Rows32 → BitVec 64 → Rows32) (sched : List (BitVec 64)) (rows : Rows128) (j : Nat) (hj : j < 4) :
    laneRows (sched.foldl (fun rws sk => mapRows (fun t => g t sk) rws) rows) j = sched.foldl g (laneRows rows j) := by
  induction sched generalizing rows with
  | nil => rfl
  | cons sk rest ih => simp only [List.foldl_cons]; rw [ih, laneRows_mapRows _ _ j hj]

/-- `_skinny128_parallel_encrypt_vec128` on one group of four blocks -/
def vecEnc4 (sched : List (BitVec 64)) (input : BitVec 512) : BitVec 512 :=
  let rows := sched.foldl (fun rws sk => mapRows (fun t => v128p_enc_round t.1 t.2.1 t.2.2.1 t.2.2.2 sk) rws) (v128p_enc_load input)
  v128p_enc_store rows.1 rows.2.1 rows.2.2.1 rows.2.2.2

def vecDec4 (sched : List (BitVec 64)) (input : BitVec 512) : BitVec 512 :=
  let rows := sched.foldl (fun rws sk => mapRows (fun t => v128p_dec_round t.1 t.2.1 t.2.2.1 t.2.2.2 sk) rws) (v128p_dec_load input)
  v128p_dec_store rows.1 rows.2.1 rows.2.2.1 rows.2.2.2

/-- block `j` of the vector result = the scalar 32-bit rounds on block `j` of the input -/
theorem vecEnc4_block (sched : List (BitVec 64)) (input : BitVec 512) (j : Nat) (hj : j < 4) :
    (vecEnc4 sched input).extractLsb' (128 * j) 128 =
      sched.foldl (fun st sk => skinny128_ecb_encrypt_round_32le st sk) (input.extractLsb' (128 * j) 128) := by
  simp only [vecEnc4]
  rw [v128p_enc_store_lane _ j hj, laneRows_fold (fun t sk => v128p_enc_round t.1 t.2.1 t.2.2.1 t.2.2.2 sk) sched _ j hj,
    v128p_enc_rounds_scalar, v128p_enc_load_lane input j hj]

theorem vecDec4_block (sched : List (BitVec 64)) (input : BitVec 512) (j : Nat) (hj : j < 4) :
    (vecDec4 sched input).extractLsb' (128 * j) 128 =
      sched.foldl (fun st sk => skinny128_ecb_decrypt_round_32le st sk) (input.extractLsb' (128 * j) 128) := by
  simp only [vecDec4]
  rw [v128p_dec_store_lane _ j hj, laneRows_fold (fun t sk => v128p_dec_round t.1 t.2.1 t.2.2.1 t.2.2.2 sk) sched _ j hj,
    v128p_dec_rounds_scalar, v128p_dec_load_lane input j hj]

/-- the schedule entries in the order the encryption loop walks them -/
def schedUp (ks : KeySched 64) : List (BitVec 64) := (List.range ks.rounds).map (fun i => ks.sched.getD i 0)
/-- ... and the decryption loop (from the last entry down) -/
def schedDown (ks : KeySched 64) : List (BitVec 64) := (List.range ks.rounds).map (fun i => ks.sched.getD (ks.rounds - 1 - i) 0)

/-- **C07 for the 128-bit vector back end**: each of the four blocks of a group is encrypted /
decrypted exactly as `skinny128_ecb_encrypt` / `_decrypt` of the 32-bit configuration does -/
theorem C07_vec128_block (ks : KeySched 64) (input : BitVec 512) (j : Nat) (hj : j < 4) (blk : Bytes)
    (hblk : image 128 blk = input.extractLsb' (128 * j) 128) :
    bytesOf 16 ((vecEnc4 (schedUp ks) input).extractLsb' (128 * j) 128) = ecbEncrypt (ops128 .c32le) p128 ks blk ∧
    bytesOf 16 ((vecDec4 (schedDown ks) input).extractLsb' (128 * j) 128) = ecbDecrypt (ops128 .c32le) p128 ks blk := by
  have C := ops128Correct .c32le
  constructor
  · rw [vecEnc4_block _ _ j hj, schedUp, List.foldl_map, ← hblk]
    simp only [ecbEncrypt, p128]
    rw [C.encLoad, C.encStore]
    rfl
  · rw [vecDec4_block _ _ j hj, schedDown, List.foldl_map, ← hblk]
    simp only [ecbDecrypt, p128]
    rw [C.decLoad, C.decStore]
    rfl

/-- ... and therefore as the specification, for every key of a primary size -/
theorem C07_vec128_spec (ks0 : KeySched 64) (hlen : 56 ≤ ks0.sched.length) (key : Bytes)
    (hk : key.length = 16 ∨ key.length = 32 ∨ key.length = 48) (j2 j3 : BitVec 128)
    (input : BitVec 512) (j : Nat) (hj : j < 4) (blk : Bytes) (hblk : image 128 blk = input.extractLsb' (128 * j) 128) :
    let ks := (setKey (ops128 .c32le) guards128 p128 ks0 (some key) key.length j2 j3).2
    bytesOf 16 ((vecEnc4 (schedUp ks) input).extractLsb' (128 * j) 128) = encrypt128 key blk ∧
    bytesOf 16 ((vecDec4 (schedDown ks) input).extractLsb' (128 * j) 128) = decrypt128 key blk := by
  intro ks
  have h := C07_vec128_block ks input j hj blk hblk
  have c := C01_skinny128 .c32le ks0 hlen key blk hk j2 j3
  exact ⟨h.1.trans c.2.1, h.2.trans c.2.2⟩

end SkinnyVerif.Properties
