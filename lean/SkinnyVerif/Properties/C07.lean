/-
C07: parallel ECB equals block-by-block ECB under the specification's block function, for every
whole number of blocks (zero included); the advertised parallel size only groups the work.
The vector back ends are tied to this model by the correspondence check (every block count
0..3·parallel_size+2 on every back end), not by a theorem about their vector code.
-/
import SkinnyVerif.Properties.C01
import SkinnyVerif.Impl.Modes
import SkinnyVerif.Spec.Modes
import SkinnyVerif.Properties.C13

namespace SkinnyVerif.Properties
open SkinnyVerif SkinnyVerif.Impl SkinnyVerif.Lemmas SkinnyVerif.Spec.Modes SkinnyVerif.Spec.Skinny SkinnyVerif.Api

theorem parallelBlocks_eq (F : Bytes → Bytes) (bs : Nat) (hbs : bs ≠ 0) (fuel : Nat) (input : Bytes) :
    parallelBlocks F bs fuel input = (chunks bs fuel input).flatMap F := by
  induction fuel generalizing input with
  | zero => rfl
  | succ n ih =>
    simp only [parallelBlocks, chunks, hbs, or_false]
    by_cases h : input.length < bs
    · simp [h]
    · simp [h, ih]

theorem parallelBlocks_eq_ecb (F : Bytes → Bytes) (bs : Nat) (hbs : bs ≠ 0) (input : Bytes) :
    parallelBlocks F bs (input.length + 1) input = ecb F bs input :=
  parallelBlocks_eq F bs hbs _ input

/-- Skinny-128 parallel ECB under a key of a primary size = the specification block by block -/
theorem C07_skinny128 (t : Tag) (ks0 : KeySched 64) (hlen : 56 ≤ ks0.sched.length) (key input : Bytes)
    (hk : key.length = 16 ∨ key.length = 32 ∨ key.length = 48) (j2 j3 : BitVec 128) :
    let ks := (setKey (ops128 t) guards128 p128 ks0 (some key) key.length j2 j3).2
    parallelBlocks (ecbEncrypt (ops128 t) p128 ks) 16 (input.length + 1) input = ecb (encrypt128 key) 16 input ∧
    parallelBlocks (ecbDecrypt (ops128 t) p128 ks) 16 (input.length + 1) input = ecb (decrypt128 key) 16 input := by
  intro ks
  have he : ecbEncrypt (ops128 t) p128 ks = encrypt128 key := funext fun blk => (C01_skinny128 t ks0 hlen key blk hk j2 j3).2.1
  have hd : ecbDecrypt (ops128 t) p128 ks = decrypt128 key := funext fun blk => (C01_skinny128 t ks0 hlen key blk hk j2 j3).2.2
  rw [he, hd]
  exact ⟨parallelBlocks_eq_ecb _ 16 (by decide) input, parallelBlocks_eq_ecb _ 16 (by decide) input⟩

theorem C07_skinny64 (t : Tag) (ks0 : KeySched 32) (hlen : 40 ≤ ks0.sched.length) (key input : Bytes)
    (hk : key.length = 8 ∨ key.length = 16 ∨ key.length = 24) (j2 j3 : BitVec 64) :
    let ks := (setKey (ops64 t) guards64 p64 ks0 (some key) key.length j2 j3).2
    parallelBlocks (ecbEncrypt (ops64 t) p64 ks) 8 (input.length + 1) input = ecb (encrypt64 key) 8 input ∧
    parallelBlocks (ecbDecrypt (ops64 t) p64 ks) 8 (input.length + 1) input = ecb (decrypt64 key) 8 input := by
  intro ks
  have he : ecbEncrypt (ops64 t) p64 ks = encrypt64 key := funext fun blk => (C01_skinny64 t ks0 hlen key blk hk j2 j3).2.1
  have hd : ecbDecrypt (ops64 t) p64 ks = decrypt64 key := funext fun blk => (C01_skinny64 t ks0 hlen key blk hk j2 j3).2.2
  rw [he, hd]
  exact ⟨parallelBlocks_eq_ecb _ 8 (by decide) input, parallelBlocks_eq_ecb _ 8 (by decide) input⟩

/-- the output has the length of the input when that is a whole number of blocks (and `F` returns blocks) -/
theorem ecb_length (F : Bytes → Bytes) (bs : Nat) (hbs : 0 < bs) (hF : ∀ x, (F x).length = bs) (fuel : Nat) (input : Bytes)
    (hl : input.length % bs = 0) (hfuel : input.length < fuel * bs) :
    ((chunks bs fuel input).flatMap F).length = input.length := by
  induction fuel generalizing input with
  | zero => simp at hfuel
  | succ n ih =>
    have hbs' : bs ≠ 0 := by omega
    simp only [chunks, hbs', or_false]
    by_cases h : input.length < bs
    · have : input.length = 0 := by
        have := Nat.mod_eq_of_lt h; omega
      rw [if_pos h]; simp [this]
    · simp only [h, if_false, List.flatMap_cons, List.length_append, hF]
      have hd : (input.drop bs).length = input.length - bs := List.length_drop
      rw [ih (input.drop bs) (by rw [hd]; have := Nat.sub_mod_eq_zero_of_mod_eq (m := input.length) (n := bs) (k := bs) (by simp [hl]); simpa using this)
        (by rw [hd, Nat.succ_mul] at *; omega), hd]
      omega

/-- the advertised parallel size is a positive multiple of the block size (`C13_parallel_size`) -/
theorem C07_parallel_size (bd : Build) (f : Family) (p : Probes) (w : World) (old : Handle) (w' : World) (h' : Handle)
    (hinit : parInit bd f p w (some old) = .ok (w', 1, some h')) : 0 < h'.psize ∧ h'.psize % f.bs = 0 :=
  (C13_parallel_size bd f p w old w' h' hinit).2

end SkinnyVerif.Properties
