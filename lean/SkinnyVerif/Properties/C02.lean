/-
C02: MANTIS-5..8 block processing conforms to the specification, for every key, tweak and block,
in every word-size / endianness configuration: a schedule keyed for encryption computes
`Spec.Mantis.encrypt`, one keyed for decryption computes `Spec.Mantis.decrypt`; the tweak may come
from the schedule (`mantis_set_tweak`, NULL = zero) or with the call; a fresh schedule uses the
zero tweak.
-/
import SkinnyVerif.Lemmas.MantisRefine
import SkinnyVerif.Lemmas.MantisKeys
import SkinnyVerif.Lemmas.MantisPieces_64le
import SkinnyVerif.Lemmas.MantisPieces_32le
import SkinnyVerif.Lemmas.MantisPieces_64be
import SkinnyVerif.Lemmas.MantisPieces_32be
import SkinnyVerif.Lemmas.GuardLemmas

namespace SkinnyVerif.Properties
open SkinnyVerif SkinnyVerif.Gen SkinnyVerif.Impl SkinnyVerif.Lemmas SkinnyVerif.Spec.Skinny SkinnyVerif.Spec.Mantis

theorem mantisPieces (t : Tag) : MantisPiecesOK (opsMantis t) := by
  cases t
  · exact mantisPieces_64le
  · exact mantisPieces_32le
  · exact mantisPieces_64be
  · exact mantisPieces_32be

theorem mantisKeys (t : Tag) : MantisKeysOK (opsMantis t) := by
  cases t
  · exact mantisKeys_64le
  · exact mantisKeys_32le
  · exact mantisKeys_64be
  · exact mantisKeys_32be

/-! ## images of the halves of a 16-byte key -/

theorem image128_lo (l : Bytes) : (image 128 l).extractLsb' 0 64 = image 64 l := by
  apply BitVec.eq_of_toNat_eq
  simp only [image, BitVec.extractLsb'_toNat, BitVec.toNat_ofNat, Nat.shiftRight_zero]
  omega

theorem image128_hi (l : Bytes) (hl : 8 ≤ l.length) : (image 128 l).extractLsb' 64 64 = image 64 (l.drop 8) := by
  apply BitVec.eq_of_toNat_eq
  simp only [image, BitVec.extractLsb'_toNat, BitVec.toNat_ofNat]
  have hsplit : leNat l = leNat (l.take 8) + 2 ^ 64 * leNat (l.drop 8) := by
    conv => lhs; rw [← List.take_append_drop 8 l]
    rw [leNat_append, List.length_take, Nat.min_eq_left hl]
  have hlt : leNat (l.take 8) < 2 ^ 64 := by
    have := leNat_lt (l.take 8)
    rw [List.length_take, Nat.min_eq_left hl] at this
    exact this
  rw [hsplit, Nat.shiftRight_eq_div_pow]
  generalize leNat (l.take 8) = a at *
  generalize leNat (l.drop 8) = b
  have h1 : (a + 2 ^ 64 * b) % 2 ^ 128 = a + 2 ^ 64 * (b % 2 ^ 64) := by omega
  rw [h1]
  omega

theorem image64_zeros : image 64 (zeros 8) = 0 := by decide

/-! ## key material after `mantis_set_key` -/

theorem keysOf_enc (t : Tag) (key : Bytes) (hk : key.length = 16) (rounds : Nat) :
    keysOf { MantisKey.ofImage ((opsMantis t).setKeyEnc (image 128 key)).2 with rounds := rounds } = encKeys key := by
  have K := mantisKeys t
  simp only [keysOf, encKeys, K.enc_k0, K.enc_k0p, K.enc_k1, image128_lo, image128_hi key (by omega)]
  have h8 : (key.take 8).length = 8 := by simp [hk]
  have h8' : ((key.drop 8).take 8).length = 8 := by simp [hk]
  rw [beWord_bswap _ h8, beWord_bswap _ h8', cellsOfWord_bswap, cellsOfWord_bswap, rot_le_cells,
    image_take 64 key 8 (by decide), image_take 64 (key.drop 8) 8 (by decide)]

theorem keysOf_dec (t : Tag) (key : Bytes) (hk : key.length = 16) (rounds : Nat) :
    keysOf { MantisKey.ofImage ((opsMantis t).setKeyDec (image 128 key)).2 with rounds := rounds } = decKeys key := by
  have K := mantisKeys t
  simp only [keysOf, decKeys, encKeys, K.dec_k0, K.dec_k0p, K.dec_k1, image128_lo, image128_hi key (by omega), cells4_xor, alphaImg_cells]
  have h8 : (key.take 8).length = 8 := by simp [hk]
  have h8' : ((key.drop 8).take 8).length = 8 := by simp [hk]
  rw [beWord_bswap _ h8, beWord_bswap _ h8', cellsOfWord_bswap, cellsOfWord_bswap, rot_le_cells,
    image_take 64 key 8 (by decide), image_take 64 (key.drop 8) 8 (by decide)]

/-- the specification's `mode`: 1 = `MANTIS_ENCRYPT`, anything else = decrypt -/
def specCrypt (mode : Int) (r : Nat) (key tweak blk : Bytes) : Bytes :=
  if mode = 1 then Spec.Mantis.encrypt r key tweak blk else Spec.Mantis.decrypt r key tweak blk

/-- **C02** -/
theorem C02_mantis (t : Tag) (ks0 : MantisKey) (key tweak blk : Bytes) (hk : key.length = 16) (rounds : Nat)
    (hr : 5 ≤ rounds ∧ rounds ≤ 8) (mode : Int) :
    let o := opsMantis t
    let r := mantisSetKey o ks0 (some key) 16 rounds mode
    r.1 = 1 ∧
    -- a freshly keyed schedule uses the all-zero tweak
    mantisCrypt o r.2 blk = specCrypt mode rounds key (zeros 8) blk ∧
    -- the tweak supplied with the call
    mantisCryptTweaked o r.2 tweak blk = specCrypt mode rounds key tweak blk ∧
    -- the tweak supplied through the schedule
    (mantisSetTweak o r.2 (some tweak) 8).1 = 1 ∧
    mantisCrypt o (mantisSetTweak o r.2 (some tweak) 8).2 blk = specCrypt mode rounds key tweak blk ∧
    -- a NULL tweak is the zero tweak
    mantisCrypt o (mantisSetTweak o r.2 none 8).2 blk = specCrypt mode rounds key (zeros 8) blk := by
  intro o r
  have hg : mantisSetKeyGuard false (some key).isNone 16 rounds mode = false := by
    rw [guardMantis_setKey _ _ _ _ (by decide) (by omega)]
    simp; omega
  have hgt : ∀ tw : Option Bytes, mantisSetTweakGuard false tw.isNone 8 = false := by
    intro tw; rw [guardMantis_setTweak _ _ (by decide)]; simp
  have P := mantisPieces t
  have K := mantisKeys t
  have RC := mantis_rc_ok t
  have hr2 : r.2.rounds = rounds := by
    simp only [r, mantisSetKey, hg, Bool.false_eq_true, if_false]
  have hkeys : keysOf r.2 = if mode = 1 then encKeys key else decKeys key := by
    simp only [r, mantisSetKey, hg, Bool.false_eq_true, if_false]
    by_cases hm : mode = 1
    · simp only [hm, if_true]; exact keysOf_enc t key hk rounds
    · simp only [hm, if_false]; exact keysOf_dec t key hk rounds
  have htw0 : r.2.tweak = 0 := by
    simp only [r, mantisSetKey, hg, Bool.false_eq_true, if_false]
    by_cases hm : mode = 1
    · simp only [hm, if_true]; exact K.enc_tw _
    · simp only [hm, if_false]; exact K.dec_tw _
  have hz : cells4 (0 : BitVec 64) = cellsOfBytes4 (zeros 8) := by rw [cellsOfBytes4_eq, image64_zeros]
  have spec_eq : ∀ tw : Bytes, bytesOfCells4 (crypt rounds (if mode = 1 then encKeys key else decKeys key) (cellsOfBytes4 tw) (cellsOfBytes4 blk)) =
      specCrypt mode rounds key tw blk := by
    intro tw; simp only [specCrypt, Spec.Mantis.encrypt, Spec.Mantis.decrypt]; split <;> rfl
  refine ⟨?_, ?_, ?_, ?_, ?_, ?_⟩
  · simp only [r, mantisSetKey, hg, Bool.false_eq_true, if_false]
  · rw [mantisCrypt_spec o P RC r.2 (by omega) blk, hr2, hkeys, htw0, hz, ← cellsOfBytes4_eq]; exact spec_eq _
  · rw [mantisCryptTweaked_spec o P RC r.2 (by omega) tweak blk, hr2, hkeys, ← cellsOfBytes4_eq, ← cellsOfBytes4_eq]; exact spec_eq _
  · simp only [mantisSetTweak, hgt, Bool.false_eq_true, if_false]
  · have hks : (mantisSetTweak o r.2 (some tweak) 8).2 = { r.2 with tweak := image 64 tweak } := by
      simp only [mantisSetTweak, hgt, Bool.false_eq_true, if_false]
      rw [K.unpack0, image128_lo, image_take 64 tweak 8 (by decide)]
    rw [hks, mantisCrypt_spec o P RC _ (by simp only; omega) blk]
    simp only [keysOf] at hkeys ⊢
    rw [hr2, hkeys, ← cellsOfBytes4_eq, ← cellsOfBytes4_eq]; exact spec_eq _
  · have hks : (mantisSetTweak o r.2 none 8).2 = { r.2 with tweak := 0 } := by
      simp only [mantisSetTweak, hgt, Bool.false_eq_true, if_false]
    rw [hks, mantisCrypt_spec o P RC _ (by simp only; omega) blk]
    simp only [keysOf] at hkeys ⊢
    rw [hr2, hkeys, hz, ← cellsOfBytes4_eq]; exact spec_eq _


/-! ## mode switching (used by C03) -/

theorem xorCells_alpha_twice (c : Cells 4) : xorCells (xorCells c (cellsOfWord alpha)) (cellsOfWord alpha) = c := by
  apply Vector.ext; intro j hj
  simp only [xorCells_get, BitVec.xor_assoc, BitVec.xor_self, BitVec.xor_zero]

/-- `mantis_swap_modes` turns the key material of an encryption schedule into that of the
decryption schedule and back; tweak and round count are kept -/
theorem C02_swap_modes (t : Tag) (ks : MantisKey) :
    let s := mantisSwapModes (opsMantis t) ks
    keysOf s = { k0 := (keysOf ks).k0', k0' := (keysOf ks).k0, k1 := xorCells (keysOf ks).k1 (cellsOfWord alpha) } ∧
    s.tweak = ks.tweak ∧ s.rounds = ks.rounds := by
  have K := mantisKeys t
  simp only [mantisSwapModes, keysOf, K.swap_k0, K.swap_k0p, K.swap_k1, K.swap_tw, cells4_xor, alphaImg_cells, and_self]

theorem C02_swap_enc_is_dec (t : Tag) (ks : MantisKey) (key : Bytes) (h : keysOf ks = encKeys key) :
    keysOf (mantisSwapModes (opsMantis t) ks) = decKeys key := by
  rw [(C02_swap_modes t ks).1, h]; rfl

theorem C02_swap_dec_is_enc (t : Tag) (ks : MantisKey) (key : Bytes) (h : keysOf ks = decKeys key) :
    keysOf (mantisSwapModes (opsMantis t) ks) = encKeys key := by
  rw [(C02_swap_modes t ks).1, h]
  simp only [decKeys, xorCells_alpha_twice]

/-- block processing depends on the schedule only through its key material, tweak and rounds -/
theorem C02_crypt_of_keys (t : Tag) (ks : MantisKey) (hr : ks.rounds ≤ 8) (blk : Bytes) :
    mantisCrypt (opsMantis t) ks blk =
      bytesOfCells4 (crypt ks.rounds (keysOf ks) (cells4 ks.tweak) (cellsOfBytes4 blk)) := by
  rw [mantisCrypt_spec _ (mantisPieces t) (mantis_rc_ok t) ks hr blk, cellsOfBytes4_eq]

end SkinnyVerif.Properties
