/-
C04 -- tweakable SKINNY: after `set_tweaked_key` and any finite sequence of tweak changes the
schedule encrypts and decrypts as the specification's cipher with TK1 = the most recent tweak
(zero-padded; null = all-zero; none yet = all-zero), the tweak-domain constant set, and the key
(zero-padded to a primary size) in TK2/TK3 -- never depending on earlier tweaks.
-/
import SkinnyVerif.Properties.C10
import SkinnyVerif.Lemmas.Tweak

namespace SkinnyVerif.Properties
open SkinnyVerif SkinnyVerif.Spec.Skinny SkinnyVerif.Impl SkinnyVerif.Lemmas

/-- a tweak change as passed to the API: pointer (or null) and length -/
abbrev TweakArg := Option Bytes × Nat

/-- the tweak a valid call denotes -/
def effTweak (bs : Nat) (a : TweakArg) : Bytes := tweakBytes bs a.1 a.2

def validTweak (bs : Nat) (a : TweakArg) : Prop := 1 ≤ a.2 ∧ a.2 ≤ bs

/-- the most recent tweak of a history (all-zero if there was no change yet) -/
def lastTweak (bs : Nat) (hist : List TweakArg) : Bytes :=
  match hist.getLast? with
  | none => zeros bs
  | some a => effTweak bs a

def applyTweaks128 (t : Tag) (tk : TweakedKey 64) (hist : List TweakArg) : TweakedKey 64 :=
  hist.foldl (fun tk a => (setTweak (ops128 t) guards128 p128 tk a.1 a.2).2) tk

/-- invariant carried through the history -/
def TInv128 (tk : TweakedKey 64) (T : Bytes) (c2 c3 : Cells 8) (r : Nat) : Prop :=
  TopsFor abs128 tk.ks ⟨cells8 (image 128 T), c2, c3⟩ 2 ∧ tk.tweak = T ∧ tk.ks.rounds = r ∧ r ≤ tk.ks.sched.length

theorem setTweak128_inv (t : Tag) (tk : TweakedKey 64) (T : Bytes) (c2 c3 : Cells 8) (r : Nat) (a : TweakArg)
    (hv : validTweak 16 a) (hinv : TInv128 tk T c2 c3 r) :
    (setTweak (ops128 t) guards128 p128 tk a.1 a.2).1 = 1 ∧
    TInv128 (setTweak (ops128 t) guards128 p128 tk a.1 a.2).2 (effTweak 16 a) c2 c3 r := by
  obtain ⟨htops, htw, hr, hlen⟩ := hinv
  have hg : guards128.setTweak false a.1.isNone (BitVec.ofNat 32 a.2) = false := by
    rw [guard128_setTweak _ _ (by have := hv.2; omega)]
    have := hv.1; have := hv.2
    simp; omega
  have hx := xorTk1_twice abs128 (ops128 t) (opsG128 t) tk.ks tk.tweak (effTweak 16 a) c2 c3 2 (by rw [hr]; exact hlen)
    (by rw [htw]; exact htops)
  obtain ⟨h1, h2, h3⟩ := hx
  have he : tweakBytes p128.bs a.1 a.2 = effTweak 16 a := rfl
  simp only [setTweak, hg, Bool.false_eq_true, if_false, he]
  exact ⟨by trivial, h1, rfl, by rw [h2, hr], by rw [h3]; exact hlen⟩

theorem applyTweaks128_inv (t : Tag) (hist : List TweakArg) (tk : TweakedKey 64) (T : Bytes) (c2 c3 : Cells 8) (r : Nat)
    (hv : ∀ a ∈ hist, validTweak 16 a) (hinv : TInv128 tk T c2 c3 r) :
    TInv128 (applyTweaks128 t tk hist) (match hist.getLast? with | none => T | some a => effTweak 16 a) c2 c3 r := by
  induction hist generalizing tk T with
  | nil => simpa [applyTweaks128] using hinv
  | cons a rest ih =>
    have h1 := (setTweak128_inv t tk T c2 c3 r a (hv a (by simp)) hinv).2
    have h2 := ih (setTweak (ops128 t) guards128 p128 tk a.1 a.2).2 (effTweak 16 a) (fun x hx => hv x (by simp [hx])) h1
    simp only [applyTweaks128, List.foldl_cons] at h2 ⊢
    cases hrest : rest.getLast? with
    | none =>
      have : rest = [] := by simpa using hrest
      subst this
      simpa using h1
    | some x =>
      have hl : (a :: rest).getLast? = some x := by
        cases rest with
        | nil => simp at hrest
        | cons y ys => simpa [List.getLast?_cons_cons] using hrest
      rw [hrest] at h2
      rw [hl]
      exact h2

/-- SKINNY-128 tweakable schedules: any key length 16..32, any history of valid tweak changes -/
theorem C04_skinny128 (t : Tag) (tk0 : TweakedKey 64) (hlen : 56 ≤ tk0.ks.sched.length) (key : Bytes) (size : Nat)
    (hs1 : 16 ≤ size) (hs2 : size ≤ 32) (hkey : size ≤ key.length) (j2 j3 : BitVec 128)
    (hist : List TweakArg) (hv : ∀ a ∈ hist, validTweak 16 a) (blk : Bytes) :
    let r := setTweakedKey (ops128 t) guards128 p128 tk0 (some key) size j2 j3
    let tk := applyTweaks128 t r.2 hist
    let K := padRight (if size = 16 then 16 else 32) (key.take size)
    r.1 = 1 ∧
    ecbEncrypt (ops128 t) p128 tk.ks blk = encryptTweaked128 K (lastTweak 16 hist) blk ∧
    ecbDecrypt (ops128 t) p128 tk.ks blk = decryptTweaked128 K (lastTweak 16 hist) blk := by
  intro r tk K
  have hg : guards128.setTweakedKey false (some key).isNone (BitVec.ofNat 32 size) = false := by
    rw [guard128_setTweakedKey _ _ (by omega)]; simp; omega
  have hr : r = (1, { ks := setKeyInner (ops128 t) p128 tk0.ks key size (some (zeros 16)) j2 j3, tweak := zeros 16 }) := by
    simp only [r, setTweakedKey, hg, Bool.false_eq_true, if_false, p128]
  have hks := setKeyInner_tweaked abs128 (ops128 t) (opsG128 t) absOK128 p128 (by decide) tk0.ks key (zeros 16) size j2 j3
    (by simp [p128]; omega) (by simp [p128]; omega) (by decide) (by simp [p128]; omega) (by simp [p128]; omega)
  obtain ⟨htops, hrounds, hl⟩ := hks
  have hinv0 : TInv128 r.2 (zeros 16) (cells8 (image 128 (key.take size))) (cells8 (image 128 ((key.take size).drop 16)))
      (if size = p128.bs then p128.r2 else p128.r3) := by
    rw [hr]
    refine ⟨htops, rfl, hrounds, ?_⟩
    show (if size = p128.bs then p128.r2 else p128.r3) ≤ (setKeyInner (ops128 t) p128 tk0.ks key size (some (zeros 16)) j2 j3).sched.length
    rw [hl]; simp only [p128]
    by_cases h16 : size = 16 <;> simp [h16] <;> omega
  have hinv := applyTweaks128_inv t hist r.2 (zeros 16) _ _ _ hv hinv0
  have hT : (match hist.getLast? with | none => zeros 16 | some a => effTweak 16 a) = lastTweak 16 hist := by
    simp only [lastTweak]
  rw [hT] at hinv
  obtain ⟨htops', _, hr', _⟩ := hinv
  have hkeyed := TopsFor.keyed abs128 (ops128 t) (opsG128 t) absOK128 htops'
  -- the specification's tweakey for (tweak ++ padded key)
  have hTlen : (lastTweak 16 hist).length = 16 := by
    simp only [lastTweak]
    split
    · simp [zeros]
    · rename_i a _
      simp only [effTweak, tweakBytes]; split <;> simp [zeros, padRight]
  have hKlen : (key.take size).length = size := by simp; omega
  have hK : K = key.take size ++ zeros ((if size = 16 then 16 else 32) - size) := by
    simp only [K]; rw [padRight_eq _ _ (by rw [hKlen]; split <;> omega), hKlen]
  have htk : tweakey128 (lastTweak 16 hist ++ K) =
      ⟨cells8 (image 128 (lastTweak 16 hist)), cells8 (image 128 (key.take size)), cells8 (image 128 ((key.take size).drop 16))⟩ := by
    rw [tweakey128_eq]
    simp only [implTweakey, abs128]
    have e1 : image 128 (lastTweak 16 hist ++ K) = image 128 (lastTweak 16 hist) := by
      rw [← image_take 128 _ 16 (by decide), List.take_append_of_le_length (by omega), List.take_of_length_le (by omega)]
    have e2 : (lastTweak 16 hist ++ K).drop 16 = K := by
      rw [List.drop_append_of_le_length (by omega), List.drop_of_length_le (by omega), List.nil_append]
    have e3 : (lastTweak 16 hist ++ K).drop (2 * 16) = K.drop 16 := by
      rw [show 2 * 16 = 16 + 16 from rfl, ← List.drop_drop, e2]
    rw [e1, e2, e3, hK, image_append_zeros]
    have e4 : image 128 ((key.take size ++ zeros ((if size = 16 then 16 else 32) - size)).drop 16) = image 128 ((key.take size).drop 16) := by
      rw [List.drop_append_of_le_length (by omega), image_append_zeros]
    rw [e4]
  have hKl : K.length = if size = 16 then 16 else 32 := by simp [K, padRight, zeros]
  have hrr : tk.ks.rounds = rounds128 (K.length / 16 + 1) := by
    rw [hr', hKl]; simp only [p128]
    by_cases h16 : size = 16
    · simp [h16, rounds128]
    · simp [h16, rounds128]
  refine ⟨by rw [hr], ?_, ?_⟩
  · rw [ecbEncrypt_eq, encryptTweaked128, show p128.bs = 16 from rfl, ← bytesOfCells8_cells8]
    congr 1
    have := encrypt_refines abs128 (ops128 t) (opsG128 t) _ _ _ hkeyed (image 128 blk)
    simp only [abs128] at this
    rw [this, hrr, htk, cellsOfBytes8_eq]
  · rw [ecbDecrypt_eq, decryptTweaked128, show p128.bs = 16 from rfl, ← bytesOfCells8_cells8]
    congr 1
    have := decrypt_refines abs128 (ops128 t) (opsG128 t) _ _ _ hkeyed (image 128 blk)
    simp only [abs128] at this
    rw [this, hrr, htk, cellsOfBytes8_eq]

def applyTweaks64 (t : Tag) (tk : TweakedKey 32) (hist : List TweakArg) : TweakedKey 32 :=
  hist.foldl (fun tk a => (setTweak (ops64 t) guards64 p64 tk a.1 a.2).2) tk

/-- invariant carried through the history -/
def TInv64 (tk : TweakedKey 32) (T : Bytes) (c2 c3 : Cells 4) (r : Nat) : Prop :=
  TopsFor abs64 tk.ks ⟨cells4 (image 64 T), c2, c3⟩ 2 ∧ tk.tweak = T ∧ tk.ks.rounds = r ∧ r ≤ tk.ks.sched.length

theorem setTweak64_inv (t : Tag) (tk : TweakedKey 32) (T : Bytes) (c2 c3 : Cells 4) (r : Nat) (a : TweakArg)
    (hv : validTweak 8 a) (hinv : TInv64 tk T c2 c3 r) :
    (setTweak (ops64 t) guards64 p64 tk a.1 a.2).1 = 1 ∧
    TInv64 (setTweak (ops64 t) guards64 p64 tk a.1 a.2).2 (effTweak 8 a) c2 c3 r := by
  obtain ⟨htops, htw, hr, hlen⟩ := hinv
  have hg : guards64.setTweak false a.1.isNone (BitVec.ofNat 32 a.2) = false := by
    rw [guard64_setTweak _ _ (by have := hv.2; omega)]
    have := hv.1; have := hv.2
    simp; omega
  have hx := xorTk1_twice abs64 (ops64 t) (opsG64 t) tk.ks tk.tweak (effTweak 8 a) c2 c3 2 (by rw [hr]; exact hlen)
    (by rw [htw]; exact htops)
  obtain ⟨h1, h2, h3⟩ := hx
  have he : tweakBytes p64.bs a.1 a.2 = effTweak 8 a := rfl
  simp only [setTweak, hg, Bool.false_eq_true, if_false, he]
  exact ⟨by trivial, h1, rfl, by rw [h2, hr], by rw [h3]; exact hlen⟩

theorem applyTweaks64_inv (t : Tag) (hist : List TweakArg) (tk : TweakedKey 32) (T : Bytes) (c2 c3 : Cells 4) (r : Nat)
    (hv : ∀ a ∈ hist, validTweak 8 a) (hinv : TInv64 tk T c2 c3 r) :
    TInv64 (applyTweaks64 t tk hist) (match hist.getLast? with | none => T | some a => effTweak 8 a) c2 c3 r := by
  induction hist generalizing tk T with
  | nil => simpa [applyTweaks64] using hinv
  | cons a rest ih =>
    have h1 := (setTweak64_inv t tk T c2 c3 r a (hv a (by simp)) hinv).2
    have h2 := ih (setTweak (ops64 t) guards64 p64 tk a.1 a.2).2 (effTweak 8 a) (fun x hx => hv x (by simp [hx])) h1
    simp only [applyTweaks64, List.foldl_cons] at h2 ⊢
    cases hrest : rest.getLast? with
    | none =>
      have : rest = [] := by simpa using hrest
      subst this
      simpa using h1
    | some x =>
      have hl : (a :: rest).getLast? = some x := by
        cases rest with
        | nil => simp at hrest
        | cons y ys => simpa [List.getLast?_cons_cons] using hrest
      rw [hrest] at h2
      rw [hl]
      exact h2

/-- SKINNY-64 tweakable schedules: any key length 16..32, any history of valid tweak changes -/
theorem C04_skinny64 (t : Tag) (tk0 : TweakedKey 32) (hlen : 40 ≤ tk0.ks.sched.length) (key : Bytes) (size : Nat)
    (hs1 : 8 ≤ size) (hs2 : size ≤ 16) (hkey : size ≤ key.length) (j2 j3 : BitVec 64)
    (hist : List TweakArg) (hv : ∀ a ∈ hist, validTweak 8 a) (blk : Bytes) :
    let r := setTweakedKey (ops64 t) guards64 p64 tk0 (some key) size j2 j3
    let tk := applyTweaks64 t r.2 hist
    let K := padRight (if size = 8 then 8 else 16) (key.take size)
    r.1 = 1 ∧
    ecbEncrypt (ops64 t) p64 tk.ks blk = encryptTweaked64 K (lastTweak 8 hist) blk ∧
    ecbDecrypt (ops64 t) p64 tk.ks blk = decryptTweaked64 K (lastTweak 8 hist) blk := by
  intro r tk K
  have hg : guards64.setTweakedKey false (some key).isNone (BitVec.ofNat 32 size) = false := by
    rw [guard64_setTweakedKey _ _ (by omega)]; simp; omega
  have hr : r = (1, { ks := setKeyInner (ops64 t) p64 tk0.ks key size (some (zeros 8)) j2 j3, tweak := zeros 8 }) := by
    simp only [r, setTweakedKey, hg, Bool.false_eq_true, if_false, p64]
  have hks := setKeyInner_tweaked abs64 (ops64 t) (opsG64 t) absOK64 p64 (by decide) tk0.ks key (zeros 8) size j2 j3
    (by simp [p64]; omega) (by simp [p64]; omega) (by decide) (by simp [p64]; omega) (by simp [p64]; omega)
  obtain ⟨htops, hrounds, hl⟩ := hks
  have hinv0 : TInv64 r.2 (zeros 8) (cells4 (image 64 (key.take size))) (cells4 (image 64 ((key.take size).drop 8)))
      (if size = p64.bs then p64.r2 else p64.r3) := by
    rw [hr]
    refine ⟨htops, rfl, hrounds, ?_⟩
    show (if size = p64.bs then p64.r2 else p64.r3) ≤ (setKeyInner (ops64 t) p64 tk0.ks key size (some (zeros 8)) j2 j3).sched.length
    rw [hl]; simp only [p64]
    by_cases h16 : size = 8 <;> simp [h16] <;> omega
  have hinv := applyTweaks64_inv t hist r.2 (zeros 8) _ _ _ hv hinv0
  have hT : (match hist.getLast? with | none => zeros 8 | some a => effTweak 8 a) = lastTweak 8 hist := by
    simp only [lastTweak]
  rw [hT] at hinv
  obtain ⟨htops', _, hr', _⟩ := hinv
  have hkeyed := TopsFor.keyed abs64 (ops64 t) (opsG64 t) absOK64 htops'
  -- the specification's tweakey for (tweak ++ padded key)
  have hTlen : (lastTweak 8 hist).length = 8 := by
    simp only [lastTweak]
    split
    · simp [zeros]
    · rename_i a _
      simp only [effTweak, tweakBytes]; split <;> simp [zeros, padRight]
  have hKlen : (key.take size).length = size := by simp; omega
  have hK : K = key.take size ++ zeros ((if size = 8 then 8 else 16) - size) := by
    simp only [K]; rw [padRight_eq _ _ (by rw [hKlen]; split <;> omega), hKlen]
  have htk : tweakey64 (lastTweak 8 hist ++ K) =
      ⟨cells4 (image 64 (lastTweak 8 hist)), cells4 (image 64 (key.take size)), cells4 (image 64 ((key.take size).drop 8))⟩ := by
    rw [tweakey64_eq]
    simp only [implTweakey, abs64]
    have e1 : image 64 (lastTweak 8 hist ++ K) = image 64 (lastTweak 8 hist) := by
      rw [← image_take 64 _ 8 (by decide), List.take_append_of_le_length (by omega), List.take_of_length_le (by omega)]
    have e2 : (lastTweak 8 hist ++ K).drop 8 = K := by
      rw [List.drop_append_of_le_length (by omega), List.drop_of_length_le (by omega), List.nil_append]
    have e3 : (lastTweak 8 hist ++ K).drop (2 * 8) = K.drop 8 := by
      rw [show 2 * 8 = 8 + 8 from rfl, ← List.drop_drop, e2]
    rw [e1, e2, e3, hK, image_append_zeros]
    have e4 : image 64 ((key.take size ++ zeros ((if size = 8 then 8 else 16) - size)).drop 8) = image 64 ((key.take size).drop 8) := by
      rw [List.drop_append_of_le_length (by omega), image_append_zeros]
    rw [e4]
  have hKl : K.length = if size = 8 then 8 else 16 := by simp [K, padRight, zeros]
  have hrr : tk.ks.rounds = rounds64 (K.length / 8 + 1) := by
    rw [hr', hKl]; simp only [p64]
    by_cases h16 : size = 8
    · simp [h16, rounds64]
    · simp [h16, rounds64]
  refine ⟨by rw [hr], ?_, ?_⟩
  · rw [ecbEncrypt_eq, encryptTweaked64, show p64.bs = 8 from rfl, ← bytesOfCells4_cells4]
    congr 1
    have := encrypt_refines abs64 (ops64 t) (opsG64 t) _ _ _ hkeyed (image 64 blk)
    simp only [abs64] at this
    rw [this, hrr, htk, cellsOfBytes4_eq]
  · rw [ecbDecrypt_eq, decryptTweaked64, show p64.bs = 8 from rfl, ← bytesOfCells4_cells4]
    congr 1
    have := decrypt_refines abs64 (ops64 t) (opsG64 t) _ _ _ hkeyed (image 64 blk)
    simp only [abs64] at this
    rw [this, hrr, htk, cellsOfBytes4_eq]

/-- non-vacuity: a history with a short tweak, a null tweak and a full tweak is valid -/
example : ∀ a ∈ ([(some [1, 2, 3], 3), (none, 16), (some (List.replicate 16 9), 16)] : List TweakArg), validTweak 16 a := by
  intro a ha
  simp at ha
  rcases ha with h | h | h <;> subst h <;> simp [validTweak]

end SkinnyVerif.Properties
