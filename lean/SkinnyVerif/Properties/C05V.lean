/-
C05 / C06, vector CTR back ends: the per-lane counter increments.

The SIMD CTR contexts keep their 4 or 8 lane counters in a *strided* image (row `r` of lane `c` holds
bytes `4r..4r+3` - or `2r..2r+1` - of counter `c`).  `*_ctr_increment(counter, column, inc)` adds `inc`
to one column.  The translator regenerates that function for every constant column from the four
vector CTR files on every run; the theorems below say, for every image, every column and every
increment that the 32-bit accumulator can hold (`inc + 255 < 2^32`; the code uses 1..8):

* the column, read as a big-endian number, becomes `(old + inc) mod 2^(8·bs)` - carries through every
  byte and wrap-around included;
* every byte of the image outside the column is unchanged - so the other lane counters keep their values.

This is the obligation the "B-lane" state machine of `Properties/C06.lean` assumes of the vector code
(`IncSpec` per lane).  The positions `pos*` are the layout formula, not read off the code.
-/
import SkinnyVerif.Lemmas.VecCounter128
import SkinnyVerif.Lemmas.VecCounter256
import SkinnyVerif.Lemmas.VecCounter64
import SkinnyVerif.Lemmas.VecCounterM
import SkinnyVerif.Gen.Facts

namespace SkinnyVerif.Properties
open SkinnyVerif SkinnyVerif.Gen SkinnyVerif.Lemmas

/-- a column of the strided image, as the number the CTR mode counts with (`qs` least significant byte first) -/
abbrev columnValue {w : Nat} (qs : List Nat) (img : BitVec w) : Nat := colVal qs img

/-! ## Skinny-128, 128-bit vectors (`skinny128-ctr-vec128.c`, four lane counters) -/

/-- the translated increment for column `c` -/
def v128cInc : Nat → BitVec 512 → BitVec 32 → BitVec 512
  | 0 => v128c_inc_0
  | 1 => v128c_inc_1
  | 2 => v128c_inc_2
  | 3 => v128c_inc_3
  | _ => fun img _ => img

theorem v128cInc_lanes (c : Nat) (hc : c < 4) (img : BitVec 512) (k : BitVec 32) (q : Nat) (hq : q < 64) :
    lane 8 q (v128cInc c img k) = chainLane img (pos128 c) k q := by
  nat_cases c 4
  · exact v128c_inc_0_lanes img k q hq
  · exact v128c_inc_1_lanes img k q hq
  · exact v128c_inc_2_lanes img k q hq
  · exact v128c_inc_3_lanes img k q hq

theorem pos128_nodup (c : Nat) (hc : c < 4) : (pos128 c).Nodup := by nat_cases c 4 <;> decide
theorem pos128_lt (c : Nat) (hc : c < 4) : ∀ q ∈ pos128 c, q < 64 := by nat_cases c 4 <;> decide
theorem pos128_disjoint (c c' : Nat) (hc : c < 4) (hc' : c' < 4) (hne : c ≠ c') : ∀ q ∈ pos128 c', q ∉ pos128 c := by
  nat_cases c 4 <;> nat_cases c' 4 <;> first | (exfalso; exact hne rfl) | decide

/-- **lane increment, Skinny-128, 128-bit vectors**: column `c` becomes `(old + inc) mod 2^128`, every other
byte of the image - in particular every other lane counter - is unchanged -/
theorem C05_v128c_increment (c : Nat) (hc : c < 4) (img : BitVec 512) (k : BitVec 32) :
    (k.toNat + 255 < 2 ^ 32 → columnValue (pos128 c) (v128cInc c img k) = (columnValue (pos128 c) img + k.toNat) % 2 ^ 128) ∧
    (∀ q, q < 64 → q ∉ pos128 c → lane 8 q (v128cInc c img k) = lane 8 q img) ∧
    (∀ c', c' < 4 → c' ≠ c → columnValue (pos128 c') (v128cInc c img k) = columnValue (pos128 c') img) := by
  have h := chain_column (v128cInc c) (pos128 c) 64 (pos128_nodup c hc) (pos128_lt c hc) (fun img k q hq => v128cInc_lanes c hc img k q hq) img k
  have hlen : (pos128 c).length = 16 := by simp [pos128]
  have hpow : (256 : Nat) ^ 16 = 2 ^ 128 := by decide
  refine ⟨fun hk => ?_, h.2, fun c' hc' hne => ?_⟩
  · have := h.1 hk
    rw [hlen, hpow] at this
    exact this
  · simp only [columnValue, colVal]
    congr 1
    apply List.map_congr_left
    intro q hq
    rw [h.2 q (pos128_lt c' hc' q hq) (pos128_disjoint c c' hc hc' (Ne.symm hne) q hq)]

/-! ## Skinny-128, 256-bit vectors (`skinny128-ctr-vec256.c`, eight lane counters) -/

/-- the translated increment for column `c` -/
def v256cInc : Nat → BitVec 1024 → BitVec 32 → BitVec 1024
  | 0 => v256c_inc_0
  | 1 => v256c_inc_1
  | 2 => v256c_inc_2
  | 3 => v256c_inc_3
  | 4 => v256c_inc_4
  | 5 => v256c_inc_5
  | 6 => v256c_inc_6
  | 7 => v256c_inc_7
  | _ => fun img _ => img

theorem v256cInc_lanes (c : Nat) (hc : c < 8) (img : BitVec 1024) (k : BitVec 32) (q : Nat) (hq : q < 128) :
    lane 8 q (v256cInc c img k) = chainLane img (pos256 c) k q := by
  nat_cases c 8
  · exact v256c_inc_0_lanes img k q hq
  · exact v256c_inc_1_lanes img k q hq
  · exact v256c_inc_2_lanes img k q hq
  · exact v256c_inc_3_lanes img k q hq
  · exact v256c_inc_4_lanes img k q hq
  · exact v256c_inc_5_lanes img k q hq
  · exact v256c_inc_6_lanes img k q hq
  · exact v256c_inc_7_lanes img k q hq

theorem pos256_nodup (c : Nat) (hc : c < 8) : (pos256 c).Nodup := by nat_cases c 8 <;> decide
theorem pos256_lt (c : Nat) (hc : c < 8) : ∀ q ∈ pos256 c, q < 128 := by nat_cases c 8 <;> decide
theorem pos256_disjoint (c c' : Nat) (hc : c < 8) (hc' : c' < 8) (hne : c ≠ c') : ∀ q ∈ pos256 c', q ∉ pos256 c := by
  nat_cases c 8 <;> nat_cases c' 8 <;> first | (exfalso; exact hne rfl) | decide

/-- **lane increment, Skinny-128, 256-bit vectors**: column `c` becomes `(old + inc) mod 2^128`, every other
byte of the image - in particular every other lane counter - is unchanged -/
theorem C05_v256c_increment (c : Nat) (hc : c < 8) (img : BitVec 1024) (k : BitVec 32) :
    (k.toNat + 255 < 2 ^ 32 → columnValue (pos256 c) (v256cInc c img k) = (columnValue (pos256 c) img + k.toNat) % 2 ^ 128) ∧
    (∀ q, q < 128 → q ∉ pos256 c → lane 8 q (v256cInc c img k) = lane 8 q img) ∧
    (∀ c', c' < 8 → c' ≠ c → columnValue (pos256 c') (v256cInc c img k) = columnValue (pos256 c') img) := by
  have h := chain_column (v256cInc c) (pos256 c) 128 (pos256_nodup c hc) (pos256_lt c hc) (fun img k q hq => v256cInc_lanes c hc img k q hq) img k
  have hlen : (pos256 c).length = 16 := by simp [pos256]
  have hpow : (256 : Nat) ^ 16 = 2 ^ 128 := by decide
  refine ⟨fun hk => ?_, h.2, fun c' hc' hne => ?_⟩
  · have := h.1 hk
    rw [hlen, hpow] at this
    exact this
  · simp only [columnValue, colVal]
    congr 1
    apply List.map_congr_left
    intro q hq
    rw [h.2 q (pos256_lt c' hc' q hq) (pos256_disjoint c c' hc hc' (Ne.symm hne) q hq)]

/-! ## Skinny-64, 128-bit vectors (`skinny64-ctr-vec128.c`, eight lane counters) -/

/-- the translated increment for column `c` -/
def v64cInc : Nat → BitVec 512 → BitVec 32 → BitVec 512
  | 0 => v64c_inc_0
  | 1 => v64c_inc_1
  | 2 => v64c_inc_2
  | 3 => v64c_inc_3
  | 4 => v64c_inc_4
  | 5 => v64c_inc_5
  | 6 => v64c_inc_6
  | 7 => v64c_inc_7
  | _ => fun img _ => img

theorem v64cInc_lanes (c : Nat) (hc : c < 8) (img : BitVec 512) (k : BitVec 32) (q : Nat) (hq : q < 64) :
    lane 8 q (v64cInc c img k) = chainLane img (pos64 c) k q := by
  nat_cases c 8
  · exact v64c_inc_0_lanes img k q hq
  · exact v64c_inc_1_lanes img k q hq
  · exact v64c_inc_2_lanes img k q hq
  · exact v64c_inc_3_lanes img k q hq
  · exact v64c_inc_4_lanes img k q hq
  · exact v64c_inc_5_lanes img k q hq
  · exact v64c_inc_6_lanes img k q hq
  · exact v64c_inc_7_lanes img k q hq

theorem pos64_nodup (c : Nat) (hc : c < 8) : (pos64 c).Nodup := by nat_cases c 8 <;> decide
theorem pos64_lt (c : Nat) (hc : c < 8) : ∀ q ∈ pos64 c, q < 64 := by nat_cases c 8 <;> decide
theorem pos64_disjoint (c c' : Nat) (hc : c < 8) (hc' : c' < 8) (hne : c ≠ c') : ∀ q ∈ pos64 c', q ∉ pos64 c := by
  nat_cases c 8 <;> nat_cases c' 8 <;> first | (exfalso; exact hne rfl) | decide

/-- **lane increment, Skinny-64, 128-bit vectors**: column `c` becomes `(old + inc) mod 2^64`, every other
byte of the image - in particular every other lane counter - is unchanged -/
theorem C05_v64c_increment (c : Nat) (hc : c < 8) (img : BitVec 512) (k : BitVec 32) :
    (k.toNat + 255 < 2 ^ 32 → columnValue (pos64 c) (v64cInc c img k) = (columnValue (pos64 c) img + k.toNat) % 2 ^ 64) ∧
    (∀ q, q < 64 → q ∉ pos64 c → lane 8 q (v64cInc c img k) = lane 8 q img) ∧
    (∀ c', c' < 8 → c' ≠ c → columnValue (pos64 c') (v64cInc c img k) = columnValue (pos64 c') img) := by
  have h := chain_column (v64cInc c) (pos64 c) 64 (pos64_nodup c hc) (pos64_lt c hc) (fun img k q hq => v64cInc_lanes c hc img k q hq) img k
  have hlen : (pos64 c).length = 8 := by simp [pos64]
  have hpow : (256 : Nat) ^ 8 = 2 ^ 64 := by decide
  refine ⟨fun hk => ?_, h.2, fun c' hc' hne => ?_⟩
  · have := h.1 hk
    rw [hlen, hpow] at this
    exact this
  · simp only [columnValue, colVal]
    congr 1
    apply List.map_congr_left
    intro q hq
    rw [h.2 q (pos64_lt c' hc' q hq) (pos64_disjoint c c' hc hc' (Ne.symm hne) q hq)]

/-! ## Mantis, 128-bit vectors (`mantis-ctr-vec128.c`, eight lane counters) -/

/-- the translated increment for column `c` -/
def vmcInc : Nat → BitVec 512 → BitVec 32 → BitVec 512
  | 0 => vmc_inc_0
  | 1 => vmc_inc_1
  | 2 => vmc_inc_2
  | 3 => vmc_inc_3
  | 4 => vmc_inc_4
  | 5 => vmc_inc_5
  | 6 => vmc_inc_6
  | 7 => vmc_inc_7
  | _ => fun img _ => img

theorem vmcInc_lanes (c : Nat) (hc : c < 8) (img : BitVec 512) (k : BitVec 32) (q : Nat) (hq : q < 64) :
    lane 8 q (vmcInc c img k) = chainLane img (pos64m c) k q := by
  nat_cases c 8
  · exact vmc_inc_0_lanes img k q hq
  · exact vmc_inc_1_lanes img k q hq
  · exact vmc_inc_2_lanes img k q hq
  · exact vmc_inc_3_lanes img k q hq
  · exact vmc_inc_4_lanes img k q hq
  · exact vmc_inc_5_lanes img k q hq
  · exact vmc_inc_6_lanes img k q hq
  · exact vmc_inc_7_lanes img k q hq

theorem pos64m_nodup (c : Nat) (hc : c < 8) : (pos64m c).Nodup := by nat_cases c 8 <;> decide
theorem pos64m_lt (c : Nat) (hc : c < 8) : ∀ q ∈ pos64m c, q < 64 := by nat_cases c 8 <;> decide
theorem pos64m_disjoint (c c' : Nat) (hc : c < 8) (hc' : c' < 8) (hne : c ≠ c') : ∀ q ∈ pos64m c', q ∉ pos64m c := by
  nat_cases c 8 <;> nat_cases c' 8 <;> first | (exfalso; exact hne rfl) | decide

/-- **lane increment, Mantis, 128-bit vectors**: column `c` becomes `(old + inc) mod 2^64`, every other
byte of the image - in particular every other lane counter - is unchanged -/
theorem C05_vmc_increment (c : Nat) (hc : c < 8) (img : BitVec 512) (k : BitVec 32) :
    (k.toNat + 255 < 2 ^ 32 → columnValue (pos64m c) (vmcInc c img k) = (columnValue (pos64m c) img + k.toNat) % 2 ^ 64) ∧
    (∀ q, q < 64 → q ∉ pos64m c → lane 8 q (vmcInc c img k) = lane 8 q img) ∧
    (∀ c', c' < 8 → c' ≠ c → columnValue (pos64m c') (vmcInc c img k) = columnValue (pos64m c') img) := by
  have h := chain_column (vmcInc c) (pos64m c) 64 (pos64m_nodup c hc) (pos64m_lt c hc) (fun img k q hq => vmcInc_lanes c hc img k q hq) img k
  have hlen : (pos64m c).length = 8 := by simp [pos64m]
  have hpow : (256 : Nat) ^ 8 = 2 ^ 64 := by decide
  refine ⟨fun hk => ?_, h.2, fun c' hc' hne => ?_⟩
  · have := h.1 hk
    rw [hlen, hpow] at this
    exact this
  · simp only [columnValue, colVal]
    congr 1
    apply List.map_congr_left
    intro q hq
    rw [h.2 q (pos64m_lt c' hc' q hq) (pos64m_disjoint c c' hc hc' (Ne.symm hne) q hq)]

/-- the hypothesis on the increment is met by every increment the code uses (lane stagger 1..7, batch step 4 or 8) -/
example : ∀ k : Nat, k ≤ 8 → (BitVec.ofNat 32 k).toNat + 255 < 2 ^ 32 := by
  intro k hk
  simp only [BitVec.toNat_ofNat]
  omega

/-- non-vacuity: a concrete image whose column 3 carries through fifteen bytes -/
example : columnValue (pos128 3) (v128cInc 3 (BitVec.allOnes 512) 1#32) = 0 := by decide +kernel

end SkinnyVerif.Properties

/-! ## any sequence of lane increments

The CTR code applies lane increments in sequences: the stagger of `set_counter` (`inc 1 1; inc 2 2; …`), the batch
step of `encrypt` (`inc j pending` for every lane), the resynchronisation after a key or tweak change.  For *every*
sequence of (column, increment) pairs, each lane counter ends up at its initial value plus the sum of the increments
addressed to it, modulo 2^(8·bs) - whatever the order and the interleaving with increments of other lanes. -/

namespace SkinnyVerif.Properties
open SkinnyVerif SkinnyVerif.Gen SkinnyVerif.Lemmas

/-- a family of per-column increments on a strided image together with its specification -/
structure IncFamily (w : Nat) where
  inc : Nat → BitVec w → BitVec 32 → BitVec w
  pos : Nat → List Nat
  n : Nat
  M : Nat
  len : Nat
  hM : M = 256 ^ len
  hlen : ∀ c, c < n → (pos c).length = len
  spec : ∀ c, c < n → ∀ img k,
    (k.toNat + 255 < 2 ^ 32 → columnValue (pos c) (inc c img k) = (columnValue (pos c) img + k.toNat) % M) ∧
    (∀ c', c' < n → c' ≠ c → columnValue (pos c') (inc c img k) = columnValue (pos c') img)

theorem valLE_lt (l : List Nat) (h : ∀ b ∈ l, b < 256) : valLE l < 256 ^ l.length := by
  induction l with
  | nil => simp [valLE]
  | cons b bs ih =>
    have hb : b < 256 := h b (by simp)
    have := ih (fun x hx => h x (by simp [hx]))
    simp only [valLE, List.length_cons, Nat.pow_succ]
    omega

theorem columnValue_lt {w : Nat} (qs : List Nat) (img : BitVec w) : columnValue qs img < 256 ^ qs.length := by
  have := valLE_lt (qs.map (fun q => (lane 8 q img).toNat)) (by
    intro b hb
    rcases List.mem_map.mp hb with ⟨q, _, rfl⟩
    exact (lane 8 q img).isLt)
  simpa [columnValue, colVal] using this

def applyIncs {w : Nat} (F : IncFamily w) (img : BitVec w) (ops : List (Nat × BitVec 32)) : BitVec w :=
  ops.foldl (fun im op => F.inc op.1 im op.2) img

/-- the sum of the increments addressed to column `j` -/
def totalFor (ops : List (Nat × BitVec 32)) (j : Nat) : Nat :=
  (ops.map (fun op => if op.1 = j then op.2.toNat else 0)).sum

theorem applyIncs_column {w : Nat} (F : IncFamily w) (ops : List (Nat × BitVec 32))
    (hops : ∀ op ∈ ops, op.1 < F.n ∧ op.2.toNat + 255 < 2 ^ 32) (img : BitVec w) (j : Nat) (hj : j < F.n) :
    columnValue (F.pos j) (applyIncs F img ops) = (columnValue (F.pos j) img + totalFor ops j) % F.M := by
  induction ops generalizing img with
  | nil =>
    have := columnValue_lt (F.pos j) img
    rw [F.hlen j hj, ← F.hM] at this
    simp [applyIncs, totalFor, Nat.mod_eq_of_lt this]
  | cons op rest ih =>
    have hop := hops op (by simp)
    have ih' := ih (fun o ho => hops o (by simp [ho])) (F.inc op.1 img op.2)
    simp only [applyIncs, List.foldl_cons] at ih' ⊢
    rw [ih']
    have hs := F.spec op.1 hop.1 img op.2
    simp only [totalFor, List.map_cons, List.sum_cons]
    by_cases hc : op.1 = j
    · subst hc
      rw [hs.1 hop.2]
      simp only [if_true]
      rw [Nat.mod_add_mod, Nat.add_assoc]
    · rw [hs.2 j hj (fun h => hc h.symm)]
      simp only [hc, if_false, Nat.zero_add]

/-- the four families of the vector CTR files -/
def fam128 : IncFamily 512 := ⟨v128cInc, pos128, 4, 2 ^ 128, 16, by decide, fun c hc => by simp [pos128],
  fun c hc img k => ⟨(C05_v128c_increment c hc img k).1, (C05_v128c_increment c hc img k).2.2⟩⟩
def fam256 : IncFamily 1024 := ⟨v256cInc, pos256, 8, 2 ^ 128, 16, by decide, fun c hc => by simp [pos256],
  fun c hc img k => ⟨(C05_v256c_increment c hc img k).1, (C05_v256c_increment c hc img k).2.2⟩⟩
def fam64 : IncFamily 512 := ⟨v64cInc, pos64, 8, 2 ^ 64, 8, by decide, fun c hc => by simp [pos64],
  fun c hc img k => ⟨(C05_v64c_increment c hc img k).1, (C05_v64c_increment c hc img k).2.2⟩⟩
def famM : IncFamily 512 := ⟨vmcInc, pos64m, 8, 2 ^ 64, 8, by decide, fun c hc => by simp [pos64m],
  fun c hc img k => ⟨(C05_vmc_increment c hc img k).1, (C05_vmc_increment c hc img k).2.2⟩⟩

/-- **every sequence of lane increments, all four vector CTR files** -/
theorem C05_lane_increment_sequences :
    (∀ ops img j, (∀ op ∈ ops, op.1 < 4 ∧ op.2.toNat + 255 < 2 ^ 32) → j < 4 →
      columnValue (pos128 j) (applyIncs fam128 img ops) = (columnValue (pos128 j) img + totalFor ops j) % 2 ^ 128) ∧
    (∀ ops img j, (∀ op ∈ ops, op.1 < 8 ∧ op.2.toNat + 255 < 2 ^ 32) → j < 8 →
      columnValue (pos256 j) (applyIncs fam256 img ops) = (columnValue (pos256 j) img + totalFor ops j) % 2 ^ 128) ∧
    (∀ ops img j, (∀ op ∈ ops, op.1 < 8 ∧ op.2.toNat + 255 < 2 ^ 32) → j < 8 →
      columnValue (pos64 j) (applyIncs fam64 img ops) = (columnValue (pos64 j) img + totalFor ops j) % 2 ^ 64) ∧
    (∀ ops img j, (∀ op ∈ ops, op.1 < 8 ∧ op.2.toNat + 255 < 2 ^ 32) → j < 8 →
      columnValue (pos64m j) (applyIncs famM img ops) = (columnValue (pos64m j) img + totalFor ops j) % 2 ^ 64) :=
  ⟨fun ops img j h hj => applyIncs_column fam128 ops h img j hj, fun ops img j h hj => applyIncs_column fam256 ops h img j hj,
   fun ops img j h hj => applyIncs_column fam64 ops h img j hj, fun ops img j h hj => applyIncs_column famM ops h img j hj⟩

/-- the stagger of `skinny128_ctr_vec128_set_counter` (`inc 1 1; inc 2 2; inc 3 3`) followed by one batch step
(`inc j 4` for every lane): lane `j` holds `c_j + j + 4` -/
example (img : BitVec 512) (j : Nat) (hj : j < 4) :
    columnValue (pos128 j) (applyIncs fam128 img [(1, 1#32), (2, 2#32), (3, 3#32), (0, 4#32), (1, 4#32), (2, 4#32), (3, 4#32)]) =
      (columnValue (pos128 j) img + (j + 4)) % 2 ^ 128 := by
  rw [C05_lane_increment_sequences.1 _ img j (by decide) hj]
  nat_cases j 4 <;> rfl

end SkinnyVerif.Properties

/-! ## the increment calls the source actually makes

`tools/facts.py` reads, on every run, the list of `*_ctr_increment(counter, column, increment)` calls out of
`*_set_counter` and `*_encrypt` of each vector CTR file (`Gen.Facts.laneIncs`; increment `-1` = `ctx->pending`).
With the theorem above: after `set_counter`'s calls lane `j` is `j` ahead of lane 0 (the stagger), and the calls of
`encrypt` advance every lane by `pending` - for each of the four files, whatever order the calls are written in. -/

namespace SkinnyVerif.Properties
open SkinnyVerif SkinnyVerif.Gen SkinnyVerif.Lemmas

def callsOf (name : String) : List (Nat × Int) := ((Gen.Facts.laneIncs.find? (fun x => x.1 == name)).map (·.2)).getD []
def asOps (calls : List (Nat × Int)) (pending : Nat) : List (Nat × BitVec 32) :=
  calls.map (fun ci => (ci.1, BitVec.ofNat 32 (if ci.2 = -1 then pending else ci.2.toNat)))

/-- the calls are well-formed (literal columns in range, small increments) and add `want j` to lane `j` -/
def callsOK (n : Nat) (calls : List (Nat × Int)) (pending : Nat) (want : Nat → Nat) : Bool :=
  (asOps calls pending).all (fun op => decide (op.1 < n) && decide (op.2.toNat + 255 < 2 ^ 32)) &&
  (List.range n).all (fun j => totalFor (asOps calls pending) j == want j)

theorem C05_source_calls_checked :
    callsOK 4 (callsOf "skinny128-ctr-vec128.c:skinny128_ctr_vec128_set_counter") 0 (fun j => j) = true ∧
    callsOK 8 (callsOf "skinny128-ctr-vec256.c:skinny128_ctr_vec256_set_counter") 0 (fun j => j) = true ∧
    callsOK 8 (callsOf "skinny64-ctr-vec128.c:skinny64_ctr_vec128_set_counter") 0 (fun j => j) = true ∧
    callsOK 8 (callsOf "mantis-ctr-vec128.c:mantis_ctr_vec128_set_counter") 0 (fun j => j) = true ∧
    (List.range 9).all (fun p =>
      callsOK 4 (callsOf "skinny128-ctr-vec128.c:skinny128_ctr_vec128_encrypt") p (fun _ => p) &&
      callsOK 8 (callsOf "skinny128-ctr-vec256.c:skinny128_ctr_vec256_encrypt") p (fun _ => p) &&
      callsOK 8 (callsOf "skinny64-ctr-vec128.c:skinny64_ctr_vec128_encrypt") p (fun _ => p) &&
      callsOK 8 (callsOf "mantis-ctr-vec128.c:mantis_ctr_vec128_encrypt") p (fun _ => p)) = true := by
  decide +kernel

theorem callsOK_spec {w : Nat} (F : IncFamily w) (calls : List (Nat × Int)) (pending : Nat) (want : Nat → Nat)
    (h : callsOK F.n calls pending want = true) (img : BitVec w) (j : Nat) (hj : j < F.n) :
    columnValue (F.pos j) (applyIncs F img (asOps calls pending)) = (columnValue (F.pos j) img + want j) % F.M := by
  simp only [callsOK, Bool.and_eq_true, List.all_eq_true, decide_eq_true_eq, beq_iff_eq] at h
  rw [applyIncs_column F _ (fun op hop => h.1 op hop) img j hj, h.2 j (List.mem_range.mpr hj)]

/-- **the stagger written in `skinny128_ctr_vec128_set_counter`**: from an image whose four lanes hold the same block,
lane `j` ends at that block + `j`; **the batch step written in `..._encrypt`**: every lane advances by `pending` -/
theorem C05_vec128_stagger_and_step (img : BitVec 512) (j : Nat) (hj : j < 4) (p : Nat) (hp : p ≤ 8) :
    columnValue (pos128 j) (applyIncs fam128 img (asOps (callsOf "skinny128-ctr-vec128.c:skinny128_ctr_vec128_set_counter") 0)) =
      (columnValue (pos128 j) img + j) % 2 ^ 128 ∧
    columnValue (pos128 j) (applyIncs fam128 img (asOps (callsOf "skinny128-ctr-vec128.c:skinny128_ctr_vec128_encrypt") p)) =
      (columnValue (pos128 j) img + p) % 2 ^ 128 := by
  have hc := C05_source_calls_checked
  constructor
  · exact callsOK_spec fam128 _ 0 (fun j => j) hc.1 img j hj
  · have := (List.all_eq_true.mp hc.2.2.2.2) p (List.mem_range.mpr (by omega))
    simp only [Bool.and_eq_true] at this
    exact callsOK_spec fam128 _ p (fun _ => p) this.1.1.1 img j hj

end SkinnyVerif.Properties
