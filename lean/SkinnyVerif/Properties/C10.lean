/-
C10 -- key lengths: the documented range is accepted and behaves as the key zero-padded to the
next primary size; every other length is rejected with 0 and leaves the schedule untouched.

The acceptance condition is the guard the translator reads off the C source on every run
(`Gen/Guards.lean`); the zero-padding rests on the generated size-specialised tweakey loaders
(`OpsCorrect.tk2Load/tk3Load`: for every `junk`, i.e. no uninitialised memory enters).
-/
import SkinnyVerif.Properties.C01

namespace SkinnyVerif.Properties
open SkinnyVerif SkinnyVerif.Spec.Skinny SkinnyVerif.Impl SkinnyVerif.Lemmas

/-- next primary key size -/
def primary (bs n : Nat) : Nat := if n ≤ bs then bs else if n ≤ 2 * bs then 2 * bs else 3 * bs

theorem padRight_eq (n : Nat) (l : Bytes) (h : l.length ≤ n) : padRight n l = l ++ zeros (n - l.length) := by
  simp only [padRight, zeros]
  rw [List.take_append, List.take_of_length_le h, List.take_replicate, Nat.min_eq_left (Nat.sub_le _ _)]

theorem implTweakey_pad {b h s : Nat} (A : Abs b h s) (bs : Nat) (K : Bytes) (n : Nat) (hK : 2 * bs ≤ K.length ∨ K.length ≤ bs ∨ (bs ≤ K.length ∧ K.length ≤ 2 * bs)) :
    implTweakey A bs (K ++ zeros n) = implTweakey A bs K := by
  simp only [implTweakey]
  rw [image_append_zeros]
  have h1 : image b ((K ++ zeros n).drop bs) = image b (K.drop bs) := by
    by_cases hle : bs ≤ K.length
    · rw [List.drop_append_of_le_length hle, image_append_zeros]
    · have : K.drop bs = [] := List.drop_eq_nil_of_le (by omega)
      rw [this, List.drop_append, this]
      simp only [List.nil_append, zeros, List.drop_replicate]
      have := image_append_zeros b [] (n - (bs - K.length))
      simpa [zeros] using this
  have h2 : image b ((K ++ zeros n).drop (2 * bs)) = image b (K.drop (2 * bs)) := by
    by_cases hle : 2 * bs ≤ K.length
    · rw [List.drop_append_of_le_length hle, image_append_zeros]
    · have : K.drop (2 * bs) = [] := List.drop_eq_nil_of_le (by omega)
      rw [this, List.drop_append, this]
      simp only [List.nil_append, zeros, List.drop_replicate]
      have := image_append_zeros b [] (n - (2 * bs - K.length))
      simpa [zeros] using this
  rw [h1, h2]

/-- SKINNY-128 `set_key`: every 32-bit size; acceptance, no change on rejection, zero-padding on acceptance -/
theorem C10_skinny128_set_key (t : Tag) (ks0 : KeySched 64) (hlen : 56 ≤ ks0.sched.length) (key : Bytes) (size : Nat)
    (hsz : size < 2 ^ 32) (hkey : size ≤ key.length ∨ size > 48) (j2 j3 : BitVec 128) :
    let r := setKey (ops128 t) guards128 p128 ks0 (some key) size j2 j3
    (r.1 = 1 ↔ 16 ≤ size ∧ size ≤ 48) ∧ (r.1 = 0 ∨ r.1 = 1) ∧ (r.1 = 0 → r.2 = ks0) ∧
    (r.1 = 1 → ∀ blk, ecbEncrypt (ops128 t) p128 r.2 blk = encrypt128 (padRight (primary 16 size) (key.take size)) blk ∧
                      ecbDecrypt (ops128 t) p128 r.2 blk = decrypt128 (padRight (primary 16 size) (key.take size)) blk) := by
  intro r
  have hg := guard128_setKey (some key).isNone size hsz
  by_cases hin : 16 ≤ size ∧ size ≤ 48
  · have hgf : guards128.setKey false (some key).isNone (BitVec.ofNat 32 size) = false := by
      rw [hg]; simp; omega
    have hr : r = (1, setKeyInner (ops128 t) p128 ks0 key size none j2 j3) := by
      simp only [r, setKey, hgf, Bool.false_eq_true, if_false]
    refine ⟨by rw [hr]; simp [hin], by rw [hr]; simp, by rw [hr]; simp, ?_⟩
    intro _ blk
    have hks := setKeyInner_plain abs128 (ops128 t) (opsG128 t) absOK128 p128 (by decide) ks0 key size j2 j3
      (by simp [p128]; omega) (by simp [p128]; omega) (by decide) (by simp [p128]; omega) (by simp [p128]; omega) (by simp [p128]; omega)
    obtain ⟨hkeyed, hrounds, _⟩ := hks
    have hKlen : (key.take size).length = size := by simp; omega
    have hpadlen : (padRight (primary 16 size) (key.take size)).length = primary 16 size := by
      simp [padRight, zeros]
    have hprim : size ≤ primary 16 size := by simp only [primary]; split <;> (try split) <;> omega
    have hpad : padRight (primary 16 size) (key.take size) = key.take size ++ zeros (primary 16 size - size) := by
      rw [padRight_eq _ _ (by omega), hKlen]
    have htk : tweakey128 (padRight (primary 16 size) (key.take size)) = implTweakey abs128 16 (key.take size) := by
      rw [tweakey128_eq, hpad]
      apply implTweakey_pad
      omega
    have hrr : (setKeyInner (ops128 t) p128 ks0 key size none j2 j3).rounds = rounds128 ((padRight (primary 16 size) (key.take size)).length / 16) := by
      rw [hrounds, hpadlen]
      simp only [primary, p128, rounds128]
      by_cases c1 : size = 16
      · simp [c1]
      · by_cases c2 : size ≤ 32
        · have : ¬ size ≤ 16 := by omega
          simp [c1, c2, this]
        · have h3 : ¬ size ≤ 16 := by omega
          simp [c1, c2, h3]
    rw [hr]
    constructor
    · show ecbEncrypt (ops128 t) p128 _ blk = _
      rw [ecbEncrypt_eq, encrypt128, show p128.bs = 16 from rfl, ← bytesOfCells8_cells8]
      congr 1
      have := encrypt_refines abs128 (ops128 t) (opsG128 t) _ _ _ hkeyed (image 128 blk)
      simp only [abs128] at this
      rw [this, hrr, htk, cellsOfBytes8_eq]
      rfl
    · show ecbDecrypt (ops128 t) p128 _ blk = _
      rw [ecbDecrypt_eq, decrypt128, show p128.bs = 16 from rfl, ← bytesOfCells8_cells8]
      congr 1
      have := decrypt_refines abs128 (ops128 t) (opsG128 t) _ _ _ hkeyed (image 128 blk)
      simp only [abs128] at this
      rw [this, hrr, htk, cellsOfBytes8_eq]
      rfl
  · have hgt : guards128.setKey false (some key).isNone (BitVec.ofNat 32 size) = true := by
      rw [hg]; simp; omega
    have hr : r = (0, ks0) := by simp only [r, setKey, hgt, if_true]
    refine ⟨by rw [hr]; simp; omega, by rw [hr]; simp, by rw [hr]; simp, by rw [hr]; simp⟩

/-- a null key is rejected whatever the size -/
theorem C10_null_key128 (t : Tag) (ks0 : KeySched 64) (size : Nat) (hsz : size < 2 ^ 32) (j2 j3 : BitVec 128) :
    setKey (ops128 t) guards128 p128 ks0 none size j2 j3 = (0, ks0) := by
  have hg := guard128_setKey (none : Option Bytes).isNone size hsz
  simp only [setKey]
  split
  · rfl
  · rfl

/-- SKINNY-64 `set_key`: every 32-bit size; acceptance, no change on rejection, zero-padding on acceptance -/
theorem C10_skinny64_set_key (t : Tag) (ks0 : KeySched 32) (hlen : 40 ≤ ks0.sched.length) (key : Bytes) (size : Nat)
    (hsz : size < 2 ^ 32) (hkey : size ≤ key.length ∨ size > 24) (j2 j3 : BitVec 64) :
    let r := setKey (ops64 t) guards64 p64 ks0 (some key) size j2 j3
    (r.1 = 1 ↔ 8 ≤ size ∧ size ≤ 24) ∧ (r.1 = 0 ∨ r.1 = 1) ∧ (r.1 = 0 → r.2 = ks0) ∧
    (r.1 = 1 → ∀ blk, ecbEncrypt (ops64 t) p64 r.2 blk = encrypt64 (padRight (primary 8 size) (key.take size)) blk ∧
                      ecbDecrypt (ops64 t) p64 r.2 blk = decrypt64 (padRight (primary 8 size) (key.take size)) blk) := by
  intro r
  have hg := guard64_setKey (some key).isNone size hsz
  by_cases hin : 8 ≤ size ∧ size ≤ 24
  · have hgf : guards64.setKey false (some key).isNone (BitVec.ofNat 32 size) = false := by
      rw [hg]; simp; omega
    have hr : r = (1, setKeyInner (ops64 t) p64 ks0 key size none j2 j3) := by
      simp only [r, setKey, hgf, Bool.false_eq_true, if_false]
    refine ⟨by rw [hr]; simp [hin], by rw [hr]; simp, by rw [hr]; simp, ?_⟩
    intro _ blk
    have hks := setKeyInner_plain abs64 (ops64 t) (opsG64 t) absOK64 p64 (by decide) ks0 key size j2 j3
      (by simp [p64]; omega) (by simp [p64]; omega) (by decide) (by simp [p64]; omega) (by simp [p64]; omega) (by simp [p64]; omega)
    obtain ⟨hkeyed, hrounds, _⟩ := hks
    have hKlen : (key.take size).length = size := by simp; omega
    have hpadlen : (padRight (primary 8 size) (key.take size)).length = primary 8 size := by
      simp [padRight, zeros]
    have hprim : size ≤ primary 8 size := by simp only [primary]; split <;> (try split) <;> omega
    have hpad : padRight (primary 8 size) (key.take size) = key.take size ++ zeros (primary 8 size - size) := by
      rw [padRight_eq _ _ (by omega), hKlen]
    have htk : tweakey64 (padRight (primary 8 size) (key.take size)) = implTweakey abs64 8 (key.take size) := by
      rw [tweakey64_eq, hpad]
      apply implTweakey_pad
      omega
    have hrr : (setKeyInner (ops64 t) p64 ks0 key size none j2 j3).rounds = rounds64 ((padRight (primary 8 size) (key.take size)).length / 8) := by
      rw [hrounds, hpadlen]
      simp only [primary, p64, rounds64]
      by_cases c1 : size = 8
      · simp [c1]
      · by_cases c2 : size ≤ 16
        · have : ¬ size ≤ 8 := by omega
          simp [c1, c2, this]
        · have h3 : ¬ size ≤ 8 := by omega
          simp [c1, c2, h3]
    rw [hr]
    constructor
    · show ecbEncrypt (ops64 t) p64 _ blk = _
      rw [ecbEncrypt_eq, encrypt64, show p64.bs = 8 from rfl, ← bytesOfCells4_cells4]
      congr 1
      have := encrypt_refines abs64 (ops64 t) (opsG64 t) _ _ _ hkeyed (image 64 blk)
      simp only [abs64] at this
      rw [this, hrr, htk, cellsOfBytes4_eq]
      rfl
    · show ecbDecrypt (ops64 t) p64 _ blk = _
      rw [ecbDecrypt_eq, decrypt64, show p64.bs = 8 from rfl, ← bytesOfCells4_cells4]
      congr 1
      have := decrypt_refines abs64 (ops64 t) (opsG64 t) _ _ _ hkeyed (image 64 blk)
      simp only [abs64] at this
      rw [this, hrr, htk, cellsOfBytes4_eq]
      rfl
  · have hgt : guards64.setKey false (some key).isNone (BitVec.ofNat 32 size) = true := by
      rw [hg]; simp; omega
    have hr : r = (0, ks0) := by simp only [r, setKey, hgt, if_true]
    refine ⟨by rw [hr]; simp; omega, by rw [hr]; simp, by rw [hr]; simp, by rw [hr]; simp⟩

/-- a null key is rejected whatever the size -/
theorem C10_null_key64 (t : Tag) (ks0 : KeySched 32) (size : Nat) (hsz : size < 2 ^ 32) (j2 j3 : BitVec 64) :
    setKey (ops64 t) guards64 p64 ks0 none size j2 j3 = (0, ks0) := by
  have hg := guard64_setKey (none : Option Bytes).isNone size hsz
  simp only [setKey]
  split
  · rfl
  · rfl

/-- Mantis accepts exactly 16-byte keys with 5 to 8 rounds, and leaves the schedule untouched otherwise -/
theorem C10_mantis_set_key (t : Tag) (ks0 : MantisKey) (key : Bytes) (size rounds : Nat) (mode : Int)
    (hs : size < 2 ^ 32) (hr : rounds < 2 ^ 32) :
    let r := mantisSetKey (opsMantis t) ks0 (some key) size rounds mode
    (r.1 = 1 ↔ size = 16 ∧ 5 ≤ rounds ∧ rounds ≤ 8) ∧ (r.1 = 0 → r.2 = ks0) := by
  intro r
  have hg := guardMantis_setKey (some key).isNone size rounds mode hs hr
  by_cases hin : size = 16 ∧ 5 ≤ rounds ∧ rounds ≤ 8
  · have hgf : mantisSetKeyGuard false (some key).isNone size rounds mode = false := by rw [hg]; simp; omega
    have : r.1 = 1 := by simp only [r, mantisSetKey, hgf, Bool.false_eq_true, if_false]
    exact ⟨by simp [this, hin], by simp [this]⟩
  · have hgt : mantisSetKeyGuard false (some key).isNone size rounds mode = true := by rw [hg]; simp; omega
    have : r = (0, ks0) := by simp only [r, mantisSetKey, hgt, if_true]
    exact ⟨by rw [this]; simp; omega, by rw [this]; simp⟩

end SkinnyVerif.Properties
