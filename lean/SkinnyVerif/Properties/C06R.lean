/-
C05 / C06, the refill step of the vector CTR back ends as *translated code*.

`Properties/C06.lean` proves C05 and C06 for the lane state machine `ctrLoop … (lazy := true)`, whose refill step is
`lanes0 := lanes.map (inc pending); ec := lanes0.flatMap E`.  The C code of the four vector files does that step on a
strided image of the lane counters: `B` calls of the per-column `*_ctr_increment` followed by the batch block function
(`skinny128_ecb_encrypt_four/eight`, `skinny64_ecb_encrypt_eight`, `mantis_ecb_encrypt_eight`).  Both are translated from
the source on every run.  This file composes their theorems (`C05_v*c_increment`, `C06_*_keystream`) into the statement the
state machine needs: reading lane counter `j` of the image as the byte block `laneBlock* img j`,

* after the `B` translated increments lane `j` holds `skinnyN_inc_counter(lane j, pending)` - the *scalar* increment the
  generic back end uses (`IncSpec`, proved for the generated scalar function in `Lemmas/CounterSpec.lean`), and
* block `j` of the translated batch function on the new image is the scalar block encryption of that counter,

for every image, schedule, round count and `pending <= 8` (the code uses 0, 1..B).  What remains hand-modelled in the CTR
files after this: the buffering arithmetic around the refill (`offset`, `pending := B`, the xor calls - whose trace and
extents are `Properties/C08G.lean`), `set_counter` and the reset helpers.
-/
import SkinnyVerif.Properties.C06V
import SkinnyVerif.Properties.C05V
import SkinnyVerif.Properties.C06
import SkinnyVerif.Properties.C07M
import SkinnyVerif.Lemmas.ByteRoundTrip

namespace SkinnyVerif.Properties
open SkinnyVerif SkinnyVerif.Gen SkinnyVerif.Impl SkinnyVerif.Lemmas SkinnyVerif.Spec.Modes

theorem lane8_toNat {w : Nat} (x : BitVec w) (p : Nat) : (lane 8 p x).toNat = (x.toNat >>> (8 * p)) % 256 := by
  simp [lane, BitVec.extractLsb'_toNat]

theorem leNat_map_ofNat (l : List Nat) (hl : ∀ b ∈ l, b < 256) : leNat (l.map UInt8.ofNat) = valLE l := by
  induction l with
  | nil => rfl
  | cons b bs ih =>
    have hb : b < 256 := hl b (by simp)
    simp only [List.map_cons, leNat, valLE]
    rw [ih (fun c hc => hl c (by simp [hc]))]
    congr 1
    simp [UInt8.toNat_ofNat, Nat.mod_eq_of_lt hb]

theorem map_range_reverse {α : Type} (f : Nat → α) (n : Nat) :
    ((List.range n).map f).reverse = (List.range n).map (fun t => f (n - 1 - t)) := by
  apply List.ext_getElem
  · simp
  · intro i h1 h2
    have hi : i < n := by simpa using h1
    simp [List.getElem_reverse]

theorem beNat_bytesOf16 (x : BitVec 128) :
    beNat (bytesOf 16 x) = valLE ((List.range 16).map fun t => (lane 8 (15 - t) x).toNat) := by
  simp only [beNat, bytesOf, map_range_reverse]
  have e : (List.range 16).map (fun t => UInt8.ofNat ((x.toNat >>> (8 * (16 - 1 - t))) % 256)) =
      ((List.range 16).map (fun t => (x.toNat >>> (8 * (16 - 1 - t))) % 256)).map UInt8.ofNat := by
    rw [List.map_map]; rfl
  rw [e, leNat_map_ofNat _ (by intro b hb; simp at hb; obtain ⟨a, _, rfl⟩ := hb; exact Nat.mod_lt _ (by decide))]
  congr 1

/-- lane counter `j` of the strided image of `skinny128-ctr-vec128.c`, as the 16-byte counter block it denotes -/
def laneBlock4 (img : BitVec 512) (j : Nat) : Bytes := bytesOf 16 (v128c_column img j)

theorem laneBlock4_length (img : BitVec 512) (j : Nat) : (laneBlock4 img j).length = 16 := by simp [laneBlock4, bytesOf]

theorem laneBlock4_value (img : BitVec 512) (j : Nat) (hj : j < 4) : beNat (laneBlock4 img j) = columnValue (pos128 j) img := by
  rw [laneBlock4, beNat_bytesOf16, ← v128c_column_value img j hj]

/-- the four calls `skinny128_ctr_increment(ctx->counter, c, pending)`, `c = 0..3`, of the refill branch -/
def v128cIncAll (img : BitVec 512) (p : BitVec 32) : BitVec 512 := v128cInc 3 (v128cInc 2 (v128cInc 1 (v128cInc 0 img p) p) p) p

theorem v128cIncAll_value (img : BitVec 512) (p : BitVec 32) (hp : p.toNat + 255 < 2 ^ 32) (j : Nat) (hj : j < 4) :
    columnValue (pos128 j) (v128cIncAll img p) = (columnValue (pos128 j) img + p.toNat) % 2 ^ 128 := by
  have I := fun c hc im => C05_v128c_increment c hc im p
  simp only [v128cIncAll]
  nat_cases j 4
  · rw [(I 3 (by decide) _).2.2 0 (by decide) (by decide), (I 2 (by decide) _).2.2 0 (by decide) (by decide),
      (I 1 (by decide) _).2.2 0 (by decide) (by decide), (I 0 (by decide) _).1 hp]
  · rw [(I 3 (by decide) _).2.2 1 (by decide) (by decide), (I 2 (by decide) _).2.2 1 (by decide) (by decide),
      (I 1 (by decide) _).1 hp, (I 0 (by decide) _).2.2 1 (by decide) (by decide)]
  · rw [(I 3 (by decide) _).2.2 2 (by decide) (by decide), (I 2 (by decide) _).1 hp,
      (I 1 (by decide) _).2.2 2 (by decide) (by decide), (I 0 (by decide) _).2.2 2 (by decide) (by decide)]
  · rw [(I 3 (by decide) _).1 hp, (I 2 (by decide) _).2.2 3 (by decide) (by decide),
      (I 1 (by decide) _).2.2 3 (by decide) (by decide), (I 0 (by decide) _).2.2 3 (by decide) (by decide)]

/-- the lane counters after the four translated increments are the scalar `skinny128_inc_counter` of the lane counters before -/
theorem laneBlock4_incAll (hspec : IncSpec 16) (img : BitVec 512) (p : BitVec 32) (hp : p.toNat ≤ 8) (j : Nat) (hj : j < 4) :
    laneBlock4 (v128cIncAll img p) j = incCounter 16 p.toNat (laneBlock4 img j) := by
  have hb : ∀ im, natBE 16 (beNat (laneBlock4 im j)) = laneBlock4 im j := fun im => natBE_beNat 16 _ (laneBlock4_length im j)
  have h1 := hspec p.toNat hp (beNat (laneBlock4 img j))
  rw [hb img] at h1
  rw [h1, ← hb (v128cIncAll img p), laneBlock4_value _ j hj, v128cIncAll_value img p (by omega) j hj, laneBlock4_value img j hj]

/-- **the refill step of `skinny128_ctr_vec128_encrypt`, as translated, is the refill step of the lane state machine**
(`ctrLoop … lazy := true`): the four translated lane increments turn lane counter `j` into `skinny128_inc_counter(·, pending)`
of it, and block `j` of the translated `skinny128_ecb_encrypt_four` on the new image is the scalar block encryption of that
counter - for every image, schedule, round count and `pending ≤ 8` -/
theorem C06R_vec128_refill (hspec : IncSpec 16) (ks : KeySched 64) (img : BitVec 512) (p : BitVec 32) (hp : p.toNat ≤ 8) (j : Nat) (hj : j < 4) :
    laneBlock4 (v128cIncAll img p) j = incCounter 16 p.toNat (laneBlock4 img j) ∧
    bytesOf 16 ((ctrEnc4 (schedUp ks) (v128cIncAll img p)).extractLsb' (128 * j) 128) =
      ecbEncrypt (ops128 .c32le) p128 ks (incCounter 16 p.toNat (laneBlock4 img j)) ∧
    bytesOf 16 ((ctrEnc4' (schedUp ks) (v128cIncAll img p)).extractLsb' (128 * j) 128) =
      ecbEncrypt (ops128 .c32le) p128 ks (incCounter 16 p.toNat (laneBlock4 img j)) := by
  have hinc := laneBlock4_incAll hspec img p hp j hj
  have hk := C06_vec128_keystream ks (v128cIncAll img p) j hj (laneBlock4 (v128cIncAll img p) j) (image_bytesOf_128 _)
  rw [hinc] at hk
  exact ⟨hinc, hk.1, hk.2.1⟩

theorem beNat_bytesOf8 (x : BitVec 64) :
    beNat (bytesOf 8 x) = valLE ((List.range 8).map fun t => (lane 8 (7 - t) x).toNat) := by
  simp only [beNat, bytesOf, map_range_reverse]
  have e : (List.range 8).map (fun t => UInt8.ofNat ((x.toNat >>> (8 * (8 - 1 - t))) % 256)) =
      ((List.range 8).map (fun t => (x.toNat >>> (8 * (8 - 1 - t))) % 256)).map UInt8.ofNat := by
    rw [List.map_map]; rfl
  rw [e, leNat_map_ofNat _ (by intro b hb; simp at hb; obtain ⟨a, _, rfl⟩ := hb; exact Nat.mod_lt _ (by decide))]
  congr 1

/-- a sequence of column increments over distinct columns adds `p` to exactly those columns -/
theorem fold_value {w : Nat} (n M : Nat) (pos : Nat → List Nat) (inc : Nat → BitVec w → BitVec 32 → BitVec w) (p : BitVec 32)
    (hinc : ∀ c, c < n → ∀ img, columnValue (pos c) (inc c img p) = (columnValue (pos c) img + p.toNat) % M ∧
      ∀ c', c' < n → c' ≠ c → columnValue (pos c') (inc c img p) = columnValue (pos c') img)
    (cs : List Nat) (hcs : cs.Nodup) (hlt : ∀ c ∈ cs, c < n) (img : BitVec w) (j : Nat) (hj : j < n) :
    columnValue (pos j) (cs.foldl (fun im c => inc c im p) img) =
      if j ∈ cs then (columnValue (pos j) img + p.toNat) % M else columnValue (pos j) img := by
  induction cs generalizing img with
  | nil => simp
  | cons c rest ih =>
    have hc : c < n := hlt c (by simp)
    have hnd := List.nodup_cons.mp hcs
    simp only [List.foldl_cons]
    rw [ih hnd.2 (fun d hd => hlt d (by simp [hd]))]
    by_cases hjc : j = c
    · subst hjc
      simp only [hnd.1, if_false, List.mem_cons, true_or, if_true]
      exact (hinc j hc img).1
    · have h3 := (hinc c hc img).2 j hj hjc
      simp only [List.mem_cons, hjc, false_or, h3]

/-! ## Skinny-128 on 256-bit vectors -/

def laneBlock8 (img : BitVec 1024) (j : Nat) : Bytes := bytesOf 16 (v256c_column img j)
theorem laneBlock8_length (img : BitVec 1024) (j : Nat) : (laneBlock8 img j).length = 16 := by simp [laneBlock8, bytesOf]
theorem laneBlock8_value (img : BitVec 1024) (j : Nat) (hj : j < 8) : beNat (laneBlock8 img j) = columnValue (pos256 j) img := by
  rw [laneBlock8, beNat_bytesOf16, ← v256c_column_value img j hj]

/-- the eight calls `skinny128_ctr_increment(ctx->counter, c, pending)` of the refill branch -/
def v256cIncAll (img : BitVec 1024) (p : BitVec 32) : BitVec 1024 := (List.range 8).foldl (fun im c => v256cInc c im p) img

theorem laneBlock8_incAll (hspec : IncSpec 16) (img : BitVec 1024) (p : BitVec 32) (hp : p.toNat ≤ 8) (j : Nat) (hj : j < 8) :
    laneBlock8 (v256cIncAll img p) j = incCounter 16 p.toNat (laneBlock8 img j) := by
  have hb : ∀ im, natBE 16 (beNat (laneBlock8 im j)) = laneBlock8 im j := fun im => natBE_beNat 16 _ (laneBlock8_length im j)
  have h1 := hspec p.toNat hp (beNat (laneBlock8 img j))
  rw [hb img] at h1
  have hv := fold_value 8 (2 ^ 128) pos256 v256cInc p
    (fun c hc im => ⟨(C05_v256c_increment c hc im p).1 (by omega), (C05_v256c_increment c hc im p).2.2⟩)
    (List.range 8) List.nodup_range (fun c hc => List.mem_range.mp hc) img j hj
  simp only [List.mem_range, hj, if_true] at hv
  rw [h1, ← hb (v256cIncAll img p), laneBlock8_value _ j hj, v256cIncAll, hv, laneBlock8_value img j hj]

theorem C06R_vec256_refill (hspec : IncSpec 16) (ks : KeySched 64) (img : BitVec 1024) (p : BitVec 32) (hp : p.toNat ≤ 8) (j : Nat) (hj : j < 8) :
    laneBlock8 (v256cIncAll img p) j = incCounter 16 p.toNat (laneBlock8 img j) ∧
    bytesOf 16 ((ctrEnc8 (schedUp ks) (v256cIncAll img p)).extractLsb' (128 * j) 128) =
      ecbEncrypt (ops128 .c32le) p128 ks (incCounter 16 p.toNat (laneBlock8 img j)) ∧
    bytesOf 16 ((ctrEnc8' (schedUp ks) (v256cIncAll img p)).extractLsb' (128 * j) 128) =
      ecbEncrypt (ops128 .c32le) p128 ks (incCounter 16 p.toNat (laneBlock8 img j)) := by
  have hinc := laneBlock8_incAll hspec img p hp j hj
  have hk := C06_vec256_keystream ks (v256cIncAll img p) j hj (laneBlock8 (v256cIncAll img p) j) (image_bytesOf_128 _)
  rw [hinc] at hk
  exact ⟨hinc, hk.1, hk.2.1⟩

/-! ## Skinny-64 on 128-bit vectors -/

def laneBlockH (img : BitVec 512) (j : Nat) : Bytes := bytesOf 8 (v64c_column img j)
theorem laneBlockH_length (img : BitVec 512) (j : Nat) : (laneBlockH img j).length = 8 := by simp [laneBlockH, bytesOf]
theorem laneBlockH_value (img : BitVec 512) (j : Nat) (hj : j < 8) : beNat (laneBlockH img j) = columnValue (pos64 j) img := by
  rw [laneBlockH, beNat_bytesOf8, ← v64c_column_value img j hj]

def v64cIncAll (img : BitVec 512) (p : BitVec 32) : BitVec 512 := (List.range 8).foldl (fun im c => v64cInc c im p) img

theorem laneBlockH_incAll (hspec : IncSpec 8) (img : BitVec 512) (p : BitVec 32) (hp : p.toNat ≤ 8) (j : Nat) (hj : j < 8) :
    laneBlockH (v64cIncAll img p) j = incCounter 8 p.toNat (laneBlockH img j) := by
  have hb : ∀ im, natBE 8 (beNat (laneBlockH im j)) = laneBlockH im j := fun im => natBE_beNat 8 _ (laneBlockH_length im j)
  have h1 := hspec p.toNat hp (beNat (laneBlockH img j))
  rw [hb img] at h1
  have hv := fold_value 8 (2 ^ 64) pos64 v64cInc p
    (fun c hc im => ⟨(C05_v64c_increment c hc im p).1 (by omega), (C05_v64c_increment c hc im p).2.2⟩)
    (List.range 8) List.nodup_range (fun c hc => List.mem_range.mp hc) img j hj
  simp only [List.mem_range, hj, if_true] at hv
  rw [h1, ← hb (v64cIncAll img p), laneBlockH_value _ j hj, v64cIncAll, hv, laneBlockH_value img j hj]

theorem C06R_vec64_refill (hspec : IncSpec 8) (ks : KeySched 32) (img : BitVec 512) (p : BitVec 32) (hp : p.toNat ≤ 8) (j : Nat) (hj : j < 8) :
    laneBlockH (v64cIncAll img p) j = incCounter 8 p.toNat (laneBlockH img j) ∧
    bytesOf 8 ((ctrEnc8h (schedUp64 ks) (v64cIncAll img p)).extractLsb' (64 * j) 64) =
      ecbEncrypt (ops64 .c32le) p64 ks (incCounter 8 p.toNat (laneBlockH img j)) := by
  have hinc := laneBlockH_incAll hspec img p hp j hj
  have hk := C06_vec64_keystream ks (v64cIncAll img p) j hj (laneBlockH (v64cIncAll img p) j) (image_bytesOf_64 _)
  rw [hinc] at hk
  exact ⟨hinc, hk.1⟩

/-! ## Mantis on 128-bit vectors -/

def laneBlockM (img : BitVec 512) (j : Nat) : Bytes := bytesOf 8 (laneSt img j)
theorem laneBlockM_length (img : BitVec 512) (j : Nat) : (laneBlockM img j).length = 8 := by simp [laneBlockM, bytesOf]
theorem laneBlockM_value (img : BitVec 512) (j : Nat) (hj : j < 8) : beNat (laneBlockM img j) = columnValue (pos64m j) img := by
  rw [laneBlockM, beNat_bytesOf8, ← vmc_column_value img j hj]

def vmcIncAll (img : BitVec 512) (p : BitVec 32) : BitVec 512 := (List.range 8).foldl (fun im c => vmcInc c im p) img

theorem laneBlockM_incAll (hspec : IncSpec 8) (img : BitVec 512) (p : BitVec 32) (hp : p.toNat ≤ 8) (j : Nat) (hj : j < 8) :
    laneBlockM (vmcIncAll img p) j = incCounter 8 p.toNat (laneBlockM img j) := by
  have hb : ∀ im, natBE 8 (beNat (laneBlockM im j)) = laneBlockM im j := fun im => natBE_beNat 8 _ (laneBlockM_length im j)
  have h1 := hspec p.toNat hp (beNat (laneBlockM img j))
  rw [hb img] at h1
  have hv := fold_value 8 (2 ^ 64) pos64m vmcInc p
    (fun c hc im => ⟨(C05_vmc_increment c hc im p).1 (by omega), (C05_vmc_increment c hc im p).2.2⟩)
    (List.range 8) List.nodup_range (fun c hc => List.mem_range.mp hc) img j hj
  simp only [List.mem_range, hj, if_true] at hv
  rw [h1, ← hb (vmcIncAll img p), laneBlockM_value _ j hj, vmcIncAll, hv, laneBlockM_value img j hj]

theorem C06R_mantis_refill (hspec : IncSpec 8) (ks : MantisKey) (img : BitVec 512) (p : BitVec 32) (hp : p.toNat ≤ 8) (j : Nat) (hj : j < 8) :
    laneBlockM (vmcIncAll img p) j = incCounter 8 p.toNat (laneBlockM img j) ∧
    bytesOf 8 ((vecMantisCtr8 ks.image ks.rounds (vmcIncAll img p)).extractLsb' (64 * j) 64) =
      mantisCrypt (opsMantis .c64le) ks (incCounter 8 p.toNat (laneBlockM img j)) := by
  have hinc := laneBlockM_incAll hspec img p hp j hj
  have hk := C06_mantis_vec128_keystream ks (vmcIncAll img p) j hj (laneBlockM (vmcIncAll img p) j) (image_bytesOf_64 _)
  rw [hinc] at hk
  exact ⟨hinc, hk.1⟩

/-- the hypotheses are met: `IncSpec` holds for the generated scalar increments, `pending` is 0 or the batch size -/
example : IncSpec 16 ∧ IncSpec 8 ∧ (BitVec.ofNat 32 4).toNat ≤ 8 ∧ (BitVec.ofNat 32 8).toNat ≤ 8 := ⟨incSpec16, incSpec8, by decide, by decide⟩

end SkinnyVerif.Properties
