/-
C13: back-end selection.  The probes (generated from the current source, `Gen/Probes.lean`)
answer exactly the architectural questions "may SSE2 / AVX2 instructions be executed", for every
processor state and whatever the registers held on entry; the selection cascade picks the widest
back end whose probe says yes.
-/
import SkinnyVerif.Gen.Probes
import SkinnyVerif.Api.World
import SkinnyVerif.Basic.Tactics

namespace SkinnyVerif.Properties
open SkinnyVerif SkinnyVerif.Spec.Cpu SkinnyVerif.Gen.Probes SkinnyVerif.Api SkinnyVerif.Impl

theorem and_twoPow_eq_zero (x : BitVec 32) (k : Nat) (hk : k < 32) :
    (x &&& BitVec.twoPow 32 k = 0#32) ↔ x.getLsbD k = false := by
  rw [BitVec.and_twoPow]
  by_cases hb : x.getLsbD k
  · simp only [hb, if_true]
    constructor
    · intro h
      have := congrArg (fun v => v.getLsbD k) h
      simp [hk] at this
    · intro h; cases h
  · simp [hb]

theorem bit26 (x : BitVec 32) : (x &&& 67108864#32 = 0#32) ↔ x[26] = false := by
  have h := and_twoPow_eq_zero x 26 (by decide)
  rw [show BitVec.twoPow 32 26 = 67108864#32 by decide] at h
  simpa using h
theorem bit27 (x : BitVec 32) : (x &&& 134217728#32 = 0#32) ↔ x[27] = false := by
  have h := and_twoPow_eq_zero x 27 (by decide)
  rw [show BitVec.twoPow 32 27 = 134217728#32 by decide] at h
  simpa using h
theorem bit5 (x : BitVec 32) : (x &&& 32#32 = 0#32) ↔ x[5] = false := by
  have h := and_twoPow_eq_zero x 5 (by decide)
  rw [show BitVec.twoPow 32 5 = 32#32 by decide] at h
  simpa using h

theorem test_and6 (x : BitVec 32) : (x &&& 6#32 = 6#32) ↔ (x[1] = true ∧ x[2] = true) := by
  constructor
  · intro h
    have e1 := congrArg (fun v => v.getLsbD 1) h
    have e2 := congrArg (fun v => v.getLsbD 2) h
    simp at e1 e2
    exact ⟨e1, e2⟩
  · intro ⟨h1, h2⟩
    bv_bits 32 <;> simp [h1, h2]

/-- the 128-bit probe answers "SSE2 available", whatever ECX held on entry -/
theorem C13_probe128 (a : Arch) (junk : Nat → BitVec 32) :
    (skinny_has_vec128 (a.env junk) != 0#32) = a.sse2 := by
  simp [skinny_has_vec128, Id.run, Arch.env, Arch.sse2, bit26]
  cases a.leaf1.2.2.2[26] <;> simp <;> first | rfl | decide

/-- the 256-bit probe answers "AVX2 usable": the maximum leaf, OSXSAVE, XCR0 and the AVX2 bit of
leaf 7 *sub-leaf 0* are all checked, and no answer depends on a register the code did not set -/
theorem C13_probe256 (a : Arch) (junk : Nat → BitVec 32) :
    (skinny_has_vec256 (a.env junk) != 0#32) = a.avx2Usable := by
  simp [skinny_has_vec256, Id.run, Arch.env, Arch.avx2Usable, bit27, bit5, test_and6]
  cases BitVec.ule 7#32 a.maxLeaf <;> cases a.leaf1.2.2.1[27] <;> cases (a.xcr 0).1[1] <;>
    cases (a.xcr 0).1[2] <;> cases (a.leaf7 0).2.1[5] <;> simp <;> first | rfl | decide

/-- what the probes report to an `init` call on a given machine -/
def probesOf (a : Arch) (junk : Nat → BitVec 32) : Probes :=
  { vec128 := skinny_has_vec128 (a.env junk) != 0#32, vec256 := skinny_has_vec256 (a.env junk) != 0#32 }

/-- determinism: the same machine always gives the same answers -/
theorem C13_deterministic (a : Arch) (j1 j2 : Nat → BitVec 32) : probesOf a j1 = probesOf a j2 := by
  simp [probesOf, C13_probe128, C13_probe256]

/-- the selected back end is the widest one that exists for the family and that the machine supports -/
theorem C13_selection (a : Arch) (junk : Nat → BitVec 32) (f : Family) :
    selectBackend f (probesOf a junk) =
      if f = .s128 ∧ a.avx2Usable then .vec256 else if a.sse2 then .vec128 else .generic := by
  simp [selectBackend, probesOf, C13_probe128, C13_probe256]

/-- never a back end whose instructions the machine cannot execute -/
theorem C13_never_exceeds (a : Arch) (junk : Nat → BitVec 32) (f : Family) :
    (selectBackend f (probesOf a junk) = .vec256 → a.avx2Usable = true ∧ f = .s128) ∧
    (selectBackend f (probesOf a junk) = .vec128 → a.sse2 = true) := by
  rw [C13_selection]
  cases f <;> cases a.avx2Usable <;> cases a.sse2 <;> simp

/-- the selected back end exists for the family (Skinny-64 and Mantis have no 256-bit back end) -/
theorem C13_exists (a : Arch) (junk : Nat → BitVec 32) (f : Family) : f.has (selectBackend f (probesOf a junk)) = true := by
  rw [C13_selection]
  cases f <;> cases a.avx2Usable <;> cases a.sse2 <;> simp [Family.has]

/-- the advertised parallel size matches the selected back end: blocks per batch × block size -/
theorem C13_parallel_size (bd : Build) (f : Family) (p : Probes) (w : World) (old : Handle) (w' : World) (h' : Handle)
    (hinit : parInit bd f p w (some old) = .ok (w', 1, some h')) :
    h'.psize = (if f = .s128 ∧ selectBackend f p = .vec256 then 8 else if f = .s128 then 4 else 8) * f.bs ∧ 0 < h'.psize ∧ h'.psize % f.bs = 0 := by
  simp only [parInit] at hinit
  split at hinit
  · split at hinit <;> simp at hinit
  · simp at hinit
    obtain ⟨_, rfl⟩ := hinit
    cases f <;> cases selectBackend _ p <;> simp [Family.bs]

example : ∃ a : Arch, a.avx2Usable = true ∧ a.sse2 = true :=
  ⟨{ maxLeaf := 13, leaf0 := (0, 0, 0), leaf1 := (0, 0, 1 <<< 27, 1 <<< 26), leaf7 := fun _ => (0, 1 <<< 5, 0, 0),
     other := fun _ _ => (0, 0, 0, 0), xcr := fun _ => (7, 0) }, by decide, by decide⟩

end SkinnyVerif.Properties
