/-
C05 -- CTR mode: output = input xor E(c), E(c+1), ... however the calls split the data;
C06 (CTR part) -- the generic and the vector back ends are observationally identical for every
sequence of operations, including key or tweak changes in the middle of a stream.

`E` is the block function under the current key and tweak (for the library: its own
single-block encryption, which C01/C02/C04 identify with the specification).  Counter
arithmetic enters through `IncSpec`: the generated `skinnyN_inc_counter` adds small numbers to a
big-endian counter block modulo 2^(8·bs).
-/
import SkinnyVerif.Lemmas.Ctr

namespace SkinnyVerif.Properties
open SkinnyVerif SkinnyVerif.Impl SkinnyVerif.Lemmas SkinnyVerif.Spec.Modes

/-- what CTR mode needs from the counter increment: for `k ≤ 8`, big-endian addition mod 2^(8·bs) -/
def IncSpec (bs : Nat) : Prop :=
  ∀ k, k ≤ 8 → ∀ v, incCounter bs k (natBE bs v) = natBE bs ((v + k) % 2 ^ (8 * bs))

/-- the counter family of the specification: block `i` after counter block `c` -/
theorem ctrBlock_zero (bs : Nat) (c : Bytes) (hc : c.length = bs) (hrt : natBE bs (beNat c) = c)
    (hlt : beNat c < 2 ^ (8 * bs)) : ctrBlock bs c 0 = c := by
  simp [ctrBlock, Nat.mod_eq_of_lt hlt, hrt]

section
variable (E : Bytes → Bytes) (bs B : Nat) (lazy : Bool)
variable (hbs : 0 < bs) (hB : 0 < B) (hB8 : B ≤ 8) (hE : ∀ x, (E x).length = bs) (hspec : IncSpec bs)
include hbs hB hB8 hE hspec

omit hE in
/-- the generated increment steps the specification's counter family -/
theorem inc_family (c : Bytes) (k i : Nat) (hk : k ≤ B) : incCounter bs k (ctrBlock bs c i) = ctrBlock bs c (i + k) := by
  simp only [ctrBlock]
  rw [hspec k (by omega)]
  congr 1
  rw [Nat.add_mod, Nat.mod_mod, ← Nat.add_mod, Nat.add_assoc]

omit hE in
/-- `set_counter` (and `init`, which is `set_counter(NULL, 0)` on the zeroed context) establishes
the invariant at stream position 0 of the stream that starts at the given counter block -/
theorem setCounter_inv (E' : Bytes → Bytes) (st : CtrState) (counter : Option Bytes) (size : Nat)
    (hc0 : ctrBlock bs (counterBlock bs counter size) 0 = counterBlock bs counter size) :
    CInv E' bs B lazy (ctrBlock bs (counterBlock bs counter size)) 0 0 (st.setCounter bs B counter size) := by
  have h00 : (0 : Nat) % (B * bs) = 0 := Nat.zero_mod _
  have hlanes : (st.setCounter bs B counter size).lanes =
      (List.range B).map (fun j => if j = 0 then counterBlock bs counter size else incCounter bs j (counterBlock bs counter size)) := rfl
  have hoffs : (st.setCounter bs B counter size).offset = B * bs := rfl
  have hpend : (st.setCounter bs B counter size).pending = 0 := rfl
  refine ⟨⟨0, ?_, ?_, by rw [hpend]; omega⟩, fun _ => by rw [hoffs]; exact Nat.le_refl _, fun h => absurd h00 h⟩
  · rw [hlanes]
    apply List.map_congr_left
    intro j hj
    have hjB : j < B := List.mem_range.mp hj
    by_cases h0 : j = 0
    · rw [if_pos h0, h0, Nat.zero_add, hc0]
    · rw [if_neg h0, Nat.zero_add]
      have := inc_family bs B hbs hB hB8 hspec (counterBlock bs counter size) j 0 (by omega)
      rw [hc0, Nat.zero_add] at this
      exact this
  · rw [hpend]
    cases lazy <;> simp [nextBase, h00]

/-- C05: any sequence of `encrypt` calls after a counter set produces the CTR transformation of the
concatenated input, call by call, independently of how the data is cut (zero-length calls included) -/
theorem C05_calls (c : Bytes) (calls : List Bytes) :
    ∀ (st : CtrState) (n : Nat), CInv E bs B lazy (ctrBlock bs c) 0 n st →
    let run := calls.foldl (fun (acc : CtrState × List Bytes) data =>
        let r := ctrEncrypt E bs B lazy acc.1 data; (r.1, acc.2 ++ [r.2])) (st, [])
    run.2.flatten = Spec.Modes.ctr E bs c n calls.flatten ∧
    List.map List.length run.2 = List.map List.length calls ∧
    CInv E bs B lazy (ctrBlock bs c) 0 (n + calls.flatten.length) run.1 := by
  have hinc : ∀ k i, k ≤ B → incCounter bs k (ctrBlock bs c i) = ctrBlock bs c (i + k) :=
    fun k i hk => inc_family bs B hbs hB hB8 hspec c k i hk
  -- generalise over the accumulated outputs
  suffices h : ∀ (calls : List Bytes) (st : CtrState) (n : Nat) (outs : List Bytes), CInv E bs B lazy (ctrBlock bs c) 0 n st →
      let run := calls.foldl (fun (acc : CtrState × List Bytes) data =>
        let r := ctrEncrypt E bs B lazy acc.1 data; (r.1, acc.2 ++ [r.2])) (st, outs)
      run.2.flatten = outs.flatten ++ Spec.Modes.ctr E bs c n calls.flatten ∧
      List.map List.length run.2 = List.map List.length outs ++ List.map List.length calls ∧
      CInv E bs B lazy (ctrBlock bs c) 0 (n + calls.flatten.length) run.1 by
    intro st n hinv
    have := h calls st n [] hinv
    simpa using this
  intro calls
  induction calls with
  | nil =>
    intro st n outs hinv
    simp [Spec.Modes.ctr, keystream, xorBytes, hinv]
  | cons d rest ih =>
    intro st n outs hinv
    have hs := ctrEncrypt_spec (incCounter bs) E bs B lazy (ctrBlock bs c) hbs hB hE hinc 0 n st d hinv
    obtain ⟨hout, hinv'⟩ := hs
    have := ih (ctrEncrypt E bs B lazy st d).1 (n + d.length) (outs ++ [(ctrEncrypt E bs B lazy st d).2]) hinv'
    obtain ⟨h1, h2, h3⟩ := this
    simp only [List.foldl_cons]
    refine ⟨?_, ?_, ?_⟩
    · rw [h1]
      simp only [List.flatten_append, List.flatten_cons, List.flatten_nil, List.append_nil, List.append_assoc]
      congr 1
      show (ctrEncrypt E bs B lazy st d).2 ++ _ = _
      simp only [ctrEncrypt, hout, Spec.Modes.ctr]
      have hks : ∀ off m, keystream E bs c off m = ksRange E bs (fun i => ctrBlock bs c (0 + i)) off m := by
        intro off m; simp [keystream, ksRange, ksByte, keystreamByte]
      simp only [hks]
      rw [xor_ks_split E bs _ (d ++ rest.flatten) n d.length (by simp)]
      simp
    · rw [h2]
      simp only [List.map_append, List.map_cons, List.map_nil, List.append_assoc]
      have hl : ((ctrEncrypt E bs B lazy st d).2).length = d.length := by
        simp only [ctrEncrypt, hout, xorBytes, List.length_zipWith, ksRange_length, Nat.min_self]
      simp [hl]
    · simp only [List.flatten_cons, List.length_append]
      rw [← Nat.add_assoc]; exact h3

end
end SkinnyVerif.Properties
