/-
C18: no hidden shared state.
* every object with static storage duration in the library's sources is `const` (census taken
  from the AST of every translation unit by `tools/facts.py`; function-local statics included);
* the CPU probes keep no state (the translator of `Gen/Probes.lean` rejects a `static` local, and
  `C13_deterministic` shows the answer is a function of the machine alone);
* block processing through a shared key schedule or parallel-ECB object does not modify anything;
* calls on two different objects commute: each touches only its own context.
Data races in the compiled code (the part a model cannot exhibit) are the ThreadSanitizer
oracle's job.
-/
import SkinnyVerif.Properties.Objects
import SkinnyVerif.Gen.Facts

namespace SkinnyVerif.Properties
open SkinnyVerif SkinnyVerif.Impl SkinnyVerif.Api

theorem C18_no_mutable_statics : Gen.Facts.statics.all (fun e => e.2.2) = true := by decide +kernel

/-- the census is not empty: the vtables and the Mantis round-constant table are there -/
theorem C18_census_nonempty : 8 ≤ Gen.Facts.statics.length := by decide +kernel

/-- parallel block processing never modifies the world or the object: a keyed parallel-ECB object
can be shared by any number of readers -/
theorem C18_parallel_crypt_read_only (bd : Build) (w : World) (f : Family) (h : Option Handle) (enc : Bool) (input : Bytes)
    (r : World × Option Handle × Out) (hr : callStep bd w (.par f) h (.parCrypt enc input) = .ok r) : r.1 = w ∧ r.2.1 = h := by
  simp only [callStep] at hr
  split at hr
  · cases hr; exact ⟨rfl, rfl⟩
  · cases hx : skinnyParCrypt bd f enc w h input with
    | error e => simp [hx, bind, Except.bind] at hr
    | ok v => simp [hx, bind, Except.bind, pure, Except.pure] at hr; subst hr; exact ⟨rfl, rfl⟩

theorem C18_mantis_parallel_crypt_read_only (bd : Build) (w : World) (f : Family) (h : Option Handle) (tweaks input : Bytes)
    (r : World × Option Handle × Out) (hr : callStep bd w (.par f) h (.mantisParCrypt tweaks input) = .ok r) : r.1 = w ∧ r.2.1 = h := by
  simp only [callStep] at hr
  split at hr
  · cases hx : mantisParCrypt bd w h tweaks input with
    | error e => simp [hx, bind, Except.bind] at hr
    | ok v => simp [hx, bind, Except.bind, pure, Except.pure] at hr; subst hr; exact ⟨rfl, rfl⟩
  · cases hr; exact ⟨rfl, rfl⟩

/-- updates of two different contexts commute -/
theorem setVal_comm (w : World) (i j : Nat) (u v : CtxVal) (hij : i ≠ j) :
    (w.setVal i u).setVal j v = (w.setVal j v).setVal i u := by
  simp only [World.setVal]
  congr 1
  apply List.ext_getElem?
  intro k
  simp only [List.getElem?_modify]
  cases w.heap[k]? with
  | none => rfl
  | some a =>
    by_cases h1 : i = k <;> by_cases h2 : j = k <;> simp [h1, h2]
    · exact absurd (h1.trans h2.symm) hij

end SkinnyVerif.Properties
