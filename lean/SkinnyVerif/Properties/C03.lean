/-
C03 -- decryption inverts encryption (and vice versa), SKINNY part.

Specification level: for every tweakey, domain constant and round count
(`Lemmas.decrypt_encrypt`, `Lemmas.encrypt_decrypt`).  Implementation level: through
`set_key` + `ecb_encrypt` / `ecb_decrypt` in every configuration, by C01/C10; through the
tweakable schedules after any tweak history, by C04.  (The parallel functions are block-by-block
applications of the same block functions in the model -- see C07; Mantis -- see C02.)
-/
import SkinnyVerif.Properties.C04
import SkinnyVerif.Lemmas.SpecInverse
import SkinnyVerif.Lemmas.ByteRoundTrip

namespace SkinnyVerif.Properties
open SkinnyVerif SkinnyVerif.Spec.Skinny SkinnyVerif.Impl SkinnyVerif.Lemmas

theorem ops8OK : CellOpsOK ops8 := ⟨S8inv_S8, S8_S8inv⟩

/-- byte interface round trips -/
theorem cellsOfBytes8_bytesOfCells8 (c : Cells 8) : cellsOfBytes8 (bytesOfCells8 c) = c := by
  have h : ∃ x : BitVec 128, cells8 x = c := by
    refine ⟨(List.finRange 16).foldl (fun (acc : BitVec 128) i => acc ||| BitVec.shiftLeft (BitVec.setWidth 128 c[i]) (8 * i.val)) (0 : BitVec 128), ?_⟩
    apply cells_ext <;> (simp [cells8_get, lane, finRange16]; bv_bits 8 <;> simp)
  obtain ⟨x, rfl⟩ := h
  rw [bytesOfCells8_cells8, cellsOfBytes8_eq, image_bytesOf_128]

theorem cellsOfBytes4_bytesOfCells4 (c : Cells 4) : cellsOfBytes4 (bytesOfCells4 c) = c := by
  have h : ∃ x : BitVec 64, cells4 x = c := by
    refine ⟨(List.finRange 16).foldl (fun (acc : BitVec 64) i => acc ||| BitVec.shiftLeft (BitVec.setWidth 64 c[i]) (4 * (i.val ^^^ 1))) (0 : BitVec 64), ?_⟩
    apply cells_ext <;> (simp [cells4_get, lane, finRange16]; bv_bits 4 <;> simp)
  obtain ⟨x, rfl⟩ := h
  rw [bytesOfCells4_cells4, cellsOfBytes4_eq, image_bytesOf_64]

theorem bytesOfCells8_cellsOfBytes8 (l : Bytes) (hl : l.length = 16) : bytesOfCells8 (cellsOfBytes8 l) = l := by
  rw [cellsOfBytes8_eq, bytesOfCells8_cells8, bytesOf_image 128 16 l hl (by decide)]
theorem bytesOfCells4_cellsOfBytes4 (l : Bytes) (hl : l.length = 8) : bytesOfCells4 (cellsOfBytes4 l) = l := by
  rw [cellsOfBytes4_eq, bytesOfCells4_cells4, bytesOf_image 64 8 l hl (by decide)]

/-- specification, byte level: SKINNY-128 with any key -/
theorem spec128_dec_enc (key blk : Bytes) (hb : blk.length = 16) : decrypt128 key (encrypt128 key blk) = blk := by
  simp only [decrypt128, encrypt128, cellsOfBytes8_bytesOfCells8, decrypt_encrypt ops8 ops8OK, bytesOfCells8_cellsOfBytes8 blk hb]
theorem spec128_enc_dec (key blk : Bytes) (hb : blk.length = 16) : encrypt128 key (decrypt128 key blk) = blk := by
  simp only [decrypt128, encrypt128, cellsOfBytes8_bytesOfCells8, encrypt_decrypt ops8 ops8OK, bytesOfCells8_cellsOfBytes8 blk hb]
theorem spec64_dec_enc (key blk : Bytes) (hb : blk.length = 8) : decrypt64 key (encrypt64 key blk) = blk := by
  simp only [decrypt64, encrypt64, cellsOfBytes4_bytesOfCells4, decrypt_encrypt ops4 ops4OK, bytesOfCells4_cellsOfBytes4 blk hb]
theorem spec64_enc_dec (key blk : Bytes) (hb : blk.length = 8) : encrypt64 key (decrypt64 key blk) = blk := by
  simp only [decrypt64, encrypt64, cellsOfBytes4_bytesOfCells4, encrypt_decrypt ops4 ops4OK, bytesOfCells4_cellsOfBytes4 blk hb]
theorem specT128_dec_enc (key tw blk : Bytes) (hb : blk.length = 16) : decryptTweaked128 key tw (encryptTweaked128 key tw blk) = blk := by
  simp only [decryptTweaked128, encryptTweaked128, cellsOfBytes8_bytesOfCells8, decrypt_encrypt ops8 ops8OK, bytesOfCells8_cellsOfBytes8 blk hb]
theorem specT128_enc_dec (key tw blk : Bytes) (hb : blk.length = 16) : encryptTweaked128 key tw (decryptTweaked128 key tw blk) = blk := by
  simp only [decryptTweaked128, encryptTweaked128, cellsOfBytes8_bytesOfCells8, encrypt_decrypt ops8 ops8OK, bytesOfCells8_cellsOfBytes8 blk hb]
theorem specT64_dec_enc (key tw blk : Bytes) (hb : blk.length = 8) : decryptTweaked64 key tw (encryptTweaked64 key tw blk) = blk := by
  simp only [decryptTweaked64, encryptTweaked64, cellsOfBytes4_bytesOfCells4, decrypt_encrypt ops4 ops4OK, bytesOfCells4_cellsOfBytes4 blk hb]
theorem specT64_enc_dec (key tw blk : Bytes) (hb : blk.length = 8) : encryptTweaked64 key tw (decryptTweaked64 key tw blk) = blk := by
  simp only [decryptTweaked64, encryptTweaked64, cellsOfBytes4_bytesOfCells4, encrypt_decrypt ops4 ops4OK, bytesOfCells4_cellsOfBytes4 blk hb]

/-- implementation: SKINNY-128, any accepted key length, every configuration, both orders -/
theorem C03_skinny128 (t : Tag) (ks0 : KeySched 64) (hlen : 56 ≤ ks0.sched.length) (key : Bytes) (size : Nat)
    (h1 : 16 ≤ size) (h2 : size ≤ 48) (hkey : size ≤ key.length) (j2 j3 : BitVec 128) (blk : Bytes) (hb : blk.length = 16) :
    let ks := (setKey (ops128 t) guards128 p128 ks0 (some key) size j2 j3).2
    ecbDecrypt (ops128 t) p128 ks (ecbEncrypt (ops128 t) p128 ks blk) = blk ∧
    ecbEncrypt (ops128 t) p128 ks (ecbDecrypt (ops128 t) p128 ks blk) = blk := by
  intro ks
  have h := C10_skinny128_set_key t ks0 hlen key size (by omega) (Or.inl hkey) j2 j3
  obtain ⟨hacc, _, _, hres⟩ := h
  have hr1 := hacc.mpr ⟨h1, h2⟩
  have he := fun b => (hres hr1 b).1
  have hd := fun b => (hres hr1 b).2
  constructor
  · show ecbDecrypt (ops128 t) p128 _ (ecbEncrypt (ops128 t) p128 _ blk) = blk
    rw [he, hd, spec128_dec_enc _ _ hb]
  · show ecbEncrypt (ops128 t) p128 _ (ecbDecrypt (ops128 t) p128 _ blk) = blk
    rw [hd, he, spec128_enc_dec _ _ hb]

theorem C03_skinny64 (t : Tag) (ks0 : KeySched 32) (hlen : 40 ≤ ks0.sched.length) (key : Bytes) (size : Nat)
    (h1 : 8 ≤ size) (h2 : size ≤ 24) (hkey : size ≤ key.length) (j2 j3 : BitVec 64) (blk : Bytes) (hb : blk.length = 8) :
    let ks := (setKey (ops64 t) guards64 p64 ks0 (some key) size j2 j3).2
    ecbDecrypt (ops64 t) p64 ks (ecbEncrypt (ops64 t) p64 ks blk) = blk ∧
    ecbEncrypt (ops64 t) p64 ks (ecbDecrypt (ops64 t) p64 ks blk) = blk := by
  intro ks
  have h := C10_skinny64_set_key t ks0 hlen key size (by omega) (Or.inl hkey) j2 j3
  obtain ⟨hacc, _, _, hres⟩ := h
  have hr1 := hacc.mpr ⟨h1, h2⟩
  have he := fun b => (hres hr1 b).1
  have hd := fun b => (hres hr1 b).2
  constructor
  · show ecbDecrypt (ops64 t) p64 _ (ecbEncrypt (ops64 t) p64 _ blk) = blk
    rw [he, hd, spec64_dec_enc _ _ hb]
  · show ecbEncrypt (ops64 t) p64 _ (ecbDecrypt (ops64 t) p64 _ blk) = blk
    rw [hd, he, spec64_enc_dec _ _ hb]

/-- tweakable schedules after any tweak history -/
theorem C03_tweaked128 (t : Tag) (tk0 : TweakedKey 64) (hlen : 56 ≤ tk0.ks.sched.length) (key : Bytes) (size : Nat)
    (hs1 : 16 ≤ size) (hs2 : size ≤ 32) (hkey : size ≤ key.length) (j2 j3 : BitVec 128)
    (hist : List TweakArg) (hv : ∀ a ∈ hist, validTweak 16 a) (blk : Bytes) (hb : blk.length = 16) :
    let tk := applyTweaks128 t (setTweakedKey (ops128 t) guards128 p128 tk0 (some key) size j2 j3).2 hist
    ecbDecrypt (ops128 t) p128 tk.ks (ecbEncrypt (ops128 t) p128 tk.ks blk) = blk ∧
    ecbEncrypt (ops128 t) p128 tk.ks (ecbDecrypt (ops128 t) p128 tk.ks blk) = blk := by
  intro tk
  have he := fun b => (C04_skinny128 t tk0 hlen key size hs1 hs2 hkey j2 j3 hist hv b).2.1
  have hd := fun b => (C04_skinny128 t tk0 hlen key size hs1 hs2 hkey j2 j3 hist hv b).2.2
  constructor
  · show ecbDecrypt (ops128 t) p128 _ (ecbEncrypt (ops128 t) p128 _ blk) = blk
    rw [he, hd, specT128_dec_enc _ _ _ hb]
  · show ecbEncrypt (ops128 t) p128 _ (ecbDecrypt (ops128 t) p128 _ blk) = blk
    rw [hd, he, specT128_enc_dec _ _ _ hb]

theorem C03_tweaked64 (t : Tag) (tk0 : TweakedKey 32) (hlen : 40 ≤ tk0.ks.sched.length) (key : Bytes) (size : Nat)
    (hs1 : 8 ≤ size) (hs2 : size ≤ 16) (hkey : size ≤ key.length) (j2 j3 : BitVec 64)
    (hist : List TweakArg) (hv : ∀ a ∈ hist, validTweak 8 a) (blk : Bytes) (hb : blk.length = 8) :
    let tk := applyTweaks64 t (setTweakedKey (ops64 t) guards64 p64 tk0 (some key) size j2 j3).2 hist
    ecbDecrypt (ops64 t) p64 tk.ks (ecbEncrypt (ops64 t) p64 tk.ks blk) = blk ∧
    ecbEncrypt (ops64 t) p64 tk.ks (ecbDecrypt (ops64 t) p64 tk.ks blk) = blk := by
  intro tk
  have he := fun b => (C04_skinny64 t tk0 hlen key size hs1 hs2 hkey j2 j3 hist hv b).2.1
  have hd := fun b => (C04_skinny64 t tk0 hlen key size hs1 hs2 hkey j2 j3 hist hv b).2.2
  constructor
  · show ecbDecrypt (ops64 t) p64 _ (ecbEncrypt (ops64 t) p64 _ blk) = blk
    rw [he, hd, specT64_dec_enc _ _ _ hb]
  · show ecbEncrypt (ops64 t) p64 _ (ecbDecrypt (ops64 t) p64 _ blk) = blk
    rw [hd, he, specT64_enc_dec _ _ _ hb]

end SkinnyVerif.Properties
