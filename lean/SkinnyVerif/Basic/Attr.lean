/-
Simp attribute `gen_unfold`: carried by every generated stage definition and by every
generated function or piece that proofs reason about by unfolding (everything except the
lane-structured leaf functions -- S-boxes and LFSRs -- which are used through their lane lemmas).
-/
import Lean
register_simp_attr gen_unfold
