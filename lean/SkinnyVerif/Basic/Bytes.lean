/-
Byte strings and little-endian memory images.
An object of `n` bytes is modelled in the generated layer as `BitVec (8*n)` with byte `i`
at bits `8i … 8i+7` (what a little-endian host sees through any of the union views).
-/
namespace SkinnyVerif

abbrev Bytes := List UInt8

/-- little-endian value of a byte string -/
def leNat : Bytes → Nat
  | [] => 0
  | x :: xs => x.toNat + 256 * leNat xs

/-- big-endian value of a byte string -/
def beNat (b : Bytes) : Nat := leNat b.reverse

/-- memory image (`w` bits) of a byte string; bytes beyond `w/8` are dropped, missing ones are 0 -/
def image (w : Nat) (b : Bytes) : BitVec w := BitVec.ofNat w (leNat b)

/-- the first `n` bytes of an image -/
def bytesOf {w : Nat} (n : Nat) (x : BitVec w) : Bytes :=
  (List.range n).map fun i => UInt8.ofNat ((x.toNat >>> (8 * i)) % 256)

/-- `n`-byte big-endian encoding of a number (mod 2^(8n)) -/
def natBE (n : Nat) (v : Nat) : Bytes :=
  (List.range n).map fun i => UInt8.ofNat ((v >>> (8 * (n - 1 - i))) % 256)

def zeros (n : Nat) : Bytes := List.replicate n 0

/-- pad with zeros on the right, or truncate, to exactly `n` bytes -/
def padRight (n : Nat) (b : Bytes) : Bytes := (b ++ zeros n).take n

/-- pad with zeros on the left to `n` bytes (`b.length ≤ n`) -/
def padLeft (n : Nat) (b : Bytes) : Bytes := zeros (n - b.length) ++ b

def xorBytes (a b : Bytes) : Bytes := List.zipWith (· ^^^ ·) a b

def hexDigit (n : Nat) : Char := if n < 10 then Char.ofNat (48 + n) else Char.ofNat (87 + n)
def toHex (b : Bytes) : String :=
  String.ofList (b.flatMap fun x => [hexDigit (x.toNat / 16), hexDigit (x.toNat % 16)])
def hexVal (c : Char) : Option Nat :=
  if '0' ≤ c ∧ c ≤ '9' then some (c.toNat - 48)
  else if 'a' ≤ c ∧ c ≤ 'f' then some (c.toNat - 87)
  else if 'A' ≤ c ∧ c ≤ 'F' then some (c.toNat - 55) else none
def ofHex (s : String) : Option Bytes :=
  let rec go : List Char → Option Bytes
    | [] => some []
    | a :: b :: rest => do
      let x ← hexVal a; let y ← hexVal b; let r ← go rest
      pure (UInt8.ofNat (16 * x + y) :: r)
    | _ => none
  go s.toList

end SkinnyVerif
