/-
Byte (and wider) windows of memory images that the translator assembles as
`seg₀.setWidth w ||| (seg₁.setWidth w <<< s₁) ||| …`: a window that lies inside one segment is a window of
that segment, a window that misses a segment sees zero there.  With literal offsets the side
conditions are closed by `simp`'s arithmetic, so a lane of a large image is computed in one pass over
its segments instead of once per bit.
-/
import SkinnyVerif.Basic.Lanes

namespace SkinnyVerif

theorem win_shift_in {w n : Nat} (x : BitVec n) (s p m : Nat) (h1 : s ≤ p) (h2 : p + m ≤ s + n) (h3 : p + m ≤ w) :
    BitVec.extractLsb' p m (x.setWidth w <<< s) = BitVec.extractLsb' (p - s) m x := by
  apply BitVec.eq_of_getLsbD_eq
  intro j hj
  simp only [BitVec.getLsbD_extractLsb', BitVec.getLsbD_shiftLeft, BitVec.getLsbD_setWidth, hj, decide_true, Bool.true_and]
  have a1 : p + j < w := by omega
  have a2 : ¬ (p + j < s) := by omega
  have a3 : p + j - s < w := by omega
  have a4 : p + j - s = p - s + j := by omega
  have a5 : p - s + j < w := by omega
  simp [a1, a2, a3, a4, a5]

theorem win_shift_out {w n : Nat} (x : BitVec n) (s p m : Nat) (h : p + m ≤ s ∨ s + n ≤ p) :
    BitVec.extractLsb' p m (x.setWidth w <<< s) = 0#m := by
  apply BitVec.eq_of_getLsbD_eq
  intro j hj
  simp only [BitVec.getLsbD_extractLsb', BitVec.getLsbD_shiftLeft, BitVec.getLsbD_setWidth, hj, decide_true, Bool.true_and, BitVec.getLsbD_zero]
  rcases h with h | h
  · have : p + j < s := by omega
    simp [this]
  · by_cases hs : p + j < s
    · simp [hs]
    · have : n ≤ p + j - s := by omega
      simp [hs, BitVec.getLsbD_of_ge x _ this]

theorem win_in {w n : Nat} (x : BitVec n) (p m : Nat) (h2 : p + m ≤ n) (h3 : p + m ≤ w) :
    BitVec.extractLsb' p m (x.setWidth w) = BitVec.extractLsb' p m x := by
  apply BitVec.eq_of_getLsbD_eq
  intro j hj
  have a1 : p + j < w := by omega
  simp [BitVec.getLsbD_extractLsb', BitVec.getLsbD_setWidth, hj, a1]

theorem win_out {w n : Nat} (x : BitVec n) (p m : Nat) (h : n ≤ p) :
    BitVec.extractLsb' p m (x.setWidth w) = 0#m := by
  apply BitVec.eq_of_getLsbD_eq
  intro j hj
  have : n ≤ p + j := by omega
  simp [BitVec.getLsbD_extractLsb', BitVec.getLsbD_setWidth, hj, BitVec.getLsbD_of_ge x _ this]

theorem win_or {w : Nat} (a b : BitVec w) (p m : Nat) :
    BitVec.extractLsb' p m (a ||| b) = BitVec.extractLsb' p m a ||| BitVec.extractLsb' p m b := by
  apply BitVec.eq_of_getLsbD_eq
  intro j hj
  simp [BitVec.getLsbD_extractLsb', hj]

theorem win_zero {n : Nat} (x : BitVec n) (m : Nat) : BitVec.extractLsb' 0 m x = x.setWidth m := by
  apply BitVec.eq_of_getLsbD_eq
  intro j hj
  simp [BitVec.getLsbD_extractLsb', BitVec.getLsbD_setWidth, hj]

theorem win_xor {w : Nat} (a b : BitVec w) (p m : Nat) :
    BitVec.extractLsb' p m (a ^^^ b) = BitVec.extractLsb' p m a ^^^ BitVec.extractLsb' p m b := by
  apply BitVec.eq_of_getLsbD_eq
  intro j hj
  simp [BitVec.getLsbD_extractLsb', hj]

/-- `seg_lanes`: compute windows of an or-of-shifted-segments image in one pass -/
syntax "seg_windows" : tactic
macro_rules
  | `(tactic| seg_windows) => `(tactic|
    simp (discharger := omega) only [win_or, win_xor, win_shift_in, win_shift_out, win_in, win_out, extractLsb'_extractLsb'_le, win_zero,
      BitVec.or_zero, BitVec.zero_or, BitVec.setWidth_eq, Nat.reduceAdd, Nat.reduceSub, Nat.reduceMul])

end SkinnyVerif
