/-
Small proof-automation helpers used throughout (core Lean only).
-/
import Lean
open Lean Elab Tactic Meta

namespace SkinnyVerif

/-- Split the main goal, which has a hypothesis `i : Nat` and a bound on it that `omega`
can use, into `n` goals with `i` replaced by `0`, `0+1`, … -/
def splitNatLits (i : Ident) (n : Nat) : TacticM Unit := do
  let others := (← getGoals).drop 1
  let mut done : Array MVarId := #[]
  for _ in [0:n] do
    let g ← getMainGoal
    setGoals [g]
    evalTactic (← `(tactic| rcases $i:ident with _ | $i:ident))
    let gs ← getGoals
    match gs with
    | [g0, g1] =>
      done := done.push g0
      setGoals [g1]
    | _ => throwError "splitNatLits: unexpected goals after rcases"
  evalTactic (← `(tactic| (exfalso; omega)))
  setGoals (done.toList ++ others)

/-- `bv_bits n` turns a goal `a = b` on `BitVec n` into `n` goals
`a.getLsbD k = b.getLsbD k`, one for each *literal* bit index `k = 0 … n-1`
(written `0`, `0+1`, `0+1+1`, … which `simp` normalises). -/
syntax (name := bvBits) "bv_bits " num : tactic

@[tactic bvBits] def evalBvBits : Tactic := fun stx => do
  let n := stx[1].toNat
  let j := mkIdent `j
  let hj := mkIdent `hj
  evalTactic (← `(tactic| (apply BitVec.eq_of_getLsbD_eq; intro $j:ident $hj:ident)))
  splitNatLits j n

/-- `nat_cases i n` : with `i : Nat` in context and a hypothesis from which `omega` derives
`i < n`, split into `n` goals with literal `i`. -/
syntax (name := natCases) "nat_cases " ident num : tactic

@[tactic natCases] def evalNatCases : Tactic := fun stx => do
  let i : Ident := ⟨stx[1]⟩
  let n := stx[2].toNat
  splitNatLits i n

end SkinnyVerif
