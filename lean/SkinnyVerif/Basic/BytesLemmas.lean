/-
Facts about little-endian memory images of byte strings.
-/
import SkinnyVerif.Basic.Bytes
import SkinnyVerif.Basic.Lanes

namespace SkinnyVerif

theorem leNat_lt (l : Bytes) : leNat l < 2 ^ (8 * l.length) := by
  induction l with
  | nil => simp [leNat]
  | cons x xs ih =>
    have hx : x.toNat < 256 := x.toNat_lt
    have : 2 ^ (8 * (xs.length + 1)) = 256 * 2 ^ (8 * xs.length) := by
      rw [Nat.mul_succ, Nat.pow_add]; simp [Nat.mul_comm]
    simp only [leNat, List.length_cons, this]
    omega

theorem leNat_append_zeros (l : Bytes) (n : Nat) : leNat (l ++ zeros n) = leNat l := by
  induction l with
  | nil =>
    induction n with
    | zero => rfl
    | succ n ih => simp only [zeros, List.replicate_succ, List.nil_append, leNat] at ih ⊢; simp [ih]
  | cons x xs ih => simp only [List.cons_append, leNat, ih]

/-- byte `i` of the little-endian value -/
theorem leNat_byte (l : Bytes) (i : Nat) : (leNat l >>> (8 * i)) % 256 = (l.getD i 0).toNat := by
  induction l generalizing i with
  | nil => simp [leNat]
  | cons x xs ih =>
    have hx : x.toNat < 256 := x.toNat_lt
    cases i with
    | zero => simp only [leNat, Nat.mul_zero, Nat.shiftRight_zero, List.getD_cons_zero]; omega
    | succ i =>
      have : 8 * (i + 1) = 8 + 8 * i := by omega
      have h8 : (leNat (x :: xs)) >>> 8 = leNat xs := by
        simp only [leNat, Nat.shiftRight_eq_div_pow]; omega
      rw [this, Nat.shiftRight_add, h8, ih i]
      simp

/-- the image only depends on the first `n` bytes when `w ≤ 8 n` -/
theorem image_take (w : Nat) (l : Bytes) (n : Nat) (h : w ≤ 8 * n) : image w (l.take n) = image w l := by
  apply BitVec.eq_of_toNat_eq
  simp only [image, BitVec.toNat_ofNat]
  -- leNat l = leNat (take n l) + 2^(8 n) * leNat (drop n l)
  have hsplit : ∀ (l : Bytes) (n : Nat), leNat l = leNat (l.take n) + 2 ^ (8 * n) * leNat (l.drop n) := by
    intro l
    induction l with
    | nil => intro n; simp [leNat]
    | cons x xs ih =>
      intro n
      cases n with
      | zero => simp [leNat]
      | succ n =>
        have : 2 ^ (8 * (n + 1)) = 256 * 2 ^ (8 * n) := by
          rw [Nat.mul_succ, Nat.pow_add]; simp [Nat.mul_comm]
        simp only [List.take_succ_cons, List.drop_succ_cons, leNat, this]
        rw [ih n]
        rw [Nat.mul_add, Nat.mul_assoc, Nat.add_assoc]
  rw [hsplit l n]
  have hdiv : 2 ^ w ∣ 2 ^ (8 * n) := Nat.pow_dvd_pow 2 h
  obtain ⟨c, hc⟩ := hdiv
  rw [hc, Nat.mul_assoc, Nat.add_mul_mod_self_left]

/-- masking an image of at most `k` bytes with `2^(8k) - 1` does nothing -/
theorem image_and_mask (w : Nat) (l : Bytes) (k : Nat) (h : l.length ≤ k) :
    image w l &&& BitVec.ofNat w (2 ^ (8 * k) - 1) = image w l := by
  apply BitVec.eq_of_toNat_eq
  simp only [image, BitVec.toNat_and, BitVec.toNat_ofNat]
  have hl : leNat l < 2 ^ (8 * k) := Nat.lt_of_lt_of_le (leNat_lt l) (Nat.pow_le_pow_right (by decide) (by omega))
  have hm : leNat l % 2 ^ w < 2 ^ (8 * k) := Nat.lt_of_le_of_lt (Nat.mod_le _ _) hl
  apply Nat.eq_of_testBit_eq
  intro i
  simp only [Nat.testBit_and, Nat.testBit_mod_two_pow, Nat.testBit_two_pow_sub_one]
  by_cases hi : i < 8 * k
  · simp [hi]
    intro h1 _; exact h1
  · have : (leNat l).testBit i = false := Nat.testBit_lt_two_pow (Nat.lt_of_lt_of_le hl (Nat.pow_le_pow_right (by decide) (by omega)))
    simp [this]

theorem image_append_zeros (w : Nat) (l : Bytes) (n : Nat) : image w (l ++ zeros n) = image w l := by
  simp [image, leNat_append_zeros]

/-- byte lane `i` of an image is byte `i` of the string -/
theorem lane8_image (w : Nat) (l : Bytes) (i : Nat) (h : 8 * (i + 1) ≤ w) :
    lane 8 i (image w l) = BitVec.ofNat 8 (l.getD i 0).toNat := by
  apply BitVec.eq_of_toNat_eq
  simp only [lane, image, BitVec.toNat_ofNat, BitVec.extractLsb'_toNat]
  have h1 : (leNat l % 2 ^ w) >>> (8 * i) % 2 ^ 8 = (leNat l >>> (8 * i)) % 256 := by
    apply Nat.eq_of_testBit_eq
    intro j
    simp only [Nat.testBit_mod_two_pow, Nat.testBit_shiftRight]
    have h256 : (256 : Nat) = 2 ^ 8 := by decide
    rw [h256]
    simp only [Nat.testBit_mod_two_pow, Nat.testBit_shiftRight]
    by_cases hj : j < 8
    · have : 8 * i + j < w := by omega
      simp [hj, this]
    · simp [hj]
  rw [h1, leNat_byte]
  have : (l.getD i 0).toNat < 256 := (l.getD i 0).toNat_lt
  omega

theorem bytesOf_lanes {w : Nat} (n : Nat) (x : BitVec w) :
    bytesOf n x = (List.range n).map fun i => UInt8.ofNat (lane 8 i x).toNat := by
  simp [bytesOf, lane, BitVec.extractLsb'_toNat]

end SkinnyVerif
