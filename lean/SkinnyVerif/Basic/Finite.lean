/-
Complete finite case analysis over small bit-vectors, evaluated by the kernel.
`∀ v : BitVec 8, p v` is reduced to a `List.all` over all 256 values, which
`decide +kernel` evaluates; this is a proof over the whole (finite) domain, not a sample.
-/
namespace SkinnyVerif

theorem forall_bv_of_all {w : Nat} (p : BitVec w → Bool)
    (h : (List.range (2 ^ w)).all (fun n => p (BitVec.ofNat w n)) = true) : ∀ v, p v = true := by
  intro v
  have hv := List.all_eq_true.mp h v.toNat (List.mem_range.mpr v.isLt)
  simpa using hv

theorem forall_bv_eq {w : Nat} {α : Type} [DecidableEq α] (f g : BitVec w → α)
    (h : (List.range (2 ^ w)).all (fun n => decide (f (BitVec.ofNat w n) = g (BitVec.ofNat w n))) = true) :
    ∀ v, f v = g v := by
  intro v
  have := forall_bv_of_all (fun v => decide (f v = g v)) h v
  simpa using this

end SkinnyVerif
