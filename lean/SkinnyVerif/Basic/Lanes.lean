/-
Lanes (cells) of machine words: `lane k i x` is the `i`-th `k`-bit lane of `x`, counting from
the least significant end.  For the little-endian memory images used throughout the
generated layer, byte `i` of an object is `lane 8 i image`.
-/
import SkinnyVerif.Basic.Tactics

namespace SkinnyVerif

def lane (k i : Nat) {w : Nat} (x : BitVec w) : BitVec k := x.extractLsb' (k * i) k

theorem getLsbD_lane (k i : Nat) {w : Nat} (x : BitVec w) (m : Nat) :
    (lane k i x).getLsbD m = (decide (m < k) && x.getLsbD (k * i + m)) := by
  simp [lane, BitVec.getLsbD_extractLsb']

/-- Two words with equal lanes are equal. -/
theorem eq_of_lanes {w : Nat} (k n : Nat) (hk : 0 < k) (hw : w ≤ k * n) (a b : BitVec w)
    (h : ∀ i, i < n → lane k i a = lane k i b) : a = b := by
  apply BitVec.eq_of_getLsbD_eq
  intro j hj
  have hi : j / k < n := by
    apply Nat.div_lt_of_lt_mul
    omega
  have h1 := congrArg (fun v => v.getLsbD (j % k)) (h (j / k) hi)
  simp only [getLsbD_lane] at h1
  have hm : j % k < k := Nat.mod_lt _ hk
  have hjk : k * (j / k) + j % k = j := Nat.div_add_mod j k
  simpa [hm, hjk] using h1

/-- `n` lanes of width `k` packed into one word (lane `i` at bits `k*i …`). -/
def packLanes (k : Nat) (w : Nat) (f : Nat → BitVec k) : Nat → BitVec w
  | 0 => 0
  | n + 1 => packLanes k w f n ||| ((f n).setWidth w <<< (k * n))

/-- apply `f` to each of the `n` `k`-bit lanes of a `w`-bit word -/
def mapLanes (k n : Nat) {w : Nat} (f : BitVec k → BitVec k) (x : BitVec w) : BitVec w :=
  packLanes k w (fun i => f (lane k i x)) n

theorem lane_packLanes (k w : Nat) (f : Nat → BitVec k) (n i : Nat) (hw : k * n ≤ w) :
    lane k i (packLanes k w f n) = if i < n then f i else 0 := by
  induction n with
  | zero => simp [packLanes, lane]
  | succ n ih =>
    have hw' : k * n ≤ w := by
      have : k * n ≤ k * (n + 1) := Nat.mul_le_mul_left k (Nat.le_succ n)
      omega
    apply BitVec.eq_of_getLsbD_eq
    intro m hm
    have ih' := congrArg (fun v => v.getLsbD m) (ih hw')
    simp only [getLsbD_lane] at ih'
    simp only [packLanes, getLsbD_lane, BitVec.getLsbD_or, BitVec.getLsbD_shiftLeft,
      BitVec.getLsbD_setWidth, hm, decide_true, Bool.true_and] at ih' ⊢
    rw [ih']
    have hmul : k * (n + 1) = k * n + k := Nat.mul_succ k n
    by_cases hin : i < n
    · have h1 : i < n + 1 := by omega
      have h2 : k * i + m < k * n := by
        have : k * (i + 1) ≤ k * n := Nat.mul_le_mul_left k hin
        rw [Nat.mul_succ] at this; omega
      simp [hin, h1, h2]
    · by_cases hie : i = n
      · subst hie
        have hlt : k * i + m < w := by omega
        have hmw : m < w := by omega
        have hnl : ¬ (k * i + m < k * i) := by omega
        simp [hlt, hmw, hnl]
      · have h1 : ¬ i < n + 1 := by omega
        have h3 : k * (n + 1) ≤ k * i := Nat.mul_le_mul_left k (by omega)
        have h2 : ¬ k * i + m < k * n := by omega
        have h4 : k * i + m - k * n ≥ k := by omega
        simp [hin, h1, h2]
        intro _ _
        exact BitVec.getLsbD_of_ge _ _ h4

theorem lane_mapLanes (k n : Nat) {w : Nat} (f : BitVec k → BitVec k) (x : BitVec w) (i : Nat)
    (hw : k * n ≤ w) (hi : i < n) : lane k i (mapLanes k n f x) = f (lane k i x) := by
  simp [mapLanes, lane_packLanes k w _ n i hw, hi]

/-- A word function that acts on each lane as `g` is `mapLanes g`. -/
theorem eq_mapLanes {w : Nat} (k n : Nat) (hk : 0 < k) (hw : w = k * n) (F : BitVec w → BitVec w)
    (g : BitVec k → BitVec k) (h : ∀ x i, i < n → lane k i (F x) = g (lane k i x)) (x : BitVec w) :
    F x = mapLanes k n g x := by
  apply eq_of_lanes k n hk (by omega)
  intro i hi
  rw [h x i hi, lane_mapLanes k n g x i (by omega) hi]

end SkinnyVerif

namespace SkinnyVerif

/-- bit `p` of a lane-wise function is bit `p % k` of the lane function applied to lane `p / k` -/
theorem getLsbD_of_lanes {w : Nat} (k n : Nat) (hk : 0 < k) (F : BitVec w → BitVec w) (g : BitVec k → BitVec k)
    (h : ∀ x i, i < n → lane k i (F x) = g (lane k i x)) (x : BitVec w) (p : Nat) (hp : p < k * n) :
    (F x).getLsbD p = (g (lane k (p / k) x)).getLsbD (p % k) := by
  have hi : p / k < n := Nat.div_lt_of_lt_mul hp
  have h1 := congrArg (fun v => v.getLsbD (p % k)) (h x (p / k) hi)
  simp only [getLsbD_lane] at h1
  have hm : p % k < k := Nat.mod_lt _ hk
  have hjk : k * (p / k) + p % k = p := Nat.div_add_mod p k
  simpa [hm, hjk] using h1

/-- lane of a sub-word extracted at a lane boundary -/
theorem lane_extractLsb' {w : Nat} (k i s n : Nat) (x : BitVec w) (h : k * (i + 1) ≤ n) :
    lane k i (BitVec.extractLsb' s n x) = BitVec.extractLsb' (s + k * i) k x := by
  apply BitVec.eq_of_getLsbD_eq
  intro m hm
  have : k * i + m < n := by
    have : k * (i + 1) = k * i + k := Nat.mul_succ k i
    omega
  simp [lane, BitVec.getLsbD_extractLsb', hm, this, Nat.add_assoc]

end SkinnyVerif

namespace SkinnyVerif

/-- a sub-word of a sub-word -/
theorem extractLsb'_extractLsb'_le {w : Nat} (a n b m : Nat) (x : BitVec w) (h : a + n ≤ m) :
    BitVec.extractLsb' a n (BitVec.extractLsb' b m x) = BitVec.extractLsb' (b + a) n x := by
  apply BitVec.eq_of_getLsbD_eq
  intro j hj
  have : a + j < m := by omega
  simp [BitVec.getLsbD_extractLsb', hj, this, Nat.add_assoc]

end SkinnyVerif
