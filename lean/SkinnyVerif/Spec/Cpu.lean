/-
Architectural model of what the CPU probes may ask an x86 processor (CPUID, XGETBV), and of
when SSE2 / AVX2 instructions may be executed (Intel SDM vol. 1 §14.3 "Detection of AVX
instructions", vol. 2A CPUID).  The probes of `src/skinny-internal.c` are translated into
functions over `ProbeEnv` (`Gen/Probes.lean`).
-/
namespace SkinnyVerif.Spec.Cpu

/-- EAX, EBX, ECX, EDX -/
abbrev Regs := BitVec 32 × BitVec 32 × BitVec 32 × BitVec 32

/-- what the probe code can observe -/
structure ProbeEnv where
  cpuid : BitVec 32 → BitVec 32 → Regs           -- EAX (leaf), ECX (sub-leaf) ↦ registers
  xgetbv : BitVec 32 → BitVec 32 × BitVec 32     -- ECX ↦ EAX, EDX
  junk : Nat → BitVec 32                          -- the value of a register the code did not set

/-- the architectural state of one processor + operating system -/
structure Arch where
  maxLeaf : BitVec 32                 -- CPUID.0:EAX
  leaf0 : BitVec 32 × BitVec 32 × BitVec 32      -- vendor string
  leaf1 : Regs                        -- CPUID.1 (ignores ECX)
  leaf7 : BitVec 32 → Regs            -- CPUID.7, per sub-leaf
  other : BitVec 32 → BitVec 32 → Regs
  xcr : BitVec 32 → BitVec 32 × BitVec 32   -- XGETBV per ECX (XCR0 at ECX = 0)

def Arch.env (a : Arch) (junk : Nat → BitVec 32) : ProbeEnv :=
  { cpuid := fun leaf sub =>
      if leaf = 0 then (a.maxLeaf, a.leaf0.1, a.leaf0.2.1, a.leaf0.2.2)
      else if leaf = 1 then a.leaf1
      else if leaf = 7 then a.leaf7 sub
      else a.other leaf sub,
    xgetbv := a.xcr, junk := junk }

/-- SSE2 instructions can be executed: CPUID.1:EDX.SSE2[26] (every x86-64 processor reports leaf 1) -/
def Arch.sse2 (a : Arch) : Bool := a.leaf1.2.2.2.getLsbD 26

/-- AVX2 instructions can be executed: leaf 7 exists, the OS uses XSAVE (CPUID.1:ECX.OSXSAVE[27]),
XCR0 enables SSE and AVX state (bits 1 and 2), and CPUID.(7,0):EBX.AVX2[5] is set -/
def Arch.avx2Usable (a : Arch) : Bool :=
  BitVec.ule 7 a.maxLeaf && a.leaf1.2.2.1.getLsbD 27 && ((a.xcr 0).1.getLsbD 1 && (a.xcr 0).1.getLsbD 2) && (a.leaf7 0).2.1.getLsbD 5

end SkinnyVerif.Spec.Cpu
