/-
Published test vectors (from the SKINNY/MANTIS paper) evaluated on the specification.
These are *tests* of the transcription of the paper into `Spec/`, run by the Lean
evaluator at build time; they are not theorems.  A mismatch fails the build.
-/
import SkinnyVerif.Spec.Skinny
import SkinnyVerif.Spec.Mantis

namespace SkinnyVerif.Spec.Vectors
open SkinnyVerif.Spec.Skinny

def check (name : String) (ok : Bool) : IO Unit :=
  if ok then pure () else throw (IO.userError s!"specification test vector failed: {name}")

def hex (s : String) : List UInt8 :=
  let cs := s.toList.filter (· != ' ')
  let rec go : List Char → List UInt8
    | a :: b :: rest => UInt8.ofNat ((hexDigit a) * 16 + hexDigit b) :: go rest
    | _ => []
  go cs
where hexDigit (c : Char) : Nat :=
  if c.isDigit then c.toNat - '0'.toNat else if 'a' ≤ c ∧ c ≤ 'f' then c.toNat - 'a'.toNat + 10 else c.toNat - 'A'.toNat + 10

def skinnyVectors : List (String × Nat × String × String × String) := [
  ("SKINNY-64-64", 64, "f5269826fc681238", "06034f957724d19d", "bb39dfb2429b8ac7"),
  ("SKINNY-64-128", 64, "9eb93640d088da6376a39d1c8bea71e1", "cf16cfe8fd0f98aa", "6ceda1f43de92b9e"),
  ("SKINNY-64-192", 64, "ed00c85b120d68618753e24bfd908f60b2dbb41b422dfcd0", "530c61d35e8663c3", "dd2cf1a8f330303c"),
  ("SKINNY-128-128", 128, "4f55cfb0520cac52fd92c15f37073e93", "f20adb0eb08b648a3b2eeed1f0adda14", "22ff30d498ea62d7e45b476e33675b74"),
  ("SKINNY-128-256", 128, "009cec81605d4ac1d2ae9e3085d7a1f31ac123ebfc00fddcf01046ceeddfcab3", "3a0c47767a26a68dd382a695e7022e25", "b731d98a4bde147a7ed4a6f16b9b587f"),
  ("SKINNY-128-384", 128, "df889548cfc7ea52d296339301797449ab588a34a47f1ab2dfe9c8293fbea9a5ab1afac2611012cd8cef952618c3ebe8", "a3994b66ad85a3459f44e92b08f550cb", "94ecf589e2017c601b38c6346a10dcfa")]

def runSkinnyVectors : IO Unit := do
  for (name, bs, k, p, c) in skinnyVectors do
    if bs == 64 then
      check (name ++ " enc") (encrypt64 (hex k) (hex p) == hex c)
      check (name ++ " dec") (decrypt64 (hex k) (hex c) == hex p)
    else
      check (name ++ " enc") (encrypt128 (hex k) (hex p) == hex c)
      check (name ++ " dec") (decrypt128 (hex k) (hex c) == hex p)
  -- first entries of the 8-bit S-box table as printed in the paper
  check "S8[0..7]" ((List.range 8).map (fun i => (S8 (BitVec.ofNat 8 i)).toNat) == [0x65, 0x4c, 0x6a, 0x42, 0x4b, 0x63, 0x43, 0x6b])

#eval runSkinnyVectors

def mantisVectors : List (Nat × String × String × String × String) := [
  (5, "92f09952c625e3e9d7a060f714c0292b", "ba912e6f1055fed2", "3b5c77a4921f9718", "d6522035c1c0c6c1"),
  (6, "92f09952c625e3e9d7a060f714c0292b", "ba912e6f1055fed2", "d6522035c1c0c6c1", "60e43457311936fd"),
  (7, "92f09952c625e3e9d7a060f714c0292b", "ba912e6f1055fed2", "60e43457311936fd", "308e8a07f168f517"),
  (8, "92f09952c625e3e9d7a060f714c0292b", "ba912e6f1055fed2", "308e8a07f168f517", "971ea01a86b410bb")]

def runMantisVectors : IO Unit := do
  for (r, k, t, p, c) in mantisVectors do
    check s!"MANTIS-{r} enc" (Mantis.encrypt r (hex k) (hex t) (hex p) == hex c)
    check s!"MANTIS-{r} dec" (Mantis.decrypt r (hex k) (hex t) (hex c) == hex p)

#eval runMantisVectors

end SkinnyVerif.Spec.Vectors
