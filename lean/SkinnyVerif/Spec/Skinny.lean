/-
The SKINNY family of tweakable block ciphers as specified in
  Beierle, Jean, Kölbl, Leander, Moradi, Peyrin, Sasaki, Sasdrich, Sim:
  "The SKINNY Family of Block Ciphers and its Low-Latency Variant MANTIS" (CRYPTO 2016),
written from the paper, *not* from the C code.  This file is the yardstick the implementation
model is compared against; it is part of the trusted base (guarded by the published test
vectors in `Spec/Vectors.lean` and by the double definitions of the S-boxes below).

State and tweakey words are 4x4 arrays of `s`-bit cells (`s = 4` or `8`), numbered row-major
`0 … 15`.
-/
namespace SkinnyVerif.Spec.Skinny

abbrev Cells (s : Nat) := Vector (BitVec s) 16

/-! ## S-boxes -/

/-- 4-bit S-box `S4` (table 3 of the paper). -/
def S4tab : Vector (BitVec 4) 16 :=
  #v[0xc, 0x6, 0x9, 0x0, 0x1, 0xa, 0x2, 0xb, 0x3, 0x8, 0x5, 0xd, 0x4, 0xe, 0x7, 0xf]
def S4invTab : Vector (BitVec 4) 16 :=
  #v[0x3, 0x4, 0x6, 0x8, 0xc, 0xa, 0x1, 0xe, 0x9, 0x2, 0x5, 0x7, 0x0, 0xb, 0xd, 0xf]
def S4 (x : BitVec 4) : BitVec 4 := S4tab[x.toFin]
def S4inv (x : BitVec 4) : BitVec 4 := S4invTab[x.toFin]

/-- The paper's circuit description of `S4`: four times
`(x3,x2,x1,x0) ↦ (x3,x2,x1,x0 ⊕ ¬(x3 ∨ x2))`, each but the last followed by a left rotation
of the bits. -/
def S4circ (x : BitVec 4) : BitVec 4 :=
  let mix (x : BitVec 4) : BitVec 4 := x ^^^ ((~~~((x >>> 3) ||| (x >>> 2))) &&& 1)
  let rot (x : BitVec 4) : BitVec 4 := (x <<< 1) ||| (x >>> 3)
  mix (rot (mix (rot (mix (rot (mix x))))))

theorem S4_eq_circ : ∀ x : BitVec 4, S4 x = S4circ x := by decide
theorem S4inv_S4 : ∀ x : BitVec 4, S4inv (S4 x) = x := by decide
theorem S4_S4inv : ∀ x : BitVec 4, S4 (S4inv x) = x := by decide

/-- One step of the 8-bit S-box: `(x7,…,x0) ↦ (x7,x6,x5,x4 ⊕ ¬(x7 ∨ x6),x3,x2,x1,x0 ⊕ ¬(x3 ∨ x2))`. -/
def mix8 (x : BitVec 8) : BitVec 8 := x ^^^ ((~~~((x >>> 2) ||| (x >>> 3))) &&& 0x11)

/-- The bit permutation `(x7,…,x0) ↦ (x2,x1,x7,x6,x4,x0,x3,x5)` of the 8-bit S-box. -/
def perm8 (x : BitVec 8) : BitVec 8 :=
  BitVec.ofBoolListLE
    [x.getLsbD 5, x.getLsbD 3, x.getLsbD 0, x.getLsbD 4, x.getLsbD 6, x.getLsbD 7, x.getLsbD 1, x.getLsbD 2]

/-- the final exchange of `x1` and `x2` -/
def swap8 (x : BitVec 8) : BitVec 8 :=
  BitVec.ofBoolListLE
    [x.getLsbD 0, x.getLsbD 2, x.getLsbD 1, x.getLsbD 3, x.getLsbD 4, x.getLsbD 5, x.getLsbD 6, x.getLsbD 7]

/-- 8-bit S-box `S8` as the paper's circuit (figure 3): four `mix8` steps, a bit permutation
after each of the first three and the `x1`/`x2` swap after the last. -/
def S8 (x : BitVec 8) : BitVec 8 :=
  swap8 (mix8 (perm8 (mix8 (perm8 (mix8 (perm8 (mix8 x)))))))

/-- `S8` as a table (computed once). -/
def S8tab : Vector (BitVec 8) 256 := Vector.ofFn fun i => S8 (BitVec.ofFin i)

/-- inverse table of `S8`, by search (the paper defines `S8⁻¹` only as the inverse) -/
def S8invTab : Vector (BitVec 8) 256 :=
  Vector.ofFn fun y =>
    match (List.finRange 256).find? (fun x => S8 (BitVec.ofFin x) == BitVec.ofFin y) with
    | some x => BitVec.ofFin x
    | none => 0
def S8inv (y : BitVec 8) : BitVec 8 := S8invTab[y.toFin]

/-! ## Tweakey LFSRs (table 4 of the paper) -/

/-- `(x3,x2,x1,x0) ↦ (x2,x1,x0,x3⊕x2)` -/
def lfsr2_4 (x : BitVec 4) : BitVec 4 := (x <<< 1) ||| (((x >>> 3) ^^^ (x >>> 2)) &&& 1)
/-- `(x3,x2,x1,x0) ↦ (x0⊕x3,x3,x2,x1)` -/
def lfsr3_4 (x : BitVec 4) : BitVec 4 := (x >>> 1) ||| (((x <<< 3) ^^^ x) &&& 8)
/-- `(x7,…,x0) ↦ (x6,…,x0,x7⊕x5)` -/
def lfsr2_8 (x : BitVec 8) : BitVec 8 := (x <<< 1) ||| (((x >>> 7) ^^^ (x >>> 5)) &&& 1)
/-- `(x7,…,x0) ↦ (x0⊕x6,x7,…,x1)` -/
def lfsr3_8 (x : BitVec 8) : BitVec 8 := (x >>> 1) ||| (((x <<< 7) ^^^ (x <<< 1)) &&& 0x80)

/-- The cell-level ingredients of one family member. -/
structure CellOps (s : Nat) where
  S : BitVec s → BitVec s
  Sinv : BitVec s → BitVec s
  lfsr2 : BitVec s → BitVec s
  lfsr3 : BitVec s → BitVec s

def ops4 : CellOps 4 := ⟨S4, S4inv, lfsr2_4, lfsr3_4⟩
def ops8 : CellOps 8 := ⟨S8, S8inv, lfsr2_8, lfsr3_8⟩

/-! ## Permutations and the mixing matrix -/

/-- ShiftRows: `IS_i ← IS_{P[i]}`. -/
def P : Vector (Fin 16) 16 := #v[0, 1, 2, 3, 7, 4, 5, 6, 10, 11, 8, 9, 13, 14, 15, 12]
/-- inverse of `P` -/
def Pinv : Vector (Fin 16) 16 := #v[0, 1, 2, 3, 5, 6, 7, 4, 10, 11, 8, 9, 15, 12, 13, 14]
/-- tweakey permutation: `TK_i ← TK_{PT[i]}`. -/
def PT : Vector (Fin 16) 16 := #v[9, 15, 8, 13, 10, 14, 12, 11, 0, 1, 2, 3, 4, 5, 6, 7]

def permute {s : Nat} (p : Vector (Fin 16) 16) (st : Cells s) : Cells s :=
  Vector.ofFn fun i => st[p[i]]

def subCells {s : Nat} (f : BitVec s → BitVec s) (st : Cells s) : Cells s := st.map f

def xorCells {s : Nat} (a b : Cells s) : Cells s := Vector.ofFn fun i => a[i] ^^^ b[i]

/-- The binary matrix `M` of MixColumns (rows). -/
def M : Vector (Vector Bool 4) 4 :=
  #v[#v[true, false, true, true], #v[true, false, false, false], #v[false, true, true, false], #v[true, false, true, false]]
/-- its inverse -/
def Minv : Vector (Vector Bool 4) 4 :=
  #v[#v[false, true, false, false], #v[false, true, true, true], #v[false, true, false, true], #v[true, false, false, true]]

def rowOf (i : Fin 16) : Fin 4 := ⟨i.val / 4, by omega⟩
def colOf (i : Fin 16) : Fin 4 := ⟨i.val % 4, by omega⟩
def cellIx (r c : Fin 4) : Fin 16 := ⟨4 * r.val + c.val, by omega⟩

/-- multiply every column of the state by the binary matrix `m` -/
def mulColumns {s : Nat} (m : Vector (Vector Bool 4) 4) (st : Cells s) : Cells s :=
  Vector.ofFn fun i =>
    (List.finRange 4).foldl (fun acc k => if m[rowOf i][k] then acc ^^^ st[cellIx k (colOf i)] else acc) 0

/-! ## Round constants -/

/-- 6-bit affine LFSR `(rc5,…,rc0) ↦ (rc4,…,rc0,rc5⊕rc4⊕1)`, initial state 0, updated before use. -/
def rcNext (rc : BitVec 6) : BitVec 6 := (rc <<< 1) ||| (((rc >>> 5) ^^^ (rc >>> 4) ^^^ 1) &&& 1)

def rcAt : Nat → BitVec 6
  | 0 => rcNext 0
  | n + 1 => rcNext (rcAt n)

/-- AddConstants as a state-shaped mask: `c0 = rc3‥rc0` in cell 0, `c1 = rc5 rc4` in cell 4,
`c2 = 2` in cell 8; `dom` is xored into cell 2 (the tweak-domain bit; 0 for plain use). -/
def constCells (s : Nat) (rc : BitVec 6) (dom : BitVec s) : Cells s :=
  Vector.ofFn fun i =>
    if i.val = 0 then (rc &&& 0xf).setWidth s
    else if i.val = 4 then (rc >>> 4).setWidth s
    else if i.val = 8 then 2
    else if i.val = 2 then dom
    else 0

/-! ## Tweakey schedule -/

/-- apply `f` to the cells of the two upper rows -/
def mapTop {s : Nat} (f : BitVec s → BitVec s) (tk : Cells s) : Cells s :=
  Vector.ofFn fun i => if i.val < 8 then f tk[i] else tk[i]

/-- keep the two upper rows, zero the rest (the part of the tweakey that AddRoundTweakey uses) -/
def topRows {s : Nat} (tk : Cells s) : Cells s :=
  Vector.ofFn fun i => if i.val < 8 then tk[i] else 0

def zeroCells (s : Nat) : Cells s := Vector.ofFn fun _ => 0

/-- The three tweakey words. Variants with fewer words use all-zero `tk2` / `tk3`
(their LFSRs fix 0, so this is the same cipher). -/
structure Tweakey (s : Nat) where
  tk1 : Cells s
  tk2 : Cells s
  tk3 : Cells s

def tkNext {s : Nat} (o : CellOps s) (t : Tweakey s) : Tweakey s :=
  { tk1 := permute PT t.tk1
    tk2 := mapTop o.lfsr2 (permute PT t.tk2)
    tk3 := mapTop o.lfsr3 (permute PT t.tk3) }

def tkAt {s : Nat} (o : CellOps s) (t : Tweakey s) : Nat → Tweakey s
  | 0 => t
  | n + 1 => tkNext o (tkAt o t n)

/-- what round `i` (counting from 0) xors into the state after SubCells:
constants and the upper rows of the three tweakey words -/
def roundKey {s : Nat} (o : CellOps s) (t : Tweakey s) (dom : BitVec s) (i : Nat) : Cells s :=
  let tk := tkAt o t i
  xorCells (constCells s (rcAt i) dom) (topRows (xorCells tk.tk1 (xorCells tk.tk2 tk.tk3)))

/-! ## Rounds -/

def round {s : Nat} (o : CellOps s) (rk : Cells s) (st : Cells s) : Cells s :=
  mulColumns M (permute P (xorCells (subCells o.S st) rk))

def roundInv {s : Nat} (o : CellOps s) (rk : Cells s) (st : Cells s) : Cells s :=
  subCells o.Sinv (xorCells (permute Pinv (mulColumns Minv st)) rk)

/-- `r` rounds of encryption -/
def encrypt {s : Nat} (o : CellOps s) (r : Nat) (t : Tweakey s) (dom : BitVec s) (pt : Cells s) : Cells s :=
  (List.range r).foldl (fun st i => round o (roundKey o t dom i) st) pt

/-- `r` rounds of decryption (round keys in reverse order) -/
def decrypt {s : Nat} (o : CellOps s) (r : Nat) (t : Tweakey s) (dom : BitVec s) (ct : Cells s) : Cells s :=
  (List.range r).reverse.foldl (fun st i => roundInv o (roundKey o t dom i) st) ct

/-! ## Byte interface -/

/-- SKINNY-128: cell `i` is byte `i`. -/
def cellsOfBytes8 (b : List UInt8) : Cells 8 :=
  Vector.ofFn fun i => BitVec.ofNat 8 (b.getD i.val 0).toNat
def bytesOfCells8 (c : Cells 8) : List UInt8 :=
  c.toList.map fun x => UInt8.ofNat x.toNat

/-- SKINNY-64: byte `i` holds cell `2i` in its high nibble and cell `2i+1` in its low nibble. -/
def cellsOfBytes4 (b : List UInt8) : Cells 4 :=
  Vector.ofFn fun i =>
    let byte := (b.getD (i.val / 2) 0).toNat
    BitVec.ofNat 4 (if i.val % 2 = 0 then byte / 16 else byte % 16)
def bytesOfCells4 (c : Cells 4) : List UInt8 :=
  (List.range 8).map fun i => UInt8.ofNat ((c.toList.getD (2 * i) 0).toNat * 16 + (c.toList.getD (2 * i + 1) 0).toNat)

/-- number of rounds for `z` tweakey words -/
def rounds128 (z : Nat) : Nat := if z ≤ 1 then 40 else if z = 2 then 48 else 56
def rounds64 (z : Nat) : Nat := if z ≤ 1 then 32 else if z = 2 then 36 else 40

/-- Tweakey from a byte string of `z` blocks (missing words are zero). -/
def tweakey128 (key : List UInt8) : Tweakey 8 :=
  ⟨cellsOfBytes8 (key.take 16), cellsOfBytes8 ((key.drop 16).take 16), cellsOfBytes8 ((key.drop 32).take 16)⟩
def tweakey64 (key : List UInt8) : Tweakey 4 :=
  ⟨cellsOfBytes4 (key.take 8), cellsOfBytes4 ((key.drop 8).take 8), cellsOfBytes4 ((key.drop 16).take 8)⟩

/-- SKINNY-128-(128·z) on byte strings (`key.length = 16 z`). -/
def encrypt128 (key blk : List UInt8) : List UInt8 :=
  bytesOfCells8 (encrypt ops8 (rounds128 (key.length / 16)) (tweakey128 key) 0 (cellsOfBytes8 blk))
def decrypt128 (key blk : List UInt8) : List UInt8 :=
  bytesOfCells8 (decrypt ops8 (rounds128 (key.length / 16)) (tweakey128 key) 0 (cellsOfBytes8 blk))
def encrypt64 (key blk : List UInt8) : List UInt8 :=
  bytesOfCells4 (encrypt ops4 (rounds64 (key.length / 8)) (tweakey64 key) 0 (cellsOfBytes4 blk))
def decrypt64 (key blk : List UInt8) : List UInt8 :=
  bytesOfCells4 (decrypt ops4 (rounds64 (key.length / 8)) (tweakey64 key) 0 (cellsOfBytes4 blk))

/-- Tweakable use: the tweak is TK1, the key fills TK2 (and TK3), and the domain bit
(second bit of the top cell of the third column) is set in every round. -/
def encryptTweaked128 (key tweak blk : List UInt8) : List UInt8 :=
  bytesOfCells8 (encrypt ops8 (rounds128 (key.length / 16 + 1)) (tweakey128 (tweak ++ key)) 2 (cellsOfBytes8 blk))
def decryptTweaked128 (key tweak blk : List UInt8) : List UInt8 :=
  bytesOfCells8 (decrypt ops8 (rounds128 (key.length / 16 + 1)) (tweakey128 (tweak ++ key)) 2 (cellsOfBytes8 blk))
def encryptTweaked64 (key tweak blk : List UInt8) : List UInt8 :=
  bytesOfCells4 (encrypt ops4 (rounds64 (key.length / 8 + 1)) (tweakey64 (tweak ++ key)) 2 (cellsOfBytes4 blk))
def decryptTweaked64 (key tweak blk : List UInt8) : List UInt8 :=
  bytesOfCells4 (decrypt ops4 (rounds64 (key.length / 8 + 1)) (tweakey64 (tweak ++ key)) 2 (cellsOfBytes4 blk))

end SkinnyVerif.Spec.Skinny
