/-
CTR mode and block-by-block ECB as the properties define them: counters are big-endian
numbers modulo 2^(8·bs), the keystream is E(c), E(c+1), …, output = input xor keystream.
-/
import SkinnyVerif.Basic.Bytes

namespace SkinnyVerif.Spec.Modes
open SkinnyVerif

/-- `i`-th counter block after `c` -/
def ctrBlock (bs : Nat) (c : Bytes) (i : Nat) : Bytes := natBE bs ((beNat c + i) % 2 ^ (8 * bs))

/-- byte `j` of the keystream E(c), E(c+1), … -/
def keystreamByte (E : Bytes → Bytes) (bs : Nat) (c : Bytes) (j : Nat) : UInt8 :=
  (E (ctrBlock bs c (j / bs))).getD (j % bs) 0

/-- `n` keystream bytes starting at position `off` -/
def keystream (E : Bytes → Bytes) (bs : Nat) (c : Bytes) (off n : Nat) : Bytes :=
  (List.range n).map fun j => keystreamByte E bs c (off + j)

/-- CTR transformation of `data` positioned at byte offset `off` of the stream that starts at counter `c` -/
def ctr (E : Bytes → Bytes) (bs : Nat) (c : Bytes) (off : Nat) (data : Bytes) : Bytes :=
  xorBytes data (keystream E bs c off data.length)

/-- the counter block the API's `set_counter` denotes: short counters are left-padded, null is zero -/
def counterOf (bs : Nat) (c : Option Bytes) : Bytes :=
  match c with
  | some b => padLeft bs b
  | none => zeros bs

/-- split into whole blocks -/
def chunks (bs : Nat) : Nat → Bytes → List Bytes
  | 0, _ => []
  | fuel + 1, b => if b.length < bs ∨ bs = 0 then [] else b.take bs :: chunks bs fuel (b.drop bs)

/-- block-by-block ECB -/
def ecb (F : Bytes → Bytes) (bs : Nat) (data : Bytes) : Bytes :=
  (chunks bs (data.length + 1) data).flatMap F

end SkinnyVerif.Spec.Modes
