/-
MANTIS_r (r = 5 … 8), the low-latency tweakable block cipher of the SKINNY paper (section 6),
written from the paper.  64-bit block of sixteen 4-bit cells (row-major, cell 0 = most
significant nibble of the first byte), 128-bit key `k0 ‖ k1`, 64-bit tweak.
-/
import SkinnyVerif.Spec.Skinny

namespace SkinnyVerif.Spec.Mantis
open SkinnyVerif.Spec.Skinny

/-- the MIDORI S-box `Sb0` (an involution) -/
def Sb0tab : Vector (BitVec 4) 16 :=
  #v[0xc, 0xa, 0xd, 0x3, 0xe, 0xb, 0xf, 0x7, 0x8, 0x9, 0x1, 0x5, 0x0, 0x2, 0x4, 0x6]
def Sb0 (x : BitVec 4) : BitVec 4 := Sb0tab[x.toFin]

theorem Sb0_involution : ∀ x : BitVec 4, Sb0 (Sb0 x) = x := by decide

/-- tweak permutation `h`: `T_i ← T_{h[i]}` -/
def hPerm : Vector (Fin 16) 16 := #v[6, 5, 14, 15, 0, 1, 2, 3, 7, 12, 13, 4, 8, 9, 10, 11]
def hInv : Vector (Fin 16) 16 := #v[4, 5, 6, 7, 11, 1, 0, 8, 12, 13, 14, 15, 9, 10, 2, 3]
/-- cell permutation `P` (that of MIDORI): `IS_i ← IS_{P[i]}` -/
def PPerm : Vector (Fin 16) 16 := #v[0, 11, 6, 13, 10, 1, 12, 7, 5, 14, 3, 8, 15, 4, 9, 2]
def PInv : Vector (Fin 16) 16 := #v[0, 5, 15, 10, 13, 8, 2, 7, 11, 14, 4, 1, 6, 3, 9, 12]

/-- the involutory almost-MDS matrix of MIDORI -/
def MM : Vector (Vector Bool 4) 4 :=
  #v[#v[false, true, true, true], #v[true, false, true, true], #v[true, true, false, true], #v[true, true, true, false]]

/-- cells of a 64-bit big-endian word -/
def cellsOfWord (x : BitVec 64) : Cells 4 := Vector.ofFn fun i => (x >>> (4 * (15 - i.val))).setWidth 4
def wordOfCells (c : Cells 4) : BitVec 64 :=
  (List.finRange 16).foldl (fun (acc : BitVec 64) i => acc ||| BitVec.shiftLeft (BitVec.setWidth 64 c[i]) (4 * (15 - i.val))) (0 : BitVec 64)

/-- round constants (digits of π) and α -/
def RC : List (BitVec 64) :=
  [0x13198a2e03707344, 0xa4093822299f31d0, 0x082efa98ec4e6c89, 0x452821e638d01377,
   0xbe5466cf34e90c6c, 0xc0ac29b7c97c50dd, 0x3f84d5b5b5470917, 0x9216d5d98979fb1b]
def alpha : BitVec 64 := 0x243f6a8885a308d3

def rcCells (i : Nat) : Cells 4 := cellsOfWord (RC.getD i 0)

/-- `k0' = (k0 ⋙ 1) + (k0 ≫ 63)` -/
def k0prime (k0 : BitVec 64) : BitVec 64 := (k0.rotateRight 1) ^^^ (k0 >>> 63)

structure Keys where
  k0 : Cells 4      -- input whitening
  k0' : Cells 4     -- output whitening
  k1 : Cells 4      -- round key (forward half); the backward half uses `k1 ⊕ α`

/-- forward round `R_i` (i counted from 0): the tweak is updated by `h` first -/
def fwdRound (k1 : Cells 4) (i : Nat) (st tw : Cells 4) : Cells 4 × Cells 4 :=
  let tw := permute hPerm tw
  let st := subCells Sb0 st
  let st := xorCells st (rcCells i)
  let st := xorCells st (xorCells k1 tw)
  let st := permute PPerm st
  (mulColumns MM st, tw)

/-- backward round `R_i⁻¹` with round key `k1a = k1 ⊕ α`; the tweak is stepped back by `h⁻¹` afterwards -/
def bwdRound (k1a : Cells 4) (i : Nat) (st tw : Cells 4) : Cells 4 × Cells 4 :=
  let st := mulColumns MM st
  let st := permute PInv st
  let st := xorCells st (xorCells k1a tw)
  let st := xorCells st (rcCells i)
  let st := subCells Sb0 st
  (st, permute hInv tw)

/-- the whole cipher on cells, for an arbitrary number of rounds `r` -/
def crypt (r : Nat) (k : Keys) (tweak : Cells 4) (m : Cells 4) : Cells 4 :=
  let st := xorCells m (xorCells k.k0 (xorCells k.k1 tweak))
  let (st, tw) := (List.range r).foldl (fun (a : Cells 4 × Cells 4) i => fwdRound k.k1 i a.1 a.2) (st, tweak)
  let st := subCells Sb0 (mulColumns MM (subCells Sb0 st))
  let k1a := xorCells k.k1 (cellsOfWord alpha)
  let (st, tw) := (List.range r).reverse.foldl (fun (a : Cells 4 × Cells 4) i => bwdRound k1a i a.1 a.2) (st, tw)
  xorCells st (xorCells k.k0' (xorCells k1a tw))

def beWord (b : List UInt8) : BitVec 64 := BitVec.ofNat 64 (b.foldl (fun acc x => acc * 256 + x.toNat) 0)

def encKeys (key : List UInt8) : Keys :=
  let k0 := beWord (key.take 8)
  { k0 := cellsOfWord k0, k0' := cellsOfWord (k0prime k0), k1 := cellsOfWord (beWord ((key.drop 8).take 8)) }

/-- decryption is encryption under `(k0', k0, k1 ⊕ α)` -/
def decKeys (key : List UInt8) : Keys :=
  let e := encKeys key
  { k0 := e.k0', k0' := e.k0, k1 := xorCells e.k1 (cellsOfWord alpha) }

/-- MANTIS_r encryption / decryption on byte strings (16-byte key, 8-byte tweak, 8-byte block) -/
def encrypt (r : Nat) (key tweak blk : List UInt8) : List UInt8 :=
  bytesOfCells4 (crypt r (encKeys key) (cellsOfBytes4 tweak) (cellsOfBytes4 blk))
def decrypt (r : Nat) (key tweak blk : List UInt8) : List UInt8 :=
  bytesOfCells4 (crypt r (decKeys key) (cellsOfBytes4 tweak) (cellsOfBytes4 blk))

end SkinnyVerif.Spec.Mantis
