#!/usr/bin/env python3
"""Writes tools/gen_manifest.json: which C functions (and which pieces of them) the
translator must turn into Lean, under which preprocessor configuration."""
import json, os

CFGS = {
    "64le": [],
    "32le": ["-DSKINNY_VERIF_64BIT=0"],
    "64be": ["-DSKINNY_VERIF_LITTLE_ENDIAN=0", "-DSKINNY_VERIF_VEC128_MATH=0", "-DSKINNY_VERIF_VEC256_MATH=0"],
    "32be": ["-DSKINNY_VERIF_64BIT=0", "-DSKINNY_VERIF_LITTLE_ENDIAN=0", "-DSKINNY_VERIF_VEC128_MATH=0", "-DSKINNY_VERIF_VEC256_MATH=0"],
}
S128 = "src/skinny128-cipher.c"; S64 = "src/skinny64-cipher.c"; MAN = "src/mantis-cipher.c"

OPAQUE = ("permute_tk", "mantis_update_tweak", "mantis_shift_rows", "mantis_mix_columns", "mantis_unpack", "mantis_swap_modes", "mantis_set_key", "inc_counter")
def e(file, func, lean, flags=[], lane=None, params=None, lane_proof=None):
    d = {"file": file, "func": func, "lean": lean, "flags": flags}
    if any(k in func for k in OPAQUE): d["opaque"] = True
    if lane: d["lane"] = lane
    if params: d["params"] = params
    if lane_proof: d["lane_proof"] = lane_proof
    return d

def pe(file, func, lean, kind, index, flags=[], params=None, outs=None, ins=None):
    d = {"file": file, "func": func, "lean": lean, "flags": flags, "piece": {"kind": kind, "index": index}}
    if params: d["params"] = params
    if outs: d["outs"] = outs
    if ins: d["ins"] = ins
    if func.startswith("mantis_ecb_crypt"): d["windows"] = {"r": 8}
    return d

mods = []

# ---------------------------------------------------------------- Skinny-128
leaf = []
for tag in ("64le", "32le"):
    fl = CFGS[tag]; w = tag[:2]
    leaf += [e(S128, "skinny128_LFSR2", f"skinny128_LFSR2_{w}", fl, 8), e(S128, "skinny128_LFSR3", f"skinny128_LFSR3_{w}", fl, 8),
             e(S128, "skinny128_sbox", f"skinny128_sbox_{w}", fl, 8), e(S128, "skinny128_inv_sbox", f"skinny128_inv_sbox_{w}", fl, 8)]
leaf += [e(S128, "skinny128_permute_tk", "skinny128_permute_tk_64le", CFGS["64le"]),
         e(S128, "skinny128_permute_tk", "skinny128_permute_tk_32", CFGS["32le"])]
for c in (8, 16, 24):
    leaf.append(e(S128, "skinny128_rotate_right", f"skinny128_rotate_right_{c}", [], None, {"count": {"const": c}}))
mods.append({"name": "Skinny128Leaf", "entries": leaf})

# registry matching is per (file, flags): repeat the leaves under the other flag sets so that
# pieces translated under those flags call them instead of inlining
def alias_leaves(entries, file, tagmap):
    out = []
    for tag, fl in CFGS.items():
        for ent in entries:
            if ent["file"] != file: continue
            if ent["flags"] == fl: continue
            want = tagmap(ent["lean"], tag)
            if want == ent["lean"] and ent["flags"] != fl:
                a = dict(ent); a["flags"] = fl; a["alias"] = True
                out.append(a)
    return out

def s128_variant(lean, tag):
    # which generated definition the configuration `tag` uses for this function
    w = tag[:2]
    if lean.startswith("skinny128_permute_tk"):
        return "skinny128_permute_tk_64le" if tag == "64le" else "skinny128_permute_tk_32"
    if lean.startswith("skinny128_rotate_right"): return lean
    base = lean.rsplit("_", 1)[0]
    return base + "_" + w

pieces = []
for tag, fl in CFGS.items():
    for fn in ("skinny128_ecb_encrypt", "skinny128_ecb_decrypt"):
        P = {"output": {"bytes": 16, "out": True}, "input": {"bytes": 16}}
        pieces.append(pe(S128, fn, f"{fn}_load_{tag}", "seg", 0, fl, P, ["state"]))
        pieces.append(pe(S128, fn, f"{fn}_round_{tag}", "loop", 0, fl, P, ["state"], ["state", "schedule_0"]))
        pieces.append(pe(S128, fn, f"{fn}_store_{tag}", "seg", 1, fl, P, ["output"], ["state"]))
    for tw in (0, 1):
        P = {"key": {"bytes": 16}, "key_size": {"const": 16}, "tweaked": {"const": tw}}
        if tw == 0:
            pieces.append(pe(S128, "skinny128_set_tk1", f"skinny128_set_tk1_load_{tag}", "seg", 0, fl, P, ["tk", "rc"]))
        pieces.append(pe(S128, "skinny128_set_tk1", f"skinny128_set_tk1_step_t{tw}_{tag}", "loop", 0, fl, P, ["ks_at_index", "tk", "rc"], ["tk", "rc"]))
    P = {"key": {"bytes": 16}}
    pieces.append(pe(S128, "skinny128_xor_tk1", f"skinny128_xor_tk1_load_{tag}", "seg", 0, fl, P, ["tk"]))
    pieces.append(pe(S128, "skinny128_xor_tk1", f"skinny128_xor_tk1_step_{tag}", "loop", 0, fl, P, ["ks_at_index", "tk"], ["ks_at_index", "tk"]))
    for n in (2, 3):
        P = {"key": {"bytes": 16}, "key_size": {"const": 16}}
        pieces.append(pe(S128, f"skinny128_set_tk{n}", f"skinny128_set_tk{n}_step_{tag}", "loop", 0, fl, P, ["ks_at_index", "tk"], ["ks_at_index", "tk"]))
        for k in range(1, 17):
            P = {"key": {"bytes": k}, "key_size": {"const": k}}
            pieces.append(pe(S128, f"skinny128_set_tk{n}", f"skinny128_set_tk{n}_load{k}_{tag}", "seg", 0, fl, P, ["tk"]))
        pieces.append({"file": S128, "flags": fl, "lean": f"skinny128_set_tk{n}_load_{tag}", "dispatch": True, "width": 128, "junkwidth": 128, "outwidth": 128,
                       "cases": {str(k): f"skinny128_set_tk{n}_load{k}_{tag}" for k in range(1, 17)}})
mods.append({"name": "Skinny128Pieces", "imports": ["Skinny128Leaf"], "entries": pieces})

# ---------------------------------------------------------------- Skinny-64
leaf = [e(S64, "skinny64_LFSR2", "skinny64_LFSR2", [], 4), e(S64, "skinny64_LFSR3", "skinny64_LFSR3", [], 4),
        e(S64, "skinny64_permute_tk", "skinny64_permute_tk_le", CFGS["64le"]), e(S64, "skinny64_permute_tk", "skinny64_permute_tk_be", CFGS["64be"]),
        e(S64, "skinny64_sbox", "skinny64_sbox_64", CFGS["64le"], 4, None, "direct"), e(S64, "skinny64_inv_sbox", "skinny64_inv_sbox_64", CFGS["64le"], 4, None, "direct"),
        e(S64, "skinny64_sbox", "skinny64_sbox_32", CFGS["32le"], 4), e(S64, "skinny64_inv_sbox", "skinny64_inv_sbox_32", CFGS["32le"], 4)]
for c in (4, 8, 12):
    leaf.append(e(S64, "skinny64_rotate_right", f"skinny64_rotate_right_{c}", [], None, {"count": {"const": c}}))
mods.append({"name": "Skinny64Leaf", "entries": leaf})

pieces = []
for tag, fl in CFGS.items():
    for fn in ("skinny64_ecb_encrypt", "skinny64_ecb_decrypt"):
        P = {"output": {"bytes": 8, "out": True}, "input": {"bytes": 8}}
        pieces.append(pe(S64, fn, f"{fn}_load_{tag}", "seg", 0, fl, P, ["state"]))
        pieces.append(pe(S64, fn, f"{fn}_round_{tag}", "loop", 0, fl, P, ["state"], ["state", "schedule_0"]))
        pieces.append(pe(S64, fn, f"{fn}_store_{tag}", "seg", 1, fl, P, ["output"], ["state"]))
    for tw in (0, 1):
        P = {"key": {"bytes": 8}, "key_size": {"const": 8}, "tweaked": {"const": tw}}
        if tw == 0:
            pieces.append(pe(S64, "skinny64_set_tk1", f"skinny64_set_tk1_load_{tag}", "seg", 0, fl, P, ["tk", "rc"]))
        pieces.append(pe(S64, "skinny64_set_tk1", f"skinny64_set_tk1_step_t{tw}_{tag}", "loop", 0, fl, P, ["ks_at_index", "tk", "rc"], ["tk", "rc"]))
    P = {"key": {"bytes": 8}}
    pieces.append(pe(S64, "skinny64_xor_tk1", f"skinny64_xor_tk1_load_{tag}", "seg", 0, fl, P, ["tk"]))
    pieces.append(pe(S64, "skinny64_xor_tk1", f"skinny64_xor_tk1_step_{tag}", "loop", 0, fl, P, ["ks_at_index", "tk"], ["ks_at_index", "tk"]))
    for n in (2, 3):
        P = {"key": {"bytes": 8}, "key_size": {"const": 8}}
        pieces.append(pe(S64, f"skinny64_set_tk{n}", f"skinny64_set_tk{n}_step_{tag}", "loop", 0, fl, P, ["ks_at_index", "tk"], ["ks_at_index", "tk"]))
        for k in range(1, 9):
            P = {"key": {"bytes": k}, "key_size": {"const": k}}
            pieces.append(pe(S64, f"skinny64_set_tk{n}", f"skinny64_set_tk{n}_load{k}_{tag}", "seg", 0, fl, P, ["tk"]))
        pieces.append({"file": S64, "flags": fl, "lean": f"skinny64_set_tk{n}_load_{tag}", "dispatch": True, "width": 64, "junkwidth": 64, "outwidth": 64,
                       "cases": {str(k): f"skinny64_set_tk{n}_load{k}_{tag}" for k in range(1, 9)}})
mods.append({"name": "Skinny64Pieces", "imports": ["Skinny64Leaf"], "entries": pieces})

# ---------------------------------------------------------------- Mantis
leaf = [e(MAN, "mantis_sbox", "mantis_sbox_64", CFGS["64le"], 4, None, "direct"), e(MAN, "mantis_sbox", "mantis_sbox_32", CFGS["32le"], 4, None, "direct"),
        e(MAN, "mantis_update_tweak", "mantis_update_tweak"), e(MAN, "mantis_update_tweak_inverse", "mantis_update_tweak_inverse"),
        e(MAN, "mantis_shift_rows", "mantis_shift_rows"), e(MAN, "mantis_shift_rows_inverse", "mantis_shift_rows_inverse"),
        e(MAN, "mantis_mix_columns", "mantis_mix_columns")]
for en, tag in (("le", "64le"), ("be", "64be")):
    leaf.append(e(MAN, "mantis_unpack_rotated_block", f"mantis_unpack_rotated_block_{en}", CFGS[tag], None, {"block": {"out": True}, "buf": {"bytes": 8}}))
    for off in (0, 8):
        leaf.append(e(MAN, "mantis_unpack_block", f"mantis_unpack_block_{en}_{off}", CFGS[tag], None, {"block": {"out": True}, "buf": {"bytes": 16}, "offset": {"const": off}}))
for tag in CFGS:
    leaf.append(e(MAN, "mantis_swap_modes", f"mantis_swap_modes_{tag}", CFGS[tag], None, {"ks": {"bytes": 36}}))
for tag in CFGS:
    for mode, mn in ((1, "enc"), (0, "dec")):
        leaf.append(e(MAN, "mantis_set_key", f"mantis_set_key_{mn}_{tag}", CFGS[tag], None,
                      {"ks": {"bytes": 36, "out": True}, "key": {"bytes": 16}, "size": {"const": 16}, "rounds": {"const": 8}, "mode": {"const": mode}}))
for tag in CFGS:
    leaf.append({"file": MAN, "table": "rc", "lean": f"mantis_rc_{tag}", "flags": CFGS[tag]})
mods.append({"name": "MantisLeaf", "entries": leaf})

pieces = []
KS = {"bytes": 36}
for tag, fl in CFGS.items():
    for fn, tw in (("mantis_ecb_crypt", "tweak"), ("mantis_ecb_crypt_tweaked", "tk")):
        P = {"output": {"bytes": 8, "out": True}, "input": {"bytes": 8}, "ks": KS, "tweak": {"bytes": 8}}
        pieces.append(pe(MAN, fn, f"{fn}_pre_{tag}", "seg", 0, fl, P, ["state", tw, "k1"]))
        pieces.append(pe(MAN, fn, f"{fn}_fwd_{tag}", "loop", 0, fl, P, ["state", tw], ["state", tw, "k1", "r_0"]))
        pieces.append(pe(MAN, fn, f"{fn}_mid_{tag}", "seg", 1, fl, P, ["state", "k1"], ["state", "k1"]))
        pieces.append(pe(MAN, fn, f"{fn}_bwd_{tag}", "loop", 1, fl, P, ["state", tw], ["state", tw, "k1", "r_m1"]))
        pieces.append(pe(MAN, fn, f"{fn}_post_{tag}", "seg", 2, fl, P, ["output"], ["state", tw, "k1", "ks"]))
mods.append({"name": "MantisPieces", "imports": ["MantisLeaf"], "entries": pieces})

# ---------------------------------------------------------------- Arduino port (portable C++ path), Skinny-128
A128 = "arduino/libraries/Skinny/Skinny128.cpp"
al = [e(A128, "skinny128_sbox", "ard128_sbox", [], 8), e(A128, "skinny128_inv_sbox", "ard128_inv_sbox", [], 8),
      e(A128, "skinny128_LFSR2", "ard128_LFSR2", [], 8), e(A128, "skinny128_LFSR3", "ard128_LFSR3", [], 8)]
mods.append({"name": "Arduino128Leaf", "entries": al})
TH = {"s": {"bytes": 448}, "r": {"bits": 8}}
def ape(func, lean, kind, index, params, outs, ins=None):
    d = pe(A128, func, lean, kind, index, [], params, outs, ins)
    d["this"] = TH; d["windows"] = {"schedule": 8}
    return d
ap = []
for fn, nm in (("Skinny128::encryptBlock", "enc"), ("Skinny128::decryptBlock", "dec")):
    P = {"output": {"bytes": 16, "out": True}, "input": {"bytes": 16}}
    ap.append(ape(fn, f"ard128_{nm}_load", "seg", 0, P, ["state"]))
    ap.append(ape(fn, f"ard128_{nm}_round", "loop", 0, P, ["state"], ["state", "schedule_0"]))
    ap.append(ape(fn, f"ard128_{nm}_store", "seg", 1, P, ["output"], ["state"]))
for tw in (0, 1):
    P = {"key": {"bytes": 16}, "tweaked": {"const": tw}}
    if tw == 0:
        ap.append(ape("Skinny128::setTK1", "ard128_tk1_load", "seg", 0, P, ["TK1", "rc"]))
    ap.append(ape("Skinny128::setTK1", f"ard128_tk1_step_t{tw}", "loop", 0, P, ["schedule_0", "TK1", "rc"], ["TK1", "rc"]))
P = {"key": {"bytes": 16}}
ap.append(ape("Skinny128::xorTK1", "ard128_xor_tk1_load", "seg", 0, P, ["TK1"]))
ap.append(ape("Skinny128::xorTK1", "ard128_xor_tk1_step", "loop", 0, P, ["schedule_0", "TK1"], ["schedule_0", "TK1"]))
for n in (2, 3):
    ap.append(ape(f"Skinny128::setTK{n}", f"ard128_tk{n}_load", "seg", 0, P, [f"TK{n}"]))
    ap.append(ape(f"Skinny128::setTK{n}", f"ard128_tk{n}_step", "loop", 0, P, ["schedule_0", f"TK{n}"], ["schedule_0", f"TK{n}"]))
mods.append({"name": "Arduino128Pieces", "imports": ["Arduino128Leaf"], "entries": ap})

# ---------------------------------------------------------------- Arduino port, Skinny-64
A64 = "arduino/libraries/Skinny/Skinny64.cpp"
al = [e(A64, "skinny64_sbox", "ard64_sbox", [], 4), e(A64, "skinny64_inv_sbox", "ard64_inv_sbox", [], 4),
      e(A64, "skinny64_LFSR2", "ard64_LFSR2", [], 4), e(A64, "skinny64_LFSR3", "ard64_LFSR3", [], 4)]
mods.append({"name": "Arduino64Leaf", "entries": al})
TH64 = {"s": {"bytes": 160}, "r": {"bits": 8}}
def ape64(func, lean, kind, index, params, outs, ins=None):
    d = pe(A64, func, lean, kind, index, [], params, outs, ins)
    d["this"] = TH64; d["windows"] = {"schedule": 4}
    return d
ap = []
for fn, nm in (("Skinny64::encryptBlock", "enc"), ("Skinny64::decryptBlock", "dec")):
    P = {"output": {"bytes": 8, "out": True}, "input": {"bytes": 8}}
    ap.append(ape64(fn, f"ard64_{nm}_load", "seg", 0, P, ["state"]))
    ap.append(ape64(fn, f"ard64_{nm}_round", "loop", 0, P, ["state"], ["state", "schedule_0"]))
    ap.append(ape64(fn, f"ard64_{nm}_store", "seg", 1, P, ["output"], ["state"]))
for tw in (0, 1):
    P = {"key": {"bytes": 8}, "tweaked": {"const": tw}}
    if tw == 0:
        ap.append(ape64("Skinny64::setTK1", "ard64_tk1_load", "seg", 0, P, ["TK1", "rc"]))
    ap.append(ape64("Skinny64::setTK1", f"ard64_tk1_step_t{tw}", "loop", 0, P, ["schedule_0", "TK1", "rc"], ["TK1", "rc"]))
P = {"key": {"bytes": 8}}
ap.append(ape64("Skinny64::xorTK1", "ard64_xor_tk1_load", "seg", 0, P, ["TK1"]))
ap.append(ape64("Skinny64::xorTK1", "ard64_xor_tk1_step", "loop", 0, P, ["schedule_0", "TK1"], ["schedule_0", "TK1"]))
for n in (2, 3):
    ap.append(ape64(f"Skinny64::setTK{n}", f"ard64_tk{n}_load", "seg", 0, P, [f"TK{n}"]))
    ap.append(ape64(f"Skinny64::setTK{n}", f"ard64_tk{n}_step", "loop", 0, P, ["schedule_0", f"TK{n}"], ["schedule_0", f"TK{n}"]))
mods.append({"name": "Arduino64Pieces", "imports": ["Arduino64Leaf"], "entries": ap})

# ---------------------------------------------------------------- Arduino port, Mantis-8
AM = "arduino/libraries/Skinny/Mantis8.cpp"
al = [e(AM, "mantis_sbox", "ardm_sbox", [], 4, None, "direct"),
      e(AM, "mantis_update_tweak", "ardm_update_tweak"), e(AM, "mantis_update_tweak_inverse", "ardm_update_tweak_inverse"),
      e(AM, "mantis_shift_rows", "ardm_shift_rows"), e(AM, "mantis_shift_rows_inverse", "ardm_shift_rows_inverse"),
      e(AM, "mantis_mix_columns", "ardm_mix_columns"),
      e(AM, "mantis_unpack_rotated_block", "ardm_unpack_rotated_block", [], None, {"block": {"bytes": 8, "out": True}, "buf": {"bytes": 8}}),
      {"file": AM, "table": "rc", "lean": "ardm_rc", "flags": []}]
mods.append({"name": "ArduinoMantisLeaf", "entries": al})
STF = [["k0", 32, 2], ["k0prime", 32, 2], ["k1", 32, 2], ["tweak", 32, 2]]
THM = {"st": {"obj": 32, "fields": STF}}
def apem(func, lean, kind, index, params, outs, ins=None, th=THM):
    d = pe(AM, func, lean, kind, index, [], params, outs, ins)
    d["this"] = th; d["windows"] = {"r": 8}
    return d
ap = []
P = {"output": {"bytes": 8, "out": True}, "input": {"bytes": 8}}
ap.append(apem("Mantis8::encryptBlock", "ardm_pre", "seg", 0, P, ["state", "tweak", "k1"]))
ap.append(apem("Mantis8::encryptBlock", "ardm_fwd", "loop", 0, P, ["state", "tweak"], ["state", "tweak", "k1", "r_0"]))
ap.append(apem("Mantis8::encryptBlock", "ardm_mid", "seg", 1, P, ["state", "k1"], ["state", "k1"]))
ap.append(apem("Mantis8::encryptBlock", "ardm_bwd", "loop", 1, P, ["state", "tweak"], ["state", "tweak", "k1", "r_m1"]))
ap.append(apem("Mantis8::encryptBlock", "ardm_post", "seg", 2, P, ["output"], ["state", "tweak", "k1", "st"]))
mods.append({"name": "ArduinoMantisPieces", "imports": ["ArduinoMantisLeaf"], "entries": ap})
THMO = {"st": {"obj": 32, "fields": STF, "out": True}}
kl = [dict(e(AM, "Mantis8::swapModes", "ardm_swap_modes"), this=THM),
      dict(e(AM, "Mantis8::setKey", "ardm_set_key", [], None, {"key": {"bytes": 16}, "len": {"const": 16}}), this=THMO),
      dict(e(AM, "Mantis8::setTweak", "ardm_set_tweak", [], None, {"tweak": {"bytes": 8}, "len": {"const": 8}}), this=THM),
      dict(e(AM, "Mantis8::setTweak", "ardm_set_tweak_null", [], None, {"tweak": {"null": True}, "len": {"const": 8}}), this=THM)]
mods.append({"name": "ArduinoMantisKey", "imports": ["ArduinoMantisLeaf"], "entries": kl})

# ---------------------------------------------------------------- vector back end: Skinny-128 parallel ECB, 128-bit vectors
V128 = "src/skinny128-parallel-vec128.c"
LW = {"lanewise": True}; LW0 = {"lanewise": True, "const": 0}
vl = [e(V128, "skinny128_sbox_four", "v128p_sbox", [], 8, {"u": LW, "v": LW0, "s": LW0, "t": LW0}),
      e(V128, "skinny128_inv_sbox_four", "v128p_inv_sbox", [], 8, {"u": LW, "v": LW0, "s": LW0, "t": LW0})]
mods.append({"name": "Vec128Leaf", "entries": vl})
vp = []
for fn, nm in (("_skinny128_parallel_encrypt_vec128", "v128p_enc"), ("_skinny128_parallel_decrypt_vec128", "v128p_dec")):
    P = {"output": {"bytes": 64, "out": True}, "input": {"bytes": 64}}
    rows = ["row0", "row1", "row2", "row3"]
    d = pe(V128, fn, f"{nm}_load", "seg", 0, [], P, rows); d["veclanes"] = "explicit"; vp.append(d)
    vp.append(pe(V128, fn, f"{nm}_round", "loop", 0, [], P, rows, rows + ["schedule_0"]))
    d = pe(V128, fn, f"{nm}_store", "seg", 1, [], P, ["output"], rows); d["veclanes"] = "explicit"; vp.append(d)
mods.append({"name": "Vec128Pieces", "entries": vp})

# ---------------------------------------------------------------- vector back end: Skinny-128 parallel ECB, 256-bit vectors
V256 = "src/skinny128-parallel-vec256.c"; AVX = ["-mavx2"]
vl = [e(V256, "skinny128_sbox_four", "v256p_sbox", AVX, 8, {"u": LW, "v": LW0, "s": LW0, "t": LW0}),
      e(V256, "skinny128_inv_sbox_four", "v256p_inv_sbox", AVX, 8, {"u": LW, "v": LW0, "s": LW0, "t": LW0})]
mods.append({"name": "Vec256Leaf", "entries": vl})
vp = []
for fn, nm in (("_skinny128_parallel_encrypt_vec256", "v256p_enc"), ("_skinny128_parallel_decrypt_vec256", "v256p_dec")):
    P = {"output": {"bytes": 128, "out": True}, "input": {"bytes": 128}}
    rows = ["row0", "row1", "row2", "row3"]
    d = pe(V256, fn, f"{nm}_load", "seg", 0, AVX, P, rows); d["veclanes"] = "explicit"; vp.append(d)
    vp.append(pe(V256, fn, f"{nm}_round", "loop", 0, AVX, P, rows, rows + ["schedule_0"]))
    d = pe(V256, fn, f"{nm}_store", "seg", 1, AVX, P, ["output"], rows); d["veclanes"] = "explicit"; vp.append(d)
mods.append({"name": "Vec256Pieces", "entries": vp})

# ---------------------------------------------------------------- vector back end: Skinny-64 parallel ECB, 128-bit vectors (8 blocks)
V64 = "src/skinny64-parallel-vec128.c"
vl = [e(V64, "skinny64_sbox", "v64p_sbox", [], 4, {"x": LW}, "direct"),
      e(V64, "skinny64_inv_sbox", "v64p_inv_sbox", [], 4, {"x": LW}, "direct")]
mods.append({"name": "Vec64Leaf", "entries": vl})
vp = []
for fn, nm in (("_skinny64_parallel_encrypt_vec128", "v64p_enc"), ("_skinny64_parallel_decrypt_vec128", "v64p_dec")):
    P = {"output": {"bytes": 64, "out": True}, "input": {"bytes": 64}}
    rows = ["row0", "row1", "row2", "row3"]
    d = pe(V64, fn, f"{nm}_load", "seg", 0, [], P, rows); d["veclanes"] = "explicit"; vp.append(d)
    vp.append(pe(V64, fn, f"{nm}_round", "loop", 0, [], P, rows, rows + ["schedule_0"]))
    d = pe(V64, fn, f"{nm}_store", "seg", 1, [], P, ["output"], rows); d["veclanes"] = "explicit"; vp.append(d)
mods.append({"name": "Vec64Pieces", "imports": ["Vec64Leaf"], "entries": vp})

# ---------------------------------------------------------------- vector parallel files, byte-wise store path (SKINNY_UNALIGNED = 0)
U0 = ["-DSKINNY_VERIF_UNALIGNED=0"]
vu = []
for file, fl, fns, nbytes in ((V128, U0, (("_skinny128_parallel_encrypt_vec128", "v128p_enc"), ("_skinny128_parallel_decrypt_vec128", "v128p_dec")), 64),
                              (V256, U0 + AVX, (("_skinny128_parallel_encrypt_vec256", "v256p_enc"), ("_skinny128_parallel_decrypt_vec256", "v256p_dec")), 128),
                              (V64, U0, (("_skinny64_parallel_encrypt_vec128", "v64p_enc"), ("_skinny64_parallel_decrypt_vec128", "v64p_dec")), 64)):
    for fn, nm in fns:
        P = {"output": {"bytes": nbytes, "out": True}, "input": {"bytes": nbytes}}
        rows = ["row0", "row1", "row2", "row3"]
        d = pe(file, fn, f"{nm}_load_u0", "seg", 0, fl, P, rows); d["veclanes"] = "explicit"; vu.append(d)
        d = pe(file, fn, f"{nm}_store_u0", "seg", 1, fl, P, ["output"], rows); d["veclanes"] = "explicit"; vu.append(d)
mods.append({"name": "VecU0Pieces", "entries": vu})

# ---------------------------------------------------------------- vector back end: Mantis parallel ECB, 128-bit vectors (8 blocks)
VM = "src/mantis-parallel-vec128.c"
mods.append({"name": "VecMantisLeaf", "entries": [e(VM, "mantis_sbox", "vmp_sbox", [], 4, {"d": LW}, "direct"),
                                                   {"file": VM, "table": "rc", "lean": "vmp_rc", "flags": []}]})
vp = []
P = {"output": {"bytes": 64, "out": True}, "input": {"bytes": 64}, "tweak": {"bytes": 64}, "ks": {"bytes": 36}}
d = pe(VM, "_mantis_parallel_crypt_vec128", "vmp_pre", "seg", 0, [], P, ["state", "tk", "k1"]); d["veclanes"] = "explicit"; d["windows"] = {"r": 8}; vp.append(d)
d = pe(VM, "_mantis_parallel_crypt_vec128", "vmp_fwd", "loop", 0, [], P, ["state", "tk"], ["state", "tk", "k1", "r_0"]); d["windows"] = {"r": 8}; vp.append(d)
d = pe(VM, "_mantis_parallel_crypt_vec128", "vmp_mid", "seg", 1, [], P, ["state", "k1"], ["state", "k1"]); d["windows"] = {"r": 8}; vp.append(d)
d = pe(VM, "_mantis_parallel_crypt_vec128", "vmp_bwd", "loop", 1, [], P, ["state", "tk"], ["state", "tk", "k1", "r_m1"]); d["windows"] = {"r": 8}; vp.append(d)
d = pe(VM, "_mantis_parallel_crypt_vec128", "vmp_post", "seg", 2, [], P, ["output"], ["state", "tk", "k1", "ks"]); d["veclanes"] = "explicit"; d["windows"] = {"r": 8}; vp.append(d)
mods.append({"name": "VecMantisPieces", "imports": ["VecMantisLeaf"], "entries": vp})

# ---------------------------------------------------------------- counters
mods.append({"name": "CounterLeaf", "entries": [
    e(S128, "skinny128_inc_counter", "skinny128_inc_counter", [], None, {"counter": {"bytes": 16}}),
    e(S128, "skinny64_inc_counter", "skinny64_inc_counter", [], None, {"counter": {"bytes": 8}}),
]})

# ---------------------------------------------------------------- vector CTR back ends: per-lane counter increments (strided counter image)
vc = []
for file, fn, nm, nbytes, ncols, fl in (("src/skinny128-ctr-vec128.c", "skinny128_ctr_increment", "v128c_inc", 64, 4, []),
                                        ("src/skinny128-ctr-vec256.c", "skinny128_ctr_increment", "v256c_inc", 128, 8, ["-mavx2"]),
                                        ("src/skinny64-ctr-vec128.c", "skinny64_ctr_increment", "v64c_inc", 64, 8, []),
                                        ("src/mantis-ctr-vec128.c", "mantis_ctr_increment", "vmc_inc", 64, 8, [])):
    for c in range(ncols):
        d = e(file, fn, f"{nm}_{c}", fl, None, {"counter": {"bytes": nbytes}, "column": {"const": c}})
        d.pop("opaque", None)
        vc.append(d)
mods.append({"name": "VecCounterLeaf", "entries": vc})

# ---------------------------------------------------------------- vector CTR back ends: the batch block functions on the strided counter image
W32 = ["-DSKINNY_VERIF_64BIT=0"]
for file, fn, nm, nbytes, leafs, fl0, variants in (
        ("src/skinny128-ctr-vec128.c", "skinny128_ecb_encrypt_four", "v128c", 64,
         [("skinny128_sbox_four", "v128c_sbox", 8, {"u": LW, "v": LW0, "s": LW0, "t": LW0}, None)], [], True),
        ("src/skinny128-ctr-vec256.c", "skinny128_ecb_encrypt_eight", "v256c", 128,
         [("skinny128_sbox_four", "v256c_sbox", 8, {"u": LW, "v": LW0, "s": LW0, "t": LW0}, None)], ["-mavx2"], True),
        ("src/skinny64-ctr-vec128.c", "skinny64_ecb_encrypt_eight", "v64c", 64,
         [("skinny64_sbox", "v64c_sbox", 4, {"x": LW}, "direct")], [], False)):
    mods.append({"name": "VecCtr%sLeaf" % nm[1:-1], "entries": [e(file, lf, ln, fl0, lane, prm, lp) for lf, ln, lane, prm, lp in leafs]})
    P = {"output": {"bytes": nbytes, "out": True}, "input": {"bytes": nbytes}}
    rows = ["row0", "row1", "row2", "row3"]
    vp = []
    d = pe(file, fn, f"{nm}_enc_load", "seg", 0, fl0, P, rows); d["veclanes"] = "explicit"; vp.append(d)
    vp.append(pe(file, fn, f"{nm}_enc_round", "loop", 0, fl0, P, rows, rows + ["schedule_0"]))
    d = pe(file, fn, f"{nm}_enc_store", "seg", 1, fl0, P, ["output"], rows); d["veclanes"] = "explicit"; vp.append(d)
    if variants:
        vp.append(pe(file, fn, f"{nm}_enc_round_w32", "loop", 0, fl0 + W32, P, rows, rows + ["schedule_0"]))      # skinny128_sbox_two path
        d = pe(file, fn, f"{nm}_enc_store_u0", "seg", 1, fl0 + U0, P, ["output"], rows); d["veclanes"] = "explicit"; vp.append(d)
    mods.append({"name": "VecCtr%sPieces" % nm[1:-1], "imports": ["VecCtr%sLeaf" % nm[1:-1]], "entries": vp})

# ---------------------------------------------------------------- vector CTR back end of Mantis: the batch block function (stored tweak, strided counters)
VMC = "src/mantis-ctr-vec128.c"
mods.append({"name": "VecMantisCtrLeaf", "entries": [e(VMC, "mantis_sbox", "vmc_sbox", [], 4, {"d": LW}, "direct"),
                                                      {"file": VMC, "table": "rc", "lean": "vmc_rc", "flags": []}]})
vp = []
P = {"output": {"bytes": 64, "out": True}, "input": {"bytes": 64}, "ks": {"bytes": 36}}
FN = "mantis_ecb_encrypt_eight"
d = pe(VMC, FN, "vmc_pre", "seg", 0, [], P, ["state", "tweak", "k1"]); d["veclanes"] = "explicit"; d["windows"] = {"r": 8}; vp.append(d)
d = pe(VMC, FN, "vmc_fwd", "loop", 0, [], P, ["state", "tweak"], ["state", "tweak", "k1", "r_0"]); d["windows"] = {"r": 8}; vp.append(d)
d = pe(VMC, FN, "vmc_mid", "seg", 1, [], P, ["state", "k1"], ["state", "k1"]); d["windows"] = {"r": 8}; vp.append(d)
d = pe(VMC, FN, "vmc_bwd", "loop", 1, [], P, ["state", "tweak"], ["state", "tweak", "k1", "r_m1"]); d["windows"] = {"r": 8}; vp.append(d)
d = pe(VMC, FN, "vmc_post", "seg", 2, [], P, ["output"], ["state", "tweak", "k1", "ks"]); d["veclanes"] = "explicit"; d["windows"] = {"r": 8}; vp.append(d)
mods.append({"name": "VecMantisCtrPieces", "imports": ["VecMantisCtrLeaf"], "entries": vp})

# ---------------------------------------------------------------- keystream xor helpers of skinny-internal.h (used by every CTR back end)
XF = "src/skinny128-ctr.c"
xe = []
for tag, fl in (("w64", []), ("w32", ["-DSKINNY_VERIF_64BIT=0"]), ("bytes", ["-DSKINNY_VERIF_UNALIGNED=0"])):
    for fn, n in (("skinny128_xor", 16), ("skinny64_xor", 8)):
        d = e(XF, fn, f"{fn}_{tag}", fl, None, {"output": {"bytes": n, "out": True}, "input1": {"bytes": n}, "input2": {"bytes": n}})
        xe.append(d)
for k in range(1, 16):
    xe.append(e(XF, "skinny_xor", f"skinny_xor_{k}", [], None, {"output": {"bytes": k, "out": True}, "input1": {"bytes": k}, "input2": {"bytes": k}, "size": {"const": k}}))
mods.append({"name": "XorLeaf", "entries": xe})

# ---------------------------------------------------------------- argument guards of the public key/tweak setters
guards = []
for file, fns in ((S128, ["skinny128_set_key", "skinny128_set_tweaked_key", "skinny128_set_tweak"]),
                  (S64, ["skinny64_set_key", "skinny64_set_tweaked_key", "skinny64_set_tweak"]),
                  (MAN, ["mantis_set_key", "mantis_set_tweak"])):
    for fn in fns:
        guards.append({"file": file, "func": fn, "lean": fn + "_guard", "flags": [], "guard": True})
mods.append({"name": "Guards", "entries": guards})

here = os.path.dirname(os.path.abspath(__file__))
json.dump({"modules": mods}, open(os.path.join(here, "gen_manifest.json"), "w"), indent=1)
print("entries:", sum(len(m["entries"]) for m in mods))
