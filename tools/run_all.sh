#!/bin/sh
# run_all.sh [tier] -- every check once, one line each (used before committing; not registered in MANIFEST)
tier=${1:-quick}
cd "$(dirname "$0")/.."
for i in 01 02 03 04 05 06 07 08 09 10 11 12 13 14 15 16 17 18 19 20; do
  s=$(date +%s)
  ./check C$i --tier $tier > /tmp/skv-run-C$i.log 2>&1; rc=$?
  e=$(date +%s)
  echo "C$i rc=$rc $((e-s))s $(grep -h '^VIOLATION\|^OK\|^KNOWN' /tmp/skv-run-C$i.log | head -3 | tr '\n' ' ')"
done
