#!/bin/sh
# harmless_run.sh <patch.diff> <tag> <prop>... -- apply a behaviour-preserving rewrite to a scratch copy of /repo and run the quick
# checks of the listed properties on it (false-alarm trial); one line per check
D=$1; T=$2; shift 2
R=$(mktemp -d /tmp/harmrepo.XXXXXX)
cp -r /repo/. $R/ && git -C $R checkout -q -- . && git -C $R apply $D || { echo "cannot apply $D"; rm -rf $R; exit 2; }
mkdir -p /verif/seedruns
for P in "$@"; do
  ( cd /verif && VERIF_REPO=$R VERIF_SEED=1 ./check $P --tier quick > seedruns/harmless.$T.$P.log 2>&1 ); rc=$?
  echo "harmless $T $P quick rc=$rc $(grep -h '^VIOLATION\|^OK\|^KNOWN' /verif/seedruns/harmless.$T.$P.log | head -2 | tr '\n' ' ' | cut -c1-220)"
done
rm -rf $R
