#!/usr/bin/env python3
"""
probe2lean.py -- translate the CPU probes of src/skinny-internal.c (`_skinny_has_vec128`,
`_skinny_has_vec256`) into Lean functions over an abstract CPU environment
(`SkinnyVerif.Spec.Cpu.ProbeEnv`): every CPUID / XGETBV asm statement becomes a call of the
environment with exactly the registers the statement binds -- a register the instruction reads
but the statement leaves unbound is `env.junk k` (an arbitrary value).  The statement list comes
from the clang AST of the shipped configuration (guard off); the asm templates and operand
constraints, which the JSON AST does not carry, come from the preprocessed text, paired in
source order.  Output: lean/SkinnyVerif/Gen/Probes.lean
"""
import json, os, re, subprocess, sys
sys.path.insert(0, os.path.dirname(os.path.abspath(__file__)))
from c2lean import TU, TranslateError

class PErr(Exception): pass

def asm_texts(repo, fname, flags):
    p = subprocess.run(["gcc", "-E", "-P"] + flags + [os.path.join(repo, "src", "skinny-internal.c")], capture_output=True, text=True)
    m = re.search(r"int %s\(void\)\s*\{(.*?)\n\}" % fname, p.stdout, re.S)
    if not m: raise PErr("cannot find %s in preprocessed text" % fname)
    out = []
    for a in re.finditer(r"__asm__\s*(?:__volatile__)?\s*\((.*?)\)\s*;", m.group(1), re.S):
        parts = a.group(1).split(":")
        tmpl = re.sub(r'["\s]', "", parts[0].replace("\\n", "").replace("\\t", ""))
        outs = re.findall(r'"([^"]+)"\s*\(', parts[1]) if len(parts) > 1 else []
        ins = re.findall(r'"([^"]+)"\s*\(', parts[2]) if len(parts) > 2 else []
        out.append((tmpl, outs, ins))
    return out

class Gen:
    def __init__(self, asms):
        self.asms = list(asms); self.k = 0; self.junk = 0; self.tmp = 0; self.locals = set()
    def expr(self, n):
        """returns a Lean term of type BitVec 32"""
        k = n.get("kind")
        if k in ("ImplicitCastExpr", "ParenExpr", "CStyleCastExpr", "ConstantExpr"): return self.expr(n["inner"][0])
        if k == "IntegerLiteral": return "(%d#32)" % (int(n["value"]) % 2 ** 32)
        if k == "DeclRefExpr":
            if n["referencedDecl"].get("kind") != "VarDecl" or n["referencedDecl"]["name"] not in self.locals: raise PErr("reference to non-local %r" % n["referencedDecl"]["name"])
            return n["referencedDecl"]["name"]
        if k == "UnaryOperator":
            a = self.expr(n["inner"][0]); op = n["opcode"]
            if op == "!": return "(if %s == 0#32 then 1#32 else 0#32)" % a
            if op == "~": return "(~~~ %s)" % a
            if op == "-": return "(- %s)" % a
            raise PErr("unary " + op)
        if k == "BinaryOperator":
            op = n["opcode"]; a = self.expr(n["inner"][0]); b = self.expr(n["inner"][1])
            m = {"&": "&&&", "|": "|||", "^": "^^^", "+": "+", "-": "-"}
            if op in m: return "(%s %s %s)" % (a, m[op], b)
            if op == "<<": return "(%s <<< %s.toNat)" % (a, b)
            if op == ">>": return "(%s >>> %s.toNat)" % (a, b)
            c = {"!=": "(%s != %s)", "==": "(%s == %s)", ">=": "(BitVec.ule %s %s)", "<=": "(BitVec.ule %s %s)",
                 ">": "(BitVec.ult %s %s)", "<": "(BitVec.ult %s %s)", "&&": "(%s != 0#32 && %s != 0#32)", "||": "(%s != 0#32 || %s != 0#32)"}
            if op in c:
                x, y = (b, a) if op in (">=", ">") else (a, b)
                return "(if %s then 1#32 else 0#32)" % (c[op] % (x, y))
            raise PErr("binary " + op)
        if k == "CallExpr":
            c = n["inner"][0]
            while c.get("kind") in ("ImplicitCastExpr", "ParenExpr"): c = c["inner"][0]
            name = c.get("referencedDecl", {}).get("name")
            if name == "__get_cpuid_max":
                ext = self.expr(n["inner"][1])
                self.junk += 1
                # <cpuid.h>: executes CPUID with EAX = ext and returns EAX; ECX is not bound
                return "(env.cpuid %s (env.junk %d)).1" % (ext, self.junk - 1)
            raise PErr("call to " + str(name))
        raise PErr("expression kind " + str(k))

    def cond(self, n): return "%s != 0#32" % self.expr(n)

    def stmts(self, n, ind):
        k = n.get("kind"); sp = "  " * ind; L = []
        if k == "CompoundStmt":
            for c in n.get("inner", []): L += self.stmts(c, ind)
            return L
        if k == "DeclStmt":
            for v in n.get("inner", []):
                if v.get("storageClass") in ("static", "extern"): raise PErr("probe keeps state in a %s variable %r" % (v.get("storageClass"), v.get("name")))
                init = [c for c in v.get("inner", []) if "kind" in c and c["kind"] != "FullComment"]
                L.append("%slet mut %s : BitVec 32 := %s" % (sp, v["name"], self.expr(init[0]) if init else "env.junk %d" % self._j()))
                self.locals.add(v["name"])
            return L
        if k == "IfStmt":
            inner = n["inner"]
            L.append("%sif %s then" % (sp, self.cond(inner[0])))
            body = self.stmts(inner[1], ind + 1)
            L += body if body else ["%s  pure ()" % sp]
            if len(inner) > 2:
                L.append("%selse" % sp)
                L += self.stmts(inner[2], ind + 1)
            return L
        if k == "BinaryOperator" and n["opcode"] == "=":
            lhs = n["inner"][0]
            if lhs.get("kind") != "DeclRefExpr": raise PErr("assignment to non-variable")
            return ["%s%s := %s" % (sp, lhs["referencedDecl"]["name"], self.expr(n["inner"][1]))]
        if k == "ReturnStmt":
            return ["%sreturn %s" % (sp, self.expr(n["inner"][0]))]
        if k == "GCCAsmStmt":
            if self.k >= len(self.asms): raise PErr("more asm statements in the AST than in the text")
            tmpl, outs, ins = self.asms[self.k]; self.k += 1
            ops = n.get("inner", [])
            if len(ops) != len(outs) + len(ins): raise PErr("asm operand count mismatch: %s %s %s" % (tmpl, outs, ins))
            outv = []
            for o in ops[:len(outs)]:
                while o.get("kind") in ("ImplicitCastExpr", "ParenExpr"): o = o["inner"][0]
                if o.get("kind") != "DeclRefExpr": raise PErr("asm output is not a variable")
                outv.append(o["referencedDecl"]["name"])
            reg_of_out = [re.sub(r"[=+&]", "", c) for c in outs]
            inreg = {}
            for c, e in zip(ins, ops[len(outs):]):
                r = reg_of_out[int(c)] if c.isdigit() else c
                inreg[r] = self.expr(e)
            t = "r%d" % self.tmp; self.tmp += 1
            if tmpl == "cpuid":
                leaf = inreg.get("a"); sub = inreg.get("c")
                if leaf is None: leaf = "(env.junk %d)" % self._j()
                if sub is None: sub = "(env.junk %d)" % self._j()
                L.append("%slet %s := env.cpuid %s %s" % (sp, t, leaf, sub))
                proj = {"a": ".1", "b": ".2.1", "c": ".2.2.1", "d": ".2.2.2"}
            elif tmpl == "xgetbv":
                sub = inreg.get("c")
                if sub is None: sub = "(env.junk %d)" % self._j()
                L.append("%slet %s := env.xgetbv %s" % (sp, t, sub))
                proj = {"a": ".1", "d": ".2"}
            else:
                raise PErr("unknown asm template %r" % tmpl)
            for r, v in zip(reg_of_out, outv):
                if r not in proj: raise PErr("asm output register %r" % r)
                L.append("%s%s := %s%s" % (sp, v, t, proj[r]))
            return L
        if k == "NullStmt": return []
        raise PErr("statement kind " + str(k))
    def _j(self):
        self.junk += 1; return self.junk - 1

def translate(repo):
    flags = ["-std=c99", "-I" + os.path.join(repo, "include"), "-I" + os.path.join(repo, "src"), "-msse2", "-mavx2"]
    tu = TU(os.path.join(repo, "src", "skinny-internal.c"), flags)
    L = ["/- GENERATED by tools/probe2lean.py from /repo/src/skinny-internal.c -- do not edit -/",
         "import SkinnyVerif.Spec.Cpu", "", "namespace SkinnyVerif.Gen.Probes", "open SkinnyVerif.Spec.Cpu", "set_option linter.unusedVariables false", ""]
    errs = []
    for fn in ("_skinny_has_vec128", "_skinny_has_vec256"):
        try:
            f = tu.funcs.get(fn)
            if f is None: raise PErr("function not found")
            body = [c for c in f["inner"] if c.get("kind") == "CompoundStmt"][0]
            g = Gen(asm_texts(repo, fn, flags))
            lines = g.stmts(body, 1)
            if g.k != len(g.asms): raise PErr("asm statements in the text not reached in the AST")
            L.append("def %s (env : ProbeEnv) : BitVec 32 := Id.run do" % fn.lstrip("_"))
            L += lines
            L.append("")
        except (PErr, TranslateError, KeyError, IndexError) as e:
            errs.append({"lean": "Gen/Probes.lean", "func": fn, "error": "probe translator: %s" % e})
            L.append("-- %s: not translated: %s" % (fn, e)); L.append("")
    L.append("end SkinnyVerif.Gen.Probes\n")
    return "\n".join(L), errs

def main():
    repo = sys.argv[1] if len(sys.argv) > 1 else "/repo"
    here = os.path.dirname(os.path.abspath(__file__))
    out = os.path.join(here, "..", "lean", "SkinnyVerif", "Gen", "Probes.lean")
    txt, errs = translate(repo)
    old = open(out).read() if os.path.exists(out) else None
    if old != txt: open(out, "w").write(txt)
    if len(sys.argv) > 2: json.dump(errs, open(sys.argv[2], "w"))
    for e in errs: print("ERROR", e)
    return 0

if __name__ == "__main__":
    sys.exit(main())
