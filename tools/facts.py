#!/usr/bin/env python3
"""
facts.py -- facts read off the typed AST of /repo's current sources (not bit-level code):
  * sizes passed to calloc / skinny_calloc / skinny_cleanse per context type,
  * the leading argument-validation condition of every public function,
  * the census of objects with static storage duration (const-ness),
  * the operand lists of the inline-asm statements in skinny-internal.c (after preprocessing),
  * which public functions test which pointer parameters for NULL before first use.
Written to lean/SkinnyVerif/Gen/Facts.lean (for theorems) and returned as JSON (for the harness).
"""
import json, os, re, subprocess, sys
sys.path.insert(0, os.path.dirname(os.path.abspath(__file__)))
from c2lean import TU, TranslateError, TRec, TInt, TPtr, TArr, TVec

SRC = ["skinny-internal.c", "skinny128-cipher.c", "skinny128-ctr.c", "skinny128-ctr-vec128.c", "skinny128-ctr-vec256.c",
       "skinny128-parallel.c", "skinny128-parallel-vec128.c", "skinny128-parallel-vec256.c",
       "skinny64-cipher.c", "skinny64-ctr.c", "skinny64-ctr-vec128.c", "skinny64-parallel.c", "skinny64-parallel-vec128.c",
       "mantis-cipher.c", "mantis-ctr.c", "mantis-ctr-vec128.c", "mantis-parallel.c", "mantis-parallel-vec128.c"]

def walk(n, f):
    f(n)
    for c in n.get("inner", []):
        if isinstance(c, dict): walk(c, f)

def callee_name(call):
    c = call["inner"][0]
    while c.get("kind") in ("ImplicitCastExpr", "ParenExpr") and c.get("inner"): c = c["inner"][0]
    if c.get("kind") == "DeclRefExpr": return c["referencedDecl"]["name"]
    return None

def sizeof_arg(tu, n):
    """evaluate an expression built from sizeof / integer literals / + * (the only forms used)"""
    k = n.get("kind")
    if k in ("ImplicitCastExpr", "ParenExpr", "CStyleCastExpr", "ConstantExpr"): return sizeof_arg(tu, n["inner"][0])
    if k == "IntegerLiteral": return int(n["value"])
    if k == "UnaryExprOrTypeTraitExpr" and n.get("name") == "sizeof":
        t = tu.ctype(n["argType"]) if "argType" in n else tu.ctype(n["inner"][0]["type"])
        return t.size()
    if k == "BinaryOperator" and n["opcode"] in ("+", "*", "-"):
        a, b = sizeof_arg(tu, n["inner"][0]), sizeof_arg(tu, n["inner"][1])
        if a is None or b is None: return None
        return a + b if n["opcode"] == "+" else a * b if n["opcode"] == "*" else a - b
    return None

def body_of(f):
    for c in f.get("inner", []):
        if c.get("kind") == "CompoundStmt": return c
    return None

def null_guard(f):
    """names of pointer parameters that are tested (`!p`, `p == 0`, or `p` as a condition) before the
    first statement that dereferences them; and whether the guarded branch returns 0"""
    params = [c["name"] for c in f.get("inner", []) if c.get("kind") == "ParmVarDecl" and c["type"]["qualType"].rstrip().endswith("*")]
    body = body_of(f)
    tested, used = set(), set()
    order = []
    def refs(n, acc):
        def g(x):
            if x.get("kind") == "DeclRefExpr" and x["referencedDecl"]["name"] in params: acc.add(x["referencedDecl"]["name"])
        walk(n, g); return acc
    if body is None: return {"params": params, "checked_before_use": []}
    checked = []
    seen_use = set()
    for st in body.get("inner", []):
        if st.get("kind") == "IfStmt":
            cond = st["inner"][0]
            for p in refs(cond, set()):
                if p not in seen_use and p not in checked: checked.append(p)
            # uses inside the branches count as uses after the check
            for br in st["inner"][1:]:
                seen_use |= (refs(br, set()) - set(checked))
        elif st.get("kind") == "DeclStmt":
            # declarations with initialisers may already use the pointer (e.g. `uint8_t *out = output`): a plain copy is not a use
            def deref_use(n, acc):
                def g(x):
                    if x.get("kind") in ("MemberExpr", "ArraySubscriptExpr", "UnaryOperator", "CallExpr"):
                        if x.get("kind") != "UnaryOperator" or x.get("opcode") == "*":
                            refs(x, acc)
                walk(n, g); return acc
            seen_use |= (deref_use(st, set()) - set(checked))
        else:
            seen_use |= (refs(st, set()) - set(checked))
    return {"params": params, "checked_before_use": checked}

import hashlib
SKIP_KEYS = {"id", "loc", "range", "previousDecl", "isUsed", "isReferenced", "mangledName", "isImplicit", "parentDeclContextId", "valueCategory"}
def local_names(f):
    """parameters and local variables of a function in order of declaration -> canonical names (renaming a
    local variable or a parameter is not a change)"""
    ren = {}
    def g(x):
        if x.get("kind") in ("ParmVarDecl", "VarDecl") and x.get("name") and x.get("storageClass") != "static" and x["name"] not in ren:
            ren[x["name"]] = "v%d" % len(ren)
    walk(f, g)
    return ren

def shape(n, ren=None):
    """location-free, id-free rendering of an AST subtree: kinds, operators, names, literals, types"""
    if isinstance(n, dict):
        if ren is None and n.get("kind") in ("FunctionDecl", "CXXMethodDecl"):
            ren = local_names(n)
        items = []
        for k in sorted(n.keys()):
            if k in SKIP_KEYS: continue
            v = n[k]
            if k == "name" and ren and n.get("kind") in ("ParmVarDecl", "VarDecl") and v in ren:
                items.append("name=%s" % ren[v]); continue
            if k == "referencedDecl":
                nm_ = v.get("name")
                items.append("ref=%s" % (ren.get(nm_, nm_) if (ren and v.get("kind") in ("ParmVarDecl", "VarDecl")) else nm_))
            elif k == "type":
                tq = (v.get("qualType") if isinstance(v, dict) else v)
                if isinstance(tq, str) and " at /" in tq: tq = re.sub(r" at /[^):]*/", " at ", tq)
                items.append("type=%s" % tq)
            elif k == "inner":
                items.append("[" + ",".join(shape(c, ren) for c in v if not (isinstance(c, dict) and c.get("kind") in ("FullComment", "ParagraphComment", "TextComment"))) + "]")
            elif isinstance(v, (dict, list)):
                items.append("%s=%s" % (k, shape(v, ren)))
            elif isinstance(v, str) and re.match(r"^0x[0-9a-f]+$", v):
                continue                      # AST node addresses (referencedMemberDecl, ...)
            else:
                if isinstance(v, str) and " at /" in v:      # "(unnamed struct at /path/file.c:10:5)": the path is not part of the shape
                    v = re.sub(r" at /[^):]*/", " at ", v)
                items.append("%s=%s" % (k, v))
        return "{" + ";".join(items) + "}"
    if isinstance(n, list):
        return "[" + ",".join(shape(c, ren) for c in n) + "]"
    return str(n)

# Functions that the translator covers *in pieces* in every preprocessor configuration (every straight-line
# segment and every loop body is a regenerated Lean definition with its own theorems): only what the pieces
# do not contain is tied by hash - the signature, the loop headers (init / condition / step) and the order of
# segments and loops.  A rewrite inside a piece re-proves or fails its lemma; a changed loop bound changes the hash.
SKELETON = re.compile(r"^(_skinny(128|64)_parallel_(en|de)crypt_vec(128|256)|_mantis_parallel_crypt_vec128|skinny128_ecb_encrypt_(four|eight)|skinny64_ecb_encrypt_eight|mantis_ecb_encrypt_eight|"
                      r"skinny(128|64)_ecb_(encrypt|decrypt)|mantis_ecb_crypt(_tweaked)?)$")
def _sets_pointer(st):
    """an assignment to, or an initialised declaration of, a pointer variable at the top level of a function body"""
    k = st.get("kind")
    if k == "BinaryOperator" and st.get("opcode") == "=":
        lhs = st.get("inner", [{}])[0]
        return str(lhs.get("type", {}).get("qualType", "")).rstrip().endswith("*")
    if k == "DeclStmt":
        for d in st.get("inner", []):
            if d.get("kind") == "VarDecl" and str(d.get("type", {}).get("qualType", "")).rstrip().endswith("*") and d.get("inner"):
                return True
    return False

def skeleton(f):
    ren = local_names(f)
    sig = [shape(c, ren) for c in f.get("inner", []) if c.get("kind") == "ParmVarDecl"]
    body = body_of(f)
    items = []
    for st in (body.get("inner", []) if body else []):
        k = st.get("kind")
        if k in ("ForStmt", "WhileStmt", "DoStmt"):
            inner = st.get("inner", [])
            items.append("LOOP:%s(%s)" % (k, ",".join(shape(c, ren) for c in inner[:-1])))     # everything but the body
        elif k == "ReturnStmt":
            items.append("RETURN(%s)" % shape(st, ren))
        elif _sets_pointer(st):
            # which array a loop walks and where it starts (`schedule = ks->schedule;`) is not inside any piece
            items.append("PTR(%s)" % shape(st, ren))
        else:
            if not items or items[-1] != "SEG": items.append("SEG")
    return "SKELETON{%s;%s;type=%s}" % (",".join(sig), ",".join(items), f.get("type", {}).get("qualType"))

def fshape(name, f):
    return skeleton(f) if SKELETON.match(name) else shape(f)

def text_shape(path):
    """comment- and whitespace-insensitive hash of a source file (Arduino port, example tools)"""
    t = open(path, errors="replace").read()
    t = re.sub(r"/\*.*?\*/", " ", t, flags=re.S)
    t = re.sub(r"//[^\n]*", " ", t)
    t = re.sub(r"\s+", " ", t)
    return hashlib.sha256(t.encode()).hexdigest()[:16]

# Arduino functions that the translator covers as whole functions (not hashed) or in pieces in the one configuration the
# port has (skeleton hash): see tools/gen_manifest.py
ARD_WHOLE = re.compile(r"^(skinny(128|64)_(sbox|inv_sbox|LFSR2|LFSR3)|mantis_(sbox|update_tweak|update_tweak_inverse|shift_rows|shift_rows_inverse|mix_columns|unpack_rotated_block)|swapModes|setTweak)$")
ARD_PIECES = re.compile(r"^(encryptBlock|decryptBlock|setTK1|setTK2|setTK3|xorTK1)$")
def ast_file_shape(path, repo):
    """hash of a C / C++ source file built from the shapes of its function definitions (local names canonical, comments,
    layout and declaration order of functions irrelevant) and of its file-scope variables; falls back to the text hash"""
    try:
        if path.endswith(".cpp"):
            adir = os.path.dirname(path)
            tu = TU(path, ["-std=gnu++11", "-I" + adir, "-I" + os.path.join(adir, "utility")], cxx=True)
        else:
            tu = TU(path, ["-std=c99", "-I" + os.path.join(repo, "include"), "-I" + os.path.join(repo, "src")])
    except Exception:
        return text_shape(path)
    is_ard = path.endswith(".cpp")
    base = os.path.basename(path)
    items = []
    def rec(n, owner=""):
        for c in n.get("inner", []) if isinstance(n, dict) else []:
            if not isinstance(c, dict): continue
            k = c.get("kind")
            if k in ("FunctionDecl", "CXXMethodDecl", "CXXConstructorDecl", "CXXDestructorDecl"):
                if body_of(c) is None: continue
                nm = c.get("name", "")
                if nm.startswith("__"): continue                      # compiler / libc internals
                if is_ard and base in ("Skinny128.cpp", "Skinny64.cpp", "Mantis8.cpp"):
                    if ARD_WHOLE.match(nm) and (base == "Mantis8.cpp" or not nm in ("swapModes", "setTweak")): continue
                    if ARD_PIECES.match(nm):
                        items.append("%s::%s=%s" % (owner, nm, skeleton(c))); continue
                items.append("%s::%s=%s" % (owner, nm, shape(c)))
            elif k in ("NamespaceDecl", "LinkageSpecDecl"):
                rec(c, owner)
            elif k == "CXXRecordDecl":
                rec(c, c.get("name", owner))
            elif k == "VarDecl" and not c.get("name", "").startswith("__"):
                items.append("var %s=%s" % (c.get("name"), shape(c)))
    rec(tu.ast)
    return hashlib.sha256("\n".join(sorted(items)).encode()).hexdigest()[:16]

def collect(repo):
    base = ["-std=c99", "-I" + os.path.join(repo, "include"), "-I" + os.path.join(repo, "src"), "-msse2", "-mavx2"]
    facts = {"alloc": [], "cleanse": [], "globals": [], "asm": [], "guards": {}, "structs": {}, "cleanup_seq": {}, "shapes": {}, "text_shapes": {}}
    for fn in SRC:
        path = os.path.join(repo, "src", fn)
        if not os.path.exists(path):
            facts.setdefault("missing", []).append(fn); continue
        tu = TU(path, base)   # guard OFF: the shipped configuration
        for name, f in tu.funcs.items():
            b = body_of(f)
            if b is None: continue
            if name.startswith("skinny") or name.startswith("mantis") or name.startswith("_skinny") or name.startswith("_mantis"):
                hsh = hashlib.sha256(fshape(name, f).encode()).hexdigest()[:16]
                key = name + "@" + fn if "-vec" in fn else name      # the vector files carry their own static copies
                cur = facts["shapes"].get(key, "")
                if hsh not in cur.split("+"): facts["shapes"][key] = "+".join(sorted([x for x in cur.split("+") if x] + [hsh]))
            loc_file = f.get("loc", {}).get("file") or f.get("loc", {}).get("includedFrom", {}).get("file")
            def visit(n, fname=name):
                if n.get("kind") == "CallExpr":
                    cn = callee_name(n)
                    if cn in ("calloc", "skinny_calloc"):
                        args = n["inner"][1:]
                        sz = sizeof_arg(tu, args[1] if cn == "calloc" else args[0])
                        if fname != "skinny_calloc":
                            facts["alloc"].append({"file": fn, "func": fname, "via": cn, "size": sz})
                    if cn == "skinny_cleanse":
                        args = n["inner"][1:]
                        facts["cleanse"].append({"file": fn, "func": fname, "size": sizeof_arg(tu, args[1])})
                if n.get("kind") == "CallExpr" and fname.endswith("_cleanup"):
                    cn = callee_name(n)
                    if cn is not None:
                        names = []
                        def g(x, names=names):
                            if x.get("kind") == "DeclRefExpr": names.append(x["referencedDecl"]["name"])
                            if x.get("kind") == "MemberExpr": names.append("." + x.get("name", ""))
                        for a in n["inner"][1:2]: walk(a, g)
                        facts["cleanup_seq"].setdefault(fn + ":" + fname, []).append([cn, names])
                if n.get("kind") == "GCCAsmStmt":
                    facts["asm"].append({"file": fn, "func": fname})
                # every call `*_ctr_increment(counter, <column>, <increment>)` of the vector CTR files: the column must be a
                # literal; the increment is a literal or the context's `pending` field (rendered as -1)
                if n.get("kind") == "CallExpr" and (callee_name(n) or "").endswith("_ctr_increment"):
                    args = n["inner"][1:]
                    def lit(x):
                        while x.get("kind") in ("ImplicitCastExpr", "ParenExpr", "CStyleCastExpr") and x.get("inner"): x = x["inner"][0]
                        if x.get("kind") == "IntegerLiteral": return int(x["value"])
                        if x.get("kind") == "MemberExpr" and x.get("name") == "pending": return -1
                        return None
                    col, inc = (lit(args[1]), lit(args[2])) if len(args) == 3 else (None, None)
                    facts.setdefault("lane_incs", {}).setdefault(fn + ":" + fname, []).append([col if col is not None else 999, inc if inc is not None else -2])
            if not name.startswith("__") and (name.startswith("skinny") or name.startswith("mantis") or name.startswith("_skinny") or name.startswith("_mantis")):
                walk(b, visit)
                if f.get("storageClass") != "static" and not f.get("inline") and fn.replace(".c", "") in ("skinny128-cipher", "skinny64-cipher", "mantis-cipher", "skinny128-ctr", "skinny64-ctr", "mantis-ctr", "skinny128-parallel", "skinny64-parallel", "mantis-parallel"):
                    facts["guards"][name] = null_guard(f)
        # the same functions under the other preprocessor branches (shape hashes only): 32-bit words with
        # aligned access only; byte-order-neutral code without the vector back ends
        for suffix, xflags in (("#w32u0", ["-DRWEATHER_SKINNY_C_VERIF", "-DSKINNY_VERIF_64BIT=0", "-DSKINNY_VERIF_UNALIGNED=0"]),
                               ("#be", ["-DRWEATHER_SKINNY_C_VERIF", "-DSKINNY_VERIF_LITTLE_ENDIAN=0", "-DSKINNY_VERIF_VEC128_MATH=0", "-DSKINNY_VERIF_VEC256_MATH=0"])):
            try:
                tu2 = TU(path, base + xflags)
            except TranslateError:
                continue
            for name, f in tu2.funcs.items():
                if body_of(f) is None: continue
                if not (name.startswith("skinny") or name.startswith("mantis") or name.startswith("_skinny") or name.startswith("_mantis")): continue
                hsh = hashlib.sha256(fshape(name, f).encode()).hexdigest()[:16]
                key = (name + "@" + fn if "-vec" in fn else name) + suffix
                cur = facts["shapes"].get(key, "")
                if hsh not in cur.split("+"): facts["shapes"][key] = "+".join(sorted([x for x in cur.split("+") if x] + [hsh]))
        # static storage census: file-scope variables defined in this TU's main file
        for name, g in tu.globals.items():
            loc = g.get("loc", {})
            if "includedFrom" in loc or loc.get("file", path) != path and "file" in loc:
                pass
            q = g["type"]["qualType"]
            if g.get("storageClass") == "extern": continue
            rng = g.get("range", {}).get("begin", {})
            if "includedFrom" in rng: continue
            inc = loc.get("includedFrom") or rng.get("includedFrom")
            if inc: continue
            facts["globals"].append({"file": fn, "name": name, "type": q, "const": bool(re.search(r"\bconst\b", q))})
        # function-local statics
        for name, f in tu.funcs.items():
            b = body_of(f)
            if b is None: continue
            def vis2(n, fname=name):
                if n.get("kind") == "VarDecl" and n.get("storageClass") == "static":
                    q = n["type"]["qualType"]
                    facts["globals"].append({"file": fn, "name": fname + "::" + n["name"], "type": q, "const": bool(re.search(r"\bconst\b", q))})
            if name.startswith("skinny") or name.startswith("mantis") or name.startswith("_skinny"):
                walk(b, vis2)
    import glob
    for pat in ("arduino/libraries/Skinny/*.cpp", "arduino/libraries/Skinny/*.h", "arduino/libraries/Skinny/utility/*.h", "examples/*.c", "examples/*.h"):
        for pth in sorted(glob.glob(os.path.join(repo, pat))):
            facts["text_shapes"][os.path.relpath(pth, repo)] = ast_file_shape(pth, repo) if pth.endswith((".c", ".cpp")) else text_shape(pth)
    # de-duplicate globals coming from headers included in several TUs
    seen = set(); gl = []
    for g in facts["globals"]:
        key = (g["file"], g["name"])
        if key in seen: continue
        seen.add(key); gl.append(g)
    facts["globals"] = gl
    # asm operand lists from the preprocessed text of skinny-internal.c
    p = subprocess.run(["gcc", "-E", "-P", "-std=c99", "-msse2", "-mavx2", "-I" + os.path.join(repo, "include"), os.path.join(repo, "src", "skinny-internal.c")], capture_output=True, text=True)
    txt = p.stdout
    asms = []
    for m in re.finditer(r"int (_skinny_has_vec\d+)\(void\)\s*\{(.*?)\n\}", txt, re.S):
        fname, body = m.group(1), m.group(2)
        for a in re.finditer(r"__asm__\s*(?:__volatile__)?\s*\((.*?)\)\s*;", body, re.S):
            s = a.group(1)
            parts = s.split(":")
            tmpl = parts[0]
            outs = re.findall(r'"([^"]+)"\s*\(', parts[1]) if len(parts) > 1 else []
            ins = re.findall(r'"([^"]+)"\s*\(\s*([^)]*)\)', parts[2]) if len(parts) > 2 else []
            asms.append({"func": fname, "template": re.sub(r"\s+", " ", tmpl).strip(), "outputs": outs, "inputs": [[c, v.strip()] for c, v in ins]})
        # helper calls (after a fix the code may use __get_cpuid_max / xgetbv helpers)
    facts["asm_ops"] = asms
    facts["probe_text"] = {m.group(1): re.sub(r"\s+", " ", m.group(2)).strip() for m in re.finditer(r"int (_skinny_has_vec\d+)\(void\)\s*\{(.*?)\n\}", txt, re.S)}
    return facts

def sizes_line(facts):
    """the `sizes` protocol line: struct sizes per back end"""
    def find(file, via):
        for a in facts["alloc"]:
            if a["file"] == file: return a["size"]
        return 0
    order = ["skinny128-ctr.c", "skinny128-ctr-vec128.c", "skinny128-ctr-vec256.c", "skinny64-ctr.c", "skinny64-ctr-vec128.c",
             "mantis-ctr.c", "mantis-ctr-vec128.c", "skinny128-parallel.c", "skinny64-parallel.c", "mantis-parallel.c"]
    return "sizes " + " ".join(str(find(f, None)) for f in order)

CTX_ORDER = ["skinny128-ctr.c", "skinny128-ctr-vec128.c", "skinny128-ctr-vec256.c", "skinny64-ctr.c", "skinny64-ctr-vec128.c",
             "mantis-ctr.c", "mantis-ctr-vec128.c", "skinny128-parallel.c", "skinny64-parallel.c", "mantis-parallel.c"]

def ctx_table(facts):
    """per context type (fixed order): (bytes requested at init, bytes cleansed at cleanup, cleanup order ok)
    cleanup order ok: in the file's *_cleanup function that frees, the call sequence is skinny_cleanse(ctx...) then free(...)
    with nothing else in between and the cleansed pointer is the context variable"""
    rows = []
    for f in CTX_ORDER:
        al = [a["size"] or 0 for a in facts["alloc"] if a["file"] == f]
        cl = [c["size"] or 0 for c in facts["cleanse"] if c["file"] == f and c["func"].endswith("_cleanup")]
        seqs = [v for k, v in facts["cleanup_seq"].items() if k.startswith(f + ":") and any(c[0] == "free" for c in v)]
        ok = len(seqs) == 1 and len(al) == 1 and len(cl) == 1
        if ok:
            calls = [c for c in seqs[0]]
            names = [c[0] for c in calls]
            ok = names == ["skinny_cleanse", "free"] and ("ctx" in calls[0][1] or ".ctx" in calls[0][1])
        rows.append((al[0] if len(al) == 1 else 0, cl[0] if len(cl) == 1 else 0, ok))
    return rows

def cleanse_line(facts):
    return "cleanse " + " ".join(str(r[1]) if r[2] else "0" for r in ctx_table(facts))

def to_lean(facts):
    L = ["/- GENERATED by tools/facts.py from /repo -- do not edit -/", "namespace SkinnyVerif.Gen.Facts", ""]
    L.append("/-- (file, function, allocator, size argument) of every allocation request -/")
    L.append("def allocs : List (String × String × String × Nat) := [" + ", ".join('("%s", "%s", "%s", %d)' % (a["file"], a["func"], a["via"], a["size"] or 0) for a in facts["alloc"]) + "]")
    L.append("/-- (file, function, size argument) of every skinny_cleanse call -/")
    L.append("def cleanses : List (String × String × Nat) := [" + ", ".join('("%s", "%s", %d)' % (a["file"], a["func"], a["size"] or 0) for a in facts["cleanse"]) + "]")
    L.append("/-- every object with static storage duration defined by the library: (file, name, isConst) -/")
    L.append("def statics : List (String × String × Bool) := [" + ", ".join('("%s", "%s", %s)' % (g["file"], g["name"], "true" if g["const"] else "false") for g in facts["globals"]) + "]")
    L.append("/-- pointer parameters each public function tests before first use: (function, [params], [checked]) -/")
    L.append("def guards : List (String × List String × List String) := [" + ", ".join('("%s", [%s], [%s])' % (k, ", ".join('"%s"' % p for p in v["params"]), ", ".join('"%s"' % p for p in v["checked_before_use"])) for k, v in sorted(facts["guards"].items())) + "]")
    L.append("/-- inline-asm statements of the CPU probes: (function, template, outputs, inputs as (constraint, value)) -/")
    L.append("def asmOps : List (String × String × List String × List (String × String)) := [" + ", ".join('("%s", "%s", [%s], [%s])' % (a["func"], a["template"].replace('"', "'").replace("\\", "\\\\"), ", ".join('"%s"' % o for o in a["outputs"]), ", ".join('("%s", "%s")' % (c, v) for c, v in a["inputs"])) for a in facts["asm_ops"]) + "]")
    L.append("/-- per context type, in the order s128 generic/vec128/vec256, s64 generic/vec128, mantis generic/vec128, parallel s128/s64/mantis:")
    L.append("(bytes requested at init, bytes cleansed in cleanup, cleanup is exactly `skinny_cleanse(ctx, n); free(..)`) -/")
    L.append("def ctxTable : List (Nat × Nat × Bool) := [" + ", ".join("(%d, %d, %s)" % (a, c, "true" if o else "false") for a, c, o in ctx_table(facts)) + "]")
    L.append("/-- the lane-increment calls of the vector CTR files in source order: (file:function, [(column, increment)]); increment -1 is")
    L.append("the context's `pending` field, -2 / column 999 anything else -/")
    L.append("def laneIncs : List (String × List (Nat × Int)) := [" + ", ".join('("%s", [%s])' % (k, ", ".join("(%d, %d)" % (c, i) for c, i in v)) for k, v in sorted(facts.get("lane_incs", {}).items())) + "]")
    L.append("\nend SkinnyVerif.Gen.Facts\n")
    return "\n".join(L)

def main():
    repo = sys.argv[1] if len(sys.argv) > 1 else "/repo"
    facts = collect(repo)
    here = os.path.dirname(os.path.abspath(__file__))
    out = os.path.join(here, "..", "lean", "SkinnyVerif", "Gen", "Facts.lean")
    txt = to_lean(facts)
    old = open(out).read() if os.path.exists(out) else None
    if old != txt: open(out, "w").write(txt)
    if len(sys.argv) > 2:
        json.dump(facts, open(sys.argv[2], "w"), indent=1)
    print(sizes_line(facts))
    return 0

if __name__ == "__main__":
    sys.exit(main())
