#!/bin/sh
# seed_sweep.sh <suffix> [<prop>...] -- run from a /verif tree (or a `vp run --with-repo` snapshot of it): for every
# seeded change seeded/<prop>_<suffix>, apply it to the repository copy $VERIF_REPO (default /repo), run the quick check of
# that property (and the thorough one when the quick one is silent), undo the change.  One line per run on stdout,
# full logs under seedruns/.  With a snapshot, lean/.lake is copied from /verif first if it is missing.
sfx=$1; shift
here=$(cd "$(dirname "$0")/.." && pwd)
repo=${VERIF_REPO:-/repo}
cd $here
[ -d lean/.lake ] || { [ -d /verif/lean/.lake ] && cp -r /verif/lean/.lake lean/.lake; }
[ -x lean/.lake/build/bin/skinny_model ] || ./setup.sh > seedruns/setup.log 2>&1
mkdir -p seedruns
props=${*:-C01 C02 C03 C04 C05 C06 C07 C08 C09 C10 C11 C12 C13 C14 C15 C16 C17 C18 C19 C20}
for P in $props; do
  S=${P}_${sfx}
  [ -f seeded/$S/patch.diff ] || continue
  git -C $repo checkout -q -- . && git -C $repo apply $here/seeded/$S/patch.diff || { echo "$S cannot apply"; continue; }
  VERIF_SEED=1 ./check $P --tier quick > seedruns/$S.$P.quick.log 2>&1; rc=$?
  echo "$S $P quick rc=$rc $(grep -h '^VIOLATION\|^OK\|^KNOWN' seedruns/$S.$P.quick.log | head -2 | tr '\n' ' ')"
  if [ $rc -eq 0 ]; then
    VERIF_SEED=1 ./check $P --tier thorough > seedruns/$S.$P.thorough.log 2>&1; rc=$?
    echo "$S $P thorough rc=$rc $(grep -h '^VIOLATION\|^OK\|^KNOWN' seedruns/$S.$P.thorough.log | head -2 | tr '\n' ' ')"
  fi
  git -C $repo checkout -q -- .
done
# the unchanged tree once more at the end: every check must be quiet again
for P in $props; do
  VERIF_SEED=1 ./check $P --tier quick > seedruns/clean.$P.quick.log 2>&1; rc=$?
  echo "clean $P quick rc=$rc $(grep -h '^VIOLATION\|^OK\|^KNOWN' seedruns/clean.$P.quick.log | head -1)"
done
