#!/usr/bin/env python3
"""tools_drv.py -- black-box check of the three example command-line tools of skinny-c
(skinny-ctr, skinny-tweak, skinny-ecb; sources in /repo/examples) against the reference
line-protocol driver (harness/cdrv.c linked with libskinny.a).

    run_tools_check(bindir, refdrv, seed, n_random, workdir) -> dict
    tools_drv.py <bindir> <refdrv> <seed> <n_random> <workdir>      (prints the dict as JSON)

What the sources say (examples/options.c, options.h, skinny-*.c):

  <tool> [-b 64|128] -k <hexkey> [-c <hexcounter> | -t <hextweak>] [-d] <input> <output>

  * one getopt string "b:k:t:c:d" for all three tools: -c and -t are the same option (they fill
    the same buffer), -d is accepted everywhere (skinny-ctr ignores it), skinny-ecb parses and
    size-checks -c/-t but never uses the value;
  * -b takes exactly "64" or "128" (strcmp), default 128;
  * hex parser: upper/lower case digits, ' ' ':' '.' are skipped between bytes, a trailing odd
    nibble is dropped, at most 48 key bytes / 16 counter-or-tweak bytes, zero bytes = error;
  * key length: block size .. 3 * block size for skinny-ctr and skinny-ecb, block size ..
    2 * block size for skinny-tweak (bytes);
  * counter / tweak: 1 .. block size bytes; omitted = block-size zero bytes;
  * every parse/validation error and every fopen failure: exit status 1, and the output file is
    not created (input is opened before output); success: exit status 0;
  * I/O in 1024-byte chunks; skinny-ctr writes as many bytes as it read, skinny-tweak and
    skinny-ecb drop a trailing partial block (1024 is a multiple of both block sizes, so only the
    last chunk can have one);
  * skinny-ctr: skinny{64,128}_ctr_set_key + set_counter(counter, len) + ctr_encrypt;
  * skinny-ecb: skinny{64,128}_parallel_ecb_* ; reference here is the scalar key schedule
    (s*.set_key / s*.enc / s*.dec), i.e. an independent code path;
  * skinny-tweak: set_tweaked_key(key) ; set_tweak(tweak, n) ; then for each whole block:
    ECB encrypt (or decrypt with -d) under the current tweak, then the n-byte tweak (n = number
    of bytes given on the command line, or the block size if omitted) is incremented by one as a
    big-endian n-byte integer (wrapping mod 256^n) and set again with set_tweak(tweak, n).

Python 3, standard library only.
"""
import hashlib
import json
import os
import subprocess
import sys
import time

M64 = (1 << 64) - 1
TOOLS = ("skinny-ctr", "skinny-tweak", "skinny-ecb")
TOOL_TIMEOUT = 20
REF_TIMEOUT = 300
MAX_FAILURES = 50


# ------------------------------------------------------------------ PRNG
class SplitMix64:
    def __init__(self, seed):
        self.s = seed & M64

    def next(self):
        self.s = (self.s + 0x9E3779B97F4A7C15) & M64
        z = self.s
        z = ((z ^ (z >> 30)) * 0xBF58476D1CE4E5B9) & M64
        z = ((z ^ (z >> 27)) * 0x94D049BB133111EB) & M64
        return z ^ (z >> 31)

    def below(self, n):
        return self.next() % n if n > 0 else 0

    def between(self, lo, hi):
        """inclusive"""
        return lo + self.below(hi - lo + 1)

    def choice(self, xs):
        return xs[self.below(len(xs))]

    def bytes(self, n):
        out = bytearray()
        while len(out) < n:
            out += self.next().to_bytes(8, "little")
        return bytes(out[:n])

    def shuffle(self, xs):
        xs = list(xs)
        for i in range(len(xs) - 1, 0, -1):
            j = self.below(i + 1)
            xs[i], xs[j] = xs[j], xs[i]
        return xs


def seed_to_int(seed):
    if isinstance(seed, int):
        return seed & M64
    try:
        return int(str(seed), 0) & M64
    except ValueError:
        return int.from_bytes(hashlib.sha256(str(seed).encode()).digest()[:8], "big")


# ------------------------------------------------------------------ tool properties
def max_key(tool, bs):
    return 2 * bs if tool == "skinny-tweak" else 3 * bs


def has_counter(tool):
    return tool != "skinny-ecb"


def has_direction(tool):
    return tool != "skinny-ctr"


def counter_letter(tool):
    return "-t" if tool == "skinny-tweak" else "-c"


def fam(bs):
    return "128" if bs == 16 else "64"


def inc_be(b):
    """big-endian increment of a byte string, wrapping (increment_tweak in skinny-tweak.c)"""
    n = len(b)
    if n == 0:
        return b
    return ((int.from_bytes(b, "big") + 1) % (1 << (8 * n))).to_bytes(n, "big")


def fmt_hex(b, style):
    h = b.hex()
    if style == "upper":
        return h.upper()
    if style == "colon":
        return ":".join(h[i:i + 2] for i in range(0, len(h), 2))
    if style == "space":
        return " ".join(h[i:i + 2] for i in range(0, len(h), 2))
    if style == "dot4":
        return ".".join(h[i:i + 8] for i in range(0, len(h), 8)).upper()
    if style == "oddtail":
        return h + "7"          # trailing odd nibble is dropped by parse_hex
    return h


# ------------------------------------------------------------------ case construction
class Case:
    __slots__ = ("idx", "tool", "bs", "key", "ctr", "decrypt", "data", "lclass", "opts", "ref",
                 "expected", "note")

    def whole(self):
        if self.tool == "skinny-ctr":
            return len(self.data)
        return len(self.data) - len(self.data) % self.bs


def build_opts(rng, tool, bs, key, ctr, decrypt, plain=False, extra=None):
    """option part of argv (no file names); syntax variants are drawn from rng"""
    groups = []
    if bs == 8:
        groups.append(["-b64"] if plain or rng.below(2) else ["-b", "64"])
    else:
        v = 0 if plain else rng.below(4)
        if v == 1:
            groups.append(["-b128"])
        elif v == 2:
            groups.append(["-b", "128"])
    kstyle = "lower" if plain else rng.choice(["lower"] * 6 + ["upper", "colon", "space", "dot4", "oddtail"])
    if not plain and rng.below(8) == 0:
        groups.append(["-k" + fmt_hex(key, kstyle)])
    else:
        groups.append(["-k", fmt_hex(key, kstyle)])
    if ctr is not None:
        cstyle = "lower" if plain else rng.choice(["lower"] * 4 + ["upper", "colon"])
        groups.append([counter_letter(tool), fmt_hex(ctr, cstyle)])
    if decrypt:
        groups.append(["-d"])
    if extra:
        groups.extend(extra)
    if not plain:
        groups = rng.shuffle(groups)
    out = []
    for g in groups:
        out.extend(g)
    return out


def gen_counter(rng, tool, bs, how):
    """how: 'none' | int length | 'ff' (all-ones of random length) | 'carry'"""
    if not has_counter(tool) or how == "none":
        return None
    if how == "ff":
        return b"\xff" * rng.between(1, bs)
    if how == "carry":
        n = rng.between(2, bs)
        return rng.bytes(n - 2) + bytes([rng.below(256)]) + b"\xff" if n > 2 else bytes([rng.below(256)]) + b"\xff"
    return rng.bytes(how)


def gen_valid_cases(rng, n_random):
    cases = []

    def add(tool, bs, klen, ctr, decrypt, dlen, lclass, plain=False, extra=None, note=None):
        c = Case()
        c.idx = len(cases)
        c.tool, c.bs, c.decrypt, c.lclass, c.note = tool, bs, bool(decrypt), lclass, note
        c.key = rng.bytes(klen)
        c.ctr = ctr
        c.data = rng.bytes(dlen)
        c.opts = build_opts(rng, tool, bs, c.key, ctr, decrypt, plain=plain, extra=extra)
        c.ref = None
        c.expected = None
        cases.append(c)
        return c

    for tool in TOOLS:
        for bs in (8, 16):
            klens = list(range(bs, max_key(tool, bs) + 1))
            dirs = (False, True) if has_direction(tool) else (False,)
            chows = ["none", 1, bs // 2, bs - 1, bs, "ff", "carry", 3]

            # ---- length sweep (both directions where the tool has one)
            lengths = [("0", 0), ("1", 1), ("bs-1", bs - 1), ("bs", bs), ("bs+1", bs + 1),
                       ("1023", 1023), ("1024", 1024), ("1025", 1025),
                       ("2048+k", 2048 + rng.between(1, 2 * bs - 1)), ("2048+k", 2048 + bs * rng.between(1, 9))]
            for _ in range(max(0, int(n_random))):
                lengths.append(("random", rng.below(5001)))
            for i, (lc, ln) in enumerate(lengths):
                for d in dirs:
                    how = chows[rng.below(len(chows))] if i >= len(chows) else chows[i]
                    add(tool, bs, rng.choice(klens), gen_counter(rng, tool, bs, how), d, ln, lc)

            # ---- every legal key length
            for j, kl in enumerate(klens):
                d = has_direction(tool) and (j + rng.below(2)) % 2 == 1
                how = rng.choice(chows)
                add(tool, bs, kl, gen_counter(rng, tool, bs, how), d, rng.between(1, 6 * bs + 3), "keysweep")

            # ---- every counter / tweak length, incl. omitted, plus carry / wrap-around shapes
            if has_counter(tool):
                for n in [None] + list(range(1, bs + 1)):
                    d = has_direction(tool) and rng.below(2) == 1
                    ctr = None if n is None else rng.bytes(n)
                    add(tool, bs, rng.choice(klens), ctr, d, rng.between(2 * bs, 40 * bs + 5), "ctrsweep")
                # 1-byte tweak/counter wrapping after 256 blocks; all-ones; low bytes ff
                add(tool, bs, rng.choice(klens), bytes([rng.between(200, 255)]), False, 300 * bs + rng.below(bs), "ctrwrap")
                add(tool, bs, rng.choice(klens), b"\xff" * bs, has_direction(tool), 5 * bs + 1, "ctrwrap")
                add(tool, bs, rng.choice(klens), b"\xff" * (bs - 1), False, 3 * bs, "ctrwrap")
                add(tool, bs, rng.choice(klens), rng.bytes(bs - 3) + b"\xff\xff\xfe", False, 4 * bs + 2, "ctrwrap")
                add(tool, bs, rng.choice(klens), b"\x00" * bs, False, 3 * bs, "ctrwrap", note="explicit zero = default")

            # ---- option syntax variants whose effect is documented in the header of this file
            if tool == "skinny-ctr":
                add(tool, bs, bs, rng.bytes(bs), False, 2 * bs + 3, "variant", extra=[["-d"]], note="-d ignored by skinny-ctr")
            if tool == "skinny-ecb":
                add(tool, bs, 2 * bs, None, False, 2 * bs + 3, "variant", extra=[["-c", rng.bytes(bs).hex()]],
                    note="-c parsed but unused by skinny-ecb")
            # plainest possible invocation (README example shape)
            add(tool, bs, bs, None, False, 2 * bs, "variant", plain=True, note="plain")
    return cases


# ------------------------------------------------------------------ reference batch
class RefBatch:
    def __init__(self):
        self.lines = []
        self.expect = []       # 'ok' | 'ret1' | 'hex' | 'ctrout'
        self.results = None

    def add(self, line, expect):
        self.lines.append(line)
        self.expect.append(expect)
        return len(self.lines) - 1

    def run(self, refdrv):
        script = "\n".join(self.lines) + "\n"
        p = subprocess.run([refdrv], input=script.encode(), stdout=subprocess.PIPE, stderr=subprocess.PIPE,
                           timeout=REF_TIMEOUT)
        out = p.stdout.decode("ascii", "replace").split("\n")
        if out and out[-1] == "":
            out.pop()
        self.results = out
        if p.returncode != 0:
            return "reference driver exited with status %d: %s" % (p.returncode, p.stderr.decode("utf-8", "replace")[-300:])
        if len(out) != len(self.lines):
            return "reference driver printed %d lines for %d operations" % (len(out), len(self.lines))
        return None

    def value(self, i):
        """returns (bytes or None, errstring or None)"""
        r, e = self.results[i], self.expect[i]
        if e == "ok":
            return (None, None) if r == "ok" else (None, "reference: %r -> %r" % (self.lines[i][:80], r))
        if e == "ret1":
            return (None, None) if r == "ret=1" else (None, "reference: %r -> %r" % (self.lines[i][:80], r))
        if e == "ctrout":
            if not r.startswith("ret=1 out="):
                return None, "reference: %r -> %r" % (self.lines[i][:80], r[:80])
            r = r[len("ret=1 out="):]
        try:
            return bytes.fromhex(r), None
        except ValueError:
            return None, "reference: %r -> %r" % (self.lines[i][:80], r[:80])


def plan_reference(batch, c):
    """append the operations that compute the expected output of case c; remember line indices"""
    f = fam(c.bs)
    bs = c.bs
    idx = []
    if c.tool == "skinny-ctr":
        ctr = c.ctr if c.ctr is not None else b"\x00" * bs       # documented default: all-zeroes
        idx.append(batch.add("h.new c zero", "ok"))
        idx.append(batch.add("ctr%s.init c" % f, "ret1"))
        idx.append(batch.add("ctr%s.set_key c %s %d" % (f, c.key.hex(), len(c.key)), "ret1"))
        idx.append(batch.add("ctr%s.set_counter c %s %d" % (f, ctr.hex(), len(ctr)), "ret1"))
        if c.data:
            idx.append(batch.add("ctr%s.encrypt c %s" % (f, c.data.hex()), "ctrout"))
        idx.append(batch.add("ctr%s.cleanup c" % f, "ok"))
    elif c.tool == "skinny-ecb":
        op = "dec" if c.decrypt else "enc"
        idx.append(batch.add("s%s.key.new k" % f, "ok"))
        idx.append(batch.add("s%s.set_key k %s %d" % (f, c.key.hex(), len(c.key)), "ret1"))
        for o in range(0, c.whole(), bs):
            idx.append(batch.add("s%s.%s k %s" % (f, op, c.data[o:o + bs].hex()), "hex"))
    else:
        op = "tdec" if c.decrypt else "tenc"
        tw = c.ctr if c.ctr is not None else b"\x00" * bs
        idx.append(batch.add("s%s.tkey.new t" % f, "ok"))
        idx.append(batch.add("s%s.set_tweaked_key t %s %d" % (f, c.key.hex(), len(c.key)), "ret1"))
        for o in range(0, c.whole(), bs):
            idx.append(batch.add("s%s.set_tweak t %s %d" % (f, tw.hex(), len(tw)), "ret1"))
            idx.append(batch.add("s%s.%s t %s" % (f, op, c.data[o:o + bs].hex()), "hex"))
            tw = inc_be(tw)
    c.ref = idx


def collect_reference(batch, c):
    """-> (expected bytes, error string)"""
    out = bytearray()
    for i in c.ref:
        v, err = batch.value(i)
        if err:
            return None, err
        if v is not None:
            out += v
    return bytes(out), None


# ------------------------------------------------------------------ running the tools
def run_tool(argv):
    """-> (returncode or None on timeout, stderr text)"""
    try:
        p = subprocess.run(argv, stdin=subprocess.DEVNULL, stdout=subprocess.PIPE, stderr=subprocess.PIPE,
                           timeout=TOOL_TIMEOUT)
    except subprocess.TimeoutExpired:
        return None, "timeout after %ds" % TOOL_TIMEOUT
    except OSError as e:
        return -999, "cannot execute: %s" % e
    return p.returncode, p.stderr.decode("utf-8", "replace")[-300:]


def first_diff(a, b):
    n = min(len(a), len(b))
    for i in range(n):
        if a[i] != b[i]:
            return i
    return n if len(a) != len(b) else -1


def trunc_hex(b, n=200):
    return b[:n].hex()


def read_file(path):
    try:
        with open(path, "rb") as f:
            return f.read()
    except OSError:
        return None


def rm(path):
    try:
        os.unlink(path)
    except OSError:
        pass


def flip_opts(c):
    """options for the inverse run"""
    if not has_direction(c.tool):
        return list(c.opts)
    if c.decrypt:
        return [o for o in c.opts if o != "-d"]
    return ["-d"] + list(c.opts)


def run_tools_check(bindir, refdrv, seed, n_random, workdir):
    t0 = time.time()
    rng = SplitMix64(seed_to_int(seed))
    n_random = int(n_random)
    failures = []
    n_fail = [0]
    by_tool = {t: {"valid": 0, "invalid": 0, "failures": 0} for t in TOOLS}
    length_classes = {}
    samples = []
    res = {"ok": False, "cases": 0, "distinct_nontrivial": 0, "invalid_cases": 0, "failures": failures,
           "by_tool": by_tool, "length_classes": length_classes, "samples": samples,
           "seed": seed_to_int(seed), "n_random": n_random}

    def fail(tool, argv, what, **kw):
        n_fail[0] += 1
        if tool in by_tool:
            by_tool[tool]["failures"] += 1
        if len(failures) < MAX_FAILURES:
            d = {"tool": tool, "argv": argv, "what": what}
            d.update(kw)
            failures.append(d)

    def finish():
        res["n_failures"] = n_fail[0]
        res["ok"] = (n_fail[0] == 0 and res["cases"] > 0 and res["invalid_cases"] > 0)
        res["seconds"] = round(time.time() - t0, 2)
        return res

    # ---- preconditions
    os.makedirs(workdir, exist_ok=True)
    workdir = os.path.abspath(workdir)
    exe = {}
    for t in TOOLS:
        exe[t] = os.path.join(os.path.abspath(bindir), t)
        if not (os.path.isfile(exe[t]) and os.access(exe[t], os.X_OK)):
            fail(t, [exe[t]], "tool binary missing or not executable")
    if not (os.path.isfile(refdrv) and os.access(refdrv, os.X_OK)):
        fail("refdrv", [refdrv], "reference driver missing or not executable")
    if n_fail[0]:
        return finish()
    refdrv = os.path.abspath(refdrv)

    # ---- valid cases: plan, reference batch
    cases = gen_valid_cases(rng, n_random)
    batch = RefBatch()
    for c in cases:
        plan_reference(batch, c)
    res["ref_ops"] = len(batch.lines)
    try:
        err = batch.run(refdrv)
    except subprocess.TimeoutExpired:
        err = "reference driver timed out"
    if err:
        fail("refdrv", [refdrv], err)
        return finish()
    res["ref_seconds"] = round(time.time() - t0, 2)

    distinct = set()
    for c in cases:
        tool = c.tool
        by_tool[tool]["valid"] += 1
        length_classes[c.lclass] = length_classes.get(c.lclass, 0) + 1
        res["cases"] += 1
        inp = os.path.join(workdir, "c%05d.in" % c.idx)
        outp = os.path.join(workdir, "c%05d.out" % c.idx)
        rtp = os.path.join(workdir, "c%05d.rt" % c.idx)
        for p in (outp, rtp):
            rm(p)
        with open(inp, "wb") as f:
            f.write(c.data)
        argv = [exe[tool]] + c.opts + [inp, outp]
        if c.idx % 97 == 3 and len(samples) < 3:
            samples.append(argv)
        info = {"case": c.idx, "block_size": c.bs * 8, "key": c.key.hex(), "key_len": len(c.key),
                "counter_or_tweak": None if c.ctr is None else c.ctr.hex(), "decrypt": c.decrypt,
                "length_class": c.lclass, "input_len": len(c.data), "input_hex": trunc_hex(c.data)}
        if c.note:
            info["note"] = c.note
        if len(c.data) > 200:
            info["input_truncated"] = True
        if c.data:
            distinct.add((tool, c.bs, c.key, c.ctr, c.decrypt, hashlib.sha256(c.data).digest()))
        bad = False

        expected, err = collect_reference(batch, c)
        if err:
            fail(tool, argv, err, **info)
            continue
        if len(expected) != c.whole():
            fail(tool, argv, "reference produced %d bytes, planned %d" % (len(expected), c.whole()), **info)
            continue

        rc, se = run_tool(argv)
        if rc != 0:
            fail(tool, argv, "exit status %s, expected 0" % ("timeout" if rc is None else rc), stderr=se, **info)
            continue
        actual = read_file(outp)
        if actual is None:
            fail(tool, argv, "output file not created", **info)
            continue
        if len(actual) != len(expected):
            fail(tool, argv, "output length %d, expected %d" % (len(actual), len(expected)),
                 expected_len=len(expected), actual_len=len(actual), first_diff_offset=first_diff(expected, actual), **info)
            bad = True
        elif actual != expected:
            o = first_diff(expected, actual)
            fail(tool, argv, "output differs from reference at offset %d" % o, first_diff_offset=o,
                 expected_len=len(expected), actual_len=len(actual),
                 expected_at=expected[o:o + 16].hex(), actual_at=actual[o:o + 16].hex(), **info)
            bad = True
        # (no "output equals input" heuristic: for a short file that happens with probability 256^-n on a correct
        #  tool; the comparison with the reference above already decides)

        # ---- round trip on the tool's own output
        argv2 = [exe[tool]] + flip_opts(c) + [outp, rtp]
        rc, se = run_tool(argv2)
        want = c.data[:c.whole()]
        if rc != 0:
            fail(tool, argv2, "round trip: exit status %s, expected 0" % ("timeout" if rc is None else rc), stderr=se,
                 first_argv=argv, **info)
            bad = True
        else:
            back = read_file(rtp)
            if back is None:
                fail(tool, argv2, "round trip: output file not created", first_argv=argv, **info)
                bad = True
            elif back != want:
                o = first_diff(want, back)
                fail(tool, argv2, "round trip does not restore the original whole blocks (offset %d)" % o,
                     first_argv=argv, first_diff_offset=o, expected_len=c.whole(), actual_len=len(back),
                     expected_at=want[o:o + 16].hex() if o >= 0 else "", actual_at=back[o:o + 16].hex() if o >= 0 else "", **info)
                bad = True
        if not bad:
            for p in (inp, outp, rtp):
                rm(p)
    res["distinct_nontrivial"] = len(distinct)

    # ---- invalid invocations
    inv_classes = {}
    res["invalid_classes"] = inv_classes
    ginp = os.path.join(workdir, "inv.in")
    gdata = rng.bytes(100)
    with open(ginp, "wb") as f:
        f.write(gdata)
    inv_idx = [0]

    def invalid(tool, klass, opts, files="both", in_path=None, out_path=None):
        """files: 'both' | 'one' | 'none' ; the option list is used verbatim"""
        inv_idx[0] += 1
        res["invalid_cases"] += 1
        by_tool[tool]["invalid"] += 1
        inv_classes[klass] = inv_classes.get(klass, 0) + 1
        outp = out_path or os.path.join(workdir, "i%05d.out" % inv_idx[0])
        inp = in_path or ginp
        rm(outp)
        tail = [inp, outp] if files == "both" else [inp] if files == "one" else []
        if files == "tail_first":
            argv = [exe[tool], inp, outp] + opts
        else:
            argv = [exe[tool]] + opts + tail
        before = set(os.listdir(workdir))
        rc, se = run_tool(argv)
        info = {"invalid_class": klass, "input_hex": trunc_hex(gdata), "input_len": len(gdata), "stderr": se}
        if rc is None:
            fail(tool, argv, "invalid invocation: timeout", **info)
        elif rc == 0:
            fail(tool, argv, "invalid invocation accepted (exit status 0)", **info)
        elif rc < 0:
            fail(tool, argv, "invalid invocation: killed by signal %d" % -rc, **info)
        if os.path.lexists(outp):
            fail(tool, argv, "invalid invocation created the output file", **info)
            rm(outp)
        new = set(os.listdir(workdir)) - before
        if new - {os.path.basename(outp)}:
            fail(tool, argv, "invalid invocation created files: %s" % sorted(new), **info)
        if in_path is None and read_file(ginp) != gdata:
            fail(tool, argv, "invalid invocation modified its input file", **info)
            with open(ginp, "wb") as f:
                f.write(gdata)

    for tool in TOOLS:
        invalid(tool, "no_arguments", [], files="none")
        for bs in (8, 16):
            b = ["-b64"] if bs == 8 else []
            mk = max_key(tool, bs)
            good = ["-k", rng.bytes(bs).hex()]
            cl = counter_letter(tool)
            # key
            invalid(tool, "missing_key", b)
            invalid(tool, "missing_key", b + ([cl, rng.bytes(bs).hex()] if has_counter(tool) else ["-d"]))
            invalid(tool, "key_too_short", b + ["-k", rng.bytes(bs - 1).hex()])
            invalid(tool, "key_too_short", b + ["-k", rng.bytes(1).hex()])
            invalid(tool, "key_too_short", b + ["-k", rng.bytes(bs // 2).hex()])
            invalid(tool, "key_too_short", b + ["-k", rng.bytes(bs).hex()[:-1]])        # odd nibble dropped -> bs-1 bytes
            invalid(tool, "key_too_long", b + ["-k", rng.bytes(mk + 1).hex()])
            if mk + 8 <= 48:
                invalid(tool, "key_too_long", b + ["-k", rng.bytes(mk + 8).hex()])
            if mk < 48:
                invalid(tool, "key_too_long", b + ["-k", rng.bytes(48).hex()])
            invalid(tool, "key_over_buffer", b + ["-k", rng.bytes(49).hex()])
            invalid(tool, "key_over_buffer", b + ["-k", rng.bytes(64).hex()])
            invalid(tool, "key_over_buffer", b + ["-k", rng.bytes(300).hex()])
            invalid(tool, "key_non_hex", b + ["-k", "zz" * bs])
            h = rng.bytes(bs).hex()
            invalid(tool, "key_non_hex", b + ["-k", h[:7] + "g" + h[8:]])
            invalid(tool, "key_non_hex", b + ["-k", "0x" + h])
            invalid(tool, "key_non_hex", b + ["-k", h + "\n"])
            invalid(tool, "key_non_hex", b + ["-k", h[:6] + "-" + h[6:]])
            invalid(tool, "key_empty", b + ["-k", ""])
            invalid(tool, "key_empty", b + ["-k", ": ."])
            invalid(tool, "key_empty", b + ["-k", "a"])            # single nibble -> zero bytes
            # counter / tweak (same parser and size check in all three tools, -c and -t are synonyms)
            for letter in ("-c", "-t"):
                invalid(tool, "counter_too_long", b + good + [letter, rng.bytes(bs + 1).hex()])
                invalid(tool, "counter_too_long", b + good + [letter, rng.bytes(17).hex()])
                invalid(tool, "counter_too_long", b + good + [letter, rng.bytes(32).hex()])
                if bs == 8:
                    invalid(tool, "counter_too_long", b + good + [letter, rng.bytes(16).hex()])
                    invalid(tool, "counter_too_long", [letter, rng.bytes(12).hex()] + good + ["-b", "64"])
                invalid(tool, "counter_non_hex", b + good + [letter, "xyz"])
                invalid(tool, "counter_non_hex", b + good + [letter, rng.bytes(bs - 1).hex() + "q0"])
                invalid(tool, "counter_empty", b + good + [letter, ""])
            # options
            for o in ("-x", "-e", "-K", "-B", "--help", "-h", "-?"):
                invalid(tool, "unknown_option", b + good + [o])
            invalid(tool, "unknown_option", ["-z"] + b + good)
            invalid(tool, "unknown_option", b + good + ["-dx"])
            invalid(tool, "option_missing_argument", b + ["-k"], files="tail_first")
            invalid(tool, "option_missing_argument", good + ["-b"], files="tail_first")
            invalid(tool, "option_missing_argument", b + good + ["-c"], files="tail_first")
            invalid(tool, "option_missing_argument", b + good + ["-t"], files="none")
            # file arguments
            invalid(tool, "missing_file_arguments", b + good, files="none")
            invalid(tool, "missing_file_arguments", b + good, files="one")
            invalid(tool, "missing_file_arguments", b + good + ["-d"], files="one")
            invalid(tool, "missing_file_arguments", b + good + ["--"], files="one")
            # block size
            if bs == 16:
                for v in ("32", "256", "0", "", "abc", "64 ", " 128", "064", "-64", "8", "16", "64bit", "128.0", "6 4"):
                    k = rng.bytes(16).hex()
                    invalid(tool, "wrong_block_size", ["-b", v, "-k", k])
                    invalid(tool, "wrong_block_size", ["-k", k[:16], "-b", v])
                invalid(tool, "wrong_block_size", ["-k", rng.bytes(16).hex(), "-b128", "-b", "12"])
            # key legal for one block size / tool only
            if bs == 16:
                invalid(tool, "key_wrong_for_block_size", ["-k", rng.bytes(8).hex()])
                invalid(tool, "key_wrong_for_block_size", ["-b", "128", "-k", rng.bytes(15).hex()])
                invalid(tool, "key_wrong_for_block_size", ["-b64", "-b128", "-k", rng.bytes(12).hex()])
            else:
                invalid(tool, "key_wrong_for_block_size", ["-b64", "-k", rng.bytes(mk + 1 + rng.below(48 - mk)).hex()])
                invalid(tool, "key_wrong_for_block_size", ["-k", rng.bytes(32).hex(), "-b", "64"])
            if tool == "skinny-tweak":
                invalid(tool, "key_wrong_for_tool", b + ["-k", rng.bytes(3 * bs).hex()])
                invalid(tool, "key_wrong_for_tool", b + ["-k", rng.bytes(2 * bs + 1).hex()])
            # files that cannot be opened (tool main, exit status 1, input is opened first)
            nonexist = os.path.join(workdir, "does-not-exist.in")
            rm(nonexist)
            invalid(tool, "input_file_missing", b + good, in_path=nonexist)
            invalid(tool, "output_dir_missing", b + good, out_path=os.path.join(workdir, "no-such-dir", "x.out"))
    rm(ginp)
    return finish()


def main(argv):
    if len(argv) != 6:
        sys.stderr.write("usage: tools_drv.py <bindir> <refdrv> <seed> <n_random> <workdir>\n")
        return 2
    res = run_tools_check(argv[1], argv[2], argv[3], int(argv[4]), argv[5])
    print(json.dumps(res, indent=1, sort_keys=True))
    return 0 if res["ok"] else 1


if __name__ == "__main__":
    sys.exit(main(sys.argv))
