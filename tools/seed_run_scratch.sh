#!/bin/sh
# seed_run_scratch.sh <seed-name> <prop>... -- like seed_run.sh but on a scratch copy of /repo (VERIF_REPO), so that
# background runs that read /repo itself are not disturbed
S=$1; shift
R=$(mktemp -d /tmp/seedrepo.XXXXXX)
cp -r /repo/. $R/ && git -C $R checkout -q -- . && git -C $R apply /verif/seeded/$S/patch.diff || { echo "cannot apply $S"; rm -rf $R; exit 2; }
mkdir -p /verif/seedruns
for P in "$@"; do
  ( cd /verif && VERIF_REPO=$R VERIF_SEED=1 ./check $P --tier quick > seedruns/$S.$P.quick.log 2>&1 ); rc=$?
  echo "$S $P quick rc=$rc $(grep -h '^VIOLATION\|^OK\|^KNOWN' /verif/seedruns/$S.$P.quick.log | head -2 | tr '\n' ' ')"
done
rm -rf $R
