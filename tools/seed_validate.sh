#!/bin/sh
# seed_validate.sh <id> [<name>] -- confirm a seeded change delivered by a sub-agent in /tmp/wt_<id>, /tmp/seed_<id>:
#   patch applies to a clean checkout, library builds, the 30-test suite passes, the demonstration
#   prints PROPERTY HOLDS on the clean tree and PROPERTY VIOLATED on the changed one.
# On success the change is kept as /verif/seeded/<name>/ (patch.diff, demo, run_demo.sh, meta.json).
id=$1; name=${2:-$1}
wt=/tmp/wt_$id; out=/tmp/seed_$id
set -e
cd $wt
git checkout -q -- . ; git clean -fdxq
git apply --check $out/patch.diff
# clean tree
sh $out/run_demo.sh $wt > $out/demo_clean.log 2>&1 || true
grep -q "^PROPERTY HOLDS" $out/demo_clean.log && ! grep -q "^PROPERTY VIOLATED" $out/demo_clean.log || { echo "FAIL: demo does not hold on clean tree"; tail -3 $out/demo_clean.log; exit 1; }
git apply $out/patch.diff
make -s clean >/dev/null 2>&1 || true
make -s > $out/build.log 2>&1 || { echo "FAIL: build"; tail $out/build.log; exit 1; }
make -s check > $out/suite.log 2>&1 || { echo "FAIL: suite"; tail $out/suite.log; exit 1; }
npass=$(grep -c "ok$" $out/suite.log || true)
nfail=$(grep -ci "fail" $out/suite.log || true)
echo "suite: $npass ok, $nfail fail"
[ "$nfail" = "0" ] || { echo "FAIL: suite has failures"; exit 1; }
git clean -fdxq
sh $out/run_demo.sh $wt > $out/demo_patched.log 2>&1 || true
grep -q "^PROPERTY VIOLATED" $out/demo_patched.log && ! grep -q "^PROPERTY HOLDS" $out/demo_patched.log || { echo "FAIL: demo not violated on patched tree"; tail -3 $out/demo_patched.log; exit 1; }
git clean -fdxq
mkdir -p /verif/seeded/$name
cp $out/patch.diff $out/run_demo.sh $out/meta.json /verif/seeded/$name/
for f in demo.c demo.cpp demo.sh; do [ -f $out/$f ] && cp $out/$f /verif/seeded/$name/; done
tail -15 $out/demo_patched.log > /verif/seeded/$name/demonstration.txt
echo "CONFIRMED $name ($npass tests ok)"
