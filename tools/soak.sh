#!/bin/sh
# soak.sh <tier> <seeds...> -- every check on the unchanged tree at several seeds (false-alarm soak); one line per run
tier=$1; shift
here=$(cd "$(dirname "$0")/.." && pwd); cd $here
[ -d lean/.lake ] || { [ -d /verif/lean/.lake ] && cp -r /verif/lean/.lake lean/.lake; }
mkdir -p seedruns
for sd in "$@"; do
  for i in 01 02 03 04 05 06 07 08 09 10 11 12 13 14 15 16 17 18 19 20; do
    VERIF_SEED=$sd ./check C$i --tier $tier > seedruns/soak.$tier.$sd.C$i.log 2>&1; rc=$?
    echo "soak seed=$sd C$i $tier rc=$rc $(grep -h '^VIOLATION\|^OK\|^KNOWN' seedruns/soak.$tier.$sd.C$i.log | head -2 | tr '\n' ' ' | cut -c1-200)"
  done
done
