#!/usr/bin/env python3
"""Operation-script generators for the correspondence harness and the falsifier searches.
Every random choice comes from one splitmix64 state (vlib.Rng) seeded with VERIF_SEED, so a
script is reproducible from (seed, generator name, index); scripts are also stored verbatim
in replay files."""
from vlib import Rng

FAM = {"s128": (16, [16, 32, 48], [16, 32]), "s64": (8, [8, 16, 24], [8, 16])}

def hx(b): return b.hex() if len(b) else "-"

class Stats:
    def __init__(self): self.ops = {}; self.classes = {}
    def op(self, k): self.ops[k] = self.ops.get(k, 0) + 1
    def cls(self, k): self.classes[k] = self.classes.get(k, 0) + 1

def directed_blocks(bs):
    """all-zero, all-one, single bits, every byte value in every position (covers every S-box input in every lane)"""
    out = [bytes(bs), bytes([0xff]) * bs]
    for i in range(8 * bs):
        b = bytearray(bs); b[i // 8] = 1 << (i % 8); out.append(bytes(b))
    for v in range(256):
        out.append(bytes([(v + 17 * j) & 0xff for j in range(bs)]))
    return out

# ------------------------------------------------------------------ C01 / C03 / C10: single block, key sizes
def gen_block(rng, fam, n_random, key_sizes=None, directed=True, stats=None):
    bs, prim, _ = FAM[fam]
    key_sizes = key_sizes or prim
    scripts = []
    for ks in key_sizes:
        L = ["%s.key.new k" % fam]
        keys = [bytes(ks), bytes([0xff]) * ks] if directed else []
        if directed:
            for i in range(0, 8 * ks, 7):
                b = bytearray(ks); b[i // 8] = 1 << (i % 8); keys.append(bytes(b))
        keys += [rng.bytes(ks) for _ in range(n_random)]
        blocks = directed_blocks(bs) if directed else []
        bi = 0
        for key in keys:
            L.append("%s.set_key k %s %d" % (fam, hx(key), ks))
            for _ in range(3):
                blk = blocks[bi % len(blocks)] if blocks and rng.chance(0.6) else rng.bytes(bs); bi += 1
                L.append("%s.enc k %s" % (fam, hx(blk)))
                L.append("%s.dec k %s" % (fam, hx(blk)))
                if stats: stats.op(fam + ".enc"); stats.op(fam + ".dec")
        scripts.append(("block-%s-%d" % (fam, ks), L))
    return scripts

def gen_mantis(rng, n_random, stats=None):
    scripts = []
    for rounds in (5, 6, 7, 8):
        for mode in (1, 0):
            L = ["mantis.key.new m"]
            blocks = directed_blocks(8)
            for i in range(n_random):
                key = rng.bytes(16) if i > 1 else (bytes(16) if i == 0 else bytes([0xff]) * 16)
                L.append("mantis.set_key m %s 16 %d %d" % (hx(key), rounds, mode))
                L.append("mantis.crypt m %s" % hx(rng.bytes(8)))       # fresh schedule: zero tweak
                tw = rng.bytes(8)
                L.append("mantis.set_tweak m %s 8" % hx(tw))
                for _ in range(3):
                    blk = rng.choice(blocks) if rng.chance(0.5) else rng.bytes(8)
                    L.append("mantis.crypt m %s" % hx(blk))
                    L.append("mantis.crypt_tweaked m %s %s" % (hx(tw), hx(blk)))
                    L.append("mantis.crypt_tweaked m %s %s" % (hx(rng.bytes(8)), hx(blk)))
                if rng.chance(0.5):
                    L.append("mantis.swap m")
                    L.append("mantis.crypt m %s" % hx(rng.bytes(8)))
                    if rng.chance(0.5):
                        L.append("mantis.set_tweak m NULL 8")
                        L.append("mantis.crypt m %s" % hx(rng.bytes(8)))
                    L.append("mantis.swap m")
                    L.append("mantis.crypt m %s" % hx(rng.bytes(8)))
                if stats: stats.op("mantis.crypt")
            scripts.append(("mantis-r%d-m%d" % (rounds, mode), L))
    return scripts

# ------------------------------------------------------------------ C04: tweak histories
def gen_tweak(rng, n, with_null=True, stats=None):
    scripts = []
    for fam in ("s128", "s64"):
        bs, _, tk = FAM[fam]
        for ks in tk:
            L = ["%s.tkey.new t" % fam]
            for _ in range(n):
                key = rng.bytes(ks)
                L.append("%s.set_tweaked_key t %s %d" % (fam, hx(key), ks))
                L.append("%s.tenc t %s" % (fam, hx(rng.bytes(bs))))      # fresh: zero tweak
                last = None
                for _ in range(rng.below(6)):
                    r = rng.below(12)
                    if r >= 10 and last is not None:
                        # related tweaks: a prefix of the previous tweak, the same tweak again, the previous tweak with a
                        # changed tail, or a zero prefix (what a change-detection shortcut would get wrong)
                        kind = rng.below(4)
                        tl = 1 + rng.below(bs)
                        if kind == 0: tw = last[:tl]
                        elif kind == 1: tw, tl = last, len(last)
                        elif kind == 2: tw = last[:tl - 1] + bytes([last[tl - 1] ^ (1 + rng.below(255))]) if tl <= len(last) else (last + rng.bytes(tl))[:tl]
                        else: tw = bytes(tl)
                        if len(tw) < tl: tw = tw + bytes(tl - len(tw))
                        L.append("%s.set_tweak t %s %d" % (fam, hx(tw), tl))
                        if stats: stats.cls("tweak-related-%d" % kind)
                        last = tw + bytes(bs - tl)
                        blk = rng.bytes(bs)
                        L.append("%s.tenc t %s" % (fam, hx(blk)))
                        L.append("%s.tdec t %s" % (fam, hx(blk)))
                        continue
                    r = rng.below(10)
                    if r == 0 and with_null:
                        L.append("? %s.set_tweak t NULL %d" % (fam, 1 + rng.below(bs)))
                        if stats: stats.cls("null-tweak")
                        last = bytes(bs)
                    else:
                        tl = bs if r < 5 else 1 + rng.below(bs)
                        tw = rng.bytes(tl)
                        L.append("%s.set_tweak t %s %d" % (fam, hx(tw), tl))
                        if stats: stats.cls("tweak-len-%d" % tl)
                        last = tw + bytes(bs - tl)
                    blk = rng.bytes(bs)
                    L.append("%s.tenc t %s" % (fam, hx(blk)))
                    L.append("%s.tdec t %s" % (fam, hx(blk)))
            scripts.append(("tweak-%s-%d" % (fam, ks), L))
    return scripts

# ------------------------------------------------------------------ C05 / C06: CTR streams
CTRFAM = {"ctr128": (16, "s128"), "ctr64": (8, "s64"), "mctr": (8, "mantis")}

def carry_counters(rng, bs):
    out = [bytes(bs), bytes([0xff]) * bs]
    for k in range(bs):
        for j in (1, 2, 5, 9):
            v = (1 << (8 * (k + 1))) - j
            out.append((v % (1 << (8 * bs))).to_bytes(bs, "big"))
    out += [rng.bytes(bs) for _ in range(4)]
    return out

def ctr_key_lines(rng, fam, h):
    bs, base = CTRFAM[fam]
    if fam == "mctr":
        L = ["mctr.set_key %s %s 16 %d" % (h, hx(rng.bytes(16)), 5 + rng.below(4))]
        if rng.chance(0.5): L.append("mctr.set_tweak %s %s 8" % (h, hx(rng.bytes(8))))
        return L
    if rng.chance(0.4):
        ks = rng.choice(FAM[base][2])
        L = ["%s.set_tweaked_key %s %s %d" % (fam, h, hx(rng.bytes(ks)), ks)]
        if rng.chance(0.7):
            tl = bs if rng.chance(0.6) else 1 + rng.below(bs)
            L.append("%s.set_tweak %s %s %d" % (fam, h, hx(rng.bytes(tl)), tl))
        return L
    ks = rng.choice(FAM[base][1])
    return ["%s.set_key %s %s %d" % (fam, h, hx(rng.bytes(ks)), ks)]

def cut_sizes(rng, bs, B, total):
    special = [0, 1, bs - 1, bs, bs + 1, B * bs - 1, B * bs, B * bs + 1, 2 * B * bs + 3]
    cuts = []
    left = total
    pos = 0
    W = rng.choice([bs, 4 * bs, 8 * bs])      # bytes per keystream batch of some back end
    while left > 0:
        c = rng.choice(special) if rng.chance(0.6) else rng.below(3 * B * bs)
        if rng.chance(0.25):
            # drain what is left of the current batch and stop exactly on a batch edge, 0..2 whole batches later
            c = (W - pos % W) % W + rng.below(3) * W
        c = min(c, left)
        pos += c
        cuts.append(c); left -= c
        if len(cuts) > 40: cuts.append(left); break
    if rng.chance(0.3): cuts.insert(rng.below(len(cuts) + 1), 0)
    return cuts

def gen_ctr(rng, n, B=8, set_counter_always=False, stats=None, fams=("ctr128", "ctr64", "mctr")):
    scripts = []
    for fam in fams:
        bs, _ = CTRFAM[fam]
        counters = carry_counters(rng, bs)
        L = ["h.new c garbage"]
        for i in range(n):
            L.append("%s.init c" % fam)
            L += ctr_key_lines(rng, fam, "c")
            mode = rng.below(5)
            if mode == 0 and not set_counter_always:
                if stats: stats.cls("default-counter")
            elif mode == 1:
                # a null counter means the all-zero counter whatever size accompanies it
                L.append("%s.set_counter c NULL %d" % (fam, rng.choice([0, 1, bs // 2, bs - 1, bs])))
                if stats: stats.cls("null-counter")
            elif mode == 2:
                cl = rng.below(bs + 1)
                L.append("%s.set_counter c %s %d" % (fam, hx(rng.bytes(cl)), cl))
                if stats: stats.cls("short-counter")
            else:
                L.append("%s.set_counter c %s %d" % (fam, hx(rng.choice(counters)), bs))
                if stats: stats.cls("carry-counter")
            total = rng.choice([0, 1, bs, B * bs, 3 * B * bs + 5]) if rng.chance(0.4) else rng.below(4 * B * bs)
            for c in cut_sizes(rng, bs, B, total):
                L.append("%s.encrypt c %s" % (fam, hx(rng.bytes(c))))
                if stats: stats.op(fam + ".encrypt")
            if rng.chance(0.3):
                # a second stream on the same object after a new counter
                L.append("%s.set_counter c %s %d" % (fam, hx(rng.choice(counters)), bs))
                L.append("%s.encrypt c %s" % (fam, hx(rng.bytes(rng.below(2 * B * bs)))))
            L.append("%s.cleanup c" % fam)
        scripts.append(("ctr-%s" % fam, L))
        # directed: counters whose increments carry through many bytes / wrap around / enter the pad byte of a
        # short counter, long enough for every lane of every back end to step at least twice
        hard = [bytes([0xff]) * (bs - 1) + bytes([0xfd]), bytes([0x3a]) + bytes([0xff]) * (bs - 2) + bytes([0xf5]),
                bytes([0xff]) * (bs - 2) + bytes([0xfa]), bytes(bs - 2) + bytes([0xff, 0xf9]), bytes(bs - 3) + bytes([0xfe, 0xff, 0xfc])]
        D = ["h.new c zero", "%s.init c" % fam] + ctr_key_lines(rng, fam, "c")
        for hc in (hard if n > 8 else [hard[rng.below(2)], hard[2], hard[3 + rng.below(2)]]):
            D.append("%s.set_counter c %s %d" % (fam, hx(hc), len(hc)))
            total = 3 * B * bs + 5
            if rng.chance(0.5):
                D.append("%s.encrypt c %s" % (fam, hx(rng.bytes(total))))
            else:
                for c in cut_sizes(rng, bs, B, total): D.append("%s.encrypt c %s" % (fam, hx(rng.bytes(c))))
            if stats: stats.cls("directed-carry")
        # directed: a call that ends inside a batch, one that drains the rest and runs k whole batches to end exactly on a
        # batch edge, one more call - for the batch width of every back end
        for Wd in (bs, 4 * bs, 8 * bs):
            for o, k in ((5, 1), (Wd - 1, 2)):
                D.append("%s.set_counter c %s %d" % (fam, hx(rng.bytes(bs)), bs))
                for c in (o, (Wd - o) + k * Wd, 40, Wd + 3):
                    D.append("%s.encrypt c %s" % (fam, hx(rng.bytes(c))))
                if stats: stats.cls("directed-drain-to-edge")
        # directed: null counter with a non-zero size (the stack is dirtied before every call by the driver)
        for cl in ([1, bs] if n <= 8 else [1, 2, bs // 2, bs - 1, bs]):
            D.append("%s.set_counter c NULL %d" % (fam, cl))
            D.append("%s.encrypt c %s" % (fam, hx(rng.bytes(B * bs + 3))))
            if stats: stats.cls("directed-null-counter")
        D.append("%s.cleanup c" % fam)
        scripts.append(("ctr-carry-%s" % fam, D))
    return scripts

def gen_ctr_midstream(rng, n, stats=None):
    """key / tweak changes in the middle of a stream (C06 only: C05 does not define the result)"""
    scripts = []
    for fam in ("ctr128", "ctr64", "mctr"):
        bs, _ = CTRFAM[fam]
        L = ["h.new c zero"]
        for i in range(n):
            L.append("%s.init c" % fam)
            L += ctr_key_lines(rng, fam, "c")
            L.append("%s.set_counter c %s %d" % (fam, hx(rng.bytes(bs)), bs))
            L.append("%s.encrypt c %s" % (fam, hx(rng.bytes(1 + rng.below(3 * bs)))))
            L += ctr_key_lines(rng, fam, "c")
            L.append("%s.encrypt c %s" % (fam, hx(rng.bytes(1 + rng.below(12 * bs)))))
            L.append("%s.cleanup c" % fam)
            if stats: stats.cls("midstream-rekey")
        scripts.append(("midstream-%s" % fam, L))
        # directed: the change lands on every block boundary inside a batch, just off a boundary, and on batch boundaries
        D = ["h.new c zero", "%s.init c" % fam]
        offs = [bs * k for k in range(1, 10)] + [5, bs + 3, 8 * bs - 1, 8 * bs + 1, 4 * bs - 1]
        if n <= 8: offs = [bs, 2 * bs, 3 * bs, 5 * bs, 7 * bs, 8 * bs, 5, 4 * bs + 1]
        for off in offs:
            D += ctr_key_lines(rng, fam, "c")
            D.append("%s.set_counter c %s %d" % (fam, hx(rng.bytes(bs)), bs))
            D.append("%s.encrypt c %s" % (fam, hx(rng.bytes(off))))
            D += ctr_key_lines(rng, fam, "c")
            D.append("%s.encrypt c %s" % (fam, hx(rng.bytes(2 * bs + 3))))
            if stats: stats.cls("midstream-aligned" if off % bs == 0 else "midstream-unaligned")
        D.append("%s.cleanup c" % fam)
        scripts.append(("midstream-directed-%s" % fam, D))
    return scripts

# ------------------------------------------------------------------ C07: parallel ECB
def gen_parallel(rng, n, stats=None):
    scripts = []
    for fam, bs, base in (("par128", 16, "s128"), ("par64", 8, "s64")):
        L = ["h.new p garbage", "%s.init p" % fam, "%s.psize p" % fam, "%s.key.new k" % base]
        counts = list(range(0, 27)) + [rng.below(80) for _ in range(n)]
        for cnt in counts:
            ks = rng.choice(FAM[base][1])
            key = rng.bytes(ks)
            L.append("%s.set_key p %s %d" % (fam, hx(key), ks))
            data = rng.bytes(cnt * bs)
            L.append("%s.encrypt p %s" % (fam, hx(data)))
            L.append("%s.decrypt p %s" % (fam, hx(data)))
            if cnt and rng.chance(0.3):
                L.append("%s.encrypt p %s" % (fam, hx(data[:-1])))      # not a whole number of blocks
                if stats: stats.cls("par-bad-size")
            if stats: stats.op(fam + ".encrypt")
        L.append("%s.cleanup p" % fam)
        scripts.append(("par-%s" % fam, L))
    L = ["h.new p garbage", "mpar.init p", "mpar.psize p"]
    for cnt in list(range(0, 19)) + [rng.below(60) for _ in range(n)]:
        L.append("mpar.set_key p %s 16 %d %d" % (hx(rng.bytes(16)), 5 + rng.below(4), rng.below(2)))
        data = rng.bytes(cnt * 8); tw = rng.bytes(cnt * 8)
        L.append("mpar.crypt p %s %s" % (hx(tw), hx(data)))
        if rng.chance(0.4):
            L.append("mpar.swap p")
            L.append("mpar.crypt p %s %s" % (hx(tw), hx(data)))
    L.append("mpar.cleanup p")
    scripts.append(("par-mpar", L))
    return scripts

# ------------------------------------------------------------------ C10: key lengths
def gen_keylen(rng, stats=None, junk_patterns=(0xA5, 0x00, 0xFF, 0x3C)):
    scripts = []
    for fam in ("s128", "s64"):
        bs = FAM[fam][0]
        for pat in junk_patterns:
            L = ["junk %d" % pat, "%s.key.new k" % fam, "%s.tkey.new t" % fam, "h.new c zero", "h.new p zero",
                 "ctr%s.init c" % fam[1:], "par%s.init p" % fam[1:]]
            # a valid key first so that a rejected length can be seen to leave it untouched
            good = rng.bytes(bs)
            for ln in list(range(0, 3 * bs + 17)) + [2**31, 2**32 - 1, 2**32 - bs]:
                key = rng.bytes(min(ln, 3 * bs + 16))
                blk = rng.bytes(bs)
                L.append("%s.set_key k %s %d" % (fam, hx(good), bs))
                L.append("%s.set_key k %s %d" % (fam, hx(key), ln))
                L.append("%s.enc k %s" % (fam, hx(blk)))
                L.append("%s.set_tweaked_key t %s %d" % (fam, hx(good), bs))
                # a stored tweak: a rejected key must leave it (and the schedule that contains it) alone, so that the next
                # tweak change still xors the right old tweak out
                L.append("%s.set_tweak t %s %d" % (fam, hx(rng.bytes(bs)), bs))
                L.append("%s.set_tweaked_key t %s %d" % (fam, hx(key), ln))
                L.append("%s.tenc t %s" % (fam, hx(blk)))
                L.append("%s.set_tweak t %s %d" % (fam, hx(rng.bytes(bs)), bs))
                L.append("%s.tenc t %s" % (fam, hx(blk)))
                L.append("ctr%s.set_key c %s %d" % (fam[1:], hx(good), bs))
                L.append("ctr%s.set_key c %s %d" % (fam[1:], hx(key), ln))
                L.append("ctr%s.set_counter c NULL 0" % fam[1:])
                L.append("ctr%s.encrypt c %s" % (fam[1:], hx(blk)))
                L.append("ctr%s.set_tweaked_key c %s %d" % (fam[1:], hx(good), bs))
                L.append("ctr%s.set_tweak c %s %d" % (fam[1:], hx(rng.bytes(bs)), bs))
                L.append("ctr%s.set_tweaked_key c %s %d" % (fam[1:], hx(key), ln))
                L.append("ctr%s.set_counter c NULL 0" % fam[1:])
                L.append("ctr%s.encrypt c %s" % (fam[1:], hx(blk)))
                L.append("ctr%s.set_tweak c %s %d" % (fam[1:], hx(rng.bytes(bs)), bs))
                L.append("ctr%s.set_counter c NULL 0" % fam[1:])
                L.append("ctr%s.encrypt c %s" % (fam[1:], hx(blk)))
                L.append("par%s.set_key p %s %d" % (fam[1:], hx(good), bs))
                L.append("par%s.set_key p %s %d" % (fam[1:], hx(key), ln))
                L.append("par%s.encrypt p %s" % (fam[1:], hx(blk)))
                if stats: stats.cls("keylen-%s" % ("in" if bs <= ln <= 3 * bs else "out"))
            L += ["ctr%s.cleanup c" % fam[1:], "par%s.cleanup p" % fam[1:]]
            scripts.append(("keylen-%s-junk%02x" % (fam, pat), L))
    L = ["mantis.key.new m", "h.new c zero", "mctr.init c", "h.new p zero", "mpar.init p"]
    good = rng.bytes(16)
    for ln in list(range(0, 34)) + [2**32 - 1]:
        for rounds in (0, 4, 5, 8, 9, 2**31):
            key = rng.bytes(min(ln, 33))
            L.append("mantis.set_key m %s 16 6 1" % hx(good))
            L.append("mantis.set_key m %s %d %d 1" % (hx(key), ln, rounds))
            L.append("mantis.crypt m %s" % hx(rng.bytes(8)))
            L.append("mctr.set_key c %s 16 6" % hx(good))
            L.append("mctr.set_key c %s %d %d" % (hx(key), ln, rounds))
            L.append("mctr.set_counter c NULL 0")
            L.append("mctr.encrypt c %s" % hx(rng.bytes(8)))
    L += ["mctr.cleanup c", "mpar.cleanup p"]
    scripts.append(("keylen-mantis", L))
    return scripts

# ------------------------------------------------------------------ C14 / C15 / C16: API walks
def gen_api_walk(rng, n_walks, steps, invalid_rate=0.2, lifecycle=True, fail_rate=0.0, stats=None):
    """random walks over the object API with a share of invalid calls of every class; every call
    that might crash is marked may-fault ('? ') so the C driver probes it in a child first"""
    scripts = []
    for w in range(n_walks):
        fam = rng.choice(["ctr128", "ctr64", "mctr", "par128", "par64", "mpar"])
        is_par = fam.startswith("par") or fam == "mpar"
        bs = 16 if fam.endswith("128") else 8
        base = {"ctr128": "s128", "par128": "s128", "ctr64": "s64", "par64": "s64"}.get(fam, "mantis")
        names = ["a", "b"]
        # (with allocation failures switched on, every third walk starts from an object holding garbage whose very first
        # initialisation fails - the case in which "left inert" is not the same as "left untouched")
        forced_fail = bool(fail_rate) and w % 3 == 0
        L = ["h.new a %s" % ("garbage" if forced_fail else rng.choice(["zero", "garbage"])), "h.new b zero"]
        state = {"a": "raw", "b": "zero"}     # raw | zero | live | keyed | cleaned | failed
        if forced_fail:
            L += ["failat 0", "%s.init a" % fam, "failat none"]; state["a"] = "failed"
            if stats: stats.cls("alloc-fail-on-garbage")
        def key_line(h, valid=True):
            if base == "mantis":
                k = rng.bytes(16)
                if fam == "mctr":
                    if valid: return "mctr.set_key %s %s 16 %d" % (h, hx(k), 5 + rng.below(4))
                    c = rng.below(4)
                    if stats: stats.cls("inv-mantis-key-%d" % c)
                    return ["mctr.set_key %s NULL 16 5" % h, "mctr.set_key %s %s 15 5" % (h, hx(k)), "mctr.set_key %s %s 16 4" % (h, hx(k)), "mctr.set_key %s %s 16 9" % (h, hx(k))][c]
                if valid: return "mpar.set_key %s %s 16 %d %d" % (h, hx(k), 5 + rng.below(4), rng.below(2))
                c = rng.below(4)
                if stats: stats.cls("inv-mantis-key-%d" % c)
                return ["mpar.set_key %s NULL 16 5 1" % h, "mpar.set_key %s %s 17 5 1" % (h, hx(k)), "mpar.set_key %s %s 16 4 0" % (h, hx(k)), "mpar.set_key %s %s 16 9 1" % (h, hx(k))][c]
            if valid:
                ks = rng.choice(FAM[base][1])
                return "%s.set_key %s %s %d" % (fam, h, hx(rng.bytes(ks)), ks)
            c = rng.below(3)
            if stats: stats.cls("inv-key-%d" % c)
            return ["%s.set_key %s NULL %d" % (fam, h, bs), "%s.set_key %s %s %d" % (fam, h, hx(rng.bytes(bs - 1)), bs - 1),
                    "%s.set_key %s %s %d" % (fam, h, hx(rng.bytes(3 * bs + 1)), 3 * bs + 1)][c]
        def data_line(h, valid=True):
            if fam == "mpar":
                n = rng.below(20)
                if not valid:
                    if stats: stats.cls("inv-par-size")
                    return "mpar.crypt %s %s %s" % (h, hx(rng.bytes(8 * n + 8)), hx(rng.bytes(8 * n + 1 + rng.below(7))))
                return "mpar.crypt %s %s %s" % (h, hx(rng.bytes(8 * n)), hx(rng.bytes(8 * n)))
            if is_par:
                n = rng.below(12)
                if not valid:
                    if stats: stats.cls("inv-par-size")
                    return "%s.%s %s %s" % (fam, rng.choice(["encrypt", "decrypt"]), h, hx(rng.bytes(bs * n + 1 + rng.below(bs - 1))))
                return "%s.%s %s %s" % (fam, rng.choice(["encrypt", "decrypt"]), h, hx(rng.bytes(bs * n)))
            if not valid:
                if stats: stats.cls("inv-null-data")
                return "%s.encrypt %s NULL" % (fam, h)
            return "%s.encrypt %s %s" % (fam, h, hx(rng.bytes(rng.below(5 * bs))))
        for s in range(steps):
            h = rng.choice(names)
            stt = state[h]
            inv = rng.chance(invalid_rate)
            if stt in ("raw",):
                # the only defined first operation on an object of unknown content is init
                if fail_rate and rng.chance(fail_rate):
                    L.append("failat 0"); L.append("%s.init %s" % (fam, h)); L.append("failat none"); state[h] = "failed"
                    if stats: stats.cls("alloc-fail")
                else:
                    L.append("%s.init %s" % (fam, h)); state[h] = "live"
                continue
            r = rng.below(10)
            if inv and rng.chance(0.15):
                # null handle
                fn = rng.choice(["init", "cleanup", "key", "data"])
                if stats: stats.cls("null-handle-" + fn)
                if fn == "init": L.append("? %s.init NULL" % fam)
                elif fn == "cleanup": L.append("%s.cleanup NULL" % fam)
                elif fn == "key": L.append(key_line("NULL"))
                else: L.append(data_line("NULL"))
                continue
            if stt in ("zero", "cleaned", "failed"):
                # inert object: everything but init must return 0 / do nothing
                if r < 3 or not lifecycle:
                    if fail_rate and rng.chance(fail_rate):
                        L.append("failat 0"); L.append("%s.init %s" % (fam, h)); L.append("failat none"); state[h] = "failed"
                        if stats: stats.cls("alloc-fail")
                    else:
                        L.append("%s.init %s" % (fam, h)); state[h] = "live"
                elif r < 5:
                    L.append(("? " if stt == "failed" else "") + "%s.cleanup %s" % (fam, h))
                    if stats: stats.cls("cleanup-on-" + stt)
                elif r < 7:
                    L.append(("? " if stt == "failed" else "") + key_line(h))
                    if stats: stats.cls("key-on-" + stt)
                else:
                    L.append(("? " if stt == "failed" else "") + data_line(h))
                    if stats: stats.cls("data-on-" + stt)
                continue
            # live / keyed
            if r == 0 and lifecycle:
                L.append("%s.cleanup %s" % (fam, h)); state[h] = "cleaned"
            elif r <= 2:
                L.append(key_line(h, valid=not inv))
                if not inv: state[h] = "keyed"
            elif r == 3 and not is_par:
                if inv:
                    L.append("%s.set_counter %s %s %d" % (fam, h, hx(rng.bytes(bs + 1)), bs + 1))
                    if stats: stats.cls("inv-counter-size")
                else:
                    cl = rng.below(bs + 1)
                    L.append("%s.set_counter %s %s %d" % (fam, h, hx(rng.bytes(cl)) if rng.chance(0.8) else "NULL", cl))
            elif r == 4 and fam in ("ctr128", "ctr64") and stt == "keyed":
                ks = rng.choice(FAM[base][2])
                if inv:
                    L.append("%s.set_tweaked_key %s %s %d" % (fam, h, hx(rng.bytes(2 * bs + 1)), 2 * bs + 1))
                    if stats: stats.cls("inv-tweaked-key-size")
                else:
                    L.append("%s.set_tweaked_key %s %s %d" % (fam, h, hx(rng.bytes(ks)), ks))
                    L.append("%s.set_tweak %s %s %d" % (fam, h, hx(rng.bytes(bs)), bs))
                    if inv or rng.chance(0.3):
                        L.append("%s.set_tweak %s %s %d" % (fam, h, hx(rng.bytes(bs)), rng.choice([0, bs + 1])))
                        if stats: stats.cls("inv-tweak-size")
            elif stt == "keyed":
                # after an invalid call the stream must continue as if nothing happened
                if not is_par and rng.chance(0.5): L.append("%s.set_counter %s %s %d" % (fam, h, hx(rng.bytes(bs)), bs))
                L.append(data_line(h, valid=not inv))
        for h in names:
            if state[h] in ("live", "keyed"): L.append("%s.cleanup %s" % (fam, h))
        L.append("heap")
        scripts.append(("walk-%s-%d" % (fam, w), L))
    return scripts


def gen_invalid_midstream(rng, n, stats=None):
    """C14: every class of invalid call placed in the middle of a CTR stream (at a position that is not a block
    boundary, so keystream is buffered) or between parallel calls; the following output must be what it would
    have been without the call"""
    scripts = []
    for fam, base, bs in (("ctr128", "s128", 16), ("ctr64", "s64", 8), ("mctr", "mantis", 8)):
        for w in range(n):
            L = ["h.new a zero", "%s.init a" % fam]
            if base == "mantis":
                L.append("mctr.set_key a %s 16 %d" % (hx(rng.bytes(16)), 5 + rng.below(4)))
                L.append("mctr.set_tweak a %s 8" % hx(rng.bytes(8)))
            else:
                ks = rng.choice(FAM[base][2])
                L.append("%s.set_tweaked_key a %s %d" % (fam, hx(rng.bytes(ks)), ks))
                L.append("%s.set_tweak a %s %d" % (fam, hx(rng.bytes(bs)), bs))
            L.append("%s.set_counter a %s %d" % (fam, hx(rng.bytes(bs)), bs))
            for rep in range(4):
                n1 = rng.below(9 * bs) + 1
                if rng.chance(0.8) and n1 % bs == 0: n1 += 1 + rng.below(bs - 1)
                L.append("%s.encrypt a %s" % (fam, hx(rng.bytes(n1))))
                k = rng.bytes(3 * bs + 1)
                if base == "mantis":
                    bad = ["mctr.set_key a NULL 16 5", "mctr.set_key a %s 15 5" % hx(k[:15]), "mctr.set_key a %s 16 4" % hx(k[:16]), "mctr.set_key a %s 16 9" % hx(k[:16]),
                           "mctr.set_tweak a %s 7" % hx(k[:7]), "mctr.set_tweak a %s 9" % hx(k[:9]), "mctr.set_tweak a NULL 0",
                           "mctr.set_counter a %s 9" % hx(k[:9]), "mctr.encrypt a NULL"]
                else:
                    bad = ["%s.set_key a NULL %d" % (fam, bs), "%s.set_key a %s %d" % (fam, hx(k[:bs - 1]), bs - 1), "%s.set_key a %s %d" % (fam, hx(k), 3 * bs + 1),
                           "%s.set_tweaked_key a NULL %d" % (fam, bs), "%s.set_tweaked_key a %s %d" % (fam, hx(k[:bs - 1]), bs - 1), "%s.set_tweaked_key a %s %d" % (fam, hx(k[:2 * bs + 1]), 2 * bs + 1),
                           "%s.set_tweak a %s 0" % (fam, hx(k[:bs])), "%s.set_tweak a %s %d" % (fam, hx(k[:bs + 1]), bs + 1), "%s.set_tweak a NULL 0" % fam, "%s.set_tweak a NULL %d" % (fam, bs + 1),
                           "%s.set_counter a %s %d" % (fam, hx(k[:bs + 1]), bs + 1), "%s.encrypt a NULL" % fam]
                c = rng.below(len(bad))
                if stats: stats.cls("inv-midstream-%s-%d" % (fam, c))
                L.append(bad[c])
                L.append("%s.encrypt a %s" % (fam, hx(rng.bytes(rng.below(5 * bs) + 1))))
            L += ["%s.cleanup a" % fam, "heap"]
            scripts.append(("invmid-%s-%d" % (fam, w), L))
    for fam, base, bs in (("par128", "s128", 16), ("par64", "s64", 8)):
        for w in range(max(1, n // 2)):
            ks = rng.choice(FAM[base][1])
            L = ["h.new a zero", "%s.init a" % fam, "%s.set_key a %s %d" % (fam, hx(rng.bytes(ks)), ks)]
            for rep in range(3):
                k = rng.bytes(3 * bs + 1)
                bad = ["%s.set_key a NULL %d" % (fam, bs), "%s.set_key a %s %d" % (fam, hx(k[:bs - 1]), bs - 1), "%s.set_key a %s %d" % (fam, hx(k), 3 * bs + 1),
                       "%s.encrypt a %s" % (fam, hx(k[:bs + 3]))]
                L.append(bad[rng.below(len(bad))])
                L.append("%s.%s a %s" % (fam, rng.choice(["encrypt", "decrypt"]), hx(rng.bytes(bs * (1 + rng.below(10))))))
            L += ["%s.cleanup a" % fam, "heap"]
            scripts.append(("invmid-%s-%d" % (fam, w), L))
    return scripts
