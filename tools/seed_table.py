#!/usr/bin/env python3
"""seed_table.py <sweep-log>... -- markdown table for DESIGN.md section 14: one row per seeded change
(seeded/<id>/meta.json) with the outcome of the last sweep line that mentions it."""
import json, os, re, sys
here = os.path.join(os.path.dirname(os.path.abspath(__file__)), "..")
res = {}
for p in sys.argv[1:]:
    for l in open(p, errors="replace"):
        m = re.match(r"^(C\d\d_[abc]) (C\d\d) (quick|thorough) rc=(\d+) (.*)$", l.strip())
        if not m: continue
        sid, prop, tier, rc, rest = m.groups()
        if int(rc) == 0: out = "silent"
        else:
            first = rest.split("VIOLATION")[1] if "VIOLATION" in rest else rest
            allv = rest.split("VIOLATION")[1:]
            wit = any("no-failing-input-found" not in v for v in allv)
            kinds = set()
            for v in allv:
                r = re.search(r"replay=\S*/C\d\d-\d+-(\S+)\.ops", v)
                if r:
                    t = r.group(1)
                    kinds.add("oracle " + t.split("oracle-")[1] if t.startswith("oracle-") else ("broken obligation + search" if t == "obligation" else ("correspondence" if t.endswith("-corr") else "script " + t.split("-", 2)[-1])))
            out = ("witness" if wit else "reported, no witness") + " (" + "; ".join(sorted(kinds))[:70] + ")"
        res.setdefault(sid, {})[tier] = out
rows = []
for sid in sorted(os.listdir(os.path.join(here, "seeded"))):
    mp = os.path.join(here, "seeded", sid, "meta.json")
    if not os.path.exists(mp): continue
    try: meta = json.load(open(mp))
    except Exception: continue
    summ = (meta.get("summary") or "").replace("|", "/").replace("\n", " ")
    summ = summ[:150] + ("…" if len(summ) > 150 else "")
    r = res.get(sid, {})
    q = r.get("quick", "-"); t = r.get("thorough", "" if q != "silent" else "-")
    rows.append("| %s | %s | %s | %s |" % (sid, summ, q, t))
print("| seed | change (from its meta.json) | quick tier | thorough tier (run only when quick is silent) |")
print("|---|---|---|---|")
print("\n".join(rows))
