#!/usr/bin/env python3
"""Per-property configuration of the checks: Lean modules and theorems that carry the
property, script generators for the correspondence, build configurations, back ends, oracles."""
import gen_ops, vlib
from vlib import DEFAULT_CFG, QUICK_MATRIX, full_matrix, BuildCfg

TRUSTED_BASE = [
    "Lean 4.33.0 kernel; axioms propext, Classical.choice, Quot.sound only (audited by #print axioms on every listed theorem each run; no native_decide, no bv_decide, no sorry/admit, no user axioms)",
    "Spec/*.lean: hand transcription of the SKINNY/MANTIS paper and of the properties' prose (guarded by the published test vectors, evaluated at build time, and by double definitions of the S-boxes)",
    "tools/c2lean.py + clang-14 JSON AST: translation of C functions and loop bodies to Lean under host assumptions (two's complement, little-endian x86-64, CHAR_BIT=8, GCC union punning and vector semantics); regenerated from /repo on every run",
    "hand model Impl/*.lean and Api/World.lean (control structure: loops over rounds, key-length dispatch, CTR buffer state machine, object/heap handling): validated against the compiled library by the line-protocol correspondence harness (harness/cdrv.c vs lean_exe skinny_model) on every run; differential testing, not proof",
    "libc (memcpy, memset, calloc, free), the C compilers, the CPU",
]
ASSUMPTIONS = [
    "the theorems are about the Lean model; the tie to /repo is (a) regeneration of all bit-level code by the translator and (b) agreement of model and library on the scripts run",
]

def only_default(tier): return [DEFAULT_CFG]
def cfg_matrix(tier): return QUICK_MATRIX if tier == "quick" else full_matrix()
def scalar_cfgs(tier):
    return [DEFAULT_CFG, BuildCfg("w32", w64=0)] if tier == "quick" else [DEFAULT_CFG, BuildCfg("w32", w64=0), BuildCfg("neutral64", le=0, vec128=0, vec256=0, unaligned=0), BuildCfg("neutral32", w64=0, le=0, vec128=0, vec256=0, unaligned=0), BuildCfg("clang-O2", cc="clang-14", opt="-O2"), BuildCfg("gcc-O0", opt="-O0")]
def all_backends(tier): return ["generic", "vec128", "vec256"]
def one_backend(tier): return ["vec256"]

def N(tier, q, t): return q if tier == "quick" else t

def s_c01(rng, tier, st):
    return gen_ops.gen_block(rng, "s128", N(tier, 6, 200), stats=st) + gen_ops.gen_block(rng, "s64", N(tier, 6, 200), stats=st)
def s_c02(rng, tier, st): return gen_ops.gen_mantis(rng, N(tier, 6, 120), stats=st)
def s_c03(rng, tier, st):
    return gen_ops.gen_block(rng, "s128", N(tier, 3, 60), directed=False, stats=st) + gen_ops.gen_block(rng, "s64", N(tier, 3, 60), directed=False, stats=st) + \
           gen_ops.gen_mantis(rng, N(tier, 3, 40), stats=st) + gen_ops.gen_parallel(rng, N(tier, 4, 40), stats=st)
def s_c04(rng, tier, st): return gen_ops.gen_tweak(rng, N(tier, 8, 150), stats=st)
def s_c05(rng, tier, st): return gen_ops.gen_ctr(rng, N(tier, 10, 150), stats=st)
def s_c06(rng, tier, st):
    return gen_ops.gen_ctr(rng, N(tier, 6, 80), stats=st) + gen_ops.gen_ctr_midstream(rng, N(tier, 6, 80), stats=st) + gen_ops.gen_parallel(rng, N(tier, 3, 30), stats=st) + \
           gen_ops.gen_api_walk(rng, N(tier, 6, 60), 25, invalid_rate=0.25, stats=st)
def s_c07(rng, tier, st): return gen_ops.gen_parallel(rng, N(tier, 8, 100), stats=st)
def s_c10(rng, tier, st): return gen_ops.gen_keylen(rng, stats=st, junk_patterns=(0xA5, 0x00) if tier == "quick" else (0xA5, 0x00, 0xFF, 0x3C))
def s_c14(rng, tier, st): return gen_ops.gen_api_walk(rng, N(tier, 30, 400), 30, invalid_rate=0.35, stats=st) + gen_ops.gen_tweak(rng, N(tier, 2, 20), stats=st)
def s_c15(rng, tier, st): return gen_ops.gen_api_walk(rng, N(tier, 30, 400), 40, invalid_rate=0.1, stats=st)
def s_c16(rng, tier, st): return gen_ops.gen_api_walk(rng, N(tier, 30, 400), 25, invalid_rate=0.1, fail_rate=0.5, stats=st)
def s_c17(rng, tier, st): return gen_ops.gen_api_walk(rng, N(tier, 24, 300), 20, invalid_rate=0.05, stats=st)

PROPS = {
    "C01": {"scripts": s_c01, "configs": scalar_cfgs, "backends": one_backend, "modules": [], "theorems": []},
    "C02": {"scripts": s_c02, "configs": scalar_cfgs, "backends": one_backend, "modules": [], "theorems": []},
    "C03": {"scripts": s_c03, "configs": scalar_cfgs, "backends": all_backends, "modules": [], "theorems": []},
    "C04": {"scripts": s_c04, "configs": scalar_cfgs, "backends": one_backend, "modules": [], "theorems": []},
    "C05": {"scripts": s_c05, "configs": only_default, "backends": all_backends, "modules": [], "theorems": []},
    "C06": {"scripts": s_c06, "configs": only_default, "backends": all_backends, "modules": [], "theorems": []},
    "C07": {"scripts": s_c07, "configs": only_default, "backends": all_backends, "modules": [], "theorems": []},
    "C10": {"scripts": s_c10, "configs": only_default, "backends": one_backend, "modules": [], "theorems": []},
    "C14": {"scripts": s_c14, "configs": only_default, "backends": all_backends, "modules": [], "theorems": []},
    "C15": {"scripts": s_c15, "configs": only_default, "backends": all_backends, "modules": [], "theorems": []},
    "C16": {"scripts": s_c16, "configs": only_default, "backends": all_backends, "modules": [], "theorems": []},
    "C17": {"scripts": s_c17, "configs": only_default, "backends": all_backends, "modules": [], "theorems": []},
}

# ------------------------------------------------------------------ oracles
import os, re
from vlib import Rng

def _hdr(run, cfg, be):
    p = {"generic": (0, 0), "vec128": (1, 0), "vec256": (1, 1)}[be]
    return ["cfg %s 1 1 1 1" % cfg.tag(), run.sizes_line, "probes %d %d" % p]

def oracle_cross_backend(run, tier, rng):
    """C06: the same script on every back end of the compiled library gives the same output lines
    (the advertised parallel size and the allocator event log are allowed to differ)"""
    cfg = DEFAULT_CFG
    d, cexe = run.lib(cfg)
    st = gen_ops.Stats()
    scripts = s_c06(Rng(rng.next()), tier, st)
    n = 0
    for name, body in scripts:
        outs = {}
        for be in cfg.backends():
            lines = _hdr(run, cfg, be) + body
            o, rc, err = vlib.run_driver(cexe, "\n".join(lines) + "\n")
            outs[be] = [x for x, l in zip(o, lines) if not (l.endswith(".psize p") or l == "heap" or l.startswith("probes"))]
        n += 1
        ref = outs["generic"]
        for be in cfg.backends()[1:]:
            if outs[be] != ref:
                i = next(k for k in range(max(len(ref), len(outs[be]))) if (ref[k] if k < len(ref) else None) != (outs[be][k] if k < len(outs[be]) else None))
                body_f = [l for l in (_hdr(run, cfg, be) + body) if not (l.endswith(".psize p") or l == "heap" or l.startswith("probes"))]
                # shrink: keep the prefix up to the differing operation
                def differs(ls):
                    a, rca, _ = vlib.run_driver(cexe, "\n".join(["probes 0 0"] + ls) + "\n")
                    b, rcb, _ = vlib.run_driver(cexe, "\n".join(["probes %d %d" % {"vec128": (1, 0), "vec256": (1, 1)}[be]] + ls) + "\n")
                    if rca or rcb or "bad-op" in a or "bad-op" in b: return False
                    return a[1:] != b[1:]
                from run_check import shrink
                pre = [l for l in body[: max(1, i - 1)] ]
                cand = body[: min(len(body), i + 2)]
                small = shrink(cand, 0, differs) if differs(cand) else body
                return {"ok": False, "what": "back ends differ: generic vs %s at op %r: %s vs %s" % (be, body_f[i][:70] if i < len(body_f) else "?", (ref[i] if i < len(ref) else "-")[:50], (outs[be][i] if i < len(outs[be]) else "-")[:50]),
                        "witness": {"lines": ["# run once after 'probes 0 0' and once after 'probes 1 1' (or 1 0)"] + small}, "scripts": n}
    return {"ok": True, "scripts": n, "backends": cfg.backends()}

PROPS["C06"]["oracles"] = [("cross_backend", oracle_cross_backend)]
